(* C01 over whole histories: across any sequence of accepted (or refused) batches and sealed blocks, what exists
   of a denomination - coins, pool reserves, for MEL also the fee pool and the tips - grows by at most the sum of
   the explicit issuances of the steps: what the batches' faucets, new-token outputs and mints declare, the one-off
   bootstrap of the built-in pools, the capped peg nudge and (SYM) the scheduled subsidy; liquidity tokens grow only
   with the liquidity their pool records. *)
From MelVerif Require Import STF.Proofs.Tactics STF.Proofs.MapLemmas STF.Proofs.Frame STF.Proofs.Supply STF.Proofs.Pool STF.Proofs.BatchSupply
  STF.Proofs.SealCoins STF.Proofs.SealSupply STF.Proofs.PoolKeys STF.Proofs.SealLift STF.Proofs.SealInv STF.Proofs.HashFacts STF.Proofs.SealCounts
  STF.Proofs.History STF.Proofs.PoolHistory STF.Proofs.SealPegged.
From Coq Require Import ZifyN ZifyNat ZifyBool.
Open Scope N_scope.

Section SupplyHistory.
Variable K : list (denom * denom).
Hypothesis Kcodes : NoDup (map poolkey_code K).
Variable SO : stf_oracle.
Hypothesis K_builtins : In MS K /\ In ME K /\ In ES K.

(* [held K d s] (STF/Proofs/SealPegged.v) is everything of d that exists.  [grows d x s s']: from s to s' it grew by
   at most x, liquidity tokens being allowed to grow with the liquidity recorded by their pool. *)
Definition grows (d : denom) (x : N) (s s' : wstate) : Prop :=
  held K d s' + liq_of K SO d s <= held K d s + liq_of K SO d s' + x.

Lemma grows_refl d s : grows d 0 s s.
Proof. unfold grows. lia. Qed.
Lemma grows_trans d x y a b c : grows d x a b -> grows d y b c -> grows d (x + y) a c.
Proof. unfold grows. lia. Qed.

Definition is_pegged (d : denom) : bool := match d with Mel | Sym => true | _ => false end.
(* the cap on what one seal may add *)
Definition seal_cap (d : denom) (s : wstate) : N :=
  bootstrap K d s + (if is_pegged d then peg_cap s + (if denom_eqb d Mel then 0 else subsidy s) else 0).

Lemma seal_grows d s a s' : d <> NewCustom -> seal SO s a = Ok s' -> seal_premises K SO s -> grows d (seal_cap d s) s s'.
Proof.
  intros Hd H (H1 & H2 & H3 & H4 & H5 & H6 & H7 & H8). unfold grows, seal_cap.
  destruct (is_pegged d) eqn:Ep.
  - assert (P: pegged d) by (destruct d; try discriminate; [left|right]; reflexivity).
    pose proof (seal_pegged K Kcodes SO K_builtins s a s' d P H H1 H2 H3 H4 H5 H6 H7 H8) as B.
    rewrite !(liq_of_pegged K SO d _ P). lia.
  - assert (U: unpegged d) by (split; intros ->; discriminate).
    pose proof (seal_settles_unpegged K Kcodes SO K_builtins s a s' d U H H1 H2 H3 H4 H5 H6 H7 H8) as B.
    unfold held. assert (E: denom_eqb d Mel = false) by (destruct d; try reflexivity; discriminate). rewrite E. lia.
Qed.

Lemma batch_grows d s lh txs s' : d <> NewCustom -> apply_tx_batch SO s lh txs = Ok s' -> HashOK SO s txs ->
  grows d (batch_issuance d txs) s s'.
Proof.
  intros Hd H HK. pose proof (accepted_batch_supply_hash SO s lh txs s' H HK d Hd) as B.
  pose proof (accepted_batch_pools SO s lh txs s' H) as Ep.
  unfold grows, held. rewrite (psum_same K d s s' Ep), (liq_of_same K SO d s s' Ep).
  unfold fee_part in B. lia.
Qed.

Lemma next_grows d s hdr : grows d 0 s (next_unsealed s hdr).
Proof.
  assert (E: s_coins (next_unsealed s hdr) = s_coins s /\ s_pools (next_unsealed s hdr) = s_pools s /\
             s_fee_pool (next_unsealed s hdr) = s_fee_pool s /\ s_tips (next_unsealed s hdr) = s_tips s)
    by (unfold next_unsealed; destruct (_ && _); repeat split; reflexivity).
  destruct E as (E1 & E2 & E3 & E4).
  unfold grows, held. rewrite E1, E3, E4, (psum_same K d _ _ E2), (liq_of_same K SO d _ _ E2). lia.
Qed.

(* explicit issuance of one step, and of a history *)
Definition step_issuance (d : denom) (s : wstate) (o : hop) : N :=
  match o with
  | HBatch lh txs => match apply_tx_batch SO s lh txs with Ok _ => batch_issuance d txs | _ => 0 end
  | HBlock a hdr => match seal SO s a with Ok _ => seal_cap d s | _ => 0 end
  end.
Fixpoint hist_issuance (d : denom) (s : wstate) (ops : list hop) : N :=
  match ops with [] => 0 | o :: r => step_issuance d s o + hist_issuance d (hstep SO s o) r end.

Definition supply_step_ok (s : wstate) (o : hop) : Prop :=
  match o with HBatch lh txs => HashOK SO s txs | HBlock a hdr => seal_premises K SO s end.

Lemma hstep_grows d s o : d <> NewCustom -> supply_step_ok s o -> grows d (step_issuance d s o) s (hstep SO s o).
Proof.
  intros Hd Hok. destruct o as [lh txs|a hdr]; cbn [hstep step_issuance supply_step_ok] in *.
  - destruct (apply_tx_batch SO s lh txs) as [s'| |] eqn:E; [|apply grows_refl|apply grows_refl].
    eapply batch_grows; eauto.
  - destruct (seal SO s a) as [s'| |] eqn:E; [|apply grows_refl|apply grows_refl].
    replace (seal_cap d s) with (seal_cap d s + 0) by lia.
    eapply grows_trans; [eapply seal_grows; eauto|apply next_grows].
Qed.

Theorem supply_history d : d <> NewCustom -> forall ops s,
  hist_all SO supply_step_ok s ops -> grows d (hist_issuance d s ops) s (fold_left (hstep SO) ops s).
Proof.
  intros Hd. induction ops as [|o r IH]; intros s H; cbn [fold_left hist_issuance]; [apply grows_refl|].
  destruct H as [H1 H2]. eapply grows_trans; [apply hstep_grows; assumption|apply IH; exact H2].
Qed.

(* for MEL and SYM (no pool's liquidity token) this reads: held after <= held before + issuance *)
Corollary supply_history_pegged d ops s : pegged d ->
  hist_all SO supply_step_ok s ops -> held K d (fold_left (hstep SO) ops s) <= held K d s + hist_issuance d s ops.
Proof.
  intros P H. assert (Hd: d <> NewCustom) by (destruct P as [-> | ->]; discriminate).
  pose proof (supply_history d Hd ops s H) as G. unfold grows in G. rewrite !(liq_of_pegged K SO d _ P) in G. lia.
Qed.

Lemma grows_def d x s s' : grows d x s s' <-> held K d s' + liq_of K SO d s <= held K d s + liq_of K SO d s' + x.
Proof. reflexivity. Qed.
Lemma seal_cap_def d s :
  seal_cap d s = bootstrap K d s + (match d with Mel => peg_cap s | Sym => peg_cap s + subsidy s | _ => 0 end).
Proof. unfold seal_cap. destruct d; cbn [is_pegged denom_eqb]; lia. Qed.
Lemma step_issuance_def d s o :
  step_issuance d s o =
  match o with
  | HBatch lh txs => match apply_tx_batch SO s lh txs with Ok _ => batch_issuance d txs | _ => 0 end
  | HBlock a hdr => match seal SO s a with Ok _ => seal_cap d s | _ => 0 end
  end.
Proof. reflexivity. Qed.
Lemma hist_issuance_def d s ops :
  hist_issuance d s ops = match ops with [] => 0 | o :: r => step_issuance d s o + hist_issuance d (hstep SO s o) r end.
Proof. destruct ops; reflexivity. Qed.
Lemma supply_step_ok_def s o :
  supply_step_ok s o <-> match o with HBatch lh txs => HashOK SO s txs | HBlock a hdr => seal_premises K SO s end.
Proof. destruct o; reflexivity. Qed.
End SupplyHistory.

(* C04, standard signature covenants: a valid Ed25519 signature over the signature-free transaction hash by the
   named key, in the expected signature slot, is necessary and sufficient. *)
From MelVerif Require Import STF.Proofs.Tactics VM.LoopProofs Base.ArithProofs.
Open Scope N_scope.

(* Covenant::std_ed25519_pk_new / std_ed25519_pk_legacy (lib/melvm/src/lib.rs) *)
Definition std_ed25519_new (pk : list N) : list op :=
  [LoadImm HADDR_SPENDER_INDEX; PushI 6; LoadImm HADDR_SPENDER_TX; VRef; VRef; PushB pk; LoadImm 1; SigEOk 32].
Definition std_ed25519_legacy (pk : list N) : list op :=
  [PushI 0; PushI 6; LoadImm HADDR_SPENDER_TX; VRef; VRef; PushB pk; LoadImm 1; SigEOk 32].

Lemma step1_cont O prog s s' n : (pc s <? len prog) = true -> step O prog s = Some s' -> step1 O prog s n = Cont s' (n + 1).
Proof. unfold step1. intros -> ->. reflexivity. Qed.
Lemma step1_fin O prog s n : (pc s <? len prog) = false ->
  step1 O prog s n = Fin (match stack s with v :: _ => Some v | [] => None end) n.
Proof. unfold step1. intros ->. reflexivity. Qed.
Lemma step1_fail O prog s n : (pc s <? len prog) = true -> step O prog s = None -> step1 O prog s n = Fin None (n + 1).
Proof. unfold step1. intros -> ->. reflexivity. Qed.

Lemma nth_error_map_bytes (l : list (list N)) i :
  nth_error (map VBytes l) i = match nth_error l i with Some b => Some (VBytes b) | None => None end.
Proof. revert i. induction l as [|x l IH]; intros [|i]; cbn; auto. Qed.

Lemma run_nat_S O prog k s n :
  run_nat O prog (S k) s n = match step1 O prog s n with Cont s' n' => run_nat O prog k s' n' | r => r end.
Proof. reflexivity. Qed.

Section Std.
Variable O : oracle.
Variables (pk : list N) (t : tx) (inp : N * N) (c : cdh) (lh : header).
Hypothesis Hpk : length pk = 32%nat.

(* outcome of the signature check on the given slot of tx.sigs *)
Definition sig_check (slot : N) : bool :=
  match nth_error (t_sigs t) (N.to_nat slot) with
  | Some sg => if 64 <? len sg then false else o_sig O pk (be_bytes 32 (t_hash t)) sg
  | None => false
  end.

Ltac go E := rewrite run_nat_S; match type of E with step ?O' ?P' ?s0 = Some ?s1 => rewrite (step1_cont O' P' s0 s1 _ eq_refl E) end.

Theorem std_new_accepts_iff idx :
  idx < 256 ->
  covenant_accepts O (std_ed25519_new pk) (env_heap t inp c idx lh) = sig_check idx.
Proof.
  intros Hidx. unfold covenant_accepts, run. rewrite run_pos_nat.
  assert (F: Pos.to_nat (run_fuel (std_ed25519_new pk)) = 168%nat) by (vm_compute; reflexivity).
  rewrite F. clear F.
  set (H := env_heap t inp c idx lh). set (P := std_ed25519_new pk).
  set (mk := fun p st => {| pc := p; stack := st; heap := H; loops := [] |}).
  change (init_state H) with (mk 0 []).
  assert (E1: step O P (mk 0 []) = Some (mk 1 [VInt idx])) by reflexivity.
  assert (E2: step O P (mk 1 [VInt idx]) = Some (mk 2 [VInt 6; VInt idx])) by reflexivity.
  assert (E3: step O P (mk 2 [VInt 6; VInt idx]) = Some (mk 3 [tx_value t; VInt 6; VInt idx])) by reflexivity.
  assert (E4: step O P (mk 3 [tx_value t; VInt 6; VInt idx]) = Some (mk 4 [VVec (map VBytes (t_sigs t)); VInt idx])) by reflexivity.
  go E1. go E2. go E3. go E4.
  unfold sig_check.
  assert (E5: step O P (mk 4 [VVec (map VBytes (t_sigs t)); VInt idx]) =
              match nth_error (t_sigs t) (N.to_nat idx) with
              | Some sg => Some (mk 5 [VBytes sg])
              | None => None end).
  { unfold step. cbn [pc mk nth_error N.to_nat Pos.to_nat Pos.iter_op Nat.add P std_ed25519_new].
    unfold exec_op. cbn [stack mk binop into_u16 into_vec].
    destruct (N.ltb_spec 65535 idx); [lia|]. rewrite nth_error_map_bytes.
    destruct (nth_error (t_sigs t) (N.to_nat idx)); reflexivity. }
  destruct (nth_error (t_sigs t) (N.to_nat idx)) as [sg|] eqn:Es.
  - go E5.
    assert (E6: step O P (mk 5 [VBytes sg]) = Some (mk 6 [VBytes pk; VBytes sg])) by reflexivity.
    assert (E7: step O P (mk 6 [VBytes pk; VBytes sg]) = Some (mk 7 [vhash (t_hash t); VBytes pk; VBytes sg])) by reflexivity.
    go E6. go E7.
    assert (E8: step O P (mk 7 [vhash (t_hash t); VBytes pk; VBytes sg]) =
                Some (mk 8 [of_bool (if 64 <? len sg then false else o_sig O pk (be_bytes 32 (t_hash t)) sg)])).
    { unfold step. cbn [pc mk nth_error N.to_nat Pos.to_nat Pos.iter_op Nat.add P std_ed25519_new].
      unfold exec_op. cbn [stack mk triop sigeok vhash].
      unfold len. rewrite Hpk, be_bytes_length. cbn [N.of_nat Pos.of_succ_nat Pos.succ N.ltb N.eqb N.compare Pos.compare Pos.compare_cont Pos.eqb negb].
      destruct (64 <? N.of_nat (length sg)); reflexivity. }
    go E8. rewrite run_nat_S, step1_fin by reflexivity. cbn [stack mk].
    destruct (64 <? len sg); [reflexivity|]. destruct (o_sig O pk (be_bytes 32 (t_hash t)) sg); reflexivity.
  - rewrite run_nat_S. match type of E5 with step ?O' ?P' ?s0 = None => rewrite (step1_fail O' P' s0 _ eq_refl E5) end. reflexivity.
Qed.

Theorem std_legacy_accepts_iff idx :
  covenant_accepts O (std_ed25519_legacy pk) (env_heap t inp c idx lh) = sig_check 0.
Proof.
  unfold covenant_accepts, run. rewrite run_pos_nat.
  assert (F: Pos.to_nat (run_fuel (std_ed25519_legacy pk)) = 165%nat) by (vm_compute; reflexivity).
  rewrite F. clear F.
  set (H := env_heap t inp c idx lh). set (P := std_ed25519_legacy pk).
  set (mk := fun p st => {| pc := p; stack := st; heap := H; loops := [] |}).
  change (init_state H) with (mk 0 []).
  assert (E1: step O P (mk 0 []) = Some (mk 1 [VInt 0])) by reflexivity.
  assert (E2: step O P (mk 1 [VInt 0]) = Some (mk 2 [VInt 6; VInt 0])) by reflexivity.
  assert (E3: step O P (mk 2 [VInt 6; VInt 0]) = Some (mk 3 [tx_value t; VInt 6; VInt 0])) by reflexivity.
  assert (E4: step O P (mk 3 [tx_value t; VInt 6; VInt 0]) = Some (mk 4 [VVec (map VBytes (t_sigs t)); VInt 0])) by reflexivity.
  go E1. go E2. go E3. go E4.
  unfold sig_check.
  assert (E5: step O P (mk 4 [VVec (map VBytes (t_sigs t)); VInt 0]) =
              match nth_error (t_sigs t) (N.to_nat 0) with
              | Some sg => Some (mk 5 [VBytes sg])
              | None => None end).
  { unfold step. change (nth_error P (N.to_nat (pc (mk 4 [VVec (map VBytes (t_sigs t)); VInt 0])))) with (Some VRef).
    unfold exec_op. cbn [stack mk binop into_u16 into_vec]. change (65535 <? 0) with false. cbn iota.
    rewrite nth_error_map_bytes.
    destruct (nth_error (t_sigs t) (N.to_nat 0)); reflexivity. }
  destruct (nth_error (t_sigs t) (N.to_nat 0)) as [sg|] eqn:Es.
  - go E5.
    assert (E6: step O P (mk 5 [VBytes sg]) = Some (mk 6 [VBytes pk; VBytes sg])) by reflexivity.
    assert (E7: step O P (mk 6 [VBytes pk; VBytes sg]) = Some (mk 7 [vhash (t_hash t); VBytes pk; VBytes sg])) by reflexivity.
    go E6. go E7.
    assert (E8: step O P (mk 7 [vhash (t_hash t); VBytes pk; VBytes sg]) =
                Some (mk 8 [of_bool (if 64 <? len sg then false else o_sig O pk (be_bytes 32 (t_hash t)) sg)])).
    { unfold step. cbn [pc mk nth_error N.to_nat Pos.to_nat Pos.iter_op Nat.add P std_ed25519_legacy].
      unfold exec_op. cbn [stack mk triop sigeok vhash].
      unfold len. rewrite Hpk, be_bytes_length. cbn [N.of_nat Pos.of_succ_nat Pos.succ N.ltb N.eqb N.compare Pos.compare Pos.compare_cont Pos.eqb negb].
      destruct (64 <? N.of_nat (length sg)); reflexivity. }
    go E8. rewrite run_nat_S, step1_fin by reflexivity. cbn [stack mk].
    destruct (64 <? len sg); [reflexivity|]. destruct (o_sig O pk (be_bytes 32 (t_hash t)) sg); reflexivity.
  - rewrite run_nat_S. match type of E5 with step ?O' ?P' ?s0 = None => rewrite (step1_fail O' P' s0 _ eq_refl E5) end. reflexivity.
Qed.
End Std.

(* small history-level corollaries: the recorded DOSC speed never decreases (C18); the fee multiplier changes only
   at a block boundary sealed with a proposer action, by the step of C17 *)
From MelVerif Require Import STF.Proofs.Tactics STF.Proofs.MapLemmas STF.Proofs.Frame STF.Proofs.Stakes STF.Proofs.Dosc STF.Proofs.FeeMult
  STF.Proofs.SealCounts STF.Proofs.History.
From Coq Require Import ZifyN ZifyNat ZifyBool.
Open Scope N_scope.

Section Misc.
Variable SO : stf_oracle.

Lemma next_unsealed_scalars s hdr :
  s_dosc_speed (next_unsealed s hdr) = s_dosc_speed s /\ s_fee_mult (next_unsealed s hdr) = s_fee_mult s.
Proof. unfold next_unsealed. destruct (_ && _); split; reflexivity. Qed.

Lemma hstep_speed s o : s_dosc_speed s <= s_dosc_speed (hstep SO s o).
Proof.
  destruct o as [lh txs|a hdr]; cbn [hstep].
  - destruct (apply_tx_batch SO s lh txs) as [s'| |] eqn:E; [|lia|lia].
    exact (accepted_batch_speed_monotone SO s lh txs s' E).
  - destruct (seal SO s a) as [s'| |] eqn:E; [|lia|lia].
    destruct (next_unsealed_scalars s' hdr) as [-> _]. rewrite (seal_speed SO s a s' E). lia.
Qed.

Theorem speed_never_decreases : forall ops s, s_dosc_speed s <= s_dosc_speed (fold_left (hstep SO) ops s).
Proof.
  induction ops as [|o r IH]; intros s; cbn [fold_left]; [lia|].
  pose proof (hstep_speed s o). specialize (IH (hstep SO s o)). lia.
Qed.

(* one step moves the fee multiplier only at a block boundary with an action, and then by the exact step *)
Theorem hstep_fee_mult s o :
  s_fee_mult (hstep SO s o) =
  match o with
  | HBlock (Some act) hdr =>
      match seal SO s (Some act) with Ok _ => move_fee_multiplier (tip_901 s) (s_fee_mult s) (a_delta act) | _ => s_fee_mult s end
  | _ => s_fee_mult s
  end.
Proof.
  destruct o as [lh txs|a hdr]; cbn [hstep].
  - destruct (apply_tx_batch SO s lh txs) as [s'| |] eqn:E; [|reflexivity|reflexivity].
    destruct (apply_tx_batch_frame SO s lh txs s' E) as (_ & _ & _ & _ & Em). exact Em.
  - destruct a as [act|].
    + destruct (seal SO s (Some act)) as [s'| |] eqn:E; [|reflexivity|reflexivity].
      destruct (next_unsealed_scalars s' hdr) as [_ ->]. exact (seal_fee_mult SO s (Some act) s' E).
    + destruct (seal SO s None) as [s'| |] eqn:E; [|reflexivity|reflexivity].
      destruct (next_unsealed_scalars s' hdr) as [_ ->]. exact (seal_fee_mult SO s None s' E).
Qed.
End Misc.

(* C08 over histories: every block of every history that is sealed with a proposer action restarts exactly - the
   state rebuilt by from_block from the block's header and contents IS the sealed state *)
From MelVerif Require Import STF.Proofs.Block.
Section Restart.
Variable SO : stf_oracle.
Theorem reachable_block_restarts_exactly ops s act sealed R h :
  Good s -> hist_ok SO s ops ->
  seal SO (fold_left (hstep SO) ops s) (Some act) = Ok sealed ->
  reward_fresh SO (fold_left (hstep SO) ops s) ->
  header_of SO R sealed = Ok h ->
  from_block h (map snd (map_to_list (s_txs sealed))) (s_history sealed) (s_coins sealed) (s_counts sealed)
             (s_pools sealed) (s_stakes sealed) = sealed.
Proof.
  intros G H Hs Hr Hh. pose proof (history_good SO ops s G H) as Gf.
  destruct (seal_counts SO _ _ _ Gf Hs (fun _ => Hr)) as [_ K].
  apply (restart_equivalence SO sealed R h Hh); [exact (seal_action_clears_tips SO _ act sealed Hs)|exact K].
Qed.
End Restart.

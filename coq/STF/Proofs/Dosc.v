(* C18: ERG is minted only against valid sequential work, within the reward formula. *)
From MelVerif Require Import STF.Proofs.Tactics STF.Proofs.Stakes.
Open Scope N_scope.

Section Dosc.
Variable SO : stf_oracle.
Variable s : wstate.
Variable lh : header.

Definition is_tip910 (v : verdict) : bool := match v with VTip910 => true | _ => false end.

(* everything an accepted mint transaction has been checked for *)
Theorem validate_doscmint_sound relevant t speed :
  validate_doscmint SO s relevant t = Ok speed ->
  exists i0 rest c seed difficulty pid prev reward_real reward_nom outs,
    t_inputs t = i0 :: rest /\
    relevant !! input_key i0 = Some c /\
    (* age rule on mainnet *)
    (s_network s = MAINNET -> 100 <= s_height s - c_height c) /\
    (* the puzzle seed is the header at the spent coin's creation height *)
    s_history s !! c_height c = Some seed /\
    t_dosc t = DDProof difficulty pid /\ 1 <= difficulty <= 64 /\
    (* a valid proof under the legacy or the TIP-910 hash, for that header, that coin, that difficulty *)
    so_melpow SO pid (so_header_hash SO seed) (input_key i0) difficulty <> VInvalid /\
    (* measured speed *)
    speed = (if is_tip910 (so_melpow SO pid (so_header_hash SO seed) (input_key i0) difficulty) then 100 else 1)
            * 2 ^ difficulty / (s_height s - c_height c) /\
    (* reward computed from that speed, the previous block's DOSC speed and the inflator *)
    s_history s !! (s_height s - 1) = Some prev /\
    calculate_reward speed (h_dosc_speed prev) difficulty
      (is_tip910 (so_melpow SO pid (so_header_hash SO seed) (input_key i0) difficulty)) = Ok reward_real /\
    dosc_to_erg (s_height s) reward_real = Ok reward_nom /\
    total_outputs t = Ok outs /\
    default 0 (assoc_get Erg outs) <= reward_nom.
Proof.
  unfold validate_doscmint.
  destruct (t_inputs t) as [|i0 rest]; [discriminate|].
  destruct (relevant !! input_key i0) as [c|] eqn:Hc; [|discriminate].
  destruct ((s_height s - c_height c <? 100) && (s_network s =? MAINNET)) eqn:Age; [discriminate|].
  destruct (s_history s !! c_height c) as [seed|] eqn:Hseed; [|discriminate].
  destruct (t_dosc t) as [|d|difficulty pid]; try discriminate.
  destruct ((difficulty =? 0) || (64 <? difficulty)) eqn:Dr; [discriminate|].
  apply orb_false_iff in Dr as [D1 D2]. apply N.eqb_neq in D1. apply N.ltb_ge in D2.
  assert (G: forall v, v <> VInvalid ->
    (if 128 <=? difficulty then Panic P_OVERFLOW else
     let w := (if is_tip910 v then 100 else 1) * 2 ^ difficulty in
     if U128 <=? w then Panic P_OVERFLOW else
     if s_height s - c_height c =? 0 then Panic P_DIVZERO else
     let speed := w / (s_height s - c_height c) in
     if s_height s =? 0 then Panic P_UNDERFLOW else
     match s_history s !! (s_height s - 1) with
     | None => Reject EInvalidMelPoW
     | Some prev =>
       reward_real <- calculate_reward speed (h_dosc_speed prev) difficulty (is_tip910 v) ;;
       reward_nom <- dosc_to_erg (s_height s) reward_real ;;
       outs <- total_outputs t ;;
       if reward_nom <? default 0 (assoc_get Erg outs) then Reject EInvalidMelPoW else Ok speed
     end) = Ok speed ->
    exists prev reward_real reward_nom outs,
      speed = (if is_tip910 v then 100 else 1) * 2 ^ difficulty / (s_height s - c_height c) /\
      s_history s !! (s_height s - 1) = Some prev /\
      calculate_reward speed (h_dosc_speed prev) difficulty (is_tip910 v) = Ok reward_real /\
      dosc_to_erg (s_height s) reward_real = Ok reward_nom /\
      total_outputs t = Ok outs /\ default 0 (assoc_get Erg outs) <= reward_nom).
  { intros v _. destruct (128 <=? difficulty); [discriminate|]. cbn zeta.
    destruct (U128 <=? _); [discriminate|].
    destruct (s_height s - c_height c =? 0); [discriminate|].
    destruct (s_height s =? 0); [discriminate|].
    destruct (s_history s !! (s_height s - 1)) as [prev|]; [|discriminate].
    intros H. inv_bind H as rr Hrr. inv_bind H as rn Hrn. inv_bind H as outs Houts.
    destruct (N.ltb_spec rn (default 0 (assoc_get Erg outs))); [discriminate|]. injection H as <-.
    exists prev, rr, rn, outs. auto 10. }
  assert (Hage: s_network s = MAINNET -> 100 <= s_height s - c_height c).
  { intros Hnet. rewrite Hnet, N.eqb_refl, andb_true_r in Age. apply N.ltb_ge in Age. exact Age. }
  destruct (so_melpow SO pid (so_header_hash SO seed) (input_key i0) difficulty) eqn:V; [discriminate| |];
    intros H;
    [pose proof (G VLegacy ltac:(discriminate) H) as H'|pose proof (G VTip910 ltac:(discriminate) H) as H'];
    destruct H' as (prev & rr & rn & outs & E1 & E2 & E3 & E4 & E5 & E6);
    exists i0, rest, c, seed, difficulty, pid, prev, rr, rn, outs;
    rewrite ?V; (repeat split; auto; try lia; try discriminate).
Qed.

(* the reward formula itself *)
Theorem calculate_reward_formula speed dosc_speed difficulty tip910 r :
  calculate_reward speed dosc_speed difficulty tip910 = Ok r ->
  difficulty < 128 /\ dosc_speed <> 0 /\
  r = to_u128_sat ((if tip910 then sat_mul128 (2 ^ difficulty) 100 else 2 ^ difficulty) * speed * MICRO
                   / (dosc_speed * dosc_speed * 2880)).
Proof.
  unfold calculate_reward. destruct (N.leb_spec 128 difficulty) as [|Hd]; [discriminate|].
  destruct (N.eqb_spec dosc_speed 0) as [|Hs]; [discriminate|]. intros E. injection E as <-. auto.
Qed.

Theorem dosc_to_erg_formula height real r :
  dosc_to_erg height real = Ok r -> r = microergs_per_dosc height * real / MICRO.
Proof. unfold dosc_to_erg. destruct (_ <? U128); [|discriminate]. intros H. injection H as <-. reflexivity. Qed.

(* every mint transaction of an accepted batch has been validated, and the recorded speed never decreases *)
Theorem accepted_batch_mints_validated txs s' :
  apply_tx_batch SO s lh txs = Ok s' ->
  exists relevant, load_relevant_coins s txs = Ok relevant /\
    forall t, In t txs -> t_kind t = KDoscMint -> exists v, validate_doscmint SO s relevant t = Ok v.
Proof.
  intros H. destruct (apply_tx_batch_inv _ _ _ _ _ H) as (relevant & n & Hr & _ & _ & Hd & _).
  exists relevant. auto.
Qed.
End Dosc.

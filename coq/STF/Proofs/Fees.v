(* C05: minimum fee, fee pool / tips accounting, proposer reward. *)
From MelVerif Require Import STF.Proofs.Tactics STF.Proofs.Frame STF.Proofs.Stakes.
Open Scope N_scope.

(* weight = serialized size + covenant weights + 1000 per output - 1000 per input, never below zero;
   an undecodable covenant weighs 0 *)
Theorem tx_weight_formula t w :
  tx_weight t = Ok w ->
  exists sw, sum128 (map cov_weight (t_covenants t)) = Ok sw /\
  w = sat_sub128 (sat_add128 (sat_add128 (t_rawlen t) sw) (N.of_nat (length (t_outputs t)) * 1000))
                 (N.of_nat (length (t_inputs t)) * 1000).
Proof. unfold tx_weight. intros H. inv_bind H as sw Hsw. injection H as <-. eauto. Qed.

Theorem cov_weight_undecodable b : decode_all b = None -> cov_weight b = 0.
Proof. unfold cov_weight. intros ->. reflexivity. Qed.

Theorem min_fee_formula mult t mf :
  min_fee mult t = Ok mf -> exists w, tx_weight t = Ok w /\ mf = sat_mul128 w mult / 65536.
Proof. unfold min_fee. intros H. inv_bind H as w Hw. injection H as <-. eauto. Qed.

(* one transaction: pays at least the minimum fee; the minimum goes to the fee pool, the rest to the tips *)
Lemma spend_and_pay_fee tip t n n' :
  spend_and_pay tip t n = Ok n' ->
  exists mf, min_fee (s_fee_mult n) t = Ok mf /\ mf <= t_fee t /\
    s_fee_pool n' = sat_add128 (s_fee_pool n) mf /\
    s_tips n' = sat_add128 (s_tips n) (t_fee t - mf) /\
    s_fee_mult n' = s_fee_mult n.
Proof.
  unfold spend_and_pay. intros H. inv_bind H as cn Hcn. inv_bind H as mf Hmf.
  destruct (N.ltb_spec (t_fee t) mf); [discriminate|]. injection H as <-.
  exists mf. cbn. auto.
Qed.

Lemma spend_and_pay_underpaid tip t n mf :
  min_fee (s_fee_mult n) t = Ok mf -> t_fee t < mf ->
  forall n', spend_and_pay tip t n <> Ok n'.
Proof.
  intros Hmf Hlt n' H. apply spend_and_pay_fee in H as (mf' & Hmf' & Hle & _). congruence || (rewrite Hmf in Hmf'; injection Hmf' as <-; lia).
Qed.

(* the fee accounting of a whole batch *)
Fixpoint fee_fold (mult : N) (txs : list tx) (fp tips : N) : option (N * N) :=
  match txs with
  | [] => Some (fp, tips)
  | t :: r =>
    match min_fee mult t with
    | Ok mf => if t_fee t <? mf then None else fee_fold mult r (sat_add128 fp mf) (sat_add128 tips (t_fee t - mf))
    | _ => None
    end
  end.

Lemma spend_all_fees tip : forall txs n n',
  spend_all tip txs n = Ok n' ->
  fee_fold (s_fee_mult n) txs (s_fee_pool n) (s_tips n) = Some (s_fee_pool n', s_tips n').
Proof.
  induction txs as [|t r IH]; intros n n' H; cbn [spend_all] in H.
  - injection H as <-. reflexivity.
  - inv_bind H as n1 H1. apply spend_and_pay_fee in H1 as (mf & Hmf & Hle & Efp & Etips & Emult).
    cbn [fee_fold]. rewrite Hmf. destruct (N.ltb_spec (t_fee t) mf); [lia|].
    rewrite <- Efp, <- Etips, <- Emult. apply IH. exact H.
Qed.

Lemma insert_all_fees SO s relevant tip : forall txs cn cn',
  insert_all SO s relevant tip txs cn = Ok cn' -> True.
Proof. trivial. Qed.

Theorem accepted_batch_fees SO s lh txs s' :
  apply_tx_batch SO s lh txs = Ok s' ->
  fee_fold (s_fee_mult s) txs (s_fee_pool s) (s_tips s) = Some (s_fee_pool s', s_tips s').
Proof.
  intros H. destruct (apply_tx_batch_inv _ _ _ _ _ H) as (relevant & n & _ & _ & _ & _ & Hn & _ & _ & _ & _ & -> & -> & _).
  unfold create_next_state in Hn. inv_bind Hn as cn Hcn.
  apply spend_all_fees in Hn. exact Hn.
Qed.

(* every member of an accepted batch pays at least its minimum fee *)
Lemma fee_fold_each mult : forall txs fp tips r,
  fee_fold mult txs fp tips = Some r ->
  forall t, In t txs -> exists mf, min_fee mult t = Ok mf /\ mf <= t_fee t.
Proof.
  induction txs as [|t0 r0 IH]; intros fp tips r H t Hin; [contradiction|].
  cbn [fee_fold] in H. destruct (min_fee mult t0) as [mf| |] eqn:E; try discriminate.
  destruct (N.ltb_spec (t_fee t0) mf); [discriminate|].
  destruct Hin as [<-|Hin]; [eauto|]. eapply IH; eauto.
Qed.

Theorem accepted_batch_min_fee SO s lh txs s' :
  apply_tx_batch SO s lh txs = Ok s' ->
  forall t, In t txs -> exists mf, min_fee (s_fee_mult s) t = Ok mf /\ mf <= t_fee t.
Proof. intros H. eapply fee_fold_each. eapply accepted_batch_fees; eauto. Qed.

(* proposer reward: one coin worth fee_pool/65536 + tips; the fee pool and the tips drop by exactly that *)
Theorem collect_proposer_fee_spec SO s a s' :
  collect_proposer_fee SO s a = Ok s' ->
  s_coins s' !! coin_key (so_reward_id SO (s_height s)) 0
    = Some {| c_data := {| cd_covhash := a_dest a; cd_value := s_fee_pool s / 65536 + s_tips s;
                           cd_denom := Mel; cd_extra := [] |}; c_height := s_height s |} /\
  s_fee_pool s' = s_fee_pool s - s_fee_pool s / 65536 /\ s_tips s' = 0 /\
  (forall k, k <> coin_key (so_reward_id SO (s_height s)) 0 -> s_coins s' !! k = s_coins s !! k).
Proof.
  unfold collect_proposer_fee. intros H. inv_bind H as v Hv. injection H as <-.
  unfold add128 in Hv. destruct (_ <? U128); [|discriminate]. injection Hv as <-.
  unfold put_coin, insert_coin. cbn.
  split; [apply lookup_insert|]. split; [reflexivity|]. split; [reflexivity|].
  intros k Hk. apply lookup_insert_ne. congruence.
Qed.

(* C09 for apply_block as a whole: the only panics left in it are those of its two parts.  The assertion on the
   pool count, the lookup of the previous header (for the covenants and for the new header) cannot fail on the
   state apply_block builds; so if applying the block's transactions and sealing do not panic - which
   C09_batch_never_panics and C09_seal_total_in_reachable_states establish from the invariants - apply_block
   returns a state or an error. *)
From MelVerif Require Import STF.Proofs.Tactics STF.Proofs.MapLemmas STF.Proofs.Frame STF.Proofs.Stakes STF.Proofs.Block
  STF.Proofs.NoPanicBatch.
From Coq Require Import ZifyN ZifyNat ZifyBool.
Open Scope N_scope.

Section ApplyBlock.
Variable SO : stf_oracle.
Variable rf : wstate -> roots.

(* the header handed to the covenants of the block is the header the block was built on *)
Lemma last_header_of_basis s hdr : last_header_for SO rf (next_unsealed s hdr) = Ok hdr.
Proof.
  destruct (next_unsealed_link s hdr) as (L1 & _ & L3 & _). cbn zeta in *.
  unfold last_header_for. rewrite L1. replace (s_height s + 1 - 1) with (s_height s) by lia. rewrite L3. reflexivity.
Qed.

Lemma apply_block_unfold s hdr bh txs a :
  apply_block SO rf s hdr bh txs a =
  let basis := next_unsealed s hdr in
  if negb (pool_count_ok basis) then Panic P_ASSERT else
  b1 <- apply_tx_batch SO basis hdr txs ;;
  b2 <- seal SO b1 a ;;
  h2 <- header_of SO (rf b2) b2 ;;
  if bool_decide (h2 = bh) then Ok b2 else Reject EWrongHeader.
Proof. unfold apply_block, apply_batch. cbn zeta. rewrite last_header_of_basis. reflexivity. Qed.

(* the new header can always be formed *)
Lemma header_of_after s hdr txs a b1 b2 :
  apply_tx_batch SO (next_unsealed s hdr) hdr txs = Ok b1 -> seal SO b1 a = Ok b2 ->
  exists h2, header_of SO (rf b2) b2 = Ok h2.
Proof.
  intros H1 H2.
  destruct (apply_tx_batch_frame SO _ _ _ _ H1) as (E1 & E2 & E3 & _).
  destruct (seal_frame SO _ _ _ H2) as (_ & N2 & N3 & _).
  destruct (next_unsealed_link s hdr) as (L1 & _ & L3 & _). cbn zeta in *.
  unfold header_of. rewrite N2, N3.
  assert (Eh: s_height b1 = s_height s + 1) by congruence.
  assert (Ehist: s_history b1 !! (s_height b1 - 1) = Some hdr).
  { rewrite Eh. replace (s_height s + 1 - 1) with (s_height s) by lia. congruence. }
  rewrite Ehist. destruct (s_height b1 =? 0); cbn [obind]; eauto.
Qed.

Theorem apply_block_never_panics s hdr bh txs a :
  pool_count_ok (next_unsealed s hdr) = true ->
  no_panic (apply_tx_batch SO (next_unsealed s hdr) hdr txs) ->
  (forall b1, apply_tx_batch SO (next_unsealed s hdr) hdr txs = Ok b1 -> no_panic (seal SO b1 a)) ->
  no_panic (apply_block SO rf s hdr bh txs a).
Proof.
  intros Hp Hb Hs. rewrite apply_block_unfold. cbn zeta. rewrite Hp. cbn [negb].
  apply no_panic_bind; [exact Hb|]. intros b1 H1.
  apply no_panic_bind; [apply Hs; exact H1|]. intros b2 H2.
  destruct (header_of_after s hdr txs a b1 b2 H1 H2) as [h2 E]. rewrite E. cbn [obind].
  destruct (bool_decide (h2 = bh)); exact I.
Qed.

(* and the one assertion apply_block makes itself is the whole difference: with fewer than two pools it panics,
   whatever the block *)
Theorem apply_block_panics_without_pools s hdr bh txs a :
  pool_count_ok (next_unsealed s hdr) = false -> apply_block SO rf s hdr bh txs a = Panic P_ASSERT.
Proof. intros Hp. rewrite apply_block_unfold. cbn zeta. rewrite Hp. reflexivity. Qed.

Lemma pool_count_next s hdr : pool_count_ok (next_unsealed s hdr) = pool_count_ok s.
Proof. destruct (next_unsealed_link s hdr) as (_ & _ & _ & _ & _ & _ & _ & _ & P & _). cbn zeta in P. unfold pool_count_ok. rewrite P. reflexivity. Qed.
End ApplyBlock.

(* C20 through sealing: the per-covenant counts stay equal to the number of coins while Melswap settlement
   rewrites request outputs, deletes deposit outputs and the proposer reward is paid.
   The invariant that makes this true relates the coins at the output ids of this block's transactions to
   those transactions (a rewritten output keeps its covenant hash, so no count moves). *)
From MelVerif Require Import STF.Proofs.Tactics STF.Proofs.MapLemmas STF.Proofs.Frame STF.Proofs.Stakes STF.Proofs.Faucet
  STF.Proofs.Coins STF.Proofs.Counts STF.Proofs.SealCoins STF.Proofs.HashFacts.
From Coq Require Import ZifyN ZifyNat ZifyBool.
Open Scope N_scope.

(* ---- the transaction set as a list *)
Lemma ins_by_key_perm {A} k (v : A) : forall l, Permutation (ins_by_key k v l) ((k, v) :: l).
Proof.
  induction l as [|[k' v'] l IH]; cbn [ins_by_key]; [reflexivity|].
  destruct (k <=? k'); [reflexivity|]. rewrite IH. apply perm_swap.
Qed.
Lemma sort_by_key_perm {A} : forall l : list (N * A), Permutation (sort_by_key l) l.
Proof.
  induction l as [|[k v] l IH]; cbn [sort_by_key fold_right]; [reflexivity|].
  cbn [fst snd]. rewrite ins_by_key_perm. constructor. exact IH.
Qed.
Lemma in_sorted_txs s t : In t (sorted_txs s) <-> exists h, s_txs s !! h = Some t.
Proof.
  unfold sorted_txs. rewrite in_map_iff. split.
  - intros ([h t'] & E & Hin). cbn [snd] in E. subst t'. exists h.
    apply elem_of_map_to_list. apply elem_of_list_In.
    eapply Permutation_in; [apply sort_by_key_perm|exact Hin].
  - intros (h & Hh). exists (h, t). split; [reflexivity|].
    eapply Permutation_in; [symmetry; apply sort_by_key_perm|].
    apply elem_of_list_In, elem_of_map_to_list. exact Hh.
Qed.

(* ---- the invariant *)
Definition CInv (s : wstate) : Prop :=
  if tip_906 s then CountsOk (s_coins s, s_counts s) else s_counts s = ∅.

Definition cov0 (t : tx) : N := cd_covhash (out0 t).
Definition cov1 (t : tx) : N :=
  if N.of_nat (length (t_outputs t)) =? 1 then cd_covhash (out0 t) else cd_covhash (out1 t).

(* transactions are filed under their own hash *)
Definition TxKeyed (s : wstate) : Prop := forall h t, s_txs s !! h = Some t -> t_hash t = h.
(* the coins at the first two output ids of a transaction of this block carry that output's covenant hash
   (for a one-output transaction a coin at id 1 can only be the second half of its settled withdrawal) *)
Definition OutCov (s : wstate) : Prop := forall t, In t (sorted_txs s) ->
  (forall c, s_coins s !! key0 t = Some c -> cd_covhash (c_data c) = cov0 t) /\
  (forall c, s_coins s !! key1 t = Some c -> cd_covhash (c_data c) = cov1 t).

Definition Good (s : wstate) : Prop := TxKeyed s /\ CInv s /\ OutCov s.

Lemma frame_fp_txs a b : frame_fp a = frame_fp b -> s_txs a = s_txs b.
Proof. unfold frame_fp, frame. congruence. Qed.
Lemma frame_txs a b : frame a = frame b -> s_txs a = s_txs b.
Proof. unfold frame. congruence. Qed.

Lemma tip906_frame a b : frame a = frame b -> tip_906 a = tip_906 b.
Proof. apply tip_cond_frame. Qed.

Lemma txkeyed_in s t t' : TxKeyed s -> In t (sorted_txs s) -> In t' (sorted_txs s) -> t_hash t = t_hash t' -> t = t'.
Proof.
  intros K H1 H2 E. apply in_sorted_txs in H1 as (h1 & H1). apply in_sorted_txs in H2 as (h2 & H2).
  pose proof (K _ _ H1) as E1. pose proof (K _ _ H2) as E2. congruence.
Qed.

Lemma key01_ne t t' : key0 t <> key1 t'.
Proof. unfold key0, key1. intros E. apply coin_key_inj in E as [_ E]; lia. Qed.
Lemma key0_inj t t' : key0 t = key0 t' -> t_hash t = t_hash t'.
Proof. unfold key0. intros E. apply coin_key_inj in E as [E _]; [exact E|lia|lia]. Qed.
Lemma key1_inj t t' : key1 t = key1 t' -> t_hash t = t_hash t'.
Proof. unfold key1. intros E. apply coin_key_inj in E as [E _]; [exact E|lia|lia]. Qed.

Lemma coins_put_coin_eq s k c : s_coins (put_coin s k c) = <[k := c]> (s_coins s).
Proof. unfold put_coin. cbn [s_coins set_coins]. rewrite insert_coin_fst. reflexivity. Qed.

Lemma cinv_put_coin s k c :
  CInv s -> (forall c', s_coins s !! k = Some c' -> cd_covhash (c_data c') = cd_covhash (c_data c)) ->
  CInv (put_coin s k c).
Proof.
  intros H Hs. unfold CInv in *.
  assert (T: tip_906 (put_coin s k c) = tip_906 s) by (apply tip906_frame, frame_fp_frame, frame_put_coin).
  rewrite T. unfold put_coin. cbn [s_coins s_counts set_coins].
  destruct (tip_906 s).
  - rewrite <- surjective_pairing. apply insert_coin_counts_ok; assumption.
  - rewrite insert_coin_false_counts. exact H.
Qed.

Lemma cinv_put_pool s k p : CInv s -> CInv (put_pool s k p).
Proof. intros H. exact H. Qed.

Lemma del_coin_total s k : CInv s -> exists s', del_coin s k = Ok s'.
Proof.
  unfold CInv, del_coin. intros H. destruct (tip_906 s) eqn:T.
  - destruct (remove_coin_counts_ok k _ H) as (r & -> & _). eexists. reflexivity.
  - cbn. eexists. reflexivity.
Qed.

Lemma coins_del_coin_eq s k s' : del_coin s k = Ok s' -> s_coins s' = delete k (s_coins s).
Proof.
  unfold del_coin. intros H. inv_bind H as cn Hcn. injection H as <-. cbn [s_coins set_coins].
  apply remove_coin_fst in Hcn. exact Hcn.
Qed.

Lemma cinv_del_coin s k s' : CInv s -> del_coin s k = Ok s' -> CInv s'.
Proof.
  intros H Hd. pose proof (frame_del_coin _ _ _ Hd) as F. apply frame_fp_frame, tip906_frame in F.
  unfold CInv in *. rewrite F. unfold del_coin in Hd. inv_bind Hd as cn Hcn. injection Hd as <-.
  cbn [s_coins s_counts set_coins]. destruct (tip_906 s).
  - destruct (remove_coin_counts_ok k _ H) as (r & E & Hr). rewrite E in Hcn. injection Hcn as <-.
    rewrite <- surjective_pairing. exact Hr.
  - cbn in Hcn. injection Hcn as <-. exact H.
Qed.

(* ---- single writes keep the invariant *)
Lemma good_put_pool s k p : Good s -> Good (put_pool s k p).
Proof. intros H. exact H. Qed.

Lemma sorted_put_coin s k c : sorted_txs (put_coin s k c) = sorted_txs s.
Proof. reflexivity. Qed.

Lemma good_write0 s t c :
  In t (sorted_txs s) -> cd_covhash (c_data c) = cov0 t -> Good s -> Good (put_coin s (key0 t) c).
Proof.
  intros Ht Hc (K & C & O). split; [exact K|]. split.
  - apply cinv_put_coin; [exact C|]. intros c' E. rewrite Hc. apply (O t Ht). exact E.
  - intros t' Ht'. rewrite sorted_put_coin in Ht'. rewrite coins_put_coin_eq. split; intros c0 E.
    + destruct (N.eq_dec (key0 t') (key0 t)) as [Ek|Hne].
      * rewrite Ek, lookup_insert in E. injection E as <-.
        rewrite (txkeyed_in s t' t K Ht' Ht (key0_inj _ _ Ek)). exact Hc.
      * rewrite lookup_insert_ne in E by congruence. apply (O t' Ht'). exact E.
    + rewrite lookup_insert_ne in E by apply key01_ne. apply (O t' Ht'). exact E.
Qed.

Lemma good_write1 s t c :
  In t (sorted_txs s) -> cd_covhash (c_data c) = cov1 t -> Good s -> Good (put_coin s (key1 t) c).
Proof.
  intros Ht Hc (K & C & O). split; [exact K|]. split.
  - apply cinv_put_coin; [exact C|]. intros c' E. rewrite Hc. apply (O t Ht). exact E.
  - intros t' Ht'. rewrite sorted_put_coin in Ht'. rewrite coins_put_coin_eq. split; intros c0 E.
    + rewrite lookup_insert_ne in E by (intros E'; symmetry in E'; revert E'; apply key01_ne). apply (O t' Ht'). exact E.
    + destruct (N.eq_dec (key1 t') (key1 t)) as [Ek|Hne].
      * rewrite Ek, lookup_insert in E. injection E as <-.
        rewrite (txkeyed_in s t' t K Ht' Ht (key1_inj _ _ Ek)). exact Hc.
      * rewrite lookup_insert_ne in E by congruence. apply (O t' Ht'). exact E.
Qed.

Lemma good_del s k s' : Good s -> del_coin s k = Ok s' -> Good s'.
Proof.
  intros (K & C & O) Hd. pose proof (frame_del_coin _ _ _ Hd) as F.
  assert (T: s_txs s' = s_txs s) by (unfold frame_fp, frame in F; congruence).
  split; [unfold TxKeyed; rewrite T; exact K|]. split; [eapply cinv_del_coin; eauto|].
  intros t Ht. rewrite (txs_same _ _ T) in Ht. rewrite (coins_del_coin_eq _ _ _ Hd).
  split; intros c E; apply lookup_delete_Some in E as [_ E]; apply (O t Ht); exact E.
Qed.

Section Seal.
Variable SO : stf_oracle.

Lemma good_swaps_go k lw rw tl tr : forall l s,
  (forall t, In t l -> In t (sorted_txs s)) -> Good s -> Good (swaps_go k lw rw tl tr l s).
Proof.
  induction l as [|t rest IH]; intros s Hl G; cbn [swaps_go]; [exact G|].
  apply IH.
  - intros t' Ht'. rewrite sorted_put_coin. apply Hl. right. exact Ht'.
  - apply good_write0; [apply Hl; left; reflexivity|reflexivity|exact G].
Qed.

Lemma good_deposits_go k tl tm : forall l left s s',
  (forall t, In t l -> In t (sorted_txs s)) -> Good s ->
  deposits_go SO k tl tm l left s = Ok s' -> Good s'.
Proof.
  induction l as [|t rest IH]; intros left s s' Hl G H; cbn [deposits_go] in H.
  - injection H as <-. exact G.
  - inv_bind H as s2 H2.
    match type of H2 with context [put_coin s ?kk ?cc] => set (s1 := put_coin s kk cc) in * end.
    assert (G1: Good s1) by (apply (good_write0 s t); [apply Hl; left; reflexivity|reflexivity|exact G]).
    assert (G2: Good s2 /\ s_txs s2 = s_txs s).
    { destruct (legacy_net s && (s_height s <? 978392)).
      - injection H2 as <-. split; [exact G1|reflexivity].
      - split; [eapply good_del; eauto|]. apply frame_del_coin, frame_fp_txs in H2. exact H2. }
    destruct G2 as [G2 T2]. eapply IH; [|exact G2|exact H].
    intros t' Ht'. rewrite (txs_same _ _ T2). apply Hl. right. exact Ht'.
Qed.

Lemma good_withdrawals_go k tl tr total : forall l s,
  (forall t, In t l -> In t (sorted_txs s) /\ N.of_nat (length (t_outputs t)) = 1) -> Good s ->
  Good (withdrawals_go k tl tr total l s).
Proof.
  induction l as [|t rest IH]; intros s Hl G; cbn [withdrawals_go]; [exact G|].
  destruct (Hl t (or_introl eq_refl)) as [Ht Hlen].
  apply IH.
  - intros t' Ht'. rewrite !sorted_put_coin. apply Hl. right. exact Ht'.
  - apply good_write1; [rewrite sorted_put_coin; exact Ht| |].
    + unfold cov1. rewrite Hlen. reflexivity.
    + apply good_write0; [exact Ht|reflexivity|exact G].
Qed.

Lemma good_for_pools (P : tx -> Prop) f reqs :
  (forall k s txs s', f k s txs = Ok s' -> frame_fp s' = frame_fp s) ->
  (forall k s txs s', (forall t, In t txs -> In t (sorted_txs s) /\ P t) -> Good s -> f k s txs = Ok s' -> Good s') ->
  forall keys s s', (forall t, In t reqs -> In t (sorted_txs s) /\ P t) -> Good s ->
    for_pools f reqs keys s = Ok s' -> Good s'.
Proof.
  intros Hfr Hf keys. induction keys as [|k r IH]; intros s s' Hr G H; cbn [for_pools] in H.
  - injection H as <-. exact G.
  - inv_bind H as s1 H1.
    assert (T: s_txs s1 = s_txs s).
    { apply Hfr, frame_fp_txs in H1. exact H1. }
    eapply IH; [| |exact H].
    + intros t Ht. rewrite (txs_same _ _ T). apply Hr. exact Ht.
    + eapply Hf; [|exact G|exact H1]. intros t Ht. apply Hr. eapply txs_for_pool_sub. exact Ht.
Qed.

Lemma good_process_swaps s s' : Good s -> process_swaps s = Ok s' -> Good s'.
Proof.
  intros G H. unfold process_swaps in H.
  eapply (good_for_pools (fun _ => True)); [apply frame_swaps_single| | |exact G|exact H].
  - intros k s0 txs s1 Hsub G0 H0. unfold swaps_single_pool in H0.
    destruct (get_pool s0 k); [|discriminate]. inv_bind H0 as r Hr. destruct r as [[p' lw] rw]. injection H0 as <-.
    apply good_put_pool. apply good_swaps_go; [|exact G0]. intros t Ht. apply Hsub. exact Ht.
  - intros t Ht. apply filter_In in Ht as [Ht _]. split; [exact Ht|exact I].
Qed.

Lemma good_process_deposits s s' : Good s -> process_deposits SO s = Ok s' -> Good s'.
Proof.
  intros G H. unfold process_deposits in H.
  eapply (good_for_pools (fun _ => True)); [apply frame_deposits_single| | |exact G|exact H].
  - intros k s0 txs s1 Hsub G0 H0. unfold deposits_single_pool in H0.
    inv_bind H0 as pl Hpl. destruct pl as [p' tl].
    eapply good_deposits_go; [|apply good_put_pool; exact G0|exact H0].
    intros t Ht. apply Hsub. exact Ht.
  - intros t Ht. apply filter_In in Ht as [Ht _]. split; [exact Ht|exact I].
Qed.

Lemma withdraw_request_one_output s t : is_withdraw_request SO s t = true -> N.of_nat (length (t_outputs t)) = 1.
Proof.
  unfold is_withdraw_request. intros H. apply andb_true_iff in H as [H _]. apply andb_true_iff in H as [H _].
  apply andb_true_iff in H as [_ H]. apply N.eqb_eq in H. exact H.
Qed.

Lemma good_process_withdrawals s s' : Good s -> process_withdrawals SO s = Ok s' -> Good s'.
Proof.
  intros G H. unfold process_withdrawals in H.
  eapply (good_for_pools (fun t => N.of_nat (length (t_outputs t)) = 1)); [apply frame_withdrawals_single| | |exact G|exact H].
  - intros k s0 txs s1 Hsub G0 H0. unfold withdrawals_single_pool in H0.
    destruct (get_pool s0 k); [|discriminate].
    destruct (_ || _); [injection H0 as <-; exact G0|].
    inv_bind H0 as r Hr. destruct r as [[p' tl] tr]. injection H0 as <-.
    apply good_withdrawals_go; [|apply good_put_pool; exact G0]. intros t Ht. apply Hsub. exact Ht.
  - intros t Ht. apply filter_In in Ht as [Ht Hr]. split; [exact Ht|eapply withdraw_request_one_output; exact Hr].
Qed.

(* steps that touch neither coins, counts nor the transaction set *)
Lemma good_same' a b : s_coins b = s_coins a -> s_counts b = s_counts a ->
  s_network b = s_network a -> s_height b = s_height a -> s_txs b = s_txs a -> Good a -> Good b.
Proof.
  intros Ec En N1 N2 T (K & C & O).
  split; [unfold TxKeyed; rewrite T; exact K|]. split.
  - unfold CInv, tip_906, tip_condition in *. rewrite N1, N2, Ec, En. exact C.
  - intros t Ht. rewrite (txs_same _ _ T) in Ht. rewrite Ec. apply O. exact Ht.
Qed.
Lemma good_same a b : s_coins b = s_coins a -> s_counts b = s_counts a -> frame b = frame a -> Good a -> Good b.
Proof.
  intros Ec En F. apply good_same'; try assumption; unfold frame in F; congruence.
Qed.

Lemma counts_create_builtins s : s_counts (create_builtins s) = s_counts s.
Proof.
  unfold create_builtins.
  repeat match goal with
         | |- context [match get_pool ?s ?k with _ => _ end] => destruct (get_pool s k)
         | |- context [if ?b then _ else _] => destruct b
         end; reflexivity.
Qed.
Lemma counts_process_pegging s s' : process_pegging s = Ok s' -> s_counts s' = s_counts s.
Proof.
  unfold process_pegging. destruct (get_pool s (poolkey_new Mel Sym)); [|discriminate].
  intros H. inv_bind H as x Hx. destruct x as [xn xd].
  match type of H with (if ?c then _ else _) = _ => destruct c end; [discriminate|].
  inv_bind H as sm1 H1. inv_bind H as sm2 H2. injection H as <-. reflexivity.
Qed.
Lemma counts_tip909 s s' : apply_tip_909 s = Ok s' -> s_counts s' = s_counts s.
Proof.
  unfold apply_tip_909. destruct (128 <=? _); [discriminate|].
  destruct (get_pool s (poolkey_new Mel Sym)); [|discriminate].
  intros H. inv_bind H as r Hr. destruct r as [[sm' mel] x].
  inv_bind H as fp Hfp.
  match type of H with context [get_pool ?st ?k] => destruct (get_pool st k) end; [|discriminate].
  inv_bind H as r2 Hr2. injection H as <-. reflexivity.
Qed.

Lemma good_preseal s s' : Good s -> preseal_melmint SO s = Ok s' -> Good s'.
Proof.
  intros G H. unfold preseal_melmint in H.
  inv_bind H as s1 H1. inv_bind H as s2 H2. inv_bind H as s3 H3.
  assert (G0: Good (create_builtins s)).
  { eapply good_same; [apply coins_create_builtins|apply counts_create_builtins| |exact G].
    apply frame_fp_frame, frame_create_builtins. }
  pose proof (good_process_swaps _ _ G0 H1) as G1.
  pose proof (good_process_deposits _ _ G1 H2) as G2.
  pose proof (good_process_withdrawals _ _ G2 H3) as G3.
  eapply good_same; [apply coins_process_pegging; exact H|apply counts_process_pegging; exact H| |exact G3].
  apply frame_fp_frame, frame_process_pegging. exact H.
Qed.

(* the whole seal: the counts stay right provided the proposer-reward pseudo coin id is new (a hash-oracle
   assumption: CoinID::proposer_reward(height) is a keyed hash of the height) *)
Theorem seal_counts s a s' :
  Good s -> seal SO s a = Ok s' ->
  (a <> None -> s_coins s !! coin_key (so_reward_id SO (s_height s)) 0 = None /\
                forall t, In t (sorted_txs s) -> so_reward_id SO (s_height s) <> t_hash t) ->
  CInv s' /\ TxKeyed s'.
Proof.
  intros G H Hrw. unfold seal in H. inv_bind H as s1 H1.
  destruct (negb (pool_count_ok s1)) eqn:Ep; [discriminate|]. inv_bind H as s2 H2.
  pose proof (good_preseal _ _ G H1) as G1.
  assert (G2: Good s2).
  { destruct (tip_909 s1); [|injection H2 as <-; exact G1].
    eapply good_same; [apply coins_tip909; exact H2|apply counts_tip909; exact H2|apply frame_tip909; exact H2|exact G1]. }
  destruct a as [act|]; [|injection H as <-; destruct G2 as (K & C & _); split; assumption].
  destruct (Hrw ltac:(discriminate)) as [Hfresh Hne].
  assert (Hs2: seal SO s None = Ok s2).
  { unfold seal. rewrite H1. cbn [obind]. rewrite Ep, H2. reflexivity. }
  assert (Hh: s_height s2 = s_height s) by (apply seal_frame in Hs2; tauto).
  assert (Hk: s_coins s2 !! coin_key (so_reward_id SO (s_height s)) 0 = None).
  { rewrite (seal_leaves_other_coins_gen SO s None s2 _ Hs2); [exact Hfresh| |intros Hc; exfalso; apply Hc; reflexivity].
    intros t Ht _. unfold key0, key1. split; intros E; apply coin_key_inj in E as [E _]; try lia; exact (Hne t Ht E). }
  unfold collect_proposer_fee in H. inv_bind H as v Hv. injection H as <-.
  match goal with |- CInv (put_coin ?m _ _) /\ _ => set (sm := m) end.
  assert (Gm: Good sm).
  { eapply good_same'; [| | | | |exact G2]; reflexivity. }
  destruct Gm as (K & C & _). split; [|exact K].
  apply cinv_put_coin; [exact C|]. intros c' E. exfalso.
  cbn [s_height set_fees set_mult] in E. rewrite Hh in E.
  change (s_coins sm) with (s_coins s2) in E. rewrite Hk in E. discriminate.
Qed.
End Seal.

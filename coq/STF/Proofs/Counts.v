(* C20: per-covenant coin counts equal the number of unspent coins locked by that covenant hash. *)
From MelVerif Require Import STF.Proofs.Tactics STF.Proofs.MapLemmas STF.Proofs.Stakes STF.Proofs.Faucet STF.Proofs.Coins.
From Coq Require Import ZifyN ZifyNat ZifyBool.
Open Scope N_scope.

(* number of coins locked by covenant hash h *)
Definition count_of (h : N) (coins : gmap N cdh) : N :=
  map_fold (fun _ c n => if cd_covhash (c_data c) =? h then n + 1 else n) 0 coins.

(* the invariant: a count entry for exactly the covenant hashes that lock at least one coin, with that number *)
Definition CountsOk (cn : gmap N cdh * gmap N N) : Prop :=
  forall h, snd cn !! h = if count_of h (fst cn) =? 0 then None else Some (count_of h (fst cn)).

Lemma count_of_empty h : count_of h ∅ = 0.
Proof. unfold count_of. apply map_fold_empty. Qed.

Lemma count_of_insert_fresh h k c coins :
  coins !! k = None ->
  count_of h (<[k := c]> coins) = (if cd_covhash (c_data c) =? h then count_of h coins + 1 else count_of h coins).
Proof.
  intros Hk. unfold count_of. rewrite map_fold_insert_L; [reflexivity| |exact Hk].
  intros j1 j2 z1 z2 y _ _ _. destruct (_ =? h); destruct (_ =? h); reflexivity.
Qed.

Lemma count_of_delete h k c coins :
  coins !! k = Some c ->
  count_of h coins = (if cd_covhash (c_data c) =? h then count_of h (delete k coins) + 1 else count_of h (delete k coins)).
Proof.
  intros Hk. rewrite <- (insert_delete coins k c Hk) at 1.
  apply count_of_insert_fresh. apply lookup_delete.
Qed.

(* overwriting a coin by one with the same covenant hash changes no count *)
Lemma count_of_overwrite h k c c' coins :
  coins !! k = Some c' -> cd_covhash (c_data c') = cd_covhash (c_data c) ->
  count_of h (<[k := c]> coins) = count_of h coins.
Proof.
  intros Hk E. rewrite <- (insert_delete_insert coins k c).
  rewrite count_of_insert_fresh by apply lookup_delete.
  rewrite (count_of_delete h k c' coins Hk), E. reflexivity.
Qed.

Lemma coin_count_ok cn h : CountsOk cn -> coin_count (snd cn) h = count_of h (fst cn).
Proof.
  intros H. unfold coin_count. rewrite (H h). destruct (N.eqb_spec (count_of h (fst cn)) 0) as [->|]; reflexivity.
Qed.

(* insert_coin keeps the invariant (TIP-906 active) provided an overwritten coin had the same covenant hash *)
Theorem insert_coin_counts_ok k c cn :
  CountsOk cn ->
  (forall c', fst cn !! k = Some c' -> cd_covhash (c_data c') = cd_covhash (c_data c)) ->
  CountsOk (insert_coin true k c cn).
Proof.
  intros Hok Hsame. destruct cn as [coins counts]. unfold insert_coin. cbn [fst snd] in *.
  destruct (coins !! k) as [c'|] eqn:Ek; cbn [andb negb]; intros h; cbn [fst snd].
  - rewrite (count_of_overwrite h k c c' coins Ek (Hsame c' eq_refl)). apply Hok.
  - rewrite (count_of_insert_fresh h k c coins Ek).
    pose proof (coin_count_ok (coins, counts) (cd_covhash (c_data c)) Hok) as Ec. cbn [fst snd] in Ec. rewrite Ec.
    destruct (N.eqb_spec (cd_covhash (c_data c)) h) as [->|Hne].
    + rewrite lookup_insert. destruct (N.eqb_spec (count_of h coins + 1) 0); [lia|reflexivity].
    + rewrite lookup_insert_ne by exact Hne. apply Hok.
Qed.

(* remove_coin keeps the invariant and never underflows *)
Theorem remove_coin_counts_ok k cn :
  CountsOk cn -> exists r, remove_coin true k cn = Ok r /\ CountsOk r.
Proof.
  intros Hok. destruct cn as [coins counts]. unfold remove_coin.
  destruct (coins !! k) as [c|] eqn:Ek.
  - pose proof (coin_count_ok (coins, counts) (cd_covhash (c_data c)) Hok) as Ec. cbn [fst snd] in Ec. rewrite Ec.
    pose proof (count_of_delete (cd_covhash (c_data c)) k c coins Ek) as Ed. rewrite N.eqb_refl in Ed.
    destruct (N.eqb_spec (count_of (cd_covhash (c_data c)) coins) 0) as [E0|Hne]; [lia|].
    eexists. split; [reflexivity|]. intros h. cbn [fst snd]. unfold set_count.
    pose proof (count_of_delete h k c coins Ek) as Edh.
    destruct (N.eqb_spec (cd_covhash (c_data c)) h) as [->|Hneh].
    + replace (count_of h coins - 1) with (count_of h (delete k coins)) by lia.
      destruct (N.eqb_spec (count_of h (delete k coins)) 0).
      * apply lookup_delete.
      * apply lookup_insert.
    + rewrite <- Edh.
      destruct (count_of (cd_covhash (c_data c)) coins - 1 =? 0);
        [rewrite lookup_delete_ne by exact Hneh|rewrite lookup_insert_ne by exact Hneh]; apply (Hok h).
  - eexists. split; [reflexivity|]. intros h. cbn [fst snd]. rewrite delete_notin by exact Ek. apply (Hok h).
Qed.

(* a covenant hash with no coins has no count entry *)
Corollary counts_no_entry_without_coins cn h : CountsOk cn -> count_of h (fst cn) = 0 -> snd cn !! h = None.
Proof. intros H E. rewrite (H h), E. reflexivity. Qed.

(* at the activation height the counts are initialised from the existing coin set *)
Theorem tip906_transition_counts_ok coins : CountsOk (coins, tip906_transition coins ∅).
Proof.
  unfold tip906_transition, CountsOk. cbn [fst snd].
  apply (map_fold_ind (fun r m => forall h, r !! h = if count_of h m =? 0 then None else Some (count_of h m))).
  - intros h. rewrite count_of_empty. cbn. apply lookup_empty.
  - intros k c m r Hk IH h. rewrite (count_of_insert_fresh h k c m Hk). unfold set_count, coin_count.
    assert (E: default 0 (r !! cd_covhash (c_data c)) = count_of (cd_covhash (c_data c)) m).
    { rewrite (IH (cd_covhash (c_data c))). destruct (N.eqb_spec (count_of (cd_covhash (c_data c)) m) 0) as [->|]; reflexivity. }
    rewrite E.
    destruct (N.eqb_spec (count_of (cd_covhash (c_data c)) m + 1) 0) as [E0|_]; [lia|].
    destruct (N.eqb_spec (cd_covhash (c_data c)) h) as [->|Hne].
    + rewrite lookup_insert. destruct (N.eqb_spec (count_of h m + 1) 0); [lia|reflexivity].
    + rewrite lookup_insert_ne by exact Hne. apply IH.
Qed.

(* the genesis state: one coin, one count *)
Example genesis_counts_ok k c :
  CountsOk (insert_coin true k c (∅, ∅)).
Proof.
  apply insert_coin_counts_ok.
  - intros h. cbn [fst snd]. rewrite count_of_empty. apply lookup_empty.
  - intros c' E. cbn [fst] in E. rewrite lookup_empty in E. discriminate.
Qed.

(* --- lifting to the two passes of a batch, when every insertion is of a fresh key or keeps the covenant hash *)
Section Batch.
Variable SO : stf_oracle.
Variable s : wstate.

Definition same_cov_or_fresh (cn : gmap N cdh * gmap N N) (k : N) (c : cdh) : Prop :=
  forall c', fst cn !! k = Some c' -> cd_covhash (c_data c') = cd_covhash (c_data c).

Lemma remove_coins_counts_ok : forall ks cn, CountsOk cn -> exists r, remove_coins true ks cn = Ok r /\ CountsOk r.
Proof.
  induction ks as [|k ks IH]; intros cn Hok; cbn [remove_coins]; [eauto|].
  destruct (remove_coin_counts_ok k cn Hok) as (r1 & -> & Hok1). cbn [obind]. apply IH. exact Hok1.
Qed.

(* spending never breaks the counts and never panics on them *)
Theorem spend_all_counts_ok : forall txs n n',
  CountsOk (s_coins n, s_counts n) -> spend_all true txs n = Ok n' -> CountsOk (s_coins n', s_counts n').
Proof.
  induction txs as [|t rest IH]; intros n n' Hok H; cbn [spend_all] in H.
  - injection H as <-. exact Hok.
  - inv_bind H as n1 H1. eapply IH; [|exact H].
    unfold spend_and_pay in H1. inv_bind H1 as cn Hcn. inv_bind H1 as mf Hmf.
    destruct (t_fee t <? mf); [discriminate|]. injection H1 as <-. cbn [s_coins s_counts set_txs set_fees set_coins].
    destruct (remove_coins_counts_ok (map input_key (t_inputs t)) _ Hok) as (r & Hr & Hokr).
    rewrite Hr in Hcn. injection Hcn as <-. destruct r. exact Hokr.
Qed.
(* inserting bindings with fresh, pairwise distinct keys keeps the invariant *)
Lemma ins_pairs_counts_ok : forall l cn,
  CountsOk cn -> NoDup (map fst l) -> (forall k, In k (map fst l) -> fst cn !! k = None) ->
  CountsOk (ins_pairs true l cn).
Proof.
  induction l as [|[k c] l IH]; intros cn Hok Hnd Hfresh; cbn [ins_pairs fold_left fst snd]; [exact Hok|].
  fold (ins_pairs true l (insert_coin true k c cn)). cbn [map fst] in Hnd. inversion Hnd as [|? ? Hnk Hnd']; subst.
  apply IH.
  - apply insert_coin_counts_ok; [exact Hok|]. intros c' E. cbn [fst] in E. pose proof (Hfresh k ltac:(left; reflexivity)) as F. cbn [fst] in F. congruence.
  - exact Hnd'.
  - intros k' Hk'. rewrite insert_coin_fst. rewrite lookup_insert_ne by (intros E; subst k'; contradiction).
    apply Hfresh. right. exact Hk'.
Qed.

(* C20 for a whole batch (TIP-906 active): if the counts were right before and the coins the batch creates
   have fresh, distinct ids, the counts are right afterwards *)
Theorem accepted_batch_counts_ok lh txs s' relevant :
  apply_tx_batch SO s lh txs = Ok s' -> tip_906 s = true ->
  load_relevant_coins s txs = Ok relevant ->
  CountsOk (s_coins s, s_counts s) ->
  NoDup (map fst (flat_map (tx_inserts SO relevant) txs)) ->
  (forall k, In k (map fst (flat_map (tx_inserts SO relevant) txs)) -> s_coins s !! k = None) ->
  CountsOk (s_coins s', s_counts s').
Proof.
  intros H Htip Hrel Hok Hnd Hfresh.
  destruct (apply_tx_batch_inv _ _ _ _ _ H) as (relevant' & n & Hrel' & _ & _ & _ & Hn & _ & -> & -> & _).
  rewrite Hrel in Hrel'. injection Hrel' as <-. rewrite Htip in Hn.
  unfold create_next_state in Hn. inv_bind Hn as cn Hcn.
  apply insert_all_pairs in Hcn. subst cn.
  eapply spend_all_counts_ok; [|exact Hn]. cbn [s_coins s_counts set_coins].
  rewrite <- surjective_pairing. apply ins_pairs_counts_ok; assumption.
Qed.

(* before TIP-906 no count is ever written *)
Lemma insert_coin_false_counts k c cn : snd (insert_coin false k c cn) = snd cn.
Proof. destruct cn as [coins counts]. unfold insert_coin. destruct (coins !! k); reflexivity. Qed.

Lemma ins_pairs_false_counts : forall l cn, snd (ins_pairs false l cn) = snd cn.
Proof.
  induction l as [|[k c] l IH]; intros cn; cbn [ins_pairs fold_left fst snd]; [reflexivity|].
  fold (ins_pairs false l (insert_coin false k c cn)). rewrite IH. apply insert_coin_false_counts.
Qed.
End Batch.

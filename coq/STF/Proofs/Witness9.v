(* Known finding F18, as a theorem about the faithful model: the exception "is_bug_tx t = false" of the C19 theorems
   cannot be dropped.  The grandfathered faucet transaction (any transaction whose hash is BUG_TX_HASH) leaves no
   replay marker, so the state reached by accepting it accepts it again. *)
From MelVerif Require Import STF.Proofs.Tactics STF.Proofs.MapLemmas STF.Proofs.Faucet STF.Proofs.Witness.
Open Scope N_scope.

Definition w_bug : tx := w_mk KFaucet [] [w_out 5000 Mel] 1000 BUG_TX_HASH.

Lemma w_bug_replayed :
  is_bug_tx w_bug = true /\ t_kind w_bug = KFaucet /\
  exists s1 s2, apply_tx_batch w_oracle w_state w_header [w_bug] = Ok s1 /\
                apply_tx_batch w_oracle s1 w_header [w_bug] = Ok s2 /\
                s_coins s1 !! marker_key w_oracle w_bug = None.
Proof.
  split; [vm_compute; reflexivity|]. split; [reflexivity|].
  destruct (apply_tx_batch w_oracle w_state w_header [w_bug]) as [s1| |] eqn:E1; [|vm_compute in E1; discriminate|vm_compute in E1; discriminate].
  exists s1.
  destruct (apply_tx_batch w_oracle s1 w_header [w_bug]) as [s2| |] eqn:E2.
  - exists s2. split; [reflexivity|]. split; [reflexivity|].
    vm_compute in E1. injection E1 as <-. vm_compute. reflexivity.
  - exfalso. vm_compute in E1. injection E1 as <-. vm_compute in E2. discriminate.
  - exfalso. vm_compute in E1. injection E1 as <-. vm_compute in E2. discriminate.
Qed.

(* the same on mainnet: the one faucet mainnet accepts, it accepts again *)
Definition w_mainnet : wstate :=
  {| s_network := MAINNET; s_height := 5; s_history := ∅; s_coins := ∅; s_counts := ∅; s_txs := ∅;
     s_fee_pool := 1000; s_fee_mult := 100; s_tips := 0; s_dosc_speed := 1; s_pools := ∅; s_stakes := ∅ |}.
Lemma w_bug_replayed_on_mainnet :
  exists s1 s2, apply_tx_batch w_oracle w_mainnet w_header [w_bug] = Ok s1 /\
                apply_tx_batch w_oracle s1 w_header [w_bug] = Ok s2.
Proof.
  destruct (apply_tx_batch w_oracle w_mainnet w_header [w_bug]) as [s1| |] eqn:E1; [|vm_compute in E1; discriminate|vm_compute in E1; discriminate].
  exists s1.
  destruct (apply_tx_batch w_oracle s1 w_header [w_bug]) as [s2| |] eqn:E2; [exists s2; split; reflexivity| |];
    exfalso; vm_compute in E1; injection E1 as <-; vm_compute in E2; discriminate.
Qed.

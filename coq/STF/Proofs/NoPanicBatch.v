(* C09 for a whole batch: apply_tx_batch never panics, under stated invariants of the state (consistent counts
   when TIP-906 is active, the history holds no header at or above the current height and every recorded DOSC
   speed is positive) and stated arithmetic bounds (the inputs of a transaction sum to less than 2^128 per
   denomination - the supply bound; a mint's nominal reward fits in 128 bits). *)
From MelVerif Require Import STF.Proofs.Tactics STF.Proofs.MapLemmas STF.Proofs.Stakes STF.Proofs.Faucet
  STF.Proofs.Coins STF.Proofs.Supply STF.Proofs.Fees STF.Proofs.Counts STF.Proofs.Total STF.Proofs.HashFacts
  STF.Proofs.BatchSupply STF.Proofs.PermAccept STF.Proofs.SeqApply.
From Coq Require Import ZifyN ZifyNat ZifyBool.
Open Scope N_scope.

Definition no_panic {A} (r : res A) : Prop := match r with Panic _ => False | _ => True end.

Lemma no_panic_bind {A B} (r : res A) (f : A -> res B) :
  no_panic r -> (forall a, r = Ok a -> no_panic (f a)) -> no_panic (a <- r ;; f a).
Proof. destruct r; cbn; auto. Qed.

Lemma assoc_add_no_panic d v : forall l, sum_of d l + v < U128 -> exists l', assoc_add d v l = Ok l'.
Proof.
  induction l as [|[d0 x] r IH]; intros H; cbn [assoc_add]; [eauto|].
  cbn [sum_of fold_right fst snd] in H. fold (sum_of d r) in H.
  destruct (denom_eqb d d0) eqn:E.
  - unfold add128. destruct (N.ltb_spec (x + v) U128); [cbn; eauto|lia].
  - destruct (IH H) as [r' ->]. cbn. eauto.
Qed.

Lemma reward_bound w sp dsp :
  w <= 100 * 1099511627776 -> sp <= 100 * 1099511627776 -> 1 <= dsp ->
  to_u128_sat (w * sp * MICRO / (dsp * dsp * 2880)) <= 10000000000 * 1208925819614629174706176.
Proof.
  intros Hw Hs Hd.
  assert (Hx: w * sp * MICRO / (dsp * dsp * 2880) <= 10000000000 * 1208925819614629174706176).
  { assert (P: w * sp <= (100 * 1099511627776) * (100 * 1099511627776)) by (apply N.mul_le_mono; assumption).
    assert (Q: 1 <= dsp * dsp) by nia.
    apply N.div_le_upper_bound; [lia|]. unfold MICRO.
    assert (w * sp * 1000000 <= (100 * 1099511627776) * (100 * 1099511627776) * 1000000) by lia.
    set (X := dsp * dsp) in *. lia. }
  unfold to_u128_sat. destruct (N.ltb_spec (w * sp * MICRO / (dsp * dsp * 2880)) U128) as [|Hge]; [exact Hx|unfold U128 in Hge; lia].
Qed.

Lemma erg_fits h rr : h <= 3000000 -> rr <= 10000000000 * 1208925819614629174706176 -> (MICRO + h) * rr / MICRO < U128.
Proof.
  intros Hh Hr. apply N.div_lt_upper_bound; [unfold MICRO; lia|]. unfold MICRO, U128.
  assert ((1000000 + h) * rr <= 4000000 * (10000000000 * 1208925819614629174706176)) by (apply N.mul_le_mono; lia). lia.
Qed.

Section NoPanic.
Variable SO : stf_oracle.
Variable s : wstate.
Variable lh : header.

Lemma check_inputs_no_panic relevant ns t : forall ins idx good inc,
  keys_nodup inc ->
  (forall d, sum_of d inc + in_sum relevant d ins < U128) ->
  no_panic (check_inputs SO s lh relevant ns t idx ins good inc).
Proof.
  induction ins as [|i ins IH]; intros idx good inc Hn Hb; cbn [check_inputs]; [exact I|].
  apply no_panic_bind.
  - unfold check_input. destruct (coin_locked s ns (fst i)); [exact I|].
    destruct (relevant !! input_key i) as [c|] eqn:Ec; [|exact I].
    apply no_panic_bind.
    + destruct (existsb _ good); [exact I|]. destruct (find_script _ _ _); [|exact I].
      destruct (decode_all _); [|exact I]. destruct (covenant_accepts _ _ _); exact I.
    + intros g _. destruct (assoc_add_no_panic (cd_denom (c_data c)) (cd_value (c_data c)) inc) as [l' ->]; [|exact I].
      specialize (Hb (cd_denom (c_data c))). cbn [in_sum fold_right] in Hb. rewrite Ec, denom_eqb_refl in Hb.
      fold (in_sum relevant (cd_denom (c_data c)) ins) in Hb. lia.
  - intros [good1 inc1] Hgi. cbn [fst snd]. unfold check_input in Hgi.
    destruct (coin_locked s ns (fst i)); [discriminate|].
    destruct (relevant !! input_key i) as [c|] eqn:Ec; [|discriminate].
    inv_bind Hgi as g Hg. inv_bind Hgi as inc2 Hinc. injection Hgi as <- <-.
    destruct (assoc_add_spec _ _ _ _ Hinc Hn) as (Hn' & Hs' & _).
    apply IH; [exact Hn'|]. intros d. rewrite Hs'. specialize (Hb d). cbn [in_sum fold_right] in Hb. rewrite Ec in Hb.
    fold (in_sum relevant d ins) in Hb. destruct (denom_eqb d (cd_denom (c_data c))); lia.
Qed.

Lemma check_tx_validity_no_panic relevant ns t :
  totals_fit t = true ->
  (forall d, in_sum relevant d (t_inputs t) < U128) ->
  no_panic (check_tx_validity SO s lh relevant ns t).
Proof.
  intros Hfit Hb. unfold check_tx_validity. apply no_panic_bind.
  - apply check_inputs_no_panic; [exact I|]. intros d. cbn. apply Hb.
  - intros inc _. destruct (totals_fit_no_overflow t Hfit) as ((outs & ->) & _). cbn [obind].
    unfold check_balanced. destruct (txkind_eqb _ _); [exact I|]. destruct (forallb _ _); exact I.
Qed.

Lemma assoc_add_has d v : forall l l', assoc_add d v l = Ok l' -> exists x, In (d, x) l'.
Proof.
  induction l as [|[d0 x0] r IH]; intros l' H; cbn [assoc_add] in H.
  - injection H as <-. exists v. left. reflexivity.
  - destruct (denom_eqb d d0) eqn:E.
    + inv_bind H as sm Hs. injection H as <-. apply denom_eqb_eq in E. subst d0. exists sm. left. reflexivity.
    + inv_bind H as r' Hr. injection H as <-. destruct (IH _ Hr) as [x Hx]. exists x. right. exact Hx.
Qed.

(* an accepted non-faucet transaction has an input: its fee is MEL that must come from somewhere *)
Lemma valid_tx_has_inputs relevant ns t :
  check_tx_validity SO s lh relevant ns t = Ok tt -> t_kind t <> KFaucet -> t_inputs t <> [].
Proof.
  unfold check_tx_validity. intros H Hk E. rewrite E in H. cbn [check_inputs obind] in H.
  inv_bind H as outs Ho. unfold check_balanced in H.
  destruct (txkind_eqb (t_kind t) KFaucet) eqn:Ef; [destruct (t_kind t); cbn in Ef; try discriminate; contradiction|].
  destruct (forallb _ outs) eqn:Fa; [|discriminate].
  unfold total_outputs in Ho. inv_bind Ho as acc Ha. destruct (assoc_add_has _ _ _ _ Ho) as [x Hx].
  rewrite forallb_forall in Fa. specialize (Fa _ Hx). cbn in Fa. rewrite andb_false_r in Fa. discriminate.
Qed.

(* the stated invariants and bounds *)
Definition HistOK : Prop := forall h hd, s_history s !! h = Some hd -> h < s_height s /\ 0 < h_dosc_speed hd.
Definition mint_small (t : tx) : Prop := forall d pid, t_dosc t = DDProof d pid -> d <= 40.

Lemma validate_doscmint_no_panic relevant t :
  t_inputs t <> [] -> HistOK -> s_height s <= 3000000 -> mint_small t -> totals_fit t = true ->
  no_panic (validate_doscmint SO s relevant t).
Proof.
  intros Hin Hh Hht Hsm Hfit. unfold validate_doscmint.
  destruct (t_inputs t) as [|i0 rest]; [contradiction|].
  destruct (relevant !! input_key i0) as [c|]; [|exact I].
  destruct (_ && _); [exact I|].
  destruct (s_history s !! c_height c) as [seed|] eqn:Es; [|exact I].
  destruct (Hh _ _ Es) as [Hlt _].
  destruct (t_dosc t) as [| |difficulty pid] eqn:Ed; try exact I.
  specialize (Hsm difficulty pid Ed).
  destruct ((difficulty =? 0) || (64 <? difficulty)); [exact I|].
  destruct (so_melpow SO pid (so_header_hash SO seed) (input_key i0) difficulty) eqn:Ev; [exact I| |].
  all: destruct (N.leb_spec 128 difficulty); [lia|].
  all: assert (P40: 2 ^ difficulty <= 2 ^ 40) by (apply N.pow_le_mono_r; [discriminate|exact Hsm]).
  all: change (2 ^ 40) with 1099511627776 in P40.
  all: match goal with |- context [U128 <=? ?w] => destruct (N.leb_spec U128 w) as [Hw|Hw]; [unfold U128 in Hw; lia|] end.
  all: destruct (N.eqb_spec (s_height s - c_height c) 0); [lia|].
  all: destruct (N.eqb_spec (s_height s) 0); [lia|].
  all: destruct (s_history s !! (s_height s - 1)) as [prev|] eqn:Ep; [|exact I].
  all: destruct (Hh _ _ Ep) as [_ Hsp].
  all: unfold calculate_reward; destruct (N.leb_spec 128 difficulty); [lia|].
  all: destruct (N.eqb_spec (h_dosc_speed prev) 0); [lia|]; cbn [obind].
  all: match goal with |- context [to_u128_sat (?w * ?sp * MICRO / ?q)] =>
         assert (Hrr: to_u128_sat (w * sp * MICRO / q) <= 10000000000 * 1208925819614629174706176);
         [apply reward_bound; [|apply N.div_le_upper_bound; [lia|]; nia|lia]|] end.
  1: lia.
  2: { unfold sat_mul128, MAX128, U128. lia. }
  all: match goal with |- context [to_u128_sat ?x] => set (rr := to_u128_sat x) in * end.
  all: unfold dosc_to_erg, microergs_per_dosc.
  all: destruct (N.leb_spec (s_height s) 3000000); [|lia].
  all: pose proof (erg_fits (s_height s) rr Hht Hrr) as Hfits.
  all: destruct (N.ltb_spec ((MICRO + s_height s) * rr / MICRO) U128); [|lia].
  all: cbn [obind]; destruct (totals_fit_no_overflow t Hfit) as ((outs & ->) & _); cbn [obind]; destruct (_ <? _); exact I.
Qed.

Lemma first_error_no_panic {A B} (f : A -> res B) : forall l, (forall x, In x l -> no_panic (f x)) -> no_panic (first_error (map f l)).
Proof.
  induction l as [|x l IH]; intros H; cbn [map first_error]; [exact I|].
  pose proof (H x (or_introl eq_refl)) as Hx. destruct (f x); [|exact I|contradiction].
  apply IH. intros y Hy. apply H. right. exact Hy.
Qed.

Lemma load_relevant_no_panic txs : no_panic (load_relevant_coins s txs).
Proof.
  unfold load_relevant_coins. destruct (negb _); [exact I|]. apply no_panic_bind.
  - generalize (∅ : gmap N cdh) as m. induction (all_inputs txs) as [|k ks IH]; intros m; cbn [lookup_inputs]; [exact I|].
    destruct (batch_outputs (s_height s) txs !! k); [apply IH|]. destruct (s_coins s !! k); [apply IH|exact I].
  - intros ins _. destruct (dup_free _ _); exact I.
Qed.

Lemma insert_all_no_panic relevant tip : forall txs cn, no_panic (insert_all SO s relevant tip txs cn).
Proof.
  induction txs as [|t txs IH]; intros cn; cbn [insert_all]; [exact I|]. apply no_panic_bind; [|intros; apply IH].
  unfold insert_outputs. apply no_panic_bind; [|intros; exact I].
  destruct (txkind_eqb _ _); [|exact I]. unfold handle_faucet. destruct (_ && _); [exact I|].
  destruct (fst cn !! _); [exact I|]. destruct (is_bug_tx t); exact I.
Qed.

Lemma spend_all_no_panic tip : forall txs n,
  (tip = true -> CountsOk (s_coins n, s_counts n)) -> (forall t, In t txs -> totals_fit t = true) ->
  no_panic (spend_all tip txs n).
Proof.
  induction txs as [|t txs IH]; intros n Hok Hfit; cbn [spend_all]; [exact I|].
  apply no_panic_bind.
  - unfold spend_and_pay.
    assert (exists cn2, remove_coins tip (map input_key (t_inputs t)) (s_coins n, s_counts n) = Ok cn2) as [cn2 E].
    { destruct tip; [destruct (remove_coins_counts_ok (map input_key (t_inputs t)) _ (Hok eq_refl)) as (r & Hr & _); eauto|].
      rewrite remove_coins_false. eauto. }
    rewrite E. cbn [obind].
    destruct (totals_fit_no_overflow t (Hfit t (or_introl eq_refl))) as (_ & _ & Hm). destruct (Hm (s_fee_mult n)) as [mf ->].
    cbn [obind]. destruct (_ <? _); exact I.
  - intros n1 H1. apply IH; [|intros t' Ht'; apply Hfit; right; exact Ht'].
    intros Ht. subst tip. unfold spend_and_pay in H1. inv_bind H1 as cn2 Hcn. inv_bind H1 as mf Hmf.
    destruct (_ <? _); [discriminate|]. injection H1 as <-. cbn [s_coins s_counts set_txs set_fees set_coins].
    destruct (remove_coins_counts_ok (map input_key (t_inputs t)) _ (Hok eq_refl)) as (r & Hr & Or).
    rewrite Hr in Hcn. injection Hcn as <-. destruct r. exact Or.
Qed.

(* C09, one batch *)
Theorem apply_tx_batch_never_panics txs :
  HashOK SO s txs ->
  (tip_906 s = true -> CountsOk (s_coins s, s_counts s)) ->
  HistOK -> s_height s <= 3000000 ->
  (forall t, In t txs -> mint_small t) ->
  (forall relevant t d, load_relevant_coins s txs = Ok relevant -> In t txs -> in_sum relevant d (t_inputs t) < U128) ->
  no_panic (apply_tx_batch SO s lh txs).
Proof.
  intros HK Hcnt Hh Hht Hsm Hsum. unfold apply_tx_batch.
  apply no_panic_bind; [apply load_relevant_no_panic|]. intros relevant Hrel.
  destruct (load_relevant_coins_spec _ _ _ Hrel) as (Hwf & _).
  rewrite load_stake_info_spec. destruct (forallb (stake_tx_ok s) txs); [|exact I]. cbn [obind].
  apply no_panic_bind.
  { apply first_error_no_panic. intros t Ht. apply check_tx_validity_no_panic; [apply (Hwf t Ht)|].
    intros d. apply (Hsum relevant t d Hrel Ht). }
  intros [] Hval. pose proof (proj1 (first_error_map_ok _ _) Hval) as Hv.
  apply no_panic_bind.
  { apply first_error_no_panic. intros t Ht. apply filter_In in Ht as [Ht Hk].
    destruct (Hv t Ht) as [[] Hvt].
    apply validate_doscmint_no_panic; [|exact Hh|exact Hht|apply Hsm; exact Ht|apply (Hwf t Ht)].
    apply (valid_tx_has_inputs relevant _ t Hvt). destruct (t_kind t); cbn in Hk; discriminate. }
  intros [] _. apply no_panic_bind; [|intros; exact I].
  unfold create_next_state. apply no_panic_bind; [apply insert_all_no_panic|].
  intros cn Hcn. apply spend_all_no_panic; [|intros t Ht; apply (Hwf t Ht)].
  intros Htip. cbn [s_coins s_counts set_coins]. rewrite <- surjective_pairing.
  rewrite (insert_all_pairs _ _ _ _ _ _ _ Hcn), Htip.
  assert (Hshort: short_outputs txs) by (apply well_formed_short; intros t Ht; apply Hwf; exact Ht).
  apply ins_pairs_counts_ok; [apply Hcnt; exact Htip|apply (batch_inserts_nodup SO s); assumption|].
  cbn [fst]. intros k Hk. apply in_map_iff in Hk as ([k' c] & E & Hk). cbn [fst] in E. subst k'.
  apply in_flat_map in Hk as (t & Ht & Hk).
  assert (Hk2: In k (map fst (tx_inserts SO relevant t))) by (apply in_map_iff; exists (k, c); auto).
  apply insert_key_cases in Hk2 as [(Hf & ->)|(io & Hio & ->)].
  - destruct (s_coins s !! marker_key SO t) eqn:Em; [|reflexivity]. exfalso.
    apply andb_true_iff in Hf as [Hf _]. unfold is_faucet in Hf.
    eapply (insert_all_rejects_replay SO s relevant (tip_906 s) txs _ cn t); eauto.
    + destruct (t_kind t); cbn in Hf; try discriminate. reflexivity.
    + unfold has_key. cbn [fst]. rewrite Em. eauto.
  - apply (hk_out_fresh SO s txs HK). apply in_out_keys; assumption.
Qed.
End NoPanic.

(* C17: the fee multiplier moves only by the bounded, specified step per block. *)
From MelVerif Require Import STF.Model.
From Coq Require Import ZifyN ZifyNat ZifyBool.
Ltac Zify.zify_post_hook ::= Z.div_mod_to_equations.
Open Scope N_scope.

Definition floor901 (after901 : bool) : Z := if after901 then 2%Z else 0%Z.
(* trunc(max(m/128, floor) * d / 128) as an integer *)
Definition spec_step (after901 : bool) (m : N) (d : Z) : Z :=
  Z.quot (Z.max (Z.of_N m / 128) (floor901 after901) * d) 128.

Theorem move_fee_multiplier_spec after901 m d :
  (-128 <= d <= 127)%Z -> m < U128 ->
  Z.of_N (move_fee_multiplier after901 m d)
  = Z.min (Z.of_N MAX128) (Z.max 0 (Z.of_N m + spec_step after901 m d)).
Proof.
  intros Hd Hm. unfold move_fee_multiplier, spec_step, floor901, sat_add128, MAX128, U128 in *.
  destruct after901.
  - destruct (Z.leb_spec 0 d).
    + rewrite Z.quot_div_nonneg by lia. lia.
    + assert (E: (Z.max (Z.of_N m / 128) 2 * d)%Z = (- (Z.max (Z.of_N m / 128) 2 * - d))%Z) by lia.
      rewrite E, Z.quot_opp_l by lia. rewrite Z.quot_div_nonneg by lia. lia.
  - destruct (Z.leb_spec 0 d).
    + rewrite Z.quot_div_nonneg by lia. lia.
    + assert (E: (Z.max (Z.of_N m / 128) 0 * d)%Z = (- (Z.max (Z.of_N m / 128) 0 * - d))%Z) by lia.
      rewrite E, Z.quot_opp_l by lia. rewrite Z.quot_div_nonneg by lia. lia.
Qed.

Lemma mag_le mm a : a <= 128 -> mm * a / 128 <= mm.
Proof. intros H. apply N.div_le_upper_bound; [discriminate|]. nia. Qed.

(* the step is at most 1/128 of the value, or 2 units *)
Theorem move_fee_multiplier_bounded after901 m d :
  (-128 <= d <= 127)%Z -> m < U128 ->
  (Z.abs (Z.of_N (move_fee_multiplier after901 m d) - Z.of_N m) <= Z.max (Z.of_N m / 128) 2)%Z.
Proof.
  intros Hd Hm. unfold move_fee_multiplier, sat_add128, MAX128, U128 in *.
  assert (Ha: Z.abs_N d <= 128) by lia.
  pose proof (mag_le (N.max (m / 128) 2) (Z.abs_N d) Ha).
  pose proof (mag_le (m / 128) (Z.abs_N d) Ha).
  destruct after901; destruct (Z.leb_spec 0 d); lia.
Qed.

(* it never wraps: the result is a u128, and it moves in the direction of delta *)
Theorem move_fee_multiplier_no_wrap after901 m d :
  (-128 <= d <= 127)%Z -> m < U128 ->
  move_fee_multiplier after901 m d < U128 /\
  ((0 <= d)%Z -> m <= move_fee_multiplier after901 m d) /\
  ((d < 0)%Z -> move_fee_multiplier after901 m d <= m).
Proof.
  intros Hd Hm. unfold move_fee_multiplier, sat_add128, MAX128, U128 in *.
  destruct after901; destruct (Z.leb_spec 0 d); lia.
Qed.

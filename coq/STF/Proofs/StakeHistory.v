(* C13 over whole histories: while a stake registered under the transaction hash h stays in the stake set,
   every coin with that transaction hash stays in the coin tree, unchanged, through every batch and block
   boundary of every history (outside the legacy heights below 900000, finding F20).  The stake itself stays
   exactly as long as C13_lifetime says: through every boundary whose new epoch is <= its end field. *)
From MelVerif Require Import STF.Proofs.Tactics STF.Proofs.MapLemmas STF.Proofs.Frame STF.Proofs.Stakes STF.Proofs.Faucet
  STF.Proofs.Coins STF.Proofs.SealCoins STF.Proofs.HashFacts STF.Proofs.Perm STF.Proofs.BatchSupply STF.Proofs.PermAccept
  STF.Proofs.SealCounts STF.Proofs.History.
From Coq Require Import ZifyN ZifyNat ZifyBool.
Open Scope N_scope.

Section StakeHistory.
Variable SO : stf_oracle.
Variable h : N.            (* hash of the staking transaction *)
Variable i : N.            (* an output index of it *)
Hypothesis Hi : i < 256.
Variable d : stakedoc.
Variable c : cdh.

Definition Locked (s : wstate) : Prop := s_stakes s !! h = Some d /\ s_coins s !! coin_key h i = Some c.

Lemma stake_fold_none s : forall txs acc, (forall t, In t txs -> t_hash t <> h) -> acc !! h = None ->
  stake_fold s txs acc !! h = None.
Proof.
  induction txs as [|t r IH]; intros acc Hne Ha; cbn [stake_fold fold_left]; [exact Ha|].
  apply IH; [intros t' Ht'; apply Hne; right; exact Ht'|].
  destruct (registers s t); [|exact Ha]. rewrite lookup_insert_ne; [exact Ha|]. apply Hne. left. reflexivity.
Qed.

(* a batch: the coin is not spent (lock), not overwritten (transaction hashes of the batch are new, markers are
   not coin ids of h), and the stake entry is not replaced.  Input indices are bytes (CoinID.index : u8). *)
Lemma batch_keeps_locked s lh txs s' :
  apply_tx_batch SO s lh txs = Ok s' -> HashOK SO s txs -> legacy900 s = false ->
  (forall t, In t txs -> so_faucet_marker SO (t_hash t) <> h) ->
  (forall t inp, In t txs -> In inp (t_inputs t) -> snd inp < 256) ->
  Locked s -> Locked s'.
Proof.
  intros H HK Hleg Hm Hidx [Hs Hc].
  assert (Hne: forall t, In t txs -> t_hash t <> h).
  { intros t Ht E. pose proof (hk_fresh _ _ _ HK t i Ht Hi) as F. rewrite E, Hc in F. discriminate. }
  split.
  - rewrite (accepted_batch_stakes SO s lh txs s' H). apply lookup_union_Some_raw. right.
    split; [apply stake_fold_none; [exact Hne|apply lookup_empty]|exact Hs].
  - destruct (accepted_batch_coins _ _ _ _ _ H) as (relevant & Hrel & Ec). rewrite Ec.
    assert (Hni: ~ In (coin_key h i) (all_inputs txs)).
    { intros Hin. unfold all_inputs in Hin. apply in_flat_map in Hin as (t & Ht & Hin).
      apply in_map_iff in Hin as (inp & E & Hinp). unfold input_key in E.
      apply coin_key_inj in E as [Eh _]; [|apply (Hidx t inp Ht Hinp)|exact Hi].
      destruct (accepted_batch_spends_no_locked_coin SO s lh txs s' H t inp Ht Hinp) as [Hl|[Hn _]]; [congruence|].
      rewrite Eh, Hs in Hn. discriminate. }
    rewrite del_all_notin by exact Hni. rewrite ins_all_notin; [exact Hc|].
    intros Hk. apply in_map_iff in Hk as ([k' c'] & E & Hk). cbn [fst] in E. subst k'.
    apply in_flat_map in Hk as (t & Ht & Hk).
    apply in_tx_inserts in Hk as [(_ & E & _)|(j & o & _ & E & _)].
    + unfold marker_key in E. apply coin_key_inj in E as [E _]; [|exact Hi|lia]. symmetry in E. exact (Hm t Ht E).
    + apply coin_key_inj in E as [E _]; [|exact Hi|apply N.mod_lt; discriminate]. symmetry in E. exact (Hne t Ht E).
Qed.

(* a block boundary: sealing rewrites only outputs of pool requests and the reward coin; the stake survives the
   boundary exactly when the new epoch is <= its end field *)
Lemma block_keeps_locked s a hdr s' :
  seal SO s a = Ok s' ->
  (forall t, In t (sorted_txs s) -> is_pool_request t = true -> t_hash t <> h) ->
  so_reward_id SO (s_height s) <> h ->
  (s_height s + 1) / STAKE_EPOCH <= sd_postend d ->
  Locked s -> Locked (next_unsealed s' hdr).
Proof.
  intros H Hreq Hrw Hep [Hs Hc]. split.
  - apply next_unsealed_stakes. rewrite (seal_stakes SO s a s' H).
    assert (Eh: s_height s' = s_height s) by (apply seal_frame in H; tauto). rewrite Eh. auto.
  - assert (E: s_coins (next_unsealed s' hdr) = s_coins s') by (unfold next_unsealed; destruct (_ && _); reflexivity).
    rewrite E. rewrite (seal_leaves_other_coins SO s a s' _ H); [exact Hc| |].
    + intros t Ht Hr. pose proof (Hreq t Ht Hr) as Hne. unfold key0, key1.
      split; intros E2; apply coin_key_inj in E2 as [E2 _]; lia.
    + intros E2. apply coin_key_inj in E2 as [E2 _]; lia.
Qed.

Definition stake_step_ok (s : wstate) (o : hop) : Prop :=
  match o with
  | HBatch lh txs => HashOK SO s txs /\ legacy900 s = false /\
      (forall t, In t txs -> so_faucet_marker SO (t_hash t) <> h) /\
      (forall t inp, In t txs -> In inp (t_inputs t) -> snd inp < 256)
  | HBlock a hdr =>
      (forall t, In t (sorted_txs s) -> is_pool_request t = true -> t_hash t <> h) /\
      so_reward_id SO (s_height s) <> h /\
      (s_height s + 1) / STAKE_EPOCH <= sd_postend d
  end.

Lemma hstep_locked s o : Locked s -> stake_step_ok s o -> Locked (hstep SO s o).
Proof.
  intros L Hok. destruct o as [lh txs|a hdr]; cbn [hstep stake_step_ok] in *.
  - destruct (apply_tx_batch SO s lh txs) as [s'| |] eqn:E; [|exact L|exact L].
    destruct Hok as (HK & Hleg & Hm & Hidx). eapply batch_keeps_locked; eauto.
  - destruct (seal SO s a) as [s'| |] eqn:E; [|exact L|exact L].
    destruct Hok as (Hreq & Hrw & Hep). eapply block_keeps_locked; eauto.
Qed.

(* C13: the staked coin is there, unchanged, in every state of every history whose block boundaries stay within
   the life of the stake *)
Theorem staked_coin_locked_for_life : forall ops s,
  Locked s -> hist_all SO stake_step_ok s ops -> Locked (fold_left (hstep SO) ops s).
Proof. apply history_invariant. exact hstep_locked. Qed.

Lemma locked_def s : Locked s <-> s_stakes s !! h = Some d /\ s_coins s !! coin_key h i = Some c.
Proof. reflexivity. Qed.
Lemma stake_step_ok_def s o :
  stake_step_ok s o <->
  match o with
  | HBatch lh txs => HashOK SO s txs /\ legacy900 s = false /\
      (forall t, In t txs -> so_faucet_marker SO (t_hash t) <> h) /\
      (forall t inp, In t txs -> In inp (t_inputs t) -> snd inp < 256)
  | HBlock a hdr =>
      (forall t, In t (sorted_txs s) -> is_pool_request t = true -> t_hash t <> h) /\
      so_reward_id SO (s_height s) <> h /\
      (s_height s + 1) / STAKE_EPOCH <= sd_postend d
  end.
Proof. destruct o; reflexivity. Qed.
End StakeHistory.

(* how the lock starts: an accepted batch that registers a stake leaves the stake in the set and the staked
   output in the coin tree (it cannot be spent inside the same batch either) *)
Lemma registered_stake_locked SO s lh txs s' t d first rest :
  apply_tx_batch SO s lh txs = Ok s' -> HashOK SO s txs -> legacy900 s = false ->
  (forall t inp, In t txs -> In inp (t_inputs t) -> snd inp < 256) ->
  In t txs -> registers s t = Some d -> t_outputs t = first :: rest -> cd_covhash first <> 0 ->
  Locked (t_hash t) 0 d (coin_of s t first) s'.
Proof.
  intros H HK Hleg Hidx Ht Hreg Hout Hcov.
  assert (Hnd: NoDup (map t_hash txs)) by apply (hk_nodup _ _ _ HK).
  assert (Hsf: stake_fold s txs ∅ !! t_hash t = Some d).
  { rewrite stake_fold_ins_all. apply ins_all_in; [apply stake_bindings_consistent; exact Hnd|].
    unfold stake_bindings. apply in_flat_map. exists t. split; [exact Ht|]. rewrite Hreg. left. reflexivity. }
  split.
  - rewrite (accepted_batch_stakes SO s lh txs s' H). apply lookup_union_Some_raw. left. exact Hsf.
  - destruct (accepted_batch_coins _ _ _ _ _ H) as (relevant & Hrel & Ec). rewrite Ec.
    destruct (load_relevant_coins_spec _ _ _ Hrel) as (Hwf & _).
    assert (Hs: short_outputs txs) by (apply well_formed_short; intros t0 Ht0; apply Hwf; exact Ht0).
    assert (Hni: ~ In (coin_key (t_hash t) 0) (all_inputs txs)).
    { intros Hin. unfold all_inputs in Hin. apply in_flat_map in Hin as (t2 & Ht2 & Hin).
      apply in_map_iff in Hin as (inp & E & Hinp). unfold input_key in E.
      apply coin_key_inj in E as [Eh _]; [|apply (Hidx t2 inp Ht2 Hinp)|lia].
      destruct (accepted_batch_spends_no_locked_coin SO s lh txs s' H t2 inp Ht2 Hinp) as [Hl|[_ Hn]]; [congruence|].
      rewrite Eh, Hsf in Hn. discriminate. }
    rewrite del_all_notin by exact Hni.
    apply ins_all_in.
    + apply batch_inserts_consistent. intros t1 t2 j Ht1 Ht2 E. unfold marker_key in E.
      apply coin_key_inj in E as [E _]; [|lia|apply N.mod_lt; discriminate]. exact (hk_marker_tx _ _ _ HK t1 t2 Ht1 Ht2 E).
    + apply in_flat_map. exists t. split; [exact Ht|]. apply in_tx_inserts. right. exists 0, first.
      split; [rewrite Hout; left; reflexivity|]. split; [reflexivity|].
      pose proof (relevant_at s txs relevant Hrel (hk_out_nodup SO s txs HK Hs) (hk_out_fresh SO s txs HK) t (0, first) Ht) as Er.
      rewrite Hout in Er. specialize (Er (or_introl eq_refl)). unfold key_of in Er. cbn [fst snd] in Er.
      destruct (N.eqb_spec (cd_covhash first) 0) as [E0|_]; [contradiction|]. exact Er.
Qed.

(* C15 / C16: Melswap arithmetic (PoolState::swap_many / deposit / withdraw, multiply_ratio). *)
From MelVerif Require Import STF.Proofs.Tactics.
From Coq Require Import ZifyN ZifyNat ZifyBool.
Open Scope N_scope.

Lemma div_mul_le a b : b <> 0 -> a / b * b <= a.
Proof. intros H. rewrite N.mul_comm. apply N.mul_div_le. exact H. Qed.

Lemma to_u128_sat_small x : x < U128 -> to_u128_sat x = x.
Proof. unfold to_u128_sat. intros H. destruct (N.ltb_spec x U128); [reflexivity|lia]. Qed.

Lemma sat_add_small a b : a + b < U128 -> sat_add128 a b = a + b.
Proof. unfold sat_add128, MAX128. unfold U128 in *. lia. Qed.

Section Swap.
Variable p : pool.
Variables l r : N.
Hypothesis HL : 1 <= p_lefts p.
Hypothesis HR : 1 <= p_rights p.
(* no saturation: the supply bound of C09 *)
Hypothesis HsumL : p_lefts p + l < U128.
Hypothesis HsumR : p_rights p + r < U128.

Let L' := p_lefts p + l.
Let R' := p_rights p + r.
Let rw := l * R' * 995 / (L' * 1000).
Let lw := r * L' * 995 / (R' * 1000).

Lemma rw_bound : rw * (L' * 1000) <= l * R' * 995.
Proof. unfold rw. apply div_mul_le. unfold L'. lia. Qed.
Lemma lw_bound : lw * (R' * 1000) <= r * L' * 995.
Proof. unfold lw. apply div_mul_le. unfold R'. lia. Qed.

Lemma lw_lt : lw < L'.
Proof.
  pose proof lw_bound. unfold L', R' in *.
  assert (lw * (R' * 1000) < L' * (R' * 1000)); [|unfold L', R' in *; nia].
  unfold L', R' in *. nia.
Qed.
Lemma rw_lt : rw < R'.
Proof.
  pose proof rw_bound.
  assert (rw * (L' * 1000) < R' * (L' * 1000)); [|unfold L', R' in *; nia].
  unfold L', R' in *. nia.
Qed.

Lemma newL_scaled : L' * p_rights p <= (L' - lw) * R'.
Proof. pose proof lw_bound. pose proof lw_lt. unfold L', R' in *. nia. Qed.
Lemma newR_scaled : R' * p_lefts p <= (R' - rw) * L'.
Proof. pose proof rw_bound. pose proof rw_lt. unfold L', R' in *. nia. Qed.

(* swap_many never panics on a pool with two non-empty sides, pays out at the single price
   floor(in * other' * 995 / (own' * 1000)) on each side, keeps both reserves positive, leaves the
   issued liquidity alone and never decreases the reserve product *)
Theorem swap_many_spec :
  exists acc,
    swap_many p l r = Ok ({| p_lefts := L' - lw; p_rights := R' - rw; p_accum := acc; p_liqs := p_liqs p |}, lw, rw) /\
    1 <= L' - lw /\ 1 <= R' - rw /\
    p_lefts p * p_rights p <= (L' - lw) * (R' - rw) /\
    rw * (L' * 1000) <= l * R' * 995 /\ lw * (R' * 1000) <= r * L' * 995.
Proof.
  pose proof lw_lt as Hlw. pose proof rw_lt as Hrw.
  unfold swap_many.
  rewrite (sat_add_small _ _ HsumL), (sat_add_small _ _ HsumR). fold L' R'.
  destruct (N.eqb_spec R' 0) as [E|_]; [unfold R' in E; lia|].
  destruct (N.eqb_spec L' 0) as [E|_]; [unfold L' in E; lia|].
  fold rw lw.
  rewrite (to_u128_sat_small rw) by (unfold R' in *; lia).
  rewrite (to_u128_sat_small lw) by (unfold L' in *; lia).
  destruct (N.ltb_spec L' lw); [lia|]. destruct (N.ltb_spec R' rw); [lia|].
  destruct (N.eqb_spec (R' - rw) 0) as [E|_]; [lia|].
  eexists. split; [reflexivity|].
  split; [lia|]. split; [lia|]. split; [|split; [apply rw_bound|apply lw_bound]].
  (* product *)
  pose proof newL_scaled as A. pose proof newR_scaled as B.
  assert (HLR : 0 < L' * R') by (unfold L', R'; nia).
  assert (M : (L' * p_rights p) * (R' * p_lefts p) <= ((L' - lw) * R') * ((R' - rw) * L')).
  { apply N.mul_le_mono; assumption. }
  apply N.mul_le_mono_pos_r with (p := L' * R'); [exact HLR|]. nia.
Qed.
End Swap.

(* pro-rata shares rounded down never add up to more than the whole *)
Lemma multiply_ratio_le x a b : a <= b -> x < U128 -> multiply_ratio x a b <= x.
Proof.
  intros Hab Hx. unfold multiply_ratio. destruct (N.eqb_spec b 0); [lia|].
  assert (x * a / b <= x) by (apply N.div_le_upper_bound; [assumption|nia]).
  rewrite to_u128_sat_small by lia. exact H.
Qed.

Fixpoint nsum (l : list N) : N := match l with [] => 0 | x :: t => x + nsum t end.

Theorem prorata_sum_le : forall (vs : list N) x T,
  x < U128 -> nsum vs <= T ->
  nsum (map (fun v => multiply_ratio x v T) vs) <= x.
Proof.
  intros vs x T Hx Hs. destruct (N.eqb_spec T 0) as [->|HT].
  { assert (E: forall l, nsum (map (fun v => multiply_ratio x v 0) l) = 0).
    { induction l as [|v l IH]; cbn [map nsum]; [reflexivity|]. rewrite IH. reflexivity. }
    rewrite E. lia. }
  assert (G: forall l, nsum l <= T -> nsum (map (fun v => multiply_ratio x v T) l) * T <= x * nsum l).
  { induction l as [|v l IH]; intros Hl; cbn [map nsum] in *; [lia|].
    specialize (IH ltac:(lia)).
    assert (multiply_ratio x v T = x * v / T).
    { unfold multiply_ratio. destruct (N.eqb_spec T 0); [lia|]. apply to_u128_sat_small.
      assert (x * v / T <= x) by (apply N.div_le_upper_bound; [assumption|nia]). lia. }
    rewrite H. pose proof (div_mul_le (x * v) T HT). nia. }
  specialize (G vs Hs).
  assert (nsum (map (fun v => multiply_ratio x v T) vs) * T <= x * T) by nia.
  apply N.mul_le_mono_pos_r with (p := T); lia.
Qed.

(* clamped deposit shares: whatever the rounding of the individual shares, at most [avail] is handed out *)
Fixpoint clamped_shares (total total_mt : N) (mts : list N) (avail : N) : list N :=
  match mts with
  | [] => []
  | my :: rest => let v := N.min (multiply_ratio total my total_mt) avail in
                  v :: clamped_shares total total_mt rest (avail - v)
  end.

Theorem clamped_shares_le total total_mt : forall mts avail, nsum (clamped_shares total total_mt mts avail) <= avail.
Proof.
  induction mts as [|my rest IH]; intros avail; cbn [clamped_shares nsum]; [lia|].
  specialize (IH (avail - N.min (multiply_ratio total my total_mt) avail)). lia.
Qed.

(* withdraw: pays floor(reserve * l / liqs) of each side, the reserves and the issued liquidity move by
   exactly those amounts; never panics when l <= liqs and liqs > 0 *)
Theorem pool_withdraw_spec p l :
  l <= p_liqs p -> 0 < p_liqs p ->
  exists p' a b, pool_withdraw p l = Ok (p', a, b) /\
    p_liqs p' = p_liqs p - l /\ p_lefts p' = p_lefts p - a /\ p_rights p' = p_rights p - b /\
    a <= p_lefts p /\ b <= p_rights p /\
    (l < p_liqs p -> a = p_lefts p * l / p_liqs p /\ b = p_rights p * l / p_liqs p) /\
    (l = p_liqs p -> a = p_lefts p /\ b = p_rights p) /\
    (l < p_liqs p -> 1 <= p_lefts p -> 1 <= p_lefts p') /\
    (l < p_liqs p -> 1 <= p_rights p -> 1 <= p_rights p').
Proof.
  intros Hl Hq. unfold pool_withdraw.
  destruct (N.ltb_spec (p_liqs p) l); [lia|]. destruct (N.eqb_spec (p_liqs p) 0); [lia|].
  destruct (N.eqb_spec (p_liqs p - l) 0) as [E|E].
  - eexists _, _, _. split; [reflexivity|]. cbn. repeat split; try lia.
  - assert (Ha: p_lefts p * l / p_liqs p <= p_lefts p) by (apply N.div_le_upper_bound; [lia|nia]).
    assert (Hb: p_rights p * l / p_liqs p <= p_rights p) by (apply N.div_le_upper_bound; [lia|nia]).
    eexists _, _, _. split; [reflexivity|]. cbn. repeat split; try lia.
    + intros Hlt HL. assert (p_lefts p * l / p_liqs p < p_lefts p); [|lia].
      apply N.div_lt_upper_bound; [lia|nia].
    + intros Hlt HR. assert (p_rights p * l / p_liqs p < p_rights p); [|lia].
      apply N.div_lt_upper_bound; [lia|nia].
Qed.

(* deposit: a fresh pool takes the deposit as is and issues `lefts` tokens; a live pool issues
   floor(sqrt(liqs^2 * dL * dR / (L * R))) and its reserves grow by exactly dL and dR *)
Theorem pool_deposit_spec p dl dr :
  p_lefts p + dl < U128 -> p_rights p + dr < U128 ->
  (p_liqs p = 0 -> pool_deposit p dl dr = Ok ({| p_lefts := dl; p_rights := dr; p_accum := p_accum p; p_liqs := dl |}, dl)) /\
  (0 < p_liqs p -> 0 < p_lefts p * p_rights p ->
     let minted := to_u128_sat (N.sqrt (p_liqs p * p_liqs p * (dl * dr) / (p_lefts p * p_rights p))) in
     pool_deposit p dl dr =
       Ok ({| p_lefts := p_lefts p + dl; p_rights := p_rights p + dr; p_accum := p_accum p;
              p_liqs := sat_add128 (p_liqs p) minted |}, minted)).
Proof.
  intros H1 H2. unfold pool_deposit. split.
  - intros ->. reflexivity.
  - intros Hq Hp. destruct (N.eqb_spec (p_liqs p) 0); [lia|].
    rewrite (sat_add_small dl (p_lefts p)), (sat_add_small dr (p_rights p)) by lia.
    destruct (N.eqb_spec (p_lefts p * p_rights p) 0); [lia|].
    replace (dl + p_lefts p - p_lefts p) with dl by lia.
    replace (dr + p_rights p - p_rights p) with dr by lia. reflexivity.
Qed.

(* C01, whole batch: the supply of every denomination (coins + fee pool + tips; pools are untouched by a batch)
   after an accepted batch is at most the supply before plus the batch's explicit issuance. *)
From MelVerif Require Import STF.Proofs.Tactics STF.Proofs.MapLemmas STF.Proofs.Stakes STF.Proofs.Faucet
  STF.Proofs.Coins STF.Proofs.Supply STF.Proofs.Fees STF.Proofs.Pool STF.Proofs.HashFacts.
Open Scope N_scope.

Definition val (d : denom) (c : cdh) : N := if denom_eqb (cd_denom (c_data c)) d then cd_value (c_data c) else 0.
Definition vopt (d : denom) (o : option cdh) : N := match o with Some c => val d c | None => 0 end.

Lemma nsum_app a b : nsum (a ++ b) = nsum a + nsum b.
Proof. induction a as [|x a IH]; cbn [nsum fold_right app]; [reflexivity|]. fold (nsum (a ++ b)) (nsum a). lia. Qed.

(* ---- inserting and deleting, as far as the supply is concerned *)
Lemma coin_supply_insert_le d k c m : coin_supply d (<[k := c]> m) <= coin_supply d m + val d c.
Proof.
  destruct (m !! k) as [c0|] eqn:E.
  - rewrite <- (insert_delete_insert m k c).
    rewrite coin_supply_insert_fresh by apply lookup_delete.
    rewrite (coin_supply_delete d k c0 m E). unfold val. lia.
  - rewrite coin_supply_insert_fresh by exact E. unfold val. lia.
Qed.

Lemma coin_supply_ins_all_le d : forall l m,
  coin_supply d (ins_all l m) <= coin_supply d m + nsum (map (fun kv => val d (snd kv)) l).
Proof.
  induction l as [|[k c] l IH]; intros m; cbn [ins_all fold_left map nsum fold_right fst snd]; [lia|].
  fold (ins_all l (<[k := c]> m)). fold (nsum (map (fun kv => val d (snd kv)) l)).
  pose proof (IH (<[k := c]> m)). pose proof (coin_supply_insert_le d k c m). lia.
Qed.

Lemma coin_supply_del_all d : forall ks m, NoDup ks ->
  coin_supply d m = coin_supply d (del_all ks m) + nsum (map (fun k => vopt d (m !! k)) ks).
Proof.
  induction ks as [|k ks IH]; intros m Hnd; cbn [del_all fold_left map nsum fold_right]; [lia|].
  fold (del_all ks (delete k m)). fold (nsum (map (fun k0 => vopt d (m !! k0)) ks)).
  inversion Hnd as [|? ? Hk Hnd']; subst.
  assert (E: map (fun k0 => vopt d (delete k m !! k0)) ks = map (fun k0 => vopt d (m !! k0)) ks).
  { apply map_ext_in. intros k0 Hk0. rewrite lookup_delete_ne; [reflexivity|]. intros ->. contradiction. }
  specialize (IH (delete k m) Hnd'). rewrite E in IH.
  destruct (m !! k) as [c|] eqn:Ek; cbn [vopt].
  - rewrite (coin_supply_delete d k c m Ek). unfold val. lia.
  - rewrite delete_notin in IH by exact Ek. rewrite delete_notin by exact Ek. lia.
Qed.

(* ---- a local version of [ins_all_in]: if every binding of key k in l carries v, and there is one *)
Lemma ins_all_key_all (l : list (N * cdh)) : forall m k v,
  (forall v', In (k, v') l -> v' = v) ->
  ins_all l m !! k = if existsb (fun kv => fst kv =? k) l then Some v else m !! k.
Proof.
  induction l as [|[k0 c0] l IH]; intros m k v Hall; cbn [ins_all fold_left existsb fst snd]; [reflexivity|].
  fold (ins_all l (<[k0 := c0]> m)).
  rewrite (IH _ k v) by (intros v' Hin; apply Hall; right; exact Hin).
  destruct (existsb (fun kv => fst kv =? k) l) eqn:Ex; [rewrite orb_true_r; reflexivity|].
  rewrite orb_false_r. destruct (N.eqb_spec k0 k) as [->|Hne].
  - rewrite lookup_insert. f_equal. apply Hall. left. reflexivity.
  - rewrite lookup_insert_ne by exact Hne. reflexivity.
Qed.

Section Batch.
Variable SO : stf_oracle.
Variable s : wstate.
Variable lh : header.

(* explicit issuance of one transaction / of a batch in denomination d:
   everything a faucet declares (outputs and fee), a transaction's own new token, the ERG outputs of a mint *)
Definition issued_here (d : denom) (t : tx) (o : coindata) : bool :=
  denom_eqb (fix_denom t (cd_denom o)) d &&
  (txkind_eqb (t_kind t) KFaucet
   || (match cd_denom o with NewCustom => true | _ => false end)
   || (txkind_eqb (t_kind t) KDoscMint && denom_eqb d Erg)).
Definition tx_issuance (d : denom) (t : tx) : N :=
  nsum (map (fun o => if issued_here d t o then cd_value o else 0) (t_outputs t))
  + (if txkind_eqb (t_kind t) KFaucet && denom_eqb d Mel then t_fee t else 0).
Definition batch_issuance (d : denom) (txs : list tx) : N := nsum (map (tx_issuance d) txs).

Definition fee_part (d : denom) (x : N) : N := if denom_eqb d Mel then x else 0.

(* the value (in d) of what transaction t declares as outputs, new-token outputs under their final name *)
Definition declared (d : denom) (t : tx) : N :=
  nsum (map (fun o => if denom_eqb (fix_denom t (cd_denom o)) d then cd_value o else 0) (t_outputs t)).

Lemma fold_right_out d outs :
  fold_right (fun o acc => if denom_eqb d (cd_denom o) then cd_value o + acc else acc) 0 outs
  = nsum (map (fun o => if denom_eqb d (cd_denom o) then cd_value o else 0) outs).
Proof.
  induction outs as [|o outs IH]; cbn [fold_right map nsum]; [reflexivity|].
  fold (nsum (map (fun o => if denom_eqb d (cd_denom o) then cd_value o else 0) outs)).
  rewrite IH. destruct (denom_eqb d (cd_denom o)); lia.
Qed.

Lemma nsum_le_pointwise {A} (f g : A -> N) : forall l, (forall x, In x l -> f x <= g x) -> nsum (map f l) <= nsum (map g l).
Proof.
  induction l as [|x l IH]; intros H; cbn [map nsum fold_right]; [lia|].
  fold (nsum (map f l)) (nsum (map g l)).
  pose proof (H x (or_introl eq_refl)). pose proof (IH (fun y Hy => H y (or_intror Hy))). lia.
Qed.

Lemma nsum_add_pointwise {A} (f g : A -> N) : forall l, nsum (map (fun x => f x + g x) l) = nsum (map f l) + nsum (map g l).
Proof.
  induction l as [|x l IH]; cbn [map nsum fold_right]; [reflexivity|].
  fold (nsum (map (fun x => f x + g x) l)) (nsum (map f l)) (nsum (map g l)). lia.
Qed.

(* one accepted transaction: what it declares plus its fee is covered by its inputs plus its issuance *)
Lemma accepted_tx_covered relevant ns t d :
  check_tx_validity SO s lh relevant ns t = Ok tt -> d <> NewCustom ->
  declared d t + fee_part d (t_fee t) <= in_sum relevant d (t_inputs t) + tx_issuance d t.
Proof.
  intros Hv Hd.
  (* split the declared outputs into issued ones and ordinary ones *)
  assert (Hsplit: declared d t =
            nsum (map (fun o => if issued_here d t o then cd_value o else 0) (t_outputs t)) +
            nsum (map (fun o => if denom_eqb (fix_denom t (cd_denom o)) d && negb (issued_here d t o) then cd_value o else 0) (t_outputs t))).
  { unfold declared. rewrite <- nsum_add_pointwise. f_equal. apply map_ext. intros o.
    unfold issued_here. destruct (denom_eqb (fix_denom t (cd_denom o)) d); cbn [andb negb]; [|reflexivity].
    destruct (_ || _ || _); cbn [negb]; lia. }
  destruct (txkind_eqb (t_kind t) KFaucet) eqn:Ef.
  { (* faucet: everything is issuance *)
    unfold tx_issuance. rewrite Ef. cbn [andb]. unfold fee_part.
    assert (declared d t = nsum (map (fun o => if issued_here d t o then cd_value o else 0) (t_outputs t))).
    { unfold declared. f_equal. apply map_ext. intros o. unfold issued_here. rewrite Ef. cbn [orb]. rewrite andb_true_r. reflexivity. }
    destruct (denom_eqb d Mel); lia. }
  assert (Hk: t_kind t <> KFaucet) by (intros E; rewrite E in Ef; discriminate).
  destruct (txkind_eqb (t_kind t) KDoscMint && denom_eqb d Erg) eqn:Em.
  { (* ERG of a mint: all declared ERG is issuance; ERG is not MEL so no fee part *)
    apply andb_true_iff in Em as [E1 E2]. apply denom_eqb_eq in E2. subst d.
    unfold tx_issuance, fee_part. rewrite Ef. cbn [andb denom_eqb].
    assert (declared Erg t = nsum (map (fun o => if issued_here Erg t o then cd_value o else 0) (t_outputs t))).
    { unfold declared. f_equal. apply map_ext. intros o. unfold issued_here. rewrite E1. cbn [andb denom_eqb orb].
      rewrite orb_true_r, andb_true_r. reflexivity. }
    lia. }
  assert (Hm: ~ (t_kind t = KDoscMint /\ d = Erg)).
  { intros [E1 E2]. rewrite E1, E2 in Em. discriminate. }
  pose proof (accepted_tx_balanced SO s lh relevant ns t Hv Hk d Hd Hm) as Hbal.
  (* the ordinary outputs of denomination d are exactly those declared with denomination d *)
  assert (Hord: nsum (map (fun o => if denom_eqb (fix_denom t (cd_denom o)) d && negb (issued_here d t o) then cd_value o else 0) (t_outputs t))
                = nsum (map (fun o => if denom_eqb d (cd_denom o) then cd_value o else 0) (t_outputs t))).
  { f_equal. apply map_ext. intros o. unfold issued_here. rewrite Ef, Em. cbn [orb].
    destruct (cd_denom o) eqn:Eo; cbn [fix_denom]; rewrite ?orb_false_r.
    all: try (rewrite (denom_eqb_sym d); destruct (denom_eqb _ d); cbn [andb negb]; reflexivity).
    (* NewCustom: issued, and d <> NewCustom *)
    destruct (denom_eqb (Custom (t_hash t)) d); cbn [andb negb].
    - destruct d; try reflexivity. contradiction.
    - destruct d; try reflexivity. contradiction. }
  unfold out_sum in Hbal. rewrite fold_right_out in Hbal.
  rewrite Hsplit, Hord. unfold tx_issuance. rewrite Ef. cbn [andb]. unfold fee_part.
  destruct Hbal as [H0|Heq]; lia.
Qed.

Definition coin_of (t : tx) (o : coindata) : cdh :=
  {| c_data := {| cd_covhash := cd_covhash o; cd_value := cd_value o;
                  cd_denom := fix_denom t (cd_denom o); cd_extra := cd_extra o |};
     c_height := s_height s |}.

Lemma in_created txs k c :
  In (k, c) (created s txs) <->
  exists t io, In t txs /\ In io (enumerate 0 (t_outputs t)) /\ k = key_of t io /\ (cd_covhash (snd io) =? 0) = false /\ c = coin_of t (snd io).
Proof.
  unfold created. rewrite in_flat_map. split.
  - intros (t & Ht & Hin). unfold output_coins in Hin. apply in_flat_map in Hin as ([i o] & Hio & Hin).
    destruct (cd_covhash o =? 0) eqn:E; [contradiction|]. destruct Hin as [Eq|[]]. injection Eq as <- <-.
    exists t, (i, o). auto.
  - intros (t & [i o] & Ht & Hio & -> & E & ->). exists t. split; [exact Ht|].
    unfold output_coins. apply in_flat_map. exists (i, o). split; [exact Hio|]. cbn [snd] in E. rewrite E. left. reflexivity.
Qed.

(* under unique coin ids, the map of batch outputs binds the id of output (t, io) to exactly that coin *)
Lemma outputs_map_at txs t io :
  NoDup (out_keys txs) -> In t txs -> In io (enumerate 0 (t_outputs t)) ->
  outputs_map s txs !! key_of t io = if cd_covhash (snd io) =? 0 then None else Some (coin_of t (snd io)).
Proof.
  intros Hnd Ht Hio. rewrite outputs_map_ins_all.
  assert (Hall: forall v', In (key_of t io, v') (created s txs) -> v' = coin_of t (snd io) /\ (cd_covhash (snd io) =? 0) = false).
  { intros v' Hin. apply in_created in Hin as (t' & io' & Ht' & Hio' & Ek & Ec & ->).
    assert (t = t').
    { eapply (NoDup_flat_map_inj (fun t => map (key_of t) (enumerate 0 (t_outputs t)))); [exact Hnd|exact Ht|exact Ht'| |].
      - apply in_map. exact Hio.
      - rewrite Ek. apply in_map. exact Hio'. }
    subst t'.
    assert (io = io').
    { eapply (NoDup_map_inj (key_of t)); [|exact Hio|exact Hio'|exact Ek].
      eapply (NoDup_flat_map_part (fun t => map (key_of t) (enumerate 0 (t_outputs t)))); eauto. }
    subst io'. auto. }
  rewrite (ins_all_key_all _ _ _ (coin_of t (snd io))) by (intros v' Hin; apply Hall; exact Hin).
  rewrite lookup_empty.
  destruct (existsb (fun kv => fst kv =? key_of t io) (created s txs)) eqn:Ex.
  - apply existsb_exists in Ex as ([k c] & Hin & Ek). cbn [fst] in Ek. apply N.eqb_eq in Ek. subst k.
    destruct (Hall _ Hin) as [_ ->]. reflexivity.
  - destruct (cd_covhash (snd io) =? 0) eqn:Ec; [reflexivity|].
    exfalso. assert (Hin: In (key_of t io, coin_of t (snd io)) (created s txs)) by (apply in_created; exists t, io; auto).
    assert (existsb (fun kv => fst kv =? key_of t io) (created s txs) = true).
    { apply existsb_exists. exists (key_of t io, coin_of t (snd io)). split; [exact Hin|]. cbn [fst]. apply N.eqb_refl. }
    congruence.
Qed.

Lemma map_snd_enumerate {A} : forall (l : list A) i, map snd (enumerate i l) = l.
Proof. induction l as [|x l IH]; intros i; cbn [enumerate map snd]; [reflexivity|]. rewrite IH. reflexivity. Qed.

Lemma nsum_flat_map {A B} (g : B -> N) (h : A -> list B) : forall l,
  nsum (map g (flat_map h l)) = nsum (map (fun x => nsum (map g (h x))) l).
Proof.
  induction l as [|x l IH]; cbn [flat_map map nsum fold_right]; [reflexivity|].
  rewrite map_app, nsum_app, IH. reflexivity.
Qed.

Lemma val_marker d : val d marker_coin = 0.
Proof. unfold val, marker_coin. cbn. destruct d; reflexivity. Qed.

Section Main.
Variable txs : list tx.
Variable relevant : gmap N cdh.
Hypothesis Hrel : load_relevant_coins s txs = Ok relevant.
(* hash-oracle assumptions: coin ids of the batch's outputs are pairwise distinct and new, and no faucet
   marker id is spent by the batch *)
Hypothesis Huniq : NoDup (out_keys txs).
Hypothesis Hfresh : forall k, In k (out_keys txs) -> s_coins s !! k = None.
Hypothesis Hmark : forall t, In t txs -> ~ In (marker_key SO t) (all_inputs txs).

Lemma relevant_at t io : In t txs -> In io (enumerate 0 (t_outputs t)) ->
  relevant !! key_of t io = if cd_covhash (snd io) =? 0 then None else Some (coin_of t (snd io)).
Proof.
  intros Ht Hio. destruct (load_relevant_coins_spec _ _ _ Hrel) as (_ & _ & _ & Hin & Hout).
  rewrite <- (outputs_map_at txs t io Huniq Ht Hio).
  destruct (in_dec N.eq_dec (key_of t io) (all_inputs txs)) as [Hi|Hi].
  - rewrite (Hin _ Hi). destruct (outputs_map s txs !! key_of t io); [reflexivity|].
    apply Hfresh. apply in_out_keys; assumption.
  - apply Hout. exact Hi.
Qed.

(* (A) what one transaction inserts is worth at most what it declares *)
Lemma inserts_le_declared d t : In t txs ->
  nsum (map (fun kv => val d (snd kv)) (tx_inserts SO relevant t)) <= declared d t.
Proof.
  intros Ht. unfold tx_inserts. rewrite map_app, nsum_app.
  assert (E0: nsum (map (fun kv : N * cdh => val d (snd kv))
               (if txkind_eqb (t_kind t) KFaucet && negb (is_bug_tx t) then [(marker_key SO t, marker_coin)] else [])) = 0).
  { destruct (_ && _); cbn [map nsum fold_right snd]; [rewrite val_marker|]; reflexivity. }
  rewrite E0, N.add_0_l, nsum_flat_map. unfold declared.
  rewrite <- (map_snd_enumerate (t_outputs t) 0) at 2. rewrite map_map.
  apply nsum_le_pointwise. intros [i o] Hio. cbn [snd].
  change (coin_key (t_hash t) (i mod 256)) with (key_of t (i, o)).
  rewrite (relevant_at t (i, o) Ht Hio). cbn [snd].
  destruct (cd_covhash o =? 0); cbn [map nsum fold_right snd]; [lia|].
  unfold val, coin_of. cbn [c_data cd_denom cd_value]. lia.
Qed.

Definition L := flat_map (tx_inserts SO relevant) txs.

Lemma L_le_declared d : nsum (map (fun kv => val d (snd kv)) L) <= nsum (map (declared d) txs).
Proof.
  unfold L. rewrite nsum_flat_map. apply nsum_le_pointwise. intros t Ht. apply inserts_le_declared. exact Ht.
Qed.

(* (B) after the insertions, every input id is bound to the coin [relevant] knows *)
Lemma inserted_at_input k : In k (all_inputs txs) -> ins_all L (s_coins s) !! k = relevant !! k.
Proof.
  intros Hk. destruct (load_relevant_coins_spec _ _ _ Hrel) as (_ & _ & Hex & Hin & _).
  assert (Hsome: is_Some (relevant !! k)).
  { rewrite (Hin _ Hk). destruct (Hex _ Hk) as [[c E]|[c E]]; rewrite ?E; eauto.
    destruct (outputs_map s txs !! k); eauto. }
  destruct Hsome as [v Ev].
  assert (Hall: forall v', In (k, v') L -> v' = v).
  { intros v' HinL. unfold L in HinL. apply in_flat_map in HinL as (t & Ht & HinL).
    apply in_tx_inserts in HinL as [(_ & Ek & _)|(i & o & _ & _ & Er)].
    - exfalso. apply (Hmark t Ht). rewrite <- Ek. exact Hk.
    - congruence. }
  rewrite (ins_all_key_all L (s_coins s) k v Hall), Ev.
  destruct (existsb (fun kv => fst kv =? k) L) eqn:Ex; [reflexivity|].
  (* no binding for k: then k is not the id of an output of the batch, so [relevant] read it from the state *)
  rewrite (Hin _ Hk) in Ev.
  destruct (outputs_map s txs !! k) as [c|] eqn:Eo; [|exact Ev].
  exfalso. pose proof Eo as Eo'. rewrite outputs_map_ins_all in Eo.
  assert (Hc: In k (map fst (created s txs))).
  { destruct (in_dec N.eq_dec k (map fst (created s txs))) as [Hi|Hi]; [exact Hi|].
    rewrite ins_all_notin, lookup_empty in Eo by exact Hi. discriminate. }
  apply in_map_iff in Hc as ([k' c'] & Ek' & Hc). cbn [fst] in Ek'. subst k'.
  apply in_created in Hc as (t & io & Ht & Hio & Ek & Ecov & _).
  assert (HinL: In (k, v) L).
  { unfold L. apply in_flat_map. exists t. split; [exact Ht|]. apply in_tx_inserts. right.
    destruct io as [i o]. exists i, o. split; [exact Hio|]. split; [exact Ek|].
    rewrite (Hin _ Hk), Eo'. injection Ev as <-. reflexivity. }
  assert (existsb (fun kv => fst kv =? k) L = true).
  { apply existsb_exists. exists (k, v). split; [exact HinL|]. cbn [fst]. apply N.eqb_refl. }
  congruence.
Qed.
End Main.

Lemma in_sum_nsum relevant d ins :
  in_sum relevant d ins = nsum (map (fun i => vopt d (relevant !! input_key i)) ins).
Proof.
  induction ins as [|i ins IH]; cbn [in_sum fold_right map nsum]; [reflexivity|].
  fold (in_sum relevant d ins). fold (nsum (map (fun i => vopt d (relevant !! input_key i)) ins)). rewrite IH.
  destruct (relevant !! input_key i) as [c|]; cbn [vopt]; [|lia].
  unfold val. rewrite (denom_eqb_sym d). destruct (denom_eqb _ d); lia.
Qed.

Lemma inputs_sum relevant d : forall txs,
  nsum (map (fun k => vopt d (relevant !! k)) (all_inputs txs)) = nsum (map (fun t => in_sum relevant d (t_inputs t)) txs).
Proof.
  induction txs as [|t txs IH]; cbn [all_inputs flat_map map nsum fold_right]; [reflexivity|].
  fold (all_inputs txs). rewrite map_app, nsum_app, IH, in_sum_nsum, map_map. reflexivity.
Qed.

Lemma sat_add128_le a b : sat_add128 a b <= a + b.
Proof. unfold sat_add128. lia. Qed.

Lemma fee_fold_le mult : forall txs fp tips fp' tips',
  fee_fold mult txs fp tips = Some (fp', tips') -> fp' + tips' <= fp + tips + nsum (map t_fee txs).
Proof.
  induction txs as [|t txs IH]; intros fp tips fp' tips' H; cbn [fee_fold] in H.
  - injection H as <- <-. cbn. lia.
  - destruct (min_fee mult t) as [mf| |]; try discriminate.
    destruct (N.ltb_spec (t_fee t) mf); [discriminate|].
    apply IH in H. cbn [map nsum fold_right]. fold (nsum (map t_fee txs)).
    pose proof (sat_add128_le fp mf). pose proof (sat_add128_le tips (t_fee t - mf)). lia.
Qed.

Lemma fee_part_le d a b : a <= b -> fee_part d a <= fee_part d b.
Proof. unfold fee_part. destruct (denom_eqb d Mel); lia. Qed.
Lemma fee_part_add d a b : fee_part d (a + b) = fee_part d a + fee_part d b.
Proof. unfold fee_part. destruct (denom_eqb d Mel); lia. Qed.
Lemma fee_part_nsum d : forall l, fee_part d (nsum l) = nsum (map (fee_part d) l).
Proof.
  induction l as [|x l IH]; cbn [map nsum fold_right]; [unfold fee_part; destruct (denom_eqb d Mel); reflexivity|].
  fold (nsum l) (nsum (map (fee_part d) l)). rewrite fee_part_add, IH. reflexivity.
Qed.

(* C01 for a whole batch *)
Theorem accepted_batch_supply txs s' :
  apply_tx_batch SO s lh txs = Ok s' ->
  NoDup (out_keys txs) ->
  (forall k, In k (out_keys txs) -> s_coins s !! k = None) ->
  (forall t, In t txs -> ~ In (marker_key SO t) (all_inputs txs)) ->
  forall d, d <> NewCustom ->
  coin_supply d (s_coins s') + fee_part d (s_fee_pool s' + s_tips s')
  <= coin_supply d (s_coins s) + fee_part d (s_fee_pool s + s_tips s) + batch_issuance d txs.
Proof.
  intros H Huniq Hfresh Hmark d Hd.
  destruct (apply_tx_batch_inv _ _ _ _ _ H) as (relevant & n & Hrel & _ & Hval & _).
  destruct (accepted_batch_coins _ _ _ _ _ H) as (relevant' & Hrel' & Ec).
  rewrite Hrel in Hrel'. injection Hrel' as <-.
  pose proof (accepted_batch_fees _ _ _ _ _ H) as Hfee. apply fee_fold_le in Hfee.
  destruct (load_relevant_coins_spec _ _ _ Hrel) as (_ & Hnd & _).
  fold (L txs relevant) in Ec.
  (* the coins *)
  pose proof (coin_supply_del_all d (all_inputs txs) (ins_all (L txs relevant) (s_coins s)) Hnd) as Hdel.
  rewrite <- Ec in Hdel.
  assert (Ein: map (fun k => vopt d (ins_all (L txs relevant) (s_coins s) !! k)) (all_inputs txs)
             = map (fun k => vopt d (relevant !! k)) (all_inputs txs)).
  { apply map_ext_in. intros k Hk. rewrite (inserted_at_input txs relevant Hrel Hmark k Hk). reflexivity. }
  rewrite Ein, inputs_sum in Hdel.
  pose proof (coin_supply_ins_all_le d (L txs relevant) (s_coins s)) as Hins.
  pose proof (L_le_declared txs relevant Hrel Huniq Hfresh Hmark d) as Hdecl.
  (* per transaction *)
  assert (Hcov: nsum (map (fun t => declared d t + fee_part d (t_fee t)) txs)
                <= nsum (map (fun t => in_sum relevant d (t_inputs t) + tx_issuance d t) txs)).
  { apply nsum_le_pointwise. intros t Ht. eapply accepted_tx_covered; eauto. }
  rewrite !nsum_add_pointwise in Hcov.
  apply (fee_part_le d) in Hfee. rewrite !fee_part_add, fee_part_nsum, map_map in Hfee.
  rewrite !fee_part_add. unfold batch_issuance. lia.
Qed.

(* the same under the hash-oracle assumptions of STF/Proofs/HashFacts.v *)
Corollary accepted_batch_supply_hash txs s' :
  apply_tx_batch SO s lh txs = Ok s' -> HashOK SO s txs ->
  forall d, d <> NewCustom ->
  coin_supply d (s_coins s') + fee_part d (s_fee_pool s' + s_tips s')
  <= coin_supply d (s_coins s) + fee_part d (s_fee_pool s + s_tips s) + batch_issuance d txs.
Proof.
  intros H HK. destruct (apply_tx_batch_inv _ _ _ _ _ H) as (relevant & n & Hrel & _).
  destruct (load_relevant_coins_spec _ _ _ Hrel) as (Hwf & _).
  assert (Hs: short_outputs txs) by (apply well_formed_short; intros t Ht; apply Hwf; exact Ht).
  apply accepted_batch_supply; [exact H| | |].
  - apply (hk_out_nodup SO s txs HK Hs).
  - apply (hk_out_fresh SO s txs HK).
  - apply (hk_marker_not_input SO s txs HK).
Qed.

(* the pools are not touched by a batch, so the inequality is about the whole state *)
Corollary accepted_batch_pools txs s' : apply_tx_batch SO s lh txs = Ok s' -> s_pools s' = s_pools s.
Proof. intros H. destruct (apply_tx_batch_frame _ _ _ _ _ H) as (_ & _ & _ & E & _). exact E. Qed.
End Batch.

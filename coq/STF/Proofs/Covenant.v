(* C04: a coin is spent only when its covenant approves that very spend. *)
From MelVerif Require Import STF.Proofs.Tactics STF.Proofs.Stakes.
Open Scope N_scope.

Section Cov.
Variable SO : stf_oracle.
Variable s : wstate.
Variable lh : header.

(* the transaction carries a covenant whose hash is the coin's covenant hash, it decodes, and run on the
   transaction and this input's own environment (coin id, value, denomination, data, height, position, last
   header) it returns a true value *)
Definition approved (t : tx) (inp : N * N) (c : cdh) (idx : N) : Prop :=
  exists bytes prog,
    find_script (cd_covhash (c_data c)) (t_covhashes t) (t_covenants t) = Some bytes /\
    decode_all bytes = Some prog /\
    covenant_accepts (so_vm SO) prog (env_heap t inp c (idx mod 256) lh) = true.

Lemma find_script_sound h : forall hs cs b,
  find_script h hs cs = Some b -> exists i, nth_error hs i = Some h /\ nth_error cs i = Some b.
Proof.
  induction hs as [|h0 hs IH]; intros cs b H; destruct cs as [|c cs]; cbn in H; try discriminate.
  destruct (N.eqb_spec h0 h) as [->|Hne].
  - injection H as <-. exists 0%nat. auto.
  - destruct (IH _ _ H) as (i & H1 & H2). exists (S i). auto.
Qed.

(* one input: either its covenant hash was validated before (for an earlier input of the same transaction),
   or the covenant approves this input in its own environment *)
Lemma check_input_ok relevant ns t idx inp good inc good' inc' :
  check_input SO s lh relevant ns t idx inp good inc = Ok (good', inc') ->
  exists c, relevant !! input_key inp = Some c /\
    (In (cd_covhash (c_data c)) good \/ approved t inp c idx) /\
    (forall h, In h good' -> In h good \/ h = cd_covhash (c_data c)) /\
    (forall h, In h good -> In h good').
Proof.
  unfold check_input. destruct (coin_locked s ns (fst inp)); [discriminate|].
  destruct (relevant !! input_key inp) as [c|]; [|discriminate].
  intros H. inv_bind H as g Hg. inv_bind H as inc2 Hinc. injection H as <- <-.
  exists c. split; [reflexivity|].
  destruct (existsb (N.eqb (cd_covhash (c_data c))) good) eqn:E.
  - injection Hg as <-. apply existsb_exists in E as (h & Hin & Eh). apply N.eqb_eq in Eh. subst h.
    split; [left; exact Hin|]. split; auto.
  - destruct (find_script _ _ _) as [bytes|] eqn:Ef; [|discriminate].
    destruct (decode_all bytes) as [prog|] eqn:Ed; [|discriminate].
    destruct (covenant_accepts _ _ _) eqn:Ea; [|discriminate]. injection Hg as <-.
    split; [right; exists bytes, prog; auto|]. split.
    + intros h [<-|Hin]; auto.
    + intros h Hin. right. exact Hin.
Qed.

Lemma check_inputs_ok relevant ns t : forall ins idx good inc r,
  check_inputs SO s lh relevant ns t idx ins good inc = Ok r ->
  forall j inp, nth_error ins j = Some inp ->
  exists c, relevant !! input_key inp = Some c /\
    (In (cd_covhash (c_data c)) good \/
     (exists j' inp' c', (j' < j)%nat /\ nth_error ins j' = Some inp' /\ relevant !! input_key inp' = Some c' /\
                         cd_covhash (c_data c') = cd_covhash (c_data c)) \/
     approved t inp c (idx + N.of_nat j)).
Proof.
  induction ins as [|i0 ins IH]; intros idx good inc r H j inp Hj; [destruct j; discriminate|].
  cbn [check_inputs] in H. inv_bind H as gi Hgi. destruct gi as [good1 inc1]. cbn [fst snd] in H.
  destruct (check_input_ok _ _ _ _ _ _ _ _ _ Hgi) as (c0 & Hc0 & Happ0 & Hg1 & Hg0).
  destruct j as [|j].
  - injection Hj as <-. exists c0. split; [exact Hc0|].
    destruct Happ0 as [Hin|Ha]; [left; exact Hin|right; right].
    replace (idx + N.of_nat 0) with idx by lia. exact Ha.
  - cbn [nth_error] in Hj. destruct (IH _ _ _ _ H j inp Hj) as (c & Hc & Hcase).
    exists c. split; [exact Hc|].
    destruct Hcase as [Hin|[(j' & inp' & c' & Hlt & Hn & Hr & Eq)|Ha]].
    + destruct (Hg1 _ Hin) as [Hin0|Eh]; [left; exact Hin0|].
      right; left. exists 0%nat, i0, c0. repeat split; auto. lia.
    + right; left. exists (S j'), inp', c'. repeat split; auto. lia.
    + right; right. replace (idx + N.of_nat (S j)) with (idx + 1 + N.of_nat j) by lia. exact Ha.
Qed.

(* C04 for an accepted batch: every input of every transaction is approved by a covenant of the right hash in
   that input's own environment - except inputs that share their covenant hash with an earlier input of the
   same transaction, for which only the earlier evaluation happened (finding F15) *)
Theorem accepted_batch_inputs_approved txs s' :
  apply_tx_batch SO s lh txs = Ok s' ->
  exists relevant, load_relevant_coins s txs = Ok relevant /\
  forall t, In t txs -> forall j inp, nth_error (t_inputs t) j = Some inp ->
  exists c, relevant !! input_key inp = Some c /\
    ((exists j' inp' c', (j' < j)%nat /\ nth_error (t_inputs t) j' = Some inp' /\
        relevant !! input_key inp' = Some c' /\ cd_covhash (c_data c') = cd_covhash (c_data c)) \/
     approved t inp c (N.of_nat j)).
Proof.
  intros H. destruct (apply_tx_batch_inv _ _ _ _ _ H) as (relevant & n & Hrel & _ & Hval & _).
  exists relevant. split; [exact Hrel|]. intros t Ht j inp Hj.
  specialize (Hval t Ht). unfold check_tx_validity in Hval. inv_bind Hval as inc Hinc.
  destruct (check_inputs_ok _ _ _ _ _ _ _ _ Hinc j inp Hj) as (c & Hc & [[]|[Hd|Ha]]);
    exists c; (split; [exact Hc|]); [left; exact Hd|right; exact Ha].
Qed.

(* the first input carrying a given covenant hash is always evaluated: a missing covenant, an undecodable
   one, or one that fails or evaluates to zero rejects the transaction *)
Theorem first_input_rejections relevant ns t idx inp inc c :
  coin_locked s ns (fst inp) = false -> relevant !! input_key inp = Some c ->
  check_input SO s lh relevant ns t idx inp [] inc =
  match find_script (cd_covhash (c_data c)) (t_covhashes t) (t_covenants t) with
  | None => Reject ENonexistentScript
  | Some bytes =>
    match decode_all bytes with
    | None => Reject EMalformed
    | Some prog =>
      if covenant_accepts (so_vm SO) prog (env_heap t inp c (idx mod 256) lh)
      then (in' <- assoc_add (cd_denom (c_data c)) (cd_value (c_data c)) inc ;; Ok ([cd_covhash (c_data c)], in'))
      else Reject EViolatesScript
    end
  end.
Proof.
  intros Hl Hc. unfold check_input. rewrite Hl, Hc. cbn [existsb].
  destruct (find_script _ _ _); [|reflexivity]. destruct (decode_all _); [|reflexivity].
  destruct (covenant_accepts _ _ _); reflexivity.
Qed.
End Cov.

(* covenant_accepts is exactly "ran to completion with a true value on top of the stack" *)
Theorem covenant_accepts_iff O prog hp :
  covenant_accepts O prog hp = true <-> exists v n, run O prog hp = Finished (Some v) n /\ into_bool v = true.
Proof.
  unfold covenant_accepts. split.
  - destruct (run O prog hp) as [[v|] n|]; try discriminate. intros H. eauto.
  - intros (v & n & -> & H). exact H.
Qed.

(* ---- which header the covenants of a block see: apply_batch hands them the header stored for the previous
   height - the block the state was built on - and only a state without any stored parent (height 0) falls back
   to the header of the state itself *)
Section LastHeader.
Variable SO : stf_oracle.
Variable rf : wstate -> roots.

Lemma last_header_is_the_parent s h :
  s_history s !! (s_height s - 1) = Some h -> last_header_for SO rf s = Ok h.
Proof. intros E. unfold last_header_for. rewrite E. reflexivity. Qed.

Theorem apply_batch_uses_the_parent_header s h txs :
  s_history s !! (s_height s - 1) = Some h -> apply_batch SO rf s txs = apply_tx_batch SO s h txs.
Proof. intros E. unfold apply_batch. rewrite (last_header_is_the_parent s h E). reflexivity. Qed.

(* ... and that is the header next_unsealed was given: the header of the block just sealed *)
Theorem block_covenants_see_the_sealed_parent s hdr txs :
  apply_batch SO rf (next_unsealed s hdr) txs = apply_tx_batch SO (next_unsealed s hdr) hdr txs.
Proof.
  apply apply_batch_uses_the_parent_header.
  assert (E: s_height (next_unsealed s hdr) = s_height s + 1 /\ s_history (next_unsealed s hdr) !! s_height s = Some hdr).
  { unfold next_unsealed. cbn zeta. destruct (_ && _); cbn; (split; [reflexivity|apply lookup_insert]). }
  destruct E as [E1 E2]. rewrite E1. replace (s_height s + 1 - 1) with (s_height s) by lia. exact E2.
Qed.
End LastHeader.

(* Non-vacuity witness for [seal_keeps_backed_pool_live]: the block of Witness3.v is sealed as a whole
   (bootstrap, settlement, peg, subsidy); the MEL/SYM pool is live and backed with room to spare before. *)
From MelVerif Require Import STF.Proofs.Tactics STF.Proofs.MapLemmas STF.Proofs.Supply STF.Proofs.Pool STF.Proofs.SealCoins
  STF.Proofs.BatchSupply STF.Proofs.SealSupply STF.Proofs.SealLift STF.Proofs.SealInv STF.Proofs.Witness STF.Proofs.Witness2 STF.Proofs.Witness3.
Open Scope N_scope.

Definition w_K3 : list (denom * denom) := [MS; ME; ES].

Lemma w_K3_codes : NoDup (map poolkey_code w_K3).
Proof. vm_compute. repeat constructor; cbn; intuition discriminate. Qed.

Lemma w_K3_builtins : In MS w_K3 /\ In ME w_K3 /\ In ES w_K3.
Proof. unfold w_K3. repeat split; [left; reflexivity|right; left; reflexivity|right; right; left; reflexivity]. Qed.

Lemma w_LD_inj : forall k1 k2, In k1 w_K3 -> In k2 w_K3 -> LDk w_oracle k1 = LDk w_oracle k2 -> k1 = k2.
Proof.
  intros k1 k2 H1 H2 E. unfold w_K3 in H1, H2. cbn in H1, H2.
  destruct H1 as [<-|[<-|[<-|[]]]]; destruct H2 as [<-|[<-|[<-|[]]]]; try reflexivity; vm_compute in E; discriminate.
Qed.

Lemma w_key_is_MS : w_key = MS.
Proof. reflexivity. Qed.

Lemma w_seal_ok : exists s', seal w_oracle w_block_state None = Ok s'.
Proof. vm_compute. eexists. reflexivity. Qed.

Lemma w_backed :
  In MS w_K3 /\ get_pool w_block_state MS = Some w_pool /\ live w_pool /\
  coin_supply (LDk w_oracle MS) (s_coins w_block_state) + psum w_K3 (LDk w_oracle MS) w_block_state + 1 <= p_liqs w_pool.
Proof.
  split; [left; reflexivity|]. split; [vm_compute; reflexivity|]. split; [unfold live, w_pool; cbn; lia|].
  vm_compute. discriminate.
Qed.

(* The conclusion of [seal_pegged] evaluated on the concrete block of Witness3.v (a swap, a deposit and a
   withdrawal against the MEL/SYM pool), sealed as a whole: MEL and SYM stay within their caps. *)
From MelVerif Require Import STF.Proofs.Tactics STF.Proofs.MapLemmas STF.Proofs.Supply STF.Proofs.Pool STF.Proofs.SealCoins
  STF.Proofs.SealSupply STF.Proofs.SealLift STF.Proofs.SealInv STF.Proofs.SealPegged STF.Proofs.Witness STF.Proofs.Witness2 STF.Proofs.Witness3 STF.Proofs.Witness4.
Open Scope N_scope.

Definition w_sealed : wstate := match seal w_oracle w_block_state None with Ok s => s | _ => w_block_state end.

Lemma w_sealed_ok : seal w_oracle w_block_state None = Ok w_sealed.
Proof. vm_compute. reflexivity. Qed.

Lemma w_pegged_mel :
  (held w_K3 Mel w_sealed <=? held w_K3 Mel w_block_state + bootstrap w_K3 Mel w_block_state + peg_cap w_block_state) = true.
Proof. vm_compute. reflexivity. Qed.

Lemma w_pegged_sym :
  (held w_K3 Sym w_sealed <=? held w_K3 Sym w_block_state + bootstrap w_K3 Sym w_block_state + peg_cap w_block_state + subsidy w_block_state) = true.
Proof. vm_compute. reflexivity. Qed.

(* how much the peg actually moved on this block (far below the cap) *)
Lemma w_pegged_actual :
  held w_K3 Mel w_sealed - (held w_K3 Mel w_block_state + bootstrap w_K3 Mel w_block_state) < 10 ^ 9 /\
  held w_K3 Sym w_sealed - (held w_K3 Sym w_block_state + bootstrap w_K3 Sym w_block_state) < 10 ^ 9 + 2 ^ 20.
Proof. vm_compute. split; reflexivity. Qed.

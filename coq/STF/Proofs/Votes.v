(* C13 / C14: voting power is a partition of the active stake: a key's votes never exceed the total, and the votes
   of pairwise different keys - which is what a consensus proof (a map keyed by public key) presents - add up to at
   most the total.  So "more than two thirds" really is a majority of the whole active stake. *)
From MelVerif Require Import STF.Model STF.Proofs.Confirm.
From stdpp Require Import gmap.
From Coq Require Import ZifyN ZifyNat ZifyBool.
Open Scope N_scope.

(* active stake whose key satisfies P *)
Definition vstep (P : N -> bool) (epoch : N) : N -> stakedoc -> N -> N :=
  fun _ d acc => if active epoch d && P (sd_pubkey d) then acc + sd_staked d else acc.
Definition votes_of (P : N -> bool) (st : gmap N stakedoc) (epoch : N) : N := map_fold (vstep P epoch) 0 st.

Lemma votes_of_comm (P : N -> bool) epoch (j1 j2 : N) (z1 z2 : stakedoc) (y : N) :
  vstep P epoch j1 z1 (vstep P epoch j2 z2 y) = vstep P epoch j2 z2 (vstep P epoch j1 z1 y).
Proof. unfold vstep. destruct (_ && _); destruct (_ && _); lia. Qed.

Lemma votes_of_insert P epoch k d m : m !! k = None ->
  votes_of P (<[k := d]> m) epoch = vstep P epoch k d (votes_of P m epoch).
Proof. intros Hk. unfold votes_of. apply map_fold_insert_L; [intros; apply votes_of_comm|exact Hk]. Qed.
Lemma votes_of_empty P epoch : votes_of P ∅ epoch = 0.
Proof. apply map_fold_empty. Qed.

Lemma votes_is_votes_of st epoch k : votes st epoch k = votes_of (fun pk => pk =? k) st epoch.
Proof. reflexivity. Qed.

Lemma votes_of_ind (P Q : N -> bool) (R : N -> N -> Prop) epoch :
  R 0 0 ->
  (forall d a b, R a b ->
     R (if active epoch d && P (sd_pubkey d) then a + sd_staked d else a)
       (if active epoch d && Q (sd_pubkey d) then b + sd_staked d else b)) ->
  forall st, R (votes_of P st epoch) (votes_of Q st epoch).
Proof.
  intros H0 Hs st. induction st as [|k d m Hk IH] using map_ind.
  - rewrite !votes_of_empty. exact H0.
  - rewrite !votes_of_insert by exact Hk. apply Hs. exact IH.
Qed.

Lemma votes_of_le (P Q : N -> bool) st epoch : (forall k, P k = true -> Q k = true) -> votes_of P st epoch <= votes_of Q st epoch.
Proof.
  intros HPQ. apply (votes_of_ind P Q N.le); [lia|].
  intros d a b Hab. destruct (active epoch d); cbn [andb]; [|exact Hab].
  destruct (P (sd_pubkey d)) eqn:E; [rewrite (HPQ _ E); lia|destruct (Q (sd_pubkey d)); lia].
Qed.

Lemma total_votes_of st epoch : total_votes st epoch = votes_of (fun _ => true) st epoch.
Proof.
  unfold total_votes.
  induction st as [|k d m Hk IH] using map_ind; [rewrite votes_of_empty; apply map_fold_empty|].
  rewrite votes_of_insert by exact Hk. rewrite map_fold_insert_L; [|intros; destruct (active epoch z1), (active epoch z2); lia|exact Hk].
  rewrite IH. unfold vstep. rewrite andb_true_r. reflexivity.
Qed.

(* a key's votes never exceed the total *)
Theorem votes_le_total st epoch k : votes st epoch k <= total_votes st epoch.
Proof. rewrite votes_is_votes_of, total_votes_of. apply votes_of_le. reflexivity. Qed.

(* disjoint sets of keys add up *)
Lemma votes_of_add (P Q : N -> bool) st epoch : (forall k, P k = true -> Q k = true -> False) ->
  votes_of (fun k => P k || Q k) st epoch = votes_of P st epoch + votes_of Q st epoch.
Proof.
  intros Hdis. induction st as [|k d m Hk IH] using map_ind; [rewrite !votes_of_empty; reflexivity|].
  rewrite !votes_of_insert by exact Hk. rewrite IH. unfold vstep.
  destruct (active epoch d); cbn [andb]; [|reflexivity].
  destruct (P (sd_pubkey d)) eqn:EP, (Q (sd_pubkey d)) eqn:EQ; cbn [orb]; try lia. exfalso. eauto.
Qed.

(* the votes presented by pairwise different keys are at most the total *)
Theorem distinct_keys_votes_le_total st epoch : forall keys, NoDup keys ->
  fold_right (fun k acc => votes st epoch k + acc) 0 keys <= total_votes st epoch.
Proof.
  intros keys Hnd.
  assert (G: fold_right (fun k acc => votes st epoch k + acc) 0 keys = votes_of (fun pk => existsb (N.eqb pk) keys) st epoch).
  { induction keys as [|k r IH]; cbn [fold_right existsb].
    - induction st as [|j d m Hj IHm] using map_ind; [rewrite votes_of_empty; reflexivity|].
      rewrite votes_of_insert by exact Hj. rewrite <- IHm. unfold vstep. rewrite andb_false_r. reflexivity.
    - inversion Hnd as [|? ? Hni Hnd']; subst. rewrite (IH Hnd'), votes_is_votes_of.
      rewrite <- votes_of_add; [reflexivity|].
      intros pk H1 H2. apply N.eqb_eq in H1. subst pk. apply existsb_exists in H2 as (x & Hx & E). apply N.eqb_eq in E. subst x. apply Hni, elem_of_list_In. exact Hx. }
  rewrite G, total_votes_of. apply votes_of_le. reflexivity.
Qed.

(* what a consensus proof presents (one entry per key) is at most the total: the two-thirds test compares a part with the whole *)
Theorem present_votes_le_total s proof :
  NoDup (map fst proof) -> present_votes s proof <= total_votes (s_stakes s) (s_height s / STAKE_EPOCH).
Proof.
  intros Hnd. set (st := s_stakes s). set (e := s_height s / STAKE_EPOCH).
  assert (E: present_votes s proof = fold_right (fun k acc => votes st e k + acc) 0 (map fst proof)).
  { unfold present_votes. fold st e.
    assert (G: forall (l : list (N * list N)) a, fold_left (fun acc '(k, _) => acc + votes st e k) l a = a + fold_right (fun k acc => votes st e k + acc) 0 (map fst l)).
    { induction l as [|[k sg] l IH]; intros a; cbn [fold_left fold_right map fst]; [lia|]. rewrite IH. lia. }
    rewrite G. lia. }
  rewrite E. apply distinct_keys_votes_le_total. exact Hnd.
Qed.

(* the same with the standard library's NoDup *)
Theorem distinct_keys_votes_le_total_nodup st epoch keys : List.NoDup keys ->
  fold_right (fun k acc => votes st epoch k + acc) 0 keys <= total_votes st epoch.
Proof. intros H. apply distinct_keys_votes_le_total, NoDup_ListNoDup. exact H. Qed.
Theorem present_votes_le_total_nodup s proof :
  List.NoDup (map fst proof) -> present_votes s proof <= total_votes (s_stakes s) (s_height s / STAKE_EPOCH).
Proof. intros H. apply present_votes_le_total, NoDup_ListNoDup. exact H. Qed.

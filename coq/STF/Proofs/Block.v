(* C06 / C07 / C08: block application, header linkage, restart. *)
From MelVerif Require Import STF.Proofs.Tactics STF.Proofs.Frame STF.Proofs.Stakes.
Open Scope N_scope.

Section Block.
Variable SO : stf_oracle.
Variable rf : wstate -> roots.

(* C06: a block is accepted exactly when its transactions apply to the successor state, the result seals,
   and the recomputed header equals the block's header; the returned state has precisely that header *)
Theorem apply_block_iff s hdr blk_header txs a s' :
  pool_count_ok (next_unsealed s hdr) = true ->
  apply_block SO rf s hdr blk_header txs a = Ok s' <->
  exists u, apply_batch SO rf (next_unsealed s hdr) txs = Ok u /\
            seal SO u a = Ok s' /\
            header_of SO (rf s') s' = Ok blk_header.
Proof.
  intros Hp. unfold apply_block. rewrite Hp. cbn [negb]. split.
  - intros H. inv_bind H as b1 H1. inv_bind H as b2 H2. inv_bind H as h2 H3.
    destruct (bool_decide (h2 = blk_header)) eqn:E; [|discriminate].
    injection H as <-. apply bool_decide_eq_true in E. subst h2. eauto.
  - intros (u & H1 & H2 & H3). rewrite H1. cbn [obind]. rewrite H2. cbn [obind]. rewrite H3. cbn [obind].
    rewrite bool_decide_eq_true_2 by reflexivity. reflexivity.
Qed.

Theorem apply_block_header s hdr blk_header txs a s' :
  apply_block SO rf s hdr blk_header txs a = Ok s' -> header_of SO (rf s') s' = Ok blk_header.
Proof.
  unfold apply_block. destruct (negb _); [discriminate|].
  intros H. inv_bind H as b1 H1. inv_bind H as b2 H2. inv_bind H as h2 H3.
  destruct (bool_decide (h2 = blk_header)) eqn:E; [|discriminate].
  injection H as <-. apply bool_decide_eq_true in E. subst h2. exact H3.
Qed.

(* any block whose header differs from the recomputed one is rejected *)
Theorem apply_block_wrong_header s hdr blk_header txs a u s2 h2 :
  pool_count_ok (next_unsealed s hdr) = true ->
  apply_batch SO rf (next_unsealed s hdr) txs = Ok u -> seal SO u a = Ok s2 ->
  header_of SO (rf s2) s2 = Ok h2 -> h2 <> blk_header ->
  apply_block SO rf s hdr blk_header txs a = Reject EWrongHeader.
Proof.
  intros Hp H1 H2 H3 Hne. unfold apply_block. rewrite Hp. cbn [negb].
  rewrite H1. cbn [obind]. rewrite H2. cbn [obind]. rewrite H3. cbn [obind].
  rewrite bool_decide_eq_false_2 by exact Hne. reflexivity.
Qed.

(* every honestly built block is accepted by its parent *)
Theorem honest_block_accepted s hdr txs a u s2 h2 :
  pool_count_ok (next_unsealed s hdr) = true ->
  apply_batch SO rf (next_unsealed s hdr) txs = Ok u -> seal SO u a = Ok s2 ->
  header_of SO (rf s2) s2 = Ok h2 ->
  apply_block SO rf s hdr h2 txs a = Ok s2.
Proof. intros Hp H1 H2 H3. apply apply_block_iff; eauto. Qed.

(* the header is injective in every scalar field and in the roots: two sealed states with different
   fee pool, multiplier, DOSC speed, height, network, or different roots have different headers *)
Theorem header_of_fields R s h :
  header_of SO R s = Ok h ->
  h_network h = s_network s /\ h_height h = s_height s /\ h_fee_pool h = s_fee_pool s /\
  h_fee_mult h = s_fee_mult s /\ h_dosc_speed h = s_dosc_speed s /\
  h_history h = r_history R /\ h_coins h = r_coins R /\ h_txs h = r_txs R /\
  h_pools h = r_pools R /\ h_stakes h = r_stakes R /\
  (s_height s = 0 -> h_previous h = 0) /\
  (forall p, s_history s !! (s_height s - 1) = Some p -> s_height s <> 0 -> h_previous h = so_header_hash SO p).
Proof.
  unfold header_of. intros H. inv_bind H as prev Hprev. injection H as <-. cbn.
  repeat split; auto.
  - intros E. rewrite E in Hprev. cbn in Hprev. congruence.
  - intros p Hp Hne. apply N.eqb_neq in Hne. rewrite Hne, Hp in Hprev. congruence.
Qed.

(* C07 linkage: the successor state is one higher, on the same network, and its history holds the parent's
   header at the parent's height and every older entry unchanged *)
Theorem next_unsealed_link s hdr :
  let n := next_unsealed s hdr in
  s_height n = s_height s + 1 /\ s_network n = s_network s /\
  s_history n !! s_height s = Some hdr /\
  (forall k, k <> s_height s -> s_history n !! k = s_history s !! k) /\
  s_txs n = ∅ /\ s_fee_pool n = s_fee_pool s /\ s_fee_mult n = s_fee_mult s /\
  s_dosc_speed n = s_dosc_speed s /\ s_pools n = s_pools s /\ s_coins n = s_coins s /\ s_tips n = s_tips s.
Proof.
  unfold next_unsealed. cbn zeta.
  destruct (tip_906 _ && negb (tip_906 s)); cbn;
    (repeat split; auto; [apply lookup_insert|intros k Hk; apply lookup_insert_ne; congruence]).
Qed.

(* ... so the header of the next sealed state points at the parent *)
Theorem child_header_links_to_parent s hdr txs a u s2 h2 :
  apply_batch SO rf (next_unsealed s hdr) txs = Ok u -> seal SO u a = Ok s2 ->
  header_of SO (rf s2) s2 = Ok h2 ->
  h_height h2 = s_height s + 1 /\ h_network h2 = s_network s /\ h_previous h2 = so_header_hash SO hdr.
Proof.
  intros H1 H2 H3. unfold apply_batch in H1. inv_bind H1 as lh Hlh.
  destruct (apply_tx_batch_frame _ _ _ _ _ H1) as (Eh & En & Ehist & _).
  destruct (seal_frame _ _ _ _ H2) as (Sn & Sh & Shist & _).
  destruct (header_of_fields _ _ _ H3) as (F1 & F2 & _ & _ & _ & _ & _ & _ & _ & _ & _ & Fp).
  destruct (next_unsealed_link s hdr) as (L1 & L2 & L3 & _).
  rewrite F1, F2, Sn, Sh, Eh, En, L1, L2. repeat split; auto.
  apply Fp; [|rewrite Sh, Eh, L1; lia].
  rewrite Shist, Ehist, Sh, Eh, L1. replace (s_height s + 1 - 1) with (s_height s) by lia.
  exact L3.
Qed.

(* C08: a state rebuilt from its block equals the original whenever no tips are pending;
   [txs_keyed] says the transaction set is keyed by each transaction's own hash (an invariant of the model) *)
Definition txs_keyed (s : wstate) : Prop := forall k t, s_txs s !! k = Some t -> t_hash t = k.

Lemma list_to_map_keyed (m : gmap N tx) :
  (forall k t, m !! k = Some t -> t_hash t = k) ->
  list_to_map (map (fun t => (t_hash t, t)) (map snd (map_to_list m))) = m.
Proof.
  intros Hk. rewrite <- (list_to_map_to_list m) at 2. f_equal.
  rewrite map_map. rewrite <- (map_id (map_to_list m)) at 2.
  apply map_ext_in. intros [k t] Hin. cbn. f_equal.
  apply elem_of_list_In, elem_of_map_to_list in Hin. exact (Hk k t Hin).
Qed.

Theorem restart_equivalence s R h :
  header_of SO R s = Ok h -> s_tips s = 0 -> txs_keyed s ->
  from_block h (map snd (map_to_list (s_txs s))) (s_history s) (s_coins s) (s_counts s) (s_pools s) (s_stakes s) = s.
Proof.
  intros Hh Ht Hk. destruct (header_of_fields _ _ _ Hh) as (F1 & F2 & F3 & F4 & F5 & _).
  unfold from_block. rewrite F1, F2, F3, F4, F5, (list_to_map_keyed _ Hk).
  destruct s; cbn in *. subst. reflexivity.
Qed.

(* with pending tips (only after sealing without a proposer action) the restored state differs: finding F16 *)
Theorem restart_loses_tips s R h :
  header_of SO R s = Ok h -> s_tips s <> 0 ->
  from_block h (map snd (map_to_list (s_txs s))) (s_history s) (s_coins s) (s_counts s) (s_pools s) (s_stakes s) <> s.
Proof.
  intros Hh Ht E. apply (f_equal s_tips) in E. cbn in E. congruence.
Qed.
End Block.

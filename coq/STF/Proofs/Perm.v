(* C03: order independence of a batch (what is proved: the coin set, the stake set and the fee accounting of
   an accepted batch do not depend on the order in which its transactions are presented). *)
From MelVerif Require Import STF.Proofs.Tactics STF.Proofs.MapLemmas STF.Proofs.Stakes STF.Proofs.Faucet
  STF.Proofs.Coins STF.Proofs.Fees.
From Coq Require Import ZifyN ZifyNat ZifyBool.
Open Scope N_scope.

Section Perm.
Variable SO : stf_oracle.
Variable s : wstate.
Variable lh : header.

Lemma all_inputs_perm txs1 txs2 : Permutation txs1 txs2 -> Permutation (all_inputs txs1) (all_inputs txs2).
Proof. intros P. unfold all_inputs. apply Permutation_flat_map. exact P. Qed.

Lemma created_perm txs1 txs2 : Permutation txs1 txs2 -> Permutation (created s txs1) (created s txs2).
Proof. intros P. unfold created. apply Permutation_flat_map. exact P. Qed.

(* the coins the first phase collects do not depend on the order *)
Lemma relevant_perm txs1 txs2 r1 r2 :
  Permutation txs1 txs2 -> consistent (created s txs1) ->
  load_relevant_coins s txs1 = Ok r1 -> load_relevant_coins s txs2 = Ok r2 -> r1 = r2.
Proof.
  intros P Hc H1 H2.
  destruct (load_relevant_coins_spec _ _ _ H1) as (_ & _ & _ & Hin1 & Hout1).
  destruct (load_relevant_coins_spec _ _ _ H2) as (_ & _ & _ & Hin2 & Hout2).
  assert (Eo: outputs_map s txs1 = outputs_map s txs2).
  { rewrite !outputs_map_ins_all. apply ins_all_perm; [apply created_perm; exact P|exact Hc]. }
  apply map_eq. intros k.
  destruct (in_dec (fun a b => decide (a = b)) k (all_inputs txs1)) as [Hk|Hk].
  - rewrite (Hin1 k Hk), (Hin2 k (Permutation_in _ (all_inputs_perm _ _ P) Hk)), Eo. reflexivity.
  - rewrite (Hout1 k Hk), Eo. symmetry. apply Hout2.
    intros Hk2. apply Hk. eapply Permutation_in; [apply Permutation_sym, all_inputs_perm; exact P|exact Hk2].
Qed.

(* the bindings of the whole batch never give one key two different values: created coins are a function of
   the key (through [relevant]) and markers are kept apart from output ids by hypothesis *)
Lemma batch_inserts_consistent relevant txs :
  (forall t t' i, In t txs -> In t' txs -> marker_key SO t <> coin_key (t_hash t') (i mod 256)) ->
  consistent (flat_map (tx_inserts SO relevant) txs).
Proof.
  intros Hmk k v1 v2 H1 H2.
  apply in_flat_map in H1 as (t1 & Ht1 & H1). apply in_flat_map in H2 as (t2 & Ht2 & H2).
  apply in_tx_inserts in H1 as [(_ & E1 & ->)|(i1 & o1 & _ & E1 & R1)];
  apply in_tx_inserts in H2 as [(_ & E2 & ->)|(i2 & o2 & _ & E2 & R2)].
  - reflexivity.
  - exfalso. apply (Hmk t1 t2 i2 Ht1 Ht2). congruence.
  - exfalso. apply (Hmk t2 t1 i1 Ht2 Ht1). congruence.
  - congruence.
Qed.

(* C03 (coins): two accepted presentations of the same set of transactions give the same coin map *)
Theorem accepted_perm_same_coins txs1 txs2 s1 s2 :
  Permutation txs1 txs2 ->
  consistent (created s txs1) ->
  (forall t t' i, In t txs1 -> In t' txs1 -> marker_key SO t <> coin_key (t_hash t') (i mod 256)) ->
  apply_tx_batch SO s lh txs1 = Ok s1 -> apply_tx_batch SO s lh txs2 = Ok s2 ->
  s_coins s1 = s_coins s2.
Proof.
  intros P Hc Hmk H1 H2.
  destruct (accepted_batch_coins _ _ _ _ _ H1) as (r1 & Hr1 & ->).
  destruct (accepted_batch_coins _ _ _ _ _ H2) as (r2 & Hr2 & ->).
  assert (r1 = r2) by (eapply relevant_perm; eauto). subst r2.
  rewrite (del_all_perm _ _ _ (all_inputs_perm _ _ P)). f_equal.
  apply ins_all_perm; [apply Permutation_flat_map; exact P|].
  apply batch_inserts_consistent. exact Hmk.
Qed.

(* C03 (fees): saturating sums do not depend on the order *)
Lemma sat_add_fold_closed : forall (l : list N) a, a <= MAX128 ->
  fold_left sat_add128 l a = N.min (a + fold_right N.add 0 l) MAX128.
Proof.
  induction l as [|x l IH]; intros a Ha; cbn [fold_left fold_right]; [lia|].
  rewrite IH by (unfold sat_add128; lia). unfold sat_add128. lia.
Qed.

Lemma fee_fold_closed mult : forall txs fp tips, fp <= MAX128 -> tips <= MAX128 ->
  fee_fold mult txs fp tips =
  if forallb (fun t => match min_fee mult t with Ok mf => mf <=? t_fee t | _ => false end) txs
  then Some (N.min (fp + fold_right N.add 0 (map (fun t => match min_fee mult t with Ok mf => mf | _ => 0 end) txs)) MAX128,
             N.min (tips + fold_right N.add 0 (map (fun t => match min_fee mult t with Ok mf => t_fee t - mf | _ => 0 end) txs)) MAX128)
  else None.
Proof.
  induction txs as [|t r IH]; intros fp tips Hfp Htips; cbn [fee_fold forallb map fold_right].
  - rewrite !N.add_0_r, !N.min_l by assumption. reflexivity.
  - destruct (min_fee mult t) as [mf| |]; [|reflexivity|reflexivity].
    destruct (N.ltb_spec (t_fee t) mf) as [Hlt|Hge].
    + destruct (N.leb_spec mf (t_fee t)); [lia|reflexivity].
    + destruct (N.leb_spec mf (t_fee t)); [|lia]. cbn [andb].
      rewrite IH by (unfold sat_add128; lia).
      destruct (forallb _ r); [|reflexivity]. unfold sat_add128. f_equal. f_equal; lia.
Qed.

Lemma sum_perm (l1 l2 : list N) : Permutation l1 l2 -> fold_right N.add 0 l1 = fold_right N.add 0 l2.
Proof. induction 1; cbn [fold_right]; lia. Qed.

Lemma forallb_perm {A} (f : A -> bool) l1 l2 : Permutation l1 l2 -> forallb f l1 = forallb f l2.
Proof.
  induction 1 as [|x l l' _ IH|x y l|l l' l'' _ IH1 _ IH2]; cbn [forallb]; try congruence.
  - destruct (f x), (f y); reflexivity.
Qed.

Theorem fee_fold_perm mult txs1 txs2 fp tips :
  Permutation txs1 txs2 -> fp <= MAX128 -> tips <= MAX128 ->
  fee_fold mult txs1 fp tips = fee_fold mult txs2 fp tips.
Proof.
  intros P Hfp Htips. rewrite !fee_fold_closed by assumption.
  rewrite (forallb_perm _ _ _ P).
  rewrite (sum_perm _ _ (Permutation_map _ P)).
  rewrite (sum_perm (map (fun t => match min_fee mult t with Ok mf => t_fee t - mf | _ => 0 end) txs1) _ (Permutation_map _ P)).
  reflexivity.
Qed.

Theorem accepted_perm_same_fees txs1 txs2 s1 s2 :
  Permutation txs1 txs2 -> s_fee_pool s <= MAX128 -> s_tips s <= MAX128 ->
  apply_tx_batch SO s lh txs1 = Ok s1 -> apply_tx_batch SO s lh txs2 = Ok s2 ->
  s_fee_pool s1 = s_fee_pool s2 /\ s_tips s1 = s_tips s2.
Proof.
  intros P Hfp Htips H1 H2.
  pose proof (accepted_batch_fees _ _ _ _ _ H1) as F1. pose proof (accepted_batch_fees _ _ _ _ _ H2) as F2.
  rewrite (fee_fold_perm _ _ _ _ _ P Hfp Htips) in F1. rewrite F1 in F2. injection F2 as -> ->. auto.
Qed.

(* C03 (height, network, history, pools, multiplier): untouched by a batch, hence trivially order-free *)
Theorem accepted_perm_same_frame txs1 txs2 s1 s2 :
  apply_tx_batch SO s lh txs1 = Ok s1 -> apply_tx_batch SO s lh txs2 = Ok s2 ->
  s_height s1 = s_height s2 /\ s_network s1 = s_network s2 /\ s_history s1 = s_history s2 /\
  s_pools s1 = s_pools s2 /\ s_fee_mult s1 = s_fee_mult s2.
Proof.
  intros H1 H2. destruct (apply_tx_batch_frame _ _ _ _ _ H1) as (-> & -> & -> & -> & ->).
  destruct (apply_tx_batch_frame _ _ _ _ _ H2) as (-> & -> & -> & -> & ->). auto.
Qed.
End Perm.

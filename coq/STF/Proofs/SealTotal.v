(* C09 for sealing: [seal] returns a state (it never panics) on every state that satisfies the invariants proved
   elsewhere for reachable states - the counts invariant (C20), live built-in pools that cannot be drained (C16) -
   and the stated bounds (height below the shift limit of the TIP-909 schedule, fee pool and tips that fit). *)
From MelVerif Require Import STF.Proofs.Tactics STF.Proofs.MapLemmas STF.Proofs.Frame STF.Proofs.Supply STF.Proofs.Pool
  STF.Proofs.Counts STF.Proofs.Total STF.Proofs.SealCoins STF.Proofs.SealSupply STF.Proofs.PoolKeys STF.Proofs.SealLift
  STF.Proofs.SealInv STF.Proofs.HashFacts STF.Proofs.SealCounts.
From Coq Require Import ZifyN ZifyNat ZifyBool.
Open Scope N_scope.

Definition sided (p : pool) : Prop := 1 <= p_lefts p /\ 1 <= p_rights p.

(* swap_many is total on a pool with two non-empty sides, whatever is swapped in, and keeps both sides and the
   recorded liquidity *)
Lemma swap_many_sided p l r :
  sided p -> l <= MAX128 -> r <= MAX128 ->
  exists p' lw rw, swap_many p l r = Ok (p', lw, rw) /\ sided p' /\ p_liqs p' = p_liqs p.
Proof.
  intros (HL & HR) Hl Hr. unfold swap_many.
  set (L := sat_add128 (p_lefts p) l). set (R := sat_add128 (p_rights p) r).
  assert (HL1: 1 <= L /\ l <= L /\ L <= MAX128) by (unfold L, sat_add128, MAX128, U128 in *; lia).
  assert (HR1: 1 <= R /\ r <= R /\ R <= MAX128) by (unfold R, sat_add128, MAX128, U128 in *; lia).
  destruct HL1 as (HL1 & HlL & HLM). destruct HR1 as (HR1 & HrR & HRM).
  destruct (N.eqb_spec R 0); [lia|]. destruct (N.eqb_spec L 0); [lia|].
  pose proof (swap_quota l R L HL1 HlL) as Qr. pose proof (swap_quota r L R HR1 HrR) as Ql.
  set (xr := l * R * 995 / (L * 1000)) in *. set (xl := r * L * 995 / (R * 1000)) in *.
  assert (Xr: xr < R) by lia. assert (Xl: xl < L) by lia.
  assert (Er: to_u128_sat xr = xr) by (apply to_u128_sat_small; unfold MAX128, U128 in *; lia).
  assert (El: to_u128_sat xl = xl) by (apply to_u128_sat_small; unfold MAX128, U128 in *; lia).
  rewrite Er, El.
  destruct (N.ltb_spec L xl); [lia|]. destruct (N.ltb_spec R xr); [lia|].
  destruct (N.eqb_spec (R - xr) 0); [lia|].
  eexists. eexists. eexists. split; [reflexivity|]. unfold sided. cbn [p_lefts p_rights p_liqs]. lia.
Qed.

(* ---- a settlement loop is total when every pool it visits is ready for its turn *)
Section Loop.
Variable f : denom * denom -> wstate -> list tx -> res wstate.
Variable reqs : list tx.
Variable G : wstate -> Prop.                      (* a global invariant the loop body keeps *)
Variable R : denom * denom -> wstate -> Prop.     (* "pool k is ready" - a fact about get_pool s k only *)
Hypothesis G_step : forall k s s', G s -> f k s (txs_for_pool reqs k) = Ok s' -> G s'.
Hypothesis R_other : forall k1 k s s', f k1 s (txs_for_pool reqs k1) = Ok s' -> poolkey_code k1 <> poolkey_code k -> R k s -> R k s'.
Hypothesis total : forall k s, G s -> R k s -> exists s', f k s (txs_for_pool reqs k) = Ok s'.

Lemma for_pools_total : forall ks s,
  NoDup (map poolkey_code ks) -> G s -> (forall k, In k ks -> R k s) ->
  exists s', for_pools f reqs ks s = Ok s' /\ G s'.
Proof.
  induction ks as [|k ks IH]; intros s Hnd Hg Hr; cbn [for_pools]; [eauto|].
  cbn [map] in Hnd. inversion Hnd as [|? ? Hni Hnd']; subst.
  destruct (total k s Hg (Hr k (or_introl eq_refl))) as (s1 & H1). rewrite H1. cbn [obind].
  apply IH; [exact Hnd'|eapply G_step; eauto|].
  intros k2 Hk2. eapply R_other; [exact H1| |apply Hr; right; exact Hk2].
  intros E. apply Hni. rewrite E. apply in_map. exact Hk2.
Qed.
End Loop.

(* ---- swaps *)
Definition swap_ready (k : denom * denom) (s : wstate) : Prop := exists p, get_pool s k = Some p /\ sided p.

Lemma swaps_single_pool_total k s swaps : swap_ready k s -> exists s', swaps_single_pool k s swaps = Ok s'.
Proof.
  intros (p & Ep & Hs). unfold swaps_single_pool. rewrite Ep. unfold swap_total.
  match goal with |- context [swap_many p (sat_sum ?a) (sat_sum ?b)] =>
    destruct (swap_many_sided p _ _ Hs (sat_sum_max a) (sat_sum_max b)) as (p' & lw & rw & E & _) end.
  rewrite E. cbn [obind]. eauto.
Qed.

Lemma swaps_single_pool_other k1 k s swaps s' :
  swaps_single_pool k1 s swaps = Ok s' -> poolkey_code k1 <> poolkey_code k -> get_pool s' k = get_pool s k.
Proof.
  intros H E. destruct (swaps_single_pool_pools _ _ _ _ H) as (q & q' & lw & rw & _ & _ & Epl).
  unfold get_pool. rewrite Epl. apply lookup_insert_ne. exact E.
Qed.

Lemma process_swaps_total s :
  NoDup (map poolkey_code (pool_keys_sorted (List.filter (is_swap_request s) (sorted_txs s)))) ->
  exists s', process_swaps s = Ok s'.
Proof.
  intros Hnd. unfold process_swaps.
  destruct (for_pools_total swaps_single_pool (List.filter (is_swap_request s) (sorted_txs s)) (fun _ => True) swap_ready) with (ks := pool_keys_sorted (List.filter (is_swap_request s) (sorted_txs s))) (s := s)
    as (s' & E & _); eauto.
  - intros k1 k s0 s1 H E (p & Ep & Hs). exists p. split; [|exact Hs]. rewrite (swaps_single_pool_other _ _ _ _ _ H E). exact Ep.
  - intros k s0 _ Hr. apply swaps_single_pool_total. exact Hr.
  - intros k Hk. apply pool_keys_sorted_in in Hk as (t & Ht & Etp). apply filter_In in Ht as [_ Hreq].
    destruct (swap_request_needs_live_pool s t Hreq) as (k' & p & Etp' & Ep & H1 & H2).
    rewrite Etp in Etp'. injection Etp' as <-. exists p. split; [exact Ep|split; assumption].
Qed.

Section Phases.
Variable SO : stf_oracle.

(* ---- deposits *)
Definition dep_ready (k : denom * denom) (s : wstate) : Prop :=
  match get_pool s k with Some p => p_liqs p = 0 \/ sided p | None => True end.

Lemma pool_deposit_total p l r : p_liqs p = 0 \/ sided p -> exists p' m, pool_deposit p l r = Ok (p', m).
Proof.
  intros H. unfold pool_deposit. destruct (N.eqb_spec (p_liqs p) 0) as [E|E]; [eauto|].
  destruct H as [H|(H1 & H2)]; [contradiction|].
  destruct (N.eqb_spec (p_lefts p * p_rights p) 0); [nia|]. eauto.
Qed.

Lemma deposits_go_total k tl tm : forall l left s,
  (forall t, In t l -> In t (sorted_txs s)) -> Good s ->
  exists s', deposits_go SO k tl tm l left s = Ok s'.
Proof.
  induction l as [|t rest IH]; intros left s Hl G; cbn [deposits_go]; [eauto|].
  match goal with |- context [put_coin s ?kk ?cc] => set (s1 := put_coin s kk cc) end.
  assert (G1: Good s1) by (apply (good_write0 s t); [apply Hl; left; reflexivity|reflexivity|exact G]).
  assert (Hs2: exists s2, (if legacy_net s && (s_height s <? 978392) then Ok s1 else del_coin s1 (coin_key (t_hash t) 1)) = Ok s2
                          /\ Good s2 /\ s_txs s2 = s_txs s).
  { destruct (legacy_net s && (s_height s <? 978392)).
    - exists s1. split; [reflexivity|]. split; [exact G1|reflexivity].
    - destruct (del_coin_total s1 (coin_key (t_hash t) 1)) as (s2 & E2); [apply G1|].
      exists s2. split; [exact E2|]. split; [eapply good_del; eauto|]. apply frame_del_coin, frame_fp_txs in E2. exact E2. }
  destruct Hs2 as (s2 & E2 & G2 & T2). rewrite E2. cbn [obind].
  apply IH; [|exact G2]. intros t' Ht'. rewrite (txs_same _ _ T2). apply Hl. right. exact Ht'.
Qed.

Lemma deposits_single_pool_total k s deps :
  (forall t, In t deps -> In t (sorted_txs s)) -> Good s -> dep_ready k s ->
  exists s', deposits_single_pool SO k s deps = Ok s'.
Proof.
  intros Hl G Hr. unfold deposits_single_pool.
  match goal with |- context [pool_deposit ?p ?a ?b] => destruct (pool_deposit_total p a b) as (p' & m & E) end.
  { unfold dep_ready in Hr. destruct (get_pool s k); [exact Hr|left; reflexivity]. }
  rewrite E. cbn [obind]. apply deposits_go_total; [|apply good_put_pool; exact G]. exact Hl.
Qed.

Lemma deposits_single_pool_other k1 k s deps s' :
  deposits_single_pool SO k1 s deps = Ok s' -> poolkey_code k1 <> poolkey_code k -> get_pool s' k = get_pool s k.
Proof.
  intros H E. destruct (deposits_single_pool_pools SO _ _ _ _ H) as (q' & m & _ & Epl).
  unfold get_pool. rewrite Epl. apply lookup_insert_ne. exact E.
Qed.

Lemma deposit_request_ready s t k : is_deposit_request s t = true -> tx_pool t = Some k -> dep_ready k s.
Proof.
  unfold is_deposit_request, dep_ready. intros H Ek. rewrite Ek in H.
  apply andb_true_iff in H as [_ H]. apply andb_true_iff in H as [H _]. apply andb_true_iff in H as [H _].
  destruct (get_pool s k) as [p|]; [|exact I].
  apply orb_true_iff in H as [H|H]; [left; apply N.eqb_eq; exact H|right].
  apply andb_true_iff in H as [H1 H2]. apply N.ltb_lt in H1, H2. split; lia.
Qed.

Lemma process_deposits_total s :
  Good s ->
  NoDup (map poolkey_code (pool_keys_sorted (List.filter (is_deposit_request s) (sorted_txs s)))) ->
  exists s', process_deposits SO s = Ok s' /\ Good s'.
Proof.
  intros G Hnd. unfold process_deposits.
  set (reqs := List.filter (is_deposit_request s) (sorted_txs s)) in *.
  destruct (for_pools_total (deposits_single_pool SO) reqs
              (fun s0 => Good s0 /\ s_txs s0 = s_txs s) dep_ready) with (ks := pool_keys_sorted reqs) (s := s)
    as (s' & E & G' & _); eauto.
  - intros k s0 s1 [G0 T0] H. split.
    + unfold deposits_single_pool in H. inv_bind H as pl Hpl. destruct pl as [p' tl].
      eapply good_deposits_go; [|apply good_put_pool; exact G0|exact H].
      intros t Ht. apply txs_for_pool_sub in Ht. apply filter_In in Ht as [Ht _].
      cut (In t (sorted_txs s0)); [intros X; exact X|]. rewrite (txs_same _ _ T0). exact Ht.
    + apply frame_deposits_single, frame_fp_txs in H. congruence.
  - intros k1 k s0 s1 H E Hr. unfold dep_ready in *. rewrite (deposits_single_pool_other _ _ _ _ _ H E). exact Hr.
  - intros k s0 [G0 T0] Hr. apply deposits_single_pool_total; [|exact G0|exact Hr].
    intros t Ht. apply txs_for_pool_sub in Ht. apply filter_In in Ht as [Ht _]. rewrite (txs_same _ _ T0). exact Ht.
  - intros k Hk. apply pool_keys_sorted_in in Hk as (t & Ht & Etp). apply filter_In in Ht as [_ Hreq].
    eapply deposit_request_ready; eauto.
Qed.

(* ---- withdrawals *)
Definition wd_ready (k : denom * denom) (s : wstate) : Prop := exists p, get_pool s k = Some p.

Lemma withdrawals_single_pool_other k1 k s ws s' :
  withdrawals_single_pool k1 s ws = Ok s' -> poolkey_code k1 <> poolkey_code k -> get_pool s' k = get_pool s k.
Proof.
  intros H E. destruct (withdrawals_single_pool_pools _ _ _ _ H) as (q & _ & [->|(q' & a & b & _ & Epl)]); [reflexivity|].
  unfold get_pool. rewrite Epl. apply lookup_insert_ne. exact E.
Qed.

Lemma process_withdrawals_total s :
  NoDup (map poolkey_code (pool_keys_sorted (List.filter (is_withdraw_request SO s) (sorted_txs s)))) ->
  exists s', process_withdrawals SO s = Ok s'.
Proof.
  intros Hnd. unfold process_withdrawals.
  set (reqs := List.filter (is_withdraw_request SO s) (sorted_txs s)) in *.
  destruct (for_pools_total withdrawals_single_pool reqs (fun _ => True) wd_ready) with (ks := pool_keys_sorted reqs) (s := s)
    as (s' & E & _); eauto.
  - intros k1 k s0 s1 H E (p & Ep). exists p. rewrite (withdrawals_single_pool_other _ _ _ _ _ H E). exact Ep.
  - intros k s0 _ (p & Ep). eapply guarded_withdraw_cannot_panic. exact Ep.
  - intros k Hk. apply pool_keys_sorted_in in Hk as (t & Ht & Etp). apply filter_In in Ht as [_ Hreq].
    unfold is_withdraw_request in Hreq. rewrite Etp in Hreq. apply andb_true_iff in Hreq as [_ Hreq].
    unfold wd_ready. destruct (get_pool s k) as [p|]; [eauto|discriminate].
Qed.
End Phases.

(* ---- the peg *)
Lemma microergs_pos h : 1 <= microergs_per_dosc h.
Proof.
  unfold microergs_per_dosc. destruct (h <=? 3000000); [unfold MICRO; lia|].
  assert (G: forall n, 4000000 <= N.iter n inflator_step 4000000).
  { intros n. induction n using N.peano_ind; [cbn; lia|]. rewrite N.iter_succ. unfold inflator_step at 1. lia. }
  specialize (G (h - 3000000)). lia.
Qed.

Lemma poolkey_es : poolkey_new Sym Erg = poolkey_new Erg Sym.
Proof. reflexivity. Qed.

Lemma peg_tail_total s sm xn th :
  sided sm -> 1 <= xn -> 1 <= th -> forall xd,
  exists s',
    (let konstant := p_lefts sm * p_rights sm in
     let dn := microergs_per_dosc (s_height s) * xn in
     let dd := MICRO * xd in
     if dn =? 0 then Panic P_RATIO_ZERO else
     let desired_mel := to_u128_sat (N.sqrt (konstant * dd / dn)) in
     let desired_sym := to_u128_sat (N.sqrt (konstant * dn / dd)) in
     sm1 <- (if p_lefts sm <? desired_mel
             then (r <- swap_many sm ((desired_mel - p_lefts sm) / th) 0 ;; Ok (fst (fst r)))
             else Ok sm) ;;
     sm2 <- (if p_rights sm1 <? desired_sym
             then (r <- swap_many sm1 0 ((desired_sym - p_rights sm1) / th) ;; Ok (fst (fst r)))
             else Ok sm1) ;;
     Ok (put_pool s (poolkey_new Mel Sym) sm2)) = Ok s'.
Proof.
  intros Hsm Hxn Hth xd. cbn zeta.
  pose proof (microergs_pos (s_height s)) as Hm.
  destruct (N.eqb_spec (microergs_per_dosc (s_height s) * xn) 0) as [E0|_]; [nia|].
  set (dm := to_u128_sat _). set (ds := to_u128_sat _).
  assert (Hdm: dm <= MAX128) by apply to_u128_sat_max. assert (Hds: ds <= MAX128) by apply to_u128_sat_max.
  assert (H1: exists sm1, (if p_lefts sm <? dm then (r <- swap_many sm ((dm - p_lefts sm) / th) 0 ;; Ok (fst (fst r))) else Ok sm) = Ok sm1 /\ sided sm1).
  { destruct (p_lefts sm <? dm); [|eauto].
    destruct (swap_many_sided sm ((dm - p_lefts sm) / th) 0 Hsm) as (p' & lw & rw & E & Hs' & _).
    - assert ((dm - p_lefts sm) / th <= dm - p_lefts sm) by (apply N.div_le_upper_bound; nia). lia.
    - unfold MAX128, U128. lia.
    - rewrite E. cbn [obind fst]. eauto. }
  destruct H1 as (sm1 & -> & Hs1). cbn [obind].
  assert (H2: exists sm2, (if p_rights sm1 <? ds then (r <- swap_many sm1 0 ((ds - p_rights sm1) / th) ;; Ok (fst (fst r))) else Ok sm1) = Ok sm2).
  { destruct (p_rights sm1 <? ds); [|eauto].
    destruct (swap_many_sided sm1 0 ((ds - p_rights sm1) / th) Hs1) as (p' & lw & rw & E & _).
    - unfold MAX128, U128. lia.
    - assert ((ds - p_rights sm1) / th <= ds - p_rights sm1) by (apply N.div_le_upper_bound; nia). lia.
    - rewrite E. cbn [obind fst]. eauto. }
  destruct H2 as (sm2 & ->). cbn [obind]. eauto.
Qed.

Lemma process_pegging_total s :
  (exists sm, get_pool s (poolkey_new Mel Sym) = Some sm /\ sided sm) ->
  (tip_902 s = true -> exists es, get_pool s (poolkey_new Erg Sym) = Some es /\ sided es) ->
  (tip_902 s = false -> exists me, get_pool s (poolkey_new Mel Erg) = Some me /\ sided me) ->
  exists s', process_pegging s = Ok s'.
Proof.
  intros (sm & Esm & Hsm) Hes Hme. unfold process_pegging. rewrite Esm.
  destruct Hsm as [S1 S2]. destruct (tip_902 s).
  - destruct (Hes eq_refl) as (es & Ees & E1 & E2). rewrite poolkey_es, Ees.
    destruct (N.eqb_spec (p_rights es) 0); [lia|]. destruct (N.eqb_spec (p_lefts es) 0); [lia|]. cbn [orb obind].
    apply (peg_tail_total s sm (p_rights es) 200 (conj S1 S2) E2 ltac:(lia)).
  - destruct (Hme eq_refl) as (me & Eme & E1 & E2). rewrite Eme.
    destruct (N.eqb_spec (p_rights sm) 0); [lia|]. destruct (N.eqb_spec (p_lefts sm) 0); [lia|].
    destruct (N.eqb_spec (p_rights me) 0); [lia|]. destruct (N.eqb_spec (p_lefts me) 0); [lia|]. cbn [orb obind].
    apply (peg_tail_total s sm (p_rights sm * p_lefts me) 1000 (conj S1 S2)); nia.
Qed.

(* ---- the TIP-909 subsidy and the proposer reward *)
Lemma swap_many_lw_le p l r p' lw rw : swap_many p l r = Ok (p', lw, rw) -> l = 0 -> lw <= p_lefts p.
Proof.
  unfold swap_many. intros H ->.
  assert (HL: sat_add128 (p_lefts p) 0 <= p_lefts p) by (unfold sat_add128; lia).
  set (L := sat_add128 (p_lefts p) 0) in *. set (R := sat_add128 (p_rights p) r) in *.
  destruct (R =? 0); [discriminate|]. destruct (L =? 0); [discriminate|].
  match type of H with context [if L <? ?x then _ else _] => destruct (N.ltb_spec L x) as [|Hle]; [discriminate|] end.
  destruct (_ <? _); [discriminate|]. destruct (_ =? 0); [discriminate|]. injection H as _ <- _. lia.
Qed.

Lemma apply_tip_909_total s :
  (s_height s - TIP_909_HEIGHT) / 1000000 < 128 ->
  poolkey_code (poolkey_new Mel Sym) <> poolkey_code (poolkey_new Erg Sym) ->
  (exists sm, get_pool s (poolkey_new Mel Sym) = Some sm /\ sided sm /\ s_fee_pool s + p_lefts sm < U128) ->
  (exists es, get_pool s (poolkey_new Erg Sym) = Some es /\ sided es) ->
  exists s', apply_tip_909 s = Ok s' /\ s_tips s' = s_tips s /\
             (exists sm, get_pool s (poolkey_new Mel Sym) = Some sm /\ s_fee_pool s' <= s_fee_pool s + p_lefts sm).
Proof.
  intros Hh Hne (sm & Esm & Hsm & Hfit) (es & Ees & Hes). unfold apply_tip_909.
  destruct (N.leb_spec 128 ((s_height s - TIP_909_HEIGHT) / 1000000)) as [|_]; [lia|].
  rewrite Esm.
  pose proof (shiftr_le (2 ^ 20) ((s_height s - TIP_909_HEIGHT) / 1000000)) as Hrw.
  set (reward := N.shiftr (2 ^ 20) ((s_height s - TIP_909_HEIGHT) / 1000000)) in *.
  change (2 ^ 20) with 1048576 in Hrw.
  assert (Hd: reward / 256 <= reward /\ reward / 2 <= reward) by (split; apply N.div_le_upper_bound; lia).
  set (fs := if tip_909a s then reward - reward / 256 else reward / 2).
  assert (Hfs: fs <= MAX128) by (unfold fs, MAX128, U128; destruct (tip_909a s); lia).
  destruct (swap_many_sided sm 0 fs Hsm ltac:(unfold MAX128, U128; lia) Hfs) as (sm' & mel & x & E & _ & _).
  rewrite E. cbn [obind].
  pose proof (swap_many_lw_le _ _ _ _ _ _ E eq_refl) as Hmel.
  unfold add128. destruct (N.ltb_spec (s_fee_pool (put_pool s (poolkey_new Mel Sym) sm') + mel) U128) as [_|Hov];
    [|cbn [s_fee_pool put_pool set_pools] in Hov; lia].
  cbn [obind].
  match goal with |- context [get_pool ?st (poolkey_new Erg Sym)] =>
    assert (Eg: get_pool st (poolkey_new Erg Sym) = Some es) end.
  { unfold get_pool. cbn [s_pools set_fees put_pool set_pools]. rewrite lookup_insert_ne by exact Hne. exact Ees. }
  rewrite Eg.
  match goal with |- context [swap_many es 0 ?e] => destruct (swap_many_sided es 0 e Hes) as (es' & a & b & E2 & _) end;
    [unfold MAX128, U128; lia| |].
  { match goal with |- context [tip_909a ?st] => destruct (tip_909a st) end; unfold MAX128, U128, fs; destruct (tip_909a s); lia. }
  rewrite E2. cbn [obind]. eexists. split; [reflexivity|]. split; [reflexivity|].
  exists sm. split; [reflexivity|]. cbn [s_fee_pool put_pool set_pools set_fees]. lia.
Qed.

(* ---- the whole seal *)
Section SealTotal.
Variable SO : stf_oracle.
Variable s : wstate.

Definition builtin (k : denom * denom) : Prop := k = MS \/ k = ME \/ k = ES.
(* the pools the block can touch: the built-in ones and those named by its transactions *)
Definition named (k : denom * denom) : Prop := builtin k \/ exists t, In t (sorted_txs s) /\ tx_pool t = Some k.

(* PoolKey::to_bytes is injective on them *)
Hypothesis codes_inj : forall k1 k2, named k1 -> named k2 -> poolkey_code k1 = poolkey_code k2 -> k1 = k2.
(* C20's invariant *)
Hypothesis Hgood : Good s.
(* C16: the built-in pools that exist are live ... *)
Hypothesis builtins_live : forall k p, builtin k -> get_pool s k = Some p -> live p.
(* ... and the withdrawals of the block ask for less of their liquidity than they recorded *)
Hypothesis wd_ok : forall k, builtin k -> is_Some (get_pool (create_builtins s) k) -> forall s2 s3 p3,
  process_swaps (create_builtins s) = Ok s2 -> process_deposits SO s2 = Ok s3 -> get_pool s3 k = Some p3 ->
  sat_sum (map (fun t => cd_value (out0 t)) (txs_for_pool (List.filter (is_withdraw_request SO s3) (sorted_txs s3)) k)) < p_liqs p3.
(* the subsidy schedule's shift stays below 128 *)
Hypothesis height_ok : (s_height s - TIP_909_HEIGHT) / 1000000 < 128.
(* the MEL of the fee pool, the tips and the MEL/SYM reserve fit a u128 (C09's supply bound) *)
Hypothesis fee_fits : forall s1 sm, preseal_melmint SO s = Ok s1 -> get_pool s1 MS = Some sm ->
  s_fee_pool s + p_lefts sm + s_tips s < U128.

Lemma builtin_named k : builtin k -> named k.
Proof. intros H. left. exact H. Qed.

Lemma builtin_codes_differ : poolkey_code MS <> poolkey_code ME /\ poolkey_code MS <> poolkey_code ES /\ poolkey_code ME <> poolkey_code ES.
Proof. repeat split; vm_compute; discriminate. Qed.

(* keys named by the requests of a phase are distinguished by their codes, among themselves and from a built-in key *)
Lemma phase_nodup (flt : tx -> bool) : NoDup (map poolkey_code (pool_keys_sorted (List.filter flt (sorted_txs s)))).
Proof.
  apply nodup_codes_of_keys; [apply pool_keys_sorted_nodup|].
  intros k1 k2 H1 H2 E. apply pool_keys_sorted_in in H1 as (t1 & Ht1 & Et1). apply pool_keys_sorted_in in H2 as (t2 & Ht2 & Et2).
  apply filter_In in Ht1 as [Ht1 _]. apply filter_In in Ht2 as [Ht2 _].
  apply codes_inj; [right; eauto|right; eauto|exact E].
Qed.
Lemma phase_inj (flt : tx -> bool) k : builtin k ->
  forall k1, In k1 (pool_keys_sorted (List.filter flt (sorted_txs s))) -> poolkey_code k1 = poolkey_code k -> k1 = k.
Proof.
  intros Hb k1 Hk1 E. apply pool_keys_sorted_in in Hk1 as (t & Ht & Et). apply filter_In in Ht as [Ht _].
  apply codes_inj; [right; eauto|left; exact Hb|exact E].
Qed.

(* after the bootstrap every built-in pool that exists is live, MEL/SYM and MEL/ERG exist, and ERG/SYM does
   once TIP-902 is active *)
Lemma bootstrap_live k p : builtin k -> get_pool (create_builtins s) k = Some p -> live p.
Proof.
  intros Hb Ep. destruct builtin_codes_differ as (D1 & D2 & D3).
  destruct (get_pool s k) as [p0|] eqn:E0.
  - destruct (create_builtins_keeps_live s k p0 E0 (builtins_live k p0 Hb E0)) as (p' & Ep' & Hl). congruence.
  - (* created by the bootstrap: it is the built-in pool *)
    revert Ep. unfold create_builtins.
    set (add := fun k0 st => match get_pool st k0 with Some _ => st | None => put_pool st k0 builtin_pool end).
    change (get_pool (let s1 := add (poolkey_new Mel Sym) s in let s2 := add (poolkey_new Mel Erg) s1 in
                      if tip_902 s2 then add (poolkey_new Erg Sym) s2 else s2) k = Some p -> live p).
    cbn zeta.
    assert (A: forall k0 st q, get_pool (add k0 st) k = Some q -> get_pool st k = Some q \/ q = builtin_pool).
    { intros k0 st q. unfold add. destruct (get_pool st k0) eqn:Ek0; [auto|].
      destruct (N.eq_dec (poolkey_code k0) (poolkey_code k)) as [E|E].
      - unfold get_pool. cbn [s_pools put_pool set_pools]. rewrite E, lookup_insert. intros H. injection H as <-. auto.
      - rewrite get_pool_put_other by exact E. auto. }
    intros Ep.
    assert (Hcases: get_pool s k = Some p \/ p = builtin_pool).
    { destruct (tip_902 _) in Ep.
      - apply A in Ep as [Ep | ->]; [|auto]. apply A in Ep as [Ep | ->]; [|auto]. apply A in Ep as [Ep | ->]; auto.
      - apply A in Ep as [Ep | ->]; [|auto]. apply A in Ep as [Ep | ->]; auto. }
    destruct Hcases as [H | ->]; [congruence|apply builtin_pool_live].
Qed.

Lemma two_keys_size (m : gmap N pool) a b x y : a <> b -> m !! a = Some x -> m !! b = Some y -> 2 <= N.of_nat (size m).
Proof.
  intros Hne Ha Hb.
  rewrite <- (insert_delete m a x Ha). rewrite map_size_insert_None by apply lookup_delete.
  assert (Hb': delete a m !! b = Some y) by (rewrite lookup_delete_ne by exact Hne; exact Hb).
  rewrite <- (insert_delete (delete a m) b y Hb'). rewrite map_size_insert_None by apply lookup_delete. lia.
Qed.

Lemma bootstrap_es : tip_902 s = true -> exists p, get_pool (create_builtins s) ES = Some p.
Proof.
  intros T. unfold create_builtins.
  set (add := fun k0 st => match get_pool st k0 with Some _ => st | None => put_pool st k0 builtin_pool end).
  change (exists p, get_pool (let s1 := add (poolkey_new Mel Sym) s in let s2 := add (poolkey_new Mel Erg) s1 in
                              if tip_902 s2 then add (poolkey_new Erg Sym) s2 else s2) ES = Some p).
  cbn zeta.
  assert (F: forall k0 st, tip_902 (add k0 st) = tip_902 st) by (intros k0 st; unfold add; destruct (get_pool st k0); reflexivity).
  assert (Has: forall k0 st, exists q, get_pool (add k0 st) k0 = Some q).
  { intros k0 st. unfold add. destruct (get_pool st k0) eqn:E0; [eauto|]. rewrite get_pool_put_same. eauto. }
  rewrite !F, T. apply Has.
Qed.

Theorem seal_total a : exists s', seal SO s a = Ok s'.
Proof.
  destruct builtin_codes_differ as (D1 & D2 & D3).
  set (s1 := create_builtins s).
  assert (F1: frame_fp s1 = frame_fp s) by apply frame_create_builtins.
  assert (T1: sorted_txs s1 = sorted_txs s) by (apply txs_same, frame_fp_txs; exact F1).
  assert (G1: Good s1).
  { eapply good_same; [apply coins_create_builtins|apply counts_create_builtins|apply frame_fp_frame; exact F1|exact Hgood]. }
  (* swaps *)
  destruct (process_swaps_total s1) as (s2 & H2); [rewrite T1; apply phase_nodup|].
  pose proof (good_process_swaps _ _ G1 H2) as G2.
  assert (F2: frame_fp s2 = frame_fp s) by (rewrite (frame_process_swaps _ _ H2); exact F1).
  assert (T2: sorted_txs s2 = sorted_txs s) by (apply txs_same, frame_fp_txs; exact F2).
  (* deposits *)
  destruct (process_deposits_total SO s2 G2) as (s3 & H3 & G3); [rewrite T2; apply phase_nodup|].
  assert (F3: frame_fp s3 = frame_fp s) by (rewrite (frame_process_deposits SO _ _ H3); exact F2).
  assert (T3: sorted_txs s3 = sorted_txs s) by (apply txs_same, frame_fp_txs; exact F3).
  (* withdrawals *)
  destruct (process_withdrawals_total SO s3) as (s4 & H4); [rewrite T3; apply phase_nodup|].
  assert (F4: frame_fp s4 = frame_fp s) by (rewrite (frame_process_withdrawals SO _ _ H4); exact F3).
  (* a built-in pool that exists after the bootstrap is there, live, after the three phases *)
  assert (Live4: forall k p1, builtin k -> get_pool s1 k = Some p1 -> exists p4, get_pool s4 k = Some p4 /\ live p4).
  { intros k p1 Hb E1. pose proof (bootstrap_live k p1 Hb E1) as L1.
    destruct (process_swaps_keeps_live s1 s2 k p1 H2 E1 L1) as (p2 & E2 & L2); [rewrite T1; apply phase_inj; exact Hb|].
    destruct (process_deposits_keeps_live SO s2 s3 k p2 H3 E2 L2) as (p3 & E3 & L3); [rewrite T2; apply phase_inj; exact Hb|].
    apply (process_withdrawals_keeps_live SO s3 s4 k p3 H4 E3 L3); [rewrite T3; apply phase_nodup|rewrite T3; apply phase_inj; exact Hb|].
    eapply wd_ok; eauto. }
  destruct (create_builtins_exist s) as [(ms1 & Ems1) (me1 & Eme1)]. fold s1 in Ems1, Eme1.
  destruct (Live4 MS ms1 (or_introl eq_refl) Ems1) as (ms4 & Ems4 & Lms4).
  destruct (Live4 ME me1 (or_intror (or_introl eq_refl)) Eme1) as (me4 & Eme4 & Lme4).
  assert (Tip4: forall act, tip_condition s4 act = tip_condition s act) by (intros act; apply tip_cond_frame, frame_fp_frame; exact F4).
  (* the peg *)
  destruct (process_pegging_total s4) as (s5 & H5).
  { exists ms4. split; [exact Ems4|]. destruct Lms4 as (A & B & _). split; assumption. }
  { intros T. unfold tip_902 in T. rewrite Tip4 in T. destruct (bootstrap_es T) as (es1 & Ees1). fold s1 in Ees1.
    destruct (Live4 ES es1 (or_intror (or_intror eq_refl)) Ees1) as (es4 & Ees4 & (A & B & _)). exists es4. split; [exact Ees4|split; assumption]. }
  { intros _. exists me4. split; [exact Eme4|]. destruct Lme4 as (A & B & _). split; assumption. }
  assert (Hpre: preseal_melmint SO s = Ok s5).
  { unfold preseal_melmint. fold s1. rewrite H2. cbn [obind]. rewrite H3. cbn [obind]. rewrite H4. cbn [obind]. exact H5. }
  assert (F5: frame_fp s5 = frame_fp s) by (rewrite (frame_process_pegging _ _ H5); exact F4).
  assert (Tip5: forall act, tip_condition s5 act = tip_condition s act) by (intros act; apply tip_cond_frame, frame_fp_frame; exact F5).
  destruct (process_pegging_keeps_live s4 s5 MS ms4 H5 Ems4 Lms4) as (ms5 & Ems5 & Lms5).
  destruct (process_pegging_keeps_live s4 s5 ME me4 H5 Eme4 Lme4) as (me5 & Eme5 & Lme5).
  unfold seal. rewrite Hpre. cbn [obind].
  assert (Hcnt: pool_count_ok s5 = true).
  { unfold pool_count_ok. apply N.leb_le. unfold get_pool in Ems5, Eme5. eapply two_keys_size; [exact D1|exact Ems5|exact Eme5]. }
  rewrite Hcnt. cbn [negb].
  assert (Hfp5: s_fee_pool s5 = s_fee_pool s /\ s_tips s5 = s_tips s /\ s_height s5 = s_height s).
  { unfold frame_fp, frame in F5. injection F5 as E1 E2 E3 E4 E5 E6 E7 E8 E9. auto. }
  destruct Hfp5 as (Efp5 & Etips5 & Eh5).
  pose proof (fee_fits s5 ms5 Hpre Ems5) as Hfit.
  (* the subsidy *)
  assert (H6: exists s6, (if tip_909 s5 then apply_tip_909 s5 else Ok s5) = Ok s6 /\ s_tips s6 = s_tips s /\ s_fee_pool s6 <= s_fee_pool s + p_lefts ms5).
  { destruct (tip_909 s5) eqn:T9; [|exists s5; split; [reflexivity|]; split; [exact Etips5|lia]].
    destruct (apply_tip_909_total s5) as (s6 & E6 & Et6 & (sm & Esm & Hle)).
    - rewrite Eh5. exact height_ok.
    - exact D2.
    - exists ms5. split; [exact Ems5|]. destruct Lms5 as (A & B & _). split; [split; assumption|]. lia.
    - (* TIP-909 is later than TIP-902 on every network: the ERG/SYM pool exists *)
      assert (T2': tip_902 s = true).
      { unfold tip_909 in T9. rewrite Tip5 in T9. unfold tip_902. revert T9. unfold tip_condition.
        destruct (TIP_909_HEIGHT =? U64MAX); [discriminate|]. change (TIP_902_HEIGHT =? U64MAX) with false. cbn iota.
        destruct (s_network s =? MAINNET); [|auto]. intros T9. apply N.leb_le in T9. apply N.leb_le. unfold TIP_909_HEIGHT, TIP_902_HEIGHT in *. lia. }
      destruct (bootstrap_es T2') as (es1 & Ees1). fold s1 in Ees1.
      destruct (Live4 ES es1 (or_intror (or_intror eq_refl)) Ees1) as (es4 & Ees4 & Les4).
      destruct (process_pegging_keeps_live s4 s5 ES es4 H5 Ees4 Les4) as (es5 & Ees5 & (A & B & _)).
      exists es5. split; [exact Ees5|split; assumption].
    - exists s6. split; [exact E6|]. split; [congruence|]. assert (sm = ms5) by (unfold MS in Ems5; congruence). subst sm. lia. }
  destruct H6 as (s6 & E6 & Et6 & Hf6).
  match goal with |- context [obind ?x _] => replace x with (@Ok err wstate s6) end. cbn [obind].
  destruct a as [act|]; [|eauto].
  unfold collect_proposer_fee. cbn [s_fee_pool s_tips set_mult]. unfold add128.
  destruct (N.ltb_spec (s_fee_pool s6 / 65536 + s_tips s6) U128) as [_|Hov]; [cbn [obind]; eauto|].
  exfalso. assert (s_fee_pool s6 / 65536 <= s_fee_pool s6) by (apply N.div_le_upper_bound; lia). lia.
Qed.

Lemma builtin_def k : builtin k <-> k = poolkey_new Mel Sym \/ k = poolkey_new Mel Erg \/ k = poolkey_new Erg Sym.
Proof. reflexivity. Qed.
Lemma named_def k : named k <-> builtin k \/ exists t, In t (sorted_txs s) /\ tx_pool t = Some k.
Proof. reflexivity. Qed.
End SealTotal.

Lemma live_def p : live p <-> 1 <= p_lefts p /\ 1 <= p_rights p /\ 1 <= p_liqs p.
Proof. reflexivity. Qed.

(* ---- the withdrawal hypothesis of [seal_total] follows from C16's backing: a built-in pool whose token is
   backed with room to spare after the bootstrap cannot be asked for all of its liquidity *)
Section FromBacking.
Variable K : list (denom * denom).
Hypothesis Kcodes : NoDup (map poolkey_code K).
Variable SO : stf_oracle.
Hypothesis K_builtins : In MS K /\ In ME K /\ In ES K.
Hypothesis LD_inj : forall k1 k2, In k1 K -> In k2 K -> LDk SO k1 = LDk SO k2 -> k1 = k2.
Variable s : wstate.
Hypothesis Hleg : legacy_net s && (s_height s <? 978392) = false.
Hypothesis Hcover : forall t k1, In t (sorted_txs s) -> tx_pool t = Some k1 -> In k1 K /\ LDk SO k1 <> fst k1 /\ LDk SO k1 <> snd k1.
Hypothesis Hkeys : NoDup (key_pairs (sorted_txs s)).
Hypothesis Hd0 : forall t c, In t (sorted_txs s) -> s_coins s !! key0 t = Some c -> as_declared t c (out0 t).
Hypothesis Hd1 : forall t c, In t (sorted_txs s) -> s_coins s !! key1 t = Some c -> as_declared t c (out1 t).
Hypothesis Hs0 : nsum (map (fun t => cd_value (out0 t)) (sorted_txs s)) < U128.
Hypothesis Hs1 : nsum (map (fun t => cd_value (out1 t)) (sorted_txs s)) < U128.
Hypothesis Hsat : forall s2, process_swaps (create_builtins s) = Ok s2 ->
  forall k1 p'' m, In k1 K ->
    pool_deposit (pool_at s2 k1)
      (nsum (map (fun t => cd_value (out0 t)) (txs_for_pool (List.filter (is_deposit_request s2) (sorted_txs s2)) k1)))
      (nsum (map (fun t => cd_value (out1 t)) (txs_for_pool (List.filter (is_deposit_request s2) (sorted_txs s2)) k1))) = Ok (p'', m) ->
    p_liqs (pool_at s2 k1) + m < U128.
(* room to spare after the bootstrap: tokens in coins + tokens parked in reserves + 1 <= recorded liquidity *)
Hypothesis slack : forall k p1, builtin k -> get_pool (create_builtins s) k = Some p1 ->
  coin_supply (LDk SO k) (s_coins s) + psum K (LDk SO k) (create_builtins s) + 1 <= p_liqs p1.

Lemma builtin_in_K k : builtin k -> In k K.
Proof. destruct K_builtins as (A & B & C). intros [-> | [-> | ->]]; assumption. Qed.

Lemma wd_ok_from_backing : forall k, builtin k -> is_Some (get_pool (create_builtins s) k) -> forall s2 s3 p3,
  process_swaps (create_builtins s) = Ok s2 -> process_deposits SO s2 = Ok s3 -> get_pool s3 k = Some p3 ->
  sat_sum (map (fun t => cd_value (out0 t)) (txs_for_pool (List.filter (is_withdraw_request SO s3) (sorted_txs s3)) k)) < p_liqs p3.
Proof.
  intros k Hb [p1 E1] s2 s3 p3 H2 H3 E3.
  pose proof (builtin_in_K k Hb) as Hk.
  set (d := LDk SO k) in *. set (s1 := create_builtins s) in *.
  assert (Eliq: forall st, liq_of K SO d st = p_liqs (pool_at st k)) by (intros st; apply (liq_of_single K Kcodes SO LD_inj); exact Hk).
  assert (F1: frame_fp s1 = frame_fp s) by apply frame_create_builtins.
  assert (T1: sorted_txs s1 = sorted_txs s) by (apply txs_same, frame_fp_txs; exact F1).
  assert (C1: s_coins s1 = s_coins s) by apply coins_create_builtins.
  assert (N1: s_network s1 = s_network s /\ s_height s1 = s_height s) by (unfold frame_fp, frame in F1; split; congruence).
  destruct N1 as [En1 Eh1].
  destruct (before_withdrawals K Kcodes SO s1 s2 s3 H2 H3) as (T3 & Hdw & S13); rewrite ?T1, ?C1; try assumption.
  { unfold legacy_net. rewrite En1, Eh1. exact Hleg. }
  { apply Hsat. exact H2. }
  pose proof (S13 d) as S. unfold settles in S. rewrite !Eliq in S.
  assert (P1: pool_at s1 k = p1) by (unfold pool_at; rewrite E1; reflexivity).
  assert (P3: pool_at s3 k = p3) by (unfold pool_at; rewrite E3; reflexivity).
  rewrite P1, P3, C1 in S. pose proof (slack k p1 Hb E1) as Hsl. fold d s1 in Hsl.
  set (ws := txs_for_pool (List.filter (is_withdraw_request SO s3) (sorted_txs s3)) k).
  assert (Hsum: nsum (map (fun t => cd_value (out0 t)) ws) <= coin_supply d (s_coins s3)).
  { apply request_sum_le_supply.
    - unfold ws, txs_for_pool. apply NoDup_map_filter, NoDup_map_filter. rewrite T3, T1. apply key0_of_pairs. exact Hkeys.
    - intros t Ht. unfold ws in Ht. apply in_txs_for_pool in Ht as [Ht Etp]. apply filter_In in Ht as [Hin Hr].
      rewrite T3 in Hin. pose proof (proj2 (proj2 (request_kinds SO s3 t)) Hr) as Ek.
      unfold is_withdraw_request in Hr. apply andb_true_iff in Hr as [Hr Hden]. apply andb_true_iff in Hr as [_ Hc].
      rewrite Etp in Hden. destruct (get_pool s3 k); [|discriminate]. apply denom_eqb_eq in Hden.
      unfold has_coin in Hc. fold (key0 t) in Hc. destruct (s_coins s3 !! key0 t) as [c|] eqn:Ec; [|discriminate].
      destruct (Hdw t c Hin Ek Ec) as [D V].
      rewrite (fix_denom_id t (cd_denom (out0 t))) in D by (rewrite Hden; discriminate).
      exists c. split; [reflexivity|]. split; [rewrite D; exact Hden|exact V]. }
  pose proof (sat_sum_le (map (fun t => cd_value (out0 t)) ws)). fold ws. lia.
Qed.

Lemma named_in_K k : named s k -> In k K.
Proof. intros [Hb|(t & Ht & E)]; [apply builtin_in_K; exact Hb|apply (Hcover t k Ht E)]. Qed.

(* sealing is total on every state that satisfies C20's invariant and C16's invariant (live built-in pools, backed
   with room to spare), under the side conditions of the conservation theorems and the two bounds *)
Theorem seal_total_from_invariants :
  Good s ->
  (forall k p, builtin k -> get_pool s k = Some p -> live p) ->
  (s_height s - TIP_909_HEIGHT) / 1000000 < 128 ->
  (forall s1 sm, preseal_melmint SO s = Ok s1 -> get_pool s1 MS = Some sm -> s_fee_pool s + p_lefts sm + s_tips s < U128) ->
  forall a, exists s', seal SO s a = Ok s'.
Proof.
  intros G L Hh Hf. apply (seal_total SO s); try assumption.
  - intros k1 k2 H1 H2 E. apply (K_code_inj K Kcodes); [apply named_in_K; exact H1|apply named_in_K; exact H2|exact E].
  - exact wd_ok_from_backing.
Qed.
End FromBacking.

(* What sealing does NOT touch: network, height, history, transaction set, fee multiplier, tips,
   DOSC speed, stakes (and, outside TIP-909 and the proposer action, the fee pool). *)
From MelVerif Require Import STF.Proofs.Tactics.
Open Scope N_scope.

Definition frame (s : wstate) :=
  (s_network s, s_height s, s_history s, s_txs s, s_fee_mult s, s_tips s, s_dosc_speed s, s_stakes s).
Definition frame_fp (s : wstate) := (frame s, s_fee_pool s).

Lemma frame_fp_frame a b : frame_fp a = frame_fp b -> frame a = frame b.
Proof. unfold frame_fp. congruence. Qed.

Lemma tip_cond_frame a b act : frame a = frame b -> tip_condition a act = tip_condition b act.
Proof. unfold frame, tip_condition. intros H. injection H as -> -> _ _ _ _ _ _. reflexivity. Qed.

Lemma frame_put_pool s k p : frame_fp (put_pool s k p) = frame_fp s.
Proof. reflexivity. Qed.
Lemma frame_put_coin s k c : frame_fp (put_coin s k c) = frame_fp s.
Proof. reflexivity. Qed.
Lemma frame_del_coin s k s' : del_coin s k = Ok s' -> frame_fp s' = frame_fp s.
Proof. unfold del_coin. intros H. inv_bind H as cn Hcn. injection H as <-. reflexivity. Qed.

Section Melmint.
Variable SO : stf_oracle.

Lemma frame_create_builtins s : frame_fp (create_builtins s) = frame_fp s.
Proof.
  unfold create_builtins.
  repeat match goal with
         | |- context [match get_pool ?s ?k with _ => _ end] => destruct (get_pool s k)
         | |- context [if ?b then _ else _] => destruct b
         end; reflexivity.
Qed.

Lemma frame_for_pools f :
  (forall k s txs s', f k s txs = Ok s' -> frame_fp s' = frame_fp s) ->
  forall reqs keys s s', for_pools f reqs keys s = Ok s' -> frame_fp s' = frame_fp s.
Proof.
  intros Hf reqs keys. induction keys as [|k r IH]; intros s s' H; cbn [for_pools] in H.
  - injection H as <-. reflexivity.
  - inv_bind H as s1 H1. rewrite (IH _ _ H). eapply Hf; eauto.
Qed.

Lemma frame_swaps_go k lw rw tl tr : forall l s, frame_fp (swaps_go k lw rw tl tr l s) = frame_fp s.
Proof. induction l as [|t rest IH]; intros s; cbn [swaps_go]; [reflexivity|]. rewrite IH. reflexivity. Qed.

Lemma frame_swaps_single k s txs s' : swaps_single_pool k s txs = Ok s' -> frame_fp s' = frame_fp s.
Proof.
  unfold swaps_single_pool. destruct (get_pool s k) as [p|]; [|discriminate].
  intros H. inv_bind H as r Hr. destruct r as [[p' lw] rw]. injection H as <-.
  rewrite frame_put_pool. apply frame_swaps_go.
Qed.

Lemma frame_process_swaps s s' : process_swaps s = Ok s' -> frame_fp s' = frame_fp s.
Proof. unfold process_swaps. apply frame_for_pools. apply frame_swaps_single. Qed.

Lemma frame_deposits_go k tl tm : forall l left s s',
  deposits_go SO k tl tm l left s = Ok s' -> frame_fp s' = frame_fp s.
Proof.
  induction l as [|t rest IH]; intros left s s' H; cbn [deposits_go] in H.
  - injection H as <-. reflexivity.
  - inv_bind H as s2 H2. rewrite (IH _ _ _ H).
    destruct (legacy_net s && (s_height s <? 978392)).
    + injection H2 as <-. reflexivity.
    + apply frame_del_coin in H2. rewrite H2. reflexivity.
Qed.

Lemma frame_deposits_single k s txs s' : deposits_single_pool SO k s txs = Ok s' -> frame_fp s' = frame_fp s.
Proof.
  unfold deposits_single_pool. intros H. inv_bind H as pl Hpl. destruct pl as [p' total_liqs].
  apply frame_deposits_go in H. rewrite H. reflexivity.
Qed.

Lemma frame_process_deposits s s' : process_deposits SO s = Ok s' -> frame_fp s' = frame_fp s.
Proof. unfold process_deposits. apply frame_for_pools. apply frame_deposits_single. Qed.

Lemma frame_withdrawals_go k tl tr total : forall l s, frame_fp (withdrawals_go k tl tr total l s) = frame_fp s.
Proof. induction l as [|t rest IH]; intros s; cbn [withdrawals_go]; [reflexivity|]. rewrite IH. reflexivity. Qed.

Lemma frame_withdrawals_single k s txs s' : withdrawals_single_pool k s txs = Ok s' -> frame_fp s' = frame_fp s.
Proof.
  unfold withdrawals_single_pool. destruct (get_pool s k) as [p|]; [|discriminate].
  destruct ((p_liqs p =? 0) || (p_liqs p <? sat_sum (map (fun t => cd_value (out0 t)) txs))).
  { intros H. injection H as <-. reflexivity. }
  intros H. inv_bind H as r Hr. destruct r as [[p' tl] tr]. injection H as <-.
  rewrite frame_withdrawals_go. reflexivity.
Qed.

Lemma frame_process_withdrawals s s' : process_withdrawals SO s = Ok s' -> frame_fp s' = frame_fp s.
Proof. unfold process_withdrawals. apply frame_for_pools. apply frame_withdrawals_single. Qed.

Lemma frame_process_pegging s s' : process_pegging s = Ok s' -> frame_fp s' = frame_fp s.
Proof.
  unfold process_pegging. destruct (get_pool s (poolkey_new Mel Sym)); [|discriminate].
  intros H. inv_bind H as x Hx. destruct x as [xn xd].
  match type of H with (if ?c then _ else _) = _ => destruct c end; [discriminate|].
  inv_bind H as sm1 H1. inv_bind H as sm2 H2. injection H as <-. reflexivity.
Qed.

Lemma frame_preseal s s' : preseal_melmint SO s = Ok s' -> frame_fp s' = frame_fp s.
Proof.
  unfold preseal_melmint. intros H.
  inv_bind H as s1 H1. inv_bind H as s2 H2. inv_bind H as s3 H3.
  rewrite (frame_process_pegging _ _ H), (frame_process_withdrawals _ _ H3),
          (frame_process_deposits _ _ H2), (frame_process_swaps _ _ H1).
  apply frame_create_builtins.
Qed.

Lemma frame_tip909 s s' : apply_tip_909 s = Ok s' -> frame s' = frame s.
Proof.
  unfold apply_tip_909. destruct (128 <=? _); [discriminate|].
  destruct (get_pool s (poolkey_new Mel Sym)); [|discriminate].
  intros H. inv_bind H as r Hr. destruct r as [[sm' mel] x].
  inv_bind H as fp Hfp.
  match type of H with context [get_pool ?st ?k] => destruct (get_pool st k) end; [|discriminate].
  inv_bind H as r2 Hr2. injection H as <-. reflexivity.
Qed.

(* seal: everything in the frame is preserved except the multiplier (moved by the action) and the tips
   (swept by the action) *)
Theorem seal_frame s a s' :
  seal SO s a = Ok s' ->
  s_network s' = s_network s /\ s_height s' = s_height s /\ s_history s' = s_history s /\
  s_txs s' = s_txs s /\ s_dosc_speed s' = s_dosc_speed s /\ s_stakes s' = s_stakes s /\
  s_fee_mult s' = match a with
                  | None => s_fee_mult s
                  | Some act => move_fee_multiplier (tip_901 s) (s_fee_mult s) (a_delta act)
                  end /\
  s_tips s' = match a with None => s_tips s | Some _ => 0 end.
Proof.
  unfold seal. intros H. inv_bind H as s1 H1. apply frame_preseal, frame_fp_frame in H1.
  destruct (negb (pool_count_ok s1)); [discriminate|].
  inv_bind H as s2 H2.
  assert (F2: frame s2 = frame s).
  { destruct (tip_909 s1); [apply frame_tip909 in H2; congruence|injection H2 as <-; exact H1]. }
  assert (T: tip_901 s2 = tip_901 s) by (apply tip_cond_frame; exact F2).
  unfold frame in F2. injection F2 as E1 E2 E3 E4 E5 E6 E7 E8.
  destruct a as [act|].
  - unfold collect_proposer_fee in H. inv_bind H as v Hv. injection H as <-.
    unfold put_coin. cbn [s_network s_height s_history s_txs s_dosc_speed s_stakes s_fee_mult s_tips set_coins set_fees set_mult].
    rewrite T, E1, E2, E3, E4, E5, E7, E8. tauto.
  - injection H as <-. rewrite E1, E2, E3, E4, E5, E6, E7, E8. tauto.
Qed.
Corollary seal_fee_mult s a s' : seal SO s a = Ok s' ->
  s_fee_mult s' = match a with
                  | None => s_fee_mult s
                  | Some act => move_fee_multiplier (tip_901 s) (s_fee_mult s) (a_delta act)
                  end.
Proof. intros H. apply seal_frame in H. tauto. Qed.
Corollary seal_stakes s a s' : seal SO s a = Ok s' -> s_stakes s' = s_stakes s.
Proof. intros H. apply seal_frame in H. tauto. Qed.
Corollary seal_speed s a s' : seal SO s a = Ok s' -> s_dosc_speed s' = s_dosc_speed s.
Proof. intros H. apply seal_frame in H. tauto. Qed.
Corollary seal_action_clears_tips s act s' : seal SO s (Some act) = Ok s' -> s_tips s' = 0.
Proof. intros H. apply seal_frame in H. tauto. Qed.
Corollary seal_none_keeps_tips s s' : seal SO s None = Ok s' -> s_tips s' = s_tips s.
Proof. intros H. apply seal_frame in H. tauto. Qed.
End Melmint.

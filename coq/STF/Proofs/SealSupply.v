(* C01 / C15 / C16 at sealing, one pool and one phase at a time: the reserves of a pool move by exactly the
   amounts taken from or paid into the coins of its requests (never by less than what is paid out), and
   liquidity tokens are minted / burnt against the recorded liquidity. *)
From MelVerif Require Import STF.Proofs.Tactics STF.Proofs.MapLemmas STF.Proofs.Frame STF.Proofs.Stakes
  STF.Proofs.Faucet STF.Proofs.Coins STF.Proofs.Supply STF.Proofs.Fees STF.Proofs.Pool STF.Proofs.SealCoins STF.Proofs.Perm
  STF.Proofs.HashFacts STF.Proofs.BatchSupply.
From Coq Require Import ZifyN ZifyNat ZifyBool.
Open Scope N_scope.

(* ---- overwriting coins *)
Lemma coin_supply_overwrite d k c (m : gmap N cdh) :
  coin_supply d (<[k := c]> m) + vopt d (m !! k) = coin_supply d m + val d c.
Proof.
  destruct (m !! k) as [c0|] eqn:E; cbn [vopt].
  - rewrite <- (insert_delete_insert m k c).
    rewrite coin_supply_insert_fresh by apply lookup_delete.
    rewrite (coin_supply_delete d k c0 m E). unfold val. lia.
  - rewrite coin_supply_insert_fresh by exact E. unfold val. lia.
Qed.

Lemma coin_supply_ins_all_exact d : forall (L : list (N * cdh)) m, NoDup (map fst L) ->
  coin_supply d (ins_all L m) + nsum (map (fun kv => vopt d (m !! fst kv)) L)
  = coin_supply d m + nsum (map (fun kv => val d (snd kv)) L).
Proof.
  induction L as [|[k c] L IH]; intros m Hnd; cbn [ins_all fold_left map nsum fst snd]; [lia|].
  fold (ins_all L (<[k := c]> m)).
  cbn [map fst] in Hnd. inversion Hnd as [|? ? Hni Hnd']; subst.
  specialize (IH (<[k := c]> m) Hnd').
  assert (E: map (fun kv => vopt d (<[k := c]> m !! fst kv)) L = map (fun kv => vopt d (m !! fst kv)) L).
  { apply map_ext_in. intros [k' c'] Hin. cbn [fst]. rewrite lookup_insert_ne; [reflexivity|].
    intros ->. apply Hni. apply (in_map fst) in Hin. exact Hin. }
  rewrite E in IH. pose proof (coin_supply_overwrite d k c m). lia.
Qed.

Lemma fold_right_nsum (l : list N) : fold_right N.add 0 l = nsum l.
Proof. induction l as [|x l IH]; cbn [fold_right nsum]; [reflexivity|rewrite IH; reflexivity]. Qed.
Lemma sat_sum_nsum l : nsum l < U128 -> sat_sum l = nsum l.
Proof.
  intros H. unfold sat_sum. rewrite sat_add_fold_closed by (unfold MAX128; lia).
  rewrite fold_right_nsum. unfold MAX128, U128 in *. lia.
Qed.
Lemma sat_sum_le l : sat_sum l <= nsum l.
Proof.
  unfold sat_sum. rewrite sat_add_fold_closed by (unfold MAX128; lia).
  rewrite fold_right_nsum. lia.
Qed.

Lemma pools_put_coin s k c : s_pools (put_coin s k c) = s_pools s.
Proof. reflexivity. Qed.
Lemma height_put_coin s k c : s_height (put_coin s k c) = s_height s.
Proof. reflexivity. Qed.
Lemma coins_put_coin_eq s k c : s_coins (put_coin s k c) = <[k := c]> (s_coins s).
Proof. unfold put_coin. cbn [s_coins set_coins]. rewrite insert_coin_fst. reflexivity. Qed.

(* what side d of pool k holds *)
Definition side (d : denom) (k : denom * denom) (p : pool) : N :=
  (if denom_eqb d (fst k) then p_lefts p else 0) + (if denom_eqb d (snd k) then p_rights p else 0).

(* the coin at output 0 of a request is the one the transaction declared *)
Definition declared0 (s : wstate) (t : tx) : Prop :=
  exists c, s_coins s !! key0 t = Some c /\ cd_denom (c_data c) = cd_denom (out0 t) /\ cd_value (c_data c) = cd_value (out0 t).

Section Swaps.
Variable k : denom * denom.
Hypothesis Hsides : fst k <> snd k.

Definition swap_coin (lw rw tl tr h : N) (t : tx) : cdh :=
  let o := out0 t in
  let nv := if denom_eqb (cd_denom o) (fst k)
            then (snd k, N.min (multiply_ratio rw (cd_value o) tl) MAX_COINVAL)
            else (fst k, N.min (multiply_ratio lw (cd_value o) tr) MAX_COINVAL) in
  {| c_data := {| cd_covhash := cd_covhash o; cd_value := snd nv; cd_denom := fst nv; cd_extra := cd_extra o |};
     c_height := h |}.

Lemma swaps_go_state lw rw tl tr : forall l s,
  s_coins (swaps_go k lw rw tl tr l s) = ins_all (map (fun t => (key0 t, swap_coin lw rw tl tr (s_height s) t)) l) (s_coins s)
  /\ s_pools (swaps_go k lw rw tl tr l s) = s_pools s.
Proof.
  induction l as [|t l IH]; intros s; cbn [swaps_go map ins_all fold_left]; [auto|].
  match goal with |- context [swaps_go k lw rw tl tr l ?s1] => destruct (IH s1) as [E1 E2]; rewrite E1, E2 end.
  rewrite height_put_coin, coins_put_coin_eq, pools_put_coin. split; reflexivity.
Qed.

Definition gives (d : denom) (t : tx) : N := if denom_eqb (cd_denom (out0 t)) d then cd_value (out0 t) else 0.

Lemma swap_total_gives d l : swap_total d l = sat_sum (map (gives d) l).
Proof. reflexivity. Qed.

Theorem swaps_single_pool_conserves s swaps s' :
  swaps_single_pool k s swaps = Ok s' ->
  NoDup (map key0 swaps) ->
  (forall t, In t swaps -> declared0 s t /\ (cd_denom (out0 t) = fst k \/ cd_denom (out0 t) = snd k)) ->
  nsum (map (fun t => cd_value (out0 t)) swaps) < U128 ->
  exists p p', get_pool s k = Some p /\ s_pools s' = <[poolkey_code k := p']> (s_pools s) /\
    p_liqs p' = p_liqs p /\
    forall d, coin_supply d (s_coins s') + side d k p' <= coin_supply d (s_coins s) + side d k p.
Proof.
  unfold swaps_single_pool. intros H Hnd Hdecl Hsum.
  destruct (get_pool s k) as [p|] eqn:Ep; [|discriminate].
  inv_bind H as r Hr. destruct r as [[p' lw] rw]. injection H as <-.
  destruct (swaps_go_state lw rw (swap_total (fst k) swaps) (swap_total (snd k) swaps) swaps s) as [Ec Epl].
  exists p, p'. split; [reflexivity|]. split; [cbn [s_pools put_pool set_pools]; rewrite Epl; reflexivity|].
  (* invert the pool arithmetic *)
  set (tl := swap_total (fst k) swaps) in *. set (tr := swap_total (snd k) swaps) in *.
  unfold swap_many in Hr.
  destruct (sat_add128 (p_rights p) tr =? 0); [discriminate|].
  destruct (sat_add128 (p_lefts p) tl =? 0); [discriminate|].
  set (L := sat_add128 (p_lefts p) tl) in *. set (R := sat_add128 (p_rights p) tr) in *.
  destruct (N.ltb_spec L (to_u128_sat (tr * L * 995 / (R * 1000)))) as [|HL]; [discriminate|].
  destruct (N.ltb_spec R (to_u128_sat (tl * R * 995 / (L * 1000)))) as [|HR]; [discriminate|].
  destruct (R - to_u128_sat (tl * R * 995 / (L * 1000)) =? 0); [discriminate|].
  injection Hr as <- <- <-. split; [reflexivity|].
  set (lw := to_u128_sat (tr * L * 995 / (R * 1000))) in *. set (rw := to_u128_sat (tl * R * 995 / (L * 1000))) in *.
  assert (Hlw: lw < U128) by (unfold lw, to_u128_sat; destruct (N.ltb_spec (tr * L * 995 / (R * 1000)) U128); unfold MAX128, U128 in *; lia).
  assert (Hrw: rw < U128) by (unfold rw, to_u128_sat; destruct (N.ltb_spec (tl * R * 995 / (L * 1000)) U128); unfold MAX128, U128 in *; lia).
  (* totals *)
  assert (Hg: forall d, nsum (map (gives d) swaps) <= nsum (map (fun t => cd_value (out0 t)) swaps)).
  { intros d. clear. induction swaps as [|t l IH]; cbn [map nsum]; [lia|]. unfold gives at 1. destruct (denom_eqb _ d); lia. }
  assert (Etl: tl = nsum (map (gives (fst k)) swaps)).
  { unfold tl. rewrite swap_total_gives. apply sat_sum_nsum. specialize (Hg (fst k)). lia. }
  assert (Etr: tr = nsum (map (gives (snd k)) swaps)).
  { unfold tr. rewrite swap_total_gives. apply sat_sum_nsum. specialize (Hg (snd k)). lia. }
  intros d.
  cbn [s_coins put_pool set_pools]. rewrite Ec.
  set (Lst := map (fun t => (key0 t, swap_coin lw rw tl tr (s_height s) t)) swaps).
  assert (HndL: NoDup (map fst Lst)) by (unfold Lst; rewrite map_map; exact Hnd).
  pose proof (coin_supply_ins_all_exact d Lst (s_coins s) HndL) as Hex.
  (* the coins taken *)
  assert (Hold: nsum (map (fun kv => vopt d (s_coins s !! fst kv)) Lst) = nsum (map (gives d) swaps)).
  { unfold Lst. rewrite map_map. f_equal. apply map_ext_in. intros t Ht. cbn [fst].
    destruct (Hdecl t Ht) as [(c & Ec0 & Ed & Ev) _]. rewrite Ec0. cbn [vopt]. unfold val, gives. rewrite Ed, Ev. reflexivity. }
  (* the coins paid *)
  assert (Hnew: nsum (map (fun kv => val d (snd kv)) Lst)
                <= (if denom_eqb d (fst k) then lw else 0) + (if denom_eqb d (snd k) then rw else 0)).
  { unfold Lst. rewrite map_map. cbn [snd].
    (* left coins go to those who gave right, right coins to those who gave left *)
    assert (Hpt: forall t, In t swaps ->
              val d (swap_coin lw rw tl tr (s_height s) t)
              <= (if denom_eqb d (fst k) then multiply_ratio lw (gives (snd k) t) tr else 0)
                 + (if denom_eqb d (snd k) then multiply_ratio rw (gives (fst k) t) tl else 0)).
    { intros t Ht. destruct (Hdecl t Ht) as [_ Hden]. unfold val, swap_coin, gives. cbn [c_data cd_denom cd_value fst snd].
      destruct (denom_eqb (cd_denom (out0 t)) (fst k)) eqn:E1.
      - cbn [fst snd]. apply denom_eqb_eq in E1.
        assert (E2: denom_eqb (cd_denom (out0 t)) (snd k) = false).
        { apply not_true_iff_false. intros E2. apply denom_eqb_eq in E2. congruence. }
        rewrite E2. rewrite (denom_eqb_sym (snd k) d).
        destruct (denom_eqb d (snd k)); [|lia]. destruct (denom_eqb d (fst k)); lia.
      - cbn [fst snd]. assert (E2: denom_eqb (cd_denom (out0 t)) (snd k) = true).
        { destruct Hden as [E|E]; [rewrite E, denom_eqb_refl in E1; discriminate|rewrite E; apply denom_eqb_refl]. }
        rewrite E2. rewrite (denom_eqb_sym (fst k) d).
        destruct (denom_eqb d (fst k)); [|lia]. destruct (denom_eqb d (snd k)); lia. }
    etransitivity; [apply (nsum_le_pointwise _ _ swaps Hpt)|].
    rewrite nsum_add_pointwise.
    assert (A1: nsum (map (fun t => if denom_eqb d (fst k) then multiply_ratio lw (gives (snd k) t) tr else 0) swaps)
                <= if denom_eqb d (fst k) then lw else 0).
    { destruct (denom_eqb d (fst k)).
      - rewrite <- (map_map (gives (snd k)) (fun v => multiply_ratio lw v tr)). apply prorata_sum_le; [exact Hlw|lia].
      - clear. induction swaps as [|t l IH]; cbn [map nsum]; lia. }
    assert (A2: nsum (map (fun t => if denom_eqb d (snd k) then multiply_ratio rw (gives (fst k) t) tl else 0) swaps)
                <= if denom_eqb d (snd k) then rw else 0).
    { destruct (denom_eqb d (snd k)).
      - rewrite <- (map_map (gives (fst k)) (fun v => multiply_ratio rw v tl)). apply prorata_sum_le; [exact Hrw|lia].
      - clear. induction swaps as [|t l IH]; cbn [map nsum]; lia. }
    lia. }
  rewrite Hold in Hex.
  (* the reserves *)
  unfold side. cbn [p_lefts p_rights].
  assert (HLle: L <= p_lefts p + tl) by (unfold L; apply sat_add128_le).
  assert (HRle: R <= p_rights p + tr) by (unfold R; apply sat_add128_le).
  destruct (denom_eqb d (fst k)) eqn:D1; destruct (denom_eqb d (snd k)) eqn:D2.
  - exfalso. apply denom_eqb_eq in D1, D2. congruence.
  - apply denom_eqb_eq in D1. subst d. rewrite <- Etl in Hex. lia.
  - apply denom_eqb_eq in D2. subst d. rewrite <- Etr in Hex. lia.
  - assert (nsum (map (gives d) swaps) = 0).
    { assert (G: forall t, In t swaps -> gives d t = 0).
      { intros t Ht. destruct (Hdecl t Ht) as [_ [E|E]]; unfold gives; rewrite E.
        - rewrite denom_eqb_sym, D1. reflexivity.
        - rewrite denom_eqb_sym, D2. reflexivity. }
      clear - G. induction swaps as [|t l IH]; cbn [map nsum]; [reflexivity|].
      rewrite (G t (or_introl eq_refl)), IH; [reflexivity|]. intros t' Ht'. apply G. right. exact Ht'. }
    lia.
Qed.
End Swaps.

Section Withdrawals.
Variable SO : stf_oracle.
Variable k : denom * denom.
Hypothesis Hsides : fst k <> snd k.
Let LD : denom := Custom (so_liq_denom SO (poolkey_code k)).
Hypothesis HLD1 : LD <> fst k.
Hypothesis HLD2 : LD <> snd k.

Definition wd_coin (d : denom) (x total h : N) (t : tx) : cdh :=
  let o := out0 t in
  {| c_data := {| cd_covhash := cd_covhash o; cd_value := multiply_ratio x (cd_value o) total; cd_denom := d; cd_extra := cd_extra o |};
     c_height := h |}.

Lemma withdrawals_go_state tleft tright total : forall l s,
  s_coins (withdrawals_go k tleft tright total l s)
  = ins_all (flat_map (fun t => [(key0 t, wd_coin (fst k) tleft total (s_height s) t);
                                 (key1 t, wd_coin (snd k) tright total (s_height s) t)]) l) (s_coins s)
  /\ s_pools (withdrawals_go k tleft tright total l s) = s_pools s.
Proof.
  induction l as [|t l IH]; intros s; cbn [withdrawals_go flat_map]; [auto|].
  match goal with |- context [withdrawals_go k tleft tright total l ?s1] => destruct (IH s1) as [E1 E2]; rewrite E1, E2 end.
  rewrite !height_put_coin, !coins_put_coin_eq, !pools_put_coin. split; reflexivity.
Qed.

Theorem withdrawals_single_pool_conserves s ws s' p :
  withdrawals_single_pool k s ws = Ok s' ->
  get_pool s k = Some p -> p_lefts p < U128 -> p_rights p < U128 ->
  NoDup (flat_map (fun t => [key0 t; key1 t]) ws) ->
  (forall t, In t ws -> declared0 s t /\ cd_denom (out0 t) = LD) ->
  nsum (map (fun t => cd_value (out0 t)) ws) < U128 ->
  exists p', ((s' = s /\ p' = p) \/ s_pools s' = <[poolkey_code k := p']> (s_pools s)) /\
    (forall d, d <> LD -> coin_supply d (s_coins s') + side d k p' <= coin_supply d (s_coins s) + side d k p) /\
    coin_supply LD (s_coins s') + p_liqs p <= coin_supply LD (s_coins s) + p_liqs p'.
Proof.
  unfold withdrawals_single_pool. intros H Ep HpL HpR Hnd Hdecl Hsum. rewrite Ep in H.
  set (total := sat_sum (map (fun t => cd_value (out0 t)) ws)) in *.
  assert (Etot: total = nsum (map (fun t => cd_value (out0 t)) ws)) by (apply sat_sum_nsum; exact Hsum).
  destruct ((p_liqs p =? 0) || (p_liqs p <? total)) eqn:Eg.
  { injection H as <-. exists p. split; [left; auto|]. split; [intros; lia|lia]. }
  apply orb_false_iff in Eg as [Eg1 Eg2]. apply N.eqb_neq in Eg1. apply N.ltb_ge in Eg2.
  inv_bind H as r Hr. destruct r as [[p' tleft] tright]. injection H as <-.
  destruct (withdrawals_go_state tleft tright total ws (put_pool s k p')) as [Ec Epl].
  exists p'. split; [right; rewrite Epl; reflexivity|].
  (* the pool arithmetic *)
  destruct (pool_withdraw_spec p total Eg2 ltac:(lia)) as (p2 & a & b & Hw & El & EL & ER & HaL & HbR & _).
  rewrite Hw in Hr. injection Hr as <- <- <-.
  change (s_height (put_pool s k p2)) with (s_height s) in Ec. change (s_coins (put_pool s k p2)) with (s_coins s) in Ec.
  set (Lst := flat_map (fun t => [(key0 t, wd_coin (fst k) a total (s_height s) t); (key1 t, wd_coin (snd k) b total (s_height s) t)]) ws) in *.
  assert (HndL: NoDup (map fst Lst)).
  { unfold Lst. clear - Hnd. induction ws as [|t l IH]; cbn [flat_map map app fst] in *; [constructor|].
    inversion Hnd as [|? ? N1 Hnd1]; subst. inversion Hnd1 as [|? ? N2 Hnd2]; subst.
    assert (E: forall l0, map fst (flat_map (fun t => [(key0 t, wd_coin (fst k) a total (s_height s) t); (key1 t, wd_coin (snd k) b total (s_height s) t)]) l0)
                          = flat_map (fun t => [key0 t; key1 t]) l0).
    { induction l0 as [|t0 l0 IH0]; cbn [flat_map map app fst]; [reflexivity|]. rewrite IH0. reflexivity. }
    rewrite E. constructor; [exact N1|]. constructor; [exact N2|exact Hnd2]. }
  assert (Hval: forall d, nsum (map (fun kv => val d (snd kv)) Lst)
                 <= (if denom_eqb d (fst k) then a else 0) + (if denom_eqb d (snd k) then b else 0)).
  { intros d. unfold Lst. rewrite nsum_flat_map.
    assert (Hpt: forall t, In t ws ->
       nsum (map (fun kv : N * cdh => val d (snd kv)) [(key0 t, wd_coin (fst k) a total (s_height s) t); (key1 t, wd_coin (snd k) b total (s_height s) t)])
       <= (if denom_eqb d (fst k) then multiply_ratio a (cd_value (out0 t)) total else 0)
          + (if denom_eqb d (snd k) then multiply_ratio b (cd_value (out0 t)) total else 0)).
    { intros t _. cbn [map nsum snd]. unfold val, wd_coin. cbn [c_data cd_denom cd_value].
      rewrite (denom_eqb_sym (fst k) d), (denom_eqb_sym (snd k) d).
      destruct (denom_eqb d (fst k)), (denom_eqb d (snd k)); lia. }
    etransitivity; [apply (nsum_le_pointwise _ _ ws Hpt)|]. rewrite nsum_add_pointwise.
    assert (A1: nsum (map (fun t => if denom_eqb d (fst k) then multiply_ratio a (cd_value (out0 t)) total else 0) ws)
                <= if denom_eqb d (fst k) then a else 0).
    { destruct (denom_eqb d (fst k)).
      - rewrite <- (map_map (fun t => cd_value (out0 t)) (fun v => multiply_ratio a v total)). apply prorata_sum_le; lia.
      - clear. induction ws as [|t l IH]; cbn [map nsum]; lia. }
    assert (A2: nsum (map (fun t => if denom_eqb d (snd k) then multiply_ratio b (cd_value (out0 t)) total else 0) ws)
                <= if denom_eqb d (snd k) then b else 0).
    { destruct (denom_eqb d (snd k)).
      - rewrite <- (map_map (fun t => cd_value (out0 t)) (fun v => multiply_ratio b v total)). apply prorata_sum_le; lia.
      - clear. induction ws as [|t l IH]; cbn [map nsum]; lia. }
    lia. }
  assert (Hold: nsum (map (fun t => cd_value (out0 t)) ws) <= nsum (map (fun kv => vopt LD (s_coins s !! fst kv)) Lst)).
  { unfold Lst. rewrite nsum_flat_map. apply nsum_le_pointwise. intros t Ht. cbn [map nsum fst].
    destruct (Hdecl t Ht) as [(c & Ec0 & Ed & Ev) ELD]. rewrite Ec0. cbn [vopt]. unfold val. rewrite Ed, ELD, denom_eqb_refl, Ev. lia. }
  split.
  - intros d Hd. cbn [s_coins]. rewrite Ec.
    pose proof (coin_supply_ins_all_exact d Lst (s_coins s) HndL) as Hex. specialize (Hval d).
    unfold side. rewrite EL, ER. destruct (denom_eqb d (fst k)), (denom_eqb d (snd k)); lia.
  - rewrite Ec. pose proof (coin_supply_ins_all_exact LD Lst (s_coins s) HndL) as Hex. specialize (Hval LD).
    assert (F1: denom_eqb LD (fst k) = false) by (apply not_true_iff_false; intros E; apply denom_eqb_eq in E; contradiction).
    assert (F2: denom_eqb LD (snd k) = false) by (apply not_true_iff_false; intros E; apply denom_eqb_eq in E; contradiction).
    rewrite F1, F2 in Hval. lia.
Qed.
End Withdrawals.

Definition key_pairs (l : list tx) : list N := flat_map (fun t => [key0 t; key1 t]) l.
Definition declared1 (s : wstate) (t : tx) : Prop :=
  exists c, s_coins s !! key1 t = Some c /\ cd_denom (c_data c) = cd_denom (out1 t) /\ cd_value (c_data c) = cd_value (out1 t).

Lemma del_coin_state s k s' : del_coin s k = Ok s' ->
  s_coins s' = delete k (s_coins s) /\ s_pools s' = s_pools s /\ s_height s' = s_height s /\ s_network s' = s_network s.
Proof.
  unfold del_coin. intros H. inv_bind H as cn Hcn. injection H as <-. cbn [s_coins s_pools s_height s_network set_coins].
  split; [|auto]. unfold remove_coin in Hcn.
  destruct (tip_906 s); [destruct (s_coins s !! k); [destruct (_ =? 0); [discriminate|]|]|]; injection Hcn as <-; reflexivity.
Qed.

Section Deposits.
Variable SO : stf_oracle.
Variable k : denom * denom.
Hypothesis Hsides : fst k <> snd k.
Let LD : denom := Custom (so_liq_denom SO (poolkey_code k)).
Hypothesis HLD1 : LD <> fst k.
Hypothesis HLD2 : LD <> snd k.

Definition my_of (t : tx) : N := sat_mul128 (N.sqrt (cd_value (out0 t))) (N.sqrt (cd_value (out1 t))).

(* what the coins lose and gain in one run of deposits_go *)
Lemma deposits_go_supply tl tm d : forall l left s s',
  deposits_go SO k tl tm l left s = Ok s' ->
  legacy_net s && (s_height s <? 978392) = false ->
  NoDup (key_pairs l) ->
  s_pools s' = s_pools s /\
  coin_supply d (s_coins s') + nsum (map (fun t => vopt d (s_coins s !! key0 t) + vopt d (s_coins s !! key1 t)) l)
  = coin_supply d (s_coins s) + (if denom_eqb LD d then nsum (clamped_shares tl tm (map my_of l) left) else 0).
Proof.
  induction l as [|t l IH]; intros left s s' H Hleg Hnd; cbn [deposits_go] in H.
  - injection H as <-. cbn [map nsum clamped_shares]. split; [reflexivity|]. destruct (denom_eqb LD d); lia.
  - rewrite Hleg in H. inv_bind H as s2 H2.
    cbn [key_pairs flat_map app] in Hnd. inversion Hnd as [|? ? N1 Hnd1]; subst. inversion Hnd1 as [|? ? N2 Hnd2]; subst.
    fold (key_pairs l) in N1, N2, Hnd2.
    apply del_coin_state in H2 as (Ec2 & Ep2 & Eh2 & En2).
    rewrite coins_put_coin_eq in Ec2. rewrite pools_put_coin in Ep2. rewrite height_put_coin in Eh2.
    assert (Hleg2: legacy_net s2 && (s_height s2 <? 978392) = false) by (unfold legacy_net; rewrite En2, Eh2; exact Hleg).
    destruct (IH _ _ _ H Hleg2 Hnd2) as [Ep IHs]. split; [congruence|].
    fold (my_of t) in IHs, Ec2 |- *. fold (key0 t) (key1 t) in Ec2.
    set (v := N.min (multiply_ratio tl (my_of t) tm) left) in *.
    cbn [map nsum clamped_shares]. fold v.
    assert (K01: key0 t <> key1 t) by (intros E; apply N1; left; symmetry; exact E).
    (* lookups of the remaining keys are not affected by this step *)
    assert (E: map (fun t0 => vopt d (s_coins s2 !! key0 t0) + vopt d (s_coins s2 !! key1 t0)) l
             = map (fun t0 => vopt d (s_coins s !! key0 t0) + vopt d (s_coins s !! key1 t0)) l).
    { apply map_ext_in. intros t0 Ht0. rewrite Ec2.
      assert (In (key0 t0) (key_pairs l) /\ In (key1 t0) (key_pairs l)) as [I0 I1].
      { unfold key_pairs. split; apply in_flat_map; exists t0; (split; [exact Ht0|cbn; auto]). }
      assert (A1: key0 t0 <> key0 t) by (intros E; apply N1; right; rewrite <- E; exact I0).
      assert (A2: key0 t0 <> key1 t) by (intros E; apply N2; rewrite <- E; exact I0).
      assert (A3: key1 t0 <> key0 t) by (intros E; apply N1; right; rewrite <- E; exact I1).
      assert (A4: key1 t0 <> key1 t) by (intros E; apply N2; rewrite <- E; exact I1).
      rewrite !lookup_delete_ne, !lookup_insert_ne by congruence. reflexivity. }
    rewrite E in IHs.
    (* this step *)
    match type of Ec2 with _ = delete _ (<[_ := ?c]> _) => set (c0 := c) in * end.
    pose proof (coin_supply_overwrite d (key0 t) c0 (s_coins s)) as O1.
    assert (O2: coin_supply d (s_coins s2) + vopt d (s_coins s !! key1 t) = coin_supply d (<[key0 t := c0]> (s_coins s))).
    { rewrite Ec2. destruct (s_coins s !! key1 t) as [c1|] eqn:E1; cbn [vopt].
      - rewrite (coin_supply_delete d (key1 t) c1 (<[key0 t := c0]> (s_coins s))); [unfold val; lia|].
        rewrite lookup_insert_ne by exact K01. exact E1.
      - rewrite delete_notin; [lia|]. rewrite lookup_insert_ne by exact K01. exact E1. }
    assert (Vc: val d c0 = if denom_eqb LD d then v else 0).
    { unfold val, c0. cbn [c_data cd_denom cd_value]. fold LD. reflexivity. }
    rewrite Vc in O1. destruct (denom_eqb LD d); lia.
Qed.

Theorem deposits_single_pool_conserves s deps s' :
  deposits_single_pool SO k s deps = Ok s' ->
  legacy_net s && (s_height s <? 978392) = false ->
  NoDup (key_pairs deps) ->
  (forall t, In t deps -> declared0 s t /\ declared1 s t /\ cd_denom (out0 t) = fst k /\ cd_denom (out1 t) = snd k) ->
  nsum (map (fun t => cd_value (out0 t)) deps) < U128 -> nsum (map (fun t => cd_value (out1 t)) deps) < U128 ->
  let p := match get_pool s k with Some p => p | None => new_empty_pool end in
  (* the issued liquidity does not saturate *)
  (forall p'' m, pool_deposit p (nsum (map (fun t => cd_value (out0 t)) deps)) (nsum (map (fun t => cd_value (out1 t)) deps)) = Ok (p'', m) ->
                 p_liqs p + m < U128) ->
  exists p', s_pools s' = <[poolkey_code k := p']> (s_pools s) /\
    (forall d, d <> LD -> coin_supply d (s_coins s') + side d k p' <= coin_supply d (s_coins s) + side d k p) /\
    coin_supply LD (s_coins s') + p_liqs p <= coin_supply LD (s_coins s) + p_liqs p'.
Proof.
  intros H Hleg Hnd Hdecl Hs0 Hs1 p Hnosat. unfold deposits_single_pool in H.
  rewrite (sat_sum_nsum _ Hs0), (sat_sum_nsum _ Hs1) in H.
  set (tl := nsum (map (fun t => cd_value (out0 t)) deps)) in *.
  set (tr := nsum (map (fun t => cd_value (out1 t)) deps)) in *.
  fold p in H. inv_bind H as pl Hpl. destruct pl as [p' total_liqs].
  specialize (Hnosat _ _ Hpl).
  exists p'.
  assert (Hg: forall d, exists Ep, s_pools s' = <[poolkey_code k := p']> (s_pools s) /\ Ep = tt /\
            coin_supply d (s_coins s') + nsum (map (fun t => vopt d (s_coins s !! key0 t) + vopt d (s_coins s !! key1 t)) deps)
            = coin_supply d (s_coins s) + (if denom_eqb LD d then nsum (clamped_shares total_liqs (sat_mul128 (N.sqrt tl) (N.sqrt tr)) (map my_of deps) total_liqs) else 0)).
  { intros d. exists tt. destruct (deposits_go_supply total_liqs (sat_mul128 (N.sqrt tl) (N.sqrt tr)) d deps total_liqs (put_pool s k p') s' H Hleg Hnd) as [Ep Es].
    split; [rewrite Ep; reflexivity|]. split; [reflexivity|exact Es]. }
  split; [destruct (Hg Mel) as (_ & E & _); exact E|].
  (* the pool *)
  assert (Hpool: p_lefts p' <= p_lefts p + tl /\ p_rights p' <= p_rights p + tr /\ p_liqs p' = p_liqs p + total_liqs).
  { unfold pool_deposit in Hpl. destruct (N.eqb_spec (p_liqs p) 0) as [E0|E0].
    - injection Hpl as <- <-. cbn [p_lefts p_rights p_liqs]. rewrite E0. clear. repeat split; lia.
    - destruct (p_lefts p * p_rights p =? 0); [discriminate|]. injection Hpl as <- <-. cbn [p_lefts p_rights p_liqs].
      pose proof (sat_add128_le tl (p_lefts p)). pose proof (sat_add128_le tr (p_rights p)).
      split; [lia|]. split; [lia|]. apply sat_add_small. exact Hnosat. }
  destruct Hpool as (PL & PR & PQ).
  (* what the request coins held *)
  assert (Hold: forall d, nsum (map (fun t => vopt d (s_coins s !! key0 t) + vopt d (s_coins s !! key1 t)) deps)
                = (if denom_eqb d (fst k) then tl else 0) + (if denom_eqb d (snd k) then tr else 0)).
  { intros d. unfold tl, tr. clear - Hdecl Hsides. induction deps as [|t l IH]; cbn [map nsum].
    - destruct (denom_eqb d (fst k)), (denom_eqb d (snd k)); reflexivity.
    - rewrite IH by (intros t' Ht'; apply Hdecl; right; exact Ht').
      destruct (Hdecl t (or_introl eq_refl)) as ((c0 & E0 & D0 & V0) & (c1 & E1 & D1 & V1) & F0 & F1).
      rewrite E0, E1. cbn [vopt]. unfold val. rewrite D0, D1, V0, V1, F0, F1.
      rewrite (denom_eqb_sym (fst k) d), (denom_eqb_sym (snd k) d).
      destruct (denom_eqb d (fst k)), (denom_eqb d (snd k)); lia. }
  split.
  - intros d Hd. destruct (Hg d) as (_ & _ & _ & Es). rewrite Hold in Es.
    assert (F: denom_eqb LD d = false) by (apply not_true_iff_false; intros E; apply denom_eqb_eq in E; congruence).
    rewrite F in Es. unfold side. destruct (denom_eqb d (fst k)), (denom_eqb d (snd k)); lia.
  - destruct (Hg LD) as (_ & _ & _ & Es). rewrite Hold, denom_eqb_refl in Es.
    assert (F1: denom_eqb LD (fst k) = false) by (apply not_true_iff_false; intros E; apply denom_eqb_eq in E; contradiction).
    assert (F2: denom_eqb LD (snd k) = false) by (apply not_true_iff_false; intros E; apply denom_eqb_eq in E; contradiction).
    rewrite F1, F2 in Es.
    pose proof (clamped_shares_le total_liqs (sat_mul128 (N.sqrt tl) (N.sqrt tr)) (map my_of deps) total_liqs). lia.
Qed.
End Deposits.

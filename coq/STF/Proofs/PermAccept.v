(* C03: acceptance and the whole resulting state of a batch do not depend on the order of presentation. *)
From MelVerif Require Import STF.Proofs.Tactics STF.Proofs.MapLemmas STF.Proofs.Stakes STF.Proofs.Faucet
  STF.Proofs.Coins STF.Proofs.Fees STF.Proofs.Counts STF.Proofs.Perm.
From MelVerif Require Import STF.Proofs.HashFacts.
From Coq Require Import ZifyN ZifyNat ZifyBool.
Open Scope N_scope.

Section PermAccept.
Variable SO : stf_oracle.
Variable s : wstate.
Variable lh : header.

(* ---- phase 1: the coins a batch needs *)
Lemma lookup_inputs_complete accum coins : forall ks m,
  (forall k, In k ks -> is_Some (accum !! k) \/ is_Some (coins !! k)) ->
  exists r, lookup_inputs accum coins ks m = Ok r.
Proof.
  induction ks as [|k ks IH]; intros m H; cbn [lookup_inputs]; [eauto|].
  assert (Hr: forall k', In k' ks -> is_Some (accum !! k') \/ is_Some (coins !! k')) by (intros k' Hk'; apply H; right; exact Hk').
  destruct (accum !! k) as [c|] eqn:Ea; [apply IH; exact Hr|].
  destruct (H k (or_introl eq_refl)) as [[c E]|[c E]]; [rewrite Ea in E; discriminate|].
  rewrite E. apply IH. exact Hr.
Qed.

Lemma dup_free_complete : forall ks seen, NoDup ks -> (forall k, In k ks -> seen !! k = None) -> dup_free seen ks = true.
Proof.
  induction ks as [|k ks IH]; intros seen Hnd Hs; cbn [dup_free]; [reflexivity|].
  rewrite (Hs k (or_introl eq_refl)). inversion Hnd as [|? ? Hni Hnd']; subst.
  apply IH; [exact Hnd'|]. intros k' Hk'. rewrite lookup_insert_ne; [apply Hs; right; exact Hk'|].
  intros ->. contradiction.
Qed.

Lemma load_relevant_perm txs1 txs2 r :
  Permutation txs1 txs2 -> consistent (created s txs1) ->
  load_relevant_coins s txs1 = Ok r -> load_relevant_coins s txs2 = Ok r.
Proof.
  intros P Hc H1.
  destruct (load_relevant_coins_spec _ _ _ H1) as (Hwf & Hnd & Hex & _ & _).
  assert (Eo: outputs_map s txs1 = outputs_map s txs2).
  { rewrite !outputs_map_ins_all. apply ins_all_perm; [apply created_perm; exact P|exact Hc]. }
  assert (exists r2, load_relevant_coins s txs2 = Ok r2) as [r2 H2].
  { unfold load_relevant_coins. fold (outputs_map s txs2).
    assert (Hf: forallb (fun t => well_formed t && totals_fit t) txs2 = true).
    { apply forallb_forall. intros t Ht. apply (Permutation_in _ (Permutation_sym P)) in Ht.
      destruct (Hwf t Ht) as [-> ->]. reflexivity. }
    rewrite Hf. cbn [negb].
    destruct (lookup_inputs_complete (outputs_map s txs2) (s_coins s) (all_inputs txs2) ∅) as [ins Hins].
    { intros k Hk. rewrite <- Eo. apply Hex. eapply Permutation_in; [apply Permutation_sym, all_inputs_perm; exact P|exact Hk]. }
    rewrite Hins. cbn [obind].
    rewrite dup_free_complete; [eauto| |intros; apply lookup_empty].
    eapply Permutation_NoDup; [apply all_inputs_perm; exact P|exact Hnd]. }
  rewrite H2. f_equal. symmetry. eapply relevant_perm; eauto.
Qed.

(* ---- phase 2: stakes registered by the batch *)
Definition stake_bindings (txs : list tx) : list (N * stakedoc) :=
  flat_map (fun t => match registers s t with Some d => [(t_hash t, d)] | None => [] end) txs.

Lemma stake_fold_ins_all : forall txs acc, stake_fold s txs acc = ins_all (stake_bindings txs) acc.
Proof.
  induction txs as [|t txs IH]; intros acc; [reflexivity|].
  change (stake_fold s (t :: txs) acc) with (stake_fold s txs (match registers s t with Some d => <[t_hash t := d]> acc | None => acc end)).
  change (stake_bindings (t :: txs)) with ((match registers s t with Some d => [(t_hash t, d)] | None => [] end) ++ stake_bindings txs).
  rewrite ins_all_app, IH. destruct (registers s t); reflexivity.
Qed.

Lemma stake_bindings_consistent txs : NoDup (map t_hash txs) -> consistent (stake_bindings txs).
Proof.
  intros Hnd k v1 v2 H1 H2. unfold stake_bindings in H1, H2.
  apply in_flat_map in H1 as (t1 & Ht1 & H1). apply in_flat_map in H2 as (t2 & Ht2 & H2).
  destruct (registers s t1) as [d1|] eqn:E1; [|contradiction]. destruct (registers s t2) as [d2|] eqn:E2; [|contradiction].
  destruct H1 as [E|[]]. injection E as <- <-. destruct H2 as [E|[]]. injection E as Eh <-.
  assert (t1 = t2) by (eapply hash_inj; eauto).
  subst t2. congruence.
Qed.

Lemma stake_fold_perm txs1 txs2 acc :
  Permutation txs1 txs2 -> NoDup (map t_hash txs1) -> stake_fold s txs1 acc = stake_fold s txs2 acc.
Proof.
  intros P Hnd. rewrite !stake_fold_ins_all. apply ins_all_perm.
  - unfold stake_bindings. apply Permutation_flat_map. exact P.
  - apply stake_bindings_consistent. exact Hnd.
Qed.

(* ---- phase 4: the speed is a maximum *)
Lemma fold_max_perm (l1 l2 : list (res N)) : Permutation l1 l2 -> forall a,
  fold_left (fun a r => match r with Ok v => N.max a v | _ => a end) l1 a
  = fold_left (fun a r => match r with Ok v => N.max a v | _ => a end) l2 a.
Proof.
  induction 1 as [|x l l' _ IH|x y l|l l' l'' _ IH1 _ IH2]; intros a; cbn [fold_left].
  - reflexivity.
  - apply IH.
  - f_equal. destruct x, y; lia.
  - rewrite IH1. apply IH2.
Qed.

Lemma filter_perm {A} (f : A -> bool) l1 l2 : Permutation l1 l2 -> Permutation (List.filter f l1) (List.filter f l2).
Proof.
  induction 1 as [|x l l' _ IH|x y l|l l' l'' _ IH1 _ IH2]; cbn [List.filter].
  - constructor.
  - destruct (f x); [constructor|]; exact IH.
  - destruct (f x), (f y); try reflexivity. constructor.
  - etransitivity; eauto.
Qed.

(* ---- phase 5a: inserting *)
Lemma ins_pairs_fst tip : forall (l : list (N * cdh)) cn, fst (ins_pairs tip l cn) = ins_all l (fst cn).
Proof.
  induction l as [|[k c] l IH]; intros cn; cbn [ins_pairs ins_all fold_left fst snd]; [reflexivity|].
  fold (ins_pairs tip l (insert_coin tip k c cn)). fold (ins_all l (<[k := c]> (fst cn))).
  rewrite IH, insert_coin_fst. reflexivity.
Qed.

Lemma insert_outputs_complete relevant tip t cn :
  (is_faucet t = true -> (s_network s =? MAINNET) && negb (is_bug_tx t) = false /\ fst cn !! marker_key SO t = None) ->
  insert_outputs SO s relevant tip t cn = Ok (ins_pairs tip (tx_inserts SO relevant t) cn).
Proof.
  intros Hf.
  assert (exists r, insert_outputs SO s relevant tip t cn = Ok r) as [r Hr].
  { unfold insert_outputs. unfold is_faucet in Hf. destruct (txkind_eqb (t_kind t) KFaucet); [|cbn [obind]; eauto].
    destruct (Hf eq_refl) as [Hm Hk]. unfold handle_faucet. rewrite Hm. unfold marker_key in Hk. rewrite Hk.
    destruct (is_bug_tx t); cbn [obind]; eauto. }
  rewrite Hr. f_equal. apply (insert_outputs_pairs _ _ _ _ _ _ _ Hr).
Qed.

Lemma insert_all_complete relevant tip txs : HashOK SO s txs -> short_outputs txs ->
  forall l cn, (forall t, In t l -> In t txs) -> NoDup (map t_hash l) ->
  (forall t, In t l -> is_faucet t = true -> (s_network s =? MAINNET) && negb (is_bug_tx t) = false) ->
  (forall t, In t l -> is_faucet t = true -> fst cn !! marker_key SO t = None) ->
  insert_all SO s relevant tip l cn = Ok (ins_pairs tip (flat_map (tx_inserts SO relevant) l) cn).
Proof.
  intros HK Hs. induction l as [|t l IH]; intros cn Hsub Hnd Hmain Hmk; cbn [insert_all flat_map]; [reflexivity|].
  rewrite insert_outputs_complete by (intros Hf; split; [apply Hmain|apply Hmk]; auto; left; reflexivity).
  cbn [obind]. unfold ins_pairs at 2. rewrite fold_left_app. fold (ins_pairs tip (tx_inserts SO relevant t) cn).
  cbn [map] in Hnd. inversion Hnd as [|? ? Hni Hnd']; subst.
  apply IH; [intros t' Ht'; apply Hsub; right; exact Ht'|exact Hnd'|intros t' Ht'; apply Hmain; right; exact Ht'|].
  intros t' Ht' Hf'. rewrite ins_pairs_fst, ins_all_notin; [apply Hmk; [right; exact Ht'|exact Hf']|].
  assert (Htt: In t txs) by (apply Hsub; left; reflexivity).
  assert (Htt': In t' txs) by (apply Hsub; right; exact Ht').
  intros Hin. apply insert_key_cases in Hin as [(_ & E)|(io & Hio & E)].
  - apply Hni. rewrite <- (hk_marker_distinct SO s txs HK t' t Htt' Htt E). apply in_map. exact Ht'.
  - apply (hk_marker_not_out SO s txs HK t' Htt'). rewrite E. apply in_out_keys; assumption.
Qed.

Lemma CountsOk_unique coins n1 n2 : CountsOk (coins, n1) -> CountsOk (coins, n2) -> n1 = n2.
Proof. intros H1 H2. apply map_eq. intros h. specialize (H1 h). specialize (H2 h). cbn [fst snd] in H1, H2. congruence. Qed.

Lemma ins_pairs_perm tip (l1 l2 : list (N * cdh)) cn :
  Permutation l1 l2 -> NoDup (map fst l1) -> (forall k, In k (map fst l1) -> fst cn !! k = None) ->
  (tip = true -> CountsOk cn) ->
  ins_pairs tip l1 cn = ins_pairs tip l2 cn.
Proof.
  intros P Hnd Hfresh Hok.
  assert (Hnd2: NoDup (map fst l2)) by (eapply Permutation_NoDup; [apply Permutation_map; exact P|exact Hnd]).
  assert (Hfresh2: forall k, In k (map fst l2) -> fst cn !! k = None).
  { intros k Hk. apply Hfresh. eapply Permutation_in; [apply Permutation_sym, Permutation_map; exact P|exact Hk]. }
  assert (Ef: fst (ins_pairs tip l1 cn) = fst (ins_pairs tip l2 cn)).
  { rewrite !ins_pairs_fst. apply ins_all_perm; [exact P|].
    intros k v1 v2 H1 H2. clear - Hnd H1 H2. induction l1 as [|[k0 c0] l IH]; [contradiction|].
    cbn [map fst] in Hnd. inversion Hnd as [|? ? Hni Hnd']; subst.
    destruct H1 as [E1|H1], H2 as [E2|H2].
    - congruence.
    - injection E1 as -> ->. exfalso. apply Hni. apply (in_map fst) in H2. exact H2.
    - injection E2 as -> ->. exfalso. apply Hni. apply (in_map fst) in H1. exact H1.
    - auto. }
  destruct (ins_pairs tip l1 cn) as [c1 n1] eqn:E1. destruct (ins_pairs tip l2 cn) as [c2 n2] eqn:E2.
  cbn [fst] in Ef. subst c2. f_equal.
  destruct tip.
  - pose proof (ins_pairs_counts_ok l1 cn (Hok eq_refl) Hnd Hfresh) as O1.
    pose proof (ins_pairs_counts_ok l2 cn (Hok eq_refl) Hnd2 Hfresh2) as O2.
    rewrite E1 in O1. rewrite E2 in O2. eapply CountsOk_unique; eauto.
  - pose proof (ins_pairs_false_counts l1 cn) as O1. pose proof (ins_pairs_false_counts l2 cn) as O2.
    rewrite E1 in O1. rewrite E2 in O2. cbn [snd] in O1, O2. congruence.
Qed.

(* ---- phase 5b: spending *)
Lemma remove_coins_false : forall ks cn, remove_coins false ks cn = Ok (del_all ks (fst cn), snd cn).
Proof.
  induction ks as [|k ks IH]; intros [coins counts]; cbn [remove_coins del_all fold_left fst snd]; [reflexivity|].
  cbn [remove_coin obind]. rewrite IH. reflexivity.
Qed.

Lemma spend_and_pay_complete tip t n :
  (tip = true -> CountsOk (s_coins n, s_counts n)) ->
  (exists mf, min_fee (s_fee_mult n) t = Ok mf /\ mf <= t_fee t) ->
  exists n', spend_and_pay tip t n = Ok n' /\ (tip = true -> CountsOk (s_coins n', s_counts n')) /\
             (tip = false -> s_counts n' = s_counts n) /\ s_fee_mult n' = s_fee_mult n /\
             s_txs n' = <[t_hash t := t]> (s_txs n).
Proof.
  intros Hok (mf & Hmf & Hle). unfold spend_and_pay.
  assert (exists cn2, remove_coins tip (map input_key (t_inputs t)) (s_coins n, s_counts n) = Ok cn2 /\
            (tip = true -> CountsOk cn2) /\ (tip = false -> snd cn2 = s_counts n)) as (cn2 & E & O2 & F2).
  { destruct tip.
    - destruct (remove_coins_counts_ok (map input_key (t_inputs t)) _ (Hok eq_refl)) as (r & Hr & Or).
      exists r. split; [exact Hr|]. split; [auto|discriminate].
    - rewrite remove_coins_false. eexists. split; [reflexivity|]. split; [discriminate|reflexivity]. }
  rewrite E, Hmf. cbn [obind]. destruct (N.ltb_spec (t_fee t) mf); [lia|].
  eexists. split; [reflexivity|]. cbn [s_coins s_counts s_fee_mult s_txs set_txs set_fees set_coins].
  split; [destruct cn2; exact O2|]. split; [exact F2|]. split; reflexivity.
Qed.

Definition tx_bindings (txs : list tx) : list (N * tx) := map (fun t => (t_hash t, t)) txs.

Lemma spend_all_complete tip : forall txs n,
  (tip = true -> CountsOk (s_coins n, s_counts n)) ->
  (forall t, In t txs -> exists mf, min_fee (s_fee_mult n) t = Ok mf /\ mf <= t_fee t) ->
  exists n', spend_all tip txs n = Ok n' /\ (tip = true -> CountsOk (s_coins n', s_counts n')) /\
             (tip = false -> s_counts n' = s_counts n) /\
             s_txs n' = ins_all (tx_bindings txs) (s_txs n).
Proof.
  induction txs as [|t txs IH]; intros n Hok Hfee; cbn [spend_all].
  - exists n. auto.
  - destruct (spend_and_pay_complete tip t n Hok (Hfee t (or_introl eq_refl))) as (n1 & E1 & O1 & F1 & M1 & T1).
    rewrite E1. cbn [obind].
    destruct (IH n1 O1) as (n' & E' & O' & F' & T').
    { intros t' Ht'. rewrite M1. apply Hfee. right. exact Ht'. }
    exists n'. split; [exact E'|]. split; [exact O'|]. split; [intros Hf; rewrite (F' Hf); auto|].
    rewrite T', T1. reflexivity.
Qed.

Lemma wstate_ext (a b : wstate) :
  s_network a = s_network b -> s_height a = s_height b -> s_history a = s_history b -> s_coins a = s_coins b ->
  s_counts a = s_counts b -> s_txs a = s_txs b -> s_fee_pool a = s_fee_pool b -> s_fee_mult a = s_fee_mult b ->
  s_tips a = s_tips b -> s_dosc_speed a = s_dosc_speed b -> s_pools a = s_pools b -> s_stakes a = s_stakes b -> a = b.
Proof. destruct a, b. cbn. intros. subst. reflexivity. Qed.

Lemma tx_bindings_consistent txs : NoDup (map t_hash txs) -> consistent (tx_bindings txs).
Proof.
  intros Hnd k v1 v2 H1 H2. unfold tx_bindings in H1, H2.
  apply in_map_iff in H1 as (t1 & E1 & Ht1). apply in_map_iff in H2 as (t2 & E2 & Ht2).
  injection E1 as <- <-. injection E2 as Eh <-.
  eapply hash_inj; eauto.
Qed.

Lemma created_consistent txs : NoDup (out_keys txs) -> consistent (created s txs).
Proof.
  intros Huniq k v1 v2 Hv1 Hv2.
  assert (G: forall (l : list (N * cdh)), NoDup (map fst l) -> forall k v1 v2, In (k, v1) l -> In (k, v2) l -> v1 = v2).
  { clear. induction l as [|[k0 c0] l IH]; intros Hnd k v1 v2 H1 H2; [contradiction|].
    cbn [map fst] in Hnd. inversion Hnd as [|? ? Hni Hnd']; subst.
    destruct H1 as [E1|H1], H2 as [E2|H2]; [congruence| | |eauto].
    - injection E1 as -> ->. exfalso. apply Hni. apply (in_map fst) in H2. exact H2.
    - injection E2 as -> ->. exfalso. apply Hni. apply (in_map fst) in H1. exact H1. }
  eapply G; [|exact Hv1|exact Hv2].
  (* the created coins are a sub-list of the declared outputs *)
  unfold created. clear - Huniq. unfold out_keys in Huniq.
  induction txs as [|t txs IH]; cbn [flat_map map]; [constructor|].
  cbn [flat_map] in Huniq. apply NoDup_ListNoDup, NoDup_app in Huniq as (Ht & Hdisj & Hrest).
  rewrite map_app. apply NoDup_ListNoDup, NoDup_app. split; [|split].
  - clear - Ht. unfold output_coins. apply NoDup_ListNoDup. apply NoDup_ListNoDup in Ht.
    induction (enumerate 0 (t_outputs t)) as [|[i o] l IHl]; cbn [flat_map map]; [constructor|].
    cbn [map] in Ht. inversion Ht as [|? ? Hni Hnd']; subst.
    destruct (cd_covhash o =? 0); cbn [app map fst]; [apply IHl; exact Hnd'|].
    constructor; [|apply IHl; exact Hnd'].
    intros Hin. apply Hni. apply in_map_iff in Hin as ([k c] & E & Hin). cbn [fst] in E. subst k.
    apply in_flat_map in Hin as ([i' o'] & Hio' & Hin). destruct (cd_covhash o' =? 0); [contradiction|].
    destruct Hin as [E|[]]. injection E as E _. apply in_map_iff. exists (i', o'). split; [|exact Hio']. exact E.
  - intros k Hk Hk'. apply (Hdisj k).
    + apply elem_of_list_In in Hk. apply elem_of_list_In. apply in_map_iff in Hk as ([k' c] & E & Hk). cbn [fst] in E. subst k'.
      unfold output_coins in Hk. apply in_flat_map in Hk as ([i o] & Hio & Hk). destruct (cd_covhash o =? 0); [contradiction|].
      destruct Hk as [E|[]]. injection E as <- _. apply in_map_iff. exists (i, o). split; [reflexivity|exact Hio].
    + apply elem_of_list_In in Hk'. apply elem_of_list_In. apply in_map_iff in Hk' as ([k' c] & E & Hk'). cbn [fst] in E. subst k'.
      apply in_flat_map in Hk' as (t' & Ht' & Hk'). apply in_flat_map. exists t'. split; [exact Ht'|].
      unfold output_coins in Hk'. apply in_flat_map in Hk' as ([i o] & Hio & Hk'). destruct (cd_covhash o =? 0); [contradiction|].
      destruct Hk' as [E|[]]. injection E as <- _. apply in_map_iff. exists (i, o). split; [reflexivity|exact Hio].
  - apply NoDup_ListNoDup, IH, NoDup_ListNoDup, Hrest.
Qed.

(* ---- C03: the outcome of a batch does not depend on the order of presentation *)
Theorem batch_order_independent txs1 txs2 s1 :
  Permutation txs1 txs2 ->
  HashOK SO s txs1 ->
  (tip_906 s = true -> CountsOk (s_coins s, s_counts s)) ->
  s_fee_pool s <= MAX128 -> s_tips s <= MAX128 ->
  apply_tx_batch SO s lh txs1 = Ok s1 -> apply_tx_batch SO s lh txs2 = Ok s1.
Proof.
  intros P HK Hcnt Hfp Htips H1.
  destruct (apply_tx_batch_inv _ _ _ _ _ H1) as (relevant & n1 & Hrel & Hst & Hval & Hdm & Hn & Est & Ec & Ecnt & Etx & Efp & Etp & _).
  destruct (load_relevant_coins_spec _ _ _ Hrel) as (Hwf & _).
  assert (Hshort: short_outputs txs1) by (apply well_formed_short; intros t Ht; apply Hwf; exact Ht).
  assert (Hin21: forall t, In t txs2 -> In t txs1) by (intros t; apply Permutation_in, Permutation_sym, P).
  pose proof (hk_out_nodup SO s txs1 HK Hshort) as Huniq.
  pose proof (created_consistent txs1 Huniq) as Hcons.
  unfold apply_tx_batch.
  (* phase 1 *)
  rewrite (load_relevant_perm _ _ _ P Hcons Hrel). cbn [obind].
  (* phase 2 *)
  rewrite load_stake_info_spec, <- (forallb_perm _ _ _ P), Hst. cbn [obind].
  rewrite <- (stake_fold_perm _ _ _ P (hk_nodup _ _ _ HK)).
  (* phase 3 *)
  assert (V2: first_error (map (check_tx_validity SO s lh relevant (stake_fold s txs1 ∅)) txs2) = Ok tt).
  { apply first_error_map_ok. intros t Ht. exists tt. apply Hval. auto. }
  rewrite V2. cbn [obind].
  (* phase 4 *)
  set (isd := fun t => txkind_eqb (t_kind t) KDoscMint).
  assert (D2: first_error (map (validate_doscmint SO s relevant) (List.filter isd txs2)) = Ok tt).
  { apply first_error_map_ok. intros t Ht. apply filter_In in Ht as [Ht Hk]. apply Hdm; [auto|].
    unfold isd in Hk. destruct (t_kind t); cbn in Hk; try discriminate. reflexivity. }
  rewrite D2. cbn [obind].
  rewrite <- (fold_max_perm _ _ (Permutation_map (validate_doscmint SO s relevant) (filter_perm isd _ _ P))).
  (* phase 5 *)
  unfold apply_tx_batch in H1. rewrite Hrel in H1. cbn [obind] in H1.
  rewrite load_stake_info_spec, Hst in H1. cbn [obind] in H1.
  assert (V1: first_error (map (check_tx_validity SO s lh relevant (stake_fold s txs1 ∅)) txs1) = Ok tt).
  { apply first_error_map_ok. intros t Ht. exists tt. apply Hval. auto. }
  assert (D1: first_error (map (validate_doscmint SO s relevant) (List.filter isd txs1)) = Ok tt).
  { apply first_error_map_ok. intros t Ht. apply filter_In in Ht as [Ht Hk]. apply Hdm; [auto|].
    unfold isd in Hk. destruct (t_kind t); cbn in Hk; try discriminate. reflexivity. }
  rewrite V1 in H1. cbn [obind] in H1. fold isd in H1. rewrite D1 in H1. cbn [obind] in H1. rewrite Hn in H1. cbn [obind] in H1.
  enough (E2: create_next_state SO s relevant (tip_906 s) txs2 s = Ok n1) by (rewrite E2; cbn [obind]; exact H1).
  clear H1 V1 V2 D1 D2.
  (* both presentations build the same successor *)
  pose proof (HashOK_perm SO s _ _ P HK) as HK2.
  assert (Hshort2: short_outputs txs2) by (intros t Ht; apply Hshort; auto).
  unfold create_next_state in Hn |- *. inv_bind Hn as cn1 Hcn1.
  pose proof (insert_all_pairs _ _ _ _ _ _ _ Hcn1) as Ecn1.
  assert (Hmain: forall t, In t txs1 -> is_faucet t = true -> (s_network s =? MAINNET) && negb (is_bug_tx t) = false).
  { intros t Ht Hf. destruct (s_network s =? MAINNET) eqn:Em; [|reflexivity]. cbn [andb].
    apply N.eqb_eq in Em. unfold is_faucet in Hf.
    assert (Hk: t_kind t = KFaucet) by (destruct (t_kind t); cbn in Hf; try discriminate; reflexivity).
    assert (B: is_bug_tx t = true) by (exact (insert_all_mainnet SO s _ _ _ _ _ t Hcn1 Em Ht Hk)).
    rewrite B. reflexivity. }
  assert (Hmk: forall t, In t txs1 -> is_faucet t = true -> s_coins s !! marker_key SO t = None).
  { intros t Ht Hf. destruct (s_coins s !! marker_key SO t) eqn:Em; [|reflexivity]. exfalso.
    eapply (faucet_replay_rejected SO s lh txs1 t); [exact Ht| |rewrite Em; eauto|].
    - unfold is_faucet in Hf. destruct (t_kind t); cbn in Hf; try discriminate. reflexivity.
    - unfold apply_tx_batch. rewrite Hrel. cbn [obind]. rewrite load_stake_info_spec, Hst. cbn [obind].
      assert (V1: first_error (map (check_tx_validity SO s lh relevant (stake_fold s txs1 ∅)) txs1) = Ok tt).
      { apply first_error_map_ok. intros t' Ht'. exists tt. apply Hval. auto. }
      rewrite V1. cbn [obind]. fold isd.
      assert (D1: first_error (map (validate_doscmint SO s relevant) (List.filter isd txs1)) = Ok tt).
      { apply first_error_map_ok. intros t' Ht'. apply filter_In in Ht' as [Ht' Hk]. apply Hdm; [auto|].
        unfold isd in Hk. destruct (t_kind t'); cbn in Hk; try discriminate. reflexivity. }
      rewrite D1. cbn [obind]. unfold create_next_state. rewrite Hcn1. cbn [obind]. rewrite Hn. cbn [obind]. reflexivity. }
  rewrite (insert_all_complete relevant (tip_906 s) txs2 HK2 Hshort2 txs2 (s_coins s, s_counts s)); cbn [obind fst].
  2: auto. 2: apply (hk_nodup _ _ _ HK2). 2: intros t Ht; apply Hmain; auto. 2: intros t Ht; apply Hmk; auto.
  (* the inserted pair is the same *)
  assert (Epairs: ins_pairs (tip_906 s) (flat_map (tx_inserts SO relevant) txs2) (s_coins s, s_counts s) = cn1).
  { rewrite Ecn1. symmetry. apply ins_pairs_perm.
    - apply Permutation_flat_map. exact P.
    - apply (batch_inserts_nodup SO s); assumption.
    - cbn [fst]. intros k Hk. apply in_map_iff in Hk as ([k' c] & E & Hk). cbn [fst] in E. subst k'.
      apply in_flat_map in Hk as (t & Ht & Hk).
      assert (Hk2: In k (map fst (tx_inserts SO relevant t))) by (apply in_map_iff; exists (k, c); auto).
      apply insert_key_cases in Hk2 as [(Hf & ->)|(io & Hio & ->)].
      + apply Hmk; [exact Ht|]. apply andb_true_iff in Hf as [Hf _]. exact Hf.
      + apply (hk_out_fresh SO s txs1 HK). apply in_out_keys; assumption.
    - exact Hcnt. }
  rewrite Epairs.
  (* spending *)
  set (n0 := set_coins s (fst cn1) (snd cn1)) in *.
  assert (Hok0: tip_906 s = true -> CountsOk (s_coins n0, s_counts n0)).
  { intros Ht. unfold n0. cbn [s_coins s_counts set_coins]. rewrite Ecn1. rewrite <- surjective_pairing.
    rewrite Ht. apply ins_pairs_counts_ok.
    - apply Hcnt. exact Ht.
    - apply (batch_inserts_nodup SO s); assumption.
    - cbn [fst]. intros k Hk. apply in_map_iff in Hk as ([k' c] & E & Hk). cbn [fst] in E. subst k'.
      apply in_flat_map in Hk as (t & Ht' & Hk).
      assert (Hk2: In k (map fst (tx_inserts SO relevant t))) by (apply in_map_iff; exists (k, c); auto).
      apply insert_key_cases in Hk2 as [(Hf & ->)|(io & Hio & ->)].
      + apply Hmk; [exact Ht'|]. apply andb_true_iff in Hf as [Hf _]. exact Hf.
      + apply (hk_out_fresh SO s txs1 HK). apply in_out_keys; assumption. }
  pose proof (spend_all_fees _ _ _ _ Hn) as Hfees1.
  assert (Hfee2: forall t, In t txs2 -> exists mf, min_fee (s_fee_mult n0) t = Ok mf /\ mf <= t_fee t).
  { intros t Ht. eapply fee_fold_each; [exact Hfees1|]. auto. }
  destruct (spend_all_complete (tip_906 s) txs2 n0 Hok0 Hfee2) as (n2 & E2 & O2 & F2 & T2).
  rewrite E2. f_equal.
  (* field by field *)
  destruct (spend_all_frame _ _ _ _ E2) as (A1 & A2 & A3 & A4 & A5 & A6 & A7).
  destruct (spend_all_frame _ _ _ _ Hn) as (B1 & B2 & B3 & B4 & B5 & B6 & B7).
  pose proof (spend_all_coins _ _ _ _ E2) as C2. pose proof (spend_all_coins _ _ _ _ Hn) as C1.
  assert (Ecoins: s_coins n2 = s_coins n1).
  { rewrite C1, C2. apply del_all_perm, Permutation_sym, all_inputs_perm. exact P. }
  pose proof (spend_all_fees _ _ _ _ E2) as Hfees2.
  assert (Hff: fee_fold (s_fee_mult n0) txs1 (s_fee_pool n0) (s_tips n0) = fee_fold (s_fee_mult n0) txs2 (s_fee_pool n0) (s_tips n0)).
  { apply fee_fold_perm; [exact P|exact Hfp|exact Htips]. }
  rewrite <- Hff, Hfees1 in Hfees2. injection Hfees2 as Efp2 Etp2.
  apply wstate_ext; try congruence.
  - (* counts *)
    destruct (tip_906 s) eqn:Et.
    + pose proof (O2 eq_refl) as Q2. pose proof (spend_all_counts_ok _ _ _ (Hok0 eq_refl) Hn) as Q1.
      rewrite Ecoins in Q2. eapply CountsOk_unique; eauto.
    + rewrite (F2 eq_refl).
      destruct (spend_all_complete false txs1 n0 (fun H => ltac:(discriminate)) ltac:(intros t Ht; eapply fee_fold_each; [exact Hfees1|exact Ht])) as (n1' & E1' & _ & F1' & _).
      rewrite Hn in E1'. injection E1' as <-. symmetry. apply F1'. reflexivity.
  - (* transactions *)
    rewrite T2.
    destruct (spend_all_complete (tip_906 s) txs1 n0 Hok0 ltac:(intros t Ht; eapply fee_fold_each; [exact Hfees1|exact Ht])) as (n1' & E1' & _ & _ & T1').
    rewrite Hn in E1'. injection E1' as <-. rewrite T1'. symmetry. apply ins_all_perm.
    + unfold tx_bindings. apply Permutation_map. exact P.
    + apply tx_bindings_consistent. apply (hk_nodup _ _ _ HK).
Qed.

(* the keys a batch inserts are new (under the hash-oracle assumptions and acceptance) *)
Lemma batch_inserts_fresh txs s' relevant :
  apply_tx_batch SO s lh txs = Ok s' -> load_relevant_coins s txs = Ok relevant -> HashOK SO s txs ->
  forall k, In k (map fst (flat_map (tx_inserts SO relevant) txs)) -> s_coins s !! k = None.
Proof.
  intros H Hrel HK k Hk.
  apply in_map_iff in Hk as ([k' c] & E & Hk). cbn [fst] in E. subst k'.
  apply in_flat_map in Hk as (t & Ht & Hk).
  assert (Hk2: In k (map fst (tx_inserts SO relevant t))) by (apply in_map_iff; exists (k, c); auto).
  apply insert_key_cases in Hk2 as [(Hf & ->)|(io & Hio & ->)].
  - destruct (s_coins s !! marker_key SO t) eqn:Em; [|reflexivity]. exfalso.
    apply andb_true_iff in Hf as [Hf _]. unfold is_faucet in Hf.
    eapply (faucet_replay_rejected SO s lh txs t); [exact Ht| |rewrite Em; eauto|exact H].
    destruct (t_kind t); cbn in Hf; try discriminate. reflexivity.
  - apply (hk_out_fresh SO s txs HK). apply in_out_keys; assumption.
Qed.

(* C20 for a whole batch under the hash-oracle assumptions *)
Theorem accepted_batch_counts_hash txs s' :
  apply_tx_batch SO s lh txs = Ok s' -> tip_906 s = true ->
  CountsOk (s_coins s, s_counts s) -> HashOK SO s txs ->
  CountsOk (s_coins s', s_counts s').
Proof.
  intros H Htip Hok HK.
  destruct (apply_tx_batch_inv _ _ _ _ _ H) as (relevant & n & Hrel & _).
  destruct (load_relevant_coins_spec _ _ _ Hrel) as (Hwf & _).
  assert (Hs: short_outputs txs) by (apply well_formed_short; intros t Ht; apply Hwf; exact Ht).
  eapply accepted_batch_counts_ok; eauto.
  - apply (batch_inserts_nodup SO s); assumption.
  - eapply batch_inserts_fresh; eauto.
Qed.
End PermAccept.

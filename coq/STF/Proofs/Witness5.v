(* Non-vacuity of the history theorems: a concrete history (a batch of three transactions, then a block
   boundary with a proposer action) meets every step hypothesis, starting from a Good state. *)
From MelVerif Require Import STF.Proofs.Tactics STF.Proofs.MapLemmas STF.Proofs.Stakes STF.Proofs.Faucet
  STF.Proofs.Coins STF.Proofs.Counts STF.Proofs.HashFacts STF.Proofs.SeqApply STF.Proofs.SealCoins STF.Proofs.SealCounts
  STF.Proofs.History STF.Proofs.Witness.
Open Scope N_scope.

Definition w_action : action := {| a_delta := 5%Z; a_dest := 4242 |}.
Definition w_hist : list hop := [HBatch w_header w_batch; HBlock (Some w_action) w_header].

Lemma w_state_good : Good w_state.
Proof.
  split; [intros h t H; cbn in H; rewrite lookup_empty in H; discriminate|]. split.
  - unfold CInv. destruct (tip_906 w_state) eqn:T; [apply w_counts_ok; exact T|reflexivity].
  - intros t Ht. apply in_sorted_txs in Ht as (h & Hh). cbn in Hh. rewrite lookup_empty in Hh. discriminate.
Qed.

Lemma w_hist_ok : hist_ok w_oracle w_state w_hist.
Proof.
  unfold hist_ok. cbn [hist_all w_hist]. split; [split; [exact w_hash_ok|intros t t' _ []]|]. split; [|exact I].
  cbn [step_ok]. intros _. split.
  - vm_compute. reflexivity.
  - intros t Ht. vm_compute in Ht. intuition (subst; vm_compute; discriminate).
Qed.

(* the history really runs: the batch is accepted and the block seals *)
Lemma w_hist_runs :
  s_height (fold_left (hstep w_oracle) w_hist w_state) = 6 /\
  tip_906 (fold_left (hstep w_oracle) w_hist w_state) = true.
Proof. vm_compute. split; reflexivity. Qed.

(* the hypotheses of [faucet_at_most_once] hold on this history (marker id of the faucet with hash 11), the
   replay is refused in the later state, and a new faucet is still accepted there *)
From MelVerif Require Import STF.Proofs.FaucetHistory.
Definition w_later : list hop := [HBlock (Some w_action) w_header].
Definition w_f4 : tx := w_mk KFaucet [] [w_out 5000 Mel] 1000 14.
Lemma w_faucet_once :
  exists s1, apply_tx_batch w_oracle w_state w_header w_batch = Ok s1 /\
    NoM (so_faucet_marker w_oracle (t_hash w_f1)) s1 /\
    hist_apart w_oracle (so_faucet_marker w_oracle (t_hash w_f1)) s1 w_later /\
    (exists e, apply_tx_batch w_oracle (fold_left (hstep w_oracle) w_later s1) w_header [w_f1] = Reject e) /\
    (exists s2, apply_tx_batch w_oracle (fold_left (hstep w_oracle) w_later s1) w_header [w_f4] = Ok s2).
Proof.
  destruct w_accepted as [s1 E]. exists s1. split; [exact E|].
  assert (Es: s1 = hstep w_oracle w_state (HBatch w_header w_batch)) by (cbn [hstep]; rewrite E; reflexivity).
  rewrite Es. split; [|split; [|split]].
  - intros t Ht. vm_compute in Ht. intuition (subst; vm_compute; discriminate).
  - unfold hist_apart. cbn [hist_all w_later apart]. split; [vm_compute; discriminate|exact I].
  - vm_compute. eexists. reflexivity.
  - vm_compute. eexists. reflexivity.
Qed.

(* C03, second half: a batch equals applying its transactions one at a time, in any order in which no
   transaction spends an output of itself or of a later one. *)
From MelVerif Require Import STF.Proofs.Tactics STF.Proofs.MapLemmas STF.Proofs.Stakes STF.Proofs.Faucet
  STF.Proofs.Coins STF.Proofs.Supply STF.Proofs.Fees STF.Proofs.Counts STF.Proofs.Perm STF.Proofs.HashFacts STF.Proofs.BatchSupply STF.Proofs.PermAccept.
From Coq Require Import ZifyN ZifyNat ZifyBool.
Open Scope N_scope.

Section Seq.
Variable SO : stf_oracle.
Variable lh : header.

(* ---- validity of one transaction only looks at its own inputs *)
Lemma check_inputs_ext s1 s2 r1 r2 ns1 ns2 t : forall ins idx good inc,
  (forall i, In i ins -> r1 !! input_key i = r2 !! input_key i /\ coin_locked s1 ns1 (fst i) = coin_locked s2 ns2 (fst i)) ->
  check_inputs SO s1 lh r1 ns1 t idx ins good inc = check_inputs SO s2 lh r2 ns2 t idx ins good inc.
Proof.
  induction ins as [|i ins IH]; intros idx good inc H; cbn [check_inputs]; [reflexivity|].
  destruct (H i (or_introl eq_refl)) as [E1 E2].
  assert (Ec: check_input SO s1 lh r1 ns1 t idx i good inc = check_input SO s2 lh r2 ns2 t idx i good inc).
  { unfold check_input. rewrite E1, E2. reflexivity. }
  rewrite Ec. destruct (check_input SO s2 lh r2 ns2 t idx i good inc) as [gi| |]; cbn [obind]; try reflexivity.
  apply IH. intros i' Hi'. apply H. right. exact Hi'.
Qed.

Lemma check_tx_validity_ext s1 s2 r1 r2 ns1 ns2 t :
  (forall i, In i (t_inputs t) -> r1 !! input_key i = r2 !! input_key i /\ coin_locked s1 ns1 (fst i) = coin_locked s2 ns2 (fst i)) ->
  check_tx_validity SO s1 lh r1 ns1 t = check_tx_validity SO s2 lh r2 ns2 t.
Proof. intros H. unfold check_tx_validity. rewrite (check_inputs_ext s1 s2 r1 r2 ns1 ns2 t _ _ _ _ H). reflexivity. Qed.

(* ---- completeness: the conditions under which a batch is accepted *)
Lemma load_relevant_complete s txs :
  (forall t, In t txs -> well_formed t = true /\ totals_fit t = true) ->
  NoDup (all_inputs txs) ->
  (forall k, In k (all_inputs txs) -> is_Some (outputs_map s txs !! k) \/ is_Some (s_coins s !! k)) ->
  exists r, load_relevant_coins s txs = Ok r.
Proof.
  intros Hwf Hnd Hex. unfold load_relevant_coins. fold (outputs_map s txs).
  assert (Hf: forallb (fun t => well_formed t && totals_fit t) txs = true).
  { apply forallb_forall. intros t Ht. destruct (Hwf t Ht) as [-> ->]. reflexivity. }
  rewrite Hf. cbn [negb].
  destruct (lookup_inputs_complete (outputs_map s txs) (s_coins s) (all_inputs txs) ∅ Hex) as [ins Hins].
  rewrite Hins. cbn [obind]. rewrite dup_free_complete; [eauto|exact Hnd|intros; apply lookup_empty].
Qed.

Definition faucet_ok (s : wstate) (t : tx) : Prop :=
  is_faucet t = true -> (s_network s =? MAINNET) && negb (is_bug_tx t) = false /\ s_coins s !! marker_key SO t = None.
Definition fee_ok (s : wstate) (t : tx) : Prop := exists mf, min_fee (s_fee_mult s) t = Ok mf /\ mf <= t_fee t.
Definition is_mint (t : tx) : bool := txkind_eqb (t_kind t) KDoscMint.

Theorem apply_tx_batch_complete s txs relevant :
  HashOK SO s txs ->
  (tip_906 s = true -> CountsOk (s_coins s, s_counts s)) ->
  load_relevant_coins s txs = Ok relevant ->
  forallb (stake_tx_ok s) txs = true ->
  (forall t, In t txs -> check_tx_validity SO s lh relevant (stake_fold s txs ∅) t = Ok tt) ->
  (forall t, In t txs -> is_mint t = true -> exists v, validate_doscmint SO s relevant t = Ok v) ->
  (forall t, In t txs -> faucet_ok s t) ->
  (forall t, In t txs -> fee_ok s t) ->
  exists s', apply_tx_batch SO s lh txs = Ok s'.
Proof.
  intros HK Hcnt Hrel Hst Hval Hdm Hfa Hfee.
  destruct (load_relevant_coins_spec _ _ _ Hrel) as (Hwf & _).
  assert (Hshort: short_outputs txs) by (apply well_formed_short; intros t Ht; apply Hwf; exact Ht).
  unfold apply_tx_batch. rewrite Hrel. cbn [obind]. rewrite load_stake_info_spec, Hst. cbn [obind].
  assert (V: first_error (map (check_tx_validity SO s lh relevant (stake_fold s txs ∅)) txs) = Ok tt).
  { apply first_error_map_ok. intros t Ht. exists tt. apply Hval. exact Ht. }
  rewrite V. cbn [obind].
  assert (D: first_error (map (validate_doscmint SO s relevant) (List.filter is_mint txs)) = Ok tt).
  { apply first_error_map_ok. intros t Ht. apply filter_In in Ht as [Ht Hk]. apply Hdm; assumption. }
  fold is_mint. rewrite D. cbn [obind].
  unfold create_next_state.
  rewrite (insert_all_complete SO s relevant (tip_906 s) txs HK Hshort txs (s_coins s, s_counts s)); cbn [obind fst].
  2: auto. 2: apply (hk_nodup _ _ _ HK). 2: intros t Ht Hf; apply (Hfa t Ht Hf). 2: intros t Ht Hf; apply (Hfa t Ht Hf).
  set (cn1 := ins_pairs (tip_906 s) (flat_map (tx_inserts SO relevant) txs) (s_coins s, s_counts s)).
  set (n0 := set_coins s (fst cn1) (snd cn1)).
  assert (Hfresh: forall k, In k (map fst (flat_map (tx_inserts SO relevant) txs)) -> s_coins s !! k = None).
  { intros k Hk. apply in_map_iff in Hk as ([k' c] & E & Hk). cbn [fst] in E. subst k'.
    apply in_flat_map in Hk as (t & Ht & Hk).
    assert (Hk2: In k (map fst (tx_inserts SO relevant t))) by (apply in_map_iff; exists (k, c); auto).
    apply insert_key_cases in Hk2 as [(Hf & ->)|(io & Hio & ->)].
    - apply andb_true_iff in Hf as [Hf _]. apply (Hfa t Ht Hf).
    - apply (hk_out_fresh SO s txs HK). apply in_out_keys; assumption. }
  assert (Hok0: tip_906 s = true -> CountsOk (s_coins n0, s_counts n0)).
  { intros Ht. unfold n0. cbn [s_coins s_counts set_coins]. rewrite <- surjective_pairing. unfold cn1. rewrite Ht.
    apply ins_pairs_counts_ok; [apply Hcnt; exact Ht|apply (batch_inserts_nodup SO s); assumption|exact Hfresh]. }
  destruct (spend_all_complete (tip_906 s) txs n0 Hok0) as (n2 & E2 & _).
  { intros t Ht. apply (Hfee t Ht). }
  rewrite E2. cbn [obind]. eauto.
Qed.

(* ---- pieces *)
Lemma validate_doscmint_ext s1 s2 r1 r2 t :
  s_height s1 = s_height s2 -> s_network s1 = s_network s2 -> s_history s1 = s_history s2 ->
  (forall i, In i (t_inputs t) -> r1 !! input_key i = r2 !! input_key i) ->
  validate_doscmint SO s1 r1 t = validate_doscmint SO s2 r2 t.
Proof.
  intros Eh En Ehi Hr. unfold validate_doscmint. destruct (t_inputs t) as [|i0 rest]; [reflexivity|].
  rewrite (Hr i0 (or_introl eq_refl)), Eh, En, Ehi. reflexivity.
Qed.

Lemma HashOK_cons s t r : HashOK SO s (t :: r) -> HashOK SO s [t] /\ HashOK SO s r.
Proof.
  intros [H1 H2 H3 H4 H5]. cbn [map] in H1. inversion H1 as [|? ? Hni Hnd]; subst. split; constructor.
  - cbn. constructor; [intros []|constructor].
  - intros t0 i [<-|[]]. apply H2. left. reflexivity.
  - intros t0 t1 [<-|[]] [<-|[]]. apply H3; left; reflexivity.
  - intros t0 t1 i [<-|[]] [<-|[]]. apply H4; left; reflexivity.
  - intros t0 t1 [<-|[]] [<-|[]] _. reflexivity.
  - exact Hnd.
  - intros t0 i Ht0. apply H2. right. exact Ht0.
  - intros t0 t1 Ht0 Ht1. apply H3; right; assumption.
  - intros t0 t1 i Ht0 Ht1. apply H4; right; assumption.
  - intros t0 t1 Ht0 Ht1. apply H5; right; assumption.
Qed.

Lemma outputs_map_none s txs k : ~ In k (out_keys txs) -> outputs_map s txs !! k = None.
Proof.
  intros Hk. rewrite outputs_map_ins_all, ins_all_notin; [apply lookup_empty|].
  intros Hin. apply Hk. apply in_map_iff in Hin as ([k' c] & E & Hin). cbn [fst] in E. subst k'.
  unfold created in Hin. apply in_flat_map in Hin as (t & Ht & Hin).
  apply in_output_coins in Hin as (i & o & Hio & ->). apply (in_out_keys txs t (i, o) Ht Hio).
Qed.

Lemma stake_fold_lookup s txs h : is_Some (stake_fold s txs ∅ !! h) -> exists t, In t txs /\ t_hash t = h.
Proof.
  rewrite stake_fold_ins_all. intros Hs.
  destruct (in_dec N.eq_dec h (map fst (stake_bindings s txs))) as [Hi|Hi].
  - apply in_map_iff in Hi as ([h' d] & E & Hi). cbn [fst] in E. subst h'.
    unfold stake_bindings in Hi. apply in_flat_map in Hi as (t & Ht & Hi).
    destruct (registers s t); [|contradiction]. destruct Hi as [E|[]]. injection E as E _. eauto.
  - rewrite ins_all_notin, lookup_empty in Hs by exact Hi. destruct Hs as [? Hs]. discriminate.
Qed.

Lemma ins_all_union {A} : forall (l : list (N * A)) (m : gmap N A), ins_all l m = ins_all l ∅ ∪ m.
Proof.
  intros l. induction l as [|[k v] l IH] using rev_ind; intros m.
  - cbn. rewrite (left_id_L ∅ (∪)). reflexivity.
  - rewrite !ins_all_app. cbn [ins_all fold_left fst snd]. rewrite IH. apply insert_union_l.
Qed.

Lemma stake_fold_cons s t r st :
  stake_fold s (t :: r) ∅ ∪ st = stake_fold s r ∅ ∪ (stake_fold s [t] ∅ ∪ st).
Proof.
  rewrite !stake_fold_ins_all.
  assert (E: stake_bindings s (t :: r) = stake_bindings s [t] ++ stake_bindings s r).
  { unfold stake_bindings. cbn [flat_map]. rewrite app_nil_r. reflexivity. }
  rewrite E, ins_all_app, (ins_all_union (stake_bindings s r) (ins_all (stake_bindings s [t]) ∅)).
  rewrite (assoc_L (∪)). reflexivity.
Qed.

Lemma ins_del_commute {A} (l : list (N * A)) : forall ks (m : gmap N A),
  (forall k, In k ks -> ~ In k (map fst l)) -> ins_all l (del_all ks m) = del_all ks (ins_all l m).
Proof.
  induction ks as [|k ks IH]; intros m H; cbn [del_all fold_left]; [reflexivity|].
  fold (del_all ks (delete k m)). fold (del_all ks (delete k (ins_all l m))).
  rewrite IH by (intros k' Hk'; apply H; right; exact Hk'). f_equal.
  specialize (H k (or_introl eq_refl)). clear IH. revert m.
  induction l as [|[k0 v0] l IHl]; intros m; cbn [ins_all fold_left fst snd]; [reflexivity|].
  fold (ins_all l (<[k0 := v0]> (delete k m))). fold (ins_all l (<[k0 := v0]> m)).
  assert (k0 <> k) by (intros ->; apply H; left; reflexivity).
  rewrite <- delete_insert_ne by congruence. apply IHl. intros Hin. apply H. right. exact Hin.
Qed.

(* ---- what acceptance gives *)
Definition speed_after (s : wstate) (relevant : gmap N cdh) (txs : list tx) : N :=
  fold_left (fun a r => match r with Ok v => N.max a v | _ => a end)
            (map (validate_doscmint SO s relevant) (List.filter is_mint txs)) (s_dosc_speed s).

Lemma batch_conditions s txs s' :
  apply_tx_batch SO s lh txs = Ok s' ->
  exists relevant n, load_relevant_coins s txs = Ok relevant /\ forallb (stake_tx_ok s) txs = true /\
    (forall t, In t txs -> check_tx_validity SO s lh relevant (stake_fold s txs ∅) t = Ok tt) /\
    (forall t, In t txs -> is_mint t = true -> exists v, validate_doscmint SO s relevant t = Ok v) /\
    (forall t, In t txs -> faucet_ok s t) /\ (forall t, In t txs -> fee_ok s t) /\
    create_next_state SO s relevant (tip_906 s) txs s = Ok n /\
    s' = set_speed_stakes n (speed_after s relevant txs) (stake_fold s txs ∅ ∪ s_stakes n).
Proof.
  intros H. pose proof H as H0. unfold apply_tx_batch in H.
  inv_bind H as relevant Hrel. inv_bind H as new_stakes Hst.
  rewrite load_stake_info_spec in Hst.
  destruct (forallb (stake_tx_ok s) txs) eqn:Hok; [|discriminate]. injection Hst as <-.
  inv_bind H as u1 Hval. destruct u1. inv_bind H as u2 Hdm. destruct u2.
  inv_bind H as n Hn. injection H as <-.
  exists relevant, n. split; [exact Hrel|]. split; [reflexivity|].
  split. { intros t Ht. destruct (proj1 (first_error_map_ok _ _) Hval t Ht) as [[] Hv]. exact Hv. }
  split. { intros t Ht Hk. apply (proj1 (first_error_map_ok _ _) Hdm t). apply filter_In. split; [exact Ht|exact Hk]. }
  split.
  { intros t Ht Hf. unfold create_next_state in Hn. inv_bind Hn as cn Hcn. split.
    - destruct (s_network s =? MAINNET) eqn:Em; [|reflexivity]. cbn [andb]. apply N.eqb_eq in Em.
      assert (Hk: t_kind t = KFaucet) by (unfold is_faucet in Hf; destruct (t_kind t); cbn in Hf; try discriminate; reflexivity).
      rewrite (insert_all_mainnet SO s _ _ _ _ _ t Hcn Em Ht Hk). reflexivity.
    - destruct (s_coins s !! marker_key SO t) eqn:Em; [|reflexivity]. exfalso.
      eapply (faucet_replay_rejected SO s lh txs t); [exact Ht| |rewrite Em; eauto|exact H0].
      unfold is_faucet in Hf. destruct (t_kind t); cbn in Hf; try discriminate. reflexivity. }
  split.
  { intros t Ht. destruct (create_next_state_frame _ _ _ _ _ _ _ Hn) as (_ & _).
    unfold create_next_state in Hn. inv_bind Hn as cn Hcn. pose proof (spend_all_fees _ _ _ _ Hn) as F.
    eapply fee_fold_each; [exact F|exact Ht]. }
  split; [exact Hn|reflexivity].
Qed.

Lemma cns_fields s relevant txs n :
  create_next_state SO s relevant (tip_906 s) txs s = Ok n ->
  HashOK SO s txs -> short_outputs txs ->
  (tip_906 s = true -> CountsOk (s_coins s, s_counts s)) ->
  (forall t, In t txs -> faucet_ok s t) ->
  s_coins n = del_all (all_inputs txs) (ins_all (flat_map (tx_inserts SO relevant) txs) (s_coins s)) /\
  s_txs n = ins_all (tx_bindings txs) (s_txs s) /\
  fee_fold (s_fee_mult s) txs (s_fee_pool s) (s_tips s) = Some (s_fee_pool n, s_tips n) /\
  (tip_906 s = true -> CountsOk (s_coins n, s_counts n)) /\
  (tip_906 s = false -> s_counts n = s_counts s) /\
  s_stakes n = s_stakes s /\ s_fee_mult n = s_fee_mult s /\ s_height n = s_height s /\
  s_network n = s_network s /\ s_history n = s_history s /\ s_pools n = s_pools s /\
  s_dosc_speed n = s_dosc_speed s.
Proof.
  intros Hn HK Hshort Hcnt Hfa. pose proof (create_next_state_frame _ _ _ _ _ _ _ Hn) as Fr.
  unfold create_next_state in Hn. inv_bind Hn as cn1 Hcn1.
  pose proof (insert_all_pairs _ _ _ _ _ _ _ Hcn1) as Ecn1.
  set (n0 := set_coins s (fst cn1) (snd cn1)) in *.
  assert (Hfresh: forall k, In k (map fst (flat_map (tx_inserts SO relevant) txs)) -> s_coins s !! k = None).
  { intros k Hk. apply in_map_iff in Hk as ([k' c] & E & Hk). cbn [fst] in E. subst k'.
    apply in_flat_map in Hk as (t & Ht & Hk).
    assert (Hk2: In k (map fst (tx_inserts SO relevant t))) by (apply in_map_iff; exists (k, c); auto).
    apply insert_key_cases in Hk2 as [(Hf & ->)|(io & Hio & ->)].
    - apply andb_true_iff in Hf as [Hf _]. apply (Hfa t Ht Hf).
    - apply (hk_out_fresh SO s txs HK). apply in_out_keys; assumption. }
  assert (Hok0: tip_906 s = true -> CountsOk (s_coins n0, s_counts n0)).
  { intros Ht. unfold n0. cbn [s_coins s_counts set_coins]. rewrite <- surjective_pairing. rewrite Ecn1, Ht.
    apply ins_pairs_counts_ok; [apply Hcnt; exact Ht|apply (batch_inserts_nodup SO s); assumption|exact Hfresh]. }
  pose proof (spend_all_fees _ _ _ _ Hn) as F.
  destruct (spend_all_complete (tip_906 s) txs n0 Hok0) as (n2 & E2 & O2 & F2 & T2).
  { intros t Ht. eapply fee_fold_each; [exact F|exact Ht]. }
  rewrite Hn in E2. injection E2 as <-.
  split. { rewrite (spend_all_coins _ _ _ _ Hn). unfold n0. cbn [s_coins set_coins]. rewrite Ecn1, ins_pairs_fst. reflexivity. }
  split; [exact T2|]. split; [exact F|]. split; [exact O2|].
  split. { intros Ht. rewrite (F2 Ht). unfold n0. cbn [s_counts set_coins]. rewrite Ecn1, Ht. apply ins_pairs_false_counts. }
  exact Fr.
Qed.

Lemma tx_inserts_ext r1 r2 t :
  (forall io, In io (enumerate 0 (t_outputs t)) -> r1 !! key_of t io = r2 !! key_of t io) ->
  tx_inserts SO r1 t = tx_inserts SO r2 t.
Proof.
  intros H. unfold tx_inserts. f_equal.
  induction (enumerate 0 (t_outputs t)) as [|[i o] l IH]; cbn [flat_map]; [reflexivity|].
  rewrite IH by (intros io Hio; apply H; right; exact Hio).
  specialize (H (i, o) (or_introl eq_refl)). unfold key_of in H. cbn [fst] in H. rewrite H. reflexivity.
Qed.

Lemma outputs_map_height s1 s2 txs : s_height s1 = s_height s2 -> outputs_map s1 txs = outputs_map s2 txs.
Proof. intros E. unfold outputs_map. rewrite E. reflexivity. Qed.

Lemma created_cons s t r : created s (t :: r) = created s [t] ++ created s r.
Proof. unfold created. cbn [flat_map]. rewrite app_nil_r. reflexivity. Qed.

Lemma outputs_map_cons_other s t r k :
  ~ In k (map fst (created s [t])) -> outputs_map s (t :: r) !! k = outputs_map s r !! k.
Proof.
  intros Hk. rewrite !outputs_map_ins_all, created_cons, ins_all_app, ins_all_union, lookup_union.
  rewrite (ins_all_notin (created s [t]) ∅ k Hk), lookup_empty.
  destruct (ins_all (created s r) ∅ !! k); reflexivity.
Qed.

Definition rel_of (s : wstate) (txs : list tx) (k : N) : option cdh :=
  match outputs_map s txs !! k with Some c => Some c | None => s_coins s !! k end.

(* the coins a later transaction needs, seen after the head of the batch has been applied on its own *)
Lemma rel_after_head s t r s1 k :
  HashOK SO s (t :: r) -> short_outputs (t :: r) ->
  apply_tx_batch SO s lh [t] = Ok s1 ->
  In k (all_inputs r) -> ~ In k (all_inputs [t]) ->
  rel_of s1 r k = rel_of s (t :: r) k.
Proof.
  intros HK Hshort H1 Hk Hnk.
  destruct (HashOK_cons _ _ _ HK) as [HKt HKr].
  assert (Hst: short_outputs [t]) by (intros t0 [<-|[]]; apply Hshort; left; reflexivity).
  pose proof (hk_out_nodup SO s _ HK Hshort) as Huniq.
  assert (Eh: s_height s1 = s_height s) by (destruct (apply_tx_batch_frame _ _ _ _ _ H1) as (E & _); exact E).
  assert (Hcons: consistent (created s [t])) by (apply created_consistent, (hk_out_nodup SO s _ HKt Hst)).
  assert (Hmk: forall t0 t' i, In t0 [t] -> In t' [t] -> marker_key SO t0 <> coin_key (t_hash t') (i mod 256)).
  { intros t0 t' i Ht0 Ht' E. unfold marker_key in E. apply coin_key_inj in E as [E _]; [|lia|apply N.mod_lt; discriminate].
    exact (hk_marker_tx _ _ _ HKt t0 t' Ht0 Ht' E). }
  destruct (accepted_batch_utxo SO s lh [t] s1 H1 Hcons Hmk k) as [_ U]. specialize (U Hnk). destruct U as (UA & _ & UC).
  assert (Hnm: ~ In k (markers SO [t])).
  { unfold markers. intros Hm. apply in_map_iff in Hm as (t0 & E & Hf). apply filter_In in Hf as [Ht0 _].
    subst k. apply (hk_marker_not_input SO s _ HK t0); [destruct Ht0 as [<-|[]]; left; reflexivity|].
    unfold all_inputs. cbn [flat_map]. apply in_or_app. right. exact Hk. }
  unfold rel_of. rewrite (outputs_map_height s1 s r Eh).
  destruct (in_dec N.eq_dec k (map fst (created s [t]))) as [Hc|Hc].
  - apply in_map_iff in Hc as ([k' c] & E & Hc). cbn [fst] in E. subst k'.
    rewrite (UA c Hc).
    apply in_created in Hc as (t0 & io & Ht0 & Hio & -> & Ecov & ->).
    assert (t0 = t) by (destruct Ht0 as [<-|[]]; reflexivity). subst t0.
    rewrite (outputs_map_at s (t :: r) t io Huniq (or_introl eq_refl) Hio), Ecov.
    rewrite outputs_map_none; [reflexivity|].
    intros Hin. unfold out_keys in Huniq. cbn [flat_map] in Huniq.
    apply NoDup_ListNoDup, NoDup_app in Huniq as (_ & Hd & _).
    apply (Hd (key_of t io)); apply elem_of_list_In; [apply (in_map (key_of t)); exact Hio|exact Hin].
  - rewrite (UC Hc Hnm), (outputs_map_cons_other s t r k Hc). reflexivity.
Qed.

Definition bsome {A} (m : gmap N A) (h : N) : bool := match m !! h with Some _ => true | None => false end.
Lemma bsome_union {A} (a b : gmap N A) h : bsome (a ∪ b) h = bsome a h || bsome b h.
Proof. unfold bsome. rewrite lookup_union. destruct (a !! h), (b !! h); reflexivity. Qed.

Lemma coin_locked_after_head s s1 t r h :
  s_stakes s1 = stake_fold s [t] ∅ ∪ s_stakes s -> s_network s1 = s_network s -> s_height s1 = s_height s ->
  coin_locked s1 (stake_fold s r ∅) h = coin_locked s (stake_fold s (t :: r) ∅) h.
Proof.
  intros Es En Eh. unfold coin_locked, legacy_net. rewrite En, Eh. f_equal.
  change ((bsome (stake_fold s r ∅) h || bsome (s_stakes s1) h) = (bsome (stake_fold s (t :: r) ∅) h || bsome (s_stakes s) h)).
  rewrite Es, <- !bsome_union, <- stake_fold_cons. reflexivity.
Qed.

(* the structural hypotheses of the head/tail split *)
Record SplitOK (s : wstate) (t : tx) (r : list tx) : Prop := {
  sp_hash : HashOK SO s (t :: r);
  sp_counts : tip_906 s = true -> CountsOk (s_coins s, s_counts s);
  (* the head spends no output of the batch: it comes first in dependency order *)
  sp_dep : forall i, In i (t_inputs t) -> ~ In (input_key i) (out_keys (t :: r));
  (* input indices are bytes *)
  sp_idx : forall t' i, In t' (t :: r) -> In i (t_inputs t') -> snd i < 256
}.

(* an input that exists in the state does not carry the hash of a transaction of the batch *)
Lemma existing_input_not_batch_hash s t r i t' :
  SplitOK s t r -> In t' (t :: r) -> snd i < 256 -> is_Some (s_coins s !! input_key i) -> fst i <> t_hash t'.
Proof.
  intros SP Ht' Hi [c Hc] E. unfold input_key in Hc. rewrite E in Hc.
  rewrite (hk_fresh _ _ _ (sp_hash _ _ _ SP) t' (snd i) Ht' Hi) in Hc. discriminate.
Qed.

Lemma out_keys_cons t r : out_keys (t :: r) = out_keys [t] ++ out_keys r.
Proof. unfold out_keys. cbn [flat_map]. rewrite app_nil_r. reflexivity. Qed.
Lemma all_inputs_cons t r : all_inputs (t :: r) = all_inputs [t] ++ all_inputs r.
Proof. unfold all_inputs. cbn [flat_map]. rewrite app_nil_r. reflexivity. Qed.
Lemma all_inputs_single t : all_inputs [t] = map input_key (t_inputs t).
Proof. unfold all_inputs. cbn [flat_map]. apply app_nil_r. Qed.

(* the head's inputs are read from the state, by the whole batch and by the head alone *)
Lemma head_relevant s t r rel rt :
  SplitOK s t r -> load_relevant_coins s (t :: r) = Ok rel -> load_relevant_coins s [t] = Ok rt ->
  forall i, In i (t_inputs t) -> rel !! input_key i = s_coins s !! input_key i /\ rt !! input_key i = s_coins s !! input_key i.
Proof.
  intros SP Hrel Hrt i Hi.
  destruct (load_relevant_coins_spec _ _ _ Hrel) as (_ & _ & _ & Hin & _).
  destruct (load_relevant_coins_spec _ _ _ Hrt) as (_ & _ & _ & Hin_t & _).
  pose proof (sp_dep _ _ _ SP i Hi) as Hd.
  assert (I1: In (input_key i) (all_inputs (t :: r))) by (rewrite all_inputs_cons, all_inputs_single; apply in_or_app; left; apply in_map; exact Hi).
  assert (I2: In (input_key i) (all_inputs [t])) by (rewrite all_inputs_single; apply in_map; exact Hi).
  rewrite (Hin _ I1), (Hin_t _ I2), (outputs_map_none s (t :: r) _ Hd).
  rewrite outputs_map_none; [auto|]. intros Hk. apply Hd. rewrite out_keys_cons. apply in_or_app. left. exact Hk.
Qed.

(* stakes registered by the batch do not lock an input that exists in the state *)
Lemma head_not_locked s t r l i :
  SplitOK s t r -> (forall t', In t' l -> In t' (t :: r)) -> In i (t_inputs t) -> is_Some (s_coins s !! input_key i) ->
  stake_fold s l ∅ !! fst i = None.
Proof.
  intros SP Hsub Hi Hex. destruct (stake_fold s l ∅ !! fst i) eqn:E; [|reflexivity]. exfalso.
  destruct (stake_fold_lookup s l (fst i)) as (t' & Ht' & Eh); [rewrite E; eauto|].
  eapply (existing_input_not_batch_hash s t r i t' SP); [apply Hsub; exact Ht'| |exact Hex|symmetry; exact Eh].
  apply (sp_idx _ _ _ SP t i); [left; reflexivity|exact Hi].
Qed.

Theorem head_accepted s t r s' :
  SplitOK s t r -> apply_tx_batch SO s lh (t :: r) = Ok s' -> exists s1, apply_tx_batch SO s lh [t] = Ok s1.
Proof.
  intros SP H.
  destruct (batch_conditions _ _ _ H) as (rel & n & Hrel & Hst & Hval & Hdm & Hfa & Hfee & _).
  destruct (load_relevant_coins_spec _ _ _ Hrel) as (Hwf & Hnd & Hex & Hin & _).
  destruct (HashOK_cons _ _ _ (sp_hash _ _ _ SP)) as [HKt HKr].
  (* the coins the head needs *)
  assert (Hcoin: forall i, In i (t_inputs t) -> is_Some (s_coins s !! input_key i)).
  { intros i Hi.
    assert (I1: In (input_key i) (all_inputs (t :: r))) by (rewrite all_inputs_cons, all_inputs_single; apply in_or_app; left; apply in_map; exact Hi).
    destruct (Hex _ I1) as [Ho|Hc]; [|exact Hc].
    rewrite (outputs_map_none s (t :: r) _ (sp_dep _ _ _ SP i Hi)) in Ho. destruct Ho as [? Ho]. discriminate. }
  destruct (load_relevant_complete s [t]) as [rt Hrt].
  { intros t0 [<-|[]]. apply Hwf. left. reflexivity. }
  { rewrite all_inputs_cons in Hnd. apply NoDup_ListNoDup, NoDup_app in Hnd as (Hnd & _). apply NoDup_ListNoDup. exact Hnd. }
  { intros k Hk. rewrite all_inputs_single in Hk. apply in_map_iff in Hk as (i & <- & Hi). right. apply Hcoin. exact Hi. }
  pose proof (head_relevant s t r rel rt SP Hrel Hrt) as HR.
  apply (apply_tx_batch_complete s [t] rt HKt (sp_counts _ _ _ SP) Hrt).
  - cbn [forallb] in Hst |- *. apply andb_true_iff in Hst as [-> _]. reflexivity.
  - intros t0 [<-|[]].
    rewrite <- (Hval t (or_introl eq_refl)). apply check_tx_validity_ext. intros i Hi. destruct (HR i Hi) as [E1 E2]. split; [congruence|].
    unfold coin_locked. f_equal. f_equal.
    rewrite (head_not_locked s t r [t] i SP) by (auto; intros t' [<-|[]]; left; reflexivity).
    rewrite (head_not_locked s t r (t :: r) i SP) by auto. reflexivity.
  - intros t0 [<-|[]] Hm. destruct (Hdm t (or_introl eq_refl) Hm) as [v Hv]. exists v. rewrite <- Hv.
    apply validate_doscmint_ext; try reflexivity. intros i Hi. destruct (HR i Hi) as [E1 E2]. congruence.
  - intros t0 [<-|[]]. apply Hfa. left. reflexivity.
  - intros t0 [<-|[]]. apply Hfee. left. reflexivity.
Qed.

Lemma registers_ext s1 s2 t : s_network s1 = s_network s2 -> s_height s1 = s_height s2 -> registers s1 t = registers s2 t.
Proof. intros En Eh. unfold registers, legacy500, legacy_net. rewrite En, Eh. reflexivity. Qed.
Lemma stake_tx_ok_ext s1 s2 t : s_network s1 = s_network s2 -> s_height s1 = s_height s2 -> stake_tx_ok s1 t = stake_tx_ok s2 t.
Proof. intros En Eh. unfold stake_tx_ok, legacy500, legacy_net. rewrite En, Eh. reflexivity. Qed.
Lemma stake_fold_ext s1 s2 : s_network s1 = s_network s2 -> s_height s1 = s_height s2 ->
  forall txs acc, stake_fold s1 txs acc = stake_fold s2 txs acc.
Proof.
  intros En Eh. induction txs as [|t txs IH]; intros acc; [reflexivity|].
  change (stake_fold s1 (t :: txs) acc) with (stake_fold s1 txs (match registers s1 t with Some d => <[t_hash t := d]> acc | None => acc end)).
  change (stake_fold s2 (t :: txs) acc) with (stake_fold s2 txs (match registers s2 t with Some d => <[t_hash t := d]> acc | None => acc end)).
  rewrite (registers_ext s1 s2 t En Eh). apply IH.
Qed.

Lemma tip_906_ext s1 s2 : s_network s1 = s_network s2 -> s_height s1 = s_height s2 -> tip_906 s1 = tip_906 s2.
Proof. intros En Eh. unfold tip_906, tip_condition. rewrite En, Eh. reflexivity. Qed.

(* the state after the head alone *)
Lemma after_head s t r s1 :
  SplitOK s t r -> apply_tx_batch SO s lh [t] = Ok s1 ->
  s_height s1 = s_height s /\ s_network s1 = s_network s /\ s_history s1 = s_history s /\
  s_pools s1 = s_pools s /\ s_fee_mult s1 = s_fee_mult s /\
  s_stakes s1 = stake_fold s [t] ∅ ∪ s_stakes s /\
  HashOK SO s1 r /\ (tip_906 s1 = true -> CountsOk (s_coins s1, s_counts s1)) /\
  (forall t', In t' r -> s_coins s1 !! marker_key SO t' = s_coins s !! marker_key SO t').
Proof.
  intros SP H1. pose proof (sp_hash _ _ _ SP) as HK.
  destruct (HashOK_cons _ _ _ HK) as [HKt HKr].
  destruct (apply_tx_batch_frame _ _ _ _ _ H1) as (Eh & En & Ehi & Ep & Em).
  pose proof (accepted_batch_stakes _ _ _ _ _ H1) as Est.
  assert (Hshort_t: short_outputs [t]).
  { destruct (batch_conditions _ _ _ H1) as (rt & nt & Hrt & _). destruct (load_relevant_coins_spec _ _ _ Hrt) as (Hwf & _).
    apply well_formed_short. intros t0 Ht0. apply Hwf. exact Ht0. }
  assert (Hcons: consistent (created s [t])) by (apply created_consistent, (hk_out_nodup SO s _ HKt Hshort_t)).
  assert (Hmk: forall t0 t' i, In t0 [t] -> In t' [t] -> marker_key SO t0 <> coin_key (t_hash t') (i mod 256)).
  { intros t0 t' i Ht0 Ht' E. unfold marker_key in E. apply coin_key_inj in E as [E _]; [|lia|apply N.mod_lt; discriminate].
    exact (hk_marker_tx _ _ _ HKt t0 t' Ht0 Ht' E). }
  (* a key that the head neither spends, creates nor marks is where it was *)
  assert (Hsame: forall k, ~ In k (all_inputs [t]) -> ~ In k (out_keys [t]) -> k <> marker_key SO t -> s_coins s1 !! k = s_coins s !! k).
  { intros k Hi Ho Hm. destruct (accepted_batch_utxo SO s lh [t] s1 H1 Hcons Hmk k) as [_ U]. destruct (U Hi) as (_ & _ & UC). apply UC.
    - intros Hc. apply Ho. apply in_map_iff in Hc as ([k' c] & E & Hc). cbn [fst] in E. subst k'.
      apply in_created in Hc as (t0 & io & Ht0 & Hio & -> & _). apply in_out_keys; assumption.
    - unfold markers. intros Hmm. apply in_map_iff in Hmm as (t0 & E & Hf). apply filter_In in Hf as [[<-|[]] _]. congruence. }
  inversion HK as [Hnd _ _ _ _]. cbn [map] in Hnd. inversion Hnd as [|? ? Hni Hnd']; subst.
  split; [exact Eh|]. split; [exact En|]. split; [exact Ehi|]. split; [exact Ep|]. split; [exact Em|]. split; [exact Est|].
  split.
  { constructor.
    - exact Hnd'.
    - intros t' i Ht' Hi. rewrite Hsame; [apply (hk_fresh _ _ _ HKr t' i Ht' Hi)| | |].
      + rewrite all_inputs_single. intros Hin. apply in_map_iff in Hin as (i0 & E & Hi0).
        (* the head's inputs exist in s, a fresh hash does not *)
        destruct (batch_conditions _ _ _ H1) as (rt & nt & Hrt & _).
        destruct (load_relevant_coins_spec _ _ _ Hrt) as (_ & _ & Hex & _).
        assert (I0: In (input_key i0) (all_inputs [t])) by (rewrite all_inputs_single; apply in_map; exact Hi0).
        destruct (Hex _ I0) as [Ho|Hc].
        * rewrite outputs_map_none in Ho; [destruct Ho as [? Ho]; discriminate|].
          intros Hk. apply (sp_dep _ _ _ SP i0 Hi0). rewrite out_keys_cons. apply in_or_app. left. exact Hk.
        * rewrite E, (hk_fresh _ _ _ HKr t' i Ht' Hi) in Hc. destruct Hc as [? Hc]. discriminate.
      + intros Ho. apply out_keys_inv in Ho as (t0 & io & [<-|[]] & _ & E).
        unfold key_of in E. apply coin_key_inj in E as [E _]; [|exact Hi|apply N.mod_lt; discriminate].
        apply Hni. rewrite <- E. apply in_map. exact Ht'.
      + intros E. unfold marker_key in E. apply coin_key_inj in E as [E _]; [|exact Hi|lia].
        apply (hk_marker_tx _ _ _ HK t t'); [left; reflexivity|right; exact Ht'|symmetry; exact E].
    - intros t0 t' Ht0 Ht'. apply (hk_marker_tx _ _ _ HKr); assumption.
    - intros t0 t' i Ht0 Ht' Hi. apply (hk_marker_in _ _ _ HKr t0 t' i); assumption.
    - intros t0 t' Ht0 Ht'. apply (hk_marker_inj _ _ _ HKr); assumption. }
  split.
  { intros Htip. rewrite (tip_906_ext s1 s En Eh) in Htip.
    eapply accepted_batch_counts_hash; [exact H1|exact Htip|apply (sp_counts _ _ _ SP); exact Htip|exact HKt]. }
  intros t' Ht'. apply Hsame.
  - intros Hi. apply (hk_marker_not_input SO s _ HK t' (or_intror Ht')). rewrite all_inputs_cons. apply in_or_app. left. exact Hi.
  - intros Ho. apply (hk_marker_not_out SO s _ HK t' (or_intror Ht')). rewrite out_keys_cons. apply in_or_app. left. exact Ho.
  - intros E. apply Hni. rewrite <- (hk_marker_distinct SO s _ HK t' t (or_intror Ht') (or_introl eq_refl) E). apply in_map. exact Ht'.
Qed.

Lemma coin_of_height s1 s2 t o : s_height s1 = s_height s2 -> coin_of s1 t o = coin_of s2 t o.
Proof. intros E. unfold coin_of. rewrite E. reflexivity. Qed.

Lemma short_tail t r : short_outputs (t :: r) -> short_outputs r.
Proof. intros H t' Ht'. apply H. right. exact Ht'. Qed.

(* the coins the tail needs, after the head *)
Lemma tail_relevant s t r s1 rel :
  SplitOK s t r -> load_relevant_coins s (t :: r) = Ok rel -> apply_tx_batch SO s lh [t] = Ok s1 ->
  exists rr, load_relevant_coins s1 r = Ok rr /\
    (forall k, In k (all_inputs r) -> rr !! k = rel !! k) /\
    (forall t' io, In t' r -> In io (enumerate 0 (t_outputs t')) -> rr !! key_of t' io = rel !! key_of t' io).
Proof.
  intros SP Hrel H1. pose proof (sp_hash _ _ _ SP) as HK.
  destruct (load_relevant_coins_spec _ _ _ Hrel) as (Hwf & Hnd & Hex & Hin & _).
  assert (Hshort: short_outputs (t :: r)) by (apply well_formed_short; intros t0 Ht0; apply Hwf; exact Ht0).
  destruct (after_head s t r s1 SP H1) as (Eh & En & Ehi & Ep & Em & Est & HK1 & Hc1 & _).
  rewrite all_inputs_cons in Hnd. apply NoDup_ListNoDup, NoDup_app in Hnd as (Hnd_t & Hdisj & Hnd_r).
  assert (Hnot: forall k, In k (all_inputs r) -> ~ In k (all_inputs [t])).
  { intros k Hk Hk'. apply (Hdisj k); apply elem_of_list_In; assumption. }
  assert (HR: forall k, In k (all_inputs r) -> rel_of s1 r k = rel !! k).
  { intros k Hk. rewrite (rel_after_head s t r s1 k HK Hshort H1 Hk (Hnot k Hk)). symmetry. apply Hin.
    rewrite all_inputs_cons. apply in_or_app. right. exact Hk. }
  destruct (load_relevant_complete s1 r) as [rr Hrr].
  { intros t' Ht'. apply Hwf. right. exact Ht'. }
  { apply NoDup_ListNoDup. exact Hnd_r. }
  { intros k Hk. specialize (HR k Hk).
    assert (I: In k (all_inputs (t :: r))) by (rewrite all_inputs_cons; apply in_or_app; right; exact Hk).
    assert (Hs: is_Some (rel !! k)).
    { rewrite (Hin k I). destruct (Hex k I) as [[c E]|[c E]]; rewrite ?E; eauto. destruct (outputs_map s (t :: r) !! k); eauto. }
    rewrite <- HR in Hs. unfold rel_of in Hs. destruct (outputs_map s1 r !! k); [left; eauto|right; exact Hs]. }
  exists rr. split; [exact Hrr|].
  destruct (load_relevant_coins_spec _ _ _ Hrr) as (_ & _ & _ & Hin_r & _).
  split.
  - intros k Hk. rewrite (Hin_r k Hk). apply (HR k Hk).
  - intros t' io Ht' Hio.
    rewrite (relevant_at s1 r rr Hrr (hk_out_nodup SO s1 r HK1 (short_tail t r Hshort)) (hk_out_fresh SO s1 r HK1) t' io Ht' Hio).
    rewrite (relevant_at s (t :: r) rel Hrel (hk_out_nodup SO s _ HK Hshort) (hk_out_fresh SO s _ HK) t' io (or_intror Ht') Hio).
    rewrite (coin_of_height s1 s t' (snd io) Eh). reflexivity.
Qed.

Lemma del_all_app {A} (a b : list N) (m : gmap N A) : del_all (a ++ b) m = del_all b (del_all a m).
Proof. unfold del_all. apply fold_left_app. Qed.

Lemma flat_map_ext_In {A B} (f g : A -> list B) : forall l, (forall x, In x l -> f x = g x) -> flat_map f l = flat_map g l.
Proof.
  induction l as [|x l IH]; intros H; cbn [flat_map]; [reflexivity|].
  rewrite (H x (or_introl eq_refl)), IH; [reflexivity|]. intros y Hy. apply H. right. exact Hy.
Qed.

Lemma speed_after_cons s rel t r :
  speed_after s rel (t :: r) =
  fold_left (fun a r => match r with Ok v => N.max a v | _ => a end)
            (map (validate_doscmint SO s rel) (List.filter is_mint r))
            (fold_left (fun a r => match r with Ok v => N.max a v | _ => a end)
                       (map (validate_doscmint SO s rel) (List.filter is_mint [t])) (s_dosc_speed s)).
Proof.
  unfold speed_after. cbn [List.filter]. destruct (is_mint t); cbn [map fold_left app]; reflexivity.
Qed.

Lemma fee_fold_cons mult t r fp tips :
  fee_fold mult (t :: r) fp tips =
  match fee_fold mult [t] fp tips with Some (fp1, tips1) => fee_fold mult r fp1 tips1 | None => None end.
Proof.
  cbn [fee_fold]. destruct (min_fee mult t) as [mf| |]; try reflexivity. destruct (t_fee t <? mf); reflexivity.
Qed.

(* ---- the head/tail split, forwards *)
Theorem batch_cons_fwd s t r s' :
  SplitOK s t r -> apply_tx_batch SO s lh (t :: r) = Ok s' ->
  exists s1, apply_tx_batch SO s lh [t] = Ok s1 /\ apply_tx_batch SO s1 lh r = Ok s'.
Proof.
  intros SP H. destruct (head_accepted s t r s' SP H) as [s1 H1]. exists s1. split; [exact H1|].
  pose proof (sp_hash _ _ _ SP) as HK. destruct (HashOK_cons _ _ _ HK) as [HKt HKr].
  destruct (batch_conditions _ _ _ H) as (rel & n & Hrel & Hst & Hval & Hdm & Hfa & Hfee & Hn & Es').
  destruct (batch_conditions _ _ _ H1) as (rt & nt & Hrt & _ & _ & _ & Hfa_t & _ & Hnt & Es1).
  destruct (load_relevant_coins_spec _ _ _ Hrel) as (Hwf & Hnd & Hex & Hin & _).
  assert (Hshort: short_outputs (t :: r)) by (apply well_formed_short; intros t0 Ht0; apply Hwf; exact Ht0).
  assert (Hshort_t: short_outputs [t]) by (intros t0 [<-|[]]; apply Hshort; left; reflexivity).
  destruct (after_head s t r s1 SP H1) as (Eh & En & Ehi & Ep & Em & Est & HK1 & Hc1 & Hfa1).
  destruct (tail_relevant s t r s1 rel SP Hrel H1) as (rr & Hrr & HRin & HRout).
  pose proof (head_relevant s t r rel rt SP Hrel Hrt) as HRt.
  assert (Esf: forall acc, stake_fold s1 r acc = stake_fold s r acc) by (apply stake_fold_ext; assumption).
  (* the validity of a tail member is judged alike *)
  assert (Hval_r: forall t', In t' r -> check_tx_validity SO s1 lh rr (stake_fold s1 r ∅) t' = check_tx_validity SO s lh rel (stake_fold s (t :: r) ∅) t').
  { intros t' Ht'. apply check_tx_validity_ext. intros i Hi. split.
    - apply HRin. unfold all_inputs. apply in_flat_map. exists t'. split; [exact Ht'|apply in_map; exact Hi].
    - rewrite Esf. apply coin_locked_after_head; assumption. }
  assert (Hdm_r: forall t', In t' r -> validate_doscmint SO s1 rr t' = validate_doscmint SO s rel t').
  { intros t' Ht'. apply validate_doscmint_ext; try assumption. intros i Hi.
    apply HRin. unfold all_inputs. apply in_flat_map. exists t'. split; [exact Ht'|apply in_map; exact Hi]. }
  assert (Hdm_t: validate_doscmint SO s rt t = validate_doscmint SO s rel t).
  { apply validate_doscmint_ext; try reflexivity. intros i Hi. destruct (HRt i Hi) as [E1 E2]. congruence. }
  (* the tail is accepted after the head *)
  destruct (apply_tx_batch_complete s1 r rr HK1 Hc1 Hrr) as [s2 H2].
  { cbn [forallb] in Hst. apply andb_true_iff in Hst as [_ Hst]. apply forallb_forall. intros t' Ht'.
    rewrite (stake_tx_ok_ext s1 s t' En Eh). rewrite forallb_forall in Hst. apply Hst. exact Ht'. }
  { intros t' Ht'. rewrite (Hval_r t' Ht'). apply Hval. right. exact Ht'. }
  { intros t' Ht' Hm. rewrite (Hdm_r t' Ht'). apply Hdm; [right; exact Ht'|exact Hm]. }
  { intros t' Ht' Hf. destruct (Hfa t' (or_intror Ht') Hf) as [Hm Hc]. split; [rewrite En; exact Hm|rewrite (Hfa1 t' Ht'); exact Hc]. }
  { intros t' Ht'. unfold fee_ok. rewrite Em. apply Hfee. right. exact Ht'. }
  rewrite H2. f_equal.
  (* and ends in the same state *)
  destruct (batch_conditions _ _ _ H2) as (rr' & n2 & Hrr' & _ & _ & _ & Hfa2 & _ & Hn2 & Es2).
  rewrite Hrr in Hrr'. injection Hrr' as <-.
  destruct (cns_fields s rel (t :: r) n Hn HK Hshort (sp_counts _ _ _ SP) Hfa) as (Cn & Tn & Fn & On & Un & Sn & Mn & Hn_ & Nn & Hin_ & Pn & Dn).
  destruct (cns_fields s rt [t] nt Hnt HKt Hshort_t (sp_counts _ _ _ SP) Hfa_t) as (Ct & Tt & Ft & Ot & Ut & St & Mt & Ht_ & Nt & Hit & Pt & Dt).
  assert (Ecoins1: s_coins s1 = s_coins nt) by (rewrite Es1; reflexivity).
  assert (Ecounts1: s_counts s1 = s_counts nt) by (rewrite Es1; reflexivity).
  assert (Etxs1: s_txs s1 = s_txs nt) by (rewrite Es1; reflexivity).
  assert (Efp1: s_fee_pool s1 = s_fee_pool nt /\ s_tips s1 = s_tips nt) by (rewrite Es1; split; reflexivity).
  assert (Esp1: s_dosc_speed s1 = speed_after s rt [t]) by (rewrite Es1; reflexivity).
  destruct (cns_fields s1 rr r n2 Hn2 HK1 (short_tail t r Hshort) Hc1 Hfa2) as (C2 & T2 & F2 & O2 & U2 & S2 & M2 & H2_ & N2 & Hi2 & P2 & D2).
  (* the bindings inserted are the same *)
  assert (ELt: tx_inserts SO rt t = tx_inserts SO rel t).
  { apply tx_inserts_ext. intros io Hio.
    rewrite (relevant_at s [t] rt Hrt (hk_out_nodup SO s _ HKt Hshort_t) (hk_out_fresh SO s _ HKt) t io (or_introl eq_refl) Hio).
    rewrite (relevant_at s (t :: r) rel Hrel (hk_out_nodup SO s _ HK Hshort) (hk_out_fresh SO s _ HK) t io (or_introl eq_refl) Hio). reflexivity. }
  assert (ELr: flat_map (tx_inserts SO rr) r = flat_map (tx_inserts SO rel) r).
  { apply flat_map_ext_In. intros t' Ht'. apply tx_inserts_ext. intros io Hio. apply HRout; assumption. }
  assert (Ecoins: s_coins n2 = s_coins n).
  { rewrite C2, Cn, Ecoins1, Ct, ELr. cbn [flat_map]. rewrite app_nil_r, ELt, (all_inputs_cons t r).
    rewrite del_all_app, ins_all_app. f_equal. apply ins_del_commute.
    (* the head's inputs are not ids inserted by the tail *)
    intros k Hk Hin2. rewrite all_inputs_single in Hk. apply in_map_iff in Hk as (i & <- & Hi).
    apply in_map_iff in Hin2 as ([k' c] & E & Hin2). cbn [fst] in E. subst k'.
    apply in_flat_map in Hin2 as (t' & Ht' & Hin2).
    assert (Hk2: In (input_key i) (map fst (tx_inserts SO rel t'))) by (apply in_map_iff; exists (input_key i, c); auto).
    apply insert_key_cases in Hk2 as [(_ & E)|(io & Hio & E)].
    - apply (hk_marker_not_input SO s _ HK t' (or_intror Ht')). rewrite <- E, all_inputs_cons, all_inputs_single.
      apply in_or_app. left. apply in_map. exact Hi.
    - apply (sp_dep _ _ _ SP i Hi). rewrite E. apply in_out_keys; [right; exact Ht'|exact Hio]. }
  assert (Efees: s_fee_pool n2 = s_fee_pool n /\ s_tips n2 = s_tips n).
  { rewrite fee_fold_cons, Ft in Fn. destruct Efp1 as [E1 E2]. rewrite Em, E1, E2, Fn in F2. injection F2 as -> ->. auto. }
  rewrite Es', Es2. apply wstate_ext; cbn [s_network s_height s_history s_coins s_counts s_txs s_fee_pool s_fee_mult s_tips s_dosc_speed s_pools s_stakes set_speed_stakes].
  - congruence.
  - congruence.
  - congruence.
  - exact Ecoins.
  - (* counts *)
    destruct (tip_906 s) eqn:Et.
    + assert (Et1: tip_906 s1 = true) by (rewrite (tip_906_ext s1 s En Eh); exact Et).
      pose proof (O2 Et1) as Q2. rewrite Ecoins in Q2. eapply CountsOk_unique; [exact Q2|apply On; reflexivity].
    + assert (Et1: tip_906 s1 = false) by (rewrite (tip_906_ext s1 s En Eh); exact Et).
      rewrite (U2 Et1), Ecounts1, (Ut eq_refl), (Un eq_refl). reflexivity.
  - (* transactions *)
    rewrite T2, Tn, Etxs1, Tt. unfold tx_bindings. cbn [map]. unfold ins_all. cbn [fold_left]. reflexivity.
  - (* fee pool *) apply Efees.
  - congruence.
  - (* tips *) apply Efees.
  - (* speed *)
    rewrite speed_after_cons. unfold speed_after at 1. rewrite Esp1. unfold speed_after.
    f_equal.
    + apply map_ext_in. intros t' Ht'. apply filter_In in Ht' as [Ht' _]. apply Hdm_r. exact Ht'.
    + f_equal. cbn [List.filter]. destruct (is_mint t); cbn [map]; [rewrite Hdm_t|]; reflexivity.
  - congruence.
  - (* stakes *)
    rewrite S2, Sn, Esf, Est. symmetry. apply stake_fold_cons.
Qed.

(* ---- the head/tail split, backwards *)
Theorem batch_cons_bwd s t r s1 s2 :
  SplitOK s t r -> apply_tx_batch SO s lh [t] = Ok s1 -> apply_tx_batch SO s1 lh r = Ok s2 ->
  apply_tx_batch SO s lh (t :: r) = Ok s2.
Proof.
  intros SP H1 H2. pose proof (sp_hash _ _ _ SP) as HK. destruct (HashOK_cons _ _ _ HK) as [HKt HKr].
  destruct (batch_conditions _ _ _ H1) as (rt & nt & Hrt & Hst_t & Hval_t & Hdm_t & Hfa_t & Hfee_t & _).
  destruct (batch_conditions _ _ _ H2) as (rr & n2 & Hrr & Hst_r & Hval_r & Hdm_r & Hfa_r & Hfee_r & _).
  destruct (load_relevant_coins_spec _ _ _ Hrt) as (Hwf_t & Hnd_t & Hex_t & Hin_t & _).
  destruct (load_relevant_coins_spec _ _ _ Hrr) as (Hwf_r & Hnd_r & Hex_r & Hin_r & _).
  assert (Hshort: short_outputs (t :: r)).
  { apply well_formed_short. intros t0 [<-|Ht0]; [apply Hwf_t; left; reflexivity|apply Hwf_r; exact Ht0]. }
  destruct (after_head s t r s1 SP H1) as (Eh & En & Ehi & Ep & Em & Est & HK1 & Hc1 & Hmk1).
  (* the head's inputs are in the state *)
  assert (Hcoin: forall i, In i (t_inputs t) -> is_Some (s_coins s !! input_key i)).
  { intros i Hi. assert (I: In (input_key i) (all_inputs [t])) by (rewrite all_inputs_single; apply in_map; exact Hi).
    destruct (Hex_t _ I) as [Ho|Hc]; [|exact Hc].
    rewrite outputs_map_none in Ho; [destruct Ho as [? Ho]; discriminate|].
    intros Hk. apply (sp_dep _ _ _ SP i Hi). rewrite out_keys_cons. apply in_or_app. left. exact Hk. }
  (* no input is shared between the head and the tail *)
  assert (Hdisj: forall k, In k (all_inputs [t]) -> ~ In k (all_inputs r)).
  { intros k Hk Hk'. 
    assert (Hshort_t: short_outputs [t]) by (intros t0 [<-|[]]; apply Hshort; left; reflexivity).
    assert (Hcons: consistent (created s [t])) by (apply created_consistent, (hk_out_nodup SO s _ HKt Hshort_t)).
    assert (Hmk: forall t0 t' i, In t0 [t] -> In t' [t] -> marker_key SO t0 <> coin_key (t_hash t') (i mod 256)).
    { intros t0 t' i Ht0 Ht' E. unfold marker_key in E. apply coin_key_inj in E as [E _]; [|lia|apply N.mod_lt; discriminate].
      exact (hk_marker_tx _ _ _ HKt t0 t' Ht0 Ht' E). }
    destruct (accepted_batch_utxo SO s lh [t] s1 H1 Hcons Hmk k) as [U _]. specialize (U Hk).
    destruct (Hex_r _ Hk') as [Ho|Hc]; [|rewrite U in Hc; destruct Hc as [? Hc]; discriminate].
    rewrite all_inputs_single in Hk. apply in_map_iff in Hk as (i & <- & Hi).
    apply (sp_dep _ _ _ SP i Hi). rewrite out_keys_cons. apply in_or_app. right.
    destruct (in_dec N.eq_dec (input_key i) (out_keys r)) as [Hin|Hin]; [exact Hin|].
    rewrite (outputs_map_none s1 r _ Hin) in Ho. destruct Ho as [? Ho]. discriminate. }
  (* the coins the whole batch needs *)
  destruct (load_relevant_complete s (t :: r)) as [rel Hrel].
  { intros t0 [<-|Ht0]; [apply Hwf_t; left; reflexivity|apply Hwf_r; exact Ht0]. }
  { rewrite all_inputs_cons. apply NoDup_ListNoDup, NoDup_app. split; [apply NoDup_ListNoDup; exact Hnd_t|].
    split; [|apply NoDup_ListNoDup; exact Hnd_r]. intros k Hk Hk'. apply elem_of_list_In in Hk, Hk'. exact (Hdisj k Hk Hk'). }
  { intros k Hk. rewrite all_inputs_cons in Hk. apply in_app_or in Hk as [Hk|Hk].
    - right. rewrite all_inputs_single in Hk. apply in_map_iff in Hk as (i & <- & Hi). apply Hcoin. exact Hi.
    - assert (Hs: is_Some (rel_of s1 r k)).
      { unfold rel_of. destruct (Hex_r _ Hk) as [[c E]|Hc]; [rewrite E; eauto|]. destruct (outputs_map s1 r !! k); eauto. }
      rewrite (rel_after_head s t r s1 k HK Hshort H1 Hk (fun Hk' => Hdisj k Hk' Hk)) in Hs.
      unfold rel_of in Hs. destruct (outputs_map s (t :: r) !! k); [left; eauto|right; exact Hs]. }
  destruct (tail_relevant s t r s1 rel SP Hrel H1) as (rr' & Hrr' & HRin & HRout).
  rewrite Hrr in Hrr'. injection Hrr' as <-.
  pose proof (head_relevant s t r rel rt SP Hrel Hrt) as HRt.
  assert (Esf: forall acc, stake_fold s1 r acc = stake_fold s r acc) by (apply stake_fold_ext; assumption).
  (* acceptance of the whole *)
  destruct (apply_tx_batch_complete s (t :: r) rel HK (sp_counts _ _ _ SP) Hrel) as [s' H].
  { cbn [forallb] in Hst_t |- *. apply andb_true_iff in Hst_t as [-> _]. cbn [andb].
    apply forallb_forall. intros t' Ht'. rewrite <- (stake_tx_ok_ext s1 s t' En Eh). rewrite forallb_forall in Hst_r. apply Hst_r. exact Ht'. }
  { intros t0 [<-|Ht0].
    - rewrite <- (Hval_t t (or_introl eq_refl)). apply check_tx_validity_ext. intros i Hi. destruct (HRt i Hi) as [E1 E2]. split; [congruence|].
      unfold coin_locked. f_equal. f_equal.
      rewrite (head_not_locked s t r [t] i SP) by (auto; intros t' [<-|[]]; left; reflexivity).
      rewrite (head_not_locked s t r (t :: r) i SP) by auto. reflexivity.
    - rewrite <- (Hval_r t0 Ht0). symmetry. apply check_tx_validity_ext. intros i Hi. split.
      + apply HRin. unfold all_inputs. apply in_flat_map. exists t0. split; [exact Ht0|apply in_map; exact Hi].
      + rewrite Esf. apply coin_locked_after_head; assumption. }
  { intros t0 [<-|Ht0] Hm.
    - destruct (Hdm_t t (or_introl eq_refl) Hm) as [v Hv]. exists v. rewrite <- Hv.
      apply validate_doscmint_ext; try reflexivity. intros i Hi. destruct (HRt i Hi) as [E1 E2]. congruence.
    - destruct (Hdm_r t0 Ht0 Hm) as [v Hv]. exists v. rewrite <- Hv. symmetry.
      apply validate_doscmint_ext; try assumption. intros i Hi.
      apply HRin. unfold all_inputs. apply in_flat_map. exists t0. split; [exact Ht0|apply in_map; exact Hi]. }
  { intros t0 [<-|Ht0]; [apply Hfa_t; left; reflexivity|].
    intros Hf. destruct (Hfa_r t0 Ht0 Hf) as [Hm Hc]. split; [rewrite <- En; exact Hm|rewrite <- (Hmk1 t0 Ht0); exact Hc]. }
  { intros t0 [<-|Ht0]; [apply Hfee_t; left; reflexivity|]. unfold fee_ok. rewrite <- Em. apply Hfee_r. exact Ht0. }
  (* and it is the state the sequence reaches *)
  destruct (batch_cons_fwd s t r s' SP H) as (s1' & H1' & H2').
  rewrite H1 in H1'. injection H1' as <-. rewrite H2 in H2'. injection H2' as <-. exact H.
Qed.

(* ---- C03: a batch equals the one-at-a-time application in dependency order *)
Fixpoint seq_apply (s : wstate) (txs : list tx) : res wstate :=
  match txs with
  | [] => Ok s
  | t :: r => s1 <- apply_tx_batch SO s lh [t] ;; seq_apply s1 r
  end.

(* no transaction spends an output of itself or of a later member *)
Fixpoint dep_ordered (txs : list tx) : Prop :=
  match txs with
  | [] => True
  | t :: r => (forall i, In i (t_inputs t) -> ~ In (input_key i) (out_keys (t :: r))) /\ dep_ordered r
  end.

Lemma apply_empty_batch s : apply_tx_batch SO s lh [] = Ok s.
Proof.
  unfold apply_tx_batch, load_relevant_coins. cbn. destruct s. cbn.
  unfold set_speed_stakes, set_coins. cbn. rewrite (left_id_L ∅ (∪)). reflexivity.
Qed.

Theorem batch_is_sequential : forall txs s s',
  HashOK SO s txs ->
  (tip_906 s = true -> CountsOk (s_coins s, s_counts s)) ->
  (forall t i, In t txs -> In i (t_inputs t) -> snd i < 256) ->
  dep_ordered txs ->
  (apply_tx_batch SO s lh txs = Ok s' <-> seq_apply s txs = Ok s').
Proof.
  induction txs as [|t r IH]; intros s s' HK Hc Hidx Hdep.
  - cbn [seq_apply]. rewrite apply_empty_batch. reflexivity.
  - destruct Hdep as [Hd Hdr].
    assert (SP: SplitOK s t r) by (constructor; [exact HK|exact Hc|exact Hd|intros t' i Ht' Hi; eapply Hidx; eauto]).
    cbn [seq_apply]. split.
    + intros H. destruct (batch_cons_fwd s t r s' SP H) as (s1 & H1 & H2). rewrite H1. cbn [obind].
      destruct (after_head s t r s1 SP H1) as (_ & _ & _ & _ & _ & _ & HK1 & Hc1 & _).
      apply (IH s1 s' HK1 Hc1); [intros t' i Ht' Hi; apply (Hidx t' i); [right; exact Ht'|exact Hi]|exact Hdr|exact H2].
    + intros H. inv_bind H as s1 H1.
      destruct (after_head s t r s1 SP H1) as (_ & _ & _ & _ & _ & _ & HK1 & Hc1 & _).
      apply (batch_cons_bwd s t r s1 s' SP H1).
      apply (IH s1 s' HK1 Hc1); [intros t' i Ht' Hi; apply (Hidx t' i); [right; exact Ht'|exact Hi]|exact Hdr|exact H].
Qed.

(* every presentation of the set gives what the one-at-a-time application of any dependency-ordered
   presentation gives *)
Corollary batch_equals_any_sequential_order txs txs' s s' :
  Permutation txs txs' -> dep_ordered txs' ->
  HashOK SO s txs ->
  (tip_906 s = true -> CountsOk (s_coins s, s_counts s)) ->
  s_fee_pool s <= MAX128 -> s_tips s <= MAX128 ->
  (forall t i, In t txs -> In i (t_inputs t) -> snd i < 256) ->
  (apply_tx_batch SO s lh txs = Ok s' <-> seq_apply s txs' = Ok s').
Proof.
  intros P Hdep HK Hc Hfp Htp Hidx.
  pose proof (HashOK_perm SO s _ _ P HK) as HK'.
  assert (Hidx': forall t i, In t txs' -> In i (t_inputs t) -> snd i < 256).
  { intros t i Ht Hi. apply (Hidx t i); [|exact Hi]. eapply Permutation_in; [apply Permutation_sym; exact P|exact Ht]. }
  rewrite <- (batch_is_sequential txs' s s' HK' Hc Hidx' Hdep). split; intros H.
  - apply (batch_order_independent SO s lh txs txs' s' P HK Hc Hfp Htp H).
  - apply (batch_order_independent SO s lh txs' txs s' (Permutation_sym P) HK' Hc Hfp Htp H).
Qed.
End Seq.

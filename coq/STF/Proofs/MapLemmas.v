(* Folds of inserts / deletes over gmaps: lookup characterisations and permutation invariance. *)
From stdpp Require Import gmap.
From Coq Require Import NArith List.
Import ListNotations.
Open Scope N_scope.

Section Folds.
Context {A : Type}.

Definition ins_all (l : list (N * A)) (m : gmap N A) : gmap N A :=
  fold_left (fun m kv => <[fst kv := snd kv]> m) l m.
Definition del_all (ks : list N) (m : gmap N A) : gmap N A :=
  fold_left (fun m k => delete k m) ks m.

(* a list of bindings in which a key is never bound to two different values *)
Definition consistent (l : list (N * A)) : Prop :=
  forall k v1 v2, In (k, v1) l -> In (k, v2) l -> v1 = v2.

Lemma ins_all_app l1 l2 m : ins_all (l1 ++ l2) m = ins_all l2 (ins_all l1 m).
Proof. unfold ins_all. apply fold_left_app. Qed.

Lemma ins_all_notin : forall l m k, ~ In k (map fst l) -> ins_all l m !! k = m !! k.
Proof.
  induction l as [|[k0 v0] l IH]; intros m k Hn; cbn [ins_all fold_left fst snd]; [reflexivity|].
  fold (ins_all l (<[k0 := v0]> m)). rewrite IH.
  - apply lookup_insert_ne. intros ->. apply Hn. left. reflexivity.
  - intros Hin. apply Hn. right. exact Hin.
Qed.

Lemma ins_all_in : forall l m k v, consistent l -> In (k, v) l -> ins_all l m !! k = Some v.
Proof.
  induction l as [|[k0 v0] l IH]; intros m k v Hc Hin; [contradiction|].
  cbn [ins_all fold_left fst snd]. fold (ins_all l (<[k0 := v0]> m)).
  destruct (in_dec (fun a b => decide (a = b)) k (map fst l)) as [Hk|Hk].
  - apply in_map_iff in Hk as ([k' v'] & E & Hin'). cbn in E. subst k'.
    assert (v' = v) by (eapply Hc; [right; exact Hin'|exact Hin]). subst v'.
    apply IH; [|exact Hin']. intros k1 a b H1 H2. eapply Hc; right; eassumption.
  - rewrite ins_all_notin by exact Hk.
    destruct Hin as [E|Hin]; [injection E as -> ->; apply lookup_insert|].
    exfalso. apply Hk. apply in_map_iff. exists (k, v). auto.
Qed.

(* the last binding of a key wins; with consistent bindings, any binding *)
Lemma ins_all_lookup l m k : consistent l ->
  ins_all l m !! k = match find (fun kv => bool_decide (fst kv = k)) l with
                     | Some kv => Some (snd kv)
                     | None => m !! k
                     end.
Proof.
  intros Hc. destruct (find _ l) as [[k' v]|] eqn:F.
  - apply find_some in F as [Hin E]. apply bool_decide_eq_true in E. cbn in E. subst k'.
    apply ins_all_in; assumption.
  - apply ins_all_notin. intros Hin. apply in_map_iff in Hin as ([k' v] & E & Hin). cbn in E. subst k'.
    pose proof (find_none _ _ F _ Hin) as Hf. cbn in Hf. apply bool_decide_eq_false in Hf. contradiction.
Qed.

Lemma consistent_perm l1 l2 : Permutation l1 l2 -> consistent l1 -> consistent l2.
Proof.
  intros P Hc k v1 v2 H1 H2. eapply Hc; eapply Permutation_in; try (apply Permutation_sym; exact P); eassumption.
Qed.

Theorem ins_all_perm l1 l2 m : Permutation l1 l2 -> consistent l1 -> ins_all l1 m = ins_all l2 m.
Proof.
  intros P Hc. apply map_eq. intros k.
  destruct (in_dec (fun a b => decide (a = b)) k (map fst l1)) as [Hk|Hk].
  - apply in_map_iff in Hk as ([k' v] & E & Hin). cbn in E. subst k'.
    rewrite (ins_all_in l1 m k v Hc Hin).
    rewrite (ins_all_in l2 m k v (consistent_perm _ _ P Hc) (Permutation_in _ P Hin)). reflexivity.
  - rewrite ins_all_notin by exact Hk. rewrite ins_all_notin; [reflexivity|].
    intros Hin. apply Hk. eapply Permutation_in; [apply Permutation_sym, Permutation_map; exact P|exact Hin].
Qed.

Lemma del_all_in : forall ks m k, In k ks -> del_all ks m !! k = None.
Proof.
  induction ks as [|k0 ks IH]; intros m k Hin; [contradiction|].
  cbn [del_all fold_left]. fold (del_all ks (delete k0 m)).
  destruct (in_dec (fun a b => decide (a = b)) k ks) as [H|H]; [apply IH; exact H|].
  destruct Hin as [->|Hin]; [|contradiction].
  clear IH. revert m. induction ks as [|k1 ks IH]; intros m; cbn [del_all fold_left].
  - apply lookup_delete.
  - fold (del_all ks (delete k1 (delete k m))). rewrite delete_commute. apply IH.
    intros Hin. apply H. right. exact Hin.
Qed.

Lemma del_all_notin : forall ks m k, ~ In k ks -> del_all ks m !! k = m !! k.
Proof.
  induction ks as [|k0 ks IH]; intros m k Hn; cbn [del_all fold_left]; [reflexivity|].
  fold (del_all ks (delete k0 m)). rewrite IH by (intros H; apply Hn; right; exact H).
  apply lookup_delete_ne. intros ->. apply Hn. left. reflexivity.
Qed.

Theorem del_all_perm ks1 ks2 m : Permutation ks1 ks2 -> del_all ks1 m = del_all ks2 m.
Proof.
  intros P. apply map_eq. intros k.
  destruct (in_dec (fun a b => decide (a = b)) k ks1) as [H|H].
  - rewrite !del_all_in; [reflexivity|eapply Permutation_in; eauto|exact H].
  - rewrite !del_all_notin; [reflexivity| |exact H].
    intros H2. apply H. eapply Permutation_in; [apply Permutation_sym; exact P|exact H2].
Qed.
End Folds.

(* C19: faucets never on mainnet, and at most once anywhere. *)
From MelVerif Require Import STF.Proofs.Tactics STF.Proofs.Stakes.
Open Scope N_scope.

Section Faucet.
Variable SO : stf_oracle.
Variable s : wstate.
Variable lh : header.

Definition marker_key (t : tx) : N := coin_key (so_faucet_marker SO (t_hash t)) 0.
Definition has_key (cn : gmap N cdh * gmap N N) (k : N) : Prop := is_Some (fst cn !! k).

Lemma handle_faucet_mainnet tip t cn :
  s_network s = MAINNET -> is_bug_tx t = false -> handle_faucet SO s tip t cn = Reject EMalformed.
Proof. unfold handle_faucet. intros -> ->. reflexivity. Qed.

Lemma handle_faucet_duplicate tip t cn r :
  has_key cn (marker_key t) -> handle_faucet SO s tip t cn = Ok r -> False.
Proof.
  unfold handle_faucet, has_key, marker_key. intros [c Hc].
  destruct ((s_network s =? MAINNET) && negb (is_bug_tx t)); [discriminate|].
  rewrite Hc. discriminate.
Qed.

Lemma insert_coin_fst tip k c cn : fst (insert_coin tip k c cn) = <[k := c]> (fst cn).
Proof. destruct cn as [coins counts]. unfold insert_coin. destruct (coins !! k); destruct tip; reflexivity. Qed.

Lemma insert_coin_keeps tip k c cn k' : has_key cn k' -> has_key (insert_coin tip k c cn) k'.
Proof.
  unfold has_key. rewrite insert_coin_fst. intros H.
  destruct (decide (k = k')) as [->|Hne]; [rewrite lookup_insert; eauto|rewrite lookup_insert_ne by exact Hne; exact H].
Qed.

Lemma insert_coin_has tip k c cn : has_key (insert_coin tip k c cn) k.
Proof. unfold has_key. rewrite insert_coin_fst, lookup_insert. eauto. Qed.

Lemma handle_faucet_keeps tip t cn r k :
  handle_faucet SO s tip t cn = Ok r -> has_key cn k -> has_key r k.
Proof.
  unfold handle_faucet. destruct (_ && _); [discriminate|].
  destruct (fst cn !! _); [discriminate|].
  destruct (is_bug_tx t); intros H; injection H as <-; [auto|apply insert_coin_keeps].
Qed.

Lemma outputs_fold_keeps (relevant : gmap N cdh) tip t : forall (l : list (N * coindata)) cn k,
  has_key cn k ->
  has_key (fold_left (fun cn '(i, _) =>
      let k := coin_key (t_hash t) (i mod 256) in
      match relevant !! k with Some c => insert_coin tip k c cn | None => cn end) l cn) k.
Proof.
  induction l as [|[i o] l IH]; intros cn k H; cbn [fold_left]; [exact H|].
  apply IH. destruct (relevant !! _); [apply insert_coin_keeps|]; exact H.
Qed.

Lemma insert_outputs_keeps relevant tip t cn r k :
  insert_outputs SO s relevant tip t cn = Ok r -> has_key cn k -> has_key r k.
Proof.
  unfold insert_outputs. intros H Hk. inv_bind H as cn0 H0. injection H as <-.
  apply outputs_fold_keeps.
  destruct (txkind_eqb (t_kind t) KFaucet); [eapply handle_faucet_keeps; eauto|injection H0 as <-; exact Hk].
Qed.

Lemma insert_all_keeps relevant tip : forall txs cn r k,
  insert_all SO s relevant tip txs cn = Ok r -> has_key cn k -> has_key r k.
Proof.
  induction txs as [|t rest IH]; intros cn r k H Hk; cbn [insert_all] in H.
  - injection H as <-. exact Hk.
  - inv_bind H as cn1 H1. eapply IH; [exact H|]. eapply insert_outputs_keeps; eauto.
Qed.

(* a faucet whose marker is already in the coin tree makes the batch fail: at most once *)
Lemma insert_all_rejects_replay relevant tip : forall txs cn r t,
  insert_all SO s relevant tip txs cn = Ok r ->
  In t txs -> t_kind t = KFaucet -> has_key cn (marker_key t) -> False.
Proof.
  induction txs as [|t0 rest IH]; intros cn r t H Hin Hk Hm; [contradiction|].
  cbn [insert_all] in H. inv_bind H as cn1 H1.
  destruct Hin as [<-|Hin].
  - unfold insert_outputs in H1. rewrite Hk in H1. cbn [txkind_eqb] in H1.
    inv_bind H1 as cn0 H0. eapply handle_faucet_duplicate; eauto.
  - eapply IH; eauto. eapply insert_outputs_keeps; eauto.
Qed.

Theorem faucet_replay_rejected txs t s' :
  In t txs -> t_kind t = KFaucet -> is_Some (s_coins s !! marker_key t) ->
  apply_tx_batch SO s lh txs = Ok s' -> False.
Proof.
  intros Hin Hk Hm H.
  destruct (apply_tx_batch_inv _ _ _ _ _ H) as (relevant & n & _ & _ & _ & _ & Hn & _).
  unfold create_next_state in Hn. inv_bind Hn as cn Hcn.
  eapply insert_all_rejects_replay; eauto.
Qed.

(* two copies of one faucet transaction in a batch: the second finds the marker of the first *)
Lemma insert_all_marks relevant tip : forall txs cn r t,
  insert_all SO s relevant tip txs cn = Ok r ->
  In t txs -> t_kind t = KFaucet -> is_bug_tx t = false -> has_key r (marker_key t).
Proof.
  induction txs as [|t0 rest IH]; intros cn r t H Hin Hk Hb; [contradiction|].
  cbn [insert_all] in H. inv_bind H as cn1 H1.
  destruct Hin as [<-|Hin]; [|eapply IH; eauto].
  eapply insert_all_keeps; [exact H|].
  unfold insert_outputs in H1. rewrite Hk in H1. cbn [txkind_eqb] in H1. inv_bind H1 as cn0 H0.
  injection H1 as <-. apply outputs_fold_keeps.
  unfold handle_faucet in H0. destruct (_ && _); [discriminate|].
  destruct (fst cn !! _); [discriminate|]. rewrite Hb in H0. injection H0 as <-.
  apply insert_coin_has.
Qed.

(* mainnet: no faucet other than the grandfathered hash is ever accepted *)
Lemma insert_all_mainnet relevant tip : forall txs cn r t,
  insert_all SO s relevant tip txs cn = Ok r -> s_network s = MAINNET ->
  In t txs -> t_kind t = KFaucet -> is_bug_tx t = true.
Proof.
  induction txs as [|t0 rest IH]; intros cn r t H Hnet Hin Hk; [contradiction|].
  cbn [insert_all] in H. inv_bind H as cn1 H1.
  destruct Hin as [<-|Hin]; [|eapply IH; eauto].
  unfold insert_outputs in H1. rewrite Hk in H1. cbn [txkind_eqb] in H1. inv_bind H1 as cn0 H0.
  destruct (is_bug_tx t0) eqn:B; [reflexivity|].
  rewrite (handle_faucet_mainnet _ _ _ Hnet B) in H0. discriminate.
Qed.

Theorem mainnet_accepts_no_faucet txs s' :
  s_network s = MAINNET -> apply_tx_batch SO s lh txs = Ok s' ->
  forall t, In t txs -> t_kind t = KFaucet -> t_hash t = BUG_TX_HASH.
Proof.
  intros Hnet H t Hin Hk.
  destruct (apply_tx_batch_inv _ _ _ _ _ H) as (relevant & n & _ & _ & _ & _ & Hn & _).
  unfold create_next_state in Hn. inv_bind Hn as cn Hcn.
  pose proof (insert_all_mainnet _ _ _ _ _ _ Hcn Hnet Hin Hk) as B.
  unfold is_bug_tx in B. apply N.eqb_eq in B. exact B.
Qed.

(* the marker stays: removing coins never removes a key that no transaction of the batch spends *)
Lemma remove_coin_keeps tip k cn r k' : remove_coin tip k cn = Ok r -> k <> k' -> has_key cn k' -> has_key r k'.
Proof.
  unfold remove_coin, has_key. destruct cn as [coins counts]. intros H Hne Hk.
  destruct tip; [destruct (coins !! k); [destruct (_ =? 0); [discriminate|]|]|];
    injection H as <-; cbn [fst] in *; rewrite lookup_delete_ne by exact Hne; exact Hk.
Qed.

Lemma remove_coins_keeps tip : forall ks cn r k',
  remove_coins tip ks cn = Ok r -> ~ In k' ks -> has_key cn k' -> has_key r k'.
Proof.
  induction ks as [|k ks IH]; intros cn r k' H Hn Hk; cbn [remove_coins] in H.
  - injection H as <-. exact Hk.
  - inv_bind H as cn1 H1. eapply IH; [exact H| |].
    + intros Hin. apply Hn. right. exact Hin.
    + eapply remove_coin_keeps; eauto. intros ->. apply Hn. left. reflexivity.
Qed.

Lemma spend_all_keeps tip : forall txs n n' k,
  spend_all tip txs n = Ok n' -> ~ In k (all_inputs txs) ->
  is_Some (s_coins n !! k) -> is_Some (s_coins n' !! k).
Proof.
  induction txs as [|t rest IH]; intros n n' k H Hn Hk; cbn [spend_all] in H.
  - injection H as <-. exact Hk.
  - inv_bind H as n1 H1. eapply IH; [exact H| |].
    + intros Hin. apply Hn. unfold all_inputs. cbn [flat_map]. apply in_or_app. right. exact Hin.
    + unfold spend_and_pay in H1. inv_bind H1 as cn Hcn. inv_bind H1 as mf Hmf.
      destruct (t_fee t <? mf); [discriminate|]. injection H1 as <-. cbn [s_coins set_txs set_fees set_coins].
      apply (remove_coins_keeps _ _ _ _ k Hcn); [|exact Hk].
      intros Hin. apply Hn. unfold all_inputs. cbn [flat_map]. apply in_or_app. left. exact Hin.
Qed.

(* after acceptance the marker of every (non-grandfathered) faucet of the batch is in the coin tree,
   provided no transaction of the batch spends it (markers are not outputs of any transaction and are
   locked by the covenant hash 0, which no covenant hashes to) *)
Theorem accepted_faucet_leaves_marker txs t s' :
  apply_tx_batch SO s lh txs = Ok s' ->
  In t txs -> t_kind t = KFaucet -> is_bug_tx t = false ->
  ~ In (marker_key t) (all_inputs txs) ->
  is_Some (s_coins s' !! marker_key t).
Proof.
  intros H Hin Hk Hb Hns.
  destruct (apply_tx_batch_inv _ _ _ _ _ H) as (relevant & n & _ & _ & _ & _ & Hn & _ & -> & _).
  unfold create_next_state in Hn. inv_bind Hn as cn Hcn.
  eapply spend_all_keeps; [exact Hn|exact Hns|].
  cbn [s_coins set_coins]. eapply insert_all_marks; eauto.
Qed.

(* and a key that is present and not spent by the batch is still present afterwards *)
Theorem unspent_key_survives txs s' k :
  apply_tx_batch SO s lh txs = Ok s' -> ~ In k (all_inputs txs) ->
  is_Some (s_coins s !! k) -> is_Some (s_coins s' !! k).
Proof.
  intros H Hns Hk.
  destruct (apply_tx_batch_inv _ _ _ _ _ H) as (relevant & n & _ & _ & _ & _ & Hn & _ & -> & _).
  unfold create_next_state in Hn. inv_bind Hn as cn Hcn.
  eapply spend_all_keeps; [exact Hn|exact Hns|].
  cbn [s_coins set_coins]. eapply insert_all_keeps; eauto.
Qed.
End Faucet.

(* C15: at sealing only genuine pool requests have their outputs transformed; every other coin stays
   exactly as it was. *)
From MelVerif Require Import STF.Proofs.Tactics STF.Proofs.Frame STF.Proofs.Stakes STF.Proofs.Faucet.
Open Scope N_scope.

Definition key0 (t : tx) : N := coin_key (t_hash t) 0.
Definition key1 (t : tx) : N := coin_key (t_hash t) 1.
Definition untouched_by (l : list tx) (k : N) : Prop := forall t, In t l -> k <> key0 t /\ k <> key1 t.

Lemma coins_put_coin s k c k' : k' <> k -> s_coins (put_coin s k c) !! k' = s_coins s !! k'.
Proof.
  intros Hne. unfold put_coin. cbn [s_coins set_coins]. rewrite insert_coin_fst. cbn [fst].
  apply lookup_insert_ne. congruence.
Qed.
Lemma coins_put_pool s k p : s_coins (put_pool s k p) = s_coins s.
Proof. reflexivity. Qed.
Lemma coins_del_coin s k s' k' : del_coin s k = Ok s' -> k' <> k -> s_coins s' !! k' = s_coins s !! k'.
Proof.
  unfold del_coin. intros H Hne. inv_bind H as cn Hcn. injection H as <-. cbn [s_coins set_coins].
  unfold remove_coin in Hcn.
  destruct (tip_906 s); [destruct (s_coins s !! k); [destruct (_ =? 0); [discriminate|]|]|];
    injection Hcn as <-; cbn [fst]; apply lookup_delete_ne; congruence.
Qed.

Section Seal.
Variable SO : stf_oracle.

Lemma coins_swaps_go k lw rw tl tr : forall l s k', untouched_by l k' ->
  s_coins (swaps_go k lw rw tl tr l s) !! k' = s_coins s !! k'.
Proof.
  induction l as [|t rest IH]; intros s k' Hu; cbn [swaps_go]; [reflexivity|].
  rewrite IH by (intros t' Ht'; apply Hu; right; exact Ht').
  apply coins_put_coin. apply (Hu t). left. reflexivity.
Qed.

Lemma coins_deposits_go k tl tm : forall l left s s' k', untouched_by l k' ->
  deposits_go SO k tl tm l left s = Ok s' -> s_coins s' !! k' = s_coins s !! k'.
Proof.
  induction l as [|t rest IH]; intros left s s' k' Hu H; cbn [deposits_go] in H.
  - injection H as <-. reflexivity.
  - inv_bind H as s2 H2. rewrite (IH _ _ _ _ (fun t' Ht' => Hu t' (or_intror Ht')) H).
    destruct (Hu t (or_introl eq_refl)) as [N0 N1].
    destruct (legacy_net s && (s_height s <? 978392)).
    + injection H2 as <-. apply coins_put_coin. exact N0.
    + rewrite (coins_del_coin _ _ _ _ H2 N1). apply coins_put_coin. exact N0.
Qed.

Lemma coins_withdrawals_go k tl tr total : forall l s k', untouched_by l k' ->
  s_coins (withdrawals_go k tl tr total l s) !! k' = s_coins s !! k'.
Proof.
  induction l as [|t rest IH]; intros s k' Hu; cbn [withdrawals_go]; [reflexivity|].
  rewrite IH by (intros t' Ht'; apply Hu; right; exact Ht').
  destruct (Hu t (or_introl eq_refl)) as [N0 N1].
  rewrite coins_put_coin by exact N1. apply coins_put_coin. exact N0.
Qed.

Lemma untouched_sub l1 l2 k : (forall t, In t l1 -> In t l2) -> untouched_by l2 k -> untouched_by l1 k.
Proof. intros Hs Hu t Ht. apply Hu. apply Hs. exact Ht. Qed.

Lemma txs_for_pool_sub reqs k t : In t (txs_for_pool reqs k) -> In t reqs.
Proof. unfold txs_for_pool. intros H. apply filter_In in H. tauto. Qed.

Lemma coins_for_pools f reqs k' :
  (forall k s txs s', (forall t, In t txs -> In t reqs) -> f k s txs = Ok s' -> s_coins s' !! k' = s_coins s !! k') ->
  forall keys s s', for_pools f reqs keys s = Ok s' -> s_coins s' !! k' = s_coins s !! k'.
Proof.
  intros Hf keys. induction keys as [|k r IH]; intros s s' H; cbn [for_pools] in H.
  - injection H as <-. reflexivity.
  - inv_bind H as s1 H1. rewrite (IH _ _ H). eapply Hf; [|exact H1]. intros t. apply txs_for_pool_sub.
Qed.

Lemma coins_process_swaps s s' k' :
  untouched_by (List.filter (is_swap_request s) (sorted_txs s)) k' ->
  process_swaps s = Ok s' -> s_coins s' !! k' = s_coins s !! k'.
Proof.
  intros Hu. unfold process_swaps. apply coins_for_pools.
  intros k s0 txs s1 Hsub H. unfold swaps_single_pool in H.
  destruct (get_pool s0 k); [|discriminate]. inv_bind H as r Hr. destruct r as [[p' lw] rw]. injection H as <-.
  rewrite coins_put_pool. apply coins_swaps_go. eapply untouched_sub; eauto.
Qed.

Lemma coins_process_deposits s s' k' :
  untouched_by (List.filter (is_deposit_request s) (sorted_txs s)) k' ->
  process_deposits SO s = Ok s' -> s_coins s' !! k' = s_coins s !! k'.
Proof.
  intros Hu. unfold process_deposits. apply coins_for_pools.
  intros k s0 txs s1 Hsub H. unfold deposits_single_pool in H.
  inv_bind H as pl Hpl. destruct pl as [p' tl].
  rewrite (coins_deposits_go _ _ _ _ _ _ _ _ (untouched_sub _ _ _ Hsub Hu) H). rewrite coins_put_pool. reflexivity.
Qed.

Lemma coins_process_withdrawals s s' k' :
  untouched_by (List.filter (is_withdraw_request SO s) (sorted_txs s)) k' ->
  process_withdrawals SO s = Ok s' -> s_coins s' !! k' = s_coins s !! k'.
Proof.
  intros Hu. unfold process_withdrawals. apply coins_for_pools.
  intros k s0 txs s1 Hsub H. unfold withdrawals_single_pool in H.
  destruct (get_pool s0 k); [|discriminate].
  destruct (_ || _); [injection H as <-; reflexivity|].
  inv_bind H as r Hr. destruct r as [[p' tl] tr]. injection H as <-.
  rewrite coins_withdrawals_go by (eapply untouched_sub; eauto). rewrite coins_put_pool. reflexivity.
Qed.

Lemma coins_create_builtins s : s_coins (create_builtins s) = s_coins s.
Proof.
  unfold create_builtins.
  repeat match goal with
         | |- context [match get_pool ?s ?k with _ => _ end] => destruct (get_pool s k)
         | |- context [if ?b then _ else _] => destruct b
         end; reflexivity.
Qed.

Lemma coins_process_pegging s s' : process_pegging s = Ok s' -> s_coins s' = s_coins s.
Proof.
  unfold process_pegging. destruct (get_pool s (poolkey_new Mel Sym)); [|discriminate].
  intros H. inv_bind H as x Hx. destruct x as [xn xd].
  match type of H with (if ?c then _ else _) = _ => destruct c end; [discriminate|].
  inv_bind H as sm1 H1. inv_bind H as sm2 H2. injection H as <-. reflexivity.
Qed.

Lemma coins_tip909 s s' : apply_tip_909 s = Ok s' -> s_coins s' = s_coins s.
Proof.
  unfold apply_tip_909. destruct (128 <=? _); [discriminate|].
  destruct (get_pool s (poolkey_new Mel Sym)); [|discriminate].
  intros H. inv_bind H as r Hr. destruct r as [[sm' mel] x].
  inv_bind H as fp Hfp.
  match type of H with context [get_pool ?st ?k] => destruct (get_pool st k) end; [|discriminate].
  inv_bind H as r2 Hr2. injection H as <-. reflexivity.
Qed.

(* transaction sets seen by the three request filters *)
Lemma txs_same a b : s_txs a = s_txs b -> sorted_txs a = sorted_txs b.
Proof. unfold sorted_txs. intros ->. reflexivity. Qed.

(* a pool request: kind Swap / LiqDeposit / LiqWithdraw and data that is the canonical name of a pool *)
Definition is_pool_request (t : tx) : bool :=
  (txkind_eqb (t_kind t) KSwap || txkind_eqb (t_kind t) KLiqDeposit || txkind_eqb (t_kind t) KLiqWithdraw)
  && match tx_pool t with Some _ => true | None => false end.

Lemma swap_request_is_request s t : is_swap_request s t = true -> is_pool_request t = true.
Proof.
  unfold is_swap_request, is_pool_request. destruct (txkind_eqb (t_kind t) KSwap); [|discriminate].
  destruct (t_outputs t); [discriminate|]. destruct (has_coin _ _); [|discriminate].
  destruct (tx_pool t); [reflexivity|discriminate].
Qed.
Lemma deposit_request_is_request s t : is_deposit_request s t = true -> is_pool_request t = true.
Proof.
  unfold is_deposit_request, is_pool_request. destruct (txkind_eqb (t_kind t) KLiqDeposit); [|discriminate].
  rewrite orb_true_r. cbn [orb andb]. destruct (_ <=? _); [|discriminate]. destruct (has_coin _ _); [|discriminate].
  destruct (has_coin _ _); [|discriminate]. destruct (tx_pool t); [reflexivity|discriminate].
Qed.
Lemma withdraw_request_is_request s t : is_withdraw_request SO s t = true -> is_pool_request t = true.
Proof.
  unfold is_withdraw_request, is_pool_request. destruct (txkind_eqb (t_kind t) KLiqWithdraw); [|discriminate].
  rewrite !orb_true_r. cbn [andb]. destruct (_ =? 1); [|discriminate]. destruct (has_coin _ _); [|discriminate].
  destruct (tx_pool t); [reflexivity|discriminate].
Qed.

(* C15: a coin that is not output 0 or 1 of a pool request of this block, and not the proposer reward,
   is exactly the same after sealing *)
Lemma seal_leaves_other_coins_gen s a s' k :
  seal SO s a = Ok s' ->
  (forall t, In t (sorted_txs s) -> is_pool_request t = true -> k <> key0 t /\ k <> key1 t) ->
  (a <> None -> k <> coin_key (so_reward_id SO (s_height s)) 0) ->
  s_coins s' !! k = s_coins s !! k.
Proof.
  intros H Hu Hrw. unfold seal in H. inv_bind H as s1 H1.
  destruct (negb (pool_count_ok s1)); [discriminate|]. inv_bind H as s2 H2.
  (* preseal *)
  unfold preseal_melmint in H1. inv_bind H1 as sa Ha. inv_bind H1 as sb Hb. inv_bind H1 as sc Hc.
  pose proof (frame_create_builtins s) as F0.
  pose proof (frame_process_swaps _ _ Ha) as Fa. pose proof (frame_process_deposits SO _ _ Hb) as Fb.
  pose proof (frame_process_withdrawals SO _ _ Hc) as Fc.
  assert (T0: s_txs (create_builtins s) = s_txs s) by (unfold frame_fp, frame in F0; congruence).
  assert (Ta: s_txs sa = s_txs s) by (unfold frame_fp, frame in Fa; congruence).
  assert (Tb: s_txs sb = s_txs s) by (unfold frame_fp, frame in Fb; congruence).
  assert (E1: s_coins s1 !! k = s_coins s !! k).
  { rewrite (coins_process_pegging _ _ H1).
    rewrite (coins_process_withdrawals sb sc k); [|intros t Ht; apply filter_In in Ht as [Ht Hr]; rewrite (txs_same _ _ Tb) in Ht; apply Hu; [exact Ht|exact (withdraw_request_is_request sb t Hr)]|exact Hc].
    rewrite (coins_process_deposits sa sb k); [|intros t Ht; apply filter_In in Ht as [Ht Hr]; rewrite (txs_same _ _ Ta) in Ht; apply Hu; [exact Ht|exact (deposit_request_is_request sa t Hr)]|exact Hb].
    rewrite (coins_process_swaps (create_builtins s) sa k); [|intros t Ht; apply filter_In in Ht as [Ht Hr]; rewrite (txs_same _ _ T0) in Ht; apply Hu; [exact Ht|exact (swap_request_is_request (create_builtins s) t Hr)]|exact Ha].
    rewrite coins_create_builtins. reflexivity. }
  assert (E2: s_coins s2 = s_coins s1).
  { destruct (tip_909 s1); [apply coins_tip909; exact H2|injection H2 as <-; reflexivity]. }
  assert (Hh: s_height s2 = s_height s).
  { pose proof (frame_process_pegging _ _ H1) as Fp.
    assert (frame s1 = frame s) by (apply frame_fp_frame; congruence).
    assert (frame s2 = frame s1) by (destruct (tip_909 s1); [apply frame_tip909; exact H2|injection H2 as <-; reflexivity]).
    unfold frame in *. congruence. }
  destruct a as [act|].
  - unfold collect_proposer_fee in H. inv_bind H as v Hv. injection H as <-.
    rewrite coins_put_coin; [cbn [s_coins set_fees set_mult]; rewrite E2; exact E1|].
    cbn [s_height set_fees set_mult]. rewrite Hh. apply Hrw. discriminate.
  - injection H as <-. rewrite E2. exact E1.
Qed.

Theorem seal_leaves_other_coins s a s' k :
  seal SO s a = Ok s' ->
  (forall t, In t (sorted_txs s) -> is_pool_request t = true -> k <> key0 t /\ k <> key1 t) ->
  k <> coin_key (so_reward_id SO (s_height s)) 0 ->
  s_coins s' !! k = s_coins s !! k.
Proof. intros H Hu Hrw. eapply seal_leaves_other_coins_gen; eauto. Qed.
End Seal.

(* what a pool request is *)
Lemma canonical_key_spec k data :
  canonical_key k data = true ->
  fst k <> snd k /\ fst k <> NewCustom /\ snd k <> NewCustom /\
  poolkey_new (fst k) (snd k) = k /\ poolkey_bytes k = data.
Proof.
  unfold canonical_key. intros H.
  apply andb_true_iff in H as [H H5]. apply andb_true_iff in H as [H H4].
  apply andb_true_iff in H as [H H3]. apply andb_true_iff in H as [H1 H2]. cbn zeta in H4.
  assert (Deq: forall a b, denom_eqb a b = true -> a = b).
  { intros a b. destruct a, b; cbn; try discriminate; try reflexivity. intros E. apply N.eqb_eq in E. congruence. }
  assert (Dne: forall a b, denom_eqb a b = false -> a <> b).
  { intros a b E ->. destruct b; cbn in E; try discriminate. rewrite N.eqb_refl in E. discriminate. }
  split; [apply Dne, negb_true_iff, H1|].
  split; [destruct (fst k); cbn in H2; congruence|].
  split; [destruct (snd k); cbn in H3; congruence|].
  split.
  - apply andb_true_iff in H4 as [A B]. apply Deq in A, B. destruct k, (poolkey_new _ _); cbn in *; congruence.
  - revert H5. generalize (poolkey_bytes k) as a. intros a. revert data.
    induction a as [|x a IH]; intros [|y b] E; try discriminate; [reflexivity|].
    apply andb_true_iff in E as [E1 E2]. apply N.eqb_eq in E1. subst. f_equal. apply IH. exact E2.
Qed.

Theorem pool_request_spec t :
  is_pool_request t = true ->
  (t_kind t = KSwap \/ t_kind t = KLiqDeposit \/ t_kind t = KLiqWithdraw) /\
  exists k, t_poolkey t = Some k /\ fst k <> snd k /\ fst k <> NewCustom /\ snd k <> NewCustom /\
            poolkey_new (fst k) (snd k) = k /\ poolkey_bytes k = t_data t.
Proof.
  unfold is_pool_request, tx_pool. rewrite andb_true_iff. intros [Hk Hp]. split.
  - destruct (t_kind t); cbn in Hk; try discriminate; auto.
  - destruct (t_poolkey t) as [k|]; [|discriminate]. destruct (canonical_key k (t_data t)) eqn:E; [|discriminate].
    exists k. split; [reflexivity|]. apply canonical_key_spec. exact E.
Qed.

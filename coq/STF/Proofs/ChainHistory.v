(* C07 over whole histories: in every state reachable by batches and block boundaries (each boundary storing the
   real header of the block just sealed), the history holds one header for every lower height, each with its own
   height and the chain's network, and each (above height 0) carrying the hash of the header one below: the headers
   chain together down to the first block. *)
From MelVerif Require Import STF.Proofs.Tactics STF.Proofs.MapLemmas STF.Proofs.Frame STF.Proofs.Stakes STF.Proofs.Block.
From Coq Require Import ZifyN ZifyNat ZifyBool.
Open Scope N_scope.

Section Chain.
Variable SO : stf_oracle.
Variable rf : wstate -> roots.          (* the five Merkle roots as a function of the state *)

Inductive cop :=
| CBatch (lh : header) (txs : list tx)
| CBlock (a : option action).

Definition cstep (s : wstate) (o : cop) : wstate :=
  match o with
  | CBatch lh txs => match apply_tx_batch SO s lh txs with Ok s' => s' | _ => s end
  | CBlock a =>
    match seal SO s a with
    | Ok s' => match header_of SO (rf s') s' with Ok h => next_unsealed s' h | _ => s end
    | _ => s
    end
  end.

Definition Chain (s : wstate) : Prop :=
  (forall h, h < s_height s -> is_Some (s_history s !! h)) /\
  (forall h hd, s_history s !! h = Some hd ->
     h < s_height s /\ h_height hd = h /\ h_network hd = s_network s /\
     (h = 0 -> h_previous hd = 0) /\
     (forall p, h <> 0 -> s_history s !! (h - 1) = Some p -> h_previous hd = so_header_hash SO p)).

Lemma chain_same a b : s_history b = s_history a -> s_height b = s_height a -> s_network b = s_network a -> Chain a -> Chain b.
Proof. intros E1 E2 E3 [F C]. unfold Chain. rewrite E1, E2, E3. split; assumption. Qed.

Lemma cstep_chain s o : Chain s -> Chain (cstep s o).
Proof.
  intros Hc. destruct o as [lh txs|a]; cbn [cstep].
  - destruct (apply_tx_batch SO s lh txs) as [s'| |] eqn:E; [|exact Hc|exact Hc].
    destruct (apply_tx_batch_frame SO s lh txs s' E) as (E1 & E2 & E3 & _). eapply chain_same; eauto.
  - destruct (seal SO s a) as [s'| |] eqn:E; [|exact Hc|exact Hc].
    destruct (header_of SO (rf s') s') as [hd| |] eqn:Eh; [|exact Hc|exact Hc].
    destruct (seal_frame SO s a s' E) as (N1 & N2 & N3 & _).
    assert (Hc': Chain s') by (eapply chain_same; eauto).
    destruct Hc' as [F C].
    destruct (header_of_fields SO (rf s') s' hd Eh) as (A1 & A2 & _ & _ & _ & _ & _ & _ & _ & _ & A3 & A4).
    destruct (next_unsealed_link s' hd) as (B1 & B2 & B3 & B4 & _).
    split.
    + intros h Hh. rewrite B1 in Hh. destruct (N.eq_dec h (s_height s')) as [->|Hne]; [rewrite B3; eauto|].
      rewrite (B4 h Hne). apply F. lia.
    + intros h hd0 Hl. rewrite B1, B2.
      destruct (N.eq_dec h (s_height s')) as [->|Hne].
      * rewrite B3 in Hl. injection Hl as <-. split; [lia|]. split; [exact A2|]. split; [exact A1|]. split; [exact A3|].
        intros p Hnz Hp. rewrite (B4 (s_height s' - 1)) in Hp by lia. apply A4; assumption.
      * rewrite (B4 h Hne) in Hl. destruct (C h hd0 Hl) as (C1 & C2 & C3 & C4 & C5).
        split; [lia|]. split; [exact C2|]. split; [exact C3|]. split; [exact C4|].
        intros p Hnz Hp. rewrite (B4 (h - 1)) in Hp by lia. apply C5; assumption.
Qed.

Theorem chain_history : forall ops s, Chain s -> Chain (fold_left cstep ops s).
Proof.
  induction ops as [|o r IH]; intros s Hc; cbn [fold_left]; [exact Hc|]. apply IH, cstep_chain. exact Hc.
Qed.

(* a state with an empty history at height 0 (the genesis) is a chain *)
Lemma genesis_chain s : s_height s = 0 -> s_history s = ∅ -> Chain s.
Proof.
  intros E0 Eh. split.
  - intros h Hh. lia.
  - intros h hd Hl. rewrite Eh, lookup_empty in Hl. discriminate.
Qed.

(* consecutive headers of a reachable history are linked by hash *)
Corollary reachable_headers_link ops s h hd p :
  Chain s -> let f := fold_left cstep ops s in
  s_history f !! (h + 1) = Some hd -> s_history f !! h = Some p ->
  h_previous hd = so_header_hash SO p /\ h_height hd = h_height p + 1 /\ h_network hd = h_network p.
Proof.
  intros Hc f Hd Hp. destruct (chain_history ops s Hc) as [_ C]. fold f in C.
  destruct (C _ _ Hd) as (_ & D2 & D3 & _ & D5). destruct (C _ _ Hp) as (_ & P2 & P3 & _).
  split; [apply D5; [lia|]; replace (h + 1 - 1) with h by lia; exact Hp|]. split; [lia|congruence].
Qed.

Lemma chain_def s :
  Chain s <->
  (forall h, h < s_height s -> is_Some (s_history s !! h)) /\
  (forall h hd, s_history s !! h = Some hd ->
     h < s_height s /\ h_height hd = h /\ h_network hd = s_network s /\
     (h = 0 -> h_previous hd = 0) /\
     (forall p, h <> 0 -> s_history s !! (h - 1) = Some p -> h_previous hd = so_header_hash SO p)).
Proof. reflexivity. Qed.
Lemma cstep_def s o :
  cstep s o =
  match o with
  | CBatch lh txs => match apply_tx_batch SO s lh txs with Ok s' => s' | _ => s end
  | CBlock a =>
    match seal SO s a with
    | Ok s' => match header_of SO (rf s') s' with Ok h => next_unsealed s' h | _ => s end
    | _ => s
    end
  end.
Proof. reflexivity. Qed.
End Chain.

(* extract_pool_keys_sorted yields every pool named by a request exactly once: the list the settlement loops
   iterate has no duplicates (what the C15/C16 seeded change "dedup before sort" breaks). *)
From MelVerif Require Import STF.Proofs.Tactics STF.Proofs.Supply.
From Coq Require Import Sorting.Sorted ZifyN ZifyNat ZifyBool.
Open Scope N_scope.

Definition rk1 (d : denom) : N := fst (denom_rank d).
Definition rk2 (d : denom) : N := snd (denom_rank d).

Lemma denom_ltb_rk a b : denom_ltb a b = (rk1 a <? rk1 b) || ((rk1 a =? rk1 b) && (rk2 a <? rk2 b)).
Proof. unfold denom_ltb, rk1, rk2. destruct (denom_rank a), (denom_rank b). reflexivity. Qed.

Lemma denom_eqb_rk a b : denom_eqb a b = (rk1 a =? rk1 b) && (rk2 a =? rk2 b).
Proof. destruct a, b; cbn; try reflexivity. Qed.

Lemma poolkey_ltb_irrefl a : poolkey_ltb a a = false.
Proof. unfold poolkey_ltb. rewrite !denom_ltb_rk, denom_eqb_rk. lia. Qed.

Lemma poolkey_ltb_trans a b c : poolkey_ltb a b = true -> poolkey_ltb b c = true -> poolkey_ltb a c = true.
Proof. unfold poolkey_ltb. rewrite !denom_ltb_rk, !denom_eqb_rk. lia. Qed.

Lemma poolkey_total a b : poolkey_eqb a b = false -> poolkey_ltb a b = false -> poolkey_ltb b a = true.
Proof. unfold poolkey_ltb, poolkey_eqb. rewrite !denom_ltb_rk, !denom_eqb_rk. lia. Qed.

Lemma poolkey_eqb_true a b : poolkey_eqb a b = true -> a = b.
Proof.
  unfold poolkey_eqb. rewrite andb_true_iff, !denom_eqb_eq. destruct a, b; cbn. intros [-> ->]. reflexivity.
Qed.

Definition klt (a b : denom * denom) : Prop := poolkey_ltb a b = true.

Lemma insert_sorted_in k : forall l x, In x (insert_sorted k l) -> x = k \/ In x l.
Proof.
  induction l as [|y l IH]; intros x H; cbn [insert_sorted] in H.
  - destruct H as [<-|[]]. left. reflexivity.
  - destruct (poolkey_eqb k y); [right; exact H|]. destruct (poolkey_ltb k y).
    + destruct H as [<-|H]; [left; reflexivity|right; exact H].
    + destruct H as [<-|H]; [right; left; reflexivity|]. destruct (IH x H); [left; assumption|right; right; assumption].
Qed.

Lemma insert_sorted_has k : forall l, In k (insert_sorted k l).
Proof.
  induction l as [|y l IH]; cbn [insert_sorted]; [left; reflexivity|].
  destruct (poolkey_eqb k y) eqn:E; [apply poolkey_eqb_true in E; subst; left; reflexivity|].
  destruct (poolkey_ltb k y); [left; reflexivity|right; exact IH].
Qed.

Lemma insert_sorted_keeps k : forall l x, In x l -> In x (insert_sorted k l).
Proof.
  induction l as [|y l IH]; intros x H; [contradiction|]. cbn [insert_sorted].
  destruct (poolkey_eqb k y); [exact H|]. destruct (poolkey_ltb k y); [right; exact H|].
  destruct H as [<-|H]; [left; reflexivity|right; apply IH; exact H].
Qed.

Lemma insert_sorted_sorted k : forall l, StronglySorted klt l -> StronglySorted klt (insert_sorted k l).
Proof.
  induction l as [|y l IH]; intros H; cbn [insert_sorted]; [repeat constructor|].
  inversion H as [|? ? Hs Hf]; subst.
  destruct (poolkey_eqb k y) eqn:E; [exact H|]. destruct (poolkey_ltb k y) eqn:L.
  - constructor; [exact H|]. constructor; [exact L|].
    rewrite Forall_forall in Hf |- *. intros x Hx. eapply poolkey_ltb_trans; [exact L|apply Hf; exact Hx].
  - constructor; [apply IH; exact Hs|].
    rewrite Forall_forall in Hf |- *. intros x Hx. apply insert_sorted_in in Hx as [->|Hx]; [|apply Hf; exact Hx].
    apply poolkey_total; assumption.
Qed.

Lemma sorted_nodup : forall l, StronglySorted klt l -> NoDup l.
Proof.
  induction l as [|x l IH]; intros H; [constructor|]. inversion H as [|? ? Hs Hf]; subst.
  constructor; [|apply IH; exact Hs]. intros Hin. rewrite Forall_forall in Hf. specialize (Hf x Hin).
  unfold klt in Hf. rewrite poolkey_ltb_irrefl in Hf. discriminate.
Qed.

Lemma pool_keys_sorted_sorted txs : StronglySorted klt (pool_keys_sorted txs).
Proof.
  unfold pool_keys_sorted. induction txs as [|t l IH]; cbn [fold_right]; [constructor|].
  destruct (tx_pool t); [apply insert_sorted_sorted; exact IH|exact IH].
Qed.

Theorem pool_keys_sorted_nodup txs : NoDup (pool_keys_sorted txs).
Proof. apply sorted_nodup, pool_keys_sorted_sorted. Qed.

Theorem pool_keys_sorted_in txs k : In k (pool_keys_sorted txs) <-> exists t, In t txs /\ tx_pool t = Some k.
Proof.
  unfold pool_keys_sorted. induction txs as [|t l IH]; cbn [fold_right].
  - split; [intros []|intros (t & [] & _)].
  - destruct (tx_pool t) as [k0|] eqn:E.
    + split.
      * intros H. apply insert_sorted_in in H as [->|H]; [exists t; split; [left; reflexivity|exact E]|].
        apply IH in H as (t' & Ht' & E'). exists t'. split; [right; exact Ht'|exact E'].
      * intros (t' & [<-|Ht'] & E'); [rewrite E in E'; injection E' as <-; apply insert_sorted_has|].
        apply insert_sorted_keeps, IH. eauto.
    + rewrite IH. split; intros (t' & Ht' & E'); [exists t'; split; [right; exact Ht'|exact E']|].
      destruct Ht' as [<-|Ht']; [congruence|eauto].
Qed.

(* C09: validation is total.  Proved here: the arithmetic and control-flow panic sites of the model are
   unreachable under the stated guards (each corresponds to a repaired or guarded panic site of the code). *)
From MelVerif Require Import STF.Proofs.Tactics STF.Proofs.Pool STF.Proofs.Counts VM.LoopProofs.
From Coq Require Import ZifyN ZifyNat ZifyBool.
Open Scope N_scope.

(* covenants always terminate: the fuel run supplies is never exhausted (from C11) *)
Theorem covenant_execution_terminates O prog hp : run O prog hp <> OutOfFuel.
Proof. apply run_never_out_of_fuel. Qed.

(* a transaction that passed the up-front check cannot overflow the unchecked sums of melstructs *)
Theorem totals_fit_no_overflow t :
  totals_fit t = true -> (exists outs, total_outputs t = Ok outs) /\ (exists w, tx_weight t = Ok w) /\
  forall mult, exists f, min_fee mult t = Ok f.
Proof.
  unfold totals_fit, tx_weight, min_fee. destruct (total_outputs t) as [outs| |]; try discriminate.
  destruct (sum128 _) as [sw| |] eqn:E; try discriminate. intros _.
  split; [eauto|]. split; [eexists; reflexivity|]. intros mult. unfold tx_weight. rewrite E. eexists. reflexivity.
Qed.

(* the fee-multiplier step and the share computation are total functions (no outcome type any more) *)
Theorem fee_multiplier_step_total after901 m d : exists m', move_fee_multiplier after901 m d = m'.
Proof. eauto. Qed.
Theorem share_of_empty_total_is_zero x a : multiply_ratio x a 0 = 0.
Proof. reflexivity. Qed.

(* mint speed arithmetic cannot overflow once the difficulty is in 1..=64 *)
Theorem mint_speed_no_overflow difficulty : 1 <= difficulty <= 64 -> 100 * 2 ^ difficulty < U128.
Proof.
  intros [_ H]. assert (2 ^ difficulty <= 2 ^ 64) by (apply N.pow_le_mono_r; [discriminate|exact H]).
  change (2 ^ 64) with 18446744073709551616 in H0. unfold U128. lia.
Qed.

(* a swap request is only settled against a pool with two non-empty sides, and then swap_many cannot panic *)
Theorem settled_swap_cannot_panic p l r :
  1 <= p_lefts p -> 1 <= p_rights p -> p_lefts p + l < U128 -> p_rights p + r < U128 ->
  exists res, swap_many p l r = Ok res.
Proof. intros H1 H2 H3 H4. destruct (swap_many_spec p l r H1 H2 H3 H4) as (acc & E & _). eauto. Qed.

Theorem swap_request_needs_live_pool s t :
  is_swap_request s t = true ->
  exists k p, tx_pool t = Some k /\ get_pool s k = Some p /\ 1 <= p_lefts p /\ 1 <= p_rights p.
Proof.
  unfold is_swap_request. destruct (txkind_eqb (t_kind t) KSwap); [|discriminate]. cbn [andb].
  destruct (t_outputs t) as [|o0 rest]; [discriminate|].
  destruct (has_coin s (coin_key (t_hash t) 0)); [|discriminate]. cbn [andb].
  destruct (tx_pool t) as [k|]; [|discriminate].
  destruct (get_pool s k) as [p|] eqn:Hp; [|discriminate]. intros H.
  destruct (N.ltb_spec 0 (p_lefts p)) as [H1|]; [|discriminate].
  destruct (N.ltb_spec 0 (p_rights p)) as [H2|]; [|discriminate].
  exists k, p. repeat split; auto; lia.
Qed.

(* a withdrawal is only settled when the pool can pay it, and then PoolState::withdraw cannot panic *)
Theorem guarded_withdraw_cannot_panic k s ws :
  forall p, get_pool s k = Some p -> exists s', withdrawals_single_pool k s ws = Ok s'.
Proof.
  intros p Hp. unfold withdrawals_single_pool. rewrite Hp.
  destruct (N.eqb_spec (p_liqs p) 0) as [E|E]; cbn [orb]; [eauto|].
  destruct (N.ltb_spec (p_liqs p) (sat_sum (map (fun t => cd_value (out0 t)) ws))) as [H|H]; [eauto|].
  destruct (pool_withdraw_spec p _ H ltac:(lia)) as (p' & a & b & -> & _). cbn [obind]. eauto.
Qed.

(* with consistent counts, spending coins never underflows a count (TIP-906) *)
Theorem spending_cannot_underflow_counts ks cn :
  CountsOk cn -> exists r, remove_coins true ks cn = Ok r.
Proof. intros H. destruct (remove_coins_counts_ok ks cn H) as (r & -> & _). eauto. Qed.

(* confirm is a total boolean function of the state and the proof *)
Theorem confirm_total SO s hh proof : exists b, confirm SO s hh proof = b.
Proof. eauto. Qed.

(* C16, first clause, from the beginning of a chain: the MEL/SYM and MEL/ERG pools - and where TIP-902 is active
   the ERG/SYM pool - are created by the first seal with 10^9 of liquidity that nobody owns, so - if at most 10^9 - 1 of their tokens existed before (none
   does in a genesis state) - they are born live and backed with room to spare, and stay so in every later
   state of every history. *)
From MelVerif Require Import STF.Proofs.Tactics STF.Proofs.MapLemmas STF.Proofs.Frame STF.Proofs.Supply STF.Proofs.Pool STF.Proofs.BatchSupply
  STF.Proofs.SealCoins STF.Proofs.SealSupply STF.Proofs.PoolKeys STF.Proofs.SealLift STF.Proofs.SealInv STF.Proofs.HashFacts STF.Proofs.SealCounts
  STF.Proofs.Coins STF.Proofs.Stakes STF.Proofs.History STF.Proofs.Declared STF.Proofs.PoolHistory STF.Proofs.SealPegged STF.Proofs.SupplyHistory STF.Proofs.BoundsHistory.
From Coq Require Import ZifyN ZifyNat ZifyBool.
Open Scope N_scope.

Definition add_builtin (k : denom * denom) (s : wstate) : wstate :=
  match get_pool s k with Some _ => s | None => put_pool s k builtin_pool end.

Lemma create_builtins_eq s :
  create_builtins s =
  let s2 := add_builtin (poolkey_new Mel Erg) (add_builtin (poolkey_new Mel Sym) s) in
  if tip_902 s2 then add_builtin (poolkey_new Erg Sym) s2 else s2.
Proof. reflexivity. Qed.

Lemma add_builtin_has k s : is_Some (get_pool (add_builtin k s) k).
Proof. unfold add_builtin. destruct (get_pool s k) eqn:E; [rewrite E; eauto|rewrite get_pool_put_same; eauto]. Qed.
Lemma add_builtin_keeps k k' s : is_Some (get_pool s k') -> is_Some (get_pool (add_builtin k s) k').
Proof.
  intros [q Eq]. unfold add_builtin. destruct (get_pool s k) eqn:E; [eauto|].
  destruct (N.eq_dec (poolkey_code k) (poolkey_code k')) as [Ec|Ec]; [unfold get_pool in *; rewrite Ec in E; congruence|].
  rewrite get_pool_put_other by exact Ec. eauto.
Qed.
Lemma add_builtin_id k s : is_Some (get_pool s k) -> add_builtin k s = s.
Proof. intros [q Eq]. unfold add_builtin. rewrite Eq. reflexivity. Qed.
Lemma add_builtin_tip k s : tip_902 (add_builtin k s) = tip_902 s.
Proof. unfold add_builtin. destruct (get_pool s k); reflexivity. Qed.

Lemma create_builtins_idem s : create_builtins (create_builtins s) = create_builtins s.
Proof.
  rewrite (create_builtins_eq (create_builtins s)). cbn zeta.
  assert (H1: is_Some (get_pool (create_builtins s) (poolkey_new Mel Sym)))
    by (destruct (create_builtins_exist s) as [[p E] _]; eauto).
  assert (H2: is_Some (get_pool (create_builtins s) (poolkey_new Mel Erg)))
    by (destruct (create_builtins_exist s) as [_ [p E]]; eauto).
  rewrite (add_builtin_id _ _ H1), (add_builtin_id _ _ H2).
  destruct (tip_902 (create_builtins s)) eqn:T; [|reflexivity].
  apply add_builtin_id. rewrite create_builtins_eq in *. cbn zeta in *.
  set (s2 := add_builtin (poolkey_new Mel Erg) (add_builtin (poolkey_new Mel Sym) s)) in *.
  destruct (tip_902 s2) eqn:T2; [apply add_builtin_has|].
  rewrite T2 in T. discriminate.
Qed.

Section Born.
Variable K : list (denom * denom).
Hypothesis Kcodes : NoDup (map poolkey_code K).
Variable SO : stf_oracle.
Hypothesis K_builtins : In MS K /\ In ME K /\ In ES K.
Hypothesis LD_inj : forall k1 k2, In k1 K -> In k2 K -> LDk SO k1 = LDk SO k2 -> k1 = k2.

Lemma seal_create_builtins s a : seal SO (create_builtins s) a = seal SO s a.
Proof. unfold seal, preseal_melmint. rewrite create_builtins_idem. reflexivity. Qed.

Lemma psum_custom_create h s : psum K (Custom h) (create_builtins s) = psum K (Custom h) s.
Proof.
  destruct (create_builtins_only s) as [O1 _]. unfold psum. apply f_equal, map_ext_in. intros k Hk.
  destruct (in_dec N.eq_dec (poolkey_code k) builtin_codes) as [Hb|Hb].
  - rewrite !(builtin_sides_custom K Kcodes K_builtins h k _ Hb Hk). reflexivity.
  - unfold pool_at, get_pool. rewrite (O1 _ Hb). reflexivity.
Qed.

Variable k : denom * denom.
Hypothesis Hb : k = MS \/ k = ME \/ k = ES.

Lemma born_in_K : In k K.
Proof. destruct K_builtins as (A & B & C). destruct Hb as [-> | [-> | ->]]; assumption. Qed.

Lemma unborn_created s : get_pool s k = None -> (k = ES -> tip_902 s = true) -> get_pool (create_builtins s) k = Some builtin_pool.
Proof.
  intros E Ht. rewrite create_builtins_eq. cbn zeta.
  assert (Put: forall k0 st, get_pool st k0 = None -> get_pool (add_builtin k0 st) k0 = Some builtin_pool).
  { intros k0 st E0. unfold add_builtin. rewrite E0. apply get_pool_put_same. }
  assert (Other: forall k0 k1 st, poolkey_code k0 <> poolkey_code k1 -> get_pool (add_builtin k0 st) k1 = get_pool st k1).
  { intros k0 k1 st Hne. unfold add_builtin. destruct (get_pool st k0); [reflexivity|apply get_pool_put_other; exact Hne]. }
  assert (C12: poolkey_code MS <> poolkey_code ME) by (vm_compute; discriminate).
  assert (C13: poolkey_code ES <> poolkey_code MS) by (vm_compute; discriminate).
  assert (C23: poolkey_code ES <> poolkey_code ME) by (vm_compute; discriminate).
  fold MS ME ES. rewrite !add_builtin_tip.
  destruct Hb as [-> | [-> | ->]].
  - assert (E2: get_pool (add_builtin ME (add_builtin MS s)) MS = Some builtin_pool).
    { rewrite Other by (intros X; apply C12; symmetry; exact X). apply Put. exact E. }
    destruct (tip_902 s); [|exact E2]. rewrite Other by exact C13. exact E2.
  - assert (E2: get_pool (add_builtin ME (add_builtin MS s)) ME = Some builtin_pool).
    { apply Put. rewrite Other by exact C12. exact E. }
    destruct (tip_902 s); [|exact E2]. rewrite Other by exact C23. exact E2.
  - rewrite (Ht eq_refl). apply Put.
    rewrite Other by (intros X; apply C23; symmetry; exact X).
    rewrite Other by (intros X; apply C13; symmetry; exact X). exact E.
Qed.

(* the pool does not exist yet and fewer than 10^9 of its tokens do (and, for ERG/SYM, TIP-902 is active, so that
   the next seal creates it) *)
Definition Unborn (s : wstate) : Prop :=
  get_pool s k = None /\ coin_supply (LDk SO k) (s_coins s) + psum K (LDk SO k) s + 1 <= MICRO * 1000 /\
  (k = ES -> tip_902 s = true).
Definition BornBacked (s : wstate) : Prop := Backed K SO k s \/ Unborn s.

Theorem seal_births_backed s a s' :
  seal SO s a = Ok s' -> Unborn s -> seal_premises K SO s -> Backed K SO k s'.
Proof.
  intros H (En & Hs & Ht) (H1 & H2 & H3 & H4 & H5 & H6 & H7 & H8).
  rewrite <- seal_create_builtins in H. set (s1 := create_builtins s) in *.
  assert (F1: frame_fp s1 = frame_fp s) by apply frame_create_builtins.
  assert (T1: sorted_txs s1 = sorted_txs s) by (apply txs_same, frame_fp_txs; exact F1).
  assert (C1: s_coins s1 = s_coins s) by apply coins_create_builtins.
  assert (N1: s_network s1 = s_network s /\ s_height s1 = s_height s) by (unfold frame_fp, frame in F1; split; congruence).
  destruct N1 as [En1 Eh1].
  apply (seal_keeps_backed_pool_live K Kcodes SO K_builtins LD_inj s1 a s' k builtin_pool H born_in_K).
  - apply unborn_created; [exact En|exact Ht].
  - apply builtin_pool_live.
  - rewrite C1. unfold s1, LDk. rewrite psum_custom_create. fold (LDk SO k). exact Hs.
  - unfold legacy_net. rewrite En1, Eh1. exact H1.
  - rewrite T1. exact H2.
  - rewrite T1. exact H3.
  - rewrite T1, C1. exact H4.
  - rewrite T1, C1. exact H5.
  - rewrite T1. exact H6.
  - rewrite T1. exact H7.
  - unfold s1. rewrite create_builtins_idem. exact H8.
Qed.

Lemma batch_keeps_unborn s lh txs s' :
  apply_tx_batch SO s lh txs = Ok s' -> HashOK SO s txs -> batch_issuance (LDk SO k) txs = 0 -> Unborn s -> Unborn s'.
Proof.
  intros H HK Hiss (En & Hs & Ht).
  pose proof (accepted_batch_pools SO s lh txs s' H) as Epools.
  assert (Hne: LDk SO k <> NewCustom) by (unfold LDk; discriminate).
  pose proof (accepted_batch_supply_hash SO s lh txs s' H HK (LDk SO k) Hne) as Hsup.
  rewrite Hiss in Hsup.
  assert (F: forall x, fee_part (LDk SO k) x = 0) by (intros x; unfold fee_part, LDk; reflexivity).
  rewrite !F in Hsup.
  split; [unfold get_pool; rewrite Epools; exact En|].
  split; [rewrite (psum_same K (LDk SO k) s s' Epools); lia|].
  intros Ek. rewrite <- (Ht Ek). destruct (apply_tx_batch_frame SO s lh txs s' H) as (E1 & E2 & _).
  unfold tip_902, tip_condition. rewrite E1, E2. reflexivity.
Qed.

Lemma hstep_born s o : Good2 s -> BornBacked s -> pool_bounds_step_ok K SO k s o -> BornBacked (hstep SO s o).
Proof.
  intros G [B|U] Hok.
  - left. apply (hstep_backed K Kcodes SO K_builtins LD_inj k born_in_K s o B).
    apply pool_bounds_step; assumption.
  - destruct Hok as [Hok Hiss]. destruct o as [lh txs|a hdr]; cbn [hstep bounds_step_ok] in *.
    + destruct (apply_tx_batch SO s lh txs) as [s'| |] eqn:E; [|right; exact U|right; exact U].
      right. eapply batch_keeps_unborn; eauto. apply Hok.
    + destruct (seal SO s a) as [s'| |] eqn:E; [|right; exact U|right; exact U].
      left. destruct (next_unsealed_pools_coins s' hdr) as [Ep Ec].
      eapply backed_same; [exact Ep|exact Ec|].
      eapply seal_births_backed; [exact E|exact U|]. apply seal_premises_of_bounds; [exact G|apply Hok].
Qed.

Theorem born_backed_forever : forall ops s,
  Good2 s -> BornBacked s -> hist_all SO (pool_bounds_step_ok K SO k) s ops -> BornBacked (fold_left (hstep SO) ops s).
Proof.
  intros ops s G B H.
  assert (X: Good2 (fold_left (hstep SO) ops s) /\ BornBacked (fold_left (hstep SO) ops s)); [|apply X].
  revert H. apply (history_invariant SO (fun s => Good2 s /\ BornBacked s)); [|split; assumption].
  intros s0 o [G0 B0] Hok. split; [eapply bounds_hstep_good2; first [exact K_builtins|exact G0|apply Hok]|apply hstep_born; assumption].
Qed.

(* once a block has been sealed the pool exists: live and backed in every state from then on *)
Theorem backed_after_first_block ops1 a hdr ops2 s sealed :
  Good2 s -> BornBacked s ->
  hist_all SO (pool_bounds_step_ok K SO k) s (ops1 ++ HBlock a hdr :: ops2) ->
  seal SO (fold_left (hstep SO) ops1 s) a = Ok sealed ->
  Backed K SO k (fold_left (hstep SO) (ops1 ++ HBlock a hdr :: ops2) s).
Proof.
  intros G B H Hs. rewrite fold_left_app. cbn [fold_left].
  assert (Hsplit: forall l1 l2 s0, hist_all SO (pool_bounds_step_ok K SO k) s0 (l1 ++ l2) ->
            hist_all SO (pool_bounds_step_ok K SO k) s0 l1 /\ hist_all SO (pool_bounds_step_ok K SO k) (fold_left (hstep SO) l1 s0) l2).
  { induction l1 as [|o l1 IH]; intros l2 s0 H0; cbn [app hist_all fold_left] in *; [split; [exact I|exact H0]|].
    destruct H0 as [A R]. destruct (IH l2 _ R) as [R1 R2]. split; [split; assumption|exact R2]. }
  destruct (Hsplit ops1 (HBlock a hdr :: ops2) s H) as [H1 H2]. cbn [hist_all] in H2. destruct H2 as [Hb2 H3].
  set (s1 := fold_left (hstep SO) ops1 s) in *.
  assert (X1: Good2 s1 /\ BornBacked s1).
  { revert H1. apply (history_invariant SO (fun s => Good2 s /\ BornBacked s)); [|split; assumption].
    intros s0 o [G0 B0] Hok. split; [eapply bounds_hstep_good2; first [exact K_builtins|exact G0|apply Hok]|apply hstep_born; assumption]. }
  destruct X1 as [G1 B1].
  assert (B2: Backed K SO k (hstep SO s1 (HBlock a hdr))).
  { pose proof (hstep_born s1 (HBlock a hdr) G1 B1 Hb2) as [X|[X _]]; [exact X|].
    exfalso. cbn [hstep] in X. rewrite Hs in X.
    destruct (next_unsealed_pools_coins sealed hdr) as [Ep _]. unfold get_pool in X. rewrite Ep in X.
    destruct B1 as [(p & Ep1 & Lp & Bp)|U].
    - destruct Hb2 as [Hb2 _]. cbn [bounds_step_ok] in Hb2.
      pose proof (seal_premises_of_bounds K SO s1 G1 (proj2 Hb2)) as (P1 & P2 & P3 & P4 & P5 & P6 & P7 & P8).
      destruct (seal_keeps_backed_pool_live K Kcodes SO K_builtins LD_inj s1 a sealed k p Hs born_in_K Ep1 Lp Bp P1 P2 P3 P4 P5 P6 P7 P8)
        as (p' & Ep' & _). unfold get_pool in Ep'. congruence.
    - destruct Hb2 as [Hb2 _]. cbn [bounds_step_ok] in Hb2.
      destruct (seal_births_backed s1 a sealed Hs U (seal_premises_of_bounds K SO s1 G1 (proj2 Hb2))) as (p' & Ep' & _).
      unfold get_pool in Ep'. congruence. }
  apply (pool_backed_forever_inv K Kcodes SO K_builtins LD_inj k born_in_K ops2 _); [|exact B2|exact H3].
  eapply bounds_hstep_good2; first [exact K_builtins|exact G1|apply Hb2].
Qed.

Lemma unborn_def s :
  Unborn s <-> get_pool s k = None /\ coin_supply (LDk SO k) (s_coins s) + psum K (LDk SO k) s + 1 <= MICRO * 1000 /\
                (k = ES -> tip_902 s = true).
Proof. reflexivity. Qed.
Lemma born_backed_def s : BornBacked s <-> Backed K SO k s \/ Unborn s.
Proof. reflexivity. Qed.
End Born.

(* a genesis state whose one coin is no liquidity token of the pool has neither the pool nor any of its tokens *)
Lemma genesis_unborn K SO k net c fp m st :
  cd_denom (c_data c) <> LDk SO k -> (k = ES -> net <> MAINNET /\ net <> TESTNET) -> Unborn K SO k (genesis net c fp m st).
Proof.
  intros Hd Hn. split; [reflexivity|]. split; cycle 1.
  { intros Ek. destruct (Hn Ek) as [N1 N2]. unfold tip_902, tip_condition, genesis. cbn zeta. cbn [s_network set_coins].
    apply N.eqb_neq in N1, N2. rewrite N1, N2. reflexivity. }
  assert (Ep: psum K (LDk SO k) (genesis net c fp m st) = 0).
  { unfold psum. induction K as [|k0 l IH]; cbn [map nsum]; [reflexivity|]. rewrite IH.
    unfold pool_at, get_pool. cbn [genesis s_pools set_coins]. rewrite lookup_empty. rewrite side_empty. reflexivity. }
  rewrite Ep.
  assert (Ec: coin_supply (LDk SO k) (s_coins (genesis net c fp m st)) = 0).
  { unfold genesis. cbn zeta. cbn [s_coins set_coins].
    match goal with |- context [insert_coin ?b ?key c (∅, ∅)] => assert (Ei: fst (insert_coin b key c (∅, ∅)) = <[key := c]> ∅) end.
    { unfold insert_coin. destruct (tip_906 _); reflexivity. }
    rewrite Ei. rewrite coin_supply_insert_fresh by apply lookup_empty.
    destruct (denom_eqb (cd_denom (c_data c)) (LDk SO k)) eqn:E; [apply denom_eqb_eq in E; contradiction|reflexivity]. }
  rewrite Ec. unfold MICRO. lia.
Qed.

(* ---- C09 from the beginning of a chain: with all three built-in pools born backed, sealing is total in every
   reachable state under the no-overflow bounds alone *)
From MelVerif Require Import STF.Proofs.SealTotal.

Lemma create_builtins_keeps s k p : get_pool s k = Some p -> get_pool (create_builtins s) k = Some p.
Proof.
  intros E. rewrite create_builtins_eq. cbn zeta.
  assert (Keep: forall k0 st, get_pool st k = Some p -> get_pool (add_builtin k0 st) k = Some p).
  { intros k0 st Est. unfold add_builtin. destruct (get_pool st k0) eqn:E0; [exact Est|].
    destruct (N.eq_dec (poolkey_code k0) (poolkey_code k)) as [Ec|Ec]; [unfold get_pool in *; rewrite Ec in E0; congruence|].
    rewrite get_pool_put_other by exact Ec. exact Est. }
  destruct (tip_902 _); repeat apply Keep; exact E.
Qed.

Lemma hist_all_mono SO (ok1 ok2 : wstate -> hop -> Prop) :
  (forall s o, ok1 s o -> ok2 s o) -> forall ops s, hist_all SO ok1 s ops -> hist_all SO ok2 s ops.
Proof.
  intros Himp. induction ops as [|o r IH]; intros s H; cbn [hist_all] in *; [exact I|].
  destruct H as [H1 H2]. split; [apply Himp; exact H1|apply IH; exact H2].
Qed.

Section TotalFromGenesis.
Variable K : list (denom * denom).
Hypothesis Kcodes : NoDup (map poolkey_code K).
Variable SO : stf_oracle.
Hypothesis K_builtins : In MS K /\ In ME K /\ In ES K.
Hypothesis LD_inj : forall k1 k2, In k1 K -> In k2 K -> LDk SO k1 = LDk SO k2 -> k1 = k2.

(* the step condition: for each built-in pool, the hash-oracle facts, the no-overflow bounds, and no faucet
   of a batch issuing the pool's token *)
Definition builtins_step_ok (s : wstate) (o : hop) : Prop := forall k, builtin k -> pool_bounds_step_ok K SO k s o.

Theorem seal_total_from_born ops s0 :
  Good2 s0 -> (forall k, builtin k -> BornBacked K SO k s0) -> hist_all SO builtins_step_ok s0 ops ->
  let s := fold_left (hstep SO) ops s0 in
  legacy_net s && (s_height s <? 978392) = false ->
  (forall t k1, In t (sorted_txs s) -> tx_pool t = Some k1 -> In k1 K /\ LDk SO k1 <> fst k1 /\ LDk SO k1 <> snd k1) ->
  nsum (map (fun t => cd_value (out0 t)) (sorted_txs s)) < U128 ->
  nsum (map (fun t => cd_value (out1 t)) (sorted_txs s)) < U128 ->
  (forall s2, process_swaps (create_builtins s) = Ok s2 ->
     forall k1 p'' m, In k1 K ->
       pool_deposit (pool_at s2 k1)
         (nsum (map (fun t => cd_value (out0 t)) (txs_for_pool (List.filter (is_deposit_request s2) (sorted_txs s2)) k1)))
         (nsum (map (fun t => cd_value (out1 t)) (txs_for_pool (List.filter (is_deposit_request s2) (sorted_txs s2)) k1))) = Ok (p'', m) ->
       p_liqs (pool_at s2 k1) + m < U128) ->
  (s_height s - TIP_909_HEIGHT) / 1000000 < 128 ->
  (forall s1 sm, preseal_melmint SO s = Ok s1 -> get_pool s1 MS = Some sm -> s_fee_pool s + p_lefts sm + s_tips s < U128) ->
  forall a, exists s', seal SO s a = Ok s'.
Proof.
  intros G B H s Hleg Hcover Hs0 Hs1 Hsat Hh Hf.
  assert (Bs: forall k, builtin k -> BornBacked K SO k s).
  { intros k Hk. apply (born_backed_forever K Kcodes SO K_builtins LD_inj k Hk ops s0 G (B k Hk)).
    revert H. apply hist_all_mono. intros s1 o Hall. apply Hall. exact Hk. }
  assert (Hok: hist_ok SO s0 ops).
  { revert H. apply hist_all_mono. intros s1 o Hall.
    destruct (Hall MS (or_introl eq_refl)) as [Hb _]. apply (bounds_step K SO); [exact K_builtins|exact Hb]. }
  apply (seal_total_reachable K Kcodes SO K_builtins LD_inj ops s0 G Hok); try assumption.
  - (* room to spare after the bootstrap *)
    intros k p1 Hk E1. fold s in E1 |- *. destruct (Bs k Hk) as [(p & Ep & _ & Hb)|(En & Hu & Ht)].
    + rewrite (create_builtins_keeps s k p Ep) in E1. injection E1 as <-.
      unfold LDk in *. rewrite psum_custom_create by assumption. exact Hb.
    + rewrite (unborn_created k Hk s En Ht) in E1. injection E1 as <-.
      unfold LDk in *. rewrite psum_custom_create by assumption. cbn [builtin_pool p_liqs]. exact Hu.
  - (* the built-in pools that exist are live *)
    intros k p Hk Ep. fold s in Ep. destruct (Bs k Hk) as [(p0 & Ep0 & Lp & _)|(En & _)]; [|congruence].
    rewrite Ep in Ep0. injection Ep0 as <-. exact Lp.
Qed.

Lemma builtins_step_ok_def s o : builtins_step_ok s o <-> forall k, builtin k -> pool_bounds_step_ok K SO k s o.
Proof. reflexivity. Qed.
End TotalFromGenesis.

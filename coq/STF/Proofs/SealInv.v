(* C16, first clause: the built-in pools keep non-zero reserves.  [live p]: both reserves and the recorded
   liquidity are at least 1.  Swapping, depositing, the peg and the subsidy keep a live pool live whatever the
   amounts (no overflow hypothesis: the saturating arithmetic of the code is followed); a withdrawal keeps it
   live when it burns less than the recorded liquidity. *)
From MelVerif Require Import STF.Proofs.Tactics STF.Proofs.MapLemmas STF.Proofs.Frame STF.Proofs.Stakes
  STF.Proofs.Faucet STF.Proofs.Coins STF.Proofs.Supply STF.Proofs.Fees STF.Proofs.Pool STF.Proofs.SealCoins STF.Proofs.Perm
  STF.Proofs.HashFacts STF.Proofs.BatchSupply STF.Proofs.SealSupply STF.Proofs.PoolKeys STF.Proofs.SealLift.
From Coq Require Import ZifyN ZifyNat ZifyBool.
Open Scope N_scope.

Definition live (p : pool) : Prop := 1 <= p_lefts p /\ 1 <= p_rights p /\ 1 <= p_liqs p.

Lemma swap_quota a b c : 1 <= c -> a <= c -> a * b * 995 / (c * 1000) * 1000 <= b * 995.
Proof.
  intros Hc Hac.
  assert (H1: a * b * 995 / (c * 1000) * (c * 1000) <= a * b * 995) by (apply div_mul_le; lia).
  assert (H2: a * (b * 995) <= c * (b * 995)) by (apply N.mul_le_mono_r; exact Hac).
  set (x := a * b * 995 / (c * 1000)) in *.
  apply N.mul_le_mono_pos_r with (p := c); [lia|].
  replace (x * 1000 * c) with (x * (c * 1000)) by ring.
  replace (b * 995 * c) with (c * (b * 995)) by ring.
  replace (a * b * 995) with (a * (b * 995)) in H1 by ring. lia.
Qed.

(* swap_many never panics on a live pool and leaves it live *)
Theorem swap_many_live p l r :
  live p -> l <= MAX128 -> r <= MAX128 ->
  exists p' lw rw, swap_many p l r = Ok (p', lw, rw) /\ live p'.
Proof.
  intros (HL & HR & HQ) Hl Hr. unfold swap_many.
  set (L := sat_add128 (p_lefts p) l). set (R := sat_add128 (p_rights p) r).
  assert (HL1: 1 <= L /\ l <= L /\ L <= MAX128) by (unfold L, sat_add128, MAX128, U128 in *; lia).
  assert (HR1: 1 <= R /\ r <= R /\ R <= MAX128) by (unfold R, sat_add128, MAX128, U128 in *; lia).
  destruct HL1 as (HL1 & HlL & HLM). destruct HR1 as (HR1 & HrR & HRM).
  destruct (N.eqb_spec R 0); [lia|]. destruct (N.eqb_spec L 0); [lia|].
  pose proof (swap_quota l R L HL1 HlL) as Qr. pose proof (swap_quota r L R HR1 HrR) as Ql.
  set (xr := l * R * 995 / (L * 1000)) in *. set (xl := r * L * 995 / (R * 1000)) in *.
  assert (Xr: xr < R) by lia. assert (Xl: xl < L) by lia.
  assert (Er: to_u128_sat xr = xr) by (apply to_u128_sat_small; unfold MAX128, U128 in *; lia).
  assert (El: to_u128_sat xl = xl) by (apply to_u128_sat_small; unfold MAX128, U128 in *; lia).
  rewrite Er, El.
  destruct (N.ltb_spec L xl); [lia|]. destruct (N.ltb_spec R xr); [lia|].
  destruct (N.eqb_spec (R - xr) 0); [lia|].
  eexists. eexists. eexists. split; [reflexivity|]. unfold live. cbn [p_lefts p_rights p_liqs]. lia.
Qed.

Lemma pool_deposit_live p l r : live p -> exists p' m, pool_deposit p l r = Ok (p', m) /\ live p'.
Proof.
  intros (HL & HR & HQ). unfold pool_deposit. destruct (N.eqb_spec (p_liqs p) 0); [lia|].
  destruct (N.eqb_spec (p_lefts p * p_rights p) 0); [nia|].
  eexists. eexists. split; [reflexivity|]. unfold live. cbn [p_lefts p_rights p_liqs].
  unfold sat_add128, MAX128, U128. lia.
Qed.

Lemma pool_withdraw_live p l : live p -> l < p_liqs p -> exists p' a b, pool_withdraw p l = Ok (p', a, b) /\ live p'.
Proof.
  intros (HL & HR & HQ) Hl.
  destruct (pool_withdraw_spec p l ltac:(lia) ltac:(lia)) as (p' & a & b & E & E1 & _ & _ & _ & _ & _ & _ & P1 & P2).
  exists p', a, b. split; [exact E|]. unfold live. specialize (P1 Hl HL). specialize (P2 Hl HR). lia.
Qed.

(* ---- a fixed pool through the settlement loops *)
Lemma for_pools_pool_inv (P : pool -> Prop) f reqs k :
  (forall k1 s txs s', f k1 s txs = Ok s' -> poolkey_code k1 <> poolkey_code k -> get_pool s' k = get_pool s k) ->
  (forall s s' p, f k s (txs_for_pool reqs k) = Ok s' -> get_pool s k = Some p -> P p -> exists p', get_pool s' k = Some p' /\ P p') ->
  forall ks s s' p, (forall k1, In k1 ks -> poolkey_code k1 = poolkey_code k -> k1 = k) ->
  for_pools f reqs ks s = Ok s' -> get_pool s k = Some p -> P p -> exists p', get_pool s' k = Some p' /\ P p'.
Proof.
  intros Hother Hstep. induction ks as [|k1 ks IH]; intros s s' p Hinj H Ep HP; cbn [for_pools] in H.
  - injection H as <-. eauto.
  - inv_bind H as s1 H1.
    assert (Hinj': forall k2, In k2 ks -> poolkey_code k2 = poolkey_code k -> k2 = k) by (intros k2 Hk2; apply Hinj; right; exact Hk2).
    destruct (N.eq_dec (poolkey_code k1) (poolkey_code k)) as [E|E].
    + assert (k1 = k) by (apply Hinj; [left; reflexivity|exact E]). subst k1.
      destruct (Hstep s s1 p H1 Ep HP) as (p1 & Ep1 & HP1). apply (IH s1 s' p1 Hinj' H Ep1 HP1).
    + rewrite <- (Hother k1 s _ s1 H1 E) in Ep. apply (IH s1 s' p Hinj' H Ep HP).
Qed.

Lemma for_pools_untouched f reqs k :
  (forall k1 s txs s', f k1 s txs = Ok s' -> poolkey_code k1 <> poolkey_code k -> get_pool s' k = get_pool s k) ->
  forall ks s s', ~ In (poolkey_code k) (map poolkey_code ks) -> for_pools f reqs ks s = Ok s' -> get_pool s' k = get_pool s k.
Proof.
  intros Hother. induction ks as [|k1 ks IH]; intros s s' Hn H; cbn [for_pools] in H; [injection H as <-; reflexivity|].
  inv_bind H as s1 H1. cbn [map] in Hn. rewrite (IH s1 s' (fun Hi => Hn (or_intror Hi)) H).
  apply (Hother k1 s _ s1 H1). intros E. apply Hn. left. exact E.
Qed.

(* the pool is visited at most once: P before its turn, Q after *)
Lemma for_pools_pool_once (P Q : pool -> Prop) f reqs k :
  (forall k1 s txs s', f k1 s txs = Ok s' -> poolkey_code k1 <> poolkey_code k -> get_pool s' k = get_pool s k) ->
  (forall s s' p, f k s (txs_for_pool reqs k) = Ok s' -> get_pool s k = Some p -> P p -> exists p', get_pool s' k = Some p' /\ Q p') ->
  (forall p, P p -> Q p) ->
  forall ks s s' p, NoDup (map poolkey_code ks) -> (forall k1, In k1 ks -> poolkey_code k1 = poolkey_code k -> k1 = k) ->
  for_pools f reqs ks s = Ok s' -> get_pool s k = Some p -> P p -> exists p', get_pool s' k = Some p' /\ Q p'.
Proof.
  intros Hother Hstep HPQ. induction ks as [|k1 ks IH]; intros s s' p Hnd Hinj H Ep HP; cbn [for_pools] in H.
  - injection H as <-. eauto.
  - inv_bind H as s1 H1. cbn [map] in Hnd. inversion Hnd as [|? ? Hni Hnd']; subst.
    assert (Hinj': forall k2, In k2 ks -> poolkey_code k2 = poolkey_code k -> k2 = k) by (intros k2 Hk2; apply Hinj; right; exact Hk2).
    destruct (N.eq_dec (poolkey_code k1) (poolkey_code k)) as [E|E].
    + assert (k1 = k) by (apply Hinj; [left; reflexivity|exact E]). subst k1.
      destruct (Hstep s s1 p H1 Ep HP) as (p1 & Ep1 & HQ1). exists p1. split; [|exact HQ1].
      rewrite (for_pools_untouched f reqs k Hother ks s1 s' Hni H). exact Ep1.
    + rewrite <- (Hother k1 s _ s1 H1 E) in Ep. apply (IH s1 s' p Hnd' Hinj' H Ep HP).
Qed.

Lemma get_pool_put_other s k1 p k : poolkey_code k1 <> poolkey_code k -> get_pool (put_pool s k1 p) k = get_pool s k.
Proof. intros E. unfold get_pool. cbn [s_pools put_pool set_pools]. apply lookup_insert_ne. exact E. Qed.
Lemma get_pool_put_same s k p : get_pool (put_pool s k p) k = Some p.
Proof. unfold get_pool. cbn [s_pools put_pool set_pools]. apply lookup_insert. Qed.

Lemma swaps_single_pool_pools k s swaps s' :
  swaps_single_pool k s swaps = Ok s' ->
  exists p p' lw rw, get_pool s k = Some p /\ swap_many p (swap_total (fst k) swaps) (swap_total (snd k) swaps) = Ok (p', lw, rw) /\
    s_pools s' = <[poolkey_code k := p']> (s_pools s).
Proof.
  unfold swaps_single_pool. intros H. destruct (get_pool s k) as [p|]; [|discriminate].
  inv_bind H as r Hr. destruct r as [[p' lw] rw]. injection H as <-.
  exists p, p', lw, rw. split; [reflexivity|]. split; [exact Hr|].
  destruct (swaps_go_state k lw rw (swap_total (fst k) swaps) (swap_total (snd k) swaps) swaps s) as [_ Epl].
  cbn [s_pools put_pool set_pools]. rewrite Epl. reflexivity.
Qed.

Lemma sat_sum_max l : sat_sum l <= MAX128.
Proof. unfold sat_sum. rewrite sat_add_fold_closed by (unfold MAX128, U128; lia). lia. Qed.

Theorem process_swaps_keeps_live s s' k p :
  process_swaps s = Ok s' -> get_pool s k = Some p -> live p ->
  (forall k1, In k1 (pool_keys_sorted (List.filter (is_swap_request s) (sorted_txs s))) -> poolkey_code k1 = poolkey_code k -> k1 = k) ->
  exists p', get_pool s' k = Some p' /\ live p'.
Proof.
  unfold process_swaps. intros H Ep Hl Hinj.
  refine (for_pools_pool_inv live swaps_single_pool _ k _ _ _ s s' p Hinj H Ep Hl).
  - intros k1 s0 txs s1 H1 E. destruct (swaps_single_pool_pools _ _ _ _ H1) as (q & q' & lw & rw & _ & _ & Epl).
    unfold get_pool. rewrite Epl. apply lookup_insert_ne. exact E.
  - intros s0 s1 q H1 Eq Hq. destruct (swaps_single_pool_pools _ _ _ _ H1) as (q0 & q' & lw & rw & Eq0 & Hsw & Epl).
    rewrite Eq in Eq0. injection Eq0 as <-.
    unfold swap_total in Hsw.
    match type of Hsw with swap_many q (sat_sum ?a) (sat_sum ?b) = _ =>
      destruct (swap_many_live q _ _ Hq (sat_sum_max a) (sat_sum_max b)) as (q2 & lw2 & rw2 & E2 & Hl2) end.
    rewrite E2 in Hsw. injection Hsw as <- _ _.
    exists q2. split; [|exact Hl2]. unfold get_pool. rewrite Epl. apply lookup_insert.
Qed.

Section Inv.
Variable SO : stf_oracle.

Lemma deposits_single_pool_pools k s deps s' :
  deposits_single_pool SO k s deps = Ok s' ->
  exists p' m, pool_deposit (match get_pool s k with Some p => p | None => new_empty_pool end)
                 (sat_sum (map (fun t => cd_value (out0 t)) deps)) (sat_sum (map (fun t => cd_value (out1 t)) deps)) = Ok (p', m) /\
    s_pools s' = <[poolkey_code k := p']> (s_pools s).
Proof.
  unfold deposits_single_pool. intros H. inv_bind H as pl Hpl. destruct pl as [p' m].
  exists p', m. split; [exact Hpl|].
  assert (G: forall l left s0 s1, deposits_go SO k m (sat_mul128 (N.sqrt (sat_sum (map (fun t => cd_value (out0 t)) deps))) (N.sqrt (sat_sum (map (fun t => cd_value (out1 t)) deps)))) l left s0 = Ok s1 -> s_pools s1 = s_pools s0).
  { induction l as [|t l IH]; intros left s0 s1 H0; cbn [deposits_go] in H0; [injection H0 as <-; reflexivity|].
    inv_bind H0 as s2 H2. rewrite (IH _ _ _ H0).
    destruct (legacy_net s0 && (s_height s0 <? 978392)); [injection H2 as <-; reflexivity|].
    apply del_coin_state in H2 as (_ & E & _). rewrite E. reflexivity. }
  rewrite (G _ _ _ _ H). reflexivity.
Qed.

Theorem process_deposits_keeps_live s s' k p :
  process_deposits SO s = Ok s' -> get_pool s k = Some p -> live p ->
  (forall k1, In k1 (pool_keys_sorted (List.filter (is_deposit_request s) (sorted_txs s))) -> poolkey_code k1 = poolkey_code k -> k1 = k) ->
  exists p', get_pool s' k = Some p' /\ live p'.
Proof.
  unfold process_deposits. intros H Ep Hl Hinj.
  refine (for_pools_pool_inv live (deposits_single_pool SO) _ k _ _ _ s s' p Hinj H Ep Hl).
  - intros k1 s0 txs s1 H1 E. destruct (deposits_single_pool_pools _ _ _ _ H1) as (q' & m & _ & Epl).
    unfold get_pool. rewrite Epl. apply lookup_insert_ne. exact E.
  - intros s0 s1 q H1 Eq Hq. destruct (deposits_single_pool_pools _ _ _ _ H1) as (q' & m & Hd & Epl).
    rewrite Eq in Hd.
    match type of Hd with pool_deposit q ?a ?b = _ => destruct (pool_deposit_live q a b Hq) as (q2 & m2 & E2 & Hl2) end.
    rewrite E2 in Hd. injection Hd as <- _.
    exists q2. split; [|exact Hl2]. unfold get_pool. rewrite Epl. apply lookup_insert.
Qed.

(* what the requests of one pool ask to burn is held in distinct coins of that token *)
Lemma request_sum_le_supply d (coins : gmap N cdh) (ws : list tx) :
  NoDup (map key0 ws) ->
  (forall t, In t ws -> exists c, coins !! key0 t = Some c /\ cd_denom (c_data c) = d /\ cd_value (c_data c) = cd_value (out0 t)) ->
  nsum (map (fun t => cd_value (out0 t)) ws) <= coin_supply d coins.
Proof.
  intros Hnd Hdecl. pose proof (coin_supply_del_all d (map key0 ws) coins Hnd) as E. rewrite map_map in E.
  assert (Es: map (fun t => vopt d (coins !! key0 t)) ws = map (fun t => cd_value (out0 t)) ws).
  { apply map_ext_in. intros t Ht. destruct (Hdecl t Ht) as (c & Ec & Ed & Ev). rewrite Ec. cbn [vopt]. unfold val.
    rewrite Ed, denom_eqb_refl. exact Ev. }
  rewrite Es in E. lia.
Qed.

Lemma withdrawals_single_pool_pools k s ws s' :
  withdrawals_single_pool k s ws = Ok s' ->
  exists p, get_pool s k = Some p /\
    ((s' = s) \/ exists p' a b, pool_withdraw p (sat_sum (map (fun t => cd_value (out0 t)) ws)) = Ok (p', a, b) /\
                 s_pools s' = <[poolkey_code k := p']> (s_pools s)).
Proof.
  unfold withdrawals_single_pool. intros H. destruct (get_pool s k) as [p|]; [|discriminate]. exists p. split; [reflexivity|].
  destruct (_ || _); [left; injection H as <-; reflexivity|].
  inv_bind H as r Hr. destruct r as [[p' a] b]. injection H as <-. right. exists p', a, b. split; [exact Hr|].
  destruct (withdrawals_go_state k a b (sat_sum (map (fun t => cd_value (out0 t)) ws)) ws (put_pool s k p')) as [_ Epl].
  rewrite Epl. reflexivity.
Qed.

Theorem process_withdrawals_keeps_live s s' k p :
  process_withdrawals SO s = Ok s' -> get_pool s k = Some p -> live p ->
  NoDup (map poolkey_code (pool_keys_sorted (List.filter (is_withdraw_request SO s) (sorted_txs s)))) ->
  (forall k1, In k1 (pool_keys_sorted (List.filter (is_withdraw_request SO s) (sorted_txs s))) -> poolkey_code k1 = poolkey_code k -> k1 = k) ->
  (* what is asked to be burnt from this pool is less than what it recorded *)
  sat_sum (map (fun t => cd_value (out0 t)) (txs_for_pool (List.filter (is_withdraw_request SO s) (sorted_txs s)) k)) < p_liqs p ->
  exists p', get_pool s' k = Some p' /\ live p'.
Proof.
  unfold process_withdrawals. intros H Ep Hl Hnd Hinj Hlt.
  set (reqs := List.filter (is_withdraw_request SO s) (sorted_txs s)) in *.
  refine (for_pools_pool_once (fun q => live q /\ sat_sum (map (fun t => cd_value (out0 t)) (txs_for_pool reqs k)) < p_liqs q) live
            withdrawals_single_pool reqs k _ _ _ _ s s' p Hnd Hinj H Ep (conj Hl Hlt)).
  - intros k1 s0 txs s1 H1 E. destruct (withdrawals_single_pool_pools _ _ _ _ H1) as (q & _ & [->|(q' & a & b & _ & Epl)]); [reflexivity|].
    unfold get_pool. rewrite Epl. apply lookup_insert_ne. exact E.
  - intros s0 s1 q H1 Eq [A B]. destruct (withdrawals_single_pool_pools _ _ _ _ H1) as (q0 & Eq0 & Hcase).
    rewrite Eq in Eq0. injection Eq0 as <-.
    destruct Hcase as [->|(q' & a & b & Hw & Epl)]; [exists q; split; [exact Eq|exact A]|].
    destruct (pool_withdraw_live q _ A B) as (q2 & a2 & b2 & E2 & Hl2). rewrite E2 in Hw. injection Hw as <- _ _.
    exists q2. split; [unfold get_pool; rewrite Epl; apply lookup_insert|exact Hl2].
  - intros q [A _]. exact A.
Qed.

Lemma swap_many_keeps_live p l r p' lw rw :
  swap_many p l r = Ok (p', lw, rw) -> live p -> l <= MAX128 -> r <= MAX128 -> live p'.
Proof.
  intros H Hl Hb1 Hb2. destruct (swap_many_live p l r Hl Hb1 Hb2) as (q & a & b & E & Hq). rewrite E in H. injection H as <- _ _. exact Hq.
Qed.

Lemma to_u128_sat_max x : to_u128_sat x <= MAX128.
Proof. unfold to_u128_sat. destruct (N.ltb_spec x U128); unfold MAX128, U128 in *; lia. Qed.

Theorem process_pegging_keeps_live s s' k p :
  process_pegging s = Ok s' -> get_pool s k = Some p -> live p -> exists p', get_pool s' k = Some p' /\ live p'.
Proof.
  unfold process_pegging. intros H Ep Hl.
  destruct (get_pool s (poolkey_new Mel Sym)) as [sm|] eqn:Esm; [|discriminate].
  inv_bind H as x Hx. destruct x as [xn xd].
  match type of H with (if ?c then _ else _) = _ => destruct c end; [discriminate|].
  inv_bind H as sm1 H1. inv_bind H as sm2 H2. injection H as <-.
  destruct (N.eq_dec (poolkey_code (poolkey_new Mel Sym)) (poolkey_code k)) as [E|E].
  - exists sm2. split; [unfold get_pool; cbn [s_pools put_pool set_pools]; rewrite E; apply lookup_insert|].
    assert (p = sm). { unfold get_pool in Ep, Esm. rewrite E in Esm. congruence. } subst p.
    assert (L1: live sm1).
    { destruct (_ <? _) in H1; [|injection H1 as <-; exact Hl]. inv_bind H1 as r Hr. injection H1 as <-. destruct r as [[q a] b]. cbn [fst].
      eapply (swap_many_keeps_live _ _ _ _ _ _ Hr Hl); [|unfold MAX128, U128; lia].
      match goal with |- ?a / ?t <= _ => assert (a / t <= a) by (apply N.div_le_upper_bound; [destruct (tip_902 s); lia|destruct (tip_902 s); nia]) end.
      match goal with |- (to_u128_sat ?y - _) / _ <= _ => pose proof (to_u128_sat_max y) end. lia. }
    destruct (_ <? _) in H2; [|injection H2 as <-; exact L1]. inv_bind H2 as r Hr. injection H2 as <-. destruct r as [[q a] b]. cbn [fst].
    eapply (swap_many_keeps_live _ _ _ _ _ _ Hr L1); [unfold MAX128, U128; lia|].
    match goal with |- ?a / ?t <= _ => assert (a / t <= a) by (apply N.div_le_upper_bound; [destruct (tip_902 s); lia|destruct (tip_902 s); nia]) end.
    match goal with |- (to_u128_sat ?y - _) / _ <= _ => pose proof (to_u128_sat_max y) end. lia.
  - exists p. split; [|exact Hl]. rewrite get_pool_put_other by exact E. exact Ep.
Qed.

Lemma shiftr_le a d : N.shiftr a d <= a.
Proof.
  rewrite N.shiftr_div_pow2. apply N.div_le_upper_bound; [apply N.pow_nonzero; discriminate|].
  assert (2 ^ d <> 0) by (apply N.pow_nonzero; discriminate). nia.
Qed.

Theorem tip909_keeps_live s s' k p :
  apply_tip_909 s = Ok s' -> get_pool s k = Some p -> live p -> exists p', get_pool s' k = Some p' /\ live p'.
Proof.
  unfold apply_tip_909. intros H Ep Hl. destruct (N.leb_spec 128 ((s_height s - TIP_909_HEIGHT) / 1000000)) as [|Hdiv]; [discriminate|].
  destruct (get_pool s (poolkey_new Mel Sym)) as [sm|] eqn:Esm; [|discriminate].
  inv_bind H as r Hr. destruct r as [[sm' mel] x]. inv_bind H as fp Hfp.
  match type of H with context [get_pool ?st ?k0] => destruct (get_pool st k0) as [es|] eqn:Ees end; [|discriminate].
  inv_bind H as r2 Hr2. injection H as <-. destruct r2 as [[es' a] b]. cbn [fst].
  pose proof (shiftr_le (2 ^ 20) ((s_height s - TIP_909_HEIGHT) / 1000000)) as Hrw.
  set (reward := N.shiftr (2 ^ 20) ((s_height s - TIP_909_HEIGHT) / 1000000)) in *.
  change (2 ^ 20) with 1048576 in Hrw.
  assert (Hdivs: reward / 256 <= reward /\ reward / 2 <= reward) by (split; apply N.div_le_upper_bound; lia).
  destruct Hdivs as [Hd1 Hd2].
  set (MSk := poolkey_new Mel Sym) in *. set (ESk := poolkey_new Erg Sym) in *.
  (* the pool after both updates *)
  unfold get_pool in Ees. cbn [s_pools put_pool set_pools set_fees] in Ees.
  assert (Lsm': live sm' \/ True) by (right; exact I).
  destruct (N.eq_dec (poolkey_code ESk) (poolkey_code k)) as [E2|E2].
  - exists es'. split; [unfold get_pool; cbn [s_pools put_pool set_pools set_fees]; rewrite E2; apply lookup_insert|].
    assert (Les: live es).
    { destruct (N.eq_dec (poolkey_code MSk) (poolkey_code ESk)) as [E3|E3].
      - rewrite E3, lookup_insert in Ees. injection Ees as <-.
        assert (p = sm) by (unfold get_pool in Ep, Esm; rewrite <- E2, <- E3 in Ep; congruence). subst p.
        eapply (swap_many_keeps_live _ _ _ _ _ _ Hr Hl); unfold MAX128, U128; destruct (tip_909a s); lia.
      - rewrite lookup_insert_ne in Ees by exact E3. unfold get_pool in Ep. rewrite <- E2 in Ep. congruence. }
    eapply (swap_many_keeps_live _ _ _ _ _ _ Hr2 Les); unfold MAX128, U128; [lia|].
    match goal with |- context [tip_909a ?st] => destruct (tip_909a st) end; destruct (tip_909a s); lia.
  - destruct (N.eq_dec (poolkey_code MSk) (poolkey_code k)) as [E1|E1].
    + exists sm'. split.
      * unfold get_pool. cbn [s_pools put_pool set_pools set_fees]. rewrite lookup_insert_ne by exact E2. rewrite E1. apply lookup_insert.
      * assert (p = sm) by (unfold get_pool in Ep, Esm; rewrite <- E1 in Ep; congruence). subst p.
        eapply (swap_many_keeps_live _ _ _ _ _ _ Hr Hl); unfold MAX128, U128; destruct (tip_909a s); lia.
    + exists p. split; [|exact Hl]. unfold get_pool. cbn [s_pools put_pool set_pools set_fees].
      rewrite !lookup_insert_ne by assumption. exact Ep.
Qed.

Lemma builtin_pool_live : live builtin_pool.
Proof. unfold live, builtin_pool, MICRO. cbn. lia. Qed.

Theorem create_builtins_keeps_live s k p :
  get_pool s k = Some p -> live p -> exists p', get_pool (create_builtins s) k = Some p' /\ live p'.
Proof.
  intros Ep Hl. unfold create_builtins.
  assert (Add: forall k0 st q, get_pool st k = Some q -> live q ->
            exists q', get_pool (match get_pool st k0 with Some _ => st | None => put_pool st k0 builtin_pool end) k = Some q' /\ live q').
  { intros k0 st q Eq Hq. destruct (get_pool st k0) eqn:E0; [eauto|].
    destruct (N.eq_dec (poolkey_code k0) (poolkey_code k)) as [E|E].
    - unfold get_pool in Eq, E0. rewrite E in E0. congruence.
    - exists q. split; [rewrite get_pool_put_other by exact E; exact Eq|exact Hq]. }
  destruct (Add (poolkey_new Mel Sym) s p Ep Hl) as (p1 & E1 & L1).
  match goal with |- context [tip_902 ?st] => set (s2 := st) end.
  destruct (Add (poolkey_new Mel Erg) _ p1 E1 L1) as (p2 & E2 & L2). fold s2 in E2.
  destruct (tip_902 s2); [apply (Add (poolkey_new Erg Sym) s2 p2 E2 L2)|eauto].
Qed.

(* after the bootstrap the built-in pools exist *)
Theorem create_builtins_exist s :
  (exists p, get_pool (create_builtins s) (poolkey_new Mel Sym) = Some p) /\
  (exists p, get_pool (create_builtins s) (poolkey_new Mel Erg) = Some p).
Proof.
  unfold create_builtins.
  assert (Has: forall k0 st, exists q, get_pool (match get_pool st k0 with Some _ => st | None => put_pool st k0 builtin_pool end) k0 = Some q).
  { intros k0 st. destruct (get_pool st k0) eqn:E0; [eauto|]. rewrite get_pool_put_same. eauto. }
  assert (Keep: forall k0 k1 st q, get_pool st k1 = Some q -> exists q', get_pool (match get_pool st k0 with Some _ => st | None => put_pool st k0 builtin_pool end) k1 = Some q').
  { intros k0 k1 st q Eq. destruct (get_pool st k0) eqn:E0; [eauto|].
    destruct (N.eq_dec (poolkey_code k0) (poolkey_code k1)) as [E|E]; [unfold get_pool in *; rewrite E in E0; congruence|].
    rewrite get_pool_put_other by exact E. eauto. }
  destruct (Has (poolkey_new Mel Sym) s) as [q1 Eq1].
  match goal with |- context [tip_902 ?st] => set (s2 := st) end.
  destruct (Keep (poolkey_new Mel Erg) (poolkey_new Mel Sym) _ q1 Eq1) as [q1' Eq1']. fold s2 in Eq1'.
  destruct (Has (poolkey_new Mel Erg) (match get_pool s (poolkey_new Mel Sym) with Some _ => s | None => put_pool s (poolkey_new Mel Sym) builtin_pool end)) as [q2 Eq2]. fold s2 in Eq2.
  destruct (tip_902 s2).
  - destruct (Keep (poolkey_new Erg Sym) (poolkey_new Mel Sym) s2 q1' Eq1') as [a Ea]. destruct (Keep (poolkey_new Erg Sym) (poolkey_new Mel Erg) s2 q2 Eq2) as [b Eb]. eauto.
  - eauto.
Qed.

Lemma nodup_codes_of_keys (ks : list (denom * denom)) :
  NoDup ks -> (forall k1 k2, In k1 ks -> In k2 ks -> poolkey_code k1 = poolkey_code k2 -> k1 = k2) -> NoDup (map poolkey_code ks).
Proof.
  induction ks as [|k ks IH]; intros Hnd Hinj; cbn [map]; constructor.
  - inversion Hnd as [|? ? Hni _]; subst. intros Hin. apply in_map_iff in Hin as (k2 & E & Hk2).
    assert (k2 = k) by (apply Hinj; [right; exact Hk2|left; reflexivity|exact E]). subst k2. contradiction.
  - inversion Hnd; subst. apply IH; [assumption|]. intros k1 k2 Hk1 Hk2. apply Hinj; right; assumption.
Qed.

(* ---- a live pool stays live through a whole seal, provided the withdrawals of the block ask for less of its
   liquidity than it recorded (which the backing invariant guarantees for a pool with liquidity nobody owns) *)
Theorem seal_keeps_pool_live s a s' k p :
  seal SO s a = Ok s' -> get_pool s k = Some p -> live p ->
  (* PoolKey::to_bytes is injective on the pools the block names and k *)
  (forall t k1 k2, In t (sorted_txs s) -> tx_pool t = Some k1 -> (k2 = k \/ exists t2, In t2 (sorted_txs s) /\ tx_pool t2 = Some k2) ->
     poolkey_code k1 = poolkey_code k2 -> k1 = k2) ->
  (forall s3 p3, (exists s2, process_swaps (create_builtins s) = Ok s2 /\ process_deposits SO s2 = Ok s3) -> get_pool s3 k = Some p3 ->
     sat_sum (map (fun t => cd_value (out0 t)) (txs_for_pool (List.filter (is_withdraw_request SO s3) (sorted_txs s3)) k)) < p_liqs p3) ->
  exists p', get_pool s' k = Some p' /\ live p'.
Proof.
  intros H Ep Hl Hinj Hw.
  unfold seal in H. inv_bind H as s5 H5. unfold preseal_melmint in H5.
  inv_bind H5 as s2 H2. inv_bind H5 as s3 H3. inv_bind H5 as s4 H4.
  destruct (negb (pool_count_ok s5)); [discriminate|]. inv_bind H as s6 H6.
  set (s1 := create_builtins s) in *.
  assert (T1: sorted_txs s1 = sorted_txs s).
  { apply txs_same. pose proof (frame_create_builtins s) as F. unfold frame_fp, frame in F. injection F as _ _ _ E _ _ _ _ _. exact E. }
  assert (T2: sorted_txs s2 = sorted_txs s).
  { rewrite <- T1. apply txs_same. pose proof (frame_process_swaps _ _ H2) as F. unfold frame_fp, frame in F. injection F as _ _ _ E _ _ _ _ _. exact E. }
  assert (T3: sorted_txs s3 = sorted_txs s).
  { rewrite <- T2. apply txs_same. pose proof (frame_process_deposits SO _ _ H3) as F. unfold frame_fp, frame in F. injection F as _ _ _ E _ _ _ _ _. exact E. }
  (* keys named by requests of the block are distinguished by their codes, also from k *)
  assert (Kinj: forall (flt : tx -> bool) k1, In k1 (pool_keys_sorted (List.filter flt (sorted_txs s))) -> poolkey_code k1 = poolkey_code k -> k1 = k).
  { intros flt k1 Hk1 E. apply pool_keys_sorted_in in Hk1 as (t & Ht & Et). apply filter_In in Ht as [Ht _].
    apply (Hinj t k1 k Ht Et); [left; reflexivity|exact E]. }
  assert (Knd: forall (flt : tx -> bool), NoDup (map poolkey_code (pool_keys_sorted (List.filter flt (sorted_txs s))))).
  { intros flt. apply nodup_codes_of_keys; [apply pool_keys_sorted_nodup|].
    intros k1 k2 H1 H2' E. apply pool_keys_sorted_in in H1 as (t1 & Ht1 & Et1). apply pool_keys_sorted_in in H2' as (t2 & Ht2 & Et2).
    apply filter_In in Ht1 as [Ht1 _]. apply filter_In in Ht2 as [Ht2 _].
    apply (Hinj t1 k1 k2 Ht1 Et1); [right; eauto|exact E]. }
  destruct (create_builtins_keeps_live s k p Ep Hl) as (p1 & E1 & L1). fold s1 in E1.
  destruct (process_swaps_keeps_live s1 s2 k p1 H2 E1 L1) as (p2 & E2 & L2); [rewrite T1; apply Kinj|].
  destruct (process_deposits_keeps_live s2 s3 k p2 H3 E2 L2) as (p3 & E3 & L3); [rewrite T2; apply Kinj|].
  destruct (process_withdrawals_keeps_live s3 s4 k p3 H4 E3 L3) as (p4 & E4 & L4); [rewrite T3; apply Knd|rewrite T3; apply Kinj|apply Hw; eauto|].
  destruct (process_pegging_keeps_live s4 s5 k p4 H5 E4 L4) as (p5 & E5 & L5).
  assert (exists p6, get_pool s6 k = Some p6 /\ live p6) as (p6 & E6 & L6).
  { destruct (tip_909 s5); [apply (tip909_keeps_live s5 s6 k p5 H6 E5 L5)|injection H6 as <-; eauto]. }
  destruct a as [act|]; [|injection H as <-; eauto].
  unfold collect_proposer_fee in H. inv_bind H as v Hv. injection H as <-. exists p6. split; [exact E6|exact L6].
Qed.
End Inv.

(* ---- C16, both clauses together, as an invariant of sealing: a live pool whose token is backed with room to
   spare (coins + tokens parked in reserves + 1 <= recorded liquidity - the built-in pools start with 10^9
   that nobody owns) is live and backed with the same room after the block is sealed. *)
Section Backed.
Variable K : list (denom * denom).
Hypothesis Kcodes : NoDup (map poolkey_code K).
Variable SO : stf_oracle.
Hypothesis K_builtins : In MS K /\ In ME K /\ In ES K.
(* different pools have different liquidity tokens (PoolKey::liq_token_denom hashes the pool name) *)
Hypothesis LD_inj : forall k1 k2, In k1 K -> In k2 K -> LDk SO k1 = LDk SO k2 -> k1 = k2.

Lemma liq_of_single k s : In k K -> liq_of K SO (LDk SO k) s = p_liqs (pool_at s k).
Proof.
  intros Hk. unfold liq_of.
  assert (Hnd: NoDup K) by (eapply NoDup_map_inv; exact Kcodes).
  revert Hnd Hk LD_inj. generalize K as l. induction l as [|k0 l IH]; intros Hnd Hin Hinj; [contradiction|].
  cbn [map nsum]. inversion Hnd as [|? ? Hni Hnd']; subst.
  assert (Hz: forall l0, (forall k1, In k1 l0 -> LDk SO k1 <> LDk SO k) ->
            nsum (map (fun k1 => if denom_eqb (LDk SO k) (LDk SO k1) then p_liqs (pool_at s k1) else 0) l0) = 0).
  { induction l0 as [|k1 l0 IH0]; intros Hne; cbn [map nsum]; [reflexivity|].
    rewrite IH0 by (intros k2 Hk2; apply Hne; right; exact Hk2).
    destruct (denom_eqb (LDk SO k) (LDk SO k1)) eqn:E; [|reflexivity].
    apply denom_eqb_eq in E. exfalso. apply (Hne k1 (or_introl eq_refl)). symmetry. exact E. }
  destruct Hin as [->|Hin].
  - rewrite denom_eqb_refl, Hz; [lia|]. intros k1 Hk1 E. apply Hni.
    rewrite <- (Hinj k1 k (or_intror Hk1) (or_introl eq_refl) E). exact Hk1.
  - rewrite (IH Hnd' Hin); [|intros k1 k2 H1 H2; apply Hinj; right; assumption].
    destruct (denom_eqb (LDk SO k) (LDk SO k0)) eqn:E; [|lia].
    apply denom_eqb_eq in E. exfalso. apply Hni. rewrite (Hinj k0 k (or_introl eq_refl) (or_intror Hin) (eq_sym E)). exact Hin.
Qed.

Theorem seal_keeps_backed_pool_live s a s' k p :
  seal SO s a = Ok s' -> In k K -> get_pool s k = Some p -> live p ->
  coin_supply (LDk SO k) (s_coins s) + psum K (LDk SO k) s + 1 <= p_liqs p ->
  legacy_net s && (s_height s <? 978392) = false ->
  (forall t k1, In t (sorted_txs s) -> tx_pool t = Some k1 -> In k1 K /\ LDk SO k1 <> fst k1 /\ LDk SO k1 <> snd k1) ->
  NoDup (key_pairs (sorted_txs s)) ->
  (forall t c, In t (sorted_txs s) -> s_coins s !! key0 t = Some c -> as_declared t c (out0 t)) ->
  (forall t c, In t (sorted_txs s) -> s_coins s !! key1 t = Some c -> as_declared t c (out1 t)) ->
  nsum (map (fun t => cd_value (out0 t)) (sorted_txs s)) < U128 ->
  nsum (map (fun t => cd_value (out1 t)) (sorted_txs s)) < U128 ->
  (forall s2 s3, process_swaps (create_builtins s) = Ok s2 -> process_deposits SO s2 = Ok s3 ->
     (forall k1 p'' m, In k1 K ->
        pool_deposit (pool_at s2 k1)
          (nsum (map (fun t => cd_value (out0 t)) (txs_for_pool (List.filter (is_deposit_request s2) (sorted_txs s2)) k1)))
          (nsum (map (fun t => cd_value (out1 t)) (txs_for_pool (List.filter (is_deposit_request s2) (sorted_txs s2)) k1))) = Ok (p'', m) ->
        p_liqs (pool_at s2 k1) + m < U128) /\
     (forall k1 p1, In k1 K -> get_pool s3 k1 = Some p1 -> p_lefts p1 < U128 /\ p_rights p1 < U128)) ->
  exists p', get_pool s' k = Some p' /\ live p' /\
    coin_supply (LDk SO k) (s_coins s') + psum K (LDk SO k) s' + 1 <= p_liqs p'.
Proof.
  intros H Hk Ep Hl Hslack Hleg Hcover Hkeys Hd0 Hd1 Hs0 Hs1 Hclamp.
  set (d := LDk SO k) in *.
  assert (Eliq: forall st, liq_of K SO d st = p_liqs (pool_at st k)) by (intros st; apply liq_of_single; exact Hk).
  (* liveness *)
  destruct (seal_keeps_pool_live SO s a s' k p H Ep Hl) as (p' & Ep' & Lp').
  { intros t k1 k2 Ht E1 Hk2 Ec. apply (K_code_inj K Kcodes); [apply (Hcover t k1 Ht E1)| |exact Ec].
    destruct Hk2 as [->|(t2 & Ht2 & E2)]; [exact Hk|apply (Hcover t2 k2 Ht2 E2)]. }
  { intros s3 p3 (s2 & H2 & H3) E3.
    set (s1 := create_builtins s) in *.
    assert (F1: frame_fp s1 = frame_fp s) by apply frame_create_builtins.
    assert (T1: sorted_txs s1 = sorted_txs s).
    { apply txs_same. unfold frame_fp, frame in F1. injection F1 as _ _ _ E _ _ _ _ _. exact E. }
    assert (C1: s_coins s1 = s_coins s) by apply coins_create_builtins.
    assert (N1: s_network s1 = s_network s /\ s_height s1 = s_height s).
    { unfold frame_fp, frame in F1. injection F1 as E1 E2 _ _ _ _ _ _ _. auto. }
    destruct N1 as [En1 Eh1]. destruct (Hclamp s2 s3 H2 H3) as [Hsat _].
    destruct (before_withdrawals K Kcodes SO s1 s2 s3 H2 H3) as (T3 & Hdw & S13); rewrite ?T1, ?C1; try assumption.
    { unfold legacy_net. rewrite En1, Eh1. exact Hleg. }
    (* the room to spare is still there when the withdrawals start *)
    assert (S01: settles K SO d s s1).
    { unfold d, LDk. apply (only_builtins_settles K Kcodes SO K_builtins); [apply create_builtins_only|fold s1; rewrite C1; lia]. }
    pose proof (settles_trans K SO d s s1 s3 S01 (S13 d)) as S03. unfold settles in S03. rewrite !Eliq in S03.
    assert (Ps: pool_at s k = p) by (unfold pool_at; rewrite Ep; reflexivity).
    assert (P3: pool_at s3 k = p3) by (unfold pool_at; rewrite E3; reflexivity).
    rewrite Ps, P3 in S03.
    (* and the requests ask for no more than the coins hold *)
    set (ws := txs_for_pool (List.filter (is_withdraw_request SO s3) (sorted_txs s3)) k).
    assert (Hsum: nsum (map (fun t => cd_value (out0 t)) ws) <= coin_supply d (s_coins s3)).
    { apply request_sum_le_supply.
      - unfold ws, txs_for_pool. apply NoDup_map_filter, NoDup_map_filter. rewrite T3, T1. apply key0_of_pairs. exact Hkeys.
      - intros t Ht. unfold ws in Ht. apply in_txs_for_pool in Ht as [Ht Etp]. apply filter_In in Ht as [Hin Hr].
        rewrite T3 in Hin. pose proof (proj2 (proj2 (request_kinds SO s3 t)) Hr) as Ek.
        unfold is_withdraw_request in Hr. apply andb_true_iff in Hr as [Hr Hden]. apply andb_true_iff in Hr as [_ Hc].
        rewrite Etp in Hden. destruct (get_pool s3 k); [|discriminate]. apply denom_eqb_eq in Hden.
        unfold has_coin in Hc. fold (key0 t) in Hc. destruct (s_coins s3 !! key0 t) as [c|] eqn:Ec; [|discriminate].
        destruct (Hdw t c Hin Ek Ec) as [D V].
        rewrite (fix_denom_id t (cd_denom (out0 t))) in D by (rewrite Hden; discriminate).
        exists c. split; [reflexivity|]. split; [rewrite D; exact Hden|exact V]. }
    pose proof (sat_sum_le (map (fun t => cd_value (out0 t)) ws)). fold ws. lia. }
  exists p'. split; [exact Ep'|]. split; [exact Lp'|].
  (* backing after the seal *)
  pose proof (seal_settles_custom K Kcodes SO K_builtins s a s' (so_liq_denom SO (poolkey_code k)) H Hleg Hcover Hkeys Hd0 Hd1 Hs0 Hs1 Hclamp) as S.
  fold (LDk SO k) in S. fold d in S. unfold settles in S. rewrite !Eliq in S.
  assert (Ps: pool_at s k = p) by (unfold pool_at; rewrite Ep; reflexivity).
  assert (Ps': pool_at s' k = p') by (unfold pool_at; rewrite Ep'; reflexivity).
  rewrite Ps, Ps' in S. lia.
Qed.
End Backed.

(* a batch touches no pool and creates no existing custom denomination outside its explicit issuance: the
   backing with room to spare is kept by every accepted batch that issues none of the token *)
Theorem batch_keeps_backed K SO s lh txs s' k p :
  apply_tx_batch SO s lh txs = Ok s' -> HashOK SO s txs ->
  batch_issuance (LDk SO k) txs = 0 ->
  get_pool s k = Some p ->
  coin_supply (LDk SO k) (s_coins s) + psum K (LDk SO k) s + 1 <= p_liqs p ->
  get_pool s' k = Some p /\ coin_supply (LDk SO k) (s_coins s') + psum K (LDk SO k) s' + 1 <= p_liqs p.
Proof.
  intros H HK Hiss Ep Hslack.
  pose proof (accepted_batch_pools SO s lh txs s' H) as Epools.
  assert (Hne: LDk SO k <> NewCustom) by (unfold LDk; discriminate).
  pose proof (accepted_batch_supply_hash SO s lh txs s' H HK (LDk SO k) Hne) as Hs.
  rewrite Hiss in Hs.
  assert (F: forall x, fee_part (LDk SO k) x = 0) by (intros x; unfold fee_part, LDk; reflexivity).
  rewrite !F in Hs.
  split; [unfold get_pool; rewrite Epools; exact Ep|].
  rewrite (psum_same K (LDk SO k) s s' Epools). lia.
Qed.

(* C02: the exact UTXO transition of an accepted batch. *)
From MelVerif Require Import STF.Proofs.Tactics STF.Proofs.MapLemmas STF.Proofs.Stakes STF.Proofs.Faucet.
Open Scope N_scope.

Section Coins.
Variable SO : stf_oracle.
Variable s : wstate.
Variable lh : header.

(* the bindings one transaction inserts into the coin map: its faucet dedup marker, then those of its
   outputs that [relevant] knows (i.e. that are not sent to the destruction address) *)
Definition tx_inserts (relevant : gmap N cdh) (t : tx) : list (N * cdh) :=
  (if txkind_eqb (t_kind t) KFaucet && negb (is_bug_tx t) then [(marker_key SO t, marker_coin)] else [])
  ++ flat_map (fun '(i, _) =>
        let k := coin_key (t_hash t) (i mod 256) in
        match relevant !! k with Some c => [(k, c)] | None => [] end) (enumerate 0 (t_outputs t)).

Lemma remove_coin_fst tip k cn r : remove_coin tip k cn = Ok r -> fst r = delete k (fst cn).
Proof.
  unfold remove_coin. destruct cn as [coins counts].
  destruct tip; [destruct (coins !! k); [destruct (_ =? 0); [discriminate|]|]|];
    intros H; injection H as <-; reflexivity.
Qed.

Lemma remove_coins_fst tip : forall ks cn r, remove_coins tip ks cn = Ok r -> fst r = del_all ks (fst cn).
Proof.
  induction ks as [|k ks IH]; intros cn r H; cbn [remove_coins] in H.
  - injection H as <-. reflexivity.
  - inv_bind H as cn1 H1. rewrite (IH _ _ H), (remove_coin_fst _ _ _ _ H1). reflexivity.
Qed.

Lemma outputs_fold_fst (relevant : gmap N cdh) tip t : forall (l : list (N * coindata)) cn,
  fst (fold_left (fun cn '(i, _) =>
         let k := coin_key (t_hash t) (i mod 256) in
         match relevant !! k with Some c => insert_coin tip k c cn | None => cn end) l cn)
  = ins_all (flat_map (fun '(i, _) =>
         let k := coin_key (t_hash t) (i mod 256) in
         match relevant !! k with Some c => [(k, c)] | None => [] end) l) (fst cn).
Proof.
  induction l as [|[i o] l IH]; intros cn; cbn [fold_left flat_map]; [reflexivity|].
  rewrite IH, ins_all_app. destruct (relevant !! _); [|reflexivity].
  rewrite insert_coin_fst. reflexivity.
Qed.

Lemma insert_outputs_fst relevant tip t cn r :
  insert_outputs SO s relevant tip t cn = Ok r -> fst r = ins_all (tx_inserts relevant t) (fst cn).
Proof.
  unfold insert_outputs, tx_inserts. intros H. inv_bind H as cn0 H0. injection H as <-.
  rewrite outputs_fold_fst, ins_all_app. f_equal.
  destruct (txkind_eqb (t_kind t) KFaucet); cbn [andb]; [|injection H0 as <-; reflexivity].
  unfold handle_faucet in H0. destruct (_ && _); [discriminate|].
  destruct (fst cn !! _); [discriminate|].
  destruct (is_bug_tx t); injection H0 as <-; [reflexivity|].
  cbn [negb]. rewrite insert_coin_fst. reflexivity.
Qed.

Lemma insert_all_fst relevant tip : forall txs cn r,
  insert_all SO s relevant tip txs cn = Ok r -> fst r = ins_all (flat_map (tx_inserts relevant) txs) (fst cn).
Proof.
  induction txs as [|t rest IH]; intros cn r H; cbn [insert_all] in H.
  - injection H as <-. reflexivity.
  - inv_bind H as cn1 H1. cbn [flat_map]. rewrite ins_all_app, (IH _ _ H), (insert_outputs_fst _ _ _ _ _ H1). reflexivity.
Qed.

(* the whole (coins, counts) pair after the first pass is a fold of insert_coin over the bindings *)
Definition ins_pairs (tip : bool) (l : list (N * cdh)) (cn : gmap N cdh * gmap N N) : gmap N cdh * gmap N N :=
  fold_left (fun cn kv => insert_coin tip (fst kv) (snd kv) cn) l cn.

Lemma insert_outputs_pairs relevant tip t cn r :
  insert_outputs SO s relevant tip t cn = Ok r -> r = ins_pairs tip (tx_inserts relevant t) cn.
Proof.
  unfold insert_outputs, tx_inserts, ins_pairs. intros H. inv_bind H as cn0 H0. injection H as <-.
  rewrite fold_left_app.
  assert (E: cn0 = fold_left (fun cn kv => insert_coin tip (fst kv) (snd kv) cn)
                     (if txkind_eqb (t_kind t) KFaucet && negb (is_bug_tx t) then [(marker_key SO t, marker_coin)] else []) cn).
  { destruct (txkind_eqb (t_kind t) KFaucet); cbn [andb]; [|injection H0 as <-; reflexivity].
    unfold handle_faucet in H0. destruct (_ && _); [discriminate|].
    destruct (fst cn !! _); [discriminate|].
    destruct (is_bug_tx t); injection H0 as <-; reflexivity. }
  rewrite <- E. generalize cn0. clear.
  generalize (enumerate 0 (t_outputs t)) as l. induction l as [|[i o] l IH]; intros cn0; cbn [fold_left flat_map]; [reflexivity|].
  rewrite fold_left_app, IH. destruct (relevant !! _); reflexivity.
Qed.

Lemma insert_all_pairs relevant tip : forall txs cn r,
  insert_all SO s relevant tip txs cn = Ok r -> r = ins_pairs tip (flat_map (tx_inserts relevant) txs) cn.
Proof.
  induction txs as [|t rest IH]; intros cn r H; cbn [insert_all] in H.
  - injection H as <-. reflexivity.
  - inv_bind H as cn1 H1. cbn [flat_map]. unfold ins_pairs. rewrite fold_left_app.
    rewrite (IH _ _ H), (insert_outputs_pairs _ _ _ _ _ H1). reflexivity.
Qed.

Lemma spend_all_coins tip : forall txs n n',
  spend_all tip txs n = Ok n' -> s_coins n' = del_all (all_inputs txs) (s_coins n).
Proof.
  induction txs as [|t rest IH]; intros n n' H; cbn [spend_all] in H.
  - injection H as <-. reflexivity.
  - inv_bind H as n1 H1. rewrite (IH _ _ H). unfold all_inputs. cbn [flat_map].
    unfold del_all. rewrite fold_left_app. f_equal.
    unfold spend_and_pay in H1. inv_bind H1 as cn Hcn. inv_bind H1 as mf Hmf.
    destruct (t_fee t <? mf); [discriminate|]. injection H1 as <-. cbn [s_coins set_txs set_fees set_coins].
    apply remove_coins_fst in Hcn. exact Hcn.
Qed.

(* the coin set after an accepted batch: every insertion of the batch, then every input removed *)
Theorem accepted_batch_coins txs s' :
  apply_tx_batch SO s lh txs = Ok s' ->
  exists relevant, load_relevant_coins s txs = Ok relevant /\
    s_coins s' = del_all (all_inputs txs) (ins_all (flat_map (tx_inserts relevant) txs) (s_coins s)).
Proof.
  intros H. destruct (apply_tx_batch_inv _ _ _ _ _ H) as (relevant & n & Hrel & _ & _ & _ & Hn & _ & -> & _).
  exists relevant. split; [exact Hrel|].
  unfold create_next_state in Hn. inv_bind Hn as cn Hcn.
  rewrite (spend_all_coins _ _ _ _ Hn). cbn [s_coins set_coins]. f_equal.
  apply insert_all_fst in Hcn. exact Hcn.
Qed.

(* --- what load_relevant_coins guarantees *)
Definition outputs_map (txs : list tx) : gmap N cdh := batch_outputs (s_height s) txs.

Lemma dup_free_nodup : forall ks seen, dup_free seen ks = true -> NoDup ks /\ forall k, In k ks -> seen !! k = None.
Proof.
  induction ks as [|k ks IH]; intros seen H; cbn [dup_free] in H.
  - split; [constructor|intros k []].
  - destruct (seen !! k) eqn:E; [discriminate|].
    destruct (IH _ H) as [Hnd Hs]. split.
    + constructor; [|exact Hnd]. intros Hin. specialize (Hs k Hin). rewrite lookup_insert in Hs. discriminate.
    + intros k' [<-|Hin]; [exact E|]. specialize (Hs k' Hin).
      destruct (decide (k = k')) as [->|Hne]; [rewrite lookup_insert in Hs; discriminate|].
      rewrite lookup_insert_ne in Hs by exact Hne. exact Hs.
Qed.

Theorem load_relevant_coins_spec txs relevant :
  load_relevant_coins s txs = Ok relevant ->
  (* every transaction is well-formed and its totals fit *)
  (forall t, In t txs -> well_formed t = true /\ totals_fit t = true) /\
  (* no coin is consumed twice *)
  NoDup (all_inputs txs) /\
  (* every input is unspent in the prior state or created inside the batch *)
  (forall k, In k (all_inputs txs) -> is_Some (outputs_map txs !! k) \/ is_Some (s_coins s !! k)) /\
  (* and [relevant] maps it to that coin *)
  (forall k, In k (all_inputs txs) ->
     relevant !! k = match outputs_map txs !! k with Some c => Some c | None => s_coins s !! k end) /\
  (forall k, ~ In k (all_inputs txs) -> relevant !! k = outputs_map txs !! k).
Proof.
  unfold load_relevant_coins. fold (outputs_map txs).
  destruct (forallb (fun t => well_formed t && totals_fit t) txs) eqn:Hwf; [|discriminate]. cbn [negb].
  intros H. inv_bind H as ins Hins.
  destruct (dup_free ∅ (all_inputs txs)) eqn:Hd; [|discriminate]. injection H as <-.
  apply dup_free_nodup in Hd as [Hnd _].
  assert (G: forall ks m r, lookup_inputs (outputs_map txs) (s_coins s) ks m = Ok r ->
     (forall k, In k ks -> is_Some (outputs_map txs !! k) \/ is_Some (s_coins s !! k)) /\
     (forall k, r !! k = if bool_decide (k ∈ ks) && bool_decide (outputs_map txs !! k = None) then s_coins s !! k else m !! k)).
  { induction ks as [|k ks IH]; intros m r Hr; cbn [lookup_inputs] in Hr.
    - injection Hr as <-. split; [intros k []|]. intros k. rewrite bool_decide_eq_false_2 by apply not_elem_of_nil. reflexivity.
    - destruct (outputs_map txs !! k) as [c|] eqn:Eo.
      + destruct (IH _ _ Hr) as [H1 H2]. split.
        * intros k' [<-|Hin]; [left; rewrite Eo; eauto|auto].
        * intros k'. rewrite H2. destruct (decide (k' = k)) as [->|Hne].
          -- rewrite (bool_decide_eq_false_2 (outputs_map txs !! k = None)) by (rewrite Eo; discriminate).
             rewrite !andb_false_r. reflexivity.
          -- rewrite (bool_decide_ext (k' ∈ k :: ks) (k' ∈ ks)) by (rewrite elem_of_cons; tauto). reflexivity.
      + destruct (s_coins s !! k) as [c|] eqn:Ec; [|discriminate].
        destruct (IH _ _ Hr) as [H1 H2]. split.
        * intros k' [<-|Hin]; [right; rewrite Ec; eauto|auto].
        * intros k'. rewrite H2. destruct (decide (k' = k)) as [->|Hne].
          -- rewrite (bool_decide_eq_true_2 (k ∈ k :: ks)) by apply elem_of_list_here.
             rewrite (bool_decide_eq_true_2 (outputs_map txs !! k = None)) by exact Eo. cbn [andb].
             destruct (bool_decide (k ∈ ks)); cbn [andb]; [reflexivity|]. rewrite lookup_insert. symmetry. exact Ec.
          -- rewrite lookup_insert_ne by congruence.
             rewrite (bool_decide_ext (k' ∈ k :: ks) (k' ∈ ks)) by (rewrite elem_of_cons; tauto). reflexivity. }
  destruct (G _ _ _ Hins) as [G1 G2].
  split.
  { intros t Ht. rewrite forallb_forall in Hwf. specialize (Hwf t Ht). apply andb_true_iff in Hwf. exact Hwf. }
  split; [exact Hnd|]. split; [exact G1|]. split.
  - intros k Hin. rewrite lookup_union, G2, lookup_empty.
    rewrite (bool_decide_eq_true_2 (k ∈ all_inputs txs)) by (apply elem_of_list_In; exact Hin). cbn [andb].
    destruct (outputs_map txs !! k) as [c|] eqn:E.
    + rewrite bool_decide_eq_false_2 by discriminate. reflexivity.
    + rewrite bool_decide_eq_true_2 by reflexivity. destruct (s_coins s !! k); reflexivity.
  - intros k Hn. rewrite lookup_union, G2, lookup_empty.
    rewrite (bool_decide_eq_false_2 (k ∈ all_inputs txs)) by (rewrite elem_of_list_In; exact Hn). cbn [andb].
    destruct (outputs_map txs !! k); reflexivity.
Qed.

(* --- the set equation, under the hash-oracle assumptions that keep coin ids apart *)
Definition created (txs : list tx) : list (N * cdh) := flat_map (output_coins (s_height s)) txs.
Definition markers (txs : list tx) : list N :=
  map (marker_key SO) (List.filter (fun t => txkind_eqb (t_kind t) KFaucet && negb (is_bug_tx t)) txs).

Lemma outputs_map_ins_all txs : outputs_map txs = ins_all (created txs) ∅.
Proof.
  unfold outputs_map, batch_outputs, created. generalize (∅ : gmap N cdh) as m.
  induction txs as [|t r IH]; intros m; cbn [fold_left flat_map]; [reflexivity|].
  rewrite ins_all_app, IH. reflexivity.
Qed.

Lemma in_tx_inserts relevant t k c :
  In (k, c) (tx_inserts relevant t) <->
  (txkind_eqb (t_kind t) KFaucet && negb (is_bug_tx t) = true /\ k = marker_key SO t /\ c = marker_coin) \/
  (exists i o, In (i, o) (enumerate 0 (t_outputs t)) /\ k = coin_key (t_hash t) (i mod 256) /\ relevant !! k = Some c).
Proof.
  unfold tx_inserts. rewrite in_app_iff, in_flat_map. split.
  - intros [H|([i o] & Hin & H)].
    + left. destruct (_ && _); [|contradiction]. destruct H as [E|[]]. injection E as <- <-. auto.
    + right. exists i, o. split; [exact Hin|]. cbn zeta in H.
      destruct (relevant !! coin_key (t_hash t) (i mod 256)) as [c'|] eqn:E; [|contradiction].
      destruct H as [E2|[]]. injection E2 as <- <-. auto.
  - intros [(Hf & -> & ->)|(i & o & Hin & -> & Hr)].
    + left. rewrite Hf. left. reflexivity.
    + right. exists (i, o). split; [exact Hin|]. cbn zeta. rewrite Hr. left. reflexivity.
Qed.

Lemma in_output_coins t k c :
  In (k, c) (output_coins (s_height s) t) ->
  exists i o, In (i, o) (enumerate 0 (t_outputs t)) /\ k = coin_key (t_hash t) (i mod 256).
Proof.
  unfold output_coins. rewrite in_flat_map. intros ([i o] & Hin & H).
  destruct (cd_covhash o =? 0); [contradiction|]. destruct H as [E|[]]. injection E as <- _. eauto.
Qed.

Theorem accepted_batch_utxo txs s' :
  apply_tx_batch SO s lh txs = Ok s' ->
  (* created coin ids are bound consistently (distinct transactions have distinct hashes) and dedup
     markers are not coin ids of outputs *)
  consistent (created txs) ->
  (forall t t' i, In t txs -> In t' txs -> marker_key SO t <> coin_key (t_hash t') (i mod 256)) ->
  forall k,
    (In k (all_inputs txs) -> s_coins s' !! k = None) /\
    (~ In k (all_inputs txs) ->
       (forall c, In (k, c) (created txs) -> s_coins s' !! k = Some c) /\
       (In k (markers txs) -> s_coins s' !! k = Some marker_coin) /\
       (~ In k (map fst (created txs)) -> ~ In k (markers txs) -> s_coins s' !! k = s_coins s !! k)).
Proof.
  intros H Hcons Hmk k.
  destruct (accepted_batch_coins _ _ H) as (relevant & Hrel & ->).
  destruct (load_relevant_coins_spec _ _ Hrel) as (_ & _ & _ & _ & Hout).
  split; [apply del_all_in|]. intros Hk. rewrite !del_all_notin by exact Hk.
  (* for keys that are not spent, [relevant] is the map of created coins *)
  assert (Hr: forall k', ~ In k' (all_inputs txs) -> forall c, relevant !! k' = Some c <-> In (k', c) (created txs)).
  { intros k' Hk' c. rewrite (Hout k' Hk'), outputs_map_ins_all. split.
    - intros E. destruct (in_dec (fun a b => decide (a = b)) k' (map fst (created txs))) as [Hi|Hi].
      + apply in_map_iff in Hi as ([k2 c2] & E2 & Hi). cbn in E2. subst k2.
        rewrite (ins_all_in _ _ _ _ Hcons Hi) in E. injection E as ->. exact Hi.
      + rewrite ins_all_notin, lookup_empty in E by exact Hi. discriminate.
    - intros Hi. apply ins_all_in; assumption. }
  set (L := flat_map (tx_inserts relevant) txs).
  (* every binding of L for an unspent key is a marker or a created coin *)
  assert (HL: forall k' c, ~ In k' (all_inputs txs) -> In (k', c) L ->
            (In k' (markers txs) /\ c = marker_coin) \/ In (k', c) (created txs)).
  { intros k' c Hk' HinL. unfold L in HinL. apply in_flat_map in HinL as (t & Ht & HinL).
    apply in_tx_inserts in HinL as [(Hf & -> & ->)|(i & o & Hio & -> & Hrc)].
    - left. split; [|reflexivity]. unfold markers. apply in_map. apply filter_In. auto.
    - right. apply (Hr _ Hk'). exact Hrc. }
  (* and every marker / created coin of an unspent key is a binding of L *)
  assert (HLm: forall t, In t txs -> txkind_eqb (t_kind t) KFaucet && negb (is_bug_tx t) = true ->
            In (marker_key SO t, marker_coin) L).
  { intros t Ht Hf. unfold L. apply in_flat_map. exists t. split; [exact Ht|]. apply in_tx_inserts. left. auto. }
  assert (HLc: forall k' c, ~ In k' (all_inputs txs) -> In (k', c) (created txs) -> In (k', c) L).
  { intros k' c Hk' Hc. pose proof Hc as Hc2. unfold created in Hc2. apply in_flat_map in Hc2 as (t & Ht & Hoc).
    destruct (in_output_coins _ _ _ Hoc) as (i & o & Hio & ->).
    unfold L. apply in_flat_map. exists t. split; [exact Ht|]. apply in_tx_inserts. right.
    exists i, o. split; [exact Hio|]. split; [reflexivity|]. apply (Hr _ Hk'). exact Hc. }
  (* consistency of the bindings of one unspent key *)
  assert (Hone: forall v, ~ In k (all_inputs txs) -> In (k, v) L -> ins_all L (s_coins s) !! k = Some v).
  { intros v _ Hv.
    (* generalised ins_all_in: only the bindings of k itself need to agree *)
    assert (G: forall l m, (forall v2, In (k, v2) l -> v2 = v) -> In (k, v) l -> ins_all l m !! k = Some v).
    { induction l as [|[k0 v0] l IH]; intros m Hall Hin; [contradiction|].
      cbn [ins_all fold_left fst snd]. fold (ins_all l (<[k0 := v0]> m)).
      destruct (in_dec (fun a b => decide (a = b)) k (map fst l)) as [Hkl|Hkl].
      - apply in_map_iff in Hkl as ([k2 v2] & E2 & Hi). cbn in E2. subst k2.
        assert (v2 = v) by (apply Hall; right; exact Hi). subst v2.
        apply IH; [intros v3 H3; apply Hall; right; exact H3|exact Hi].
      - rewrite ins_all_notin by exact Hkl.
        destruct Hin as [E|Hin]; [injection E as -> ->; apply lookup_insert|].
        exfalso. apply Hkl. apply in_map_iff. exists (k, v). auto. }
    apply G; [|exact Hv]. intros v2 Hv2.
    destruct (HL _ _ Hk Hv) as [[Hm1 ->]|Hc1]; destruct (HL _ _ Hk Hv2) as [[Hm2 ->]|Hc2]; try reflexivity.
    - exfalso. unfold markers in Hm1. apply in_map_iff in Hm1 as (t & Et & Ht). apply filter_In in Ht as [Ht _].
      unfold created in Hc2. apply in_flat_map in Hc2 as (t' & Ht' & Hoc).
      destruct (in_output_coins _ _ _ Hoc) as (i & o & _ & Ek). apply (Hmk t t' i Ht Ht'). congruence.
    - exfalso. unfold markers in Hm2. apply in_map_iff in Hm2 as (t & Et & Ht). apply filter_In in Ht as [Ht _].
      unfold created in Hc1. apply in_flat_map in Hc1 as (t' & Ht' & Hoc).
      destruct (in_output_coins _ _ _ Hoc) as (i & o & _ & Ek). apply (Hmk t t' i Ht Ht'). congruence.
    - eapply Hcons; eauto. }
  split; [|split].
  - intros c Hc. apply Hone; [exact Hk|]. apply HLc; assumption.
  - intros Hm. apply Hone; [exact Hk|]. unfold markers in Hm. apply in_map_iff in Hm as (t & <- & Ht).
    apply filter_In in Ht as [Ht Hf]. apply HLm; assumption.
  - intros Hnc Hnm. apply ins_all_notin. intros HinL. apply in_map_iff in HinL as ([k2 c] & E & HinL).
    cbn in E. subst k2. destruct (HL _ _ Hk HinL) as [[Hm _]|Hc]; [exact (Hnm Hm)|].
    apply Hnc. apply in_map_iff. exists (k, c). auto.
Qed.
End Coins.

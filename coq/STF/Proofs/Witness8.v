(* Non-vacuity of the history theorems of STF/Proofs/BoundsHistory.v: the concrete history of Witness5.v (a batch
   of two faucets and a transfer, then a block boundary with a proposer action, which bootstraps the built-in
   pools) starts in a state of the invariant and meets [bounds_step_ok] at every step. *)
From MelVerif Require Import STF.Proofs.Tactics STF.Proofs.MapLemmas STF.Proofs.Frame STF.Proofs.SealCoins STF.Proofs.SealLift
  STF.Proofs.SealInv STF.Proofs.SealCounts STF.Proofs.History STF.Proofs.Declared STF.Proofs.SealPegged STF.Proofs.SupplyHistory STF.Proofs.BoundsHistory
  STF.Proofs.Witness STF.Proofs.Witness4 STF.Proofs.Witness5 STF.Proofs.Witness6.
Open Scope N_scope.

Lemma w_state_good2 : Good2 w_state.
Proof.
  split; [exact w_state_good|]. intros t Ht. apply in_sorted_txs in Ht as (h & Hh). cbn in Hh.
  rewrite lookup_empty in Hh. discriminate.
Qed.

Lemma w_s1_bounds : seal_bounds w_K3 w_oracle w_s1.
Proof.
  split; [vm_compute; reflexivity|]. split.
  { intros t k1 Ht E. rewrite w_s1_txs in Ht. cbn in Ht.
    destruct Ht as [<-|[<-|[<-|[]]]]; vm_compute in E; discriminate. }
  split; [vm_compute; reflexivity|]. split; [vm_compute; reflexivity|].
  intros s2 s3 H2 H3. vm_compute in H2. injection H2 as <-. vm_compute in H3. injection H3 as <-. split.
  - intros k1 p'' m Hk E. unfold w_K3 in Hk. cbn in Hk.
    destruct Hk as [<-|[<-|[<-|[]]]]; vm_compute in E; injection E as <- <-; vm_compute; reflexivity.
  - intros k1 p1 Hk E. unfold w_K3 in Hk. cbn in Hk.
    destruct Hk as [<-|[<-|[<-|[]]]]; vm_compute in E; injection E as <-; split; vm_compute; reflexivity.
Qed.

Lemma w_hist_bounds : hist_all w_oracle (bounds_step_ok w_K3 w_oracle) w_state w_hist.
Proof.
  cbn [hist_all w_hist]. split; [split; [exact w_hash_ok|intros t t' _ []]|]. split; [|exact I].
  cbn [bounds_step_ok]. split; [|exact w_s1_bounds].
  destruct w_hist_ok as (_ & H & _). exact H.
Qed.

(* what the history may issue (the cap of the peg nudge dominates it), and what exists before and after *)
Lemma w_hist_issued :
  hist_issuance w_K3 w_oracle Mel w_state w_hist = 1701411834604692317316873039158848057 /\
  held w_K3 Mel w_state = 1000 /\
  held w_K3 Mel (fold_left (hstep w_oracle) w_hist w_state) = 2000007989.
Proof. vm_compute. repeat split. Qed.

Lemma w_history_witness :
  Good2 w_state /\ hist_all w_oracle (bounds_step_ok w_K3 w_oracle) w_state w_hist /\
  hist_issuance w_K3 w_oracle Mel w_state w_hist = 1701411834604692317316873039158848057 /\
  held w_K3 Mel w_state = 1000 /\
  held w_K3 Mel (fold_left (hstep w_oracle) w_hist w_state) = 2000007989.
Proof. exact (conj w_state_good2 (conj w_hist_bounds w_hist_issued)). Qed.

(* ... and of STF/Proofs/Born.v: in the starting state the MEL/SYM pool does not exist and none of its tokens
   does, the batch issues none, and the block is sealed *)
From MelVerif Require Import STF.Proofs.PoolHistory STF.Proofs.Born.
Lemma w_born :
  Unborn w_K3 w_oracle MS w_state /\ Unborn w_K3 w_oracle ES w_state /\
  hist_all w_oracle (pool_bounds_step_ok w_K3 w_oracle MS) w_state ([HBatch w_header w_batch] ++ HBlock (Some w_action) w_header :: []) /\
  (exists sealed, seal w_oracle (fold_left (hstep w_oracle) [HBatch w_header w_batch] w_state) (Some w_action) = Ok sealed).
Proof.
  split; [split; [reflexivity|split; [vm_compute; discriminate|intros E; vm_compute in E; discriminate]]|].
  split; [split; [reflexivity|split; [vm_compute; discriminate|intros _; vm_compute; reflexivity]]|]. split.
  - pose proof w_hist_bounds as H. unfold w_hist in H. cbn [hist_all app] in *. destruct H as (A & B & _).
    split; [split; [exact A|vm_compute; reflexivity]|]. split; [split; [exact B|exact I]|exact I].
  - vm_compute. eexists. reflexivity.
Qed.

(* ... and of [seal_total_from_born]: all three built-in pools are unborn in the starting state and the batch
   issues none of their tokens *)
From MelVerif Require Import STF.Proofs.SealTotal.
Lemma w_total_from_born :
  Good2 w_state /\ (forall k, builtin k -> BornBacked w_K3 w_oracle k w_state) /\
  hist_all w_oracle (builtins_step_ok w_K3 w_oracle) w_state [HBatch w_header w_batch].
Proof.
  split; [exact w_state_good2|]. split.
  - intros k [-> | [-> | ->]]; right; (split; [reflexivity|split; [vm_compute; discriminate|]]).
    + intros E; vm_compute in E; discriminate.
    + intros E; vm_compute in E; discriminate.
    + intros _. vm_compute. reflexivity.
  - cbn [hist_all]. split; [|exact I]. intros k Hk.
    pose proof w_hist_bounds as H. unfold w_hist in H. cbn [hist_all] in H. destruct H as (A & _).
    split; [exact A|]. destruct Hk as [-> | [-> | ->]]; vm_compute; reflexivity.
Qed.

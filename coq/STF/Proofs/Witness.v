(* A concrete state, oracle and batch: non-vacuity witnesses for the whole-batch theorems (their hypotheses -
   the hash-oracle assumptions, acceptance, the counts invariant - hold together on a non-trivial example). *)
From MelVerif Require Import STF.Proofs.Tactics STF.Proofs.MapLemmas STF.Proofs.Stakes STF.Proofs.Faucet
  STF.Proofs.Coins STF.Proofs.Counts STF.Proofs.HashFacts STF.Proofs.SeqApply.
From MelVerif Require Import VM.Op VM.Codec.
Open Scope N_scope.

Definition w_oracle : stf_oracle :=
  {| so_vm := {| o_hash := fun b => b; o_sig := fun _ _ _ => false |};
     so_reward_id := fun h => 7000000 + h;
     so_faucet_marker := fun h => 9000000 + h;
     so_liq_denom := fun c => 8000000 + c;
     so_header_hash := fun h => h_height h + 1;
     so_melpow := fun _ _ _ _ => VInvalid;
     so_ed25519 := fun _ _ _ => false |}.

(* covenant "PushI 1": accepts every spend *)
Definition w_true_bytes : list N := default [] (encode_all [PushI 1]).
Definition w_true_hash : N := 4242.

Definition w_state : wstate :=
  {| s_network := 2; s_height := 5; s_history := ∅; s_coins := ∅; s_counts := ∅; s_txs := ∅;
     s_fee_pool := 1000; s_fee_mult := 100; s_tips := 0; s_dosc_speed := 1; s_pools := ∅; s_stakes := ∅ |}.

Definition w_header : header :=
  {| h_network := 2; h_previous := 0; h_height := 4; h_history := 0; h_coins := 0; h_txs := 0; h_fee_pool := 1000;
     h_fee_mult := 100; h_dosc_speed := 1; h_pools := 0; h_stakes := 0 |}.

Definition w_out (v : N) (d : denom) : coindata := {| cd_covhash := w_true_hash; cd_value := v; cd_denom := d; cd_extra := [] |}.

Definition w_mk (k : txkind) (ins : list (N * N)) (outs : list coindata) (fee h : N) : tx :=
  {| t_kind := k; t_inputs := ins; t_outputs := outs; t_fee := fee; t_covenants := [w_true_bytes]; t_data := [];
     t_sigs := []; t_hash := h; t_fullhash := h + 1000; t_rawlen := 100; t_covhashes := [w_true_hash];
     t_stakedoc := None; t_poolkey := None; t_dosc := DDNone |}.

(* two faucets and a transfer that spends the first faucet's MEL inside the same batch, creating its own token *)
Definition w_f1 : tx := w_mk KFaucet [] [w_out 5000 Mel; w_out 70 Sym] 1000 11.
Definition w_f2 : tx := w_mk KFaucet [] [w_out 300 Erg] 1000 12.
Definition w_t3 : tx := w_mk KNormal [(11, 0)] [w_out 3000 Mel; w_out 9 NewCustom] 2000 13.
Definition w_batch : list tx := [w_f1; w_f2; w_t3].

Lemma w_accepted : exists s', apply_tx_batch w_oracle w_state w_header w_batch = Ok s'.
Proof. vm_compute. eexists. reflexivity. Qed.

Lemma w_hash_ok : HashOK w_oracle w_state w_batch.
Proof.
  constructor.
  - cbn. repeat constructor; cbn; intuition discriminate.
  - intros t i _ _. apply lookup_empty.
  - intros t t' Ht Ht'. cbn in Ht, Ht'. intuition (subst; cbn; discriminate).
  - intros t t' i Ht Ht' Hi. cbn in Ht, Ht'.
    destruct Ht' as [<-|[<-|[<-|[]]]]; cbn in Hi; try contradiction.
    destruct Hi as [<-|[]]. intuition (subst; vm_compute; discriminate).
  - intros t t' Ht Ht'. cbn in Ht, Ht'. intuition (subst; cbn in *; try reflexivity; try lia).
Qed.

Lemma w_counts_ok : tip_906 w_state = true -> CountsOk (s_coins w_state, s_counts w_state).
Proof. intros _. intros h. cbn [fst snd w_state s_coins s_counts]. rewrite count_of_empty. cbn. apply lookup_empty. Qed.

Lemma w_perm : Permutation w_batch [w_t3; w_f2; w_f1].
Proof.
  unfold w_batch. apply (perm_trans (l' := [w_f2; w_f1; w_t3])); [apply perm_swap|].
  apply (perm_trans (l' := [w_f2; w_t3; w_f1])); [apply perm_skip, perm_swap|].
  apply (perm_trans (l' := [w_t3; w_f2; w_f1])); [apply perm_swap|]. reflexivity.
Qed.

Lemma w_dep_ordered : dep_ordered w_batch.
Proof.
  cbn [dep_ordered w_batch]. split; [intros i []|]. split; [intros i []|]. split; [|exact I].
  intros i Hi. cbn in Hi. destruct Hi as [<-|[]]. vm_compute. intuition discriminate.
Qed.

Lemma w_indices : forall t i, In t w_batch -> In i (t_inputs t) -> snd i < 256.
Proof. intros t i Ht Hi. cbn in Ht. destruct Ht as [<-|[<-|[<-|[]]]]; cbn in Hi; try contradiction. destruct Hi as [<-|[]]. cbn. lia. Qed.

Lemma w_sequential : exists s', seq_apply w_oracle w_header w_state w_batch = Ok s'.
Proof. vm_compute. eexists. reflexivity. Qed.

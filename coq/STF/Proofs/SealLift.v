(* C01 / C15 / C16 at sealing, lifted from one pool to the whole settlement phase: over all pools of a list K
   (any list of pool names with pairwise different codes that contains every pool a request names),
   coins + reserves of every denomination never grow while the swaps of a block are settled. *)
From MelVerif Require Import STF.Proofs.Tactics STF.Proofs.MapLemmas STF.Proofs.Frame STF.Proofs.Stakes
  STF.Proofs.Faucet STF.Proofs.Coins STF.Proofs.Supply STF.Proofs.Fees STF.Proofs.Pool STF.Proofs.SealCoins STF.Proofs.Perm
  STF.Proofs.HashFacts STF.Proofs.BatchSupply STF.Proofs.SealSupply STF.Proofs.PoolKeys.
From Coq Require Import ZifyN ZifyNat ZifyBool.
Open Scope N_scope.

Section Lift.
Variable K : list (denom * denom).
(* PoolKey::to_bytes is injective on the pools considered *)
Hypothesis Kcodes : NoDup (map poolkey_code K).

Definition pool_at (s : wstate) (k : denom * denom) : pool :=
  match get_pool s k with Some p => p | None => new_empty_pool end.
Definition psum (d : denom) (s : wstate) : N := nsum (map (fun k => side d k (pool_at s k)) K).

Lemma side_empty d k : side d k new_empty_pool = 0.
Proof. unfold side, new_empty_pool. cbn. destruct (denom_eqb d (fst k)), (denom_eqb d (snd k)); reflexivity. Qed.

Lemma psum_update d s s' k p' :
  In k K -> s_pools s' = <[poolkey_code k := p']> (s_pools s) ->
  psum d s' + side d k (pool_at s k) = psum d s + side d k p'.
Proof.
  intros Hk Ep. unfold psum. revert Kcodes Hk. generalize K as l.
  induction l as [|k0 l IH]; intros Hnd Hin; [contradiction|].
  cbn [map nsum]. cbn [map] in Hnd. inversion Hnd as [|? ? Hni Hnd']; subst.
  assert (Hother: forall l0, ~ In (poolkey_code k) (map poolkey_code l0) ->
            map (fun k1 => side d k1 (pool_at s' k1)) l0 = map (fun k1 => side d k1 (pool_at s k1)) l0).
  { intros l0 Hn. apply map_ext_in. intros k1 Hk1. unfold pool_at, get_pool. rewrite Ep, lookup_insert_ne; [reflexivity|].
    intros E. apply Hn. rewrite E. apply in_map. exact Hk1. }
  destruct Hin as [->|Hin].
  - rewrite (Hother l Hni). unfold pool_at at 1, get_pool. rewrite Ep, lookup_insert. lia.
  - assert (Hne: poolkey_code k0 <> poolkey_code k) by (intros E; apply Hni; rewrite E; apply in_map; exact Hin).
    specialize (IH Hnd' Hin). unfold pool_at at 1, get_pool. rewrite Ep, lookup_insert_ne by congruence.
    fold (get_pool s k0). fold (pool_at s k0). lia.
Qed.

Lemma psum_same d s s' : s_pools s' = s_pools s -> psum d s' = psum d s.
Proof. intros E. unfold psum, pool_at, get_pool. rewrite E. reflexivity. Qed.

Lemma poolkey_eqb_eq a b : poolkey_eqb a b = true <-> a = b.
Proof.
  unfold poolkey_eqb. rewrite andb_true_iff, !denom_eqb_eq. destruct a, b; cbn. split; [intros [-> ->]; reflexivity|intros E; injection E; auto].
Qed.

Lemma in_txs_for_pool reqs k t : In t (txs_for_pool reqs k) <-> In t reqs /\ tx_pool t = Some k.
Proof.
  unfold txs_for_pool. rewrite filter_In. split; intros [H1 H2]; (split; [exact H1|]).
  - destruct (tx_pool t) as [k'|]; [|discriminate]. apply poolkey_eqb_eq in H2. congruence.
  - rewrite H2. apply poolkey_eqb_eq. reflexivity.
Qed.

Lemma NoDup_map_filter {A} (f : A -> N) (p : A -> bool) : forall l, NoDup (map f l) -> NoDup (map f (List.filter p l)).
Proof.
  induction l as [|x l IH]; intros H; cbn [List.filter map]; [constructor|].
  cbn [map] in H. inversion H as [|? ? Hni Hnd]; subst.
  destruct (p x); cbn [map]; [|apply IH; exact Hnd]. constructor; [|apply IH; exact Hnd].
  intros Hin. apply Hni. apply in_map_iff in Hin as (y & E & Hy). apply filter_In in Hy as [Hy _].
  rewrite <- E. apply in_map. exact Hy.
Qed.

Lemma nsum_filter_le {A} (f : A -> N) (p : A -> bool) : forall l, nsum (map f (List.filter p l)) <= nsum (map f l).
Proof.
  induction l as [|x l IH]; cbn [List.filter map nsum]; [lia|]. destruct (p x); cbn [map nsum]; lia.
Qed.

Lemma swaps_single_pool_other_coins k s swaps s' key :
  swaps_single_pool k s swaps = Ok s' -> ~ In key (map key0 swaps) -> s_coins s' !! key = s_coins s !! key.
Proof.
  unfold swaps_single_pool. intros H Hk. destruct (get_pool s k); [|discriminate].
  inv_bind H as r Hr. destruct r as [[p' lw] rw]. injection H as <-. cbn [s_coins put_pool set_pools].
  destruct (swaps_go_state k lw rw (swap_total (fst k) swaps) (swap_total (snd k) swaps) swaps s) as [Ec _].
  rewrite Ec. apply ins_all_notin. rewrite map_map. cbn [fst]. exact Hk.
Qed.

(* ---- liquidity recorded by the pools whose token is d *)
Variable SO : stf_oracle.
Definition LDk (k : denom * denom) : denom := Custom (so_liq_denom SO (poolkey_code k)).
Definition liq_of (d : denom) (s : wstate) : N :=
  nsum (map (fun k => if denom_eqb d (LDk k) then p_liqs (pool_at s k) else 0) K).

Lemma liq_of_update d s s' k p' :
  In k K -> s_pools s' = <[poolkey_code k := p']> (s_pools s) ->
  liq_of d s' + (if denom_eqb d (LDk k) then p_liqs (pool_at s k) else 0)
  = liq_of d s + (if denom_eqb d (LDk k) then p_liqs p' else 0).
Proof.
  intros Hk Ep. unfold liq_of. revert Kcodes Hk. generalize K as l.
  induction l as [|k0 l IH]; intros Hnd Hin; [contradiction|].
  cbn [map nsum]. cbn [map] in Hnd. inversion Hnd as [|? ? Hni Hnd']; subst.
  assert (Hother: forall l0, ~ In (poolkey_code k) (map poolkey_code l0) ->
            map (fun k1 => if denom_eqb d (LDk k1) then p_liqs (pool_at s' k1) else 0) l0
            = map (fun k1 => if denom_eqb d (LDk k1) then p_liqs (pool_at s k1) else 0) l0).
  { intros l0 Hn. apply map_ext_in. intros k1 Hk1. unfold pool_at, get_pool. rewrite Ep, lookup_insert_ne; [reflexivity|].
    intros E. apply Hn. rewrite E. apply in_map. exact Hk1. }
  destruct Hin as [->|Hin].
  - rewrite (Hother l Hni). unfold pool_at at 1, get_pool. rewrite Ep, lookup_insert. destruct (denom_eqb d (LDk k)); lia.
  - assert (Hne: poolkey_code k0 <> poolkey_code k) by (intros E; apply Hni; rewrite E; apply in_map; exact Hin).
    specialize (IH Hnd' Hin). unfold pool_at at 1, get_pool. rewrite Ep, lookup_insert_ne by congruence.
    fold (get_pool s k0). fold (pool_at s k0). destruct (denom_eqb d (LDk k0)); lia.
Qed.

Lemma liq_of_same d s s' : s_pools s' = s_pools s -> liq_of d s' = liq_of d s.
Proof. intros E. unfold liq_of, pool_at, get_pool. rewrite E. reflexivity. Qed.

(* the potential: coins + reserves of d, against the liquidity recorded by the pools whose token is d *)
Definition settles (d : denom) (s s' : wstate) : Prop :=
  coin_supply d (s_coins s') + psum d s' + liq_of d s <= coin_supply d (s_coins s) + psum d s + liq_of d s'.

Lemma settles_refl d s : settles d s s.
Proof. unfold settles. lia. Qed.
Lemma settles_trans d a b c : settles d a b -> settles d b c -> settles d a c.
Proof. unfold settles. lia. Qed.

(* one pool moved: conservation of every other denomination and backing of the pool's own token *)
Lemma settles_step d s s1 k p' :
  In k K -> s_pools s1 = <[poolkey_code k := p']> (s_pools s) ->
  LDk k <> fst k -> LDk k <> snd k ->
  (forall d0, d0 <> LDk k -> coin_supply d0 (s_coins s1) + side d0 k p' <= coin_supply d0 (s_coins s) + side d0 k (pool_at s k)) ->
  coin_supply (LDk k) (s_coins s1) + p_liqs (pool_at s k) <= coin_supply (LDk k) (s_coins s) + p_liqs p' ->
  settles d s s1.
Proof.
  intros Hk Ep H1 H2 Hcons Hliq. unfold settles.
  pose proof (psum_update d s s1 k p' Hk Ep) as Hps. pose proof (liq_of_update d s s1 k p' Hk Ep) as Hlq.
  destruct (denom_eqb d (LDk k)) eqn:E.
  - apply denom_eqb_eq in E. subst d.
    assert (S0: forall p, side (LDk k) k p = 0).
    { intros p. unfold side.
      destruct (denom_eqb (LDk k) (fst k)) eqn:E1; [apply denom_eqb_eq in E1; contradiction|].
      destruct (denom_eqb (LDk k) (snd k)) eqn:E2; [apply denom_eqb_eq in E2; contradiction|]. reflexivity. }
    rewrite !S0 in Hps. lia.
  - assert (Hd: d <> LDk k) by (intros ->; rewrite denom_eqb_refl in E; discriminate).
    specialize (Hcons d Hd). lia.
Qed.

(* ---- the swaps of a block, all pools *)
Lemma for_pools_swaps_settle reqs : forall ks s s',
  for_pools swaps_single_pool reqs ks s = Ok s' ->
  NoDup ks -> (forall k, In k ks -> In k K /\ fst k <> snd k) ->
  NoDup (map key0 reqs) ->
  (forall t k, In t reqs -> In k ks -> tx_pool t = Some k ->
     declared0 s t /\ (cd_denom (out0 t) = fst k \/ cd_denom (out0 t) = snd k)) ->
  nsum (map (fun t => cd_value (out0 t)) reqs) < U128 ->
  forall d, settles d s s'.
Proof.
  induction ks as [|k ks IH]; intros s s' H Hnd HK Hkeys Hdecl Hsum d; cbn [for_pools] in H.
  - injection H as <-. apply settles_refl.
  - inv_bind H as s1 H1. inversion Hnd as [|? ? Hni Hnd']; subst.
    destruct (HK k (or_introl eq_refl)) as [HkK Hsides].
    destruct (swaps_single_pool_conserves k Hsides s (txs_for_pool reqs k) s1 H1) as (p & p' & Ep & Epl & Eliq & Hcons).
    { apply NoDup_map_filter. exact Hkeys. }
    { intros t Ht. apply in_txs_for_pool in Ht as [Ht Etp]. apply (Hdecl t k Ht (or_introl eq_refl) Etp). }
    { eapply N.le_lt_trans; [apply nsum_filter_le|exact Hsum]. }
    apply (settles_trans d s s1 s').
    + unfold settles. specialize (Hcons d).
      pose proof (psum_update d s s1 k p' HkK Epl) as Hps. pose proof (liq_of_update d s s1 k p' HkK Epl) as Hlq.
      unfold pool_at in Hps, Hlq. rewrite Ep in Hps, Hlq. rewrite Eliq in Hlq. lia.
    + apply (IH s1 s' H Hnd'); [intros k2 Hk2; apply HK; right; exact Hk2|exact Hkeys| |exact Hsum].
      intros t k2 Ht Hk2 Etp. destruct (Hdecl t k2 Ht (or_intror Hk2) Etp) as [(c & Ec & Ed & Ev) Hden]. split; [|exact Hden].
      exists c. split; [|auto]. rewrite <- Ec. apply (swaps_single_pool_other_coins k s _ s1 _ H1).
      intros Hin. apply in_map_iff in Hin as (t' & E & Ht'). apply in_txs_for_pool in Ht' as [Ht' Etp'].
      assert (t' = t) by (eapply (NoDup_map_inj key0); eauto). subst t'. rewrite Etp in Etp'. injection Etp' as ->. contradiction.
Qed.

Lemma K_code_inj k1 k2 : In k1 K -> In k2 K -> poolkey_code k1 = poolkey_code k2 -> k1 = k2.
Proof. intros H1 H2 E. eapply (NoDup_map_inj poolkey_code); eauto. Qed.

Lemma key_pairs_owner reqs t t' key :
  NoDup (key_pairs reqs) -> In t reqs -> In t' reqs -> In key [key0 t; key1 t] -> In key [key0 t'; key1 t'] -> t = t'.
Proof. intros Hnd Ht Ht' H1 H2. eapply (NoDup_flat_map_inj (fun t => [key0 t; key1 t])); eauto. Qed.

Lemma withdrawals_single_pool_other_coins k s ws s' key :
  withdrawals_single_pool k s ws = Ok s' -> ~ In key (key_pairs ws) -> s_coins s' !! key = s_coins s !! key.
Proof.
  unfold withdrawals_single_pool. intros H Hk. destruct (get_pool s k) as [p|]; [|discriminate].
  destruct (_ || _); [injection H as <-; reflexivity|].
  inv_bind H as r Hr. destruct r as [[p' tl] tr]. injection H as <-.
  destruct (withdrawals_go_state k tl tr (sat_sum (map (fun t => cd_value (out0 t)) ws)) ws (put_pool s k p')) as [Ec _].
  rewrite Ec. change (s_coins (put_pool s k p')) with (s_coins s). apply ins_all_notin.
  intros Hin. apply Hk. apply in_map_iff in Hin as ([k' c] & E & Hin). cbn [fst] in E. subst k'.
  apply in_flat_map in Hin as (t & Ht & Hin). unfold key_pairs. apply in_flat_map. exists t. split; [exact Ht|].
  destruct Hin as [E|[E|[]]]; injection E as <- _; cbn; auto.
Qed.

Lemma filter_key_pairs_sub reqs k key : In key (key_pairs (txs_for_pool reqs k)) -> exists t, In t reqs /\ tx_pool t = Some k /\ In key [key0 t; key1 t].
Proof.
  unfold key_pairs. intros H. apply in_flat_map in H as (t & Ht & Hk). apply in_txs_for_pool in Ht as [Ht E]. eauto.
Qed.

Lemma key_pairs_filter_nodup reqs k : NoDup (key_pairs reqs) -> NoDup (key_pairs (txs_for_pool reqs k)).
Proof.
  unfold key_pairs, txs_for_pool. generalize (fun t : tx => match tx_pool t with Some k' => poolkey_eqb k k' | None => false end) as p.
  intros p. induction reqs as [|t l IH]; intros H; cbn [List.filter flat_map]; [constructor|].
  cbn [flat_map app] in H. inversion H as [|? ? N1 H1]; subst. inversion H1 as [|? ? N2 H2]; subst.
  assert (Sub: forall key, In key (flat_map (fun t => [key0 t; key1 t]) (List.filter p l)) -> In key (flat_map (fun t => [key0 t; key1 t]) l)).
  { intros key Hin. apply in_flat_map in Hin as (t' & Ht' & Hk). apply filter_In in Ht' as [Ht' _]. apply in_flat_map. eauto. }
  destruct (p t); [|apply IH; exact H2]. cbn [flat_map app].
  constructor; [intros [E|Hin]; [apply N1; left; exact E|apply N1; right; apply Sub; exact Hin]|].
  constructor; [intros Hin; apply N2; apply Sub; exact Hin|apply IH; exact H2].
Qed.

(* ---- the withdrawals of a block, all pools *)
Lemma for_pools_withdrawals_settle reqs : forall ks s s',
  for_pools withdrawals_single_pool reqs ks s = Ok s' ->
  NoDup ks -> (forall k, In k ks -> In k K /\ LDk k <> fst k /\ LDk k <> snd k) ->
  NoDup (key_pairs reqs) ->
  (forall t k, In t reqs -> In k ks -> tx_pool t = Some k -> declared0 s t /\ cd_denom (out0 t) = LDk k) ->
  nsum (map (fun t => cd_value (out0 t)) reqs) < U128 ->
  (forall k p, In k ks -> get_pool s k = Some p -> p_lefts p < U128 /\ p_rights p < U128) ->
  forall d, settles d s s'.
Proof.
  induction ks as [|k ks IH]; intros s s' H Hnd HK Hkeys Hdecl Hsum Hbound d; cbn [for_pools] in H.
  - injection H as <-. apply settles_refl.
  - inv_bind H as s1 H1. inversion Hnd as [|? ? Hni Hnd']; subst.
    destruct (HK k (or_introl eq_refl)) as (HkK & HL1 & HL2).
    destruct (get_pool s k) as [p|] eqn:Ep; [|unfold withdrawals_single_pool in H1; rewrite Ep in H1; discriminate].
    destruct (Hbound k p (or_introl eq_refl) Ep) as [BL BR].
    destruct (withdrawals_single_pool_conserves SO k HL1 HL2 s (txs_for_pool reqs k) s1 p H1 Ep BL BR) as (p' & Hcase & Hcons & Hliq).
    { apply (key_pairs_filter_nodup reqs k Hkeys). }
    { intros t Ht. apply in_txs_for_pool in Ht as [Ht Etp]. apply (Hdecl t k Ht (or_introl eq_refl) Etp). }
    { eapply N.le_lt_trans; [apply nsum_filter_le|exact Hsum]. }
    assert (Hpools: forall k2, In k2 ks -> get_pool s1 k2 = get_pool s k2).
    { intros k2 Hk2. destruct Hcase as [[-> _]|Epl]; [reflexivity|]. unfold get_pool. rewrite Epl, lookup_insert_ne; [reflexivity|].
      intros E. apply Hni. rewrite (K_code_inj k k2 HkK (proj1 (HK k2 (or_intror Hk2))) E). exact Hk2. }
    apply (settles_trans d s s1 s').
    + destruct Hcase as [[-> _]|Epl]; [apply settles_refl|].
      apply (settles_step d s s1 k p' HkK Epl HL1 HL2); unfold pool_at; rewrite Ep; assumption.
    + apply (IH s1 s' H Hnd'); [intros k2 Hk2; apply HK; right; exact Hk2|exact Hkeys| |exact Hsum|].
      * intros t k2 Ht Hk2 Etp. destruct (Hdecl t k2 Ht (or_intror Hk2) Etp) as [(c & Ec & Ed & Ev) Hden]. split; [|exact Hden].
        exists c. split; [|auto]. rewrite <- Ec. apply (withdrawals_single_pool_other_coins k s _ s1 _ H1).
        intros Hin. apply filter_key_pairs_sub in Hin as (t' & Ht' & Etp' & Hk').
        assert (t = t') by (eapply (key_pairs_owner reqs t t' (key0 t)); eauto; left; reflexivity). subst t'.
        rewrite Etp in Etp'. injection Etp' as ->. contradiction.
      * intros k2 p2 Hk2 Ep2. rewrite (Hpools k2 Hk2) in Ep2. apply (Hbound k2 p2 (or_intror Hk2) Ep2).
Qed.

Lemma deposits_single_pool_other_coins k s deps s' key :
  deposits_single_pool SO k s deps = Ok s' -> ~ In key (key_pairs deps) -> s_coins s' !! key = s_coins s !! key.
Proof.
  unfold deposits_single_pool. intros H Hk. inv_bind H as pl Hpl. destruct pl as [p' tl].
  assert (Hu: untouched_by deps key).
  { intros t Ht. split; intros E; apply Hk; unfold key_pairs; apply in_flat_map; exists t; (split; [exact Ht|]); rewrite E; cbn; auto. }
  rewrite (coins_deposits_go SO k _ _ deps _ _ _ key Hu H). reflexivity.
Qed.

Lemma deposits_single_pool_frame k s deps s' :
  deposits_single_pool SO k s deps = Ok s' -> s_network s' = s_network s /\ s_height s' = s_height s.
Proof.
  intros H. apply frame_deposits_single in H. unfold frame_fp, frame in H. injection H as E1 E2 _ _ _ _ _ _ _. auto.
Qed.

(* ---- the deposits of a block, all pools (outside the legacy regime of the two public networks) *)
Lemma for_pools_deposits_settle reqs : forall ks s s',
  for_pools (deposits_single_pool SO) reqs ks s = Ok s' ->
  legacy_net s && (s_height s <? 978392) = false ->
  NoDup ks -> (forall k, In k ks -> In k K /\ LDk k <> fst k /\ LDk k <> snd k) ->
  NoDup (key_pairs reqs) ->
  (forall t k, In t reqs -> In k ks -> tx_pool t = Some k ->
     declared0 s t /\ declared1 s t /\ cd_denom (out0 t) = fst k /\ cd_denom (out1 t) = snd k) ->
  nsum (map (fun t => cd_value (out0 t)) reqs) < U128 -> nsum (map (fun t => cd_value (out1 t)) reqs) < U128 ->
  (* the liquidity issued by each pool does not saturate *)
  (forall k p'' m, In k ks ->
     pool_deposit (pool_at s k) (nsum (map (fun t => cd_value (out0 t)) (txs_for_pool reqs k)))
                  (nsum (map (fun t => cd_value (out1 t)) (txs_for_pool reqs k))) = Ok (p'', m) ->
     p_liqs (pool_at s k) + m < U128) ->
  forall d, settles d s s'.
Proof.
  induction ks as [|k ks IH]; intros s s' H Hleg Hnd HK Hkeys Hdecl Hs0 Hs1 Hsat d; cbn [for_pools] in H.
  - injection H as <-. apply settles_refl.
  - inv_bind H as s1 H1. inversion Hnd as [|? ? Hni Hnd']; subst.
    destruct (HK k (or_introl eq_refl)) as (HkK & HL1 & HL2).
    destruct (deposits_single_pool_conserves SO k HL1 HL2 s (txs_for_pool reqs k) s1 H1 Hleg) as (p' & Epl & Hcons & Hliq).
    { apply (key_pairs_filter_nodup reqs k Hkeys). }
    { intros t Ht. apply in_txs_for_pool in Ht as [Ht Etp]. apply (Hdecl t k Ht (or_introl eq_refl) Etp). }
    { eapply N.le_lt_trans; [apply nsum_filter_le|exact Hs0]. }
    { eapply N.le_lt_trans; [apply nsum_filter_le|exact Hs1]. }
    { intros p'' m Hm. apply (Hsat k p'' m (or_introl eq_refl)). exact Hm. }
    destruct (deposits_single_pool_frame k s _ s1 H1) as [En Eh].
    assert (Hpools: forall k2, In k2 ks -> pool_at s1 k2 = pool_at s k2).
    { intros k2 Hk2. unfold pool_at, get_pool. rewrite Epl, lookup_insert_ne; [reflexivity|].
      intros E. apply Hni. rewrite (K_code_inj k k2 HkK (proj1 (HK k2 (or_intror Hk2))) E). exact Hk2. }
    apply (settles_trans d s s1 s').
    + apply (settles_step d s s1 k p' HkK Epl HL1 HL2); assumption.
    + apply (IH s1 s' H); [unfold legacy_net; rewrite En, Eh; exact Hleg|exact Hnd'|intros k2 Hk2; apply HK; right; exact Hk2|exact Hkeys| |exact Hs0|exact Hs1|].
      * intros t k2 Ht Hk2 Etp. destruct (Hdecl t k2 Ht (or_intror Hk2) Etp) as ((c0 & Ec0 & D0) & (c1 & Ec1 & D1) & Hden).
        assert (Hnot: forall key, In key [key0 t; key1 t] -> ~ In key (key_pairs (txs_for_pool reqs k))).
        { intros key Hkey Hin. apply filter_key_pairs_sub in Hin as (t' & Ht' & Etp' & Hk').
          assert (t = t') by (eapply (key_pairs_owner reqs t t' key); eauto). subst t'.
          rewrite Etp in Etp'. injection Etp' as ->. contradiction. }
        split; [|split; [|exact Hden]].
        -- exists c0. split; [|exact D0]. rewrite <- Ec0. apply (deposits_single_pool_other_coins k s _ s1 _ H1). apply Hnot. left. reflexivity.
        -- exists c1. split; [|exact D1]. rewrite <- Ec1. apply (deposits_single_pool_other_coins k s _ s1 _ H1). apply Hnot. right. left. reflexivity.
      * intros k2 p'' m Hk2 Hm. rewrite (Hpools k2 Hk2) in Hm |- *. apply (Hsat k2 p'' m (or_intror Hk2) Hm).
Qed.

(* ---- the three settlement phases of a block.  Hypotheses on the state the phase starts from:
   K names every pool a request of the block names; the coins at outputs 0 / 1 of the block's transactions
   have distinct ids and, where they still exist, are as declared; the first (second) outputs of the block sum
   to less than 2^128. *)
(* a coin at an output id of t is as t declared it: the declared value, and the declared denomination
   (a new-token output under its final name, as output_coins inserts it) *)
Definition as_declared (t : tx) (c : cdh) (o : coindata) : Prop :=
  cd_denom (c_data c) = fix_denom t (cd_denom o) /\ cd_value (c_data c) = cd_value o.

Lemma as_declared_def t c o :
  as_declared t c o <-> cd_denom (c_data c) = fix_denom t (cd_denom o) /\ cd_value (c_data c) = cd_value o.
Proof. reflexivity. Qed.
Lemma fix_denom_id t d : d <> NewCustom -> fix_denom t d = d.
Proof. destruct d; cbn; congruence. Qed.

Lemma tx_pool_sides t k : tx_pool t = Some k -> fst k <> snd k.
Proof.
  unfold tx_pool. destruct (t_poolkey t) as [k0|]; [|discriminate].
  destruct (canonical_key k0 (t_data t)) eqn:E; [|discriminate]. intros H. injection H as <-.
  apply canonical_key_spec in E. tauto.
Qed.

Lemma key0_of_pairs l : NoDup (key_pairs l) -> NoDup (map key0 l).
Proof.
  unfold key_pairs. induction l as [|t l IH]; intros H; cbn [map]; [constructor|].
  cbn [flat_map app] in H. inversion H as [|? ? N1 H1]; subst. inversion H1 as [|? ? N2 H2]; subst.
  constructor; [|apply IH; exact H2]. intros Hin. apply N1. right.
  apply in_map_iff in Hin as (t' & E & Ht'). apply in_flat_map. exists t'. split; [exact Ht'|]. rewrite <- E. left. reflexivity.
Qed.

Theorem process_swaps_settles s s' :
  process_swaps s = Ok s' ->
  (forall t k, In t (sorted_txs s) -> tx_pool t = Some k -> In k K) ->
  NoDup (key_pairs (sorted_txs s)) ->
  (forall t c, In t (sorted_txs s) -> t_kind t = KSwap -> s_coins s !! key0 t = Some c -> as_declared t c (out0 t)) ->
  nsum (map (fun t => cd_value (out0 t)) (sorted_txs s)) < U128 ->
  forall d, settles d s s'.
Proof.
  unfold process_swaps. intros H Hcover Hkeys Hdecl Hsum.
  set (reqs := List.filter (is_swap_request s) (sorted_txs s)) in *.
  assert (Hreq: forall t, In t reqs -> In t (sorted_txs s) /\ is_swap_request s t = true) by (intros t Ht; apply filter_In in Ht; exact Ht).
  apply (for_pools_swaps_settle reqs (pool_keys_sorted reqs) s s' H).
  - apply pool_keys_sorted_nodup.
  - intros k Hk. apply pool_keys_sorted_in in Hk as (t & Ht & E). destruct (Hreq t Ht) as [Hin _].
    split; [apply (Hcover t k Hin E)|apply (tx_pool_sides t k E)].
  - apply NoDup_map_filter, key0_of_pairs. exact Hkeys.
  - intros t k Ht _ E. destruct (Hreq t Ht) as [Hin Hr]. unfold is_swap_request in Hr.
    apply andb_true_iff in Hr as [Hkind Hr].
    assert (Ek: t_kind t = KSwap) by (destruct (t_kind t); cbn in Hkind; try discriminate; reflexivity). destruct (t_outputs t) as [|o0 outs] eqn:Eo; [discriminate|].
    apply andb_true_iff in Hr as [Hc Hr]. rewrite E in Hr. destruct (get_pool s k) as [p|]; [|discriminate].
    apply andb_true_iff in Hr as [_ Hd].
    assert (Eo0: out0 t = o0) by (unfold out0; rewrite Eo; reflexivity).
    unfold has_coin in Hc. fold (key0 t) in Hc. destruct (s_coins s !! key0 t) as [c|] eqn:Ec; [|discriminate].
    destruct (Hdecl t c Hin Ek Ec) as [D V].
    assert (Hside: cd_denom (out0 t) = fst k \/ cd_denom (out0 t) = snd k)
      by (rewrite Eo0; apply orb_true_iff in Hd as [Hd|Hd]; apply denom_eqb_eq in Hd; auto).
    assert (Hnn: cd_denom (out0 t) <> NewCustom).
    { unfold tx_pool in E. destruct (t_poolkey t) as [k0|]; [|discriminate].
      destruct (canonical_key k0 (t_data t)) eqn:Ec2; [|discriminate]. injection E as <-.
      apply canonical_key_spec in Ec2 as (_ & N1 & N2 & _). destruct Hside as [-> | ->]; assumption. }
    rewrite (fix_denom_id t _ Hnn) in D. split.
    + exists c. auto.
    + exact Hside.
  - eapply N.le_lt_trans; [apply nsum_filter_le|exact Hsum].
Qed.

Theorem process_withdrawals_settles s s' :
  process_withdrawals SO s = Ok s' ->
  (forall t k, In t (sorted_txs s) -> tx_pool t = Some k -> In k K /\ LDk k <> fst k /\ LDk k <> snd k) ->
  NoDup (key_pairs (sorted_txs s)) ->
  (forall t c, In t (sorted_txs s) -> t_kind t = KLiqWithdraw -> s_coins s !! key0 t = Some c -> as_declared t c (out0 t)) ->
  nsum (map (fun t => cd_value (out0 t)) (sorted_txs s)) < U128 ->
  (forall k p, In k K -> get_pool s k = Some p -> p_lefts p < U128 /\ p_rights p < U128) ->
  forall d, settles d s s'.
Proof.
  unfold process_withdrawals. intros H Hcover Hkeys Hdecl Hsum Hbound.
  set (reqs := List.filter (is_withdraw_request SO s) (sorted_txs s)) in *.
  assert (Hreq: forall t, In t reqs -> In t (sorted_txs s) /\ is_withdraw_request SO s t = true) by (intros t Ht; apply filter_In in Ht; exact Ht).
  apply (for_pools_withdrawals_settle reqs (pool_keys_sorted reqs) s s' H).
  - apply pool_keys_sorted_nodup.
  - intros k Hk. apply pool_keys_sorted_in in Hk as (t & Ht & E). destruct (Hreq t Ht) as [Hin _]. apply (Hcover t k Hin E).
  - unfold reqs, key_pairs. clear - Hkeys. unfold key_pairs in Hkeys. induction (sorted_txs s) as [|t l IH]; cbn [List.filter flat_map]; [constructor|].
    cbn [flat_map app] in Hkeys. inversion Hkeys as [|? ? N1 H1]; subst. inversion H1 as [|? ? N2 H2]; subst.
    assert (Sub: forall key, In key (flat_map (fun t => [key0 t; key1 t]) (List.filter (is_withdraw_request SO s) l)) -> In key (flat_map (fun t => [key0 t; key1 t]) l)).
    { intros key Hin. apply in_flat_map in Hin as (t' & Ht' & Hk). apply filter_In in Ht' as [Ht' _]. apply in_flat_map. eauto. }
    destruct (is_withdraw_request SO s t); [|apply IH; exact H2]. cbn [flat_map app].
    constructor; [intros [E|Hin]; [apply N1; left; exact E|apply N1; right; apply Sub; exact Hin]|].
    constructor; [intros Hin; apply N2; apply Sub; exact Hin|apply IH; exact H2].
  - intros t k Ht _ E. destruct (Hreq t Ht) as [Hin Hr]. unfold is_withdraw_request in Hr.
    apply andb_true_iff in Hr as [Hr Hd]. apply andb_true_iff in Hr as [Hr Hc]. apply andb_true_iff in Hr as [Hkind _]. rewrite E in Hd.
    assert (Ek: t_kind t = KLiqWithdraw) by (destruct (t_kind t); cbn in Hkind; try discriminate; reflexivity).
    destruct (get_pool s k) as [p|]; [|discriminate]. apply denom_eqb_eq in Hd.
    unfold has_coin in Hc. fold (key0 t) in Hc. destruct (s_coins s !! key0 t) as [c|] eqn:Ec; [|discriminate].
    destruct (Hdecl t c Hin Ek Ec) as [D V].
    rewrite (fix_denom_id t (cd_denom (out0 t))) in D by (rewrite Hd; unfold LDk; discriminate).
    split; [exists c; auto|exact Hd].
  - eapply N.le_lt_trans; [apply nsum_filter_le|exact Hsum].
  - intros k p Hk Ep. apply pool_keys_sorted_in in Hk as (t & Ht & E). destruct (Hreq t Ht) as [Hin _].
    apply (Hbound k p (proj1 (Hcover t k Hin E)) Ep).
Qed.

Lemma key_pairs_filter_nodup_gen (p : tx -> bool) l : NoDup (key_pairs l) -> NoDup (key_pairs (List.filter p l)).
Proof.
  unfold key_pairs. induction l as [|t l IH]; intros H; cbn [List.filter flat_map]; [constructor|].
  cbn [flat_map app] in H. inversion H as [|? ? N1 H1]; subst. inversion H1 as [|? ? N2 H2]; subst.
  assert (Sub: forall key, In key (flat_map (fun t => [key0 t; key1 t]) (List.filter p l)) -> In key (flat_map (fun t => [key0 t; key1 t]) l)).
  { intros key Hin. apply in_flat_map in Hin as (t' & Ht' & Hk). apply filter_In in Ht' as [Ht' _]. apply in_flat_map. eauto. }
  destruct (p t); [|apply IH; exact H2]. cbn [flat_map app].
  constructor; [intros [E|Hin]; [apply N1; left; exact E|apply N1; right; apply Sub; exact Hin]|].
  constructor; [intros Hin; apply N2; apply Sub; exact Hin|apply IH; exact H2].
Qed.

Theorem process_deposits_settles s s' :
  process_deposits SO s = Ok s' ->
  legacy_net s && (s_height s <? 978392) = false ->
  (forall t k, In t (sorted_txs s) -> tx_pool t = Some k -> In k K /\ LDk k <> fst k /\ LDk k <> snd k) ->
  NoDup (key_pairs (sorted_txs s)) ->
  (forall t c, In t (sorted_txs s) -> t_kind t = KLiqDeposit -> s_coins s !! key0 t = Some c -> as_declared t c (out0 t)) ->
  (forall t c, In t (sorted_txs s) -> t_kind t = KLiqDeposit -> s_coins s !! key1 t = Some c -> as_declared t c (out1 t)) ->
  nsum (map (fun t => cd_value (out0 t)) (sorted_txs s)) < U128 ->
  nsum (map (fun t => cd_value (out1 t)) (sorted_txs s)) < U128 ->
  (* the liquidity a pool issues for the deposits of the block does not saturate *)
  (forall k p'' m, In k K ->
     pool_deposit (pool_at s k)
       (nsum (map (fun t => cd_value (out0 t)) (txs_for_pool (List.filter (is_deposit_request s) (sorted_txs s)) k)))
       (nsum (map (fun t => cd_value (out1 t)) (txs_for_pool (List.filter (is_deposit_request s) (sorted_txs s)) k))) = Ok (p'', m) ->
     p_liqs (pool_at s k) + m < U128) ->
  forall d, settles d s s'.
Proof.
  unfold process_deposits. intros H Hleg Hcover Hkeys Hd0 Hd1 Hs0 Hs1 Hsat.
  set (reqs := List.filter (is_deposit_request s) (sorted_txs s)) in *.
  assert (Hreq: forall t, In t reqs -> In t (sorted_txs s) /\ is_deposit_request s t = true) by (intros t Ht; apply filter_In in Ht; exact Ht).
  apply (for_pools_deposits_settle reqs (pool_keys_sorted reqs) s s' H Hleg).
  - apply pool_keys_sorted_nodup.
  - intros k Hk. apply pool_keys_sorted_in in Hk as (t & Ht & E). destruct (Hreq t Ht) as [Hin _]. apply (Hcover t k Hin E).
  - apply key_pairs_filter_nodup_gen. exact Hkeys.
  - intros t k Ht _ E. destruct (Hreq t Ht) as [Hin Hr]. unfold is_deposit_request in Hr.
    apply andb_true_iff in Hr as [Hr Hp]. apply andb_true_iff in Hr as [Hr Hc1]. apply andb_true_iff in Hr as [Hr Hc0]. apply andb_true_iff in Hr as [Hkind _].
    assert (Ek: t_kind t = KLiqDeposit) by (destruct (t_kind t); cbn in Hkind; try discriminate; reflexivity).
    rewrite E in Hp. apply andb_true_iff in Hp as [Hp F1]. apply andb_true_iff in Hp as [_ F0].
    apply denom_eqb_eq in F0, F1.
    unfold has_coin in Hc0, Hc1. fold (key0 t) in Hc0. fold (key1 t) in Hc1.
    destruct (s_coins s !! key0 t) as [c0|] eqn:Ec0; [|discriminate].
    destruct (s_coins s !! key1 t) as [c1|] eqn:Ec1; [|discriminate].
    destruct (Hd0 t c0 Hin Ek Ec0) as [D0 V0]. destruct (Hd1 t c1 Hin Ek Ec1) as [D1 V1].
    assert (Hnn: fst k <> NewCustom /\ snd k <> NewCustom).
    { unfold tx_pool in E. destruct (t_poolkey t) as [k0|]; [|discriminate].
      destruct (canonical_key k0 (t_data t)) eqn:Ec2; [|discriminate]. injection E as <-.
      apply canonical_key_spec in Ec2 as (_ & N1 & N2 & _). auto. }
    rewrite (fix_denom_id t (cd_denom (out0 t))) in D0 by (rewrite F0; apply Hnn).
    rewrite (fix_denom_id t (cd_denom (out1 t))) in D1 by (rewrite F1; apply Hnn).
    split; [exists c0; auto|]. split; [exists c1; auto|]. auto.
  - eapply N.le_lt_trans; [apply nsum_filter_le|exact Hs0].
  - eapply N.le_lt_trans; [apply nsum_filter_le|exact Hs1].
  - intros k p'' m Hk Hm. apply pool_keys_sorted_in in Hk as (t & Ht & E). destruct (Hreq t Ht) as [Hin _].
    apply (Hsat k p'' m (proj1 (Hcover t k Hin E)) Hm).
Qed.

(* ---- the three settlement phases together *)
Lemma request_kinds s t :
  (is_swap_request s t = true -> t_kind t = KSwap) /\
  (is_deposit_request s t = true -> t_kind t = KLiqDeposit) /\
  (is_withdraw_request SO s t = true -> t_kind t = KLiqWithdraw).
Proof.
  unfold is_swap_request, is_deposit_request, is_withdraw_request. repeat split; intros H.
  - apply andb_true_iff in H as [H _]. destruct (t_kind t); cbn in H; try discriminate; reflexivity.
  - repeat (apply andb_true_iff in H as [H _]). destruct (t_kind t); cbn in H; try discriminate; reflexivity.
  - repeat (apply andb_true_iff in H as [H _]). destruct (t_kind t); cbn in H; try discriminate; reflexivity.
Qed.

(* coins of a transaction of another kind are not touched by a phase *)
Lemma other_kind_untouched (l : list tx) (reqs : list tx) (kind : txkind) t :
  NoDup (key_pairs l) -> In t l -> (forall t', In t' reqs -> In t' l /\ t_kind t' = kind) -> t_kind t <> kind ->
  untouched_by reqs (key0 t) /\ untouched_by reqs (key1 t).
Proof.
  intros Hnd Ht Hreq Hk.
  assert (G: forall key, In key [key0 t; key1 t] -> untouched_by reqs key).
  { intros key Hkey t' Ht'. destruct (Hreq t' Ht') as [Hin Ek].
    split; intros E; apply Hk; rewrite <- Ek; f_equal; eapply (key_pairs_owner l t t' key); eauto; rewrite E; cbn; auto. }
  split; apply G; cbn; auto.
Qed.

(* swaps and deposits done: what holds when the withdrawals start *)
Lemma before_withdrawals s1 s2 s3 :
  process_swaps s1 = Ok s2 -> process_deposits SO s2 = Ok s3 ->
  legacy_net s1 && (s_height s1 <? 978392) = false ->
  (forall t k, In t (sorted_txs s1) -> tx_pool t = Some k -> In k K /\ LDk k <> fst k /\ LDk k <> snd k) ->
  NoDup (key_pairs (sorted_txs s1)) ->
  (forall t c, In t (sorted_txs s1) -> s_coins s1 !! key0 t = Some c -> as_declared t c (out0 t)) ->
  (forall t c, In t (sorted_txs s1) -> s_coins s1 !! key1 t = Some c -> as_declared t c (out1 t)) ->
  nsum (map (fun t => cd_value (out0 t)) (sorted_txs s1)) < U128 ->
  nsum (map (fun t => cd_value (out1 t)) (sorted_txs s1)) < U128 ->
  (forall k p'' m, In k K ->
     pool_deposit (pool_at s2 k)
       (nsum (map (fun t => cd_value (out0 t)) (txs_for_pool (List.filter (is_deposit_request s2) (sorted_txs s2)) k)))
       (nsum (map (fun t => cd_value (out1 t)) (txs_for_pool (List.filter (is_deposit_request s2) (sorted_txs s2)) k))) = Ok (p'', m) ->
     p_liqs (pool_at s2 k) + m < U128) ->
  sorted_txs s3 = sorted_txs s1 /\
  (forall t c, In t (sorted_txs s1) -> t_kind t = KLiqWithdraw -> s_coins s3 !! key0 t = Some c -> as_declared t c (out0 t)) /\
  forall d, settles d s1 s3.
Proof.
  intros H1 H2 Hleg Hcover Hkeys Hd0 Hd1 Hs0 Hs1 Hsat.
  pose proof (frame_process_swaps _ _ H1) as F1. pose proof (frame_process_deposits SO _ _ H2) as F2.
  assert (T2: sorted_txs s2 = sorted_txs s1).
  { apply txs_same. unfold frame_fp, frame in F1. injection F1 as _ _ _ E _ _ _ _ _. exact E. }
  assert (T3: sorted_txs s3 = sorted_txs s1).
  { rewrite <- T2. apply txs_same. unfold frame_fp, frame in F2. injection F2 as _ _ _ E _ _ _ _ _. exact E. }
  assert (N2: s_network s2 = s_network s1 /\ s_height s2 = s_height s1).
  { unfold frame_fp, frame in F1. injection F1 as E1 E2 _ _ _ _ _ _ _. auto. }
  destruct N2 as [En2 Eh2].
  assert (U1: forall t, In t (sorted_txs s1) -> t_kind t <> KSwap ->
            s_coins s2 !! key0 t = s_coins s1 !! key0 t /\ s_coins s2 !! key1 t = s_coins s1 !! key1 t).
  { intros t Ht Hk.
    destruct (other_kind_untouched (sorted_txs s1) (List.filter (is_swap_request s1) (sorted_txs s1)) KSwap t Hkeys Ht) as [A0 A1]; [|exact Hk|].
    - intros t' Ht'. apply filter_In in Ht' as [Hin Hr]. split; [exact Hin|apply (request_kinds s1 t'); exact Hr].
    - split; [apply (coins_process_swaps s1 s2 _ A0 H1)|apply (coins_process_swaps s1 s2 _ A1 H1)]. }
  assert (U2: forall t, In t (sorted_txs s1) -> t_kind t <> KLiqDeposit ->
            s_coins s3 !! key0 t = s_coins s2 !! key0 t /\ s_coins s3 !! key1 t = s_coins s2 !! key1 t).
  { intros t Ht Hk.
    destruct (other_kind_untouched (sorted_txs s1) (List.filter (is_deposit_request s2) (sorted_txs s2)) KLiqDeposit t Hkeys Ht) as [A0 A1]; [|exact Hk|].
    - intros t' Ht'. apply filter_In in Ht' as [Hin Hr]. rewrite T2 in Hin. split; [exact Hin|apply (request_kinds s2 t'); exact Hr].
    - split; [apply (coins_process_deposits SO s2 s3 _ A0 H2)|apply (coins_process_deposits SO s2 s3 _ A1 H2)]. }
  split; [exact T3|]. split.
  { intros t c Ht Ek Ec.
    destruct (U2 t Ht) as [E0 _]; [rewrite Ek; discriminate|]. rewrite E0 in Ec.
    destruct (U1 t Ht) as [E0' _]; [rewrite Ek; discriminate|]. rewrite E0' in Ec. apply (Hd0 t c Ht Ec). }
  intros d. apply (settles_trans d s1 s2 s3).
  { apply (process_swaps_settles s1 s2 H1); try assumption.
    - intros t k Ht E. apply (Hcover t k Ht E).
    - intros t c Ht _ Ec. apply (Hd0 t c Ht Ec). }
  apply (process_deposits_settles s2 s3 H2); rewrite ?T2; try assumption.
  - unfold legacy_net. rewrite En2, Eh2. exact Hleg.
  - intros t c Ht Ek Ec. destruct (U1 t Ht) as [E0 _]; [rewrite Ek; discriminate|]. rewrite E0 in Ec. apply (Hd0 t c Ht Ec).
  - intros t c Ht Ek Ec. destruct (U1 t Ht) as [_ E1]; [rewrite Ek; discriminate|]. rewrite E1 in Ec. apply (Hd1 t c Ht Ec).
  - intros k p'' m Hk Hm. apply (Hsat k p'' m Hk). rewrite T2. exact Hm.
Qed.

Theorem settlement_settles s1 s2 s3 s4 :
  process_swaps s1 = Ok s2 -> process_deposits SO s2 = Ok s3 -> process_withdrawals SO s3 = Ok s4 ->
  legacy_net s1 && (s_height s1 <? 978392) = false ->
  (forall t k, In t (sorted_txs s1) -> tx_pool t = Some k -> In k K /\ LDk k <> fst k /\ LDk k <> snd k) ->
  NoDup (key_pairs (sorted_txs s1)) ->
  (forall t c, In t (sorted_txs s1) -> s_coins s1 !! key0 t = Some c -> as_declared t c (out0 t)) ->
  (forall t c, In t (sorted_txs s1) -> s_coins s1 !! key1 t = Some c -> as_declared t c (out1 t)) ->
  nsum (map (fun t => cd_value (out0 t)) (sorted_txs s1)) < U128 ->
  nsum (map (fun t => cd_value (out1 t)) (sorted_txs s1)) < U128 ->
  (* no 128-bit clamp is reached: issued liquidity does not saturate, reserves fit *)
  (forall k p'' m, In k K ->
     pool_deposit (pool_at s2 k)
       (nsum (map (fun t => cd_value (out0 t)) (txs_for_pool (List.filter (is_deposit_request s2) (sorted_txs s2)) k)))
       (nsum (map (fun t => cd_value (out1 t)) (txs_for_pool (List.filter (is_deposit_request s2) (sorted_txs s2)) k))) = Ok (p'', m) ->
     p_liqs (pool_at s2 k) + m < U128) ->
  (forall k p, In k K -> get_pool s3 k = Some p -> p_lefts p < U128 /\ p_rights p < U128) ->
  forall d, settles d s1 s4.
Proof.
  intros H1 H2 H3 Hleg Hcover Hkeys Hd0 Hd1 Hs0 Hs1 Hsat Hbound d.
  destruct (before_withdrawals s1 s2 s3 H1 H2 Hleg Hcover Hkeys Hd0 Hd1 Hs0 Hs1 Hsat) as (T3 & Hdw & S13).
  apply (settles_trans d s1 s3 s4); [apply S13|].
  apply (process_withdrawals_settles s3 s4 H3); rewrite ?T3; try assumption.
Qed.

(* consequences: a denomination that is no pool's liquidity token is conserved; a liquidity token stays backed *)
Corollary settles_conserved d s s' :
  settles d s s' -> liq_of d s' = 0 ->
  coin_supply d (s_coins s') + psum d s' <= coin_supply d (s_coins s) + psum d s.
Proof. unfold settles. lia. Qed.

Corollary settles_backed d s s' :
  settles d s s' -> coin_supply d (s_coins s) + psum d s <= liq_of d s ->
  coin_supply d (s_coins s') + psum d s' <= liq_of d s'.
Proof. unfold settles. lia. Qed.

(* ---- the remaining steps of sealing (bootstrap of the built-in pools, peg, TIP-909 subsidy, proposer reward)
   only move MEL, SYM and ERG: they touch no pool but the three built-in ones, never lower a recorded
   liquidity, and create no coin of a custom denomination *)
Definition MS := poolkey_new Mel Sym.
Definition ME := poolkey_new Mel Erg.
Definition ES := poolkey_new Erg Sym.
Definition builtin_codes : list N := [poolkey_code MS; poolkey_code ME; poolkey_code ES].

Definition only_builtins (s s' : wstate) : Prop :=
  (forall c, ~ In c builtin_codes -> s_pools s' !! c = s_pools s !! c) /\
  (forall k, p_liqs (pool_at s k) <= p_liqs (pool_at s' k)).

Lemma only_builtins_refl s : only_builtins s s.
Proof. split; [reflexivity|intros; lia]. Qed.
Lemma only_builtins_same a b : s_pools b = s_pools a -> only_builtins a b.
Proof. intros E. split; [intros; rewrite E; reflexivity|intros k; unfold pool_at, get_pool; rewrite E; lia]. Qed.
Lemma only_builtins_trans a b c : only_builtins a b -> only_builtins b c -> only_builtins a c.
Proof. intros [A1 A2] [B1 B2]. split; [intros x Hx; rewrite (B1 x Hx); apply A1; exact Hx|intros k; specialize (A2 k); specialize (B2 k); lia]. Qed.

Lemma only_builtins_put s k p :
  In (poolkey_code k) builtin_codes -> p_liqs (pool_at s k) <= p_liqs p -> only_builtins s (put_pool s k p).
Proof.
  intros Hk Hl. split.
  - intros c Hc. cbn [s_pools put_pool set_pools]. apply lookup_insert_ne. intros E. apply Hc. rewrite <- E. exact Hk.
  - intros k2. unfold pool_at, get_pool. cbn [s_pools put_pool set_pools].
    destruct (N.eq_dec (poolkey_code k) (poolkey_code k2)) as [E|E].
    + rewrite <- E, lookup_insert. unfold pool_at, get_pool in Hl. exact Hl.
    + rewrite lookup_insert_ne by exact E. lia.
Qed.

Lemma builtin_code_cases : In (poolkey_code MS) builtin_codes /\ In (poolkey_code ME) builtin_codes /\ In (poolkey_code ES) builtin_codes.
Proof. unfold builtin_codes. repeat split; [left; reflexivity|right; left; reflexivity|right; right; left; reflexivity]. Qed.

Lemma create_builtins_only s : only_builtins s (create_builtins s).
Proof.
  destruct builtin_code_cases as (B1 & B2 & B3). unfold create_builtins.
  assert (Add: forall k st, In (poolkey_code k) builtin_codes ->
            only_builtins st (match get_pool st k with Some _ => st | None => put_pool st k builtin_pool end)).
  { intros k st Hk. destruct (get_pool st k) eqn:E; [apply only_builtins_refl|].
    apply only_builtins_put; [exact Hk|]. unfold pool_at. rewrite E. cbn. lia. }
  set (s1 := match get_pool s (poolkey_new Mel Sym) with Some _ => s | None => put_pool s (poolkey_new Mel Sym) builtin_pool end).
  set (s2 := match get_pool s1 (poolkey_new Mel Erg) with Some _ => s1 | None => put_pool s1 (poolkey_new Mel Erg) builtin_pool end).
  assert (O1: only_builtins s s1) by (apply Add; exact B1).
  assert (O2: only_builtins s1 s2) by (apply Add; exact B2).
  destruct (tip_902 s2).
  - eapply only_builtins_trans; [exact O1|]. eapply only_builtins_trans; [exact O2|]. apply Add. exact B3.
  - eapply only_builtins_trans; eassumption.
Qed.

Lemma swap_many_liqs p l r p' lw rw : swap_many p l r = Ok (p', lw, rw) -> p_liqs p' = p_liqs p.
Proof.
  unfold swap_many. destruct (_ =? 0); [discriminate|]. destruct (_ =? 0); [discriminate|].
  destruct (_ <? _); [discriminate|]. destruct (_ <? _); [discriminate|]. destruct (_ =? 0); [discriminate|].
  intros H. injection H as <- _ _. reflexivity.
Qed.

Lemma process_pegging_only s s' : process_pegging s = Ok s' -> only_builtins s s'.
Proof.
  destruct builtin_code_cases as (B1 & _ & _). unfold process_pegging.
  destruct (get_pool s (poolkey_new Mel Sym)) as [sm|] eqn:Esm; [|discriminate].
  intros H. inv_bind H as x Hx. destruct x as [xn xd].
  match type of H with (if ?c then _ else _) = _ => destruct c end; [discriminate|].
  inv_bind H as sm1 H1. inv_bind H as sm2 H2. injection H as <-.
  apply only_builtins_put; [exact B1|]. unfold pool_at. rewrite Esm.
  assert (L1: p_liqs sm1 = p_liqs sm).
  { destruct (_ <? _) in H1; [|injection H1 as <-; reflexivity]. inv_bind H1 as r Hr. injection H1 as <-.
    destruct r as [[q a] b]. apply swap_many_liqs in Hr. exact Hr. }
  assert (L2: p_liqs sm2 = p_liqs sm1).
  { destruct (_ <? _) in H2; [|injection H2 as <-; reflexivity]. inv_bind H2 as r Hr. injection H2 as <-.
    destruct r as [[q a] b]. apply swap_many_liqs in Hr. exact Hr. }
  lia.
Qed.

Lemma tip909_only s s' : apply_tip_909 s = Ok s' -> only_builtins s s'.
Proof.
  destruct builtin_code_cases as (B1 & _ & B3). unfold apply_tip_909. destruct (128 <=? _); [discriminate|].
  destruct (get_pool s (poolkey_new Mel Sym)) as [sm|] eqn:Esm; [|discriminate].
  intros H. inv_bind H as r Hr. destruct r as [[sm' mel] x]. inv_bind H as fp Hfp.
  match type of H with context [get_pool ?st ?k] => destruct (get_pool st k) as [es|] eqn:Ees end; [|discriminate].
  inv_bind H as r2 Hr2. injection H as <-. destruct r2 as [[es' a] b]. cbn [fst].
  apply swap_many_liqs in Hr, Hr2.
  eapply only_builtins_trans; [apply (only_builtins_put s (poolkey_new Mel Sym) sm' B1)|].
  { unfold pool_at. rewrite Esm. lia. }
  match goal with |- only_builtins ?a (put_pool ?b ?k ?p) => change (put_pool b k p) with (put_pool b k p) end.
  match type of Ees with get_pool ?st _ = _ =>
    eapply (only_builtins_trans _ st); [apply only_builtins_same; reflexivity|apply (only_builtins_put st (poolkey_new Erg Sym) es' B3)] end.
  unfold pool_at. rewrite Ees. lia.
Qed.

Hypothesis K_builtins : In MS K /\ In ME K /\ In ES K.

Lemma builtin_sides_custom h k p : In (poolkey_code k) builtin_codes -> In k K -> side (Custom h) k p = 0.
Proof.
  intros Hc Hk. destruct K_builtins as (K1 & K2 & K3).
  assert (k = MS \/ k = ME \/ k = ES) as [-> | [-> | ->]].
  { destruct Hc as [E|[E|[E|[]]]]; [left|right; left|right; right]; symmetry; eapply K_code_inj; eauto. }
  all: unfold side; vm_compute; reflexivity.
Qed.

Lemma only_builtins_settles h s s' :
  only_builtins s s' -> coin_supply (Custom h) (s_coins s') <= coin_supply (Custom h) (s_coins s) ->
  settles (Custom h) s s'.
Proof.
  intros [O1 O2] Hc. unfold settles.
  assert (Ep: psum (Custom h) s' = psum (Custom h) s).
  { unfold psum. f_equal. apply map_ext_in. intros k Hk.
    destruct (in_dec N.eq_dec (poolkey_code k) builtin_codes) as [Hb|Hb].
    - rewrite !(builtin_sides_custom h k _ Hb Hk). reflexivity.
    - unfold pool_at, get_pool. rewrite (O1 _ Hb). reflexivity. }
  assert (El: liq_of (Custom h) s <= liq_of (Custom h) s').
  { unfold liq_of. apply nsum_le_pointwise. intros k _. destruct (denom_eqb (Custom h) (LDk k)); [apply O2|lia]. }
  lia.
Qed.

(* ---- C01 / C15 / C16 over a whole seal, for every custom denomination (tokens created by transactions and
   the pools' liquidity tokens): coins + reserves, against the liquidity recorded by the pools whose token it
   is, never grow.  MEL, SYM and ERG are additionally subject to the explicit issuance of the peg, the subsidy
   and the bootstrap of the built-in pools, and are therefore not covered by this statement. *)
Theorem seal_settles_custom s a s' h :
  seal SO s a = Ok s' ->
  legacy_net s && (s_height s <? 978392) = false ->
  (forall t k, In t (sorted_txs s) -> tx_pool t = Some k -> In k K /\ LDk k <> fst k /\ LDk k <> snd k) ->
  NoDup (key_pairs (sorted_txs s)) ->
  (forall t c, In t (sorted_txs s) -> s_coins s !! key0 t = Some c -> as_declared t c (out0 t)) ->
  (forall t c, In t (sorted_txs s) -> s_coins s !! key1 t = Some c -> as_declared t c (out1 t)) ->
  nsum (map (fun t => cd_value (out0 t)) (sorted_txs s)) < U128 ->
  nsum (map (fun t => cd_value (out1 t)) (sorted_txs s)) < U128 ->
  (* no 128-bit clamp is reached in the settlement *)
  (forall s2 s3, process_swaps (create_builtins s) = Ok s2 -> process_deposits SO s2 = Ok s3 ->
     (forall k p'' m, In k K ->
        pool_deposit (pool_at s2 k)
          (nsum (map (fun t => cd_value (out0 t)) (txs_for_pool (List.filter (is_deposit_request s2) (sorted_txs s2)) k)))
          (nsum (map (fun t => cd_value (out1 t)) (txs_for_pool (List.filter (is_deposit_request s2) (sorted_txs s2)) k))) = Ok (p'', m) ->
        p_liqs (pool_at s2 k) + m < U128) /\
     (forall k p, In k K -> get_pool s3 k = Some p -> p_lefts p < U128 /\ p_rights p < U128)) ->
  settles (Custom h) s s'.
Proof.
  intros H Hleg Hcover Hkeys Hd0 Hd1 Hs0 Hs1 Hclamp.
  unfold seal in H. inv_bind H as s5 H5. unfold preseal_melmint in H5.
  inv_bind H5 as s2 H2. inv_bind H5 as s3 H3. inv_bind H5 as s4 H4.
  destruct (negb (pool_count_ok s5)); [discriminate|]. inv_bind H as s6 H6.
  set (s1 := create_builtins s) in *.
  assert (F1: frame_fp s1 = frame_fp s) by apply frame_create_builtins.
  assert (T1: sorted_txs s1 = sorted_txs s).
  { apply txs_same. unfold frame_fp, frame in F1. injection F1 as _ _ _ E _ _ _ _ _. exact E. }
  assert (C1: s_coins s1 = s_coins s) by apply coins_create_builtins.
  assert (N1: s_network s1 = s_network s /\ s_height s1 = s_height s).
  { unfold frame_fp, frame in F1. injection F1 as E1 E2 _ _ _ _ _ _ _. auto. }
  destruct N1 as [En1 Eh1]. destruct (Hclamp s2 s3 H2 H3) as [Hsat Hbound].
  apply (settles_trans _ s s1 s').
  { apply only_builtins_settles; [apply create_builtins_only|rewrite C1; lia]. }
  apply (settles_trans _ s1 s4 s').
  { apply (settlement_settles s1 s2 s3 s4 H2 H3 H4); rewrite ?T1, ?C1; try assumption.
    unfold legacy_net. rewrite En1, Eh1. exact Hleg. }
  apply (settles_trans _ s4 s5 s').
  { apply only_builtins_settles; [apply (process_pegging_only _ _ H5)|rewrite (coins_process_pegging _ _ H5); lia]. }
  apply (settles_trans _ s5 s6 s').
  { destruct (tip_909 s5); [|injection H6 as <-; apply settles_refl].
    apply only_builtins_settles; [apply (tip909_only _ _ H6)|rewrite (coins_tip909 _ _ H6); lia]. }
  destruct a as [act|]; [|injection H as <-; apply settles_refl].
  unfold collect_proposer_fee in H. inv_bind H as v Hv. injection H as <-.
  apply only_builtins_settles; [apply only_builtins_same; reflexivity|].
  rewrite coins_put_coin_eq.
  match goal with |- coin_supply _ (<[?k := ?c]> ?m) <= _ => pose proof (coin_supply_insert_le (Custom h) k c m) as Hi end.
  unfold val in Hi. cbn [c_data cd_denom cd_value denom_eqb] in Hi. cbn [s_coins set_fees set_mult] in Hi |- *. lia.
Qed.

(* ---- ERG and every custom denomination over a whole seal.  MEL and SYM are the pegged pair: the peg and the
   TIP-909 subsidy mint them by design, so they are excluded here (their conservation by a batch and by the
   three settlement phases is proved above). *)
Definition unpegged (d : denom) : Prop := d <> Mel /\ d <> Sym.

(* reserves of d created by the one-off bootstrap of the built-in pools at this seal *)
Definition bootstrap (d : denom) (s : wstate) : N := psum d (create_builtins s) - psum d s.

Definition reserves_shrink (d : denom) (s s' : wstate) : Prop :=
  forall k, In k K -> side d k (pool_at s' k) <= side d k (pool_at s k).

Lemma reserves_shrink_psum d s s' : reserves_shrink d s s' -> psum d s' <= psum d s.
Proof. intros H. unfold psum. apply nsum_le_pointwise. intros k Hk. apply H. exact Hk. Qed.

Lemma builtin_key_of k : In k K -> In (poolkey_code k) builtin_codes -> k = MS \/ k = ME \/ k = ES.
Proof.
  intros Hk Hc. destruct K_builtins as (K1 & K2 & K3).
  destruct Hc as [E|[E|[E|[]]]]; [left|right; left|right; right]; symmetry; eapply K_code_inj; eauto.
Qed.

Lemma MS_eq : MS = (Mel, Sym).
Proof. vm_compute. reflexivity. Qed.
Lemma side_MS_unpegged d p : unpegged d -> side d MS p = 0.
Proof. intros [H1 H2]. unfold side. rewrite MS_eq. cbn [fst snd]. destruct d; try contradiction; cbn [denom_eqb]; lia. Qed.

Lemma pegging_shrinks d s s' : unpegged d -> process_pegging s = Ok s' -> reserves_shrink d s s'.
Proof.
  intros Hd H k Hk. destruct builtin_code_cases as (B1 & _ & _).
  unfold process_pegging in H. destruct (get_pool s (poolkey_new Mel Sym)) as [sm|] eqn:Esm; [|discriminate].
  inv_bind H as x Hx. destruct x as [xn xd].
  match type of H with (if ?c then _ else _) = _ => destruct c end; [discriminate|].
  inv_bind H as sm1 H1. inv_bind H as sm2 H2. injection H as <-.
  destruct (N.eq_dec (poolkey_code k) (poolkey_code MS)) as [E|E].
  - assert (k = MS) by (destruct K_builtins as (K1 & _); eapply K_code_inj; eauto). subst k.
    rewrite !side_MS_unpegged by exact Hd. lia.
  - unfold pool_at, get_pool. cbn [s_pools put_pool set_pools]. rewrite lookup_insert_ne by (intros E2; apply E; rewrite <- E2; reflexivity). lia.
Qed.

Lemma swap_many_shrinks p l r p' lw rw :
  swap_many p l r = Ok (p', lw, rw) -> (l = 0 -> p_lefts p' <= p_lefts p) /\ (r = 0 -> p_rights p' <= p_rights p).
Proof.
  unfold swap_many. destruct (_ =? 0); [discriminate|]. destruct (_ =? 0); [discriminate|].
  destruct (_ <? _); [discriminate|]. destruct (_ <? _); [discriminate|]. destruct (_ =? 0); [discriminate|].
  intros H. injection H as <- _ _. cbn [p_lefts p_rights].
  split; intros ->; unfold sat_add128; rewrite N.add_0_r; lia.
Qed.

Lemma ES_eq : ES = (Erg, Sym).
Proof. vm_compute. reflexivity. Qed.
Lemma side_ES_unpegged d p : unpegged d -> side d ES p = if denom_eqb d Erg then p_lefts p else 0.
Proof.
  intros [H1 H2]. unfold side. rewrite ES_eq. cbn [fst snd].
  destruct d; try contradiction; cbn [denom_eqb]; lia.
Qed.

Lemma tip909_shrinks d s s' : unpegged d -> apply_tip_909 s = Ok s' -> reserves_shrink d s s'.
Proof.
  intros Hd H k Hk. destruct builtin_code_cases as (B1 & _ & B3).
  unfold apply_tip_909 in H. destruct (128 <=? _); [discriminate|].
  destruct (get_pool s (poolkey_new Mel Sym)) as [sm|] eqn:Esm; [|discriminate].
  inv_bind H as r Hr. destruct r as [[sm' mel] x]. inv_bind H as fp Hfp.
  match type of H with context [get_pool ?st ?k0] => destruct (get_pool st k0) as [es|] eqn:Ees end; [|discriminate].
  inv_bind H as r2 Hr2. injection H as <-. destruct r2 as [[es' a] b]. cbn [fst].
  destruct (swap_many_shrinks _ _ _ _ _ _ Hr2) as [Hl _]. specialize (Hl eq_refl).
  destruct (N.eq_dec (poolkey_code k) (poolkey_code MS)) as [E|E].
  { assert (k = MS) by (destruct K_builtins as (K1 & _); eapply K_code_inj; eauto). subst k.
    rewrite !side_MS_unpegged by exact Hd. lia. }
  destruct (N.eq_dec (poolkey_code k) (poolkey_code ES)) as [E2|E2].
  { assert (k = ES) by (destruct K_builtins as (_ & _ & K3); eapply K_code_inj; eauto). subst k.
    rewrite !side_ES_unpegged by exact Hd. destruct (denom_eqb d Erg); [|lia].
    change (poolkey_new Mel Sym) with MS in *. change (poolkey_new Erg Sym) with ES in *.
    unfold get_pool in Ees. cbn [s_pools put_pool set_pools set_fees] in Ees.
    rewrite lookup_insert_ne in Ees by (intros E3; apply E; symmetry; exact E3).
    unfold pool_at, get_pool. cbn [s_pools put_pool set_pools set_fees]. rewrite lookup_insert, Ees. exact Hl. }
  change (poolkey_new Mel Sym) with MS. change (poolkey_new Erg Sym) with ES.
  unfold pool_at, get_pool. cbn [s_pools put_pool set_pools set_fees].
  rewrite !lookup_insert_ne by (intros E3; first [apply E2; symmetry; exact E3|apply E; symmetry; exact E3]). lia.
Qed.

Theorem seal_settles_unpegged s a s' d :
  unpegged d ->
  seal SO s a = Ok s' ->
  legacy_net s && (s_height s <? 978392) = false ->
  (forall t k, In t (sorted_txs s) -> tx_pool t = Some k -> In k K /\ LDk k <> fst k /\ LDk k <> snd k) ->
  NoDup (key_pairs (sorted_txs s)) ->
  (forall t c, In t (sorted_txs s) -> s_coins s !! key0 t = Some c -> as_declared t c (out0 t)) ->
  (forall t c, In t (sorted_txs s) -> s_coins s !! key1 t = Some c -> as_declared t c (out1 t)) ->
  nsum (map (fun t => cd_value (out0 t)) (sorted_txs s)) < U128 ->
  nsum (map (fun t => cd_value (out1 t)) (sorted_txs s)) < U128 ->
  (forall s2 s3, process_swaps (create_builtins s) = Ok s2 -> process_deposits SO s2 = Ok s3 ->
     (forall k p'' m, In k K ->
        pool_deposit (pool_at s2 k)
          (nsum (map (fun t => cd_value (out0 t)) (txs_for_pool (List.filter (is_deposit_request s2) (sorted_txs s2)) k)))
          (nsum (map (fun t => cd_value (out1 t)) (txs_for_pool (List.filter (is_deposit_request s2) (sorted_txs s2)) k))) = Ok (p'', m) ->
        p_liqs (pool_at s2 k) + m < U128) /\
     (forall k p, In k K -> get_pool s3 k = Some p -> p_lefts p < U128 /\ p_rights p < U128)) ->
  coin_supply d (s_coins s') + psum d s' + liq_of d s
  <= coin_supply d (s_coins s) + psum d s + liq_of d s' + bootstrap d s.
Proof.
  intros Hd H Hleg Hcover Hkeys Hd0 Hd1 Hs0 Hs1 Hclamp.
  unfold seal in H. inv_bind H as s5 H5. unfold preseal_melmint in H5.
  inv_bind H5 as s2 H2. inv_bind H5 as s3 H3. inv_bind H5 as s4 H4.
  destruct (negb (pool_count_ok s5)); [discriminate|]. inv_bind H as s6 H6.
  set (s1 := create_builtins s) in *.
  assert (F1: frame_fp s1 = frame_fp s) by apply frame_create_builtins.
  assert (T1: sorted_txs s1 = sorted_txs s).
  { apply txs_same. unfold frame_fp, frame in F1. injection F1 as _ _ _ E _ _ _ _ _. exact E. }
  assert (C1: s_coins s1 = s_coins s) by apply coins_create_builtins.
  assert (N1: s_network s1 = s_network s /\ s_height s1 = s_height s).
  { unfold frame_fp, frame in F1. injection F1 as E1 E2 _ _ _ _ _ _ _. auto. }
  destruct N1 as [En1 Eh1]. destruct (Hclamp s2 s3 H2 H3) as [Hsat Hbound].
  (* bootstrap *)
  destruct (create_builtins_only s) as [_ OL]. fold s1 in OL.
  assert (L01: liq_of d s <= liq_of d s1).
  { unfold liq_of. apply nsum_le_pointwise. intros k _. destruct (denom_eqb d (LDk k)); [apply OL|lia]. }
  assert (P01: psum d s1 <= psum d s + bootstrap d s) by (unfold bootstrap; fold s1; lia).
  (* settlement *)
  assert (S14: settles d s1 s4).
  { apply (settlement_settles s1 s2 s3 s4 H2 H3 H4); rewrite ?T1, ?C1; try assumption.
    unfold legacy_net. rewrite En1, Eh1. exact Hleg. }
  (* peg *)
  pose proof (reserves_shrink_psum d s4 s5 (pegging_shrinks d s4 s5 Hd H5)) as P45.
  destruct (process_pegging_only _ _ H5) as [_ OL45].
  assert (L45: liq_of d s4 <= liq_of d s5).
  { unfold liq_of. apply nsum_le_pointwise. intros k _. destruct (denom_eqb d (LDk k)); [apply OL45|lia]. }
  pose proof (coins_process_pegging _ _ H5) as C45.
  (* subsidy *)
  assert (S56: coin_supply d (s_coins s6) = coin_supply d (s_coins s5) /\ psum d s6 <= psum d s5 /\ liq_of d s5 <= liq_of d s6).
  { destruct (tip_909 s5); [|injection H6 as <-; repeat split; lia].
    split; [rewrite (coins_tip909 _ _ H6); reflexivity|]. split; [apply reserves_shrink_psum, (tip909_shrinks d s5 s6 Hd H6)|].
    destruct (tip909_only _ _ H6) as [_ OL56]. unfold liq_of. apply nsum_le_pointwise. intros k _.
    destruct (denom_eqb d (LDk k)); [apply OL56|lia]. }
  destruct S56 as (C56 & P56 & L56).
  (* proposer reward: a MEL coin *)
  assert (S6': coin_supply d (s_coins s') <= coin_supply d (s_coins s6) /\ psum d s' = psum d s6 /\ liq_of d s' = liq_of d s6).
  { destruct a as [act|]; [|injection H as <-; repeat split; lia].
    unfold collect_proposer_fee in H. inv_bind H as v Hv. injection H as <-.
    split; [|split; [apply psum_same; reflexivity|apply liq_of_same; reflexivity]].
    rewrite coins_put_coin_eq.
    match goal with |- coin_supply _ (<[?k0 := ?c]> ?m) <= _ => pose proof (coin_supply_insert_le d k0 c m) as Hi end.
    unfold val in Hi. cbn [c_data cd_denom cd_value] in Hi.
    assert (E: denom_eqb Mel d = false) by (destruct Hd as [Hm _]; destruct d; try reflexivity; contradiction).
    rewrite E in Hi. cbn [s_coins set_fees set_mult] in Hi |- *. lia. }
  destruct S6' as (C6 & P6 & L6).
  unfold settles in S14. rewrite C45 in *. rewrite C1 in S14. lia.
Qed.
End Lift.

(* Non-vacuity witness for [settlement_settles]: one block with a swap, a deposit and a withdrawal against the
   MEL/SYM pool; every hypothesis of the theorem holds on it and all three phases run. *)
From MelVerif Require Import STF.Proofs.Tactics STF.Proofs.MapLemmas STF.Proofs.Supply STF.Proofs.Pool STF.Proofs.SealCoins
  STF.Proofs.BatchSupply STF.Proofs.SealSupply STF.Proofs.SealLift STF.Proofs.Witness STF.Proofs.Witness2.
Open Scope N_scope.

Definition w_block_state : wstate :=
  {| s_network := 2; s_height := 5; s_history := ∅;
     s_coins := s_coins w_seal_state; s_counts := s_counts w_seal_state;
     s_txs := list_to_map [(21, w_swap); (22, w_dep); (23, w_wd)];
     s_fee_pool := 1000; s_fee_mult := 100; s_tips := 0; s_dosc_speed := 1;
     s_pools := s_pools w_seal_state; s_stakes := ∅ |}.

Definition w_K : list (denom * denom) := [w_key].

Lemma w_sorted : sorted_txs w_block_state = [w_swap; w_dep; w_wd].
Proof. vm_compute. reflexivity. Qed.

Lemma w_settlement :
  NoDup (map poolkey_code w_K) /\
  exists s2 s3 s4,
    process_swaps w_block_state = Ok s2 /\ process_deposits w_oracle s2 = Ok s3 /\ process_withdrawals w_oracle s3 = Ok s4 /\
    legacy_net w_block_state && (s_height w_block_state <? 978392) = false /\
    (forall t k, In t (sorted_txs w_block_state) -> tx_pool t = Some k ->
       In k w_K /\ LDk w_oracle k <> fst k /\ LDk w_oracle k <> snd k) /\
    NoDup (key_pairs (sorted_txs w_block_state)) /\
    (forall t c, In t (sorted_txs w_block_state) -> s_coins w_block_state !! key0 t = Some c -> as_declared t c (out0 t)) /\
    (forall t c, In t (sorted_txs w_block_state) -> s_coins w_block_state !! key1 t = Some c -> as_declared t c (out1 t)) /\
    nsum (map (fun t => cd_value (out0 t)) (sorted_txs w_block_state)) < U128 /\
    nsum (map (fun t => cd_value (out1 t)) (sorted_txs w_block_state)) < U128 /\
    (forall k p'' m, In k w_K ->
       pool_deposit (pool_at s2 k)
         (nsum (map (fun t => cd_value (out0 t)) (txs_for_pool (List.filter (is_deposit_request s2) (sorted_txs s2)) k)))
         (nsum (map (fun t => cd_value (out1 t)) (txs_for_pool (List.filter (is_deposit_request s2) (sorted_txs s2)) k))) = Ok (p'', m) ->
       p_liqs (pool_at s2 k) + m < U128) /\
    (forall k p, In k w_K -> get_pool s3 k = Some p -> p_lefts p < U128 /\ p_rights p < U128).
Proof.
  split; [repeat constructor; intros []|].
  eexists. eexists. eexists.
  split; [vm_compute; reflexivity|]. split; [vm_compute; reflexivity|]. split; [vm_compute; reflexivity|].
  split; [vm_compute; reflexivity|].
  split.
  { rewrite w_sorted. intros t k Ht E. assert (k = w_key).
    { destruct Ht as [<-|[<-|[<-|[]]]]; vm_compute in E; injection E as <-; reflexivity. }
    subst k. split; [left; reflexivity|]. split; vm_compute; discriminate. }
  split; [rewrite w_sorted; cbn; repeat constructor; cbn; intuition discriminate|].
  split.
  { rewrite w_sorted. intros t c Ht Ec. destruct Ht as [<-|[<-|[<-|[]]]]; vm_compute in Ec; injection Ec as <-; split; reflexivity. }
  split.
  { rewrite w_sorted. intros t c Ht Ec. destruct Ht as [<-|[<-|[<-|[]]]]; vm_compute in Ec; try discriminate; injection Ec as <-; split; reflexivity. }
  split; [rewrite w_sorted; vm_compute; reflexivity|]. split; [rewrite w_sorted; vm_compute; reflexivity|].
  split.
  { intros k p'' m [<-|[]] Hm. vm_compute in Hm. injection Hm as _ <-. vm_compute. reflexivity. }
  intros k p [<-|[]] Ep. vm_compute in Ep. injection Ep as <-. split; vm_compute; reflexivity.
Qed.

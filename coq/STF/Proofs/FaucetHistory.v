(* C19 over whole histories: once a faucet transaction has been accepted, its dedup marker stays in the coin
   tree through every later batch and block (it is locked by the covenant hash 0, which no listed covenant
   has, and its id is a hash that is neither a transaction hash nor a reward id), so a faucet with the same
   hash is refused in every later state. *)
From MelVerif Require Import STF.Proofs.Tactics STF.Proofs.MapLemmas STF.Proofs.Frame STF.Proofs.Stakes STF.Proofs.Faucet
  STF.Proofs.Coins STF.Proofs.Counts STF.Proofs.Covenant STF.Proofs.SealCoins STF.Proofs.HashFacts STF.Proofs.SealCounts
  STF.Proofs.History.
From Coq Require Import ZifyN ZifyNat ZifyBool.
Open Scope N_scope.

Section FaucetHistory.
Variable SO : stf_oracle.

(* a coin that nothing can spend: locked by the covenant hash 0 *)
Definition Dead (s : wstate) (k : N) : Prop := exists c, s_coins s !! k = Some c /\ cd_covhash (c_data c) = 0.

(* every coin spent by an accepted batch is locked by a covenant hash that its spender lists *)
Lemma spent_covhash_listed s lh txs s' :
  apply_tx_batch SO s lh txs = Ok s' ->
  exists relevant, load_relevant_coins s txs = Ok relevant /\
  forall t, In t txs -> forall j inp, nth_error (t_inputs t) j = Some inp ->
  exists c, relevant !! input_key inp = Some c /\ In (cd_covhash (c_data c)) (t_covhashes t).
Proof.
  intros H. destruct (accepted_batch_inputs_approved SO s lh txs s' H) as (relevant & Hrel & Happ).
  exists relevant. split; [exact Hrel|]. intros t Ht j.
  induction j as [j IH] using lt_wf_ind. intros inp Hj.
  destruct (Happ t Ht j inp Hj) as (c & Hc & [(j' & inp' & c' & Hlt & Hj' & Hc' & E)|Ha]).
  - exists c. split; [exact Hc|]. destruct (IH j' Hlt inp' Hj') as (c2 & Hc2 & Hin).
    rewrite Hc' in Hc2. injection Hc2 as <-. rewrite <- E. exact Hin.
  - exists c. split; [exact Hc|]. destruct Ha as (bytes & prog & Hf & _).
    apply find_script_sound in Hf as (i & Hi & _). eapply nth_error_In. exact Hi.
Qed.

(* the bindings a batch creates sit at output ids of its transactions *)
Lemma outputs_map_key s txs k c : outputs_map s txs !! k = Some c -> exists t i, In t txs /\ i < 256 /\ k = coin_key (t_hash t) i.
Proof.
  rewrite outputs_map_ins_all. intros H. apply ins_all_some in H as [H|H]; [|rewrite lookup_empty in H; discriminate].
  unfold created in H. apply in_flat_map in H as (t & Ht & H). apply in_output_coins in H as (i & o & _ & ->).
  exists t, (i mod 256). split; [exact Ht|]. split; [apply N.mod_lt; discriminate|reflexivity].
Qed.

Section Step.
Variable m : N.                      (* the marker id of the faucet in question *)
Let k := coin_key m 0.

(* a batch none of whose transactions has the hash m or lists a covenant with hash 0 leaves the marker alone *)
Lemma batch_keeps_dead s lh txs s' :
  apply_tx_batch SO s lh txs = Ok s' ->
  (forall t, In t txs -> t_hash t <> m /\ ~ In 0 (t_covhashes t)) ->
  Dead s k -> Dead s' k.
Proof.
  intros H Hap (c & Hc & Hz). exists c. split; [|exact Hz].
  assert (Hnk: forall t i, In t txs -> i < 256 -> k <> coin_key (t_hash t) i).
  { intros t i Ht Hi E. unfold k in E. apply coin_key_inj in E as [E _]; [|lia|exact Hi]. symmetry in E. exact (proj1 (Hap t Ht) E). }
  destruct (spent_covhash_listed _ _ _ _ H) as (relevant & Hrel & Hsp).
  destruct (load_relevant_coins_spec _ _ _ Hrel) as (_ & _ & _ & Hin & _).
  assert (Hni: ~ In k (all_inputs txs)).
  { intros Hi. pose proof (Hin _ Hi) as Er.
    assert (Eo: outputs_map s txs !! k = None).
    { destruct (outputs_map s txs !! k) as [c0|] eqn:Eo; [|reflexivity].
      apply outputs_map_key in Eo as (t & i & Ht & Hi' & E). exfalso. exact (Hnk t i Ht Hi' E). }
    rewrite Eo, Hc in Er.
    unfold all_inputs in Hi. apply in_flat_map in Hi as (t & Ht & Hi). apply in_map_iff in Hi as (inp & E & Hinp).
    apply In_nth_error in Hinp as (j & Hj). destruct (Hsp t Ht j inp Hj) as (c2 & Hc2 & Hl).
    rewrite E, Er in Hc2. injection Hc2 as <-. rewrite Hz in Hl. exact (proj2 (Hap t Ht) Hl). }
  destruct (accepted_batch_coins _ _ _ _ _ H) as (relevant2 & Hrel2 & Ec). rewrite Ec.
  rewrite del_all_notin by exact Hni. rewrite ins_all_notin; [exact Hc|].
  intros Hk. apply in_map_iff in Hk as ([k' c'] & E & Hk). cbn [fst] in E. subst k'.
  apply in_flat_map in Hk as (t & Ht & Hk).
  apply in_tx_inserts in Hk as [(Hf & E & _)|(i & o & _ & E & _)].
  - (* the marker of a faucet of this batch: that would be the replay, which is rejected *)
    apply andb_true_iff in Hf as [Hf _].
    eapply (faucet_replay_rejected SO s lh txs t s'); [exact Ht| |rewrite <- E; eauto|exact H].
    destruct (t_kind t); cbn in Hf; try discriminate. reflexivity.
  - apply (Hnk t (i mod 256) Ht); [apply N.mod_lt; discriminate|exact E].
Qed.

(* a block boundary leaves it alone when no transaction of the block has the hash m and the reward id differs *)
Lemma block_keeps_dead s a hdr s' :
  seal SO s a = Ok s' ->
  (forall t, In t (sorted_txs s) -> t_hash t <> m) -> so_reward_id SO (s_height s) <> m ->
  Dead s k -> Dead (next_unsealed s' hdr) k.
Proof.
  intros H Hno Hrw (c & Hc & Hz). exists c. split; [|exact Hz].
  assert (E: s_coins (next_unsealed s' hdr) = s_coins s') by (unfold next_unsealed; destruct (_ && _); reflexivity).
  rewrite E. rewrite (seal_leaves_other_coins SO s a s' k H); [exact Hc| |].
  - intros t Ht _. unfold key0, key1, k. pose proof (Hno t Ht) as Hne. split; intros E2; apply coin_key_inj in E2 as [E2 _]; lia.
  - unfold k. intros E2. apply coin_key_inj in E2 as [E2 _]; lia.
Qed.

(* ---- over a history *)
Definition NoM (s : wstate) : Prop := forall t, In t (sorted_txs s) -> t_hash t <> m.

Definition apart (s : wstate) (o : hop) : Prop :=
  match o with
  | HBatch lh txs => forall t, In t txs -> t_hash t <> m /\ ~ In 0 (t_covhashes t)
  | HBlock a hdr => so_reward_id SO (s_height s) <> m
  end.
Definition hist_apart := hist_all SO apart.

Lemma hstep_dead s o : Dead s k /\ NoM s -> apart s o -> Dead (hstep SO s o) k /\ NoM (hstep SO s o).
Proof.
  intros [D Nm] Ha. destruct o as [lh txs|a hdr]; cbn [hstep apart] in *.
  - destruct (apply_tx_batch SO s lh txs) as [s'| |] eqn:E; [|split; assumption|split; assumption].
    split; [eapply batch_keeps_dead; eauto|].
    intros t Ht. apply in_sorted_txs in Ht as (h & Hh). rewrite (batch_txs SO s lh txs s' E) in Hh.
    apply file_txs_lookup in Hh as [[Ht _]|[Hold _]]; [apply (Ha t Ht)|apply Nm, in_sorted_txs; eauto].
  - destruct (seal SO s a) as [s'| |] eqn:E; [|split; assumption|split; assumption].
    split; [eapply block_keeps_dead; eauto|].
    intros t Ht. apply in_sorted_txs in Ht as (h & Hh).
    assert (Etx: s_txs (next_unsealed s' hdr) = ∅) by (unfold next_unsealed; destruct (_ && _); reflexivity).
    rewrite Etx, lookup_empty in Hh. discriminate.
Qed.

Theorem marker_stays : forall ops s,
  Dead s k -> NoM s -> hist_apart s ops -> Dead (fold_left (hstep SO) ops s) k.
Proof.
  intros ops s D Nm H.
  apply (history_invariant SO (fun s => Dead s k /\ NoM s) apart hstep_dead ops s (conj D Nm) H).
Qed.
End Step.

(* what an accepted faucet leaves behind *)
Lemma accepted_faucet_marker_dead s lh txs s' t :
  apply_tx_batch SO s lh txs = Ok s' -> HashOK SO s txs ->
  In t txs -> t_kind t = KFaucet -> is_bug_tx t = false ->
  Dead s' (coin_key (so_faucet_marker SO (t_hash t)) 0).
Proof.
  intros H HK Ht Hk Hb. change (coin_key (so_faucet_marker SO (t_hash t)) 0) with (marker_key SO t).
  assert (Hni: ~ In (marker_key SO t) (all_inputs txs)) by (apply (hk_marker_not_input SO s txs HK); exact Ht).
  destruct (accepted_faucet_leaves_marker SO s lh txs t s' H Ht Hk Hb Hni) as [c Hc].
  exists c. split; [exact Hc|].
  destruct (accepted_batch_coins _ _ _ _ _ H) as (relevant & Hrel & Ec). rewrite Ec in Hc.
  rewrite del_all_notin in Hc by exact Hni.
  apply ins_all_some in Hc as [Hc|Hc].
  - apply in_flat_map in Hc as (t2 & Ht2 & Hc).
    apply in_tx_inserts in Hc as [(_ & _ & ->)|(i & o & _ & E & _)]; [reflexivity|exfalso].
    unfold marker_key in E. apply coin_key_inj in E as [E _]; [|lia|apply N.mod_lt; discriminate].
    exact (hk_marker_tx _ _ _ HK t t2 Ht Ht2 E).
  - exfalso. eapply (faucet_replay_rejected SO s lh txs t s'); eauto.
Qed.

(* C19, "at most once anywhere": after a faucet transaction was accepted, no later state of any history
   accepts a batch containing a faucet with the same hash.  Assumptions (hash oracle): the marker id is not the
   hash of any transaction of the history nor a proposer-reward id, and no transaction lists a covenant whose
   hash is the all-zero address. *)
Theorem faucet_at_most_once s lh1 txs1 s1 t ops lh2 txs2 t2 s2 :
  apply_tx_batch SO s lh1 txs1 = Ok s1 -> HashOK SO s txs1 ->
  In t txs1 -> t_kind t = KFaucet -> is_bug_tx t = false ->
  NoM (so_faucet_marker SO (t_hash t)) s1 -> hist_apart (so_faucet_marker SO (t_hash t)) s1 ops ->
  In t2 txs2 -> t_kind t2 = KFaucet -> t_hash t2 = t_hash t ->
  apply_tx_batch SO (fold_left (hstep SO) ops s1) lh2 txs2 = Ok s2 -> False.
Proof.
  intros H1 HK Ht Hk Hb Hn Ha Ht2 Hk2 Eh H2.
  pose proof (accepted_faucet_marker_dead _ _ _ _ _ H1 HK Ht Hk Hb) as D.
  pose proof (marker_stays _ ops s1 D Hn Ha) as (c & Hc & _).
  eapply (faucet_replay_rejected SO _ lh2 txs2 t2 s2); [exact Ht2|exact Hk2| |exact H2].
  unfold marker_key. rewrite Eh. eauto.
Qed.

Lemma dead_def s k : Dead s k <-> exists c, s_coins s !! k = Some c /\ cd_covhash (c_data c) = 0.
Proof. reflexivity. Qed.
Lemma apart_def m s o :
  apart m s o <->
  match o with
  | HBatch lh txs => forall t, In t txs -> t_hash t <> m /\ ~ In 0 (t_covhashes t)
  | HBlock a hdr => so_reward_id SO (s_height s) <> m
  end.
Proof. destruct o; reflexivity. Qed.
Lemma hist_apart_def m s ops :
  hist_apart m s ops <-> match ops with [] => True | o :: r => apart m s o /\ hist_apart m (hstep SO s o) r end.
Proof. destruct ops; reflexivity. Qed.
End FaucetHistory.

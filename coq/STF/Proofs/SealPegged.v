(* C01 at seal for MEL and SYM, the two denominations the protocol mints by design: what a whole seal adds to
   the amount in existence (coins + pool reserves, plus for MEL the fee pool and the tips) is at most the one-off
   bootstrap of the built-in pools, the peg nudge - at most 2^128 / throttler, throttler 200 (1000 before TIP-902) -
   and, for SYM after TIP-909, the scheduled subsidy 2^20 >> ((height - TIP-909 height) / 10^6).  MEL is never
   minted by the subsidy (what the MEL/SYM pool pays out goes to the fee pool) nor by the proposer reward (paid out
   of the fee pool and the tips). *)
From MelVerif Require Import STF.Proofs.Tactics STF.Proofs.MapLemmas STF.Proofs.Frame STF.Proofs.Supply STF.Proofs.Pool STF.Proofs.BatchSupply
  STF.Proofs.SealCoins STF.Proofs.SealSupply STF.Proofs.PoolKeys STF.Proofs.SealLift STF.Proofs.SealInv STF.Proofs.SealCounts.
From Coq Require Import ZifyN ZifyNat ZifyBool.
Open Scope N_scope.

Lemma swap_many_grows p l r p' lw rw :
  swap_many p l r = Ok (p', lw, rw) ->
  p_lefts p' + lw <= p_lefts p + l /\ p_rights p' + rw <= p_rights p + r.
Proof.
  unfold swap_many.
  assert (HL: sat_add128 (p_lefts p) l <= p_lefts p + l) by (unfold sat_add128; lia).
  assert (HR: sat_add128 (p_rights p) r <= p_rights p + r) by (unfold sat_add128; lia).
  set (L := sat_add128 (p_lefts p) l) in *. set (R := sat_add128 (p_rights p) r) in *.
  destruct (R =? 0); [discriminate|]. destruct (L =? 0); [discriminate|].
  match goal with |- context [if L <? ?x then _ else _] => destruct (N.ltb_spec L x) as [|H1]; [discriminate|] end.
  match goal with |- context [if R <? ?x then _ else _] => destruct (N.ltb_spec R x) as [|H2]; [discriminate|] end.
  destruct (_ =? 0); [discriminate|]. intros H. injection H as <- <- <-. cbn [p_lefts p_rights]. lia.
Qed.

Section Pegged.
Variable K : list (denom * denom).
Hypothesis Kcodes : NoDup (map poolkey_code K).
Variable SO : stf_oracle.
Hypothesis K_builtins : In MS K /\ In ME K /\ In ES K.

Definition pegged (d : denom) : Prop := d = Mel \/ d = Sym.

(* everything of d that exists: coins, pool reserves, and for MEL the fee pool and the pending tips *)
Definition held (d : denom) (s : wstate) : N :=
  coin_supply d (s_coins s) + psum K d s + (if denom_eqb d Mel then s_fee_pool s + s_tips s else 0).

Definition peg_cap (s : wstate) : N := MAX128 / (if tip_902 s then 200 else 1000).
Definition subsidy (s : wstate) : N :=
  if tip_909 s then N.shiftr (2 ^ 20) ((s_height s - TIP_909_HEIGHT) / 1000000) else 0.

Lemma liq_of_pegged d s : pegged d -> liq_of K SO d s = 0.
Proof.
  intros Hd. unfold liq_of.
  assert (G: forall l, nsum (map (fun k => if denom_eqb d (LDk SO k) then p_liqs (pool_at s k) else 0) l) = 0).
  { induction l as [|k l IH]; [reflexivity|]. cbn [map nsum]. rewrite IH. unfold LDk. destruct Hd as [-> | ->]; reflexivity. }
  apply G.
Qed.

Lemma side_MS d p : pegged d -> side d MS p = if denom_eqb d Mel then p_lefts p else p_rights p.
Proof. intros [-> | ->]; unfold side; rewrite MS_eq; cbn [fst snd denom_eqb]; lia. Qed.
Lemma side_ES d p : pegged d -> side d ES p = if denom_eqb d Mel then 0 else p_rights p.
Proof. intros [-> | ->]; unfold side; rewrite ES_eq; cbn [fst snd denom_eqb]; lia. Qed.

Lemma psum_put d s k p' : In k K -> psum K d (put_pool s k p') + side d k (pool_at s k) = psum K d s + side d k p'.
Proof. intros Hk. apply (psum_update K Kcodes d s (put_pool s k p') k p' Hk). reflexivity. Qed.

(* ---- the peg *)
Lemma pegging_held d s s' : pegged d -> process_pegging s = Ok s' -> held d s' <= held d s + peg_cap s.
Proof.
  intros Hd H. destruct K_builtins as (KMS & _ & _).
  pose proof (coins_process_pegging _ _ H) as Ec. pose proof (frame_process_pegging _ _ H) as F.
  assert (Ef: s_fee_pool s' = s_fee_pool s /\ s_tips s' = s_tips s) by (unfold frame_fp, frame in F; split; congruence).
  destruct Ef as [Ef Et].
  unfold process_pegging in H. destruct (get_pool s (poolkey_new Mel Sym)) as [sm|] eqn:Esm; [|discriminate].
  inv_bind H as x Hx. destruct x as [xn xd].
  match type of H with (if ?c then _ else _) = _ => destruct c end; [discriminate|].
  inv_bind H as sm1 H1. inv_bind H as sm2 H2. injection H as <-.
  set (th := if tip_902 s then 200 else 1000) in *.
  assert (Hth: 1 <= th) by (unfold th; destruct (tip_902 s); lia).
  assert (Hcap: forall y z, (to_u128_sat y - z) / th <= MAX128 / th).
  { intros y z. apply N.div_le_mono; [lia|]. pose proof (to_u128_sat_max y). lia. }
  assert (B1: p_lefts sm1 <= p_lefts sm + peg_cap s /\ p_rights sm1 <= p_rights sm).
  { destruct (_ <? _) in H1; [|injection H1 as <-; lia]. inv_bind H1 as r Hr. injection H1 as <-. destruct r as [[q a] b]. cbn [fst].
    destruct (swap_many_grows _ _ _ _ _ _ Hr) as [G1 G2].
    match type of Hr with swap_many _ ((to_u128_sat ?y - ?z) / _) _ = _ => pose proof (Hcap y z) as Hc end.
    unfold peg_cap. fold th. lia. }
  assert (B2: p_lefts sm2 <= p_lefts sm1 /\ p_rights sm2 <= p_rights sm1 + peg_cap s).
  { destruct (_ <? _) in H2; [|injection H2 as <-; lia]. inv_bind H2 as r Hr. injection H2 as <-. destruct r as [[q a] b]. cbn [fst].
    destruct (swap_many_grows _ _ _ _ _ _ Hr) as [G1 G2].
    match type of Hr with swap_many _ _ ((to_u128_sat ?y - ?z) / _) = _ => pose proof (Hcap y z) as Hc end.
    unfold peg_cap. fold th. lia. }
  pose proof (psum_put d s MS sm2 KMS) as Hp. change (poolkey_new Mel Sym) with MS in *.
  unfold pool_at in Hp. rewrite Esm in Hp. rewrite !(side_MS d _ Hd) in Hp.
  unfold held. rewrite coins_put_pool. cbn [s_fee_pool s_tips put_pool set_pools].
  destruct (denom_eqb d Mel); lia.
Qed.

(* ---- the TIP-909 subsidy: SYM is minted into the MEL/SYM and ERG/SYM pools; the MEL the first pays out goes to the fee pool *)
Lemma tip909_held d s s' : pegged d -> apply_tip_909 s = Ok s' ->
  held d s' <= held d s + (if denom_eqb d Mel then 0 else N.shiftr (2 ^ 20) ((s_height s - TIP_909_HEIGHT) / 1000000)).
Proof.
  intros Hd H. destruct K_builtins as (KMS & _ & KES).
  pose proof (coins_tip909 _ _ H) as Ec.
  assert (Et: s_tips s' = s_tips s) by (apply frame_tip909 in H; unfold frame in H; congruence).
  unfold apply_tip_909 in H. destruct (128 <=? _); [discriminate|].
  destruct (get_pool s (poolkey_new Mel Sym)) as [sm|] eqn:Esm; [|discriminate].
  inv_bind H as r Hr. destruct r as [[sm' mel] x]. inv_bind H as fp Hfp.
  match type of H with context [get_pool ?st ?k0] => destruct (get_pool st k0) as [es|] eqn:Ees end; [|discriminate].
  inv_bind H as r2 Hr2. injection H as <-. destruct r2 as [[es' a] b]. cbn [fst].
  unfold add128 in Hfp. destruct (_ <? U128) in Hfp; [|discriminate]. injection Hfp as <-.
  set (reward := N.shiftr (2 ^ 20) ((s_height s - TIP_909_HEIGHT) / 1000000)) in *.
  assert (Hd1: reward / 256 <= reward /\ reward / 2 <= reward) by (split; apply N.div_le_upper_bound; lia).
  destruct (swap_many_grows _ _ _ _ _ _ Hr) as [G1 G2]. destruct (swap_many_grows _ _ _ _ _ _ Hr2) as [G3 G4].
  change (poolkey_new Mel Sym) with MS in *. change (poolkey_new Erg Sym) with ES in *.
  set (sa := put_pool s MS sm') in *.
  match type of Ees with get_pool ?st _ = _ => set (sb := st) in * end.
  pose proof (psum_put d s MS sm' KMS) as P1. fold sa in P1. unfold pool_at in P1. rewrite Esm in P1.
  assert (Psb: psum K d sb = psum K d sa) by (apply psum_same; reflexivity).
  pose proof (psum_put d sb ES es' KES) as P2. unfold pool_at in P2. rewrite Ees in P2. rewrite Psb in P2.
  rewrite !(side_MS d _ Hd) in P1. rewrite !(side_ES d _ Hd) in P2.
  (* the two subsidies add up to the reward *)
  assert (Hsum: (if tip_909a s then reward - reward / 256 else reward / 2)
                + (if tip_909a sb then reward / 256 else reward - (if tip_909a s then reward - reward / 256 else reward / 2)) <= reward).
  { change (tip_909a sb) with (tip_909a s). destruct (tip_909a s); lia. }
  assert (Efee: s_fee_pool (put_pool sb ES es') = s_fee_pool s + mel) by reflexivity.
  assert (Etip: s_tips (put_pool sb ES es') = s_tips s) by reflexivity.
  assert (Ecoin: s_coins (put_pool sb ES es') = s_coins s) by reflexivity.
  unfold held.
  match goal with |- context [psum K d ?st] => change st with (put_pool sb ES es') end.
  rewrite Efee, Etip, Ecoin. destruct (denom_eqb d Mel); lia.
Qed.

(* ---- the proposer reward is paid out of the fee pool and the tips *)
Lemma reward_held d s act s' : pegged d -> collect_proposer_fee SO s act = Ok s' -> held d s' <= held d s.
Proof.
  intros Hd H. unfold collect_proposer_fee in H. inv_bind H as v Hv. injection H as <-.
  unfold add128 in Hv. destruct (_ <? U128) in Hv; [|discriminate]. injection Hv as <-.
  assert (Hb: s_fee_pool s / 65536 <= s_fee_pool s) by (apply N.div_le_upper_bound; lia).
  unfold held. rewrite coins_put_coin_eq.
  match goal with |- coin_supply _ (<[?k0 := ?c]> ?m) + _ + _ <= _ => pose proof (coin_supply_insert_le d k0 c m) as Hi end.
  unfold val in Hi. cbn [c_data cd_denom cd_value] in Hi.
  match goal with |- _ + psum K d ?st + _ <= _ => assert (Ep: psum K d st = psum K d s) by (apply psum_same; reflexivity) end.
  rewrite Ep.
  repeat match goal with |- context [s_fee_pool (put_coin ?x ?k0 ?c0)] => change (s_fee_pool (put_coin x k0 c0)) with (s_fee_pool x) end.
  repeat match goal with |- context [s_tips (put_coin ?x ?k0 ?c0)] => change (s_tips (put_coin x k0 c0)) with (s_tips x) end.
  cbn [s_coins s_fee_pool s_tips set_fees] in Hi |- *.
  destruct Hd as [-> | ->]; cbn [denom_eqb] in Hi |- *; lia.
Qed.

(* ---- the whole seal *)
Theorem seal_pegged s a s' d :
  pegged d ->
  seal SO s a = Ok s' ->
  legacy_net s && (s_height s <? 978392) = false ->
  (forall t k, In t (sorted_txs s) -> tx_pool t = Some k -> In k K /\ LDk SO k <> fst k /\ LDk SO k <> snd k) ->
  NoDup (key_pairs (sorted_txs s)) ->
  (forall t c, In t (sorted_txs s) -> s_coins s !! key0 t = Some c -> as_declared t c (out0 t)) ->
  (forall t c, In t (sorted_txs s) -> s_coins s !! key1 t = Some c -> as_declared t c (out1 t)) ->
  nsum (map (fun t => cd_value (out0 t)) (sorted_txs s)) < U128 ->
  nsum (map (fun t => cd_value (out1 t)) (sorted_txs s)) < U128 ->
  (forall s2 s3, process_swaps (create_builtins s) = Ok s2 -> process_deposits SO s2 = Ok s3 ->
     (forall k p'' m, In k K ->
        pool_deposit (pool_at s2 k)
          (nsum (map (fun t => cd_value (out0 t)) (txs_for_pool (List.filter (is_deposit_request s2) (sorted_txs s2)) k)))
          (nsum (map (fun t => cd_value (out1 t)) (txs_for_pool (List.filter (is_deposit_request s2) (sorted_txs s2)) k))) = Ok (p'', m) ->
        p_liqs (pool_at s2 k) + m < U128) /\
     (forall k p, In k K -> get_pool s3 k = Some p -> p_lefts p < U128 /\ p_rights p < U128)) ->
  held d s' <= held d s + bootstrap K d s + peg_cap s + (if denom_eqb d Mel then 0 else subsidy s).
Proof.
  intros Hd H Hleg Hcover Hkeys Hd0 Hd1 Hs0 Hs1 Hclamp.
  unfold seal in H. inv_bind H as s5 H5. unfold preseal_melmint in H5.
  inv_bind H5 as s2 H2. inv_bind H5 as s3 H3. inv_bind H5 as s4 H4.
  destruct (negb (pool_count_ok s5)); [discriminate|]. inv_bind H as s6 H6.
  set (s1 := create_builtins s) in *.
  assert (F1: frame_fp s1 = frame_fp s) by apply frame_create_builtins.
  assert (T1: sorted_txs s1 = sorted_txs s) by (apply txs_same, frame_fp_txs; exact F1).
  assert (C1: s_coins s1 = s_coins s) by apply coins_create_builtins.
  assert (N1: s_network s1 = s_network s /\ s_height s1 = s_height s) by (unfold frame_fp, frame in F1; split; congruence).
  destruct N1 as [En1 Eh1]. destruct (Hclamp s2 s3 H2 H3) as [Hsat Hbound].
  assert (F4: frame_fp s4 = frame_fp s).
  { rewrite (frame_process_withdrawals SO _ _ H4), (frame_process_deposits SO _ _ H3), (frame_process_swaps _ _ H2). exact F1. }
  assert (F5: frame_fp s5 = frame_fp s) by (rewrite (frame_process_pegging _ _ H5); exact F4).
  assert (Fee: forall x, frame_fp x = frame_fp s -> s_fee_pool x = s_fee_pool s /\ s_tips x = s_tips s)
    by (intros x Fx; unfold frame_fp, frame in Fx; split; congruence).
  destruct (Fee s1 F1) as [Ef1 Et1]. destruct (Fee s4 F4) as [Ef4 Et4].
  (* bootstrap *)
  assert (B01: held d s1 <= held d s + bootstrap K d s).
  { unfold held, bootstrap. fold s1. rewrite C1, Ef1, Et1. lia. }
  (* settlement *)
  assert (S14: settles K SO d s1 s4).
  { apply (settlement_settles K Kcodes SO s1 s2 s3 s4 H2 H3 H4); rewrite ?T1, ?C1; try assumption.
    unfold legacy_net. rewrite En1, Eh1. exact Hleg. }
  unfold settles in S14. rewrite !(liq_of_pegged d _ Hd) in S14.
  assert (B14: held d s4 <= held d s1) by (unfold held; rewrite Ef4, Et4, Ef1, Et1; lia).
  (* peg *)
  pose proof (pegging_held d s4 s5 Hd H5) as B45.
  assert (Tip4: forall act, tip_condition s4 act = tip_condition s act) by (intros act; apply tip_cond_frame, frame_fp_frame; exact F4).
  assert (Tip5: forall act, tip_condition s5 act = tip_condition s act) by (intros act; apply tip_cond_frame, frame_fp_frame; exact F5).
  assert (Ecap: peg_cap s4 = peg_cap s) by (unfold peg_cap, tip_902; rewrite Tip4; reflexivity).
  (* subsidy *)
  assert (Eh5: s_height s5 = s_height s) by (unfold frame_fp, frame in F5; congruence).
  assert (B56: held d s6 <= held d s5 + (if denom_eqb d Mel then 0 else subsidy s)).
  { unfold subsidy. unfold tip_909 in *. rewrite <- (Tip5 TIP_909_HEIGHT).
    destruct (tip_condition s5 TIP_909_HEIGHT); [|injection H6 as <-; destruct (denom_eqb d Mel); lia].
    pose proof (tip909_held d s5 s6 Hd H6) as B. rewrite Eh5 in B. exact B. }
  (* reward *)
  assert (B6: held d s' <= held d s6).
  { destruct a as [act|]; [|injection H as <-; lia].
    exact (reward_held d _ act s' Hd H). }
  lia.
Qed.

Lemma pegged_def d : pegged d <-> d = Mel \/ d = Sym.
Proof. reflexivity. Qed.
Lemma held_def d s :
  held d s = coin_supply d (s_coins s) + psum K d s + (if denom_eqb d Mel then s_fee_pool s + s_tips s else 0).
Proof. reflexivity. Qed.
Lemma peg_cap_def s : peg_cap s = MAX128 / (if tip_902 s then 200 else 1000).
Proof. reflexivity. Qed.
Lemma subsidy_def s : subsidy s = if tip_909 s then N.shiftr (2 ^ 20) ((s_height s - TIP_909_HEIGHT) / 1000000) else 0.
Proof. reflexivity. Qed.
End Pegged.

(* The coins at the first two output ids of the transactions of the current block are as those transactions
   declared them, and no two transactions of the block share an output id - in every reachable state.
   These are the two facts about "the state that is sealed" that the settlement theorems (SealLift, SealInv,
   SealTotal, SealPegged) take as premises; here they are invariants of every history, so that the history
   theorems need only the hash-oracle assumptions and the no-overflow bounds. *)
From MelVerif Require Import STF.Proofs.Tactics STF.Proofs.MapLemmas STF.Proofs.Frame STF.Proofs.Stakes STF.Proofs.Faucet
  STF.Proofs.Coins STF.Proofs.Counts STF.Proofs.SealCoins STF.Proofs.HashFacts STF.Proofs.BatchSupply
  STF.Proofs.SealSupply STF.Proofs.PermAccept STF.Proofs.SealCounts STF.Proofs.SealLift STF.Proofs.History.
From Coq Require Import ZifyN ZifyNat ZifyBool.
Open Scope N_scope.

Definition Declared (s : wstate) : Prop := forall t, In t (sorted_txs s) ->
  (forall c, s_coins s !! key0 t = Some c -> as_declared t c (out0 t)) /\
  (forall c, s_coins s !! key1 t = Some c -> as_declared t c (out1 t)).

Lemma declared_def s :
  Declared s <-> forall t, In t (sorted_txs s) ->
    (forall c, s_coins s !! key0 t = Some c ->
       cd_denom (c_data c) = fix_denom t (cd_denom (out0 t)) /\ cd_value (c_data c) = cd_value (out0 t)) /\
    (forall c, s_coins s !! key1 t = Some c ->
       cd_denom (c_data c) = fix_denom t (cd_denom (out1 t)) /\ cd_value (c_data c) = cd_value (out1 t)).
Proof. reflexivity. Qed.

(* ---- distinct output ids *)
Lemma hashes_key_pairs : forall l : list tx, NoDup (map t_hash l) -> NoDup (key_pairs l).
Proof.
  unfold key_pairs. induction l as [|t l IH]; intros H; cbn [flat_map map] in *; [constructor|].
  inversion H as [|? ? Hni Hnd]; subst.
  assert (Hout: forall i, i < 256 -> ~ In (coin_key (t_hash t) i) (flat_map (fun t0 => [key0 t0; key1 t0]) l)).
  { intros i Hi Hin. apply in_flat_map in Hin as (t' & Ht' & Hk). apply Hni.
    assert (E: t_hash t = t_hash t').
    { destruct Hk as [E|[E|[]]]; unfold key0, key1 in E; symmetry in E; apply coin_key_inj in E as [E _]; auto; lia. }
    rewrite E. apply in_map. exact Ht'. }
  cbn [app]. constructor.
  - intros [E|Hin]; [|exact (Hout 0 ltac:(lia) Hin)].
    unfold key0, key1 in E. apply coin_key_inj in E as [_ E]; lia.
  - constructor; [exact (Hout 1 ltac:(lia))|apply IH; exact Hnd].
Qed.

Lemma txkeyed_hashes s : TxKeyed s -> NoDup (map t_hash (sorted_txs s)).
Proof.
  intros K. unfold sorted_txs.
  assert (E: map t_hash (map snd (sort_by_key (map_to_list (s_txs s)))) = map fst (sort_by_key (map_to_list (s_txs s)))).
  { rewrite map_map. apply map_ext_in. intros [h t] Hin. cbn [fst snd]. apply K.
    apply elem_of_map_to_list, elem_of_list_In. eapply Permutation_in; [apply sort_by_key_perm|exact Hin]. }
  rewrite E. eapply Permutation_NoDup; [apply Permutation_map; symmetry; apply sort_by_key_perm|].
  apply NoDup_ListNoDup. apply NoDup_fst_map_to_list.
Qed.

Theorem txkeyed_key_pairs s : TxKeyed s -> NoDup (key_pairs (sorted_txs s)).
Proof. intros K. apply hashes_key_pairs, txkeyed_hashes, K. Qed.

(* ---- one batch *)
Section Batch.
Variable SO : stf_oracle.
Variable s : wstate.
Variable lh : header.
Variable txs : list tx.
Variable s' : wstate.
Hypothesis Hacc : apply_tx_batch SO s lh txs = Ok s'.
Hypothesis HK : HashOK SO s txs.
Hypothesis Hmold : forall t t', In t txs -> In t' (sorted_txs s) -> so_faucet_marker SO (t_hash t) <> t_hash t'.

Lemma batch_declared : TxKeyed s -> Declared s -> Declared s'.
Proof.
  intros K O t Ht. apply in_sorted_txs in Ht as (h & Hh). rewrite (batch_txs SO s lh txs s' Hacc) in Hh.
  apply file_txs_lookup in Hh as [[Ht Eh]|[Hold Hnew]].
  - split; intros c Hc.
    + destruct (batch_coin_at_output_data SO s lh txs s' Hacc HK Hmold t 0 c Ht ltac:(lia) Hc) as (_ & _ & V & D).
      split; [exact D|exact V].
    + destruct (batch_coin_at_output_data SO s lh txs s' Hacc HK Hmold t 1 c Ht ltac:(lia) Hc) as (_ & _ & V & D).
      split; [exact D|exact V].
  - assert (Hts: In t (sorted_txs s)) by (apply in_sorted_txs; eauto).
    pose proof (K _ _ Hold) as Eh.
    assert (Hno: forall i0, i0 < 256 -> forall t2 i2, In t2 txs -> i2 < 256 -> coin_key (t_hash t) i0 <> coin_key (t_hash t2) i2).
    { intros i0 Hi0 t2 i2 Ht2 Hi2 E. apply coin_key_inj in E as [E _]; [|exact Hi0|exact Hi2].
      apply Hnew. rewrite <- Eh, E. apply in_map. exact Ht2. }
    assert (Hnm: forall i0, i0 < 256 -> forall t2, In t2 txs -> coin_key (t_hash t) i0 <> marker_key SO t2).
    { intros i0 Hi0 t2 Ht2 E. unfold marker_key in E. apply coin_key_inj in E as [E _]; [|exact Hi0|lia].
      symmetry in E. exact (Hmold t2 t Ht2 Hts E). }
    split; intros c Hc.
    + apply (O t Hts). eapply batch_coin_elsewhere; [exact Hacc|apply (Hno 0); lia|apply (Hnm 0); lia|exact Hc].
    + apply (O t Hts). eapply batch_coin_elsewhere; [exact Hacc|apply (Hno 1); lia|apply (Hnm 1); lia|exact Hc].
Qed.
End Batch.

Lemma next_unsealed_declared s hdr : Declared (next_unsealed s hdr).
Proof.
  assert (Etx: s_txs (next_unsealed s hdr) = ∅) by (unfold next_unsealed; destruct (_ && _); reflexivity).
  intros t Ht. apply in_sorted_txs in Ht as (h & Hh). rewrite Etx, lookup_empty in Hh. discriminate.
Qed.

Section History.
Variable SO : stf_oracle.

(* the invariant of every history: [Good] (transactions filed under their hash, counts, output covenants)
   and [Declared] *)
Definition Good2 (s : wstate) : Prop := Good s /\ Declared s.

Lemma hstep_good2 s o : Good2 s -> step_ok SO s o -> Good2 (hstep SO s o).
Proof.
  intros [G D] Hok. split; [apply hstep_good; assumption|].
  destruct o as [lh txs|a hdr]; cbn [hstep step_ok] in *.
  - destruct (apply_tx_batch SO s lh txs) as [s'| |] eqn:E; [|exact D|exact D].
    destruct Hok as [HK Hm]. eapply batch_declared; eauto. apply G.
  - destruct (seal SO s a) as [s'| |] eqn:E; [|exact D|exact D]. apply next_unsealed_declared.
Qed.

Theorem history_good2 : forall ops s, Good2 s -> hist_ok SO s ops -> Good2 (fold_left (hstep SO) ops s).
Proof. apply history_invariant. exact hstep_good2. Qed.

(* what the settlement theorems ask of the state that is sealed, in every reachable state *)
Corollary history_declared ops s :
  Good2 s -> hist_ok SO s ops ->
  let s1 := fold_left (hstep SO) ops s in
  NoDup (key_pairs (sorted_txs s1)) /\
  (forall t c, In t (sorted_txs s1) -> s_coins s1 !! key0 t = Some c -> as_declared t c (out0 t)) /\
  (forall t c, In t (sorted_txs s1) -> s_coins s1 !! key1 t = Some c -> as_declared t c (out1 t)).
Proof.
  intros G H s1. destruct (history_good2 ops s G H) as [(K & _) D]. fold s1 in K, D.
  split; [apply txkeyed_key_pairs; exact K|].
  split; intros t c Hin Hc; [apply (proj1 (D t Hin))|apply (proj2 (D t Hin))]; exact Hc.
Qed.
End History.

Lemma genesis_good2 net c fp m st : Good2 (genesis net c fp m st).
Proof.
  split; [apply genesis_good|]. intros t Ht. apply in_sorted_txs in Ht as (h & Hh). cbn in Hh.
  rewrite lookup_empty in Hh. discriminate.
Qed.

Lemma good2_def s : Good2 s <-> Good s /\ Declared s.
Proof. reflexivity. Qed.

(* C16 over whole histories: a pool that is live and whose liquidity token is backed with room to spare
   (as the built-in pools are from their creation) is live and backed in every later state, through every
   accepted or rejected batch and every block boundary - under the per-step side conditions of the one-step
   theorems (no overflow of the request totals, hash-oracle facts, no faucet issuing the token). *)
From MelVerif Require Import STF.Proofs.Tactics STF.Proofs.MapLemmas STF.Proofs.Frame STF.Proofs.Supply STF.Proofs.Pool
  STF.Proofs.SealCoins STF.Proofs.BatchSupply STF.Proofs.SealSupply STF.Proofs.SealLift STF.Proofs.SealInv
  STF.Proofs.HashFacts STF.Proofs.SealCounts STF.Proofs.History.
Open Scope N_scope.

Section PoolHistory.
Variable K : list (denom * denom).
Hypothesis Kcodes : NoDup (map poolkey_code K).
Variable SO : stf_oracle.
Hypothesis K_builtins : In MS K /\ In ME K /\ In ES K.
Hypothesis LD_inj : forall k1 k2, In k1 K -> In k2 K -> LDk SO k1 = LDk SO k2 -> k1 = k2.
Variable k : denom * denom.
Hypothesis Hk : In k K.

Definition Backed (s : wstate) : Prop :=
  exists p, get_pool s k = Some p /\ live p /\
    coin_supply (LDk SO k) (s_coins s) + psum K (LDk SO k) s + 1 <= p_liqs p.

(* the side conditions of [seal_keeps_backed_pool_live], about the state that is sealed *)
Definition seal_premises (s : wstate) : Prop :=
  legacy_net s && (s_height s <? 978392) = false /\
  (forall t k1, In t (sorted_txs s) -> tx_pool t = Some k1 -> In k1 K /\ LDk SO k1 <> fst k1 /\ LDk SO k1 <> snd k1) /\
  NoDup (key_pairs (sorted_txs s)) /\
  (forall t c, In t (sorted_txs s) -> s_coins s !! key0 t = Some c -> as_declared t c (out0 t)) /\
  (forall t c, In t (sorted_txs s) -> s_coins s !! key1 t = Some c -> as_declared t c (out1 t)) /\
  nsum (map (fun t => cd_value (out0 t)) (sorted_txs s)) < U128 /\
  nsum (map (fun t => cd_value (out1 t)) (sorted_txs s)) < U128 /\
  (forall s2 s3, process_swaps (create_builtins s) = Ok s2 -> process_deposits SO s2 = Ok s3 ->
     (forall k1 p'' m, In k1 K ->
        pool_deposit (pool_at s2 k1)
          (nsum (map (fun t => cd_value (out0 t)) (txs_for_pool (List.filter (is_deposit_request s2) (sorted_txs s2)) k1)))
          (nsum (map (fun t => cd_value (out1 t)) (txs_for_pool (List.filter (is_deposit_request s2) (sorted_txs s2)) k1))) = Ok (p'', m) ->
        p_liqs (pool_at s2 k1) + m < U128) /\
     (forall k1 p1, In k1 K -> get_pool s3 k1 = Some p1 -> p_lefts p1 < U128 /\ p_rights p1 < U128)).

Definition pool_step_ok (s : wstate) (o : hop) : Prop :=
  match o with
  | HBatch lh txs => HashOK SO s txs /\ batch_issuance (LDk SO k) txs = 0
  | HBlock a hdr => seal_premises s
  end.

Lemma next_unsealed_pools_coins s hdr :
  s_pools (next_unsealed s hdr) = s_pools s /\ s_coins (next_unsealed s hdr) = s_coins s.
Proof. unfold next_unsealed. destruct (_ && _); split; reflexivity. Qed.

Lemma backed_same a b : s_pools b = s_pools a -> s_coins b = s_coins a -> Backed a -> Backed b.
Proof.
  intros Ep Ec (p & Hp & Hl & Hb). exists p.
  assert (G: forall k1, get_pool b k1 = get_pool a k1) by (intros k1; unfold get_pool; rewrite Ep; reflexivity).
  split; [rewrite G; exact Hp|]. split; [exact Hl|].
  rewrite Ec. unfold psum, pool_at. erewrite map_ext; [exact Hb|]. intros k1. cbn beta. rewrite G. reflexivity.
Qed.

Lemma hstep_backed s o : Backed s -> pool_step_ok s o -> Backed (hstep SO s o).
Proof.
  intros B Hok. destruct o as [lh txs|a hdr]; cbn [hstep pool_step_ok] in *.
  - destruct (apply_tx_batch SO s lh txs) as [s'| |] eqn:E; [|exact B|exact B].
    destruct Hok as [HK Hiss]. destruct B as (p & Hp & Hl & Hb).
    destruct (batch_keeps_backed K SO s lh txs s' k p E HK Hiss Hp Hb) as [Hp' Hb'].
    exists p. auto.
  - destruct (seal SO s a) as [s'| |] eqn:E; [|exact B|exact B].
    destruct B as (p & Hp & Hl & Hb).
    destruct Hok as (H1 & H2 & H3 & H4 & H5 & H6 & H7 & H8).
    destruct (seal_keeps_backed_pool_live K Kcodes SO K_builtins LD_inj s a s' k p E Hk Hp Hl Hb H1 H2 H3 H4 H5 H6 H7 H8)
      as (p' & Hp' & Hl' & Hb').
    destruct (next_unsealed_pools_coins s' hdr) as [Ep Ec].
    eapply backed_same; [exact Ep|exact Ec|]. exists p'. auto.
Qed.

Theorem pool_backed_forever : forall ops s,
  Backed s -> hist_all SO pool_step_ok s ops -> Backed (fold_left (hstep SO) ops s).
Proof. apply history_invariant. exact hstep_backed. Qed.

Lemma backed_def s :
  Backed s <->
  exists p, get_pool s k = Some p /\ live p /\ coin_supply (LDk SO k) (s_coins s) + psum K (LDk SO k) s + 1 <= p_liqs p.
Proof. reflexivity. Qed.
Lemma pool_step_ok_def s o :
  pool_step_ok s o <->
  match o with
  | HBatch lh txs => HashOK SO s txs /\ batch_issuance (LDk SO k) txs = 0
  | HBlock a hdr => seal_premises s
  end.
Proof. destruct o; reflexivity. Qed.
Lemma seal_premises_def s :
  seal_premises s <->
  legacy_net s && (s_height s <? 978392) = false /\
  (forall t k1, In t (sorted_txs s) -> tx_pool t = Some k1 -> In k1 K /\ LDk SO k1 <> fst k1 /\ LDk SO k1 <> snd k1) /\
  NoDup (key_pairs (sorted_txs s)) /\
  (forall t c, In t (sorted_txs s) -> s_coins s !! key0 t = Some c -> as_declared t c (out0 t)) /\
  (forall t c, In t (sorted_txs s) -> s_coins s !! key1 t = Some c -> as_declared t c (out1 t)) /\
  nsum (map (fun t => cd_value (out0 t)) (sorted_txs s)) < U128 /\
  nsum (map (fun t => cd_value (out1 t)) (sorted_txs s)) < U128 /\
  (forall s2 s3, process_swaps (create_builtins s) = Ok s2 -> process_deposits SO s2 = Ok s3 ->
     (forall k1 p'' m, In k1 K ->
        pool_deposit (pool_at s2 k1)
          (nsum (map (fun t => cd_value (out0 t)) (txs_for_pool (List.filter (is_deposit_request s2) (sorted_txs s2)) k1)))
          (nsum (map (fun t => cd_value (out1 t)) (txs_for_pool (List.filter (is_deposit_request s2) (sorted_txs s2)) k1))) = Ok (p'', m) ->
        p_liqs (pool_at s2 k1) + m < U128) /\
     (forall k1 p1, In k1 K -> get_pool s3 k1 = Some p1 -> p_lefts p1 < U128 /\ p_rights p1 < U128)).
Proof. reflexivity. Qed.
End PoolHistory.

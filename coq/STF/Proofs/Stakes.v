(* C13: staking lock and voting power. *)
From MelVerif Require Import STF.Proofs.Tactics.
Open Scope N_scope.

Section Stakes.
Variable SO : stf_oracle.
Variable s : wstate.
Variable lh : header.

Definition legacy500 : bool := legacy_net s && (s_height s <? 500000).
Definition legacy900 : bool := legacy_net s && (s_height s <? 900000).

(* the stake a transaction registers, if any *)
Definition registers (t : tx) : option stakedoc :=
  if txkind_eqb (t_kind t) KStake && negb legacy500 then
    match t_stakedoc t, t_outputs t with
    | Some d, first :: _ =>
      if denom_eqb (cd_denom first) Sym && stake_consistent d (s_height s / STAKE_EPOCH) first then Some d else None
    | _, _ => None
    end
  else None.

(* a stake transaction that makes the whole batch malformed *)
Definition stake_tx_ok (t : tx) : bool :=
  negb (txkind_eqb (t_kind t) KStake && negb legacy500) ||
  match t_stakedoc t, t_outputs t with
  | Some _, first :: _ => denom_eqb (cd_denom first) Sym
  | _, _ => false
  end.

Definition stake_fold (txs : list tx) (acc : gmap N stakedoc) : gmap N stakedoc :=
  fold_left (fun m t => match registers t with Some d => <[t_hash t := d]> m | None => m end) txs acc.

Lemma load_stake_info_step t r acc :
  load_stake_info s (t :: r) acc =
  if stake_tx_ok t
  then load_stake_info s r (match registers t with Some d => <[t_hash t := d]> acc | None => acc end)
  else Reject EMalformed.
Proof.
  cbn [load_stake_info]. unfold stake_tx_ok, registers. fold legacy500.
  destruct (txkind_eqb (t_kind t) KStake); cbn [andb negb orb]; [|reflexivity].
  destruct legacy500; cbn [negb orb andb]; [reflexivity|].
  destruct (t_stakedoc t) as [d|]; [|reflexivity].
  destruct (t_outputs t) as [|first rest]; [reflexivity|].
  destruct (denom_eqb (cd_denom first) Sym); cbn [negb andb]; [|reflexivity].
  destruct (stake_consistent d (s_height s / STAKE_EPOCH) first); reflexivity.
Qed.

Lemma load_stake_info_spec : forall txs acc,
  load_stake_info s txs acc =
  if forallb stake_tx_ok txs then Ok (stake_fold txs acc) else Reject EMalformed.
Proof.
  induction txs as [|t r IH]; intros acc; [reflexivity|].
  rewrite load_stake_info_step. cbn [forallb stake_fold fold_left].
  destruct (stake_tx_ok t); cbn [andb]; [apply IH|reflexivity].
Qed.

(* a stake is registered only if: kind Stake, decodable document, first output SYM equal to the declared
   amount, starting in a future epoch and ending after it starts *)
Theorem registers_iff t d :
  registers t = Some d <->
  t_kind t = KStake /\ legacy500 = false /\ t_stakedoc t = Some d /\
  exists first rest, t_outputs t = first :: rest /\ cd_denom first = Sym /\
    s_height s / STAKE_EPOCH < sd_start d /\ sd_start d < sd_postend d /\ sd_staked d = cd_value first.
Proof.
  unfold registers, stake_consistent. split.
  - destruct (t_kind t) eqn:K; cbn; try discriminate.
    destruct legacy500; cbn; [discriminate|].
    destruct (t_stakedoc t) as [d'|]; [|discriminate].
    destruct (t_outputs t) as [|first rest]; [discriminate|].
    destruct (cd_denom first) eqn:D; cbn; try discriminate.
    destruct (N.ltb_spec (s_height s / STAKE_EPOCH) (sd_start d')) as [H1|]; cbn; [|discriminate].
    destruct (N.ltb_spec (sd_start d') (sd_postend d')) as [H2|]; cbn; [|discriminate].
    destruct (N.eqb_spec (sd_staked d') (cd_value first)) as [H3|]; cbn; [|discriminate].
    intros H. injection H as <-. repeat split; eauto 10.
  - intros (K & L & D & first & rest & O & Dn & H1 & H2 & H3).
    rewrite K, L, D, O, Dn. cbn.
    destruct (N.ltb_spec (s_height s / STAKE_EPOCH) (sd_start d)) as [_|?]; [|lia].
    destruct (N.ltb_spec (sd_start d) (sd_postend d)) as [_|?]; [|lia].
    rewrite H3, N.eqb_refl. reflexivity.
Qed.

(* a locked coin cannot be an input of an accepted transaction *)
Lemma check_inputs_unlocked relevant new_stakes t : forall ins idx good inc r,
  check_inputs SO s lh relevant new_stakes t idx ins good inc = Ok r ->
  forall i, In i ins -> coin_locked s new_stakes (fst i) = false.
Proof.
  induction ins as [|i0 ins IH]; intros idx good inc r H i Hin; [contradiction|].
  cbn [check_inputs] in H. inv_bind H.
  destruct Hin as [<-|Hin].
  - unfold check_input in Ha. destruct (coin_locked s new_stakes (fst i0)); [discriminate|reflexivity].
  - eapply IH; eauto.
Qed.

(* create_next_state leaves the stakes, the speed, the multiplier, the history alone *)
Lemma spend_all_frame tip : forall txs n n',
  spend_all tip txs n = Ok n' ->
  s_stakes n' = s_stakes n /\ s_fee_mult n' = s_fee_mult n /\ s_height n' = s_height n /\
  s_network n' = s_network n /\ s_history n' = s_history n /\ s_pools n' = s_pools n /\
  s_dosc_speed n' = s_dosc_speed n.
Proof.
  induction txs as [|t r IH]; intros n n' H; cbn [spend_all] in H; [injection H as <-; tauto|].
  inv_bind H as n1 H1. destruct (IH _ _ H) as (-> & -> & -> & -> & -> & -> & ->).
  unfold spend_and_pay in H1. inv_bind H1 as cn Hcn. inv_bind H1 as mf Hmf.
  destruct (t_fee t <? mf); [discriminate|]. injection H1 as <-. cbn. tauto.
Qed.

Lemma create_next_state_frame relevant tip txs n n' :
  create_next_state SO s relevant tip txs n = Ok n' ->
  s_stakes n' = s_stakes n /\ s_fee_mult n' = s_fee_mult n /\ s_height n' = s_height n /\
  s_network n' = s_network n /\ s_history n' = s_history n /\ s_pools n' = s_pools n /\
  s_dosc_speed n' = s_dosc_speed n.
Proof.
  unfold create_next_state. intros H. inv_bind H as cn Hcn.
  apply spend_all_frame in H. cbn in H. exact H.
Qed.

Lemma fold_max_ge : forall (l : list (res N)) a b, a <= b ->
  a <= fold_left (fun a r => match r with Ok v => N.max a v | _ => a end) l b.
Proof.
  induction l as [|r l IH]; intros a b Hab; cbn [fold_left]; [exact Hab|].
  apply IH. destruct r; lia.
Qed.

(* structure of an accepted batch *)
Lemma apply_tx_batch_inv txs s' :
  apply_tx_batch SO s lh txs = Ok s' ->
  exists relevant n,
    load_relevant_coins s txs = Ok relevant /\
    forallb stake_tx_ok txs = true /\
    (forall t, In t txs -> check_tx_validity SO s lh relevant (stake_fold txs ∅) t = Ok tt) /\
    (forall t, In t txs -> t_kind t = KDoscMint -> exists v, validate_doscmint SO s relevant t = Ok v) /\
    create_next_state SO s relevant (tip_906 s) txs s = Ok n /\
    s_stakes s' = stake_fold txs ∅ ∪ s_stakes s /\
    s_coins s' = s_coins n /\ s_counts s' = s_counts n /\ s_txs s' = s_txs n /\
    s_fee_pool s' = s_fee_pool n /\ s_tips s' = s_tips n /\
    s_dosc_speed s <= s_dosc_speed s'.
Proof.
  unfold apply_tx_batch. intros H.
  inv_bind H as relevant Hrel. inv_bind H as new_stakes Hst.
  rewrite load_stake_info_spec in Hst.
  destruct (forallb stake_tx_ok txs) eqn:Hok; [|discriminate]. injection Hst as <-.
  inv_bind H as u1 Hval. destruct u1. inv_bind H as u2 Hdm. destruct u2.
  inv_bind H as n Hn. injection H as <-.
  exists relevant, n. split; [exact Hrel|]. split; [reflexivity|].
  split.
  { intros t Ht. destruct (proj1 (first_error_map_ok _ _) Hval t Ht) as [[] Hv]. exact Hv. }
  split.
  { intros t Ht Hk. apply (proj1 (first_error_map_ok _ _) Hdm t).
    apply filter_In. split; [exact Ht|]. rewrite Hk. reflexivity. }
  split; [exact Hn|].
  destruct (create_next_state_frame _ _ _ _ _ Hn) as (Es & _).
  cbn [s_stakes s_coins s_counts s_txs s_fee_pool s_tips s_dosc_speed set_speed_stakes].
  rewrite Es. repeat (split; [reflexivity|]).
  (* the new speed is a maximum that starts from the old one *)
  apply fold_max_ge. lia.
Qed.

(* a batch changes neither the height, the network, the history, the pools nor the fee multiplier *)
Theorem apply_tx_batch_frame txs s' :
  apply_tx_batch SO s lh txs = Ok s' ->
  s_height s' = s_height s /\ s_network s' = s_network s /\ s_history s' = s_history s /\
  s_pools s' = s_pools s /\ s_fee_mult s' = s_fee_mult s.
Proof.
  unfold apply_tx_batch. intros H.
  inv_bind H as relevant Hrel. inv_bind H as new_stakes Hst.
  inv_bind H as u1 Hval. inv_bind H as u2 Hdm. inv_bind H as n Hn. injection H as <-.
  destruct (create_next_state_frame _ _ _ _ _ Hn) as (_ & E2 & E3 & E4 & E5 & E6 & _).
  cbn. auto.
Qed.

Theorem accepted_batch_spends_no_locked_coin txs s' :
  apply_tx_batch SO s lh txs = Ok s' ->
  forall t i, In t txs -> In i (t_inputs t) ->
  legacy900 = true \/ (s_stakes s !! fst i = None /\ stake_fold txs ∅ !! fst i = None).
Proof.
  intros H t i Ht Hi.
  destruct (apply_tx_batch_inv _ _ H) as (relevant & n & _ & _ & Hval & _).
  specialize (Hval t Ht). unfold check_tx_validity in Hval. inv_bind Hval as inc Hinc.
  pose proof (check_inputs_unlocked _ _ _ _ _ _ _ _ Hinc i Hi) as L.
  unfold coin_locked in L. fold legacy900 in L.
  destruct legacy900; [left; reflexivity|right].
  cbn [negb andb] in L. rewrite andb_true_r in L. apply orb_false_iff in L as [L1 L2].
  split.
  - destruct (s_stakes s !! fst i); [discriminate|reflexivity].
  - destruct (stake_fold txs ∅ !! fst i); [discriminate|reflexivity].
Qed.

(* the stakes after an accepted batch: exactly the old ones plus the ones the batch registers *)
Theorem accepted_batch_stakes txs s' :
  apply_tx_batch SO s lh txs = Ok s' -> s_stakes s' = stake_fold txs ∅ ∪ s_stakes s.
Proof.
  intros H. destruct (apply_tx_batch_inv _ _ H) as (relevant & n & _ & _ & _ & _ & _ & E & _). exact E.
Qed.

(* the DOSC speed never decreases *)
Theorem accepted_batch_speed_monotone txs s' :
  apply_tx_batch SO s lh txs = Ok s' -> s_dosc_speed s <= s_dosc_speed s'.
Proof.
  intros H. destruct (apply_tx_batch_inv _ _ H) as (relevant & n & Hx). tauto.
Qed.
End Stakes.

(* lifetime: at every block boundary exactly the stakes with e_post_end >= new epoch survive *)
Theorem unlock_old_lookup epoch st k d :
  unlock_old epoch st !! k = Some d <-> st !! k = Some d /\ epoch <= sd_postend d.
Proof. unfold unlock_old. rewrite map_filter_lookup_Some. cbn. reflexivity. Qed.

Theorem next_unsealed_stakes s hdr k d :
  s_stakes (next_unsealed s hdr) !! k = Some d <->
  s_stakes s !! k = Some d /\ (s_height s + 1) / STAKE_EPOCH <= sd_postend d.
Proof.
  unfold next_unsealed.
  destruct (tip_906 _ && negb (tip_906 s)); cbn [s_stakes set_coins]; apply unlock_old_lookup.
Qed.

(* so a stake with end field e is still locked in every block of epoch e and free from epoch e+1 on *)
Corollary stake_lifetime s hdr k d :
  s_stakes s !! k = Some d ->
  (s_stakes (next_unsealed s hdr) !! k = Some d <-> (s_height s + 1) / STAKE_EPOCH <= sd_postend d).
Proof. intros H. rewrite next_unsealed_stakes. tauto. Qed.

Lemma votes_def st epoch key :
  votes st epoch key =
  map_fold (fun _ d acc => if (sd_start d <=? epoch) && (epoch <? sd_postend d) && (sd_pubkey d =? key)
                           then acc + sd_staked d else acc) 0 st.
Proof. reflexivity. Qed.

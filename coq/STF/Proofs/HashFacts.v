(* The hash-oracle assumptions under which whole-batch theorems are stated, in one place, and what follows
   from them.  Transaction hashes, coin ids and faucet markers are oracle values in the model; the real
   code relies on the collision resistance of its hash function for exactly these facts. *)
From MelVerif Require Import STF.Proofs.Tactics STF.Proofs.MapLemmas STF.Proofs.Stakes STF.Proofs.Faucet STF.Proofs.Coins.
Open Scope N_scope.

(* ---- lists without duplicates *)
Lemma NoDup_flat_map_inj {A} (f : A -> list N) : forall l x y k,
  NoDup (flat_map f l) -> In x l -> In y l -> In k (f x) -> In k (f y) -> x = y.
Proof.
  induction l as [|a l IH]; intros x y k Hnd Hx Hy Hkx Hky; [contradiction|].
  cbn [flat_map] in Hnd. apply NoDup_ListNoDup in Hnd. apply NoDup_app in Hnd as (Ha & Hdisj & Hl).
  apply NoDup_ListNoDup in Hl.
  assert (Hin: forall z, In z l -> In k (f z) -> k ∈ flat_map f l).
  { intros z Hz Hkz. apply elem_of_list_In, in_flat_map. eauto. }
  destruct Hx as [->|Hx], Hy as [->|Hy].
  - reflexivity.
  - exfalso. apply (Hdisj k); [apply elem_of_list_In; exact Hkx|eauto].
  - exfalso. apply (Hdisj k); [apply elem_of_list_In; exact Hky|eauto].
  - eapply IH; eauto.
Qed.

Lemma NoDup_map_inj {A} (f : A -> N) : forall l x y,
  NoDup (map f l) -> In x l -> In y l -> f x = f y -> x = y.
Proof.
  induction l as [|a l IH]; intros x y Hnd Hx Hy E; [contradiction|].
  cbn [map] in Hnd. inversion Hnd as [|? ? Hna Hnd']; subst.
  destruct Hx as [->|Hx], Hy as [->|Hy].
  - reflexivity.
  - exfalso. apply Hna. rewrite E. apply in_map. exact Hy.
  - exfalso. apply Hna. rewrite <- E. apply in_map. exact Hx.
  - eapply IH; eauto.
Qed.

Lemma NoDup_flat_map_part {A} (f : A -> list N) : forall l x, NoDup (flat_map f l) -> In x l -> NoDup (f x).
Proof.
  induction l as [|a l IH]; intros x Hnd Hx; [contradiction|].
  cbn [flat_map] in Hnd. apply NoDup_ListNoDup in Hnd. apply NoDup_app in Hnd as (Ha & _ & Hl).
  destruct Hx as [->|Hx]; [apply NoDup_ListNoDup; exact Ha|]. apply IH; [apply NoDup_ListNoDup; exact Hl|exact Hx].
Qed.


Lemma hash_inj (txs : list tx) t1 t2 : NoDup (map t_hash txs) -> In t1 txs -> In t2 txs -> t_hash t1 = t_hash t2 -> t1 = t2.
Proof. intros Hnd H1 H2 E. eapply (NoDup_map_inj t_hash); eauto. Qed.

Section HashFacts.
Variable SO : stf_oracle.
Variable s : wstate.

Definition is_faucet (t : tx) : bool := txkind_eqb (t_kind t) KFaucet.

Record HashOK (txs : list tx) : Prop := {
  (* distinct members of a batch have distinct hashes *)
  hk_nodup : NoDup (map t_hash txs);
  (* the hash of a new transaction is not the hash of a transaction that created a coin of the state *)
  hk_fresh : forall t i, In t txs -> i < 256 -> s_coins s !! coin_key (t_hash t) i = None;
  (* a faucet marker id is neither a transaction hash of the batch nor spent by the batch *)
  hk_marker_tx : forall t t', In t txs -> In t' txs -> so_faucet_marker SO (t_hash t) <> t_hash t';
  hk_marker_in : forall t t' i, In t txs -> In t' txs -> In i (t_inputs t') -> marker_key SO t <> input_key i;
  (* different hashes have different markers *)
  hk_marker_inj : forall t t', In t txs -> In t' txs ->
     so_faucet_marker SO (t_hash t) = so_faucet_marker SO (t_hash t') -> t_hash t = t_hash t'
}.

Lemma HashOK_perm txs1 txs2 : Permutation txs1 txs2 -> HashOK txs1 -> HashOK txs2.
Proof.
  intros P [H1 H2 H3 H4 H5].
  assert (Hin: forall t, In t txs2 -> In t txs1) by (intros t; apply Permutation_in, Permutation_sym, P).
  constructor.
  - eapply Permutation_NoDup; [apply Permutation_map; exact P|exact H1].
  - intros t i Ht Hi. apply H2; auto.
  - intros t t' Ht Ht'. apply H3; auto.
  - intros t t' i Ht Ht'. apply H4; auto.
  - intros t t' Ht Ht'. apply H5; auto.
Qed.

(* ---- coin ids *)
Lemma coin_key_inj h1 i1 h2 i2 : i1 < 256 -> i2 < 256 -> coin_key h1 i1 = coin_key h2 i2 -> h1 = h2 /\ i1 = i2.
Proof. unfold coin_key. intros. split; nia. Qed.

Lemma enumerate_range {A} : forall (l : list A) a i o, In (i, o) (enumerate a l) -> a <= i < a + N.of_nat (length l).
Proof.
  induction l as [|x l IH]; intros a i o H; cbn [enumerate] in H; [contradiction|].
  destruct H as [E|H]; [injection E as <- <-; cbn [length]; lia|].
  apply IH in H. cbn [length]. lia.
Qed.

Lemma enumerate_fst_nodup {A} : forall (l : list A) a, NoDup (map fst (enumerate a l)).
Proof.
  induction l as [|x l IH]; intros a; cbn [enumerate map fst]; constructor; [|apply IH].
  intros Hin. apply in_map_iff in Hin as ([i o] & E & Hin). cbn [fst] in E. subst i.
  apply enumerate_range in Hin. lia.
Qed.

Definition key_of (t : tx) (io : N * coindata) : N := coin_key (t_hash t) (fst io mod 256).
Definition out_keys (txs : list tx) : list N :=
  flat_map (fun t => map (key_of t) (enumerate 0 (t_outputs t))) txs.

Definition short_outputs (txs : list tx) : Prop := forall t, In t txs -> N.of_nat (length (t_outputs t)) <= 256.

Lemma well_formed_short txs : (forall t, In t txs -> well_formed t = true) -> short_outputs txs.
Proof.
  intros H t Ht. specialize (H t Ht). unfold well_formed in H.
  apply andb_true_iff in H as [_ H]. apply N.leb_le in H. lia.
Qed.

Lemma tx_keys_nodup t : N.of_nat (length (t_outputs t)) <= 256 -> NoDup (map (key_of t) (enumerate 0 (t_outputs t))).
Proof.
  intros Hlen.
  assert (G: forall l : list (N * coindata), NoDup (map fst l) -> (forall io, In io l -> fst io < 256) -> NoDup (map (key_of t) l)).
  { induction l as [|[i o] l IH]; intros Hnd Hr; cbn [map]; constructor.
    - intros Hin. apply in_map_iff in Hin as ([i' o'] & E & Hin). unfold key_of in E. cbn [fst] in E.
      pose proof (Hr (i, o) (or_introl eq_refl)) as R1. pose proof (Hr (i', o') (or_intror Hin)) as R2. cbn [fst] in R1, R2.
      rewrite !N.mod_small in E by assumption.
      apply coin_key_inj in E as [_ E]; [|assumption|assumption]. subst i'.
      cbn [map fst] in Hnd. inversion Hnd as [|? ? Hni _]; subst. apply Hni. apply (in_map fst) in Hin. exact Hin.
    - apply IH; [cbn [map] in Hnd; inversion Hnd; assumption|]. intros io Hio. apply Hr. right. exact Hio. }
  apply G; [apply enumerate_fst_nodup|].
  intros [i o] Hio. apply enumerate_range in Hio. cbn [fst]. lia.
Qed.

Lemma key_of_hash t t' io io' : key_of t io = key_of t' io' -> t_hash t = t_hash t'.
Proof.
  unfold key_of. intros E. apply coin_key_inj in E as [E _]; [exact E| |]; apply N.mod_lt; discriminate.
Qed.

Lemma out_keys_nodup txs : NoDup (map t_hash txs) -> short_outputs txs -> NoDup (out_keys txs).
Proof.
  induction txs as [|t txs IH]; intros Hnd Hs; cbn [out_keys flat_map]; [constructor|].
  cbn [map] in Hnd. inversion Hnd as [|? ? Hni Hnd']; subst.
  apply NoDup_ListNoDup, NoDup_app. split; [|split].
  - apply NoDup_ListNoDup, tx_keys_nodup, Hs. left. reflexivity.
  - intros k Hk Hk'. apply elem_of_list_In in Hk, Hk'.
    apply in_map_iff in Hk as (io & <- & _).
    apply in_flat_map in Hk' as (t' & Ht' & Hk'). apply in_map_iff in Hk' as (io' & E & _).
    apply key_of_hash in E. apply Hni. rewrite <- E. apply in_map. exact Ht'.
  - apply NoDup_ListNoDup, IH; [exact Hnd'|]. intros t' Ht'. apply Hs. right. exact Ht'.
Qed.

Lemma in_out_keys txs t io : In t txs -> In io (enumerate 0 (t_outputs t)) -> In (key_of t io) (out_keys txs).
Proof. intros Ht Hio. unfold out_keys. apply in_flat_map. exists t. split; [exact Ht|]. apply (in_map (key_of t)). exact Hio. Qed.

Lemma out_keys_inv txs k : In k (out_keys txs) -> exists t io, In t txs /\ In io (enumerate 0 (t_outputs t)) /\ k = key_of t io.
Proof.
  unfold out_keys. intros H. apply in_flat_map in H as (t & Ht & H). apply in_map_iff in H as (io & <- & Hio). eauto.
Qed.

Section Derived.
Variable txs : list tx.
Hypothesis HK : HashOK txs.
Hypothesis Hshort : short_outputs txs.

Lemma hk_out_nodup : NoDup (out_keys txs).
Proof. apply out_keys_nodup; [apply (hk_nodup _ HK)|exact Hshort]. Qed.

Lemma hk_out_fresh k : In k (out_keys txs) -> s_coins s !! k = None.
Proof. intros H. apply out_keys_inv in H as (t & io & Ht & _ & ->). apply (hk_fresh _ HK); [exact Ht|apply N.mod_lt; discriminate]. Qed.

Lemma hk_marker_not_out t : In t txs -> ~ In (marker_key SO t) (out_keys txs).
Proof.
  intros Ht H. apply out_keys_inv in H as (t' & io & Ht' & _ & E).
  unfold marker_key, key_of in E. apply coin_key_inj in E as [E _]; [|lia|apply N.mod_lt; discriminate].
  eapply (hk_marker_tx _ HK t t'); eauto.
Qed.

Lemma hk_marker_not_input t : In t txs -> ~ In (marker_key SO t) (all_inputs txs).
Proof.
  intros Ht H. unfold all_inputs in H. apply in_flat_map in H as (t' & Ht' & H).
  apply in_map_iff in H as (i & E & Hi). symmetry in E. exact (hk_marker_in _ HK t t' i Ht Ht' Hi E).
Qed.

(* markers of different faucets of the batch differ *)
Lemma hk_marker_distinct t t' : In t txs -> In t' txs -> marker_key SO t = marker_key SO t' -> t_hash t = t_hash t'.
Proof.
  intros Ht Ht' E. unfold marker_key in E. apply coin_key_inj in E as [E _]; [|lia|lia].
  eapply (hk_marker_inj _ HK); eauto.
Qed.

(* ---- the bindings a batch inserts have pairwise distinct, new keys *)
Variable relevant : gmap N cdh.

Lemma insert_key_cases t k :
  In k (map fst (tx_inserts SO relevant t)) ->
  (is_faucet t && negb (is_bug_tx t) = true /\ k = marker_key SO t) \/
  (exists io, In io (enumerate 0 (t_outputs t)) /\ k = key_of t io).
Proof.
  intros H. apply in_map_iff in H as ([k' c] & E & H). cbn [fst] in E. subst k'.
  apply in_tx_inserts in H as [(Hf & -> & _)|(i & o & Hio & -> & _)]; [left; auto|right; exists (i, o); auto].
Qed.

Lemma outs_part_nodup t : forall l : list (N * coindata),
  NoDup (map (key_of t) l) ->
  NoDup (map fst (flat_map (fun '(i, _) =>
        let k := coin_key (t_hash t) (i mod 256) in
        match relevant !! k with Some c => [(k, c)] | None => [] end) l)).
Proof.
  induction l as [|[i o] l IH]; intros Hnd; cbn [flat_map map]; [constructor|].
  cbn [map] in Hnd. inversion Hnd as [|? ? Hni Hnd']; subst.
  destruct (relevant !! coin_key (t_hash t) (i mod 256)) as [c|]; cbn [app map fst]; [|apply IH; exact Hnd'].
  constructor; [|apply IH; exact Hnd'].
  intros Hin. apply Hni. apply in_map_iff in Hin as ([k c'] & E & Hin). cbn [fst] in E. subst k.
  apply in_flat_map in Hin as ([i' o'] & Hio' & Hin).
  destruct (relevant !! coin_key (t_hash t) (i' mod 256)); [|contradiction].
  destruct Hin as [E|[]]. injection E as E _.
  apply in_map_iff. exists (i', o'). split; [|exact Hio']. unfold key_of. cbn [fst]. exact E.
Qed.

Lemma tx_inserts_nodup t : In t txs -> NoDup (map fst (tx_inserts SO relevant t)).
Proof.
  intros Ht. unfold tx_inserts. rewrite map_app. apply NoDup_ListNoDup, NoDup_app. split; [|split].
  - destruct (_ && _); cbn [map]; apply NoDup_ListNoDup; repeat constructor. intros [].
  - intros k Hk Hk'. apply elem_of_list_In in Hk, Hk'.
    destruct (txkind_eqb (t_kind t) KFaucet && negb (is_bug_tx t)); [|contradiction].
    destruct Hk as [<-|[]]. cbn [fst] in Hk'.
    apply in_map_iff in Hk' as ([k c] & E & Hk'). cbn [fst] in E. subst k.
    apply in_flat_map in Hk' as ([i o] & Hio & Hk').
    destruct (relevant !! coin_key (t_hash t) (i mod 256)); [|contradiction]. destruct Hk' as [E|[]]. injection E as E _.
    apply (hk_marker_not_out t Ht). rewrite <- E. apply (in_out_keys txs t (i, o) Ht Hio).
  - apply NoDup_ListNoDup, outs_part_nodup, tx_keys_nodup, Hshort, Ht.
Qed.
End Derived.

Lemma batch_inserts_nodup relevant : forall txs, HashOK txs -> short_outputs txs ->
  NoDup (map fst (flat_map (tx_inserts SO relevant) txs)).
Proof.
  intros txs HK Hs.
  assert (G: forall l, (forall t, In t l -> In t txs) -> NoDup (map t_hash l) ->
             NoDup (map fst (flat_map (tx_inserts SO relevant) l))).
  { induction l as [|t l IH]; intros Hsub Hnd; cbn [flat_map map]; [constructor|].
    cbn [map] in Hnd. inversion Hnd as [|? ? Hni Hnd']; subst.
    rewrite map_app. apply NoDup_ListNoDup, NoDup_app. split; [|split].
    - apply NoDup_ListNoDup, (tx_inserts_nodup txs HK Hs). apply Hsub. left. reflexivity.
    - intros k Hk Hk'. apply elem_of_list_In in Hk, Hk'.
      apply in_map_iff in Hk' as ([k' c'] & E & Hk'). cbn [fst] in E. subst k'.
      apply in_flat_map in Hk' as (t' & Ht' & Hk').
      assert (Hk2: In k (map fst (tx_inserts SO relevant t'))) by (apply in_map_iff; exists (k, c'); auto).
      assert (Htt: In t txs) by (apply Hsub; left; reflexivity).
      assert (Htt': In t' txs) by (apply Hsub; right; exact Ht').
      assert (Hne: t_hash t <> t_hash t') by (intros E; apply Hni; rewrite E; apply in_map; exact Ht').
      apply insert_key_cases in Hk as [(_ & E1)|(io & Hio & E1)]; apply insert_key_cases in Hk2 as [(_ & E2)|(io' & Hio' & E2)].
      + apply Hne. apply (hk_marker_distinct txs HK t t' Htt Htt'). congruence.
      + apply (hk_marker_not_out txs HK t Htt). rewrite <- E1, E2. apply in_out_keys; assumption.
      + apply (hk_marker_not_out txs HK t' Htt'). rewrite <- E2, E1. apply in_out_keys; assumption.
      + apply Hne. eapply key_of_hash. rewrite <- E1, <- E2. reflexivity.
    - apply NoDup_ListNoDup, IH; [|exact Hnd']. intros t' Ht'. apply Hsub. right. exact Ht'. }
  apply G; [auto|apply (hk_nodup _ HK)].
Qed.
End HashFacts.

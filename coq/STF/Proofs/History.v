(* Invariants of every reachable state: a history is any sequence of batch applications (accepted or not)
   and block boundaries (seal, then the next unsealed state).  C20: the per-covenant counts are right in
   every state of every history that starts in a right state. *)
From MelVerif Require Import STF.Proofs.Tactics STF.Proofs.MapLemmas STF.Proofs.Frame STF.Proofs.Stakes STF.Proofs.Faucet
  STF.Proofs.Coins STF.Proofs.Counts STF.Proofs.SealCoins STF.Proofs.HashFacts STF.Proofs.BatchSupply
  STF.Proofs.PermAccept STF.Proofs.SealCounts.
From Coq Require Import ZifyN ZifyNat ZifyBool.
Open Scope N_scope.

Lemma ins_all_some {A} : forall (l : list (N * A)) m k c,
  ins_all l m !! k = Some c -> In (k, c) l \/ m !! k = Some c.
Proof.
  induction l as [|[k' v] l IH]; intros m k c H; [right; exact H|].
  change (ins_all ((k', v) :: l) m) with (ins_all l (<[k' := v]> m)) in H.
  apply IH in H as [H|H]; [left; right; exact H|].
  destruct (N.eq_dec k' k) as [->|Hne].
  - rewrite lookup_insert in H. injection H as ->. left. left. reflexivity.
  - rewrite lookup_insert_ne in H by exact Hne. right. exact H.
Qed.

Lemma enumerate_nth {A} (d : A) : forall (l : list A) a i o,
  In (i, o) (enumerate a l) -> o = nth (N.to_nat (i - a)) l d.
Proof.
  induction l as [|x l IH]; intros a i o H; cbn [enumerate] in H; [contradiction|].
  destruct H as [E|H].
  - injection E as <- <-. rewrite N.sub_diag. reflexivity.
  - pose proof (enumerate_range _ _ _ _ H) as R. rewrite (IH _ _ _ H).
    replace (N.to_nat (i - a)) with (S (N.to_nat (i - (a + 1)))) by lia. reflexivity.
Qed.

Definition dflt_cd : coindata := {| cd_covhash := 0; cd_value := 0; cd_denom := Mel; cd_extra := [] |}.

(* the transaction set after a batch *)
Definition file_txs (txs : list tx) (m : gmap N tx) : gmap N tx := fold_left (fun m t => <[t_hash t := t]> m) txs m.

Lemma file_txs_lookup : forall txs m h t,
  file_txs txs m !! h = Some t -> (In t txs /\ t_hash t = h) \/ (m !! h = Some t /\ ~ In h (map t_hash txs)).
Proof.
  induction txs as [|x txs IH]; intros m h t H; [right; split; [exact H|intros []]|].
  cbn [file_txs fold_left] in H. apply IH in H as [[H1 H2]|[H1 H2]].
  - left. split; [right; exact H1|exact H2].
  - destruct (N.eq_dec (t_hash x) h) as [E|Hne].
    + rewrite E, lookup_insert in H1. injection H1 as ->. left. split; [left; reflexivity|exact E].
    + rewrite lookup_insert_ne in H1 by exact Hne. right. split; [exact H1|].
      cbn [map]. intros [E|Hin]; [exact (Hne E)|exact (H2 Hin)].
Qed.

Section Batch.
Variable SO : stf_oracle.

Lemma spend_all_txs tip : forall txs n n', spend_all tip txs n = Ok n' -> s_txs n' = file_txs txs (s_txs n).
Proof.
  induction txs as [|t rest IH]; intros n n' H; cbn [spend_all] in H.
  - injection H as <-. reflexivity.
  - inv_bind H as n1 H1. rewrite (IH _ _ H). cbn [file_txs fold_left]. f_equal.
    unfold spend_and_pay in H1. inv_bind H1 as cn Hcn. inv_bind H1 as mf Hmf.
    destruct (t_fee t <? mf); [discriminate|]. injection H1 as <-. reflexivity.
Qed.

Lemma remove_coins_false_counts : forall ks cn r, remove_coins false ks cn = Ok r -> snd r = snd cn.
Proof.
  induction ks as [|k ks IH]; intros cn r H; cbn [remove_coins] in H.
  - injection H as <-. reflexivity.
  - inv_bind H as cn1 H1. rewrite (IH _ _ H). destruct cn as [a b]. cbn in H1. injection H1 as <-. reflexivity.
Qed.

Lemma spend_all_false_counts : forall txs n n', spend_all false txs n = Ok n' -> s_counts n' = s_counts n.
Proof.
  induction txs as [|t rest IH]; intros n n' H; cbn [spend_all] in H.
  - injection H as <-. reflexivity.
  - inv_bind H as n1 H1. rewrite (IH _ _ H).
    unfold spend_and_pay in H1. inv_bind H1 as cn Hcn. inv_bind H1 as mf Hmf.
    destruct (t_fee t <? mf); [discriminate|]. injection H1 as <-. cbn [s_counts set_txs set_fees set_coins].
    apply remove_coins_false_counts in Hcn. exact Hcn.
Qed.

Variable s : wstate.
Variable lh : header.
Variable txs : list tx.
Variable s' : wstate.
Hypothesis Hacc : apply_tx_batch SO s lh txs = Ok s'.

Lemma batch_txs : s_txs s' = file_txs txs (s_txs s).
Proof.
  destruct (apply_tx_batch_inv _ _ _ _ _ Hacc) as (relevant & n & _ & _ & _ & _ & Hn & _ & _ & _ & Et & _).
  rewrite Et. unfold create_next_state in Hn. inv_bind Hn as cn Hcn.
  rewrite (spend_all_txs _ _ _ _ Hn). reflexivity.
Qed.

Lemma batch_net_height : s_network s' = s_network s /\ s_height s' = s_height s.
Proof.
  pose proof (apply_tx_batch_frame _ _ _ _ _ Hacc) as F. tauto.
Qed.

Lemma batch_tip906 : tip_906 s' = tip_906 s.
Proof. destruct batch_net_height as [E1 E2]. unfold tip_906, tip_condition. rewrite E1, E2. reflexivity. Qed.

(* hash-oracle assumptions of the batch, plus: a faucet marker of the batch is not the hash of a transaction
   already filed in this block *)
Hypothesis HK : HashOK SO s txs.
Hypothesis Hmold : forall t t', In t txs -> In t' (sorted_txs s) -> so_faucet_marker SO (t_hash t) <> t_hash t'.

Lemma batch_txkeyed : TxKeyed s -> TxKeyed s'.
Proof.
  intros K h t H. rewrite batch_txs in H. apply file_txs_lookup in H as [[_ E]|[H _]]; [exact E|apply (K _ _ H)].
Qed.

Lemma batch_cinv : CInv s -> CInv s'.
Proof.
  unfold CInv. rewrite batch_tip906. destruct (tip_906 s) eqn:T; intros C.
  - eapply accepted_batch_counts_hash; eauto.
  - destruct (apply_tx_batch_inv _ _ _ _ _ Hacc) as (relevant & n & _ & _ & _ & _ & Hn & _ & _ & En & _).
    rewrite En. unfold create_next_state in Hn. rewrite T in Hn. inv_bind Hn as cn Hcn.
    rewrite (spend_all_false_counts _ _ _ Hn). cbn [s_counts set_coins].
    rewrite (insert_all_pairs _ _ _ _ _ _ _ Hcn), ins_pairs_false_counts. exact C.
Qed.

(* a coin of the new state at an output id of a transaction of the batch is that output *)
Lemma batch_coin_at_output_data t i c :
  In t txs -> i < 256 -> s_coins s' !! coin_key (t_hash t) i = Some c ->
  i < N.of_nat (length (t_outputs t)) /\
  cd_covhash (c_data c) = cd_covhash (nth (N.to_nat i) (t_outputs t) dflt_cd) /\
  cd_value (c_data c) = cd_value (nth (N.to_nat i) (t_outputs t) dflt_cd) /\
  cd_denom (c_data c) = fix_denom t (cd_denom (nth (N.to_nat i) (t_outputs t) dflt_cd)).
Proof.
  intros Ht Hi Hc.
  destruct (accepted_batch_coins _ _ _ _ _ Hacc) as (relevant & Hrel & Ec).
  destruct (load_relevant_coins_spec _ _ _ Hrel) as (Hwf & _).
  assert (Hs: short_outputs txs) by (apply well_formed_short; intros t0 Ht0; apply Hwf; exact Ht0).
  rewrite Ec in Hc.
  destruct (in_dec N.eq_dec (coin_key (t_hash t) i) (all_inputs txs)) as [Hin|Hin];
    [rewrite del_all_in in Hc by exact Hin; discriminate|].
  rewrite del_all_notin in Hc by exact Hin.
  apply ins_all_some in Hc as [Hc|Hc]; [|rewrite (hk_fresh _ _ _ HK t i Ht Hi) in Hc; discriminate].
  apply in_flat_map in Hc as (t2 & Ht2 & Hc).
  apply in_tx_inserts in Hc as [(_ & E & _)|(j & o & Hjo & E & Hr)].
  - exfalso. unfold marker_key in E. apply coin_key_inj in E as [E _]; [|exact Hi|lia].
    symmetry in E. exact (hk_marker_tx _ _ _ HK t2 t Ht2 Ht E).
  - pose proof (enumerate_range _ _ _ _ Hjo) as Rj.
    assert (Hlen: N.of_nat (length (t_outputs t2)) <= 256) by (apply Hs; exact Ht2).
    rewrite N.mod_small in E by lia.
    apply coin_key_inj in E as [Eh Ei]; [|exact Hi|lia]. subst j.
    assert (t2 = t) by (eapply hash_inj; [apply (hk_nodup _ _ _ HK)|exact Ht2|exact Ht|congruence]). subst t2.
    split; [lia|].
    pose proof (relevant_at s txs relevant Hrel (hk_out_nodup SO s txs HK Hs) (hk_out_fresh SO s txs HK) t (i, o) Ht Hjo) as Er.
    unfold key_of in Er. cbn [fst snd] in Er. rewrite N.mod_small in Er by exact Hi.
    rewrite Er in Hr.
    destruct (cd_covhash o =? 0); [discriminate|]. injection Hr as <-. cbn [coin_of c_data cd_covhash cd_value cd_denom].
    rewrite (enumerate_nth dflt_cd _ _ _ _ Hjo).
    rewrite N.sub_0_r. auto.
Qed.
Lemma batch_coin_at_output t i c :
  In t txs -> i < 256 -> s_coins s' !! coin_key (t_hash t) i = Some c ->
  i < N.of_nat (length (t_outputs t)) /\ cd_covhash (c_data c) = cd_covhash (nth (N.to_nat i) (t_outputs t) dflt_cd).
Proof. intros Ht Hi Hc. destruct (batch_coin_at_output_data t i c Ht Hi Hc) as (A & B & _). auto. Qed.

(* a coin of the new state at an id that is no output id and no marker of the batch was there before *)
Lemma batch_coin_elsewhere k c :
  (forall t i, In t txs -> i < 256 -> k <> coin_key (t_hash t) i) ->
  (forall t, In t txs -> k <> marker_key SO t) ->
  s_coins s' !! k = Some c -> s_coins s !! k = Some c.
Proof.
  intros Hno Hnm Hc.
  destruct (accepted_batch_coins _ _ _ _ _ Hacc) as (relevant & Hrel & Ec).
  rewrite Ec in Hc.
  destruct (in_dec N.eq_dec k (all_inputs txs)) as [Hin|Hin]; [rewrite del_all_in in Hc by exact Hin; discriminate|].
  rewrite del_all_notin in Hc by exact Hin.
  apply ins_all_some in Hc as [Hc|Hc]; [exfalso|exact Hc].
  apply in_flat_map in Hc as (t2 & Ht2 & Hc).
  apply in_tx_inserts in Hc as [(_ & E & _)|(j & o & Hjo & E & Hr)].
  - exact (Hnm t2 Ht2 E).
  - apply (Hno t2 (j mod 256) Ht2); [apply N.mod_lt; discriminate|exact E].
Qed.

Lemma batch_outcov : TxKeyed s -> OutCov s -> OutCov s'.
Proof.
  intros K O t Ht. apply in_sorted_txs in Ht as (h & Hh). rewrite batch_txs in Hh.
  apply file_txs_lookup in Hh as [[Ht Eh]|[Hold Hnew]].
  - (* a transaction of this batch *)
    split; intros c Hc.
    + destruct (batch_coin_at_output t 0 c Ht ltac:(lia) Hc) as [_ E]. exact E.
    + destruct (batch_coin_at_output t 1 c Ht ltac:(lia) Hc) as [Hl E]. unfold cov1.
      destruct (N.eqb_spec (N.of_nat (length (t_outputs t))) 1) as [E1|_]; [lia|exact E].
  - (* a transaction filed earlier in the block *)
    assert (Hts: In t (sorted_txs s)) by (apply in_sorted_txs; eauto).
    pose proof (K _ _ Hold) as Eh.
    assert (Hno: forall i0, i0 < 256 -> forall t2 i2, In t2 txs -> i2 < 256 -> coin_key (t_hash t) i0 <> coin_key (t_hash t2) i2).
    { intros i0 Hi0 t2 i2 Ht2 Hi2 E. apply coin_key_inj in E as [E _]; [|exact Hi0|exact Hi2].
      apply Hnew. rewrite <- Eh, E. apply in_map. exact Ht2. }
    assert (Hnm: forall i0, i0 < 256 -> forall t2, In t2 txs -> coin_key (t_hash t) i0 <> marker_key SO t2).
    { intros i0 Hi0 t2 Ht2 E. unfold marker_key in E. apply coin_key_inj in E as [E _]; [|exact Hi0|lia].
      symmetry in E. exact (Hmold t2 t Ht2 Hts E). }
    split; intros c Hc.
    + apply (O t Hts). apply batch_coin_elsewhere; [apply (Hno 0); lia|apply (Hnm 0); lia|exact Hc].
    + apply (O t Hts). apply batch_coin_elsewhere; [apply (Hno 1); lia|apply (Hnm 1); lia|exact Hc].
Qed.

Theorem batch_good : Good s -> Good s'.
Proof.
  intros (K & C & O). split; [apply batch_txkeyed; exact K|]. split; [apply batch_cinv; exact C|].
  apply batch_outcov; assumption.
Qed.
End Batch.

(* ---- block boundary *)
Lemma tip_cond_next s hdr act : tip_condition s act = true -> tip_condition (next_unsealed s hdr) act = true.
Proof.
  assert (E: forall n, tip_condition n act = (if act =? U64MAX then false
              else if s_network n =? MAINNET then act <=? s_height n
              else if s_network n =? TESTNET then 500 <=? s_height n else true)) by reflexivity.
  assert (Hn: s_network (next_unsealed s hdr) = s_network s /\ s_height (next_unsealed s hdr) = s_height s + 1).
  { unfold next_unsealed. destruct (_ && _); cbn; auto. }
  destruct Hn as [N1 N2]. rewrite !E, N1, N2.
  destruct (act =? U64MAX); [auto|]. destruct (s_network s =? MAINNET); [lia|].
  destruct (s_network s =? TESTNET); [lia|auto].
Qed.

Definition next_raw (s : wstate) (hdr : header) : wstate :=
  {| s_network := s_network s; s_height := s_height s + 1;
     s_history := <[s_height s := hdr]> (s_history s);
     s_coins := s_coins s; s_counts := s_counts s; s_txs := ∅;
     s_fee_pool := s_fee_pool s; s_fee_mult := s_fee_mult s; s_tips := s_tips s;
     s_dosc_speed := s_dosc_speed s; s_pools := s_pools s;
     s_stakes := unlock_old ((s_height s + 1) / STAKE_EPOCH) (s_stakes s) |}.
Lemma next_unsealed_eq s hdr :
  next_unsealed s hdr =
  if tip_906 (next_raw s hdr) && negb (tip_906 s)
  then set_coins (next_raw s hdr) (s_coins s) (tip906_transition (s_coins s) (s_counts s))
  else next_raw s hdr.
Proof. reflexivity. Qed.

Lemma next_unsealed_good s hdr : CInv s -> Good (next_unsealed s hdr).
Proof.
  intros C.
  assert (Etx: s_txs (next_unsealed s hdr) = ∅) by (unfold next_unsealed; destruct (_ && _); reflexivity).
  split; [intros h t H; rewrite Etx, lookup_empty in H; discriminate|].
  split.
  - unfold CInv in *. pose proof (tip_cond_next s hdr TIP_906_HEIGHT) as Hm. fold (tip_906 s) in Hm.
    fold (tip_906 (next_unsealed s hdr)) in Hm. rewrite next_unsealed_eq in *.
    destruct (tip_906 s) eqn:T.
    + rewrite andb_false_r in *. rewrite (Hm eq_refl). exact C.
    + clear Hm. rewrite andb_true_r. destruct (tip_906 (next_raw s hdr)) eqn:Eb.
      * change (tip_906 (set_coins (next_raw s hdr) (s_coins s) (tip906_transition (s_coins s) (s_counts s))))
          with (tip_906 (next_raw s hdr)). rewrite Eb. cbn [s_coins s_counts set_coins]. rewrite C.
        apply tip906_transition_counts_ok.
      * rewrite Eb. exact C.
  - intros t Ht. apply in_sorted_txs in Ht as (h & Hh). rewrite Etx, lookup_empty in Hh. discriminate.
Qed.

(* ---- histories *)
Section History.
Variable SO : stf_oracle.

Inductive hop :=
| HBatch (lh : header) (txs : list tx)            (* apply_tx_batch; a rejected batch leaves the state alone *)
| HBlock (a : option action) (hdr : header).      (* seal, then next_unsealed *)

Definition hstep (s : wstate) (o : hop) : wstate :=
  match o with
  | HBatch lh txs => match apply_tx_batch SO s lh txs with Ok s' => s' | _ => s end
  | HBlock a hdr => match seal SO s a with Ok s' => next_unsealed s' hdr | _ => s end
  end.

(* the hash-oracle assumptions of one step, in the state it is applied to *)
Definition reward_fresh (s : wstate) : Prop :=
  s_coins s !! coin_key (so_reward_id SO (s_height s)) 0 = None /\
  forall t, In t (sorted_txs s) -> so_reward_id SO (s_height s) <> t_hash t.
Definition step_ok (s : wstate) (o : hop) : Prop :=
  match o with
  | HBatch lh txs => HashOK SO s txs /\
      forall t t', In t txs -> In t' (sorted_txs s) -> so_faucet_marker SO (t_hash t) <> t_hash t'
  | HBlock a hdr => a <> None -> reward_fresh s
  end.
(* a step predicate holds at every step of a history, each time in the state the step is applied to *)
Fixpoint hist_all (ok : wstate -> hop -> Prop) (s : wstate) (ops : list hop) : Prop :=
  match ops with [] => True | o :: r => ok s o /\ hist_all ok (hstep s o) r end.
Definition hist_ok := hist_all step_ok.

(* invariants are proved step by step *)
Lemma history_invariant (I : wstate -> Prop) (ok : wstate -> hop -> Prop) :
  (forall s o, I s -> ok s o -> I (hstep s o)) ->
  forall ops s, I s -> hist_all ok s ops -> I (fold_left hstep ops s).
Proof.
  intros Hstep. induction ops as [|o r IH]; intros s Hi H; cbn [fold_left]; [exact Hi|].
  destruct H as [H1 H2]. apply IH; [apply Hstep; assumption|exact H2].
Qed.

Lemma hist_all_and ok1 ok2 : forall ops s,
  hist_all ok1 s ops -> hist_all ok2 s ops -> hist_all (fun s o => ok1 s o /\ ok2 s o) s ops.
Proof.
  induction ops as [|o r IH]; intros s H1 H2; cbn [hist_all] in *; [exact I|].
  destruct H1 as [A1 B1], H2 as [A2 B2]. split; [split; assumption|apply IH; assumption].
Qed.

Lemma hstep_good s o : Good s -> step_ok s o -> Good (hstep s o).
Proof.
  intros G Hok. destruct o as [lh txs|a hdr]; cbn [hstep step_ok] in *.
  - destruct (apply_tx_batch SO s lh txs) as [s'| |] eqn:E; [|exact G|exact G].
    destruct Hok as [HK Hm]. eapply batch_good; eauto.
  - destruct (seal SO s a) as [s'| |] eqn:E; [|exact G|exact G].
    apply next_unsealed_good. eapply seal_counts; eauto.
Qed.

Theorem history_good : forall ops s, Good s -> hist_ok s ops -> Good (fold_left hstep ops s).
Proof. apply history_invariant. exact hstep_good. Qed.

(* C20 for every reachable unsealed state *)
Corollary history_counts ops s h :
  Good s -> hist_ok s ops -> tip_906 (fold_left hstep ops s) = true ->
  coin_count (s_counts (fold_left hstep ops s)) h = count_of h (s_coins (fold_left hstep ops s)) /\
  (count_of h (s_coins (fold_left hstep ops s)) = 0 -> s_counts (fold_left hstep ops s) !! h = None).
Proof.
  intros G H T. destruct (history_good ops s G H) as (_ & C & _). unfold CInv in C. rewrite T in C.
  split; [apply (coin_count_ok _ h C)|apply (counts_no_entry_without_coins _ h C)].
Qed.

(* ... and for every reachable sealed state *)
Corollary history_sealed_counts ops s a sealed h :
  Good s -> hist_ok s ops -> seal SO (fold_left hstep ops s) a = Ok sealed ->
  (a <> None -> reward_fresh (fold_left hstep ops s)) -> tip_906 sealed = true ->
  coin_count (s_counts sealed) h = count_of h (s_coins sealed).
Proof.
  intros G H Hs Hr T. pose proof (history_good ops s G H) as Gf.
  destruct (seal_counts SO _ _ _ Gf Hs Hr) as [C _]. unfold CInv in C. rewrite T in C.
  apply (coin_count_ok _ h C).
Qed.

(* before the activation height there are no counts at all *)
Corollary history_no_counts_before_activation ops s :
  Good s -> hist_ok s ops -> tip_906 (fold_left hstep ops s) = false -> s_counts (fold_left hstep ops s) = ∅.
Proof.
  intros G H T. destruct (history_good ops s G H) as (_ & C & _). unfold CInv in C. rewrite T in C. exact C.
Qed.
End History.

(* ---- the genesis state (GenesisConfig::realize): one coin, inserted with the rule of the network *)
Definition genesis (net : N) (c : cdh) (fee_pool mult : N) (stakes : gmap N stakedoc) : wstate :=
  let s0 := {| s_network := net; s_height := 0; s_history := ∅; s_coins := ∅; s_counts := ∅; s_txs := ∅;
               s_fee_pool := fee_pool; s_fee_mult := mult; s_tips := 0; s_dosc_speed := MICRO;
               s_pools := ∅; s_stakes := stakes |} in
  let cn := insert_coin (tip_906 s0) (coin_key 0 0) c (∅, ∅) in set_coins s0 (fst cn) (snd cn).

Lemma genesis_good net c fp m st : Good (genesis net c fp m st).
Proof.
  split; [intros h t H; cbn in H; rewrite lookup_empty in H; discriminate|]. split.
  - unfold CInv, genesis. cbn zeta.
    match goal with |- context [insert_coin (tip_906 ?x)] => set (s0 := x) end.
    assert (T: tip_906 (set_coins s0 (fst (insert_coin (tip_906 s0) (coin_key 0 0) c (∅, ∅)))
                                     (snd (insert_coin (tip_906 s0) (coin_key 0 0) c (∅, ∅)))) = tip_906 s0) by reflexivity.
    rewrite T. cbn [s_coins s_counts set_coins]. destruct (tip_906 s0).
    + rewrite <- surjective_pairing. apply genesis_counts_ok.
    + reflexivity.
  - intros t Ht. apply in_sorted_txs in Ht as (h & Hh). cbn in Hh. rewrite lookup_empty in Hh. discriminate.
Qed.

(* ---- the definitions, spelled out (so that the property files can pin them) *)
Lemma good_def s :
  Good s <->
  (forall h t, s_txs s !! h = Some t -> t_hash t = h) /\
  (if tip_906 s then CountsOk (s_coins s, s_counts s) else s_counts s = ∅) /\
  (forall t, In t (sorted_txs s) ->
     (forall c, s_coins s !! coin_key (t_hash t) 0 = Some c -> cd_covhash (c_data c) = cd_covhash (out0 t)) /\
     (forall c, s_coins s !! coin_key (t_hash t) 1 = Some c ->
        cd_covhash (c_data c) = if N.of_nat (length (t_outputs t)) =? 1 then cd_covhash (out0 t) else cd_covhash (out1 t))).
Proof. reflexivity. Qed.

Lemma hstep_def SO s o :
  hstep SO s o =
  match o with
  | HBatch lh txs => match apply_tx_batch SO s lh txs with Ok s' => s' | _ => s end
  | HBlock a hdr => match seal SO s a with Ok s' => next_unsealed s' hdr | _ => s end
  end.
Proof. reflexivity. Qed.

Lemma hist_all_def SO ok s ops :
  hist_all SO ok s ops <-> match ops with [] => True | o :: r => ok s o /\ hist_all SO ok (hstep SO s o) r end.
Proof. destruct ops; reflexivity. Qed.

Lemma hist_ok_def SO s ops :
  hist_ok SO s ops <->
  match ops with
  | [] => True
  | o :: r =>
    match o with
    | HBatch lh txs => HashOK SO s txs /\
        forall t t', In t txs -> In t' (sorted_txs s) -> so_faucet_marker SO (t_hash t) <> t_hash t'
    | HBlock a hdr => a <> None ->
        s_coins s !! coin_key (so_reward_id SO (s_height s)) 0 = None /\
        forall t, In t (sorted_txs s) -> so_reward_id SO (s_height s) <> t_hash t
    end /\ hist_ok SO (hstep SO s o) r
  end.
Proof. destruct ops as [|o r]; [reflexivity|]. destruct o; reflexivity. Qed.

(* Non-vacuity witnesses for the per-pool settlement theorems of STF/Proofs/SealSupply.v: a concrete pool with
   one swap, one deposit and one withdrawal whose request coins are as declared. *)
From MelVerif Require Import STF.Proofs.Tactics STF.Proofs.MapLemmas STF.Proofs.Supply STF.Proofs.Pool STF.Proofs.SealCoins
  STF.Proofs.BatchSupply STF.Proofs.SealSupply STF.Proofs.Witness.
Open Scope N_scope.

Definition w_key : denom * denom := poolkey_new Mel Sym.
Definition w_liq : denom := Custom (so_liq_denom w_oracle (poolkey_code w_key)).
Definition w_pool : pool := {| p_lefts := 1000000; p_rights := 2000000; p_accum := 0; p_liqs := 1000000 |}.

Definition w_req (k : txkind) (outs : list coindata) (h : N) : tx :=
  {| t_kind := k; t_inputs := []; t_outputs := outs; t_fee := 0; t_covenants := []; t_data := poolkey_bytes w_key;
     t_sigs := []; t_hash := h; t_fullhash := h; t_rawlen := 100; t_covhashes := [];
     t_stakedoc := None; t_poolkey := Some w_key; t_dosc := DDNone |}.

Definition w_swap : tx := w_req KSwap [w_out 5000 Mel] 21.
Definition w_dep : tx := w_req KLiqDeposit [w_out 3000 (fst w_key); w_out 6000 (snd w_key)] 22.
Definition w_wd : tx := w_req KLiqWithdraw [w_out 400 w_liq] 23.

Definition w_coin (o : coindata) : cdh := {| c_data := o; c_height := 5 |}.
Definition w_seal_state : wstate :=
  {| s_network := 2; s_height := 5; s_history := ∅;
     s_coins := list_to_map [(key0 w_swap, w_coin (out0 w_swap)); (key0 w_dep, w_coin (out0 w_dep)); (key1 w_dep, w_coin (out1 w_dep));
                             (key0 w_wd, w_coin (out0 w_wd))];
     s_counts := list_to_map [(w_true_hash, 4)]; s_txs := ∅; s_fee_pool := 1000; s_fee_mult := 100; s_tips := 0; s_dosc_speed := 1;
     s_pools := list_to_map [(poolkey_code w_key, w_pool)]; s_stakes := ∅ |}.

Lemma w_sides : fst w_key <> snd w_key /\ w_liq <> fst w_key /\ w_liq <> snd w_key.
Proof. vm_compute. repeat split; discriminate. Qed.

Lemma w_swap_ok :
  (exists s', swaps_single_pool w_key w_seal_state [w_swap] = Ok s') /\
  NoDup (map key0 [w_swap]) /\
  (forall t, In t [w_swap] -> declared0 w_seal_state t /\ (cd_denom (out0 t) = fst w_key \/ cd_denom (out0 t) = snd w_key)) /\
  nsum (map (fun t => cd_value (out0 t)) [w_swap]) < U128.
Proof.
  split; [vm_compute; eexists; reflexivity|]. split; [repeat constructor; intros []|].
  split; [|vm_compute; reflexivity].
  intros t [<-|[]]. split; [|left; reflexivity]. eexists. split; [vm_compute; reflexivity|]. split; reflexivity.
Qed.

Lemma w_withdraw_ok :
  (exists s', withdrawals_single_pool w_key w_seal_state [w_wd] = Ok s') /\
  get_pool w_seal_state w_key = Some w_pool /\ p_lefts w_pool < U128 /\ p_rights w_pool < U128 /\
  NoDup (flat_map (fun t => [key0 t; key1 t]) [w_wd]) /\
  (forall t, In t [w_wd] -> declared0 w_seal_state t /\ cd_denom (out0 t) = w_liq) /\
  nsum (map (fun t => cd_value (out0 t)) [w_wd]) < U128.
Proof.
  split; [vm_compute; eexists; reflexivity|]. split; [vm_compute; reflexivity|]. split; [vm_compute; reflexivity|].
  split; [vm_compute; reflexivity|]. split; [cbn; repeat constructor; cbn; intuition discriminate|].
  split; [|vm_compute; reflexivity].
  intros t [<-|[]]. split; [|reflexivity]. eexists. split; [vm_compute; reflexivity|]. split; reflexivity.
Qed.

Lemma w_deposit_ok :
  (exists s', deposits_single_pool w_oracle w_key w_seal_state [w_dep] = Ok s') /\
  legacy_net w_seal_state && (s_height w_seal_state <? 978392) = false /\
  NoDup (key_pairs [w_dep]) /\
  (forall t, In t [w_dep] -> declared0 w_seal_state t /\ declared1 w_seal_state t /\ cd_denom (out0 t) = fst w_key /\ cd_denom (out1 t) = snd w_key) /\
  nsum (map (fun t => cd_value (out0 t)) [w_dep]) < U128 /\ nsum (map (fun t => cd_value (out1 t)) [w_dep]) < U128 /\
  (forall p'' m, pool_deposit w_pool (nsum (map (fun t => cd_value (out0 t)) [w_dep])) (nsum (map (fun t => cd_value (out1 t)) [w_dep])) = Ok (p'', m) ->
                 p_liqs w_pool + m < U128).
Proof.
  split; [vm_compute; eexists; reflexivity|]. split; [vm_compute; reflexivity|].
  split; [cbn; repeat constructor; cbn; intuition discriminate|].
  split.
  { intros t [<-|[]]. split; [eexists; split; [vm_compute; reflexivity|split; reflexivity]|].
    split; [eexists; split; [vm_compute; reflexivity|split; reflexivity]|]. split; reflexivity. }
  split; [vm_compute; reflexivity|]. split; [vm_compute; reflexivity|].
  intros p'' m H. vm_compute in H. injection H as _ <-. vm_compute. reflexivity.
Qed.

(* The history theorems of C01 and C16 with nothing assumed about the coins of a sealed state: that the coins at
   the output ids of the block's transactions are as declared, and that no two transactions share an output
   id, are invariants of every history (Declared.v), so a step needs only the hash-oracle assumptions and the
   no-overflow bounds [seal_bounds]. *)
From MelVerif Require Import STF.Proofs.Tactics STF.Proofs.MapLemmas STF.Proofs.Frame STF.Proofs.Supply STF.Proofs.Pool STF.Proofs.BatchSupply
  STF.Proofs.SealCoins STF.Proofs.SealSupply STF.Proofs.PoolKeys STF.Proofs.SealLift STF.Proofs.SealInv STF.Proofs.HashFacts STF.Proofs.SealCounts
  STF.Proofs.History STF.Proofs.Declared STF.Proofs.PoolHistory STF.Proofs.SealPegged STF.Proofs.SupplyHistory STF.Proofs.SealTotal.
From Coq Require Import ZifyN ZifyNat ZifyBool.
Open Scope N_scope.

Section Lifting.
Variable SO : stf_oracle.
(* a step condition that follows from another one in every state of an invariant follows along a whole history *)
Lemma hist_all_from_invariant (I : wstate -> Prop) (ok1 ok2 : wstate -> hop -> Prop) :
  (forall s o, I s -> ok1 s o -> I (hstep SO s o)) ->
  (forall s o, I s -> ok1 s o -> ok2 s o) ->
  forall ops s, I s -> hist_all SO ok1 s ops -> hist_all SO ok2 s ops.
Proof.
  intros Hstep Himp. induction ops as [|o r IH]; intros s Hi H; cbn [hist_all] in *; [exact Logic.I|].
  destruct H as [H1 H2]. split; [apply Himp; assumption|apply IH; [apply Hstep; assumption|exact H2]].
Qed.
End Lifting.

Section Bounds.
Variable K : list (denom * denom).
Hypothesis Kcodes : NoDup (map poolkey_code K).
Variable SO : stf_oracle.
Hypothesis K_builtins : In MS K /\ In ME K /\ In ES K.

(* what is asked of a state that is sealed: the rule set in force is not the legacy one, the pools that the
   block's transactions name are among K and their liquidity tokens are not their own sides, and the request
   totals and the liquidity minted stay below 2^128 *)
Definition seal_bounds (s : wstate) : Prop :=
  legacy_net s && (s_height s <? 978392) = false /\
  (forall t k1, In t (sorted_txs s) -> tx_pool t = Some k1 -> In k1 K /\ LDk SO k1 <> fst k1 /\ LDk SO k1 <> snd k1) /\
  nsum (map (fun t => cd_value (out0 t)) (sorted_txs s)) < U128 /\
  nsum (map (fun t => cd_value (out1 t)) (sorted_txs s)) < U128 /\
  (forall s2 s3, process_swaps (create_builtins s) = Ok s2 -> process_deposits SO s2 = Ok s3 ->
     (forall k1 p'' m, In k1 K ->
        pool_deposit (pool_at s2 k1)
          (nsum (map (fun t => cd_value (out0 t)) (txs_for_pool (List.filter (is_deposit_request s2) (sorted_txs s2)) k1)))
          (nsum (map (fun t => cd_value (out1 t)) (txs_for_pool (List.filter (is_deposit_request s2) (sorted_txs s2)) k1))) = Ok (p'', m) ->
        p_liqs (pool_at s2 k1) + m < U128) /\
     (forall k1 p1, In k1 K -> get_pool s3 k1 = Some p1 -> p_lefts p1 < U128 /\ p_rights p1 < U128)).

Lemma seal_premises_of_bounds s : Good2 s -> seal_bounds s -> seal_premises K SO s.
Proof.
  intros [(Kd & _) D] (H1 & H2 & H6 & H7 & H8).
  split; [exact H1|]. split; [exact H2|]. split; [apply txkeyed_key_pairs; exact Kd|].
  split; [intros t c Hin Hc; apply (proj1 (D t Hin)); exact Hc|].
  split; [intros t c Hin Hc; apply (proj2 (D t Hin)); exact Hc|]. auto.
Qed.

(* the step condition of the history theorems below *)
Definition bounds_step_ok (s : wstate) (o : hop) : Prop :=
  match o with
  | HBatch lh txs => HashOK SO s txs /\
      forall t t', In t txs -> In t' (sorted_txs s) -> so_faucet_marker SO (t_hash t) <> t_hash t'
  | HBlock a hdr => (a <> None -> reward_fresh SO s) /\ seal_bounds s
  end.

Lemma bounds_step s o : bounds_step_ok s o -> step_ok SO s o.
Proof. destruct o; cbn [bounds_step_ok step_ok]; tauto. Qed.

Lemma bounds_hstep_good2 s o : Good2 s -> bounds_step_ok s o -> Good2 (hstep SO s o).
Proof. intros G H. apply hstep_good2; [exact G|apply bounds_step; exact H]. Qed.

Lemma bounds_supply_step s o : Good2 s -> bounds_step_ok s o -> supply_step_ok K SO s o.
Proof.
  intros G H. destruct o as [lh txs|a hdr]; cbn [bounds_step_ok supply_step_ok] in *; [apply H|].
  apply seal_premises_of_bounds; [exact G|apply H].
Qed.

Theorem bounds_history_good2 : forall ops s, Good2 s -> hist_all SO bounds_step_ok s ops -> Good2 (fold_left (hstep SO) ops s).
Proof. apply history_invariant. exact bounds_hstep_good2. Qed.

(* C01 over every history: from a state of the invariant (the genesis state is one), under the hash-oracle
   assumptions and the no-overflow bounds alone *)
Theorem supply_history_inv d : d <> NewCustom -> forall ops s,
  Good2 s -> hist_all SO bounds_step_ok s ops ->
  grows K SO d (hist_issuance K SO d s ops) s (fold_left (hstep SO) ops s).
Proof.
  intros Hd ops s G H. apply (supply_history K Kcodes SO K_builtins d Hd).
  exact (hist_all_from_invariant SO Good2 bounds_step_ok (supply_step_ok K SO) bounds_hstep_good2 bounds_supply_step ops s G H).
Qed.

Corollary supply_history_pegged_inv d ops s : pegged d ->
  Good2 s -> hist_all SO bounds_step_ok s ops ->
  held K d (fold_left (hstep SO) ops s) <= held K d s + hist_issuance K SO d s ops.
Proof.
  intros P G H. apply (supply_history_pegged K Kcodes SO K_builtins d ops s P).
  exact (hist_all_from_invariant SO Good2 bounds_step_ok (supply_step_ok K SO) bounds_hstep_good2 bounds_supply_step ops s G H).
Qed.

(* C16 over every history, likewise *)
Hypothesis LD_inj : forall k1 k2, In k1 K -> In k2 K -> LDk SO k1 = LDk SO k2 -> k1 = k2.
Variable k : denom * denom.
Hypothesis Hk : In k K.

Definition pool_bounds_step_ok (s : wstate) (o : hop) : Prop :=
  bounds_step_ok s o /\ match o with HBatch lh txs => batch_issuance (LDk SO k) txs = 0 | HBlock a hdr => True end.

Lemma pool_bounds_step s o : Good2 s -> pool_bounds_step_ok s o -> pool_step_ok K SO k s o.
Proof.
  intros G [H Hi]. destruct o as [lh txs|a hdr]; cbn [bounds_step_ok pool_step_ok] in *; [split; [apply H|exact Hi]|].
  apply seal_premises_of_bounds; [exact G|apply H].
Qed.

Theorem pool_backed_forever_inv ops s :
  Good2 s -> Backed K SO k s -> hist_all SO pool_bounds_step_ok s ops -> Backed K SO k (fold_left (hstep SO) ops s).
Proof.
  intros G B H. apply (pool_backed_forever K Kcodes SO K_builtins LD_inj k Hk ops s B).
  refine (hist_all_from_invariant SO Good2 pool_bounds_step_ok (pool_step_ok K SO k) _ pool_bounds_step ops s G H).
  intros s0 o G0 [H0 _]. apply bounds_hstep_good2; assumption.
Qed.

Lemma seal_bounds_def s :
  seal_bounds s <->
  legacy_net s && (s_height s <? 978392) = false /\
  (forall t k1, In t (sorted_txs s) -> tx_pool t = Some k1 -> In k1 K /\ LDk SO k1 <> fst k1 /\ LDk SO k1 <> snd k1) /\
  nsum (map (fun t => cd_value (out0 t)) (sorted_txs s)) < U128 /\
  nsum (map (fun t => cd_value (out1 t)) (sorted_txs s)) < U128 /\
  (forall s2 s3, process_swaps (create_builtins s) = Ok s2 -> process_deposits SO s2 = Ok s3 ->
     (forall k1 p'' m, In k1 K ->
        pool_deposit (pool_at s2 k1)
          (nsum (map (fun t => cd_value (out0 t)) (txs_for_pool (List.filter (is_deposit_request s2) (sorted_txs s2)) k1)))
          (nsum (map (fun t => cd_value (out1 t)) (txs_for_pool (List.filter (is_deposit_request s2) (sorted_txs s2)) k1))) = Ok (p'', m) ->
        p_liqs (pool_at s2 k1) + m < U128) /\
     (forall k1 p1, In k1 K -> get_pool s3 k1 = Some p1 -> p_lefts p1 < U128 /\ p_rights p1 < U128)).
Proof. reflexivity. Qed.
Lemma bounds_step_ok_def s o :
  bounds_step_ok s o <->
  match o with
  | HBatch lh txs => HashOK SO s txs /\
      forall t t', In t txs -> In t' (sorted_txs s) -> so_faucet_marker SO (t_hash t) <> t_hash t'
  | HBlock a hdr => (a <> None -> reward_fresh SO s) /\ seal_bounds s
  end.
Proof. destruct o; reflexivity. Qed.
Lemma pool_bounds_step_ok_def s o :
  pool_bounds_step_ok s o <->
  bounds_step_ok s o /\ match o with HBatch lh txs => batch_issuance (LDk SO k) txs = 0 | HBlock a hdr => True end.
Proof. reflexivity. Qed.
End Bounds.

(* C09: sealing is total in every reachable state - every state of every history from a state of the invariant -
   that has C16's invariant (live built-in pools, backed with room to spare), under the no-overflow bounds *)
Theorem seal_total_reachable (K : list (denom * denom)) (Kcodes : NoDup (map poolkey_code K)) (SO : stf_oracle)
  (K_builtins : In MS K /\ In ME K /\ In ES K)
  (LD_inj : forall k1 k2, In k1 K -> In k2 K -> LDk SO k1 = LDk SO k2 -> k1 = k2) ops s0 :
  Good2 s0 -> hist_ok SO s0 ops ->
  let s := fold_left (hstep SO) ops s0 in
  legacy_net s && (s_height s <? 978392) = false ->
  (forall t k1, In t (sorted_txs s) -> tx_pool t = Some k1 -> In k1 K /\ LDk SO k1 <> fst k1 /\ LDk SO k1 <> snd k1) ->
  nsum (map (fun t => cd_value (out0 t)) (sorted_txs s)) < U128 ->
  nsum (map (fun t => cd_value (out1 t)) (sorted_txs s)) < U128 ->
  (forall s2, process_swaps (create_builtins s) = Ok s2 ->
     forall k1 p'' m, In k1 K ->
       pool_deposit (pool_at s2 k1)
         (nsum (map (fun t => cd_value (out0 t)) (txs_for_pool (List.filter (is_deposit_request s2) (sorted_txs s2)) k1)))
         (nsum (map (fun t => cd_value (out1 t)) (txs_for_pool (List.filter (is_deposit_request s2) (sorted_txs s2)) k1))) = Ok (p'', m) ->
       p_liqs (pool_at s2 k1) + m < U128) ->
  (forall k p1, builtin k -> get_pool (create_builtins s) k = Some p1 ->
     coin_supply (LDk SO k) (s_coins s) + psum K (LDk SO k) (create_builtins s) + 1 <= p_liqs p1) ->
  (forall k p, builtin k -> get_pool s k = Some p -> live p) ->
  (s_height s - TIP_909_HEIGHT) / 1000000 < 128 ->
  (forall s1 sm, preseal_melmint SO s = Ok s1 -> get_pool s1 MS = Some sm -> s_fee_pool s + p_lefts sm + s_tips s < U128) ->
  forall a, exists s', seal SO s a = Ok s'.
Proof.
  intros G H s Hleg Hcover Hs0 Hs1 Hsat Hslack Hlive Hh Hf.
  destruct (history_declared SO ops s0 G H) as (Hkeys & Hd0 & Hd1). fold s in Hkeys, Hd0, Hd1.
  pose proof (history_good2 SO ops s0 G H) as [Gs _]. fold s in Gs.
  exact (seal_total_from_invariants K Kcodes SO K_builtins LD_inj s Hleg Hcover Hkeys Hd0 Hd1 Hs0 Hs1 Hsat Hslack Gs Hlive Hh Hf).
Qed.

(* C14: confirmation needs valid signatures from a > 2/3 stake majority. *)
From MelVerif Require Import STF.Model.
From Coq Require Import ZifyN ZifyNat ZifyBool.
Ltac Zify.zify_post_hook ::= Z.div_mod_to_equations.
Open Scope N_scope.

Definition present_votes (s : wstate) (proof : list (N * list N)) : N :=
  fold_left (fun acc '(k, _) => acc + votes (s_stakes s) (s_height s / STAKE_EPOCH) k) proof 0.
Definition all_sigs_valid (SO : stf_oracle) (hh : N) (proof : list (N * list N)) : bool :=
  forallb (fun '(k, sg) => so_ed25519 SO k hh sg) proof.

(* the overflow-free threshold test of the implementation is exactly 3 * present > 2 * total *)
Lemma threshold_exact total present :
  (total / 3 * 2 + total mod 3 * 2 / 3 <? present) = (2 * total <? 3 * present).
Proof.
  destruct (N.ltb_spec (2 * total) (3 * present)); destruct (N.ltb_spec (total / 3 * 2 + total mod 3 * 2 / 3) present); try reflexivity; lia.
Qed.

Lemma confirm_unfold SO s hh proof :
  confirm SO s hh proof =
  all_sigs_valid SO hh proof
  && (2 * total_votes (s_stakes s) (s_height s / STAKE_EPOCH) <? 3 * present_votes s proof).
Proof.
  unfold confirm, all_sigs_valid, present_votes. rewrite threshold_exact. reflexivity.
Qed.

Theorem confirm_iff SO s hh proof :
  confirm SO s hh proof = true <->
  (forall k sg, In (k, sg) proof -> so_ed25519 SO k hh sg = true) /\
  2 * total_votes (s_stakes s) (s_height s / STAKE_EPOCH) < 3 * present_votes s proof.
Proof.
  rewrite confirm_unfold, andb_true_iff, N.ltb_lt. unfold all_sigs_valid. rewrite forallb_forall.
  split; intros [H1 H2]; split; try exact H2.
  - intros k sg Hin. exact (H1 (k, sg) Hin).
  - intros [k sg] Hin. exact (H1 k sg Hin).
Qed.

(* never below two thirds, always above two thirds (given valid signatures) *)
Corollary confirm_needs_two_thirds SO s hh proof :
  confirm SO s hh proof = true ->
  2 * total_votes (s_stakes s) (s_height s / STAKE_EPOCH) <= 3 * present_votes s proof.
Proof. intros H. apply confirm_iff in H as [_ H]. lia. Qed.

Corollary empty_proof_never_confirms SO s hh :
  0 < total_votes (s_stakes s) (s_height s / STAKE_EPOCH) -> confirm SO s hh [] = false.
Proof.
  intros H. destruct (confirm SO s hh []) eqn:E; [|reflexivity].
  apply confirm_iff in E as [_ E]. cbn in E. lia.
Qed.

Corollary full_proof_confirms SO s hh proof :
  0 < total_votes (s_stakes s) (s_height s / STAKE_EPOCH) ->
  (forall k sg, In (k, sg) proof -> so_ed25519 SO k hh sg = true) ->
  present_votes s proof = total_votes (s_stakes s) (s_height s / STAKE_EPOCH) ->
  confirm SO s hh proof = true.
Proof. intros H Hs Hp. apply confirm_iff. split; [exact Hs|lia]. Qed.

Lemma present_votes_app s p1 p2 : present_votes s (p1 ++ p2) = present_votes s p1 + present_votes s p2.
Proof.
  unfold present_votes. rewrite fold_left_app.
  generalize (fold_left (fun acc '(k, _) => acc + votes (s_stakes s) (s_height s / STAKE_EPOCH) k) p1 0).
  induction p2 as [|[k sg] p2 IH]; intros a; cbn [fold_left]; [lia|].
  rewrite IH. rewrite (IH (0 + _)). lia.
Qed.

(* adding a valid signature never turns a confirming proof into a non-confirming one *)
Theorem confirm_monotone SO s hh proof k sg :
  confirm SO s hh proof = true -> so_ed25519 SO k hh sg = true ->
  confirm SO s hh (proof ++ [(k, sg)]) = true.
Proof.
  intros H Hk. apply confirm_iff in H as [H1 H2]. apply confirm_iff. split.
  - intros k' sg' Hin. apply in_app_or in Hin as [Hin|[E|[]]]; [eauto|]. injection E as <- <-. exact Hk.
  - rewrite present_votes_app. lia.
Qed.

(* Non-vacuity of [seal_total]: its hypotheses hold together on the concrete state reached by the batch of
   STF/Proofs/Witness.v (two faucets and a transfer, no pool yet: the seal bootstraps the built-in pools). *)
From MelVerif Require Import STF.Proofs.Tactics STF.Proofs.MapLemmas STF.Proofs.Frame STF.Proofs.SealCoins STF.Proofs.SealLift
  STF.Proofs.SealInv STF.Proofs.SealCounts STF.Proofs.History STF.Proofs.SealTotal STF.Proofs.Witness STF.Proofs.Witness5.
Open Scope N_scope.

Definition w_s1 : wstate := hstep w_oracle w_state (HBatch w_header w_batch).

Lemma w_s1_good : Good w_s1.
Proof.
  apply hstep_good; [exact w_state_good|]. cbn [step_ok]. split; [exact w_hash_ok|intros t t' _ []].
Qed.

Lemma w_s1_txs : sorted_txs w_s1 = [w_f1; w_f2; w_t3].
Proof. vm_compute. reflexivity. Qed.

Lemma w_s1_named k : named w_s1 k -> builtin k.
Proof.
  intros [H|(t & Ht & E)]; [exact H|]. rewrite w_s1_txs in Ht. cbn in Ht.
  destruct Ht as [<-|[<-|[<-|[]]]]; vm_compute in E; discriminate.
Qed.

Lemma w_seal_total_hypotheses :
  (forall k1 k2, named w_s1 k1 -> named w_s1 k2 -> poolkey_code k1 = poolkey_code k2 -> k1 = k2) /\
  Good w_s1 /\
  (forall k p, builtin k -> get_pool w_s1 k = Some p -> live p) /\
  (forall k, builtin k -> is_Some (get_pool (create_builtins w_s1) k) -> forall s2 s3 p3,
     process_swaps (create_builtins w_s1) = Ok s2 -> process_deposits w_oracle s2 = Ok s3 -> get_pool s3 k = Some p3 ->
     sat_sum (map (fun t => cd_value (out0 t)) (txs_for_pool (List.filter (is_withdraw_request w_oracle s3) (sorted_txs s3)) k)) < p_liqs p3) /\
  (s_height w_s1 - TIP_909_HEIGHT) / 1000000 < 128 /\
  (forall s1 sm, preseal_melmint w_oracle w_s1 = Ok s1 -> get_pool s1 MS = Some sm -> s_fee_pool w_s1 + p_lefts sm + s_tips w_s1 < U128).
Proof.
  split; [|split; [exact w_s1_good|split; [|split; [|split]]]].
  - intros k1 k2 H1 H2 E. apply w_s1_named in H1, H2.
    destruct H1 as [-> | [-> | ->]], H2 as [-> | [-> | ->]]; try reflexivity; vm_compute in E; discriminate.
  - intros k p Hb E. exfalso. destruct Hb as [-> | [-> | ->]]; vm_compute in E; discriminate.
  - intros k Hb _ s2 s3 p3 H2 H3 Ep.
    vm_compute in H2. injection H2 as <-. vm_compute in H3. injection H3 as <-.
    destruct Hb as [-> | [-> | ->]]; vm_compute in Ep; injection Ep as <-; vm_compute; reflexivity.
  - vm_compute. reflexivity.
  - intros s1 sm H1 Ep. vm_compute in H1. injection H1 as <-. vm_compute in Ep. injection Ep as <-. vm_compute. reflexivity.
Qed.

Lemma w_seal_total : forall a, exists s', seal w_oracle w_s1 a = Ok s'.
Proof.
  destruct w_seal_total_hypotheses as (H1 & H2 & H3 & H4 & H5 & H6). exact (seal_total w_oracle w_s1 H1 H2 H3 H4 H5 H6).
Qed.

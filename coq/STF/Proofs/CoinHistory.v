(* C02 over whole histories, "no lost coin": an unspent coin stays in the coin tree, unchanged, through every
   batch that does not list it as an input and every block boundary at which it is not an output of a pool
   request being settled; and "no double spend": once an accepted batch has listed it, it is gone until a
   transaction with the same hash and index re-creates it (which the hash-oracle assumptions exclude). *)
From MelVerif Require Import STF.Proofs.Tactics STF.Proofs.MapLemmas STF.Proofs.Frame STF.Proofs.Stakes STF.Proofs.Faucet
  STF.Proofs.Coins STF.Proofs.SealCoins STF.Proofs.HashFacts STF.Proofs.SealCounts STF.Proofs.History.
From Coq Require Import ZifyN ZifyNat ZifyBool.
Open Scope N_scope.

Section CoinHistory.
Variable SO : stf_oracle.
Variable h : N.            (* hash of the transaction that created the coin *)
Variable i : N.            (* its output index *)
Hypothesis Hi : i < 256.
Variable c : cdh.

Definition Has (s : wstate) : Prop := s_coins s !! coin_key h i = Some c.

Lemma batch_keeps_coin s lh txs s' :
  apply_tx_batch SO s lh txs = Ok s' -> HashOK SO s txs ->
  ~ In (coin_key h i) (all_inputs txs) ->
  (forall t, In t txs -> so_faucet_marker SO (t_hash t) <> h) ->
  Has s -> Has s'.
Proof.
  intros H HK Hni Hm Hc. unfold Has in *.
  assert (Hne: forall t, In t txs -> t_hash t <> h).
  { intros t Ht E. pose proof (hk_fresh _ _ _ HK t i Ht Hi) as F. rewrite E, Hc in F. discriminate. }
  destruct (accepted_batch_coins _ _ _ _ _ H) as (relevant & Hrel & Ec). rewrite Ec.
  rewrite del_all_notin by exact Hni. rewrite ins_all_notin; [exact Hc|].
  intros Hk. apply in_map_iff in Hk as ([k' c'] & E & Hk). cbn [fst] in E. subst k'.
  apply in_flat_map in Hk as (t & Ht & Hk).
  apply in_tx_inserts in Hk as [(_ & E & _)|(j & o & _ & E & _)].
  - unfold marker_key in E. apply coin_key_inj in E as [E _]; [|exact Hi|lia]. symmetry in E. exact (Hm t Ht E).
  - apply coin_key_inj in E as [E _]; [|exact Hi|apply N.mod_lt; discriminate]. symmetry in E. exact (Hne t Ht E).
Qed.

Lemma batch_spends_coin s lh txs s' :
  apply_tx_batch SO s lh txs = Ok s' -> In (coin_key h i) (all_inputs txs) -> s_coins s' !! coin_key h i = None.
Proof.
  intros H Hin. destruct (accepted_batch_coins _ _ _ _ _ H) as (relevant & Hrel & Ec). rewrite Ec.
  apply del_all_in. exact Hin.
Qed.

Lemma block_keeps_coin s a hdr s' :
  seal SO s a = Ok s' ->
  (forall t, In t (sorted_txs s) -> is_pool_request t = true -> t_hash t <> h) ->
  so_reward_id SO (s_height s) <> h ->
  Has s -> Has (next_unsealed s' hdr).
Proof.
  intros H Hreq Hrw Hc. unfold Has in *.
  assert (E: s_coins (next_unsealed s' hdr) = s_coins s') by (unfold next_unsealed; destruct (_ && _); reflexivity).
  rewrite E. rewrite (seal_leaves_other_coins SO s a s' _ H); [exact Hc| |].
  - intros t Ht Hr. pose proof (Hreq t Ht Hr) as Hne. unfold key0, key1.
    split; intros E2; apply coin_key_inj in E2 as [E2 _]; lia.
  - intros E2. apply coin_key_inj in E2 as [E2 _]; lia.
Qed.

Definition coin_step_ok (s : wstate) (o : hop) : Prop :=
  match o with
  | HBatch lh txs => HashOK SO s txs /\ ~ In (coin_key h i) (all_inputs txs) /\
      (forall t, In t txs -> so_faucet_marker SO (t_hash t) <> h)
  | HBlock a hdr =>
      (forall t, In t (sorted_txs s) -> is_pool_request t = true -> t_hash t <> h) /\
      so_reward_id SO (s_height s) <> h
  end.

Lemma hstep_has s o : Has s -> coin_step_ok s o -> Has (hstep SO s o).
Proof.
  intros L Hok. destruct o as [lh txs|a hdr]; cbn [hstep coin_step_ok] in *.
  - destruct (apply_tx_batch SO s lh txs) as [s'| |] eqn:E; [|exact L|exact L].
    destruct Hok as (HK & Hni & Hm). eapply batch_keeps_coin; eauto.
  - destruct (seal SO s a) as [s'| |] eqn:E; [|exact L|exact L].
    destruct Hok as (Hreq & Hrw). eapply block_keeps_coin; eauto.
Qed.

Theorem unspent_coin_is_never_lost : forall ops s,
  Has s -> hist_all SO coin_step_ok s ops -> Has (fold_left (hstep SO) ops s).
Proof. apply history_invariant. exact hstep_has. Qed.

Lemma has_def s : Has s <-> s_coins s !! coin_key h i = Some c.
Proof. reflexivity. Qed.
Lemma coin_step_ok_def s o :
  coin_step_ok s o <->
  match o with
  | HBatch lh txs => HashOK SO s txs /\ ~ In (coin_key h i) (all_inputs txs) /\
      (forall t, In t txs -> so_faucet_marker SO (t_hash t) <> h)
  | HBlock a hdr =>
      (forall t, In t (sorted_txs s) -> is_pool_request t = true -> t_hash t <> h) /\
      so_reward_id SO (s_height s) <> h
  end.
Proof. destruct o; reflexivity. Qed.
End CoinHistory.

(* Inversion helpers for the outcome monad. *)
From MelVerif Require Export STF.Model.
Open Scope N_scope.

Lemma obind_ok {E A B} (e : outcome E A) (k : A -> outcome E B) v :
  obind e k = Ok v -> exists a, e = Ok a /\ k a = Ok v.
Proof. destruct e; cbn; intros H; try discriminate. eauto. Qed.

Lemma obind_ok_iff {E A B} (e : outcome E A) (k : A -> outcome E B) v :
  obind e k = Ok v <-> exists a, e = Ok a /\ k a = Ok v.
Proof.
  split; [apply obind_ok|]. intros (a & -> & H). exact H.
Qed.

Tactic Notation "inv_bind" hyp(H) :=
  let a := fresh "a" in let Ha := fresh "Ha" in
  apply obind_ok in H; destruct H as (a & Ha & H).
Tactic Notation "inv_bind" hyp(H) "as" ident(a) ident(Ha) :=
  apply obind_ok in H; destruct H as (a & Ha & H).

Lemma first_error_ok {A} (l : list (res A)) :
  first_error l = Ok tt <-> Forall (fun r => exists v, r = Ok v) l.
Proof.
  induction l as [|r l IH]; cbn.
  - split; [constructor|reflexivity].
  - destruct r as [v|e|p].
    + rewrite IH. split; [intros H; constructor; eauto|intros H; inversion H; auto].
    + split; [discriminate|intros H; inversion H as [|? ? [v Hv] _]; discriminate].
    + split; [discriminate|intros H; inversion H as [|? ? [v Hv] _]; discriminate].
Qed.

Lemma first_error_map_ok {A B} (f : A -> res B) (l : list A) :
  first_error (map f l) = Ok tt <-> forall x, In x l -> exists v, f x = Ok v.
Proof.
  rewrite first_error_ok, Forall_map, Forall_forall. reflexivity.
Qed.

(* C01: conservation.  Proved here: the per-transaction balance the acceptance of a batch establishes (what a
   transaction declares as outputs plus fee is, denomination by denomination, exactly what its inputs carry),
   and the algebra of the coin supply under insertion and removal. *)
From MelVerif Require Import STF.Proofs.Tactics STF.Proofs.MapLemmas STF.Proofs.Stakes.
From Coq Require Import ZifyN ZifyNat ZifyBool.
Open Scope N_scope.

(* ---- association lists of per-denomination totals *)
Definition sum_of (d : denom) (l : list (denom * N)) : N :=
  fold_right (fun p acc => if denom_eqb d (fst p) then snd p + acc else acc) 0 l.

Lemma denom_eqb_eq a b : denom_eqb a b = true <-> a = b.
Proof.
  split.
  - destruct a, b; cbn; try discriminate; try reflexivity. intros E. apply N.eqb_eq in E. congruence.
  - intros ->. destruct b; cbn; try reflexivity. apply N.eqb_refl.
Qed.
Lemma denom_eqb_refl a : denom_eqb a a = true.
Proof. apply denom_eqb_eq. reflexivity. Qed.
Lemma denom_eqb_sym a b : denom_eqb a b = denom_eqb b a.
Proof.
  destruct (denom_eqb a b) eqn:E.
  - apply denom_eqb_eq in E. subst. symmetry. apply denom_eqb_refl.
  - destruct (denom_eqb b a) eqn:E2; [|reflexivity]. apply denom_eqb_eq in E2. subst.
    rewrite denom_eqb_refl in E. discriminate.
Qed.

(* an association list with at most one entry per denomination *)
Fixpoint keys_nodup (l : list (denom * N)) : Prop :=
  match l with
  | [] => True
  | (d, _) :: r => (forall p, In p r -> denom_eqb d (fst p) = false) /\ keys_nodup r
  end.

Lemma assoc_get_sum d l : keys_nodup l -> sum_of d l = default 0 (assoc_get d l).
Proof.
  unfold assoc_get. induction l as [|[d' v] r IH]; intros Hn; cbn [sum_of fold_right find fst snd]; [reflexivity|].
  destruct Hn as [Hd Hr]. fold (sum_of d r).
  destruct (denom_eqb d d') eqn:E.
  - cbn. apply denom_eqb_eq in E. subst d'.
    assert (sum_of d r = 0).
    { clear IH Hr. induction r as [|p r IHr]; cbn [sum_of fold_right]; [reflexivity|]. fold (sum_of d r).
      rewrite (Hd p (or_introl eq_refl)). apply IHr. intros q Hq. apply Hd. right. exact Hq. }
    lia.
  - rewrite (IH Hr). reflexivity.
Qed.

Lemma assoc_add_spec d v : forall l l',
  assoc_add d v l = Ok l' -> keys_nodup l ->
  keys_nodup l' /\ (forall d', sum_of d' l' = sum_of d' l + (if denom_eqb d' d then v else 0)) /\
  (forall p, In p l' -> In (fst p) (map fst l) \/ fst p = d).
Proof.
  induction l as [|[d0 x] r IH]; intros l' H Hn; cbn [assoc_add] in H.
  - injection H as <-. split; [cbn; split; [intros p []|exact I]|]. split.
    + intros d'. cbn [sum_of fold_right fst snd]. destruct (denom_eqb d' d); lia.
    + intros p [<-|[]]. right. reflexivity.
  - destruct Hn as [Hd Hr]. destruct (denom_eqb d d0) eqn:E.
    + inv_bind H as sum Hs. injection H as <-. unfold add128 in Hs. destruct (_ <? U128); [|discriminate]. injection Hs as <-.
      apply denom_eqb_eq in E. subst d0. split; [split; assumption|]. split.
      * intros d'. cbn [sum_of fold_right fst snd]. destruct (denom_eqb d' d); lia.
      * intros p [<-|Hp]; [left; left; reflexivity|]. left. right. apply in_map. exact Hp.
    + inv_bind H as r' Hr'. injection H as <-. destruct (IH _ Hr' Hr) as (Hn' & Hs' & Hk').
      split.
      * split; [|exact Hn']. intros p Hp. destruct (Hk' p Hp) as [Hin|Ep].
        -- apply in_map_iff in Hin as (q & Eq & Hq). rewrite <- Eq. apply Hd. exact Hq.
        -- rewrite Ep, denom_eqb_sym. exact E.
      * split.
        -- intros d'. cbn [sum_of fold_right fst snd]. fold (sum_of d' r') (sum_of d' r). rewrite Hs'.
           destruct (denom_eqb d' d0); lia.
        -- intros p [<-|Hp]; [left; left; reflexivity|]. destruct (Hk' p Hp) as [Hin|Ed]; [left; right; exact Hin|right; exact Ed].
Qed.

(* ---- total_outputs: per-denomination sums of the declared outputs, the fee added to MEL *)
Definition out_sum (d : denom) (t : tx) : N :=
  fold_right (fun o acc => if denom_eqb d (cd_denom o) then cd_value o + acc else acc) 0 (t_outputs t)
  + (if denom_eqb d Mel then t_fee t else 0).

Lemma total_outputs_go_spec : forall outs acc r,
  total_outputs_go outs acc = Ok r -> keys_nodup acc ->
  keys_nodup r /\ forall d, sum_of d r = sum_of d acc
     + fold_right (fun o a => if denom_eqb d (cd_denom o) then cd_value o + a else a) 0 outs.
Proof.
  induction outs as [|o outs IH]; intros acc r H Hn; cbn [total_outputs_go] in H.
  - injection H as <-. split; [exact Hn|]. intros d. cbn. lia.
  - inv_bind H as acc' Ha. destruct (assoc_add_spec _ _ _ _ Ha Hn) as (Hn' & Hs' & _).
    destruct (IH _ _ H Hn') as (Hn2 & Hs2). split; [exact Hn2|].
    intros d. rewrite Hs2, Hs'. cbn [fold_right]. destruct (denom_eqb d (cd_denom o)); lia.
Qed.

Theorem total_outputs_spec t outs :
  total_outputs t = Ok outs -> keys_nodup outs /\ forall d, sum_of d outs = out_sum d t.
Proof.
  unfold total_outputs, out_sum. intros H. inv_bind H as acc Ha.
  destruct (total_outputs_go_spec _ _ _ Ha I) as (Hn & Hs).
  destruct (assoc_add_spec _ _ _ _ H Hn) as (Hn' & Hs' & _). split; [exact Hn'|].
  intros d. rewrite Hs', Hs. cbn [sum_of fold_right]. lia.
Qed.

(* ---- check_inputs: per-denomination sums of the spent coins *)
Section Bal.
Variable SO : stf_oracle.
Variable s : wstate.
Variable lh : header.

Definition in_sum (relevant : gmap N cdh) (d : denom) (ins : list (N * N)) : N :=
  fold_right (fun i acc => match relevant !! input_key i with
                           | Some c => if denom_eqb d (cd_denom (c_data c)) then cd_value (c_data c) + acc else acc
                           | None => acc end) 0 ins.

Lemma check_inputs_sums relevant ns t : forall ins idx good inc r,
  check_inputs SO s lh relevant ns t idx ins good inc = Ok r -> keys_nodup inc ->
  keys_nodup r /\ forall d, sum_of d r = sum_of d inc + in_sum relevant d ins.
Proof.
  induction ins as [|i0 ins IH]; intros idx good inc r H Hn; cbn [check_inputs] in H.
  - injection H as <-. split; [exact Hn|]. intros d. cbn. lia.
  - inv_bind H as gi Hgi. destruct gi as [good1 inc1]. cbn [fst snd] in H.
    unfold check_input in Hgi. destruct (coin_locked s ns (fst i0)); [discriminate|].
    destruct (relevant !! input_key i0) as [c|] eqn:Ec; [|discriminate].
    inv_bind Hgi as g Hg. inv_bind Hgi as inc2 Hinc. injection Hgi as <- <-.
    destruct (assoc_add_spec _ _ _ _ Hinc Hn) as (Hn' & Hs' & _).
    destruct (IH _ _ _ _ H Hn') as (Hn2 & Hs2). split; [exact Hn2|].
    intros d. rewrite Hs2, Hs'. cbn [in_sum fold_right]. rewrite Ec. fold (in_sum relevant d ins).
    destruct (denom_eqb d (cd_denom (c_data c))); lia.
Qed.

(* C01, one transaction: for every denomination other than the new-token placeholder (and ERG for a mint
   transaction, which is bounded by the reward instead), what an accepted non-faucet transaction declares as
   outputs plus its fee is EXACTLY what its inputs carry; a denomination it does not mention among its outputs
   is simply burnt.  So a transaction never puts more of an existing denomination into coins and fees than it
   takes out of coins. *)
Theorem accepted_tx_balanced relevant ns t :
  check_tx_validity SO s lh relevant ns t = Ok tt -> t_kind t <> KFaucet ->
  forall d, d <> NewCustom -> ~ (t_kind t = KDoscMint /\ d = Erg) ->
  out_sum d t = 0 \/ out_sum d t = in_sum relevant d (t_inputs t).
Proof.
  unfold check_tx_validity. intros H Hk d Hd Hm.
  inv_bind H as inc Hinc. inv_bind H as outs Houts.
  destruct (check_inputs_sums _ _ _ _ _ _ _ _ Hinc I) as (Hni & Hsi).
  destruct (total_outputs_spec _ _ Houts) as (Hno & Hso).
  unfold check_balanced in H. destruct (txkind_eqb (t_kind t) KFaucet) eqn:Ek.
  { destruct (t_kind t); cbn in Ek; try discriminate. contradiction. }
  destruct (forallb _ outs) eqn:Ef; [|discriminate].
  rewrite <- Hso, <- (N.add_0_l (in_sum relevant d (t_inputs t))).
  change 0 with (sum_of d []) at 2. rewrite <- Hsi.
  rewrite (assoc_get_sum d outs Hno), (assoc_get_sum d inc Hni).
  destruct (assoc_get d outs) as [v|] eqn:Fo; [|left; reflexivity].
  right. cbn [default].
  assert (Hin: In (d, v) outs).
  { unfold assoc_get in Fo. destruct (find (fun p => denom_eqb d (fst p)) outs) as [[d' v']|] eqn:Ff; [|discriminate].
    injection Fo as <-. apply find_some in Ff as [Hin Ed]. cbn in Ed. apply denom_eqb_eq in Ed. subst d'. exact Hin. }
  rewrite forallb_forall in Ef. specialize (Ef _ Hin). cbn beta iota in Ef.
  assert (G: (if txkind_eqb (t_kind t) KDoscMint && denom_eqb d Erg then true
              else match assoc_get d inc with Some x => x =? v | None => false end) = true).
  { destruct d; try contradiction; exact Ef. }
  destruct (txkind_eqb (t_kind t) KDoscMint && denom_eqb d Erg) eqn:Em.
  - exfalso. apply andb_true_iff in Em as [E1 E2]. apply denom_eqb_eq in E2. apply Hm.
    split; [destruct (t_kind t); cbn in E1; try discriminate; reflexivity|exact E2].
  - cbn [default]. destruct (assoc_get d inc) as [x|]; [apply N.eqb_eq in G; subst; reflexivity|discriminate].
Qed.
End Bal.

(* ---- the coin supply as a fold over the coin map, and how insertion / removal move it *)
Definition coin_supply (d : denom) (coins : gmap N cdh) : N :=
  map_fold (fun _ c acc => if denom_eqb (cd_denom (c_data c)) d then acc + cd_value (c_data c) else acc) 0 coins.

Lemma coin_supply_insert_fresh d k c coins :
  coins !! k = None ->
  coin_supply d (<[k := c]> coins) = coin_supply d coins + (if denom_eqb (cd_denom (c_data c)) d then cd_value (c_data c) else 0).
Proof.
  intros Hk. unfold coin_supply. rewrite map_fold_insert_L; [destruct (denom_eqb _ d); lia| |exact Hk].
  intros j1 j2 z1 z2 y _ _ _. destruct (denom_eqb _ d); destruct (denom_eqb _ d); lia.
Qed.

Lemma coin_supply_delete d k c coins :
  coins !! k = Some c ->
  coin_supply d coins = coin_supply d (delete k coins) + (if denom_eqb (cd_denom (c_data c)) d then cd_value (c_data c) else 0).
Proof.
  intros Hk. rewrite <- (insert_delete coins k c Hk) at 1. apply coin_supply_insert_fresh. apply lookup_delete.
Qed.

(* spending removes exactly the value of the spent coin; creating adds exactly the value of the new coin *)
Theorem spending_never_increases_supply d k coins : coin_supply d (delete k coins) <= coin_supply d coins.
Proof.
  destruct (coins !! k) as [c|] eqn:E.
  - rewrite (coin_supply_delete d k c coins E). lia.
  - rewrite delete_notin by exact E. lia.
Qed.

(* Data types of the state-transition function (melstructs + src/state.rs), definitions only. *)
From stdpp Require Export gmap.
From MelVerif Require Export Base.Arith VM.Exec.
Open Scope N_scope.

Inductive denom := Mel | Sym | Erg | NewCustom | Custom (h : N).
Global Instance denom_eq_dec : EqDecision denom.
Proof. solve_decision. Defined.

Definition denom_eqb (a b : denom) : bool :=
  match a, b with
  | Mel, Mel | Sym, Sym | Erg, Erg | NewCustom, NewCustom => true
  | Custom x, Custom y => x =? y
  | _, _ => false
  end.

(* Denom::to_bytes: "m" "s" "d" "" or the 32 bytes of the hash *)
Definition denom_bytes (d : denom) : list N :=
  match d with
  | Mel => [109] | Sym => [115] | Erg => [100] | NewCustom => []
  | Custom h => be_bytes 32 h
  end.

(* Denom::from_bytes *)
Definition denom_of_bytes (b : list N) : option denom :=
  match b with
  | [109] => Some Mel | [115] => Some Sym | [100] => Some Erg | [] => Some NewCustom
  | _ => if N.of_nat (length b) =? 32 then Some (Custom (of_be b)) else None
  end.

Record coindata := {
  cd_covhash : N;
  cd_value : N;
  cd_denom : denom;
  cd_extra : list N            (* additional_data *)
}.
Record cdh := { c_data : coindata; c_height : N }.

(* CoinID (txhash, index: u8) as one key *)
Definition coin_key (txhash idx : N) : N := txhash * 256 + idx.

Inductive txkind := KNormal | KStake | KDoscMint | KSwap | KLiqDeposit | KLiqWithdraw | KFaucet.
Definition txkind_eqb (a b : txkind) : bool :=
  match a, b with
  | KNormal, KNormal | KStake, KStake | KDoscMint, KDoscMint | KSwap, KSwap
  | KLiqDeposit, KLiqDeposit | KLiqWithdraw, KLiqWithdraw | KFaucet, KFaucet => true
  | _, _ => false
  end.
Definition txkind_byte (k : txkind) : N :=
  match k with
  | KNormal => 0 | KStake => 16 | KDoscMint => 80 | KSwap => 81
  | KLiqDeposit => 82 | KLiqWithdraw => 83 | KFaucet => 255
  end.

Record stakedoc := { sd_pubkey : N; sd_start : N; sd_postend : N; sd_staked : N }.

(* what the byte-level decoders of the dependency crates return on tx.data; supplied with the input
   (stdcode/bincode are modelled, not verified) *)
Inductive dosc_data :=
| DDNone                                   (* stdcode::deserialize::<(u32, Vec<u8>)> failed *)
| DDBadProof (difficulty : N)              (* melpow::Proof::from_bytes returned None *)
| DDProof (difficulty : N) (proof_id : N). (* decoded; proof_id names the proof for the melpow oracle *)

Record tx := {
  t_kind : txkind;
  t_inputs : list (N * N);          (* (txhash, index) *)
  t_outputs : list coindata;
  t_fee : N;
  t_covenants : list (list N);
  t_data : list N;
  t_sigs : list (list N);
  (* derived by hashing / serialisation: oracle fields filled from the real crates *)
  t_hash : N;                        (* hash_nosigs *)
  t_fullhash : N;                    (* stdcode().hash(), TIP-908 leaves *)
  t_rawlen : N;                      (* stdcode::serialize(tx).len() *)
  t_covhashes : list N;              (* hash of each element of t_covenants *)
  t_stakedoc : option stakedoc;      (* stdcode::deserialize::<StakeDoc>(data) *)
  t_poolkey : option (denom * denom); (* PoolKey::from_bytes(data) as (left, right), possibly non-canonical *)
  t_dosc : dosc_data
}.

Record pool := { p_lefts : N; p_rights : N; p_accum : N; p_liqs : N }.

Record header := {
  h_network : N;
  h_previous : N;
  h_height : N;
  h_history : N;
  h_coins : N;
  h_txs : N;
  h_fee_pool : N;
  h_fee_mult : N;
  h_dosc_speed : N;
  h_pools : N;
  h_stakes : N
}.

Global Instance header_eq_dec : EqDecision header.
Proof. solve_decision. Defined.

Record action := { a_delta : Z; a_dest : N }.   (* fee_multiplier_delta: i8, reward_dest *)

(* the five Merkle roots of a state; in theorems a function of the contents, in the correspondence check
   the roots the implementation produced *)
Record roots := { r_history : N; r_coins : N; r_txs : N; r_pools : N; r_stakes : N }.

Record wstate := {
  s_network : N;                   (* NetID byte: 255 mainnet, 1 testnet, 2..8 custom *)
  s_height : N;
  s_history : gmap N header;
  s_coins : gmap N cdh;            (* coin_key -> coin *)
  s_counts : gmap N N;             (* covenant hash -> number of coins (TIP-906), same SMT in the code *)
  s_txs : gmap N tx;               (* by hash_nosigs *)
  s_fee_pool : N;
  s_fee_mult : N;
  s_tips : N;
  s_dosc_speed : N;
  s_pools : gmap N pool;           (* by pool_key_code (PoolKey::to_bytes) *)
  s_stakes : gmap N stakedoc       (* by staking txhash *)
}.

Inductive err :=
| EMalformed | ENonexistentCoin | EUnbalanced | EInsufficientFees | ENonexistentScript
| EViolatesScript | EInvalidMelPoW | EWrongHeader | ECoinLocked | EDuplicateTx.
Definition err_code (e : err) : N :=
  match e with
  | EMalformed => 1 | ENonexistentCoin => 2 | EUnbalanced => 3 | EInsufficientFees => 4
  | ENonexistentScript => 5 | EViolatesScript => 6 | EInvalidMelPoW => 7 | EWrongHeader => 8
  | ECoinLocked => 9 | EDuplicateTx => 10
  end.

Definition res := outcome err.

(* panic tags: where in the Rust source the model says the implementation panics *)
Definition P_RATIO_ZERO : N := 1.       (* Ratio::new(_, 0) / division of rationals by zero *)
Definition P_OVERFLOW : N := 2.         (* debug-profile arithmetic overflow *)
Definition P_UNDERFLOW : N := 3.
Definition P_ASSERT : N := 4.           (* assert!(self.liqs >= liqs) *)
Definition P_UNWRAP : N := 5.           (* unwrap / expect / index on a missing entry *)
Definition P_DIVZERO : N := 6.          (* integer division by zero *)
Definition P_SHIFT : N := 7.            (* shift amount >= bit width *)
Definition P_MELPOW : N := 8.           (* panic inside melpow::Proof::verify *)

Definition MAX_COINVAL : N := 2 ^ 120.
Definition MICRO : N := 1000000.
Definition STAKE_EPOCH : N := 200000.
Definition MAINNET : N := 255.
Definition TESTNET : N := 1.
Definition CUSTOM08 : N := 8.

(* melpow::Proof::verify under the two hash functions *)
Inductive verdict := VInvalid | VLegacy | VTip910.

(* oracles: everything obtained by hashing, signatures, proof-of-work *)
Record stf_oracle := {
  so_vm : oracle;                                (* Hash / SigEOk inside covenants *)
  so_reward_id : N -> N;                         (* CoinID::proposer_reward(height).txhash *)
  so_faucet_marker : N -> N;                     (* faucet_dedup_pseudocoin(txhash).txhash *)
  so_liq_denom : N -> N;                         (* PoolKey::liq_token_denom, by pool key code *)
  so_header_hash : header -> N;
  so_melpow : N -> N -> N -> N -> verdict;       (* proof_id, header hash of the seed block, coin key, difficulty;
                                                    a verification that panics counts as invalid (proof_is_tip910) *)
  so_ed25519 : N -> N -> list N -> bool          (* pubkey, message (header hash), signature *)
}.

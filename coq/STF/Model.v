(* Executable model of the state-transition function: src/state.rs, src/state/applytx.rs,
   src/state/melmint.rs, src/state/coins.rs, lib/tip911-stakeset, and the melstructs arithmetic they call.
   Definitions only.  Every Rust panic site is an explicit [Panic] outcome. *)
From MelVerif Require Export STF.Types VM.Codec Generated.
Open Scope N_scope.

Definition U64MAX : N := 18446744073709551615.
(* BUG_TX_HASH (the hash of the one grandfathered faucet transaction) comes from Generated.v: it is re-read from
   src/state/applytx.rs on every run *)

(* ---------------------------------------------------------------- record updates *)
Definition set_coins (s : wstate) (c : gmap N cdh) (n : gmap N N) : wstate :=
  {| s_network := s_network s; s_height := s_height s; s_history := s_history s; s_coins := c; s_counts := n;
     s_txs := s_txs s; s_fee_pool := s_fee_pool s; s_fee_mult := s_fee_mult s; s_tips := s_tips s;
     s_dosc_speed := s_dosc_speed s; s_pools := s_pools s; s_stakes := s_stakes s |}.
Definition set_pools (s : wstate) (p : gmap N pool) : wstate :=
  {| s_network := s_network s; s_height := s_height s; s_history := s_history s; s_coins := s_coins s; s_counts := s_counts s;
     s_txs := s_txs s; s_fee_pool := s_fee_pool s; s_fee_mult := s_fee_mult s; s_tips := s_tips s;
     s_dosc_speed := s_dosc_speed s; s_pools := p; s_stakes := s_stakes s |}.
Definition set_fees (s : wstate) (fee_pool tips : N) : wstate :=
  {| s_network := s_network s; s_height := s_height s; s_history := s_history s; s_coins := s_coins s; s_counts := s_counts s;
     s_txs := s_txs s; s_fee_pool := fee_pool; s_fee_mult := s_fee_mult s; s_tips := tips;
     s_dosc_speed := s_dosc_speed s; s_pools := s_pools s; s_stakes := s_stakes s |}.
Definition set_txs (s : wstate) (t : gmap N tx) : wstate :=
  {| s_network := s_network s; s_height := s_height s; s_history := s_history s; s_coins := s_coins s; s_counts := s_counts s;
     s_txs := t; s_fee_pool := s_fee_pool s; s_fee_mult := s_fee_mult s; s_tips := s_tips s;
     s_dosc_speed := s_dosc_speed s; s_pools := s_pools s; s_stakes := s_stakes s |}.
Definition set_mult (s : wstate) (m : N) : wstate :=
  {| s_network := s_network s; s_height := s_height s; s_history := s_history s; s_coins := s_coins s; s_counts := s_counts s;
     s_txs := s_txs s; s_fee_pool := s_fee_pool s; s_fee_mult := m; s_tips := s_tips s;
     s_dosc_speed := s_dosc_speed s; s_pools := s_pools s; s_stakes := s_stakes s |}.
Definition set_speed_stakes (s : wstate) (sp : N) (st : gmap N stakedoc) : wstate :=
  {| s_network := s_network s; s_height := s_height s; s_history := s_history s; s_coins := s_coins s; s_counts := s_counts s;
     s_txs := s_txs s; s_fee_pool := s_fee_pool s; s_fee_mult := s_fee_mult s; s_tips := s_tips s;
     s_dosc_speed := sp; s_pools := s_pools s; s_stakes := st |}.

(* ---------------------------------------------------------------- TIP activation *)
Definition tip_condition (s : wstate) (activation : N) : bool :=
  if activation =? U64MAX then false
  else if s_network s =? MAINNET then activation <=? s_height s
  else if s_network s =? TESTNET then 500 <=? s_height s
  else true.
Definition tip_901 s := tip_condition s TIP_901_HEIGHT.
Definition tip_902 s := tip_condition s TIP_902_HEIGHT.
Definition tip_906 s := tip_condition s TIP_906_HEIGHT.
Definition tip_908 s := tip_condition s TIP_908_HEIGHT || (s_network s =? CUSTOM08).
Definition tip_909 s := tip_condition s TIP_909_HEIGHT.
Definition tip_909a s := tip_condition s TIP_909A_HEIGHT.
Definition legacy_net (s : wstate) : bool := (s_network s =? MAINNET) || (s_network s =? TESTNET).

(* ---------------------------------------------------------------- coin tree (coins.rs) *)
Definition coin_count (n : gmap N N) (covhash : N) : N := default 0 (n !! covhash).
Definition set_count (n : gmap N N) (covhash c : N) : gmap N N :=
  if c =? 0 then delete covhash n else <[covhash := c]> n.

Definition insert_coin (tip906 : bool) (k : N) (c : cdh) (cn : gmap N cdh * gmap N N) : gmap N cdh * gmap N N :=
  let '(coins, counts) := cn in
  let preexist := match coins !! k with Some _ => true | None => false end in
  let counts' := if tip906 && negb preexist
                 then <[cd_covhash (c_data c) := coin_count counts (cd_covhash (c_data c)) + 1]> counts
                 else counts in
  (<[k := c]> coins, counts').

Definition remove_coin (tip906 : bool) (k : N) (cn : gmap N cdh * gmap N N) : res (gmap N cdh * gmap N N) :=
  let '(coins, counts) := cn in
  if tip906 then
    match coins !! k with
    | Some c =>
      let cnt := coin_count counts (cd_covhash (c_data c)) in
      if cnt =? 0 then Panic P_UNDERFLOW
      else Ok (delete k coins, set_count counts (cd_covhash (c_data c)) (cnt - 1))
    | None => Ok (delete k coins, counts)
    end
  else Ok (delete k coins, counts).

(* ---------------------------------------------------------------- pool keys (melstructs::PoolKey) *)
Definition denom_ser (d : denom) : list N := let b := denom_bytes d in N.of_nat (length b) :: b.
Definition poolkey_bytes (k : denom * denom) : list N :=
  let '(l, r) := k in
  if denom_eqb l Mel then denom_bytes r
  else if denom_eqb r Mel then denom_bytes l
  else repeat 0 32 ++ denom_ser l ++ denom_ser r.
(* injective coding of a byte string as a number: big endian with a leading 1 *)
Definition bytes_code (b : list N) : N := of_be (1 :: b).
Definition poolkey_code (k : denom * denom) : N := bytes_code (poolkey_bytes k).

Fixpoint bytes_ltb (a b : list N) : bool :=   (* lexicographic < on byte strings *)
  match a, b with
  | [], [] => false
  | [], _ => true
  | _, [] => false
  | x :: a', y :: b' => if x <? y then true else if y <? x then false else bytes_ltb a' b'
  end.
(* PoolKey::new: canonical order by Denom::to_bytes *)
Definition poolkey_new (x y : denom) : denom * denom :=
  if bytes_ltb (denom_bytes y) (denom_bytes x) then (y, x) else (x, y).

(* pool_key_from_data (melmint.rs): only the canonical spelling of a pool name is a pool request *)
Definition is_newcustom (d : denom) : bool := match d with NewCustom => true | _ => false end.
Definition canonical_key (k : denom * denom) (data : list N) : bool :=
  negb (denom_eqb (fst k) (snd k)) && negb (is_newcustom (fst k)) && negb (is_newcustom (snd k))
  && (let k' := poolkey_new (fst k) (snd k) in denom_eqb (fst k') (fst k) && denom_eqb (snd k') (snd k))
  && (fix eqb (a b : list N) : bool :=
        match a, b with [], [] => true | x :: a', y :: b' => (x =? y) && eqb a' b' | _, _ => false end)
       (poolkey_bytes k) data.

(* derived Ord on Denom (variant order, then hash) and on PoolKey (left, right) *)
Definition denom_rank (d : denom) : N * N :=
  match d with Mel => (0, 0) | Sym => (1, 0) | Erg => (2, 0) | NewCustom => (3, 0) | Custom h => (4, h) end.
Definition denom_ltb (a b : denom) : bool :=
  let '(a1, a2) := denom_rank a in let '(b1, b2) := denom_rank b in
  (a1 <? b1) || ((a1 =? b1) && (a2 <? b2)).
Definition poolkey_eqb (a b : denom * denom) : bool := denom_eqb (fst a) (fst b) && denom_eqb (snd a) (snd b).
Definition poolkey_ltb (a b : denom * denom) : bool :=
  denom_ltb (fst a) (fst b) || (denom_eqb (fst a) (fst b) && denom_ltb (snd a) (snd b)).

Fixpoint insert_sorted (k : denom * denom) (l : list (denom * denom)) : list (denom * denom) :=
  match l with
  | [] => [k]
  | x :: r => if poolkey_eqb k x then l else if poolkey_ltb k x then k :: l else x :: insert_sorted k r
  end.
Definition tx_pool (t : tx) : option (denom * denom) :=
  match t_poolkey t with
  | Some k => if canonical_key k (t_data t) then Some k else None
  | None => None
  end.

(* extract_pool_keys_sorted: sort + dedup *)
Definition pool_keys_sorted (txs : list tx) : list (denom * denom) :=
  fold_right (fun t acc => match tx_pool t with Some k => insert_sorted k acc | None => acc end) [] txs.
Definition txs_for_pool (txs : list tx) (k : denom * denom) : list tx :=
  List.filter (fun t => match tx_pool t with Some k' => poolkey_eqb k k' | None => false end) txs.

(* ---------------------------------------------------------------- PoolState arithmetic (melstructs::melswap) *)
Definition to_u128_sat (x : N) : N := if x <? U128 then x else MAX128.

(* multiply_ratio: floor(x * a / b), and 0 for an empty total *)
Definition multiply_ratio (x a b : N) : N :=
  if b =? 0 then 0 else to_u128_sat (x * a / b).

Definition swap_many (p : pool) (lefts rights : N) : res (pool * N * N) :=
  let L := sat_add128 (p_lefts p) lefts in
  let R := sat_add128 (p_rights p) rights in
  if R =? 0 then Panic P_RATIO_ZERO           (* Ratio::new(lefts, 0) *)
  else if L =? 0 then Panic P_RATIO_ZERO      (* division by the zero rational 0/R *)
  else
    let rw := to_u128_sat (lefts * R * 995 / (L * 1000)) in
    let lw := to_u128_sat (rights * L * 995 / (R * 1000)) in
    if L <? lw then Panic P_UNDERFLOW else
    if R <? rw then Panic P_UNDERFLOW else
    let L' := L - lw in
    let R' := R - rw in
    if R' =? 0 then Panic P_DIVZERO else
    let acc := (p_accum p + sat_mul128 L' MICRO / R') mod U128 in
    Ok ({| p_lefts := L'; p_rights := R'; p_accum := acc; p_liqs := p_liqs p |}, lw, rw).

Definition pool_deposit (p : pool) (lefts rights : N) : res (pool * N) :=
  if p_liqs p =? 0 then
    Ok ({| p_lefts := lefts; p_rights := rights; p_accum := p_accum p; p_liqs := lefts |}, lefts)
  else
    let mels := sat_add128 lefts (p_lefts p) - p_lefts p in
    let tokens := sat_add128 rights (p_rights p) - p_rights p in
    if p_lefts p * p_rights p =? 0 then Panic P_RATIO_ZERO else
    let dl2 := p_liqs p * p_liqs p * (mels * tokens) / (p_lefts p * p_rights p) in
    let dl := to_u128_sat (N.sqrt dl2) in
    Ok ({| p_lefts := p_lefts p + mels; p_rights := p_rights p + tokens; p_accum := p_accum p;
           p_liqs := sat_add128 (p_liqs p) dl |}, dl).

Definition pool_withdraw (p : pool) (liqs : N) : res (pool * N * N) :=
  if p_liqs p <? liqs then Panic P_ASSERT
  else if p_liqs p =? 0 then Panic P_RATIO_ZERO
  else
    let l' := p_liqs p - liqs in
    if l' =? 0 then
      Ok ({| p_lefts := 0; p_rights := 0; p_accum := p_accum p; p_liqs := 0 |}, p_lefts p, p_rights p)
    else
      let a := p_lefts p * liqs / p_liqs p in
      let b := p_rights p * liqs / p_liqs p in
      Ok ({| p_lefts := p_lefts p - a; p_rights := p_rights p - b; p_accum := p_accum p; p_liqs := l' |}, a, b).

Definition new_empty_pool : pool := {| p_lefts := 0; p_rights := 0; p_accum := 0; p_liqs := 0 |}.
Definition builtin_pool : pool :=
  {| p_lefts := MICRO * 1000; p_rights := MICRO * 1000; p_accum := 0; p_liqs := MICRO * 1000 |}.

(* ---------------------------------------------------------------- Melmint formulas (melmint.rs) *)
Definition inflator_step (t : N) : N := N.max (t + 1) (t + t / 2000000).
(* microergs_per_dosc: table t(0) = 10^6, t(h+1) = max(t+1, t + t/2000000); closed form below 3*10^6 *)
Definition microergs_per_dosc (height : N) : N :=
  if height <=? 3000000 then MICRO + height
  else N.iter (height - 3000000) inflator_step 4000000.

Definition dosc_to_erg (height real : N) : res N :=
  let r := microergs_per_dosc height * real / MICRO in
  if r <? U128 then Ok r else Panic P_UNWRAP.

Definition calculate_reward (my_speed dosc_speed difficulty : N) (tip910 : bool) : res N :=
  if 128 <=? difficulty then Panic P_OVERFLOW else
  let work := 2 ^ difficulty in
  let work := if tip910 then sat_mul128 work 100 else work in
  if dosc_speed =? 0 then Panic P_DIVZERO else
  Ok (to_u128_sat (work * my_speed * MICRO / (dosc_speed * dosc_speed * 2880))).

(* ---------------------------------------------------------------- transactions (melstructs::Transaction) *)
Definition well_formed (t : tx) : bool :=
  forallb (fun o => cd_value o <=? MAX_COINVAL) (t_outputs t)
  && (t_fee t <=? MAX_COINVAL)
  && (N.of_nat (length (t_outputs t)) <=? 255).

Fixpoint enumerate {A} (i : N) (l : list A) : list (N * A) :=
  match l with [] => [] | x :: r => (i, x) :: enumerate (i + 1) r end.

Definition fix_denom (t : tx) (d : denom) : denom :=
  match d with NewCustom => Custom (t_hash t) | _ => d end.

(* output_coins_from_tx: outputs to the destroy address (covhash 0) are dropped *)
Definition output_coins (height : N) (t : tx) : list (N * cdh) :=
  flat_map (fun '(i, cd) =>
    if cd_covhash cd =? 0 then []
    else [(coin_key (t_hash t) (i mod 256),
           {| c_data := {| cd_covhash := cd_covhash cd; cd_value := cd_value cd;
                           cd_denom := fix_denom t (cd_denom cd); cd_extra := cd_extra cd |};
              c_height := height |})])
    (enumerate 0 (t_outputs t)).

Definition input_key (i : N * N) : N := coin_key (fst i) (snd i).

Definition cov_weight (b : list N) : N :=
  match decode_all b with Some ops => weight ops | None => 0 end.

(* Transaction::weight with `.sum()` as a checked u128 sum *)
Fixpoint sum128 (l : list N) : res N :=
  match l with
  | [] => Ok 0
  | x :: r => match sum128 r with Ok s => add128 P_OVERFLOW x s | e => e end
  end.
Definition tx_weight (t : tx) : res N :=
  sw <- sum128 (map cov_weight (t_covenants t)) ;;
  Ok (sat_sub128 (sat_add128 (sat_add128 (t_rawlen t) sw) (N.of_nat (length (t_outputs t)) * 1000))
                 (N.of_nat (length (t_inputs t)) * 1000)).
Definition min_fee (mult : N) (t : tx) : res N :=
  w <- tx_weight t ;; Ok (sat_mul128 w mult / 65536).

(* total_outputs: per-denomination sums with unchecked `+` (debug: panic on overflow), fee added to MEL *)
Fixpoint assoc_add (d : denom) (v : N) (l : list (denom * N)) : res (list (denom * N)) :=
  match l with
  | [] => Ok [(d, v)]
  | (d', x) :: r =>
    if denom_eqb d d' then (s <- add128 P_OVERFLOW x v ;; Ok ((d', s) :: r))
    else (r' <- assoc_add d v r ;; Ok ((d', x) :: r'))
  end.
Definition assoc_get (d : denom) (l : list (denom * N)) : option N :=
  match find (fun p => denom_eqb d (fst p)) l with Some p => Some (snd p) | None => None end.
Fixpoint total_outputs_go (outs : list coindata) (acc : list (denom * N)) : res (list (denom * N)) :=
  match outs with
  | [] => Ok acc
  | o :: r => acc' <- assoc_add (cd_denom o) (cd_value o) acc ;; total_outputs_go r acc'
  end.
Definition total_outputs (t : tx) : res (list (denom * N)) :=
  acc <- total_outputs_go (t_outputs t) [] ;; assoc_add Mel (t_fee t) acc.

(* totals_fit_u128 (applytx.rs): the unchecked sums of total_outputs and of Transaction::weight must not overflow *)
Definition totals_fit (t : tx) : bool :=
  match total_outputs t, sum128 (map cov_weight (t_covenants t)) with
  | Ok _, Ok _ => true
  | _, _ => false
  end.

(* ---------------------------------------------------------------- covenant environment (melvm value.rs / executor.rs) *)
Definition vhash (h : N) : value := VBytes (be_bytes 32 h).
Definition coindata_value (c : coindata) : value :=
  VVec [vhash (cd_covhash c); VInt (cd_value c); VBytes (denom_bytes (cd_denom c)); VBytes (cd_extra c)].
Definition tx_value (t : tx) : value :=
  VVec [VInt (txkind_byte (t_kind t));
        VVec (map (fun i => VVec [vhash (fst i); VInt (snd i)]) (t_inputs t));
        VVec (map coindata_value (t_outputs t));
        VInt (t_fee t);
        VVec (map VBytes (t_covenants t));
        VBytes (t_data t);
        VVec (map VBytes (t_sigs t))].
Definition header_value (h : header) : value :=
  VVec [VInt (h_network h); vhash (h_previous h); VInt (h_height h); vhash (h_history h); vhash (h_coins h);
        vhash (h_txs h); VInt (h_fee_pool h); VInt (h_fee_mult h); VInt (h_dosc_speed h);
        vhash (h_pools h); vhash (h_stakes h)].
Definition env_heap (t : tx) (parent : N * N) (c : cdh) (spender_index : N) (last : header) : list (N * value) :=
  [ (HADDR_SPENDER_TXHASH, vhash (t_hash t));
    (HADDR_SPENDER_TX, tx_value t);
    (HADDR_PARENT_TXHASH, vhash (fst parent));
    (HADDR_PARENT_INDEX, VInt (snd parent));
    (HADDR_SELF_HASH, vhash (cd_covhash (c_data c)));
    (HADDR_PARENT_VALUE, VInt (cd_value (c_data c)));
    (HADDR_PARENT_DENOM, VBytes (denom_bytes (cd_denom (c_data c))));
    (HADDR_PARENT_ADDITIONAL_DATA, VBytes (cd_extra (c_data c)));
    (HADDR_PARENT_HEIGHT, VInt (c_height c));
    (HADDR_LAST_HEADER, header_value last);
    (HADDR_SPENDER_INDEX, VInt spender_index) ].

(* Covenant::execute(..).map(into_bool).unwrap_or(false) *)
Definition covenant_accepts (O : oracle) (prog : list op) (hp : list (N * value)) : bool :=
  match run O prog hp with
  | Finished (Some v) _ => into_bool v
  | _ => false
  end.

Fixpoint find_script (covhash : N) (hs : list N) (cs : list (list N)) : option (list N) :=
  match hs, cs with
  | h :: hs', c :: cs' => if h =? covhash then Some c else find_script covhash hs' cs'
  | _, _ => None
  end.

(* ---------------------------------------------------------------- apply_tx_batch (applytx.rs) *)
Section Batch.
Variable SO : stf_oracle.
Variable s : wstate.                 (* `this` *)
Variable last_header : header.       (* history[height-1], or at height 0 the header of seal(None) of this state *)

Definition coin_locked (new_stakes : gmap N stakedoc) (txhash : N) : bool :=
  (match new_stakes !! txhash with Some _ => true | None => false end
   || match s_stakes s !! txhash with Some _ => true | None => false end)
  && negb (legacy_net s && (s_height s <? 900000)).

Fixpoint dup_free (seen : gmap N unit) (ks : list N) : bool :=
  match ks with
  | [] => true
  | k :: r => match seen !! k with Some _ => false | None => dup_free (<[k := tt]> seen) r end
  end.

Definition all_inputs (txs : list tx) : list N := flat_map (fun t => map input_key (t_inputs t)) txs.

(* the coins created by the batch, keyed by coin id (a later transaction with the same hash overwrites) *)
Definition batch_outputs (height : N) (txs : list tx) : gmap N cdh :=
  fold_left (fun m t => fold_left (fun m kv => <[fst kv := snd kv]> m) (output_coins height t) m) txs ∅.

(* extract_input_coins: inputs that are not outputs of the batch must be in the coin tree *)
Fixpoint lookup_inputs (accum coins : gmap N cdh) (ks : list N) (m : gmap N cdh) : res (gmap N cdh) :=
  match ks with
  | [] => Ok m
  | k :: r =>
    match accum !! k with
    | Some _ => lookup_inputs accum coins r m
    | None => match coins !! k with
              | Some c => lookup_inputs accum coins r (<[k := c]> m)
              | None => Reject ENonexistentCoin
              end
    end
  end.

Definition load_relevant_coins (txs : list tx) : res (gmap N cdh) :=
  if negb (forallb (fun t => well_formed t && totals_fit t) txs) then Reject EMalformed else
  let accum := batch_outputs (s_height s) txs in
  ins <- lookup_inputs accum (s_coins s) (all_inputs txs) ∅ ;;
  if dup_free ∅ (all_inputs txs) then Ok (ins ∪ accum) else Reject ENonexistentCoin.

Definition stake_consistent (d : stakedoc) (epoch : N) (c : coindata) : bool :=
  (epoch <? sd_start d) && (sd_start d <? sd_postend d) && (sd_staked d =? cd_value c).

Fixpoint load_stake_info (txs : list tx) (acc : gmap N stakedoc) : res (gmap N stakedoc) :=
  match txs with
  | [] => Ok acc
  | t :: r =>
    if txkind_eqb (t_kind t) KStake then
      if legacy_net s && (s_height s <? 500000) then load_stake_info r acc
      else match t_stakedoc t with
           | None => Reject EMalformed
           | Some d =>
             match t_outputs t with
             | [] => Reject EMalformed
             | first :: _ =>
               if negb (denom_eqb (cd_denom first) Sym) then Reject EMalformed
               else if stake_consistent d (s_height s / STAKE_EPOCH) first
                    then load_stake_info r (<[t_hash t := d]> acc)
                    else load_stake_info r acc
             end
           end
    else load_stake_info r acc
  end.

(* one input of check_tx_validity; good = covenant hashes already validated for this transaction *)
Definition check_input (relevant : gmap N cdh) (new_stakes : gmap N stakedoc) (t : tx)
           (idx : N) (inp : N * N) (good : list N) (in_coins : list (denom * N))
  : res (list N * list (denom * N)) :=
  if coin_locked new_stakes (fst inp) then Reject ECoinLocked else
  match relevant !! input_key inp with
  | None => Reject ENonexistentCoin
  | Some c =>
    let covhash := cd_covhash (c_data c) in
    good' <-
      (if existsb (N.eqb covhash) good then Ok good
       else match find_script covhash (t_covhashes t) (t_covenants t) with
            | None => Reject ENonexistentScript
            | Some bytes =>
              match decode_all bytes with
              | None => Reject EMalformed
              | Some prog =>
                if covenant_accepts (so_vm SO) prog (env_heap t inp c (idx mod 256) last_header)
                then Ok (covhash :: good) else Reject EViolatesScript
              end
            end) ;;
    in' <- assoc_add (cd_denom (c_data c)) (cd_value (c_data c)) in_coins ;;
    Ok (good', in')
  end.

Fixpoint check_inputs (relevant : gmap N cdh) (new_stakes : gmap N stakedoc) (t : tx)
         (idx : N) (ins : list (N * N)) (good : list N) (in_coins : list (denom * N)) : res (list (denom * N)) :=
  match ins with
  | [] => Ok in_coins
  | i :: r =>
    gi <- check_input relevant new_stakes t idx i good in_coins ;;
    check_inputs relevant new_stakes t (idx + 1) r (fst gi) (snd gi)
  end.

Definition check_balanced (t : tx) (in_coins out_coins : list (denom * N)) : res unit :=
  if txkind_eqb (t_kind t) KFaucet then Ok tt else
  if forallb (fun '(d, v) =>
       match d with
       | NewCustom => true
       | _ => if txkind_eqb (t_kind t) KDoscMint && denom_eqb d Erg then true
              else match assoc_get d in_coins with Some x => x =? v | None => false end
       end) out_coins
  then Ok tt else Reject EUnbalanced.

Definition check_tx_validity (relevant : gmap N cdh) (new_stakes : gmap N stakedoc) (t : tx) : res unit :=
  in_coins <- check_inputs relevant new_stakes t 0 (t_inputs t) [] [] ;;
  out_coins <- total_outputs t ;;
  check_balanced t in_coins out_coins.

Definition validate_doscmint (relevant : gmap N cdh) (t : tx) : res N :=
  match t_inputs t with
  | [] => Panic P_UNWRAP
  | i0 :: _ =>
    match relevant !! input_key i0 with
    | None => Reject ENonexistentCoin
    | Some c =>
      if (s_height s - c_height c <? 100) && (s_network s =? MAINNET) then Reject EInvalidMelPoW else
      match s_history s !! c_height c with
      | None => Reject EInvalidMelPoW
      | Some seed =>
        match t_dosc t with
        | DDNone => Reject EInvalidMelPoW
        | DDBadProof _ => Reject EMalformed
        | DDProof difficulty pid =>
          if (difficulty =? 0) || (64 <? difficulty) then Reject EInvalidMelPoW else
          match so_melpow SO pid (so_header_hash SO seed) (input_key i0) difficulty with
          | VInvalid => Reject EInvalidMelPoW
          | v =>
          let tip910 := match v with VTip910 => true | _ => false end in
          if 128 <=? difficulty then Panic P_OVERFLOW else
          let w := (if tip910 then 100 else 1) * 2 ^ difficulty in
          if U128 <=? w then Panic P_OVERFLOW else
          if s_height s - c_height c =? 0 then Panic P_DIVZERO else
          let speed := w / (s_height s - c_height c) in
          if s_height s =? 0 then Panic P_UNDERFLOW else
          match s_history s !! (s_height s - 1) with
          | None => Reject EInvalidMelPoW
          | Some prev =>
            reward_real <- calculate_reward speed (h_dosc_speed prev) difficulty tip910 ;;
            reward_nom <- dosc_to_erg (s_height s) reward_real ;;
            outs <- total_outputs t ;;
            if reward_nom <? default 0 (assoc_get Erg outs) then Reject EInvalidMelPoW else Ok speed
          end
          end
        end
      end
    end
  end.

Definition is_bug_tx (t : tx) : bool := t_hash t =? BUG_TX_HASH.

Definition marker_coin : cdh :=
  {| c_data := {| cd_covhash := 0; cd_value := 0; cd_denom := Mel; cd_extra := [] |}; c_height := 0 |}.

(* handle_faucet_tx *)
Definition handle_faucet (tip906 : bool) (t : tx) (cn : gmap N cdh * gmap N N) : res (gmap N cdh * gmap N N) :=
  if (s_network s =? MAINNET) && negb (is_bug_tx t) then Reject EMalformed else
  let k := coin_key (so_faucet_marker SO (t_hash t)) 0 in
  match fst cn !! k with
  | Some _ => Reject EDuplicateTx
  | None => if is_bug_tx t then Ok cn else Ok (insert_coin tip906 k marker_coin cn)
  end.

Fixpoint remove_coins (tip906 : bool) (ks : list N) (cn : gmap N cdh * gmap N N) : res (gmap N cdh * gmap N N) :=
  match ks with
  | [] => Ok cn
  | k :: r => cn' <- remove_coin tip906 k cn ;; remove_coins tip906 r cn'
  end.

(* create_next_state.  First pass: faucet dedup marker and the outputs of every transaction;
   second pass: the inputs of every transaction are removed, then its fee is split. *)
Definition insert_outputs (relevant : gmap N cdh) (tip906 : bool) (t : tx) (cn : gmap N cdh * gmap N N)
  : res (gmap N cdh * gmap N N) :=
  cn0 <- (if txkind_eqb (t_kind t) KFaucet then handle_faucet tip906 t cn else Ok cn) ;;
  Ok (fold_left (fun cn '(i, _) =>
        let k := coin_key (t_hash t) (i mod 256) in
        match relevant !! k with Some c => insert_coin tip906 k c cn | None => cn end)
      (enumerate 0 (t_outputs t)) cn0).

Fixpoint insert_all (relevant : gmap N cdh) (tip906 : bool) (txs : list tx) (cn : gmap N cdh * gmap N N)
  : res (gmap N cdh * gmap N N) :=
  match txs with
  | [] => Ok cn
  | t :: r => cn' <- insert_outputs relevant tip906 t cn ;; insert_all relevant tip906 r cn'
  end.

Definition spend_and_pay (tip906 : bool) (t : tx) (n : wstate) : res wstate :=
  cn2 <- remove_coins tip906 (map input_key (t_inputs t)) (s_coins n, s_counts n) ;;
  mf <- min_fee (s_fee_mult n) t ;;
  if t_fee t <? mf then Reject EInsufficientFees else
  let n1 := set_coins n (fst cn2) (snd cn2) in
  let n2 := set_fees n1 (sat_add128 (s_fee_pool n) mf) (sat_add128 (s_tips n) (t_fee t - mf)) in
  Ok (set_txs n2 (<[t_hash t := t]> (s_txs n))).

Fixpoint spend_all (tip906 : bool) (txs : list tx) (n : wstate) : res wstate :=
  match txs with
  | [] => Ok n
  | t :: r => n' <- spend_and_pay tip906 t n ;; spend_all tip906 r n'
  end.

Definition create_next_state (relevant : gmap N cdh) (tip906 : bool) (txs : list tx) (n : wstate) : res wstate :=
  cn <- insert_all relevant tip906 txs (s_coins n, s_counts n) ;;
  spend_all tip906 txs (set_coins n (fst cn) (snd cn)).

(* the rayon try_for_each / try_fold: the batch fails iff some element fails; which error is reported
   depends on scheduling, so the model returns the first in slice order and [validity_errors] lists all *)
Fixpoint first_error {A} (l : list (res A)) : res unit :=
  match l with
  | [] => Ok tt
  | Ok _ :: r => first_error r
  | Reject e :: _ => Reject e
  | Panic p :: _ => Panic p
  end.

Definition apply_tx_batch (txs : list tx) : res wstate :=
  relevant <- load_relevant_coins txs ;;
  new_stakes <- load_stake_info txs ∅ ;;
  _ <- first_error (map (check_tx_validity relevant new_stakes) txs) ;;
  let dm := map (validate_doscmint relevant) (List.filter (fun t => txkind_eqb (t_kind t) KDoscMint) txs) in
  _ <- first_error dm ;;
  let speed := fold_left (fun a r => match r with Ok v => N.max a v | _ => a end) dm (s_dosc_speed s) in
  n <- create_next_state relevant (tip_906 s) txs s ;;
  Ok (set_speed_stakes n speed (new_stakes ∪ s_stakes n)).

(* every error the parallel phases could report (any of them is an acceptable observation) *)
Definition parallel_errors (txs : list tx) : list N :=
  match load_relevant_coins txs with
  | Ok relevant =>
    match load_stake_info txs ∅ with
    | Ok new_stakes =>
      let v := map (check_tx_validity relevant new_stakes) txs in
      let errs {A} (l : list (res A)) : list N :=
        flat_map (fun r => match r with Reject e => [err_code e] | Panic _ => [100] | Ok _ => [] end) l in
      match errs v with
      | [] => errs (map (validate_doscmint relevant) (List.filter (fun t => txkind_eqb (t_kind t) KDoscMint) txs))
      | l => l
      end
    | _ => []
    end
  | _ => []
  end.
End Batch.

(* ---------------------------------------------------------------- Melmint / Melswap at seal (melmint.rs) *)
Section Melmint.
Variable SO : stf_oracle.

Fixpoint ins_by_key {A} (k : N) (v : A) (l : list (N * A)) : list (N * A) :=
  match l with
  | [] => [(k, v)]
  | (k', v') :: r => if k <=? k' then (k, v) :: l else (k', v') :: ins_by_key k v r
  end.
Definition sort_by_key {A} (l : list (N * A)) : list (N * A) :=
  fold_right (fun kv acc => ins_by_key (fst kv) (snd kv) acc) [] l.

Definition sorted_txs (s : wstate) : list tx :=
  (* TransactionSet iterates in increasing txhash order *)
  map snd (sort_by_key (map_to_list (s_txs s))).

Definition has_coin (s : wstate) (k : N) : bool := match s_coins s !! k with Some _ => true | None => false end.
Definition get_pool (s : wstate) (k : denom * denom) : option pool := s_pools s !! poolkey_code k.
Definition put_pool (s : wstate) (k : denom * denom) (p : pool) : wstate :=
  set_pools s (<[poolkey_code k := p]> (s_pools s)).
Definition put_coin (s : wstate) (k : N) (c : cdh) : wstate :=
  let cn := insert_coin (tip_906 s) k c (s_coins s, s_counts s) in set_coins s (fst cn) (snd cn).
Definition out0 (t : tx) : coindata :=
  nth 0 (t_outputs t) {| cd_covhash := 0; cd_value := 0; cd_denom := Mel; cd_extra := [] |}.
Definition out1 (t : tx) : coindata :=
  nth 1 (t_outputs t) {| cd_covhash := 0; cd_value := 0; cd_denom := Mel; cd_extra := [] |}.

Definition create_builtins (s : wstate) : wstate :=
  let add k s := match get_pool s k with Some _ => s | None => put_pool s k builtin_pool end in
  let s := add (poolkey_new Mel Sym) s in
  let s := add (poolkey_new Mel Erg) s in
  if tip_902 s then add (poolkey_new Erg Sym) s else s.

(* get_swap_transactions *)
Definition is_swap_request (s : wstate) (t : tx) : bool :=
  txkind_eqb (t_kind t) KSwap &&
  match t_outputs t with
  | [] => false
  | o0 :: _ =>
    has_coin s (coin_key (t_hash t) 0) &&
    match tx_pool t with
    | None => false
    | Some k =>
      match get_pool s k with
      | None => false
      | Some p => (0 <? p_lefts p) && (0 <? p_rights p)
                  && (denom_eqb (cd_denom o0) (fst k) || denom_eqb (cd_denom o0) (snd k))
      end
    end
  end.

Definition sat_sum (l : list N) : N := fold_left sat_add128 l 0.

(* the per-request rewrite of process_swaps_for_single_pool *)
Fixpoint swaps_go (k : denom * denom) (lw rw tl tr : N) (l : list tx) (s : wstate) : wstate :=
  match l with
  | [] => s
  | t :: rest =>
    let o := out0 t in
    let nv := if denom_eqb (cd_denom o) (fst k)
              then (snd k, N.min (multiply_ratio rw (cd_value o) tl) MAX_COINVAL)
              else (fst k, N.min (multiply_ratio lw (cd_value o) tr) MAX_COINVAL) in
    swaps_go k lw rw tl tr rest
      (put_coin s (coin_key (t_hash t) 0)
         {| c_data := {| cd_covhash := cd_covhash o; cd_value := snd nv; cd_denom := fst nv;
                         cd_extra := cd_extra o |};
            c_height := s_height s |})
  end.

Definition swap_total (d : denom) (swaps : list tx) : N :=
  sat_sum (map (fun t => if denom_eqb (cd_denom (out0 t)) d then cd_value (out0 t) else 0) swaps).

Definition swaps_single_pool (k : denom * denom) (s : wstate) (swaps : list tx) : res wstate :=
  match get_pool s k with
  | None => Panic P_UNWRAP
  | Some p =>
    let tl := swap_total (fst k) swaps in
    let tr := swap_total (snd k) swaps in
    r <- swap_many p tl tr ;;
    let '(p', lw, rw) := r in
    Ok (put_pool (swaps_go k lw rw tl tr swaps s) k p')
  end.

Fixpoint for_pools (f : denom * denom -> wstate -> list tx -> res wstate)
         (reqs : list tx) (keys : list (denom * denom)) (s : wstate) : res wstate :=
  match keys with
  | [] => Ok s
  | k :: r => s' <- f k s (txs_for_pool reqs k) ;; for_pools f reqs r s'
  end.

Definition process_swaps (s : wstate) : res wstate :=
  let reqs := List.filter (is_swap_request s) (sorted_txs s) in
  for_pools swaps_single_pool reqs (pool_keys_sorted reqs) s.

Definition is_deposit_request (s : wstate) (t : tx) : bool :=
  txkind_eqb (t_kind t) KLiqDeposit && (2 <=? N.of_nat (length (t_outputs t)))
  && has_coin s (coin_key (t_hash t) 0) && has_coin s (coin_key (t_hash t) 1)
  && match tx_pool t with
     | None => false
     | Some k =>
       match get_pool s k with
       | Some p => (p_liqs p =? 0) || ((0 <? p_lefts p) && (0 <? p_rights p))
       | None => true
       end
       && denom_eqb (cd_denom (out0 t)) (fst k) && denom_eqb (cd_denom (out1 t)) (snd k)
     end.

Definition del_coin (s : wstate) (k : N) : res wstate :=
  cn <- remove_coin (tip_906 s) k (s_coins s, s_counts s) ;; Ok (set_coins s (fst cn) (snd cn)).

Fixpoint deposits_go (k : denom * denom) (total_liqs total_mtsqrt : N) (l : list tx) (liqs_left : N) (s : wstate)
  : res wstate :=
  match l with
  | [] => Ok s
  | t :: rest =>
    let my := sat_mul128 (N.sqrt (cd_value (out0 t))) (N.sqrt (cd_value (out1 t))) in
    let v := N.min (multiply_ratio total_liqs my total_mtsqrt) liqs_left in
    let s1 := put_coin s (coin_key (t_hash t) 0)
                {| c_data := {| cd_covhash := cd_covhash (out0 t); cd_value := v;
                                cd_denom := Custom (so_liq_denom SO (poolkey_code k));
                                cd_extra := cd_extra (out0 t) |};
                   c_height := s_height s |} in
    s2 <- (if legacy_net s && (s_height s <? 978392) then Ok s1   (* removes the coin of the *rewritten* tx: nothing *)
           else del_coin s1 (coin_key (t_hash t) 1)) ;;
    deposits_go k total_liqs total_mtsqrt rest (liqs_left - v) s2
  end.

Definition deposits_single_pool (k : denom * denom) (s : wstate) (deps : list tx) : res wstate :=
  let tl := sat_sum (map (fun t => cd_value (out0 t)) deps) in
  let tr := sat_sum (map (fun t => cd_value (out1 t)) deps) in
  let total_mtsqrt := sat_mul128 (N.sqrt tl) (N.sqrt tr) in
  pl <- pool_deposit (match get_pool s k with Some p => p | None => new_empty_pool end) tl tr ;;
  let '(p', total_liqs) := pl in
  deposits_go k total_liqs total_mtsqrt deps total_liqs (put_pool s k p').

Definition process_deposits (s : wstate) : res wstate :=
  let reqs := List.filter (is_deposit_request s) (sorted_txs s) in
  for_pools deposits_single_pool reqs (pool_keys_sorted reqs) s.

Definition is_withdraw_request (s : wstate) (t : tx) : bool :=
  txkind_eqb (t_kind t) KLiqWithdraw && (N.of_nat (length (t_outputs t)) =? 1)
  && has_coin s (coin_key (t_hash t) 0)
  && match tx_pool t with
     | None => false
     | Some k => match get_pool s k with
                 | None => false
                 | Some _ => denom_eqb (cd_denom (out0 t)) (Custom (so_liq_denom SO (poolkey_code k)))
                 end
     end.

Fixpoint withdrawals_go (k : denom * denom) (tleft tright total : N) (l : list tx) (s : wstate) : wstate :=
  match l with
  | [] => s
  | t :: rest =>
    let o := out0 t in
    let a := multiply_ratio tleft (cd_value o) total in
    let b := multiply_ratio tright (cd_value o) total in
    let mk d v := {| c_data := {| cd_covhash := cd_covhash o; cd_value := v; cd_denom := d; cd_extra := cd_extra o |};
                     c_height := s_height s |} in
    withdrawals_go k tleft tright total rest
      (put_coin (put_coin s (coin_key (t_hash t) 0) (mk (fst k) a)) (coin_key (t_hash t) 1) (mk (snd k) b))
  end.

Definition withdrawals_single_pool (k : denom * denom) (s : wstate) (ws : list tx) : res wstate :=
  let total := sat_sum (map (fun t => cd_value (out0 t)) ws) in
  match get_pool s k with
  | None => Panic P_UNWRAP
  | Some p =>
    if (p_liqs p =? 0) || (p_liqs p <? total) then Ok s else
    r <- pool_withdraw p total ;;
    let '(p', tleft, tright) := r in
    Ok (withdrawals_go k tleft tright total ws (put_pool s k p'))
  end.

Definition process_withdrawals (s : wstate) : res wstate :=
  let reqs := List.filter (is_withdraw_request s) (sorted_txs s) in
  for_pools withdrawals_single_pool reqs (pool_keys_sorted reqs) s.

(* process_pegging.  Rationals are (numerator, denominator) pairs; a zero denominator is a panic. *)
Definition process_pegging (s : wstate) : res wstate :=
  match get_pool s (poolkey_new Mel Sym) with
  | None => Panic P_UNWRAP
  | Some sm =>
    (* x_sd as num/den: syms per dosc *)
    x <- (if tip_902 s then
            match get_pool s (poolkey_new Sym Erg) with
            | None => Panic P_UNWRAP
            | Some es => (* implied_price = lefts/rights (erg/sym); recip = rights/lefts *)
              if (p_rights es =? 0) || (p_lefts es =? 0) then Panic P_RATIO_ZERO
              else Ok (p_rights es, p_lefts es)
            end
          else
            match get_pool s (poolkey_new Mel Erg) with
            | None => Panic P_UNWRAP
            | Some me => (* Erg/Mel pool: lefts = erg, rights = mel *)
              (* x_s = (mel/sym)^-1 = sym/mel ; x_d = (erg/mel)^-1 = mel/erg ; x_sd = x_s / x_d *)
              if (p_rights sm =? 0) || (p_lefts sm =? 0) || (p_rights me =? 0) || (p_lefts me =? 0)
              then Panic P_RATIO_ZERO
              else Ok (p_rights sm * p_lefts me, p_lefts sm * p_rights me)
            end) ;;
    let '(xn, xd) := x in
    let throttler := if tip_902 s then 200 else 1000 in
    let konstant := p_lefts sm * p_rights sm in
    (* desired_x_sm = inflator * x_sd = (mpd * xn) / (MICRO * xd) *)
    let dn := microergs_per_dosc (s_height s) * xn in
    let dd := MICRO * xd in
    if dn =? 0 then Panic P_RATIO_ZERO else
    let desired_mel := to_u128_sat (N.sqrt (konstant * dd / dn)) in
    let desired_sym := to_u128_sat (N.sqrt (konstant * dn / dd)) in
    sm1 <- (if p_lefts sm <? desired_mel
            then (r <- swap_many sm ((desired_mel - p_lefts sm) / throttler) 0 ;; Ok (fst (fst r)))
            else Ok sm) ;;
    sm2 <- (if p_rights sm1 <? desired_sym
            then (r <- swap_many sm1 0 ((desired_sym - p_rights sm1) / throttler) ;; Ok (fst (fst r)))
            else Ok sm1) ;;
    Ok (put_pool s (poolkey_new Mel Sym) sm2)
  end.

Definition pool_count_ok (s : wstate) : bool := 2 <=? N.of_nat (size (s_pools s)).

Definition preseal_melmint (s : wstate) : res wstate :=
  let s := create_builtins s in
  s <- process_swaps s ;;
  s <- process_deposits s ;;
  s <- process_withdrawals s ;;
  process_pegging s.

(* ---------------------------------------------------------------- seal (state.rs) *)
Definition apply_tip_909 (s : wstate) : res wstate :=
  let divider := (s_height s - TIP_909_HEIGHT) / 1000000 in
  if 128 <=? divider then Panic P_SHIFT else
  let reward := N.shiftr (2 ^ 20) divider in
  let erg909a := reward / 256 in
  let fee_subsidy := if tip_909a s then reward - erg909a else reward / 2 in
  match get_pool s (poolkey_new Mel Sym) with
  | None => Panic P_UNWRAP
  | Some sm =>
    r <- swap_many sm 0 fee_subsidy ;;
    let '(sm', mel, _) := r in
    let s := put_pool s (poolkey_new Mel Sym) sm' in
    fp <- add128 P_OVERFLOW (s_fee_pool s) mel ;;
    let s := set_fees s fp (s_tips s) in
    let erg_subsidy := if tip_909a s then erg909a else reward - fee_subsidy in
    match get_pool s (poolkey_new Erg Sym) with
    | None => Panic P_UNWRAP
    | Some es =>
      r <- swap_many es 0 erg_subsidy ;;
      Ok (put_pool s (poolkey_new Erg Sym) (fst (fst r)))
    end
  end.

(* move_action_fee_multiplier: magnitudes in u128, saturating *)
Definition move_fee_multiplier (after901 : bool) (mult : N) (delta : Z) : N :=
  let mm := if after901 then N.max (mult / 128) 2 else mult / 128 in
  let mag := mm * Z.abs_N delta / 128 in
  if (0 <=? delta)%Z then sat_add128 mult mag else mult - mag.

Definition collect_proposer_fee (s : wstate) (a : action) : res wstate :=
  let base := s_fee_pool s / 65536 in
  let fp := s_fee_pool s - base in
  v <- add128 P_OVERFLOW base (s_tips s) ;;
  let s := set_fees s fp 0 in
  Ok (put_coin s (coin_key (so_reward_id SO (s_height s)) 0)
        {| c_data := {| cd_covhash := a_dest a; cd_value := v; cd_denom := Mel; cd_extra := [] |};
           c_height := s_height s |}).

Definition seal (s : wstate) (a : option action) : res wstate :=
  s <- preseal_melmint s ;;
  if negb (pool_count_ok s) then Panic P_ASSERT else
  s <- (if tip_909 s then apply_tip_909 s else Ok s) ;;
  match a with
  | None => Ok s
  | Some a =>
    collect_proposer_fee (set_mult s (move_fee_multiplier (tip_901 s) (s_fee_mult s) (a_delta a))) a
  end.

(* SealedState::header *)
Definition header_of (R : roots) (s : wstate) : res header :=
  prev <- (if s_height s =? 0 then Ok 0
           else match s_history s !! (s_height s - 1) with
                | Some h => Ok (so_header_hash SO h)
                | None => Panic P_UNWRAP
                end) ;;
  Ok {| h_network := s_network s; h_previous := prev; h_height := s_height s;
        h_history := r_history R; h_coins := r_coins R; h_txs := r_txs R;
        h_fee_pool := s_fee_pool s; h_fee_mult := s_fee_mult s; h_dosc_speed := s_dosc_speed s;
        h_pools := r_pools R; h_stakes := r_stakes R |}.

(* the header handed to covenants: history[height-1], or at height 0 seal(None) of the state itself *)
Definition last_header_for (rf : wstate -> roots) (s : wstate) : res header :=
  match s_history s !! (s_height s - 1) with
  | Some h => Ok h
  | None => s' <- seal s None ;; header_of (rf s') s'
  end.

Definition apply_batch (rf : wstate -> roots) (s : wstate) (txs : list tx) : res wstate :=
  lh <- last_header_for rf s ;; apply_tx_batch SO s lh txs.

(* tip911-stakeset: unlock_old keeps e_post_end >= epoch *)
Definition unlock_old (epoch : N) (st : gmap N stakedoc) : gmap N stakedoc :=
  base.filter (fun kv : N * stakedoc => (epoch <= sd_postend (snd kv))%N) st.

Definition tip906_transition (coins : gmap N cdh) (counts0 : gmap N N) : gmap N N :=
  map_fold (fun _ c n => set_count n (cd_covhash (c_data c)) (coin_count n (cd_covhash (c_data c)) + 1)) counts0 coins.

(* SealedState::next_unsealed; hdr = header of the sealed state *)
Definition next_unsealed (s : wstate) (hdr : header) : wstate :=
  let new := {| s_network := s_network s; s_height := s_height s + 1;
                s_history := <[s_height s := hdr]> (s_history s);
                s_coins := s_coins s; s_counts := s_counts s; s_txs := ∅;
                s_fee_pool := s_fee_pool s; s_fee_mult := s_fee_mult s; s_tips := s_tips s;
                s_dosc_speed := s_dosc_speed s; s_pools := s_pools s;
                s_stakes := unlock_old ((s_height s + 1) / STAKE_EPOCH) (s_stakes s) |} in
  if tip_906 new && negb (tip_906 s)
  then set_coins new (s_coins new) (tip906_transition (s_coins new) (s_counts new))
  else new.

(* apply_block: txs in the order the HashSet yields them *)
Definition apply_block (rf : wstate -> roots) (s : wstate) (hdr : header)
           (blk_header : header) (txs : list tx) (a : option action) : res wstate :=
  let basis := next_unsealed s hdr in
  if negb (pool_count_ok basis) then Panic P_ASSERT else
  b1 <- apply_batch rf basis txs ;;
  b2 <- seal b1 a ;;
  h2 <- header_of (rf b2) b2 ;;
  if bool_decide (h2 = blk_header) then Ok b2 else Reject EWrongHeader.

(* from_block: everything from the header and the body, tips := 0 *)
Definition from_block (blk_header : header) (txs : list tx)
           (history : gmap N header) (coins : gmap N cdh) (counts : gmap N N) (pools : gmap N pool)
           (stakes : gmap N stakedoc) : wstate :=
  {| s_network := h_network blk_header; s_height := h_height blk_header; s_history := history;
     s_coins := coins; s_counts := counts;
     s_txs := list_to_map (map (fun t => (t_hash t, t)) txs);
     s_fee_pool := h_fee_pool blk_header; s_fee_mult := h_fee_mult blk_header; s_tips := 0;
     s_dosc_speed := h_dosc_speed blk_header; s_pools := pools; s_stakes := stakes |}.

(* StakeSet::votes / total_votes, SealedState::confirm *)
Definition active (epoch : N) (d : stakedoc) : bool := (sd_start d <=? epoch) && (epoch <? sd_postend d).
Definition total_votes (st : gmap N stakedoc) (epoch : N) : N :=
  map_fold (fun _ d acc => if active epoch d then acc + sd_staked d else acc) 0 st.
Definition votes (st : gmap N stakedoc) (epoch key : N) : N :=
  map_fold (fun _ d acc => if active epoch d && (sd_pubkey d =? key) then acc + sd_staked d else acc) 0 st.

Definition confirm (s : wstate) (hdr_hash : N) (proof : list (N * list N)) : bool :=
  forallb (fun '(k, sg) => so_ed25519 SO k hdr_hash sg) proof &&
  let epoch := s_height s / STAKE_EPOCH in
  let total := total_votes (s_stakes s) epoch in
  let present := fold_left (fun acc '(k, _) => acc + votes (s_stakes s) epoch k) proof 0 in
  total / 3 * 2 + total mod 3 * 2 / 3 <? present.

End Melmint.

(* C03 - Batch and block application is order-independent and deterministic.
   Pinned statements only; proofs in STF/Proofs/Perm.v and STF/Proofs/MapLemmas.v.
   Determinism across runs and processes is definitional for the model (a Gallina function).  What has to be
   shown is that every place where the Rust iterates an unordered collection or reduces in parallel is
   insensitive to the order.  Proved: for two ACCEPTED presentations of the same transactions the coin map,
   the fee pool, the tips and the untouched fields coincide.  Not proved (evaluated by the harness on every
   batch of the stream: all permutations up to 4 members, rotations above, rayon pools of 1 and 3 threads,
   one-at-a-time application in dependency order): that acceptance itself is order-independent, and the
   scheduling clause, which no theorem about a sequential model can exhibit. *)
From MelVerif Require Import STF.Model STF.Proofs.MapLemmas STF.Proofs.Faucet STF.Proofs.Coins STF.Proofs.Fees STF.Proofs.Perm.
Open Scope N_scope.

Theorem C03_coins_order_independent : forall SO s lh txs1 txs2 s1 s2,
  Permutation txs1 txs2 ->
  consistent (created s txs1) ->
  (forall t t' i, In t txs1 -> In t' txs1 -> marker_key SO t <> coin_key (t_hash t') (i mod 256)) ->
  apply_tx_batch SO s lh txs1 = Ok s1 -> apply_tx_batch SO s lh txs2 = Ok s2 ->
  s_coins s1 = s_coins s2.
Proof. exact accepted_perm_same_coins. Qed.
Print Assumptions C03_coins_order_independent.

Theorem C03_fees_order_independent : forall SO s lh txs1 txs2 s1 s2,
  Permutation txs1 txs2 -> s_fee_pool s <= MAX128 -> s_tips s <= MAX128 ->
  apply_tx_batch SO s lh txs1 = Ok s1 -> apply_tx_batch SO s lh txs2 = Ok s2 ->
  s_fee_pool s1 = s_fee_pool s2 /\ s_tips s1 = s_tips s2.
Proof. exact accepted_perm_same_fees. Qed.
Print Assumptions C03_fees_order_independent.

Theorem C03_rest_untouched : forall SO s lh txs1 txs2 s1 s2,
  apply_tx_batch SO s lh txs1 = Ok s1 -> apply_tx_batch SO s lh txs2 = Ok s2 ->
  s_height s1 = s_height s2 /\ s_network s1 = s_network s2 /\ s_history s1 = s_history s2 /\
  s_pools s1 = s_pools s2 /\ s_fee_mult s1 = s_fee_mult s2.
Proof. exact accepted_perm_same_frame. Qed.
Print Assumptions C03_rest_untouched.

(* the lemmas everything rests on: folds of inserts (with consistent bindings) and of deletes over a gmap do not
   depend on the order of the list *)
Theorem C03_inserts_commute : forall (l1 l2 : list (N * cdh)) m,
  Permutation l1 l2 -> consistent l1 -> ins_all l1 m = ins_all l2 m.
Proof. exact ins_all_perm. Qed.
Print Assumptions C03_inserts_commute.

Theorem C03_deletes_commute : forall ks1 ks2 (m : gmap N cdh), Permutation ks1 ks2 -> del_all ks1 m = del_all ks2 m.
Proof. exact del_all_perm. Qed.
Print Assumptions C03_deletes_commute.

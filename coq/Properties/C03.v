(* C03 - Batch and block application is order-independent and deterministic.
   Pinned statements only; proofs in STF/Proofs/PermAccept.v, STF/Proofs/Perm.v and STF/Proofs/MapLemmas.v.
   Determinism across runs and processes is definitional for the model (a Gallina function).  What has to be
   shown is that every place where the Rust iterates an unordered collection or reduces in parallel is
   insensitive to the order.
   PROVED for all inputs ([C03_order_independent]): if one presentation of a set of transactions is accepted
   then every permutation of it is accepted WITH THE SAME STATE (all twelve components: coins, counts,
   transaction set, fee pool, tips, stakes, speed, and the untouched ones), under the hash-oracle assumptions
   [HashOK] and the counts invariant of C20 when TIP-906 is active.  By symmetry a presentation is rejected
   iff every permutation is.
   PROVED for all inputs ([C03_equals_one_at_a_time]): the outcome also equals applying the transactions one
   at a time (each as a batch of one) in any order in which no transaction spends an output of itself or of a
   later one - acceptance and the resulting state, in both directions.
   NOT proved: the scheduling clause (rayon pools of 1 and 3 threads are run by the harness on every batch of
   the stream); no theorem about a sequential model can exhibit a thread schedule. *)
From MelVerif Require Import STF.Model STF.Proofs.MapLemmas STF.Proofs.Faucet STF.Proofs.Coins STF.Proofs.Fees STF.Proofs.Perm
  STF.Proofs.Counts STF.Proofs.HashFacts STF.Proofs.PermAccept STF.Proofs.SeqApply STF.Proofs.Witness.
Open Scope N_scope.

(* acceptance and the whole successor state do not depend on the order of presentation *)
Theorem C03_order_independent : forall SO s lh txs1 txs2 s1,
  Permutation txs1 txs2 ->
  HashOK SO s txs1 ->
  (tip_906 s = true -> CountsOk (s_coins s, s_counts s)) ->
  s_fee_pool s <= MAX128 -> s_tips s <= MAX128 ->
  apply_tx_batch SO s lh txs1 = Ok s1 -> apply_tx_batch SO s lh txs2 = Ok s1.
Proof. exact batch_order_independent. Qed.
Print Assumptions C03_order_independent.

(* the hash-oracle assumptions are themselves order-free, so the theorem applies in both directions *)
Theorem C03_assumptions_order_free : forall SO s txs1 txs2, Permutation txs1 txs2 -> HashOK SO s txs1 -> HashOK SO s txs2.
Proof. exact HashOK_perm. Qed.
Print Assumptions C03_assumptions_order_free.

(* the outcome equals the one-at-a-time application ([seq_apply]: each transaction as a batch of one, on the
   state left by the previous one) of any presentation in dependency order ([dep_ordered]: no transaction
   spends an output of itself or of a later member); input indices are bytes, as in the wire format *)
Theorem C03_equals_one_at_a_time : forall SO lh txs txs' s s',
  Permutation txs txs' -> dep_ordered txs' ->
  HashOK SO s txs ->
  (tip_906 s = true -> CountsOk (s_coins s, s_counts s)) ->
  s_fee_pool s <= MAX128 -> s_tips s <= MAX128 ->
  (forall t i, In t txs -> In i (t_inputs t) -> snd i < 256) ->
  (apply_tx_batch SO s lh txs = Ok s' <-> seq_apply SO lh s txs' = Ok s').
Proof. exact batch_equals_any_sequential_order. Qed.
Print Assumptions C03_equals_one_at_a_time.

(* the head/tail split it is built from: a batch whose first member spends no output of the batch is the
   first member alone followed by the rest *)
Theorem C03_split_head : forall SO lh s t r s',
  SplitOK SO s t r -> apply_tx_batch SO s lh (t :: r) = Ok s' ->
  exists s1, apply_tx_batch SO s lh [t] = Ok s1 /\ apply_tx_batch SO s1 lh r = Ok s'.
Proof. exact batch_cons_fwd. Qed.
Print Assumptions C03_split_head.

(* a concrete batch with an in-batch dependency (the transfer spends a faucet of the same batch) meets every
   hypothesis, and its reversal is a permutation of it *)
Example C03_witness :
  HashOK w_oracle w_state w_batch /\ (tip_906 w_state = true -> CountsOk (s_coins w_state, s_counts w_state)) /\
  s_fee_pool w_state <= MAX128 /\ s_tips w_state <= MAX128 /\
  Permutation w_batch [w_t3; w_f2; w_f1] /\ (exists s', apply_tx_batch w_oracle w_state w_header w_batch = Ok s') /\
  dep_ordered w_batch /\ (forall t i, In t w_batch -> In i (t_inputs t) -> snd i < 256) /\
  exists s', seq_apply w_oracle w_header w_state w_batch = Ok s'.
Proof.
  split; [exact w_hash_ok|]. split; [exact w_counts_ok|]. split; [vm_compute; discriminate|]. split; [vm_compute; discriminate|].
  split; [exact w_perm|]. split; [exact w_accepted|]. split; [exact w_dep_ordered|]. split; [exact w_indices|exact w_sequential].
Qed.

Theorem C03_coins_order_independent : forall SO s lh txs1 txs2 s1 s2,
  Permutation txs1 txs2 ->
  consistent (created s txs1) ->
  (forall t t' i, In t txs1 -> In t' txs1 -> marker_key SO t <> coin_key (t_hash t') (i mod 256)) ->
  apply_tx_batch SO s lh txs1 = Ok s1 -> apply_tx_batch SO s lh txs2 = Ok s2 ->
  s_coins s1 = s_coins s2.
Proof. exact accepted_perm_same_coins. Qed.
Print Assumptions C03_coins_order_independent.

Theorem C03_fees_order_independent : forall SO s lh txs1 txs2 s1 s2,
  Permutation txs1 txs2 -> s_fee_pool s <= MAX128 -> s_tips s <= MAX128 ->
  apply_tx_batch SO s lh txs1 = Ok s1 -> apply_tx_batch SO s lh txs2 = Ok s2 ->
  s_fee_pool s1 = s_fee_pool s2 /\ s_tips s1 = s_tips s2.
Proof. exact accepted_perm_same_fees. Qed.
Print Assumptions C03_fees_order_independent.

Theorem C03_rest_untouched : forall SO s lh txs1 txs2 s1 s2,
  apply_tx_batch SO s lh txs1 = Ok s1 -> apply_tx_batch SO s lh txs2 = Ok s2 ->
  s_height s1 = s_height s2 /\ s_network s1 = s_network s2 /\ s_history s1 = s_history s2 /\
  s_pools s1 = s_pools s2 /\ s_fee_mult s1 = s_fee_mult s2.
Proof. exact accepted_perm_same_frame. Qed.
Print Assumptions C03_rest_untouched.

(* the lemmas everything rests on: folds of inserts (with consistent bindings) and of deletes over a gmap do not
   depend on the order of the list *)
Theorem C03_inserts_commute : forall (l1 l2 : list (N * cdh)) m,
  Permutation l1 l2 -> consistent l1 -> ins_all l1 m = ins_all l2 m.
Proof. exact ins_all_perm. Qed.
Print Assumptions C03_inserts_commute.

Theorem C03_deletes_commute : forall ks1 ks2 (m : gmap N cdh), Permutation ks1 ks2 -> del_all ks1 m = del_all ks2 m.
Proof. exact del_all_perm. Qed.
Print Assumptions C03_deletes_commute.

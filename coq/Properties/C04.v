(* C04 - A coin is spent only when its covenant approves that very spend.
   Pinned statements only; proofs in STF/Proofs/Covenant.v and STF/Proofs/StdCovenant.v. *)
From MelVerif Require Import STF.Model STF.Proofs.Covenant STF.Proofs.StdCovenant.
Open Scope N_scope.

(* FULL STATEMENT wanted by the property (kept visible):
     apply_tx_batch SO s lh txs = Ok s' ->
     forall t in txs, forall input position j with coin c: approved SO lh t inp c j
   It is false of the faithful model: an input that shares its covenant hash with an earlier input of the
   same transaction is not evaluated in its own environment (the per-transaction good_scripts cache,
   finding F15).  What is proved is the statement with that exception spelled out: *)
Theorem C04_each_input_partial : forall SO s lh txs s',
  apply_tx_batch SO s lh txs = Ok s' ->
  exists relevant, load_relevant_coins s txs = Ok relevant /\
  forall t, In t txs -> forall j inp, nth_error (t_inputs t) j = Some inp ->
  exists c, relevant !! input_key inp = Some c /\
    ((exists j' inp' c', (j' < j)%nat /\ nth_error (t_inputs t) j' = Some inp' /\
        relevant !! input_key inp' = Some c' /\ cd_covhash (c_data c') = cd_covhash (c_data c)) \/
     approved SO lh t inp c (N.of_nat j)).
Proof. exact accepted_batch_inputs_approved. Qed.
Print Assumptions C04_each_input_partial.

(* the covenant found for a coin is one carried by the transaction whose hash is the coin's covenant hash *)
Theorem C04_script_has_the_coins_hash : forall h hs cs b,
  find_script h hs cs = Some b -> exists i, nth_error hs i = Some h /\ nth_error cs i = Some b.
Proof. exact find_script_sound. Qed.
Print Assumptions C04_script_has_the_coins_hash.

(* approval = the run ends with a true value on top of the stack *)
Theorem C04_accepts_iff : forall O prog hp,
  covenant_accepts O prog hp = true <-> exists v n, run O prog hp = Finished (Some v) n /\ into_bool v = true.
Proof. exact covenant_accepts_iff. Qed.
Print Assumptions C04_accepts_iff.

(* a missing covenant, an undecodable one, or one that fails or evaluates to zero causes rejection *)
Theorem C04_rejections : forall SO s lh relevant ns t idx inp inc c,
  coin_locked s ns (fst inp) = false -> relevant !! input_key inp = Some c ->
  check_input SO s lh relevant ns t idx inp [] inc =
  match find_script (cd_covhash (c_data c)) (t_covhashes t) (t_covenants t) with
  | None => Reject ENonexistentScript
  | Some bytes =>
    match decode_all bytes with
    | None => Reject EMalformed
    | Some prog =>
      if covenant_accepts (so_vm SO) prog (env_heap t inp c (idx mod 256) lh)
      then (in' <- assoc_add (cd_denom (c_data c)) (cd_value (c_data c)) inc ;; Ok ([cd_covhash (c_data c)], in'))
      else Reject EViolatesScript
    end
  end.
Proof. exact first_input_rejections. Qed.
Print Assumptions C04_rejections.

(* standard signature covenants: accepted iff tx.sigs has, in the expected slot (the spender index for the
   new covenant, slot 0 for the legacy one), a signature of at most 64 bytes that verifies under the named key
   over the signature-free transaction hash *)
Theorem C04_std_ed25519_new : forall O pk t inp c lh,
  length pk = 32%nat -> forall idx, idx < 256 ->
  covenant_accepts O (std_ed25519_new pk) (env_heap t inp c idx lh) = sig_check O pk t idx.
Proof. exact std_new_accepts_iff. Qed.
Print Assumptions C04_std_ed25519_new.

Theorem C04_std_ed25519_legacy : forall O pk t inp c lh,
  length pk = 32%nat -> forall idx,
  covenant_accepts O (std_ed25519_legacy pk) (env_heap t inp c idx lh) = sig_check O pk t 0.
Proof. exact std_legacy_accepts_iff. Qed.
Print Assumptions C04_std_ed25519_legacy.

(* which header "the last header" of the environment is: the one stored for the previous height, i.e. for a block
   built with next_unsealed the header of the block just sealed - never the header of the block being built *)
Theorem C04_covenants_see_the_parent_header : forall SO (rf : wstate -> roots) s h txs,
  s_history s !! (s_height s - 1) = Some h -> apply_batch SO rf s txs = apply_tx_batch SO s h txs.
Proof. exact apply_batch_uses_the_parent_header. Qed.
Print Assumptions C04_covenants_see_the_parent_header.
Theorem C04_block_covenants_see_the_sealed_parent : forall SO (rf : wstate -> roots) s hdr txs,
  apply_batch SO rf (next_unsealed s hdr) txs = apply_tx_batch SO (next_unsealed s hdr) hdr txs.
Proof. exact block_covenants_see_the_sealed_parent. Qed.
Print Assumptions C04_block_covenants_see_the_sealed_parent.

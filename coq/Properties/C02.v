(* C02 - Exact UTXO transition: no double spend, no lost coin, rejection is a no-op.
   Pinned statements only; proofs in STF/Proofs/Coins.v.
   Rejection: apply_tx_batch returns [Reject e] without a state and the caller keeps the one it had
   (UnsealedState::apply_tx_batch only assigns *self on Ok); the harness checks on the real code that the
   coin root and the transaction set are unchanged after every rejected batch. *)
From MelVerif Require Import STF.Model STF.Proofs.MapLemmas STF.Proofs.Faucet STF.Proofs.Coins STF.Proofs.SealCoins STF.Proofs.HashFacts
  STF.Proofs.SealCounts STF.Proofs.History STF.Proofs.CoinHistory.
Open Scope N_scope.

(* the coin set after an accepted batch: every binding the batch inserts (dedup markers, outputs not sent to
   the destruction address), then every input of the batch removed *)
Theorem C02_coins : forall SO s lh txs s',
  apply_tx_batch SO s lh txs = Ok s' ->
  exists relevant, load_relevant_coins s txs = Ok relevant /\
    s_coins s' = del_all (all_inputs txs) (ins_all (flat_map (tx_inserts SO relevant) txs) (s_coins s)).
Proof. exact accepted_batch_coins. Qed.
Print Assumptions C02_coins.

(* acceptance conditions established by the first phase: every transaction well-formed with totals that fit,
   no coin consumed twice, every input unspent in the prior state or created inside the batch *)
Theorem C02_accept_conditions : forall s txs relevant,
  load_relevant_coins s txs = Ok relevant ->
  (forall t, In t txs -> well_formed t = true /\ totals_fit t = true) /\
  NoDup (all_inputs txs) /\
  (forall k, In k (all_inputs txs) -> is_Some (outputs_map s txs !! k) \/ is_Some (s_coins s !! k)) /\
  (forall k, In k (all_inputs txs) ->
     relevant !! k = match outputs_map s txs !! k with Some c => Some c | None => s_coins s !! k end) /\
  (forall k, ~ In k (all_inputs txs) -> relevant !! k = outputs_map s txs !! k).
Proof. exact load_relevant_coins_spec. Qed.
Print Assumptions C02_accept_conditions.

(* the set equation: previous set minus every input plus every output not sent to the destruction address -
   each new coin with the declared value, covenant hash, additional data, the creating block's height and its
   denomination (a new-token output takes the transaction's hash), as [output_coins] defines them - plus the
   faucet dedup markers.  Hypotheses: coin ids of created coins are bound consistently (distinct transactions
   have distinct hashes) and dedup markers are not ids of outputs (hash-oracle assumptions). *)
Theorem C02_set_equation : forall SO s lh txs s',
  apply_tx_batch SO s lh txs = Ok s' ->
  consistent (created s txs) ->
  (forall t t' i, In t txs -> In t' txs -> marker_key SO t <> coin_key (t_hash t') (i mod 256)) ->
  forall k,
    (In k (all_inputs txs) -> s_coins s' !! k = None) /\
    (~ In k (all_inputs txs) ->
       (forall c, In (k, c) (created s txs) -> s_coins s' !! k = Some c) /\
       (In k (markers SO txs) -> s_coins s' !! k = Some marker_coin) /\
       (~ In k (map fst (created s txs)) -> ~ In k (markers SO txs) -> s_coins s' !! k = s_coins s !! k)).
Proof. exact accepted_batch_utxo. Qed.
Print Assumptions C02_set_equation.

(* what a created coin looks like *)
Example C02_output_coin_shape :
  let o := {| cd_covhash := 7; cd_value := 5; cd_denom := NewCustom; cd_extra := [1] |} in
  let d := {| cd_covhash := 0; cd_value := 9; cd_denom := Mel; cd_extra := [] |} in
  forall t, t_outputs t = [o; d] ->
  output_coins 42 t =
    [(coin_key (t_hash t) 0, {| c_data := {| cd_covhash := 7; cd_value := 5; cd_denom := Custom (t_hash t); cd_extra := [1] |}; c_height := 42 |})].
Proof. intros o d t E. unfold output_coins. rewrite E. reflexivity. Qed.

(* ---- whole histories ([hstep], [hist_all]: Properties/C20.v).  "No lost coin": the coin c at id (h, i). *)
Theorem C02_coin_step_assumptions_def : forall SO h i s o,
  coin_step_ok SO h i s o <->
  match o with
  | HBatch lh txs => HashOK SO s txs /\ ~ In (coin_key h i) (all_inputs txs) /\
      (forall t, In t txs -> so_faucet_marker SO (t_hash t) <> h)
  | HBlock a hdr =>
      (forall t, In t (sorted_txs s) -> is_pool_request t = true -> t_hash t <> h) /\
      so_reward_id SO (s_height s) <> h
  end.
Proof. exact coin_step_ok_def. Qed.
Print Assumptions C02_coin_step_assumptions_def.

(* an unspent coin is in the coin tree, unchanged, after every history none of whose batches lists it as an input
   and none of whose blocks settles a pool request of its creating transaction *)
Theorem C02_unspent_coin_is_never_lost : forall SO h i, i < 256 -> forall c ops s,
  s_coins s !! coin_key h i = Some c -> hist_all SO (coin_step_ok SO h i) s ops ->
  s_coins (fold_left (hstep SO) ops s) !! coin_key h i = Some c.
Proof. exact unspent_coin_is_never_lost. Qed.
Print Assumptions C02_unspent_coin_is_never_lost.

(* and an accepted batch that lists it removes it *)
Theorem C02_spent_coin_is_gone : forall SO h i s lh txs s',
  apply_tx_batch SO s lh txs = Ok s' -> In (coin_key h i) (all_inputs txs) -> s_coins s' !! coin_key h i = None.
Proof. exact batch_spends_coin. Qed.
Print Assumptions C02_spent_coin_is_gone.

(* C02 - Exact UTXO transition: no double spend, no lost coin, rejection is a no-op.
   Pinned statements only; proofs in STF/Proofs/Coins.v.
   Rejection: apply_tx_batch returns [Reject e] without a state and the caller keeps the one it had
   (UnsealedState::apply_tx_batch only assigns *self on Ok); the harness checks on the real code that the
   coin root and the transaction set are unchanged after every rejected batch. *)
From MelVerif Require Import STF.Model STF.Proofs.MapLemmas STF.Proofs.Faucet STF.Proofs.Coins.
Open Scope N_scope.

(* the coin set after an accepted batch: every binding the batch inserts (dedup markers, outputs not sent to
   the destruction address), then every input of the batch removed *)
Theorem C02_coins : forall SO s lh txs s',
  apply_tx_batch SO s lh txs = Ok s' ->
  exists relevant, load_relevant_coins s txs = Ok relevant /\
    s_coins s' = del_all (all_inputs txs) (ins_all (flat_map (tx_inserts SO relevant) txs) (s_coins s)).
Proof. exact accepted_batch_coins. Qed.
Print Assumptions C02_coins.

(* acceptance conditions established by the first phase: every transaction well-formed with totals that fit,
   no coin consumed twice, every input unspent in the prior state or created inside the batch *)
Theorem C02_accept_conditions : forall s txs relevant,
  load_relevant_coins s txs = Ok relevant ->
  (forall t, In t txs -> well_formed t = true /\ totals_fit t = true) /\
  NoDup (all_inputs txs) /\
  (forall k, In k (all_inputs txs) -> is_Some (outputs_map s txs !! k) \/ is_Some (s_coins s !! k)) /\
  (forall k, In k (all_inputs txs) ->
     relevant !! k = match outputs_map s txs !! k with Some c => Some c | None => s_coins s !! k end) /\
  (forall k, ~ In k (all_inputs txs) -> relevant !! k = outputs_map s txs !! k).
Proof. exact load_relevant_coins_spec. Qed.
Print Assumptions C02_accept_conditions.

(* the set equation: previous set minus every input plus every output not sent to the destruction address -
   each new coin with the declared value, covenant hash, additional data, the creating block's height and its
   denomination (a new-token output takes the transaction's hash), as [output_coins] defines them - plus the
   faucet dedup markers.  Hypotheses: coin ids of created coins are bound consistently (distinct transactions
   have distinct hashes) and dedup markers are not ids of outputs (hash-oracle assumptions). *)
Theorem C02_set_equation : forall SO s lh txs s',
  apply_tx_batch SO s lh txs = Ok s' ->
  consistent (created s txs) ->
  (forall t t' i, In t txs -> In t' txs -> marker_key SO t <> coin_key (t_hash t') (i mod 256)) ->
  forall k,
    (In k (all_inputs txs) -> s_coins s' !! k = None) /\
    (~ In k (all_inputs txs) ->
       (forall c, In (k, c) (created s txs) -> s_coins s' !! k = Some c) /\
       (In k (markers SO txs) -> s_coins s' !! k = Some marker_coin) /\
       (~ In k (map fst (created s txs)) -> ~ In k (markers SO txs) -> s_coins s' !! k = s_coins s !! k)).
Proof. exact accepted_batch_utxo. Qed.
Print Assumptions C02_set_equation.

(* what a created coin looks like *)
Example C02_output_coin_shape :
  let o := {| cd_covhash := 7; cd_value := 5; cd_denom := NewCustom; cd_extra := [1] |} in
  let d := {| cd_covhash := 0; cd_value := 9; cd_denom := Mel; cd_extra := [] |} in
  forall t, t_outputs t = [o; d] ->
  output_coins 42 t =
    [(coin_key (t_hash t) 0, {| c_data := {| cd_covhash := 7; cd_value := 5; cd_denom := Custom (t_hash t); cd_extra := [1] |}; c_height := 42 |})].
Proof. intros o d t E. unfold output_coins. rewrite E. reflexivity. Qed.

(* C18 - ERG is minted only against valid sequential work, within the reward formula.
   Pinned statements only; proofs in STF/Proofs/Dosc.v and STF/Proofs/Stakes.v. *)
From MelVerif Require Import STF.Model STF.Proofs.Dosc STF.Proofs.Stakes STF.Proofs.Frame STF.Proofs.SealCounts STF.Proofs.History STF.Proofs.MiscHistory.
Open Scope N_scope.

Theorem C18_mint_validated : forall SO s relevant t speed,
  validate_doscmint SO s relevant t = Ok speed ->
  exists i0 rest c seed difficulty pid prev reward_real reward_nom outs,
    t_inputs t = i0 :: rest /\
    relevant !! input_key i0 = Some c /\
    (s_network s = MAINNET -> 100 <= s_height s - c_height c) /\
    s_history s !! c_height c = Some seed /\
    t_dosc t = DDProof difficulty pid /\ 1 <= difficulty <= 64 /\
    so_melpow SO pid (so_header_hash SO seed) (input_key i0) difficulty <> VInvalid /\
    speed = (if is_tip910 (so_melpow SO pid (so_header_hash SO seed) (input_key i0) difficulty) then 100 else 1)
            * 2 ^ difficulty / (s_height s - c_height c) /\
    s_history s !! (s_height s - 1) = Some prev /\
    calculate_reward speed (h_dosc_speed prev) difficulty
      (is_tip910 (so_melpow SO pid (so_header_hash SO seed) (input_key i0) difficulty)) = Ok reward_real /\
    dosc_to_erg (s_height s) reward_real = Ok reward_nom /\
    total_outputs t = Ok outs /\
    default 0 (assoc_get Erg outs) <= reward_nom.
Proof. exact validate_doscmint_sound. Qed.
Print Assumptions C18_mint_validated.

Theorem C18_every_mint_validated : forall SO s lh txs s',
  apply_tx_batch SO s lh txs = Ok s' ->
  exists relevant, load_relevant_coins s txs = Ok relevant /\
    forall t, In t txs -> t_kind t = KDoscMint -> exists v, validate_doscmint SO s relevant t = Ok v.
Proof. exact accepted_batch_mints_validated. Qed.
Print Assumptions C18_every_mint_validated.

Theorem C18_reward_formula : forall speed dosc_speed difficulty tip910 r,
  calculate_reward speed dosc_speed difficulty tip910 = Ok r ->
  difficulty < 128 /\ dosc_speed <> 0 /\
  r = to_u128_sat ((if tip910 then sat_mul128 (2 ^ difficulty) 100 else 2 ^ difficulty) * speed * MICRO
                   / (dosc_speed * dosc_speed * 2880)).
Proof. exact calculate_reward_formula. Qed.
Print Assumptions C18_reward_formula.

Theorem C18_inflator : forall height real r,
  dosc_to_erg height real = Ok r -> r = microergs_per_dosc height * real / MICRO.
Proof. exact dosc_to_erg_formula. Qed.
Print Assumptions C18_inflator.

(* the DOSC speed never decreases: not in a batch, not at seal *)
Theorem C18_speed_monotone_batch : forall SO s lh txs s',
  apply_tx_batch SO s lh txs = Ok s' -> s_dosc_speed s <= s_dosc_speed s'.
Proof. exact accepted_batch_speed_monotone. Qed.
Print Assumptions C18_speed_monotone_batch.

Theorem C18_speed_kept_by_seal : forall SO s a s', seal SO s a = Ok s' -> s_dosc_speed s' = s_dosc_speed s.
Proof. exact seal_speed. Qed.
Print Assumptions C18_speed_kept_by_seal.

(* over whole histories ([hstep]: Properties/C20.v): the recorded speed - the denominator of every later reward -
   never decreases, whatever batches are applied or refused and whatever blocks are sealed *)
Theorem C18_speed_never_decreases : forall SO ops s, s_dosc_speed s <= s_dosc_speed (fold_left (hstep SO) ops s).
Proof. exact speed_never_decreases. Qed.
Print Assumptions C18_speed_never_decreases.

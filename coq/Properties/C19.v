(* C19 - Faucets: never on mainnet, and at most once anywhere.
   Pinned statements only; proofs in STF/Proofs/Faucet.v. *)
From MelVerif Require Import STF.Model STF.Proofs.Faucet.
Open Scope N_scope.

(* on mainnet an accepted batch contains no faucet other than the grandfathered hash *)
Theorem C19_mainnet : forall SO s lh txs s',
  s_network s = MAINNET -> apply_tx_batch SO s lh txs = Ok s' ->
  forall t, In t txs -> t_kind t = KFaucet -> t_hash t = BUG_TX_HASH.
Proof. exact mainnet_accepts_no_faucet. Qed.
Print Assumptions C19_mainnet.

(* a faucet whose dedup marker is in the coin tree makes the batch fail *)
Theorem C19_replay_rejected : forall SO s lh txs t s',
  In t txs -> t_kind t = KFaucet -> is_Some (s_coins s !! marker_key SO t) ->
  apply_tx_batch SO s lh txs = Ok s' -> False.
Proof. exact faucet_replay_rejected. Qed.
Print Assumptions C19_replay_rejected.

(* acceptance leaves the marker behind (unless some transaction of the batch spends that very key) *)
Theorem C19_marker_inserted : forall SO s lh txs t s',
  apply_tx_batch SO s lh txs = Ok s' ->
  In t txs -> t_kind t = KFaucet -> is_bug_tx t = false ->
  ~ In (marker_key SO t) (all_inputs txs) ->
  is_Some (s_coins s' !! marker_key SO t).
Proof. exact accepted_faucet_leaves_marker. Qed.
Print Assumptions C19_marker_inserted.

(* and later batches keep it as long as they do not spend it *)
Theorem C19_marker_persists : forall SO s lh txs s' k,
  apply_tx_batch SO s lh txs = Ok s' -> ~ In k (all_inputs txs) ->
  is_Some (s_coins s !! k) -> is_Some (s_coins s' !! k).
Proof. exact unspent_key_survives. Qed.
Print Assumptions C19_marker_persists.

(* C19 - Faucets: never on mainnet, and at most once anywhere.
   Pinned statements only; proofs in STF/Proofs/Faucet.v. *)
From MelVerif Require Import STF.Model STF.Proofs.Faucet STF.Proofs.HashFacts STF.Proofs.SealCounts STF.Proofs.History
  STF.Proofs.FaucetHistory STF.Proofs.Witness STF.Proofs.Witness5 STF.Proofs.Witness9.
Open Scope N_scope.

(* on mainnet an accepted batch contains no faucet other than the grandfathered hash *)
Theorem C19_mainnet : forall SO s lh txs s',
  s_network s = MAINNET -> apply_tx_batch SO s lh txs = Ok s' ->
  forall t, In t txs -> t_kind t = KFaucet -> t_hash t = BUG_TX_HASH.
Proof. exact mainnet_accepts_no_faucet. Qed.
Print Assumptions C19_mainnet.

(* a faucet whose dedup marker is in the coin tree makes the batch fail *)
Theorem C19_replay_rejected : forall SO s lh txs t s',
  In t txs -> t_kind t = KFaucet -> is_Some (s_coins s !! marker_key SO t) ->
  apply_tx_batch SO s lh txs = Ok s' -> False.
Proof. exact faucet_replay_rejected. Qed.
Print Assumptions C19_replay_rejected.

(* acceptance leaves the marker behind (unless some transaction of the batch spends that very key) *)
Theorem C19_marker_inserted : forall SO s lh txs t s',
  apply_tx_batch SO s lh txs = Ok s' ->
  In t txs -> t_kind t = KFaucet -> is_bug_tx t = false ->
  ~ In (marker_key SO t) (all_inputs txs) ->
  is_Some (s_coins s' !! marker_key SO t).
Proof. exact accepted_faucet_leaves_marker. Qed.
Print Assumptions C19_marker_inserted.

(* and later batches keep it as long as they do not spend it *)
Theorem C19_marker_persists : forall SO s lh txs s' k,
  apply_tx_batch SO s lh txs = Ok s' -> ~ In k (all_inputs txs) ->
  is_Some (s_coins s !! k) -> is_Some (s_coins s' !! k).
Proof. exact unspent_key_survives. Qed.
Print Assumptions C19_marker_persists.

(* ---- "at most once anywhere": whole histories ([hstep], [hist_all]: see Properties/C20.v).
   [Dead s k]: the coin tree has, at id k, a coin locked by the covenant hash 0 (which no covenant hashes to). *)
Theorem C19_dead_def : forall s k, Dead s k <-> exists c, s_coins s !! k = Some c /\ cd_covhash (c_data c) = 0.
Proof. exact dead_def. Qed.
Print Assumptions C19_dead_def.

(* the assumptions about the marker id m along a history: no transaction has the hash m or lists a covenant whose
   hash is the zero address, and no proposer-reward id equals m (m is a keyed hash of the faucet's hash) *)
Theorem C19_apart_def : forall SO m s o,
  apart SO m s o <->
  match o with
  | HBatch lh txs => forall t, In t txs -> t_hash t <> m /\ ~ In 0 (t_covhashes t)
  | HBlock a hdr => so_reward_id SO (s_height s) <> m
  end.
Proof. exact apart_def. Qed.
Print Assumptions C19_apart_def.
Theorem C19_hist_apart_def : forall SO m s ops,
  hist_apart SO m s ops <-> match ops with [] => True | o :: r => apart SO m s o /\ hist_apart SO m (hstep SO s o) r end.
Proof. exact hist_apart_def. Qed.
Print Assumptions C19_hist_apart_def.

(* an accepted faucet leaves its marker, locked by the covenant hash 0 *)
Theorem C19_marker_is_unspendable : forall SO s lh txs s' t,
  apply_tx_batch SO s lh txs = Ok s' -> HashOK SO s txs ->
  In t txs -> t_kind t = KFaucet -> is_bug_tx t = false ->
  Dead s' (coin_key (so_faucet_marker SO (t_hash t)) 0).
Proof. exact accepted_faucet_marker_dead. Qed.
Print Assumptions C19_marker_is_unspendable.

(* the marker stays through every later batch and block *)
Theorem C19_marker_stays : forall SO m ops s,
  Dead s (coin_key m 0) -> (forall t, In t (sorted_txs s) -> t_hash t <> m) -> hist_apart SO m s ops ->
  Dead (fold_left (hstep SO) ops s) (coin_key m 0).
Proof. exact marker_stays. Qed.
Print Assumptions C19_marker_stays.

(* so no later state of any history accepts a faucet with the same hash *)
Theorem C19_at_most_once_anywhere : forall SO s lh1 txs1 s1 t ops lh2 txs2 t2 s2,
  apply_tx_batch SO s lh1 txs1 = Ok s1 -> HashOK SO s txs1 ->
  In t txs1 -> t_kind t = KFaucet -> is_bug_tx t = false ->
  (forall t', In t' (sorted_txs s1) -> t_hash t' <> so_faucet_marker SO (t_hash t)) ->
  hist_apart SO (so_faucet_marker SO (t_hash t)) s1 ops ->
  In t2 txs2 -> t_kind t2 = KFaucet -> t_hash t2 = t_hash t ->
  apply_tx_batch SO (fold_left (hstep SO) ops s1) lh2 txs2 = Ok s2 -> False.
Proof. exact faucet_at_most_once. Qed.
Print Assumptions C19_at_most_once_anywhere.

(* non-vacuity: on the concrete history of STF/Proofs/Witness5.v the assumptions hold, the replay of the faucet
   with hash 11 is refused one block later, and a new faucet is accepted there *)
Example C19_history_witness :
  exists s1, apply_tx_batch w_oracle w_state w_header w_batch = Ok s1 /\
    NoM (so_faucet_marker w_oracle (t_hash w_f1)) s1 /\
    hist_apart w_oracle (so_faucet_marker w_oracle (t_hash w_f1)) s1 w_later /\
    (exists e, apply_tx_batch w_oracle (fold_left (hstep w_oracle) w_later s1) w_header [w_f1] = Reject e) /\
    (exists s2, apply_tx_batch w_oracle (fold_left (hstep w_oracle) w_later s1) w_header [w_f4] = Ok s2).
Proof. exact w_faucet_once. Qed.

(* ---- known finding F18: the exception "is_bug_tx t = false" above cannot be dropped.  The FULL statement of the
   property ("on other networks a given faucet transaction can be accepted at most once") is false of the faithful
   model for the one grandfathered transaction: it is exempt from the replay marker as well as from the mainnet
   ban, so the state that accepted it accepts it again - on a custom network and on mainnet.  (Recorded in
   known_findings.txt, class F18; the implementation does the same: scenario d_grandfathered_faucet_custom.) *)
Theorem C19_refuted_for_the_grandfathered_transaction :
  is_bug_tx w_bug = true /\ t_kind w_bug = KFaucet /\
  exists s1 s2, apply_tx_batch w_oracle w_state w_header [w_bug] = Ok s1 /\
                apply_tx_batch w_oracle s1 w_header [w_bug] = Ok s2 /\
                s_coins s1 !! marker_key w_oracle w_bug = None.
Proof. exact w_bug_replayed. Qed.
Print Assumptions C19_refuted_for_the_grandfathered_transaction.
Theorem C19_refuted_on_mainnet :
  exists s1 s2, apply_tx_batch w_oracle w_mainnet w_header [w_bug] = Ok s1 /\
                apply_tx_batch w_oracle s1 w_header [w_bug] = Ok s2.
Proof. exact w_bug_replayed_on_mainnet. Qed.
Print Assumptions C19_refuted_on_mainnet.

(* C06 - A block is accepted exactly when it is the correct successor.
   Pinned statements only; proofs in STF/Proofs/Block.v.  [rf] gives the five Merkle roots of a state. *)
From MelVerif Require Import STF.Model STF.Proofs.Block.
Open Scope N_scope.

Theorem C06_iff : forall SO rf s hdr blk_header txs a s',
  pool_count_ok (next_unsealed s hdr) = true ->
  apply_block SO rf s hdr blk_header txs a = Ok s' <->
  exists u, apply_batch SO rf (next_unsealed s hdr) txs = Ok u /\
            seal SO u a = Ok s' /\
            header_of SO (rf s') s' = Ok blk_header.
Proof. exact apply_block_iff. Qed.
Print Assumptions C06_iff.

Theorem C06_returned_state_has_that_header : forall SO rf s hdr blk_header txs a s',
  apply_block SO rf s hdr blk_header txs a = Ok s' -> header_of SO (rf s') s' = Ok blk_header.
Proof. exact apply_block_header. Qed.
Print Assumptions C06_returned_state_has_that_header.

Theorem C06_honest_block_accepted : forall SO rf s hdr txs a u s2 h2,
  pool_count_ok (next_unsealed s hdr) = true ->
  apply_batch SO rf (next_unsealed s hdr) txs = Ok u -> seal SO u a = Ok s2 ->
  header_of SO (rf s2) s2 = Ok h2 ->
  apply_block SO rf s hdr h2 txs a = Ok s2.
Proof. exact honest_block_accepted. Qed.
Print Assumptions C06_honest_block_accepted.

(* any alteration that makes the declared header differ from the recomputed one is rejected *)
Theorem C06_wrong_header_rejected : forall SO rf s hdr blk_header txs a u s2 h2,
  pool_count_ok (next_unsealed s hdr) = true ->
  apply_batch SO rf (next_unsealed s hdr) txs = Ok u -> seal SO u a = Ok s2 ->
  header_of SO (rf s2) s2 = Ok h2 -> h2 <> blk_header ->
  apply_block SO rf s hdr blk_header txs a = Reject EWrongHeader.
Proof. exact apply_block_wrong_header. Qed.
Print Assumptions C06_wrong_header_rejected.

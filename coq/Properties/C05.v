(* C05 - Fees: minimum fee enforced, fee pool / tips / proposer reward accounted exactly.
   Pinned statements only; proofs in STF/Proofs/Fees.v. *)
From MelVerif Require Import STF.Model STF.Proofs.Fees.
Open Scope N_scope.

Theorem C05_weight : forall t w,
  tx_weight t = Ok w ->
  exists sw, sum128 (map cov_weight (t_covenants t)) = Ok sw /\
  w = sat_sub128 (sat_add128 (sat_add128 (t_rawlen t) sw) (N.of_nat (length (t_outputs t)) * 1000))
                 (N.of_nat (length (t_inputs t)) * 1000).
Proof. exact tx_weight_formula. Qed.
Print Assumptions C05_weight.

Theorem C05_undecodable_covenant_weighs_nothing : forall b, decode_all b = None -> cov_weight b = 0.
Proof. exact cov_weight_undecodable. Qed.
Print Assumptions C05_undecodable_covenant_weighs_nothing.

Theorem C05_min_fee : forall mult t mf,
  min_fee mult t = Ok mf -> exists w, tx_weight t = Ok w /\ mf = sat_mul128 w mult / 65536.
Proof. exact min_fee_formula. Qed.
Print Assumptions C05_min_fee.

(* every member of an accepted batch pays at least its minimum fee ... *)
Theorem C05_accepted_pays_min_fee : forall SO s lh txs s',
  apply_tx_batch SO s lh txs = Ok s' ->
  forall t, In t txs -> exists mf, min_fee (s_fee_mult s) t = Ok mf /\ mf <= t_fee t.
Proof. exact accepted_batch_min_fee. Qed.
Print Assumptions C05_accepted_pays_min_fee.

(* ... and the fee pool / tips move by exactly the minimum-fee parts / the remainders (saturating u128) *)
Theorem C05_fee_split : forall SO s lh txs s',
  apply_tx_batch SO s lh txs = Ok s' ->
  fee_fold (s_fee_mult s) txs (s_fee_pool s) (s_tips s) = Some (s_fee_pool s', s_tips s').
Proof. exact accepted_batch_fees. Qed.
Print Assumptions C05_fee_split.

(* a transaction paying less than its minimum fee is never applied *)
Theorem C05_underpaid_rejected : forall tip t n mf,
  min_fee (s_fee_mult n) t = Ok mf -> t_fee t < mf -> forall n', spend_and_pay tip t n <> Ok n'.
Proof. exact spend_and_pay_underpaid. Qed.
Print Assumptions C05_underpaid_rejected.

(* proposer reward *)
Theorem C05_reward : forall SO s a s',
  collect_proposer_fee SO s a = Ok s' ->
  s_coins s' !! coin_key (so_reward_id SO (s_height s)) 0
    = Some {| c_data := {| cd_covhash := a_dest a; cd_value := s_fee_pool s / 65536 + s_tips s;
                           cd_denom := Mel; cd_extra := [] |}; c_height := s_height s |} /\
  s_fee_pool s' = s_fee_pool s - s_fee_pool s / 65536 /\ s_tips s' = 0 /\
  (forall k, k <> coin_key (so_reward_id SO (s_height s)) 0 -> s_coins s' !! k = s_coins s !! k).
Proof. exact collect_proposer_fee_spec. Qed.
Print Assumptions C05_reward.

(* C14 - A state is confirmed only by valid signatures from a >2/3 stake majority.
   Pinned statements only; proofs in STF/Proofs/Confirm.v.  [confirm] is the model of SealedState::confirm
   (src/state.rs), [so_ed25519 k m sig] the Ed25519 verification oracle, [total_votes]/[votes] the
   StakeSet functions (lib/tip911-stakeset). *)
From MelVerif Require Import STF.Model STF.Proofs.Confirm STF.Proofs.Votes.
Open Scope N_scope.

(* exact characterisation: confirmed iff every signature in the proof is valid for this header hash and the
   signers hold strictly more than two thirds of the voting power active in the state's epoch *)
Theorem C14_confirm_iff : forall SO s hh proof,
  confirm SO s hh proof = true <->
  (forall k sg, In (k, sg) proof -> so_ed25519 SO k hh sg = true) /\
  2 * total_votes (s_stakes s) (s_height s / STAKE_EPOCH) < 3 * present_votes s proof.
Proof. exact confirm_iff. Qed.
Print Assumptions C14_confirm_iff.

(* never with less than two thirds *)
Theorem C14_never_below_two_thirds : forall SO s hh proof,
  confirm SO s hh proof = true ->
  2 * total_votes (s_stakes s) (s_height s / STAKE_EPOCH) <= 3 * present_votes s proof.
Proof. exact confirm_needs_two_thirds. Qed.
Print Assumptions C14_never_below_two_thirds.

(* an empty proof never confirms a state that has stakers *)
Theorem C14_empty_proof : forall SO s hh,
  0 < total_votes (s_stakes s) (s_height s / STAKE_EPOCH) -> confirm SO s hh [] = false.
Proof. exact empty_proof_never_confirms. Qed.
Print Assumptions C14_empty_proof.

(* a proof whose signers hold all the votes always confirms *)
Theorem C14_full_proof : forall SO s hh proof,
  0 < total_votes (s_stakes s) (s_height s / STAKE_EPOCH) ->
  (forall k sg, In (k, sg) proof -> so_ed25519 SO k hh sg = true) ->
  present_votes s proof = total_votes (s_stakes s) (s_height s / STAKE_EPOCH) ->
  confirm SO s hh proof = true.
Proof. exact full_proof_confirms. Qed.
Print Assumptions C14_full_proof.

(* adding a valid signature never turns a confirming proof into a non-confirming one *)
Theorem C14_monotone : forall SO s hh proof k sg,
  confirm SO s hh proof = true -> so_ed25519 SO k hh sg = true ->
  confirm SO s hh (proof ++ [(k, sg)]) = true.
Proof. exact confirm_monotone. Qed.
Print Assumptions C14_monotone.

(* the implementation's overflow-free threshold is exactly 3 * present > 2 * total *)
Theorem C14_threshold_exact : forall total present,
  (total / 3 * 2 + total mod 3 * 2 / 3 <? present) = (2 * total <? 3 * present).
Proof. exact threshold_exact. Qed.
Print Assumptions C14_threshold_exact.

(* ---- the two-thirds test compares a part with the whole: voting power is a partition of the active stake *)
Theorem C14_a_keys_votes_are_part_of_the_total : forall st epoch k, votes st epoch k <= total_votes st epoch.
Proof. exact votes_le_total. Qed.
Print Assumptions C14_a_keys_votes_are_part_of_the_total.

(* a consensus proof is a map keyed by public key: what it presents is at most the total, whatever the stakes *)
Theorem C14_presented_votes_are_part_of_the_total : forall s proof,
  NoDup (map fst proof) -> present_votes s proof <= total_votes (s_stakes s) (s_height s / STAKE_EPOCH).
Proof. exact present_votes_le_total_nodup. Qed.
Print Assumptions C14_presented_votes_are_part_of_the_total.

(* C10 - MelVM executes exactly the specified semantics, deterministically.
   The reference semantics is the Gallina interpreter VM/Exec.v (step / update / run), which the
   correspondence check compares with the real Executor on every generated program.  The theorems below
   pin down the laws that semantics obeys for all programs, stacks and heaps.  Proofs: VM/ExecProofs.v. *)
From MelVerif Require Import Base.Arith VM.Op Generated VM.Weight VM.Exec VM.LoopProofs VM.ExecProofs VM.LoopCount VM.Codec VM.CodecProofs VM.ValueRange.
Open Scope N_scope.

(* 256-bit wrapping arithmetic *)
Theorem C10_add : forall O s a b r, stack s = VInt a :: VInt b :: r ->
  exec_op O Add s = Some (with_stack s (VInt ((a + b) mod U256) :: r)).
Proof. exact exec_add. Qed.
Print Assumptions C10_add.

Theorem C10_mul : forall O s a b r, stack s = VInt a :: VInt b :: r ->
  exec_op O Mul s = Some (with_stack s (VInt ((a * b) mod U256) :: r)).
Proof. exact exec_mul. Qed.
Print Assumptions C10_mul.

Theorem C10_sub : forall O s a b r, stack s = VInt a :: VInt b :: r ->
  exec_op O Sub s = Some (with_stack s (VInt (wsub256 a b) :: r)).
Proof. exact exec_sub. Qed.
Print Assumptions C10_sub.

Theorem C10_sub_wraps : forall a b, a < U256 -> b < U256 ->
  Z.of_N (wsub256 a b) = ((Z.of_N a - Z.of_N b) mod Z.of_N U256)%Z.
Proof. exact wsub256_spec. Qed.
Print Assumptions C10_sub_wraps.

(* failing division by zero *)
Theorem C10_div : forall O s a b r, stack s = VInt a :: VInt b :: r ->
  exec_op O Div s = if b =? 0 then None else Some (with_stack s (VInt (a / b) :: r)).
Proof. exact exec_div. Qed.
Print Assumptions C10_div.

Theorem C10_rem : forall O s a b r, stack s = VInt a :: VInt b :: r ->
  exec_op O Rem s = if b =? 0 then None else Some (with_stack s (VInt (a mod b) :: r)).
Proof. exact exec_rem. Qed.
Print Assumptions C10_rem.

(* bit-bounded exponentiation *)
Theorem C10_exp : forall O s k b e r, stack s = VInt b :: VInt e :: r -> e < U256 -> b < U256 ->
  (e < 2 ^ (k + 1) ->
     exists v, exec_op O (Exp k) s = Some (with_stack s (VInt v :: r)) /\ v mod U256 = (b ^ e) mod U256) /\
  (2 ^ (k + 1) <= e -> exec_op O (Exp k) s = None).
Proof. exact exec_exp. Qed.
Print Assumptions C10_exp.

(* stack underflow and type errors make integer instructions fail *)
Theorem C10_type_errors_fail : forall O s o,
  In o [Add; Sub; Mul; Div; Rem; And; Or; Xor; Eql; Lt; Gt; Shl; Shr] ->
  (match stack s with VInt _ :: VInt _ :: _ => False | _ => True end) -> exec_op O o s = None.
Proof. exact arith_fails_on_bad_operands. Qed.
Print Assumptions C10_type_errors_fail.

(* forward-only jumps: no instruction other than Loop changes the loop stack or moves the pc backwards *)
Theorem C10_jumps_forward : forall O o s s',
  is_loop o = false -> exec_op O o s = Some s' -> pc s < pc s' /\ loops s' = loops s.
Proof. exact jumps_forward. Qed.
Print Assumptions C10_jumps_forward.

(* the only backward move is the counted back-edge, which consumes one remaining iteration *)
Theorem C10_backedge : forall st p p' st',
  update p st = (p', st') -> p' = p \/
  exists f rest, 0 < f_left f /\ p = f_end f + 1 /\ p' = f_begin f /\
    st' = {| f_begin := f_begin f; f_end := f_end f; f_left := f_left f - 1 |} :: rest.
Proof. exact update_backedge. Qed.
Print Assumptions C10_backedge.

(* the result is the value left on top of the stack; a failing instruction ends the run with failure *)
Theorem C10_result_is_top : forall O prog s n,
  len prog <= pc s ->
  step1 O prog s n = Fin (match stack s with v :: _ => Some v | [] => None end) n.
Proof. exact result_is_top. Qed.
Print Assumptions C10_result_is_top.

Theorem C10_failure_is_final : forall O prog s n,
  pc s < len prog -> step O prog s = None -> step1 O prog s n = Fin None (n + 1).
Proof. exact failure_is_final. Qed.
Print Assumptions C10_failure_is_final.

(* counted loops: for every program pre ++ Loop n |body| :: body ++ post whose body is straight-line code
   (no Loop, no jump), every n >= 1, every stack and heap: after 1 + n*|body| steps the machine is just behind
   the body with an empty loop stack, and stack and heap are the result of running the body exactly n times *)
Theorem C10_loop_runs_body_exactly_n_times : forall O pre body post n L,
  1 <= n -> len body = L -> 1 <= L -> forallb is_simple body = true ->
  forall st hp d' cnt,
  iter_body O body (N.to_nat n) (st, hp) = Some d' ->
  run_nat O (pre ++ Loop n L :: body ++ post) (1 + N.to_nat n * N.to_nat L)
          {| pc := len pre; stack := st; heap := hp; loops := [] |} cnt =
  Cont {| pc := len pre + 1 + L; stack := fst d'; heap := snd d'; loops := [] |} (cnt + 1 + n * L).
Proof. exact loop_runs_body_exactly_n_times. Qed.
Print Assumptions C10_loop_runs_body_exactly_n_times.

(* a loop with zero iterations skips its body *)
Theorem C10_loop_zero_skips_body : forall O pre body post (n L : N),
  1 <= n -> len body = L -> 1 <= L -> forallb is_simple body = true -> forall st hp ls,
  step O (pre ++ Loop 0 L :: body ++ post) {| pc := len pre; stack := st; heap := hp; loops := ls |}
  = Some {| pc := fst (update (len pre + 1 + L) ls); stack := st; heap := hp; loops := snd (update (len pre + 1 + L) ls) |}.
Proof. exact loop_zero_skips_body. Qed.
Print Assumptions C10_loop_zero_skips_body.

(* a straight-line instruction acts on stack and heap only, moves the pc by one, keeps the loop stack *)
Theorem C10_straight_line : forall O o s,
  is_simple o = true ->
  exec_op O o s = match data_step O o (stack s, heap s) with
                  | Some d' => Some {| pc := pc s + 1; stack := fst d'; heap := snd d'; loops := loops s |}
                  | None => None
                  end.
Proof. exact simple_exec. Qed.
Print Assumptions C10_straight_line.

(* non-vacuity / sanity: a counted loop runs its body exactly the stated number of times *)
Example C10_loop_runs_n_times :
  let O := {| o_hash := fun b => b; o_sig := fun _ _ _ => false |} in
  forallb (fun n => match run O [PushI 0; Loop n 2; PushI 1; Add] [] with
                    | Finished (Some (VInt v)) _ => v =? n
                    | _ => false end) [1; 2; 3; 10; 100; 1000] = true.
Proof. vm_compute. reflexivity. Qed.

(* ---- the model never leaves the domain the implementation can represent: integers stay below 2^256 (U256),
   bytes below 256 (u8), in the stack and in the heap, whatever is executed - so a value of the reference semantics
   always is a MelVM value.  [vwf] / [stwf]: the value / the state is in range; [opwf]: a literal of the program is
   in range (the decoder produces only such literals); the two length instructions are in range whenever the
   measured sequence has fewer than 2^256 elements. *)
Theorem C10_in_range_def : forall v,
  vwf v = match v with
          | VInt n => n <? U256
          | VBytes l => forallb (fun b => b <? 256) l
          | VVec l => forallb vwf l
          end.
Proof. exact vwf_def. Qed.
Print Assumptions C10_in_range_def.
Theorem C10_state_in_range_def : forall s, stwf s = forallb vwf (stack s) && forallb (fun kv => vwf (snd kv)) (heap s).
Proof. exact stwf_def. Qed.
Print Assumptions C10_state_in_range_def.
Theorem C10_literal_in_range_def : forall o,
  opwf o = match o with PushI n | PushIC n => n <? U256 | PushB b => forallb (fun x => x <? 256) b | _ => true end.
Proof. exact opwf_def. Qed.
Print Assumptions C10_literal_in_range_def.
Theorem C10_length_in_range_def : forall o s,
  length_in_range o s <->
  match o, stack s with
  | VLength, VVec l :: _ => len l < U256
  | BLength, VBytes l :: _ => len l < U256
  | _, _ => True
  end.
Proof. exact length_in_range_def. Qed.
Print Assumptions C10_length_in_range_def.

Theorem C10_every_instruction_keeps_values_in_range : forall O, (forall b, forallb (fun x => x <? 256) (o_hash O b) = true) ->
  forall o s s', opwf o = true -> length_in_range o s -> stwf s = true -> exec_op O o s = Some s' -> stwf s' = true.
Proof. exact exec_op_range. Qed.
Print Assumptions C10_every_instruction_keeps_values_in_range.

Theorem C10_every_step_keeps_values_in_range : forall O prog s s',
  (forall b, forallb (fun x => x <? 256) (o_hash O b) = true) -> forallb opwf prog = true ->
  (forall o, nth_error prog (N.to_nat (pc s)) = Some o -> length_in_range o s) ->
  stwf s = true -> step O prog s = Some s' -> stwf s' = true.
Proof. exact step_range. Qed.
Print Assumptions C10_every_step_keeps_values_in_range.

(* the premise about the literals holds for every program the decoder accepts *)
Theorem C10_decoded_literals_in_range : forall bs ops, bytes_ok bs -> decode_all bs = Some ops -> forallb opwf ops = true.
Proof. exact decoded_literals_in_range. Qed.
Print Assumptions C10_decoded_literals_in_range.

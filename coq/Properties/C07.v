(* C07 - Headers commit to the whole state and chain together; contents are provable.
   Pinned statements only; proofs in STF/Proofs/Block.v (state level) and Merkle/Smt.v (sparse Merkle tree of
   novasmt over an abstract hash, tied to the real crate by the `merkle` stream: roots and proofs of small real
   trees are recomputed by the model from tables of the real hash evaluations) and Merkle/Dense.v (the dense
   tree of novasmt::dense used for transactions under TIP-908, reduced to the same tree; tied by the dense
   cases of the `merkle` stream: real roots and proofs of 0..33 blocks recomputed by the model). *)
From MelVerif Require Import STF.Model STF.Proofs.Block STF.Proofs.ChainHistory Merkle.Smt Merkle.Dense.
Open Scope N_scope.

(* the header records the scalars of the state, the five roots, and the hash of the parent header *)
Theorem C07_header_fields : forall SO R s h,
  header_of SO R s = Ok h ->
  h_network h = s_network s /\ h_height h = s_height s /\ h_fee_pool h = s_fee_pool s /\
  h_fee_mult h = s_fee_mult s /\ h_dosc_speed h = s_dosc_speed s /\
  h_history h = r_history R /\ h_coins h = r_coins R /\ h_txs h = r_txs R /\
  h_pools h = r_pools R /\ h_stakes h = r_stakes R /\
  (s_height s = 0 -> h_previous h = 0) /\
  (forall p, s_history s !! (s_height s - 1) = Some p -> s_height s <> 0 -> h_previous h = so_header_hash SO p).
Proof. exact header_of_fields. Qed.
Print Assumptions C07_header_fields.

(* the successor state: height + 1, same network, the parent header stored at the parent's height, every
   older history entry untouched *)
Theorem C07_successor : forall s hdr,
  let n := next_unsealed s hdr in
  s_height n = s_height s + 1 /\ s_network n = s_network s /\
  s_history n !! s_height s = Some hdr /\
  (forall k, k <> s_height s -> s_history n !! k = s_history s !! k) /\
  s_txs n = ∅ /\ s_fee_pool n = s_fee_pool s /\ s_fee_mult n = s_fee_mult s /\
  s_dosc_speed n = s_dosc_speed s /\ s_pools n = s_pools s /\ s_coins n = s_coins s /\ s_tips n = s_tips s.
Proof. exact next_unsealed_link. Qed.
Print Assumptions C07_successor.

(* chaining: the header of a child is one higher, on the same network, and its previous-hash is the hash
   of the parent header *)
Theorem C07_child_links_to_parent : forall SO rf s hdr txs a u s2 h2,
  apply_batch SO rf (next_unsealed s hdr) txs = Ok u -> seal SO u a = Ok s2 ->
  header_of SO (rf s2) s2 = Ok h2 ->
  h_height h2 = s_height s + 1 /\ h_network h2 = s_network s /\ h_previous h2 = so_header_hash SO hdr.
Proof. exact child_header_links_to_parent. Qed.
Print Assumptions C07_child_links_to_parent.

(* ---- whole histories.  A history is a list of batches (a refused batch leaves the state alone) and block
   boundaries; a boundary seals the block, computes its real header (the roots are any function rf of the state)
   and opens the next block with that header stored in the history. *)
Theorem C07_chain_step_def : forall SO rf s o,
  cstep SO rf s o =
  match o with
  | CBatch lh txs => match apply_tx_batch SO s lh txs with Ok s' => s' | _ => s end
  | CBlock a =>
    match seal SO s a with
    | Ok s' => match header_of SO (rf s') s' with Ok h => next_unsealed s' h | _ => s end
    | _ => s
    end
  end.
Proof. exact cstep_def. Qed.
Print Assumptions C07_chain_step_def.

(* [Chain SO s]: the history has a header for every lower height; the header stored at height h has height h and the
   chain's network; the one at height 0 has previous-hash 0 and every other one the hash of the header one below *)
Theorem C07_chain_def : forall SO s,
  Chain SO s <->
  (forall h, h < s_height s -> is_Some (s_history s !! h)) /\
  (forall h hd, s_history s !! h = Some hd ->
     h < s_height s /\ h_height hd = h /\ h_network hd = s_network s /\
     (h = 0 -> h_previous hd = 0) /\
     (forall p, h <> 0 -> s_history s !! (h - 1) = Some p -> h_previous hd = so_header_hash SO p)).
Proof. exact chain_def. Qed.
Print Assumptions C07_chain_def.

Theorem C07_genesis_is_a_chain : forall SO (rf : wstate -> roots) s, s_height s = 0 -> s_history s = ∅ -> Chain SO s.
Proof. exact genesis_chain. Qed.
Print Assumptions C07_genesis_is_a_chain.

(* C07: the headers chain together in every reachable state *)
Theorem C07_every_reachable_history_is_a_chain : forall SO rf ops s, Chain SO s -> Chain SO (fold_left (cstep SO rf) ops s).
Proof. exact chain_history. Qed.
Print Assumptions C07_every_reachable_history_is_a_chain.

Theorem C07_reachable_headers_link : forall SO rf ops s h hd p,
  Chain SO s -> let f := fold_left (cstep SO rf) ops s in
  s_history f !! (h + 1) = Some hd -> s_history f !! h = Some p ->
  h_previous hd = so_header_hash SO p /\ h_height hd = h_height p + 1 /\ h_network hd = h_network p.
Proof. exact reachable_headers_link. Qed.
Print Assumptions C07_reachable_headers_link.

(* ---- Merkle level (coin, pool, history, stake and pre-TIP-908 transaction trees are novasmt sparse trees).
   [root d m] is the root of the depth-d tree with contents m (a function from key paths to values, [] = absent);
   the two conventions of novasmt (hash_data [] = 0, hash_node 0 0 = 0) are the only facts used about the hash. *)

(* the root is a function of the contents alone: equal contents reached by different operation orders give
   equal roots *)
Theorem C07_root_depends_on_contents_only : forall H (hash_data : list N -> H) (hash_node : H -> H -> H) d m1 m2,
  (forall p, m1 p = m2 p) -> root H hash_data hash_node d m1 = root H hash_data hash_node d m2.
Proof. exact root_ext. Qed.
Print Assumptions C07_root_depends_on_contents_only.

(* every key - present or absent - has a proof that verifies against the root *)
Theorem C07_proofs_verify : forall H (hash_data : list N -> H) (hash_node : H -> H -> H) d m key,
  length key = d ->
  climb H hash_node (proof H hash_data hash_node d m key) key (hash_data (m key)) = root H hash_data hash_node d m.
Proof. exact proof_complete. Qed.
Print Assumptions C07_proofs_verify.

(* for a collision-free hash a verifying proof determines the value, and any difference in an entry changes
   the root *)
Theorem C07_proofs_are_sound : forall H (hash_data : list N -> H) (hash_node : H -> H -> H),
  (forall a b a' b', hash_node a b = hash_node a' b' -> a = a' /\ b = b') ->
  (forall v v', hash_data v = hash_data v' -> v = v') ->
  forall d m key sibs v, length key = d -> length sibs = d ->
  climb H hash_node sibs key (hash_data v) = root H hash_data hash_node d m -> v = m key.
Proof. exact proof_sound. Qed.
Print Assumptions C07_proofs_are_sound.

Theorem C07_root_commits_to_every_entry : forall H (hash_data : list N -> H) (hash_node : H -> H -> H),
  (forall a b a' b', hash_node a b = hash_node a' b' -> a = a' /\ b = b') ->
  (forall v v', hash_data v = hash_data v' -> v = v') ->
  forall d m1 m2, root H hash_data hash_node d m1 = root H hash_data hash_node d m2 ->
  forall key, length key = d -> m1 key = m2 key.
Proof. exact root_inj. Qed.
Print Assumptions C07_root_commits_to_every_entry.

(* the executable sparse root compared with novasmt is that root *)
Theorem C07_sparse_root : forall H zero (hash_data : list N -> H) (hash_node : H -> H -> H),
  hash_data [] = zero -> hash_node zero zero = zero ->
  forall d l, keys_have_length d l ->
  sroot H zero hash_data hash_node d l = root H hash_data hash_node d (fun k => lookup k l).
Proof. exact sroot_is_root. Qed.
Print Assumptions C07_sparse_root.

(* ---- the dense tree (transactions under TIP-908): leaves are the block hashes padded with the zero hash to
   2^k, levels are built by hashing adjacent pairs.  Its root is the root of the perfect tree whose leaf at index
   i holds block i - so the root is a function of the blocks alone and C07_root_commits_to_every_entry applies *)
Theorem C07_dense_root_is_tree_root : forall H zero (hash_data : list N -> H) (hash_node : H -> H -> H),
  hash_data [] = zero ->
  forall k blocks, (length blocks <= 2 ^ k)%nat ->
  dense_root H zero hash_data hash_node k blocks
  = root H hash_data hash_node k (leaf_at (blocks ++ repeat [] (2 ^ k - length blocks))).
Proof. exact dense_root_is_root. Qed.
Print Assumptions C07_dense_root_is_tree_root.

(* every block has a proof that verify_dense accepts *)
Theorem C07_dense_proofs_verify : forall H zero (hash_data : list N -> H) (hash_node : H -> H -> H),
  hash_data [] = zero ->
  forall k blocks i, (length blocks <= 2 ^ k)%nat -> (i < 2 ^ k)%nat ->
  dense_climb H hash_node (dense_proof H hash_data hash_node k blocks i) i
    (hash_data (nth i (blocks ++ repeat [] (2 ^ k - length blocks)) []))
  = dense_root H zero hash_data hash_node k blocks.
Proof. exact dense_proof_verifies. Qed.
Print Assumptions C07_dense_proofs_verify.

(* and for a collision-free hash an accepted proof of the right length determines the block *)
Theorem C07_dense_proofs_are_sound : forall H zero (hash_data : list N -> H) (hash_node : H -> H -> H),
  hash_data [] = zero ->
  forall k blocks i (p : list H) v,
  (forall a b a' b', hash_node a b = hash_node a' b' -> a = a' /\ b = b') ->
  (forall x y, hash_data x = hash_data y -> x = y) ->
  (length blocks <= 2 ^ k)%nat -> (i < 2 ^ k)%nat -> length p = k ->
  dense_climb H hash_node p i (hash_data v) = dense_root H zero hash_data hash_node k blocks ->
  v = nth i (blocks ++ repeat [] (2 ^ k - length blocks)) [].
Proof. exact dense_proof_sound. Qed.
Print Assumptions C07_dense_proofs_are_sound.

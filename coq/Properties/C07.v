(* C07 - Headers commit to the whole state and chain together; contents are provable.
   Pinned statements only; proofs in STF/Proofs/Block.v (state level).  The Merkle trees themselves
   (novasmt) are exercised by the harness against the real crate: membership and absence proofs of every
   entry, history independence of the roots, the dense transaction tree under TIP-908. *)
From MelVerif Require Import STF.Model STF.Proofs.Block.
Open Scope N_scope.

(* the header records the scalars of the state, the five roots, and the hash of the parent header *)
Theorem C07_header_fields : forall SO R s h,
  header_of SO R s = Ok h ->
  h_network h = s_network s /\ h_height h = s_height s /\ h_fee_pool h = s_fee_pool s /\
  h_fee_mult h = s_fee_mult s /\ h_dosc_speed h = s_dosc_speed s /\
  h_history h = r_history R /\ h_coins h = r_coins R /\ h_txs h = r_txs R /\
  h_pools h = r_pools R /\ h_stakes h = r_stakes R /\
  (s_height s = 0 -> h_previous h = 0) /\
  (forall p, s_history s !! (s_height s - 1) = Some p -> s_height s <> 0 -> h_previous h = so_header_hash SO p).
Proof. exact header_of_fields. Qed.
Print Assumptions C07_header_fields.

(* the successor state: height + 1, same network, the parent header stored at the parent's height, every
   older history entry untouched *)
Theorem C07_successor : forall s hdr,
  let n := next_unsealed s hdr in
  s_height n = s_height s + 1 /\ s_network n = s_network s /\
  s_history n !! s_height s = Some hdr /\
  (forall k, k <> s_height s -> s_history n !! k = s_history s !! k) /\
  s_txs n = ∅ /\ s_fee_pool n = s_fee_pool s /\ s_fee_mult n = s_fee_mult s /\
  s_dosc_speed n = s_dosc_speed s /\ s_pools n = s_pools s /\ s_coins n = s_coins s /\ s_tips n = s_tips s.
Proof. exact next_unsealed_link. Qed.
Print Assumptions C07_successor.

(* chaining: the header of a child is one higher, on the same network, and its previous-hash is the hash
   of the parent header *)
Theorem C07_child_links_to_parent : forall SO rf s hdr txs a u s2 h2,
  apply_batch SO rf (next_unsealed s hdr) txs = Ok u -> seal SO u a = Ok s2 ->
  header_of SO (rf s2) s2 = Ok h2 ->
  h_height h2 = s_height s + 1 /\ h_network h2 = s_network s /\ h_previous h2 = so_header_hash SO hdr.
Proof. exact child_header_links_to_parent. Qed.
Print Assumptions C07_child_links_to_parent.

(* C08 - Restart equivalence: a state rebuilt from its block behaves identically.
   Pinned statements only; proofs in STF/Proofs/Block.v. *)
From MelVerif Require Import STF.Model STF.Proofs.Block STF.Proofs.Frame STF.Proofs.SealCounts STF.Proofs.History STF.Proofs.MiscHistory.
Open Scope N_scope.

(* from_block (to_block s) is s itself - hence indistinguishable under every continuation - whenever no tips
   are pending; the transaction set is keyed by each transaction's own hash (model invariant [txs_keyed]) *)
Theorem C08_restart : forall SO s R h,
  header_of SO R s = Ok h -> s_tips s = 0 -> txs_keyed s ->
  from_block h (map snd (map_to_list (s_txs s))) (s_history s) (s_coins s) (s_counts s) (s_pools s) (s_stakes s) = s.
Proof. exact restart_equivalence. Qed.
Print Assumptions C08_restart.

(* the full statement (for every sealed state) is FALSE of the faithful model: a state sealed without a
   proposer action keeps its tips, and from_block resets them (finding F16) *)
Theorem C08_refuted_with_pending_tips : forall SO s R h,
  header_of SO R s = Ok h -> s_tips s <> 0 ->
  from_block h (map snd (map_to_list (s_txs s))) (s_history s) (s_coins s) (s_counts s) (s_pools s) (s_stakes s) <> s.
Proof. exact restart_loses_tips. Qed.
Print Assumptions C08_refuted_with_pending_tips.

(* sealing with a proposer action always leaves tips = 0, so every state sealed with an action restarts exactly *)
Theorem C08_action_clears_tips : forall SO s act s', seal SO s (Some act) = Ok s' -> s_tips s' = 0.
Proof. exact seal_action_clears_tips. Qed.
Print Assumptions C08_action_clears_tips.

(* over whole histories ([hstep], [hist_ok], [Good]: Properties/C20.v): the model invariant [txs_keyed] is part of
   C20's invariant, so every block of every history that is sealed with a proposer action restarts exactly - the
   state rebuilt from the block's header and contents is the sealed state itself, hence behaves identically under
   every continuation *)
Theorem C08_every_block_sealed_with_an_action_restarts_exactly : forall SO ops s act sealed R h,
  Good s -> hist_ok SO s ops ->
  seal SO (fold_left (hstep SO) ops s) (Some act) = Ok sealed ->
  reward_fresh SO (fold_left (hstep SO) ops s) ->
  header_of SO R sealed = Ok h ->
  from_block h (map snd (map_to_list (s_txs sealed))) (s_history sealed) (s_coins sealed) (s_counts sealed)
             (s_pools sealed) (s_stakes sealed) = sealed.
Proof. exact reachable_block_restarts_exactly. Qed.
Print Assumptions C08_every_block_sealed_with_an_action_restarts_exactly.

(* C09 - Validation is total: hostile input is rejected, never a crash or hang.
   Pinned statements only; proofs in STF/Proofs/Total.v.
   In the model every Rust panic site is an explicit [Panic tag] outcome.
   PROVED for all inputs: each panic site is unreachable under its guard, and - for a whole batch -
   [C09_batch_never_panics]: apply_tx_batch returns a state or a rejection, never a panic, for every batch
   of arbitrary transactions, under stated invariants of the state (counts consistent when TIP-906 is active;
   the history has no header at or above the current height and records positive DOSC speeds) and stated
   bounds (height <= 3*10^6 so the inflator is in closed form, mint difficulties <= 40, and the inputs of a
   transaction sum to less than 2^128 per denomination - the supply bound of the property).
   NOT proved (checked on the real code by the harness: every call runs under catch_unwind, in debug builds -
   overflow checks on - and the model's Panic outcomes are compared with the real ones): totality of seal and
   apply_block over whole histories.  Not covered by any theorem: allocation failure, stack depth, and the
   internals of the dependency crates (their panic behaviour is part of the oracles). *)
From MelVerif Require Import STF.Model VM.Exec STF.Proofs.Pool STF.Proofs.Counts STF.Proofs.Total STF.Proofs.Supply
  STF.Proofs.HashFacts STF.Proofs.NoPanicBatch STF.Proofs.Witness.
Open Scope N_scope.

Theorem C09_covenants_terminate : forall O prog hp, run O prog hp <> OutOfFuel.
Proof. exact covenant_execution_terminates. Qed.
Print Assumptions C09_covenants_terminate.

Theorem C09_checked_totals_cannot_overflow : forall t,
  totals_fit t = true -> (exists outs, total_outputs t = Ok outs) /\ (exists w, tx_weight t = Ok w) /\
  forall mult, exists f, min_fee mult t = Ok f.
Proof. exact totals_fit_no_overflow. Qed.
Print Assumptions C09_checked_totals_cannot_overflow.

Theorem C09_mint_speed_cannot_overflow : forall difficulty, 1 <= difficulty <= 64 -> 100 * 2 ^ difficulty < U128.
Proof. exact mint_speed_no_overflow. Qed.
Print Assumptions C09_mint_speed_cannot_overflow.

Theorem C09_swap_needs_live_pool : forall s t,
  is_swap_request s t = true ->
  exists k p, tx_pool t = Some k /\ get_pool s k = Some p /\ 1 <= p_lefts p /\ 1 <= p_rights p.
Proof. exact swap_request_needs_live_pool. Qed.
Print Assumptions C09_swap_needs_live_pool.

Theorem C09_settled_swap_cannot_panic : forall p l r,
  1 <= p_lefts p -> 1 <= p_rights p -> p_lefts p + l < U128 -> p_rights p + r < U128 ->
  exists res, swap_many p l r = Ok res.
Proof. exact settled_swap_cannot_panic. Qed.
Print Assumptions C09_settled_swap_cannot_panic.

Theorem C09_withdrawals_cannot_panic : forall k s ws p,
  get_pool s k = Some p -> exists s', withdrawals_single_pool k s ws = Ok s'.
Proof. exact guarded_withdraw_cannot_panic. Qed.
Print Assumptions C09_withdrawals_cannot_panic.

Theorem C09_zero_total_share_is_zero : forall x a, multiply_ratio x a 0 = 0.
Proof. exact share_of_empty_total_is_zero. Qed.
Print Assumptions C09_zero_total_share_is_zero.

Theorem C09_counts_cannot_underflow : forall ks cn, CountsOk cn -> exists r, remove_coins true ks cn = Ok r.
Proof. exact spending_cannot_underflow_counts. Qed.
Print Assumptions C09_counts_cannot_underflow.

(* a whole batch: whatever the transactions are, the outcome is a new state or a rejection *)
Theorem C09_batch_never_panics : forall SO s lh txs,
  HashOK SO s txs ->
  (tip_906 s = true -> CountsOk (s_coins s, s_counts s)) ->
  HistOK s -> s_height s <= 3000000 ->
  (forall t, In t txs -> mint_small t) ->
  (forall relevant t d, load_relevant_coins s txs = Ok relevant -> In t txs -> in_sum relevant d (t_inputs t) < U128) ->
  no_panic (apply_tx_batch SO s lh txs).
Proof. exact apply_tx_batch_never_panics. Qed.
Print Assumptions C09_batch_never_panics.

(* the hypotheses hold together on the concrete batch of STF/Proofs/Witness.v *)
Example C09_batch_witness :
  HashOK w_oracle w_state w_batch /\ HistOK w_state /\ s_height w_state <= 3000000 /\
  (forall t, In t w_batch -> mint_small t).
Proof.
  split; [exact w_hash_ok|]. split; [intros h hd E; cbn [s_history w_state] in E; rewrite lookup_empty in E; discriminate|]. split; [vm_compute; discriminate|].
  intros t Ht d pid E. cbn in Ht. destruct Ht as [<-|[<-|[<-|[]]]]; discriminate.
Qed.

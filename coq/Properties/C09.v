(* C09 - Validation is total: hostile input is rejected, never a crash or hang.
   Pinned statements only; proofs in STF/Proofs/Total.v.
   In the model every Rust panic site is an explicit [Panic tag] outcome.
   PROVED for all inputs: each panic site is unreachable under its guard, and - for a whole batch -
   [C09_batch_never_panics]: apply_tx_batch returns a state or a rejection, never a panic, for every batch
   of arbitrary transactions, under stated invariants of the state (counts consistent when TIP-906 is active;
   the history has no header at or above the current height and records positive DOSC speeds) and stated
   bounds (height <= 3*10^6 so the inflator is in closed form, mint difficulties <= 40, and the inputs of a
   transaction sum to less than 2^128 per denomination - the supply bound of the property).
   [C09_seal_never_panics]: seal returns a state, never a panic, for every proposer action, on every state that
   satisfies the invariants proved elsewhere for reachable states - C20's invariant (so that removing a deposit
   output cannot underflow a count), built-in pools that are live and cannot be drained by the block's withdrawals
   (C16) - and the stated bounds (block height below TIP-909 + 128 million, so the subsidy shift is below 128; fee
   pool, tips and the MEL/SYM reserve together below 2^128 - the supply bound of the property).
   NOT proved (checked on the real code by the harness: every call runs under catch_unwind, in debug builds -
   overflow checks on - and the model's Panic outcomes are compared with the real ones): totality of
   apply_block (a composition of the two) over whole histories.  Not covered by any theorem: allocation failure, stack depth, and the
   internals of the dependency crates (their panic behaviour is part of the oracles). *)
From MelVerif Require Import STF.Model VM.Exec STF.Proofs.Pool STF.Proofs.Counts STF.Proofs.Total STF.Proofs.Supply
  STF.Proofs.HashFacts STF.Proofs.NoPanicBatch STF.Proofs.Witness STF.Proofs.SealLift STF.Proofs.SealInv STF.Proofs.SealCounts
  STF.Proofs.SealCoins STF.Proofs.SealSupply STF.Proofs.History STF.Proofs.SealTotal STF.Proofs.Declared STF.Proofs.BoundsHistory STF.Proofs.ApplyBlock STF.Proofs.PoolHistory STF.Proofs.Born STF.Proofs.Witness5 STF.Proofs.Witness6 STF.Proofs.Witness4 STF.Proofs.Witness8.
Open Scope N_scope.

Theorem C09_covenants_terminate : forall O prog hp, run O prog hp <> OutOfFuel.
Proof. exact covenant_execution_terminates. Qed.
Print Assumptions C09_covenants_terminate.

Theorem C09_checked_totals_cannot_overflow : forall t,
  totals_fit t = true -> (exists outs, total_outputs t = Ok outs) /\ (exists w, tx_weight t = Ok w) /\
  forall mult, exists f, min_fee mult t = Ok f.
Proof. exact totals_fit_no_overflow. Qed.
Print Assumptions C09_checked_totals_cannot_overflow.

Theorem C09_mint_speed_cannot_overflow : forall difficulty, 1 <= difficulty <= 64 -> 100 * 2 ^ difficulty < U128.
Proof. exact mint_speed_no_overflow. Qed.
Print Assumptions C09_mint_speed_cannot_overflow.

Theorem C09_swap_needs_live_pool : forall s t,
  is_swap_request s t = true ->
  exists k p, tx_pool t = Some k /\ get_pool s k = Some p /\ 1 <= p_lefts p /\ 1 <= p_rights p.
Proof. exact swap_request_needs_live_pool. Qed.
Print Assumptions C09_swap_needs_live_pool.

Theorem C09_settled_swap_cannot_panic : forall p l r,
  1 <= p_lefts p -> 1 <= p_rights p -> p_lefts p + l < U128 -> p_rights p + r < U128 ->
  exists res, swap_many p l r = Ok res.
Proof. exact settled_swap_cannot_panic. Qed.
Print Assumptions C09_settled_swap_cannot_panic.

Theorem C09_withdrawals_cannot_panic : forall k s ws p,
  get_pool s k = Some p -> exists s', withdrawals_single_pool k s ws = Ok s'.
Proof. exact guarded_withdraw_cannot_panic. Qed.
Print Assumptions C09_withdrawals_cannot_panic.

Theorem C09_zero_total_share_is_zero : forall x a, multiply_ratio x a 0 = 0.
Proof. exact share_of_empty_total_is_zero. Qed.
Print Assumptions C09_zero_total_share_is_zero.

Theorem C09_counts_cannot_underflow : forall ks cn, CountsOk cn -> exists r, remove_coins true ks cn = Ok r.
Proof. exact spending_cannot_underflow_counts. Qed.
Print Assumptions C09_counts_cannot_underflow.

(* a whole batch: whatever the transactions are, the outcome is a new state or a rejection *)
Theorem C09_batch_never_panics : forall SO s lh txs,
  HashOK SO s txs ->
  (tip_906 s = true -> CountsOk (s_coins s, s_counts s)) ->
  HistOK s -> s_height s <= 3000000 ->
  (forall t, In t txs -> mint_small t) ->
  (forall relevant t d, load_relevant_coins s txs = Ok relevant -> In t txs -> in_sum relevant d (t_inputs t) < U128) ->
  no_panic (apply_tx_batch SO s lh txs).
Proof. exact apply_tx_batch_never_panics. Qed.
Print Assumptions C09_batch_never_panics.

(* the hypotheses hold together on the concrete batch of STF/Proofs/Witness.v *)
Example C09_batch_witness :
  HashOK w_oracle w_state w_batch /\ HistOK w_state /\ s_height w_state <= 3000000 /\
  (forall t, In t w_batch -> mint_small t).
Proof.
  split; [exact w_hash_ok|]. split; [intros h hd E; cbn [s_history w_state] in E; rewrite lookup_empty in E; discriminate|]. split; [vm_compute; discriminate|].
  intros t Ht d pid E. cbn in Ht. destruct Ht as [<-|[<-|[<-|[]]]]; discriminate.
Qed.

(* ---- sealing.  [builtin k]: one of the three built-in pools; [named s k]: a pool the block can touch;
   [live p]: both reserves and the recorded liquidity are >= 1; [Good]: C20's invariant (Properties/C20.v). *)
Theorem C09_builtin_def : forall k, builtin k <-> k = poolkey_new Mel Sym \/ k = poolkey_new Mel Erg \/ k = poolkey_new Erg Sym.
Proof. exact builtin_def. Qed.
Print Assumptions C09_builtin_def.
Theorem C09_named_def : forall s k, named s k <-> builtin k \/ exists t, In t (sorted_txs s) /\ tx_pool t = Some k.
Proof. exact named_def. Qed.
Print Assumptions C09_named_def.
Theorem C09_live_def : forall p, live p <-> 1 <= p_lefts p /\ 1 <= p_rights p /\ 1 <= p_liqs p.
Proof. exact live_def. Qed.
Print Assumptions C09_live_def.

(* each settlement phase is total: every pool a request names is ready when its turn comes *)
Theorem C09_swaps_total : forall s,
  NoDup (map poolkey_code (pool_keys_sorted (List.filter (is_swap_request s) (sorted_txs s)))) ->
  exists s', process_swaps s = Ok s'.
Proof. exact process_swaps_total. Qed.
Print Assumptions C09_swaps_total.

Theorem C09_deposits_total : forall SO s,
  Good s -> NoDup (map poolkey_code (pool_keys_sorted (List.filter (is_deposit_request s) (sorted_txs s)))) ->
  exists s', process_deposits SO s = Ok s' /\ Good s'.
Proof. exact process_deposits_total. Qed.
Print Assumptions C09_deposits_total.

Theorem C09_withdrawals_total : forall SO s,
  NoDup (map poolkey_code (pool_keys_sorted (List.filter (is_withdraw_request SO s) (sorted_txs s)))) ->
  exists s', process_withdrawals SO s = Ok s'.
Proof. exact process_withdrawals_total. Qed.
Print Assumptions C09_withdrawals_total.

Theorem C09_peg_total : forall s,
  (exists sm, get_pool s (poolkey_new Mel Sym) = Some sm /\ 1 <= p_lefts sm /\ 1 <= p_rights sm) ->
  (tip_902 s = true -> exists es, get_pool s (poolkey_new Erg Sym) = Some es /\ 1 <= p_lefts es /\ 1 <= p_rights es) ->
  (tip_902 s = false -> exists me, get_pool s (poolkey_new Mel Erg) = Some me /\ 1 <= p_lefts me /\ 1 <= p_rights me) ->
  exists s', process_pegging s = Ok s'.
Proof. exact process_pegging_total. Qed.
Print Assumptions C09_peg_total.

(* the whole seal, for every proposer action *)
Theorem C09_seal_never_panics : forall SO s,
  (* PoolKey::to_bytes is injective on the pools the block can touch *)
  (forall k1 k2, named s k1 -> named s k2 -> poolkey_code k1 = poolkey_code k2 -> k1 = k2) ->
  (* C20's invariant *)
  Good s ->
  (* C16: the built-in pools that exist are live, and the block's withdrawals ask for less than they recorded *)
  (forall k p, builtin k -> get_pool s k = Some p -> live p) ->
  (forall k, builtin k -> is_Some (get_pool (create_builtins s) k) -> forall s2 s3 p3,
     process_swaps (create_builtins s) = Ok s2 -> process_deposits SO s2 = Ok s3 -> get_pool s3 k = Some p3 ->
     sat_sum (map (fun t => cd_value (out0 t)) (txs_for_pool (List.filter (is_withdraw_request SO s3) (sorted_txs s3)) k)) < p_liqs p3) ->
  (* bounds *)
  (s_height s - TIP_909_HEIGHT) / 1000000 < 128 ->
  (forall s1 sm, preseal_melmint SO s = Ok s1 -> get_pool s1 MS = Some sm -> s_fee_pool s + p_lefts sm + s_tips s < U128) ->
  forall a, exists s', seal SO s a = Ok s'.
Proof. exact seal_total. Qed.
Print Assumptions C09_seal_never_panics.

(* the withdrawal hypothesis is what C16's backing gives: with room to spare after the bootstrap (tokens in coins
   + tokens parked in reserves + 1 <= recorded liquidity), the block cannot ask a built-in pool for all of its
   liquidity; so sealing is total on every state that satisfies C20's and C16's invariants, under the side
   conditions of the conservation theorems (K: pool names with distinct codes and distinct liquidity tokens that
   cover the block's requests; request coins as declared; sums below 2^128) and the two bounds *)
Theorem C09_seal_total_from_invariants : forall K, NoDup (map poolkey_code K) -> forall SO, In MS K /\ In ME K /\ In ES K ->
  (forall k1 k2, In k1 K -> In k2 K -> LDk SO k1 = LDk SO k2 -> k1 = k2) ->
  forall s,
  legacy_net s && (s_height s <? 978392) = false ->
  (forall t k1, In t (sorted_txs s) -> tx_pool t = Some k1 -> In k1 K /\ LDk SO k1 <> fst k1 /\ LDk SO k1 <> snd k1) ->
  NoDup (key_pairs (sorted_txs s)) ->
  (forall t c, In t (sorted_txs s) -> s_coins s !! key0 t = Some c -> as_declared t c (out0 t)) ->
  (forall t c, In t (sorted_txs s) -> s_coins s !! key1 t = Some c -> as_declared t c (out1 t)) ->
  nsum (map (fun t => cd_value (out0 t)) (sorted_txs s)) < U128 ->
  nsum (map (fun t => cd_value (out1 t)) (sorted_txs s)) < U128 ->
  (forall s2, process_swaps (create_builtins s) = Ok s2 ->
     forall k1 p'' m, In k1 K ->
       pool_deposit (pool_at s2 k1)
         (nsum (map (fun t => cd_value (out0 t)) (txs_for_pool (List.filter (is_deposit_request s2) (sorted_txs s2)) k1)))
         (nsum (map (fun t => cd_value (out1 t)) (txs_for_pool (List.filter (is_deposit_request s2) (sorted_txs s2)) k1))) = Ok (p'', m) ->
       p_liqs (pool_at s2 k1) + m < U128) ->
  (forall k p1, builtin k -> get_pool (create_builtins s) k = Some p1 ->
     coin_supply (LDk SO k) (s_coins s) + psum K (LDk SO k) (create_builtins s) + 1 <= p_liqs p1) ->
  Good s ->
  (forall k p, builtin k -> get_pool s k = Some p -> live p) ->
  (s_height s - TIP_909_HEIGHT) / 1000000 < 128 ->
  (forall s1 sm, preseal_melmint SO s = Ok s1 -> get_pool s1 MS = Some sm -> s_fee_pool s + p_lefts sm + s_tips s < U128) ->
  forall a, exists s', seal SO s a = Ok s'.
Proof. exact seal_total_from_invariants. Qed.
Print Assumptions C09_seal_total_from_invariants.

(* and in every reachable state - every state of every history (Properties/C20.v) from a state of the invariant
   [Good2] (Properties/C01.v; the genesis state is one) - nothing needs to be assumed about the coins: *)
Theorem C09_seal_total_in_reachable_states : forall K, NoDup (map poolkey_code K) -> forall SO, In MS K /\ In ME K /\ In ES K ->
  (forall k1 k2, In k1 K -> In k2 K -> LDk SO k1 = LDk SO k2 -> k1 = k2) ->
  forall ops s0, Good2 s0 -> hist_ok SO s0 ops ->
  let s := fold_left (hstep SO) ops s0 in
  legacy_net s && (s_height s <? 978392) = false ->
  (forall t k1, In t (sorted_txs s) -> tx_pool t = Some k1 -> In k1 K /\ LDk SO k1 <> fst k1 /\ LDk SO k1 <> snd k1) ->
  nsum (map (fun t => cd_value (out0 t)) (sorted_txs s)) < U128 ->
  nsum (map (fun t => cd_value (out1 t)) (sorted_txs s)) < U128 ->
  (forall s2, process_swaps (create_builtins s) = Ok s2 ->
     forall k1 p'' m, In k1 K ->
       pool_deposit (pool_at s2 k1)
         (nsum (map (fun t => cd_value (out0 t)) (txs_for_pool (List.filter (is_deposit_request s2) (sorted_txs s2)) k1)))
         (nsum (map (fun t => cd_value (out1 t)) (txs_for_pool (List.filter (is_deposit_request s2) (sorted_txs s2)) k1))) = Ok (p'', m) ->
       p_liqs (pool_at s2 k1) + m < U128) ->
  (forall k p1, builtin k -> get_pool (create_builtins s) k = Some p1 ->
     coin_supply (LDk SO k) (s_coins s) + psum K (LDk SO k) (create_builtins s) + 1 <= p_liqs p1) ->
  (forall k p, builtin k -> get_pool s k = Some p -> live p) ->
  (s_height s - TIP_909_HEIGHT) / 1000000 < 128 ->
  (forall s1 sm, preseal_melmint SO s = Ok s1 -> get_pool s1 MS = Some sm -> s_fee_pool s + p_lefts sm + s_tips s < U128) ->
  forall a, exists s', seal SO s a = Ok s'.
Proof. exact seal_total_reachable. Qed.
Print Assumptions C09_seal_total_in_reachable_states.

(* the hypotheses hold together on a concrete state (after the batch of STF/Proofs/Witness.v) *)
Example C09_seal_witness :
  (forall k1 k2, named w_s1 k1 -> named w_s1 k2 -> poolkey_code k1 = poolkey_code k2 -> k1 = k2) /\
  Good w_s1 /\
  (forall k p, builtin k -> get_pool w_s1 k = Some p -> live p) /\
  (forall k, builtin k -> is_Some (get_pool (create_builtins w_s1) k) -> forall s2 s3 p3,
     process_swaps (create_builtins w_s1) = Ok s2 -> process_deposits w_oracle s2 = Ok s3 -> get_pool s3 k = Some p3 ->
     sat_sum (map (fun t => cd_value (out0 t)) (txs_for_pool (List.filter (is_withdraw_request w_oracle s3) (sorted_txs s3)) k)) < p_liqs p3) /\
  (s_height w_s1 - TIP_909_HEIGHT) / 1000000 < 128 /\
  (forall s1 sm, preseal_melmint w_oracle w_s1 = Ok s1 -> get_pool s1 MS = Some sm -> s_fee_pool w_s1 + p_lefts sm + s_tips w_s1 < U128).
Proof. exact w_seal_total_hypotheses. Qed.

(* ---- apply_block as a whole.  Besides applying the transactions and sealing, apply_block asserts that the
   state it builds on has at least two pools, looks up the previous header for the covenants and forms the new
   header; the two lookups cannot fail on the state it builds (the header is stored one line earlier), so
   apply_block panics only where one of its parts does - and the parts are covered by [C09_batch_never_panics]
   and [C09_seal_total_in_reachable_states] / [C09_seal_never_panics]. *)
Theorem C09_apply_block_never_panics : forall SO (rf : wstate -> roots) s hdr blk_header txs a,
  pool_count_ok (next_unsealed s hdr) = true ->
  no_panic (apply_tx_batch SO (next_unsealed s hdr) hdr txs) ->
  (forall b1, apply_tx_batch SO (next_unsealed s hdr) hdr txs = Ok b1 -> no_panic (seal SO b1 a)) ->
  no_panic (apply_block SO rf s hdr blk_header txs a).
Proof. exact apply_block_never_panics. Qed.
Print Assumptions C09_apply_block_never_panics.
(* the assertion is real: on a state with fewer than two pools (a sealed state that never went through
   seal's bootstrap cannot be built by the library, so this is unreachable through the public API) every block panics *)
Theorem C09_apply_block_asserts_two_pools : forall SO (rf : wstate -> roots) s hdr blk_header txs a,
  pool_count_ok (next_unsealed s hdr) = false -> apply_block SO rf s hdr blk_header txs a = Panic P_ASSERT.
Proof. exact apply_block_panics_without_pools. Qed.
Print Assumptions C09_apply_block_asserts_two_pools.
Theorem C09_pool_count_unchanged_by_next : forall s hdr, pool_count_ok (next_unsealed s hdr) = pool_count_ok s.
Proof. exact pool_count_next. Qed.
Print Assumptions C09_pool_count_unchanged_by_next.

(* ---- sealing is total from the beginning of a chain.  [BornBacked K SO k s] (Properties/C16.v): pool k is unborn
   (absent, fewer than 10^9 of its tokens exist - a genesis state) or live and backed; it holds for the three
   built-in pools in every state of every history from such a state.  So the C16 premises of the theorems above
   are discharged, and what remains are the hash-oracle facts of the steps and the no-overflow bounds. *)
Theorem C09_builtins_step_def : forall K SO s o,
  builtins_step_ok K SO s o <-> forall k, builtin k -> pool_bounds_step_ok K SO k s o.
Proof. exact builtins_step_ok_def. Qed.
Print Assumptions C09_builtins_step_def.
Theorem C09_seal_total_from_genesis : forall K, NoDup (map poolkey_code K) -> forall SO, In MS K /\ In ME K /\ In ES K ->
  (forall k1 k2, In k1 K -> In k2 K -> LDk SO k1 = LDk SO k2 -> k1 = k2) ->
  forall ops s0,
  Good2 s0 -> (forall k, builtin k -> BornBacked K SO k s0) -> hist_all SO (builtins_step_ok K SO) s0 ops ->
  let s := fold_left (hstep SO) ops s0 in
  legacy_net s && (s_height s <? 978392) = false ->
  (forall t k1, In t (sorted_txs s) -> tx_pool t = Some k1 -> In k1 K /\ LDk SO k1 <> fst k1 /\ LDk SO k1 <> snd k1) ->
  nsum (map (fun t => cd_value (out0 t)) (sorted_txs s)) < U128 ->
  nsum (map (fun t => cd_value (out1 t)) (sorted_txs s)) < U128 ->
  (forall s2, process_swaps (create_builtins s) = Ok s2 ->
     forall k1 p'' m, In k1 K ->
       pool_deposit (pool_at s2 k1)
         (nsum (map (fun t => cd_value (out0 t)) (txs_for_pool (List.filter (is_deposit_request s2) (sorted_txs s2)) k1)))
         (nsum (map (fun t => cd_value (out1 t)) (txs_for_pool (List.filter (is_deposit_request s2) (sorted_txs s2)) k1))) = Ok (p'', m) ->
       p_liqs (pool_at s2 k1) + m < U128) ->
  (s_height s - TIP_909_HEIGHT) / 1000000 < 128 ->
  (forall s1 sm, preseal_melmint SO s = Ok s1 -> get_pool s1 MS = Some sm -> s_fee_pool s + p_lefts sm + s_tips s < U128) ->
  forall a, exists s', seal SO s a = Ok s'.
Proof. exact seal_total_from_born. Qed.
Print Assumptions C09_seal_total_from_genesis.
(* non-vacuity: the starting state and the batch of STF/Proofs/Witness5.v *)
Theorem C09_from_genesis_witness :
  Good2 w_state /\ (forall k, builtin k -> BornBacked w_K3 w_oracle k w_state) /\
  hist_all w_oracle (builtins_step_ok w_K3 w_oracle) w_state [HBatch w_header w_batch].
Proof. exact w_total_from_born. Qed.
Print Assumptions C09_from_genesis_witness.

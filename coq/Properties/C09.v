(* C09 - Validation is total: hostile input is rejected, never a crash or hang.
   Pinned statements only; proofs in STF/Proofs/Total.v.
   In the model every Rust panic site is an explicit [Panic tag] outcome.  The full statement (no reachable
   state and no input makes apply_tx_batch / seal / apply_block / confirm return Panic) is checked on the real
   code by the harness (every call runs under catch_unwind, in debug builds - overflow checks on - and the
   model's Panic outcomes are compared with the real ones); what is PROVED for all inputs is that each panic
   site is unreachable under its guard.  Not covered by any theorem: allocation failure, stack depth, and the
   internals of the dependency crates (their panic behaviour is part of the oracles). *)
From MelVerif Require Import STF.Model VM.Exec STF.Proofs.Pool STF.Proofs.Counts STF.Proofs.Total.
Open Scope N_scope.

Theorem C09_covenants_terminate : forall O prog hp, run O prog hp <> OutOfFuel.
Proof. exact covenant_execution_terminates. Qed.
Print Assumptions C09_covenants_terminate.

Theorem C09_checked_totals_cannot_overflow : forall t,
  totals_fit t = true -> (exists outs, total_outputs t = Ok outs) /\ (exists w, tx_weight t = Ok w) /\
  forall mult, exists f, min_fee mult t = Ok f.
Proof. exact totals_fit_no_overflow. Qed.
Print Assumptions C09_checked_totals_cannot_overflow.

Theorem C09_mint_speed_cannot_overflow : forall difficulty, 1 <= difficulty <= 64 -> 100 * 2 ^ difficulty < U128.
Proof. exact mint_speed_no_overflow. Qed.
Print Assumptions C09_mint_speed_cannot_overflow.

Theorem C09_swap_needs_live_pool : forall s t,
  is_swap_request s t = true ->
  exists k p, tx_pool t = Some k /\ get_pool s k = Some p /\ 1 <= p_lefts p /\ 1 <= p_rights p.
Proof. exact swap_request_needs_live_pool. Qed.
Print Assumptions C09_swap_needs_live_pool.

Theorem C09_settled_swap_cannot_panic : forall p l r,
  1 <= p_lefts p -> 1 <= p_rights p -> p_lefts p + l < U128 -> p_rights p + r < U128 ->
  exists res, swap_many p l r = Ok res.
Proof. exact settled_swap_cannot_panic. Qed.
Print Assumptions C09_settled_swap_cannot_panic.

Theorem C09_withdrawals_cannot_panic : forall k s ws p,
  get_pool s k = Some p -> exists s', withdrawals_single_pool k s ws = Ok s'.
Proof. exact guarded_withdraw_cannot_panic. Qed.
Print Assumptions C09_withdrawals_cannot_panic.

Theorem C09_zero_total_share_is_zero : forall x a, multiply_ratio x a 0 = 0.
Proof. exact share_of_empty_total_is_zero. Qed.
Print Assumptions C09_zero_total_share_is_zero.

Theorem C09_counts_cannot_underflow : forall ks cn, CountsOk cn -> exists r, remove_coins true ks cn = Ok r.
Proof. exact spending_cannot_underflow_counts. Qed.
Print Assumptions C09_counts_cannot_underflow.

(* C17 - The fee multiplier moves only by the bounded, specified step per block.
   Pinned statements only; proofs in STF/Proofs/FeeMult.v and STF/Proofs/Frame.v. *)
From MelVerif Require Import STF.Model STF.Proofs.FeeMult STF.Proofs.Frame STF.Proofs.SealCounts STF.Proofs.History STF.Proofs.MiscHistory.
Open Scope N_scope.

(* sealing: without a proposer action the multiplier is unchanged; with one it is the step function below
   (the pool settlement, subsidy and reward phases of seal do not touch it) *)
Theorem C17_seal : forall SO s a s',
  seal SO s a = Ok s' ->
  s_fee_mult s' = match a with
                  | None => s_fee_mult s
                  | Some act => move_fee_multiplier (tip_901 s) (s_fee_mult s) (a_delta act)
                  end.
Proof. exact seal_fee_mult. Qed.
Print Assumptions C17_seal.

(* the step is exactly trunc(max(m/128, floor) * d / 128), floor = 2 once TIP-901 is active, applied with
   saturation at the ends of the u128 range *)
Theorem C17_step_exact : forall after901 m d,
  (-128 <= d <= 127)%Z -> m < U128 ->
  Z.of_N (move_fee_multiplier after901 m d)
  = Z.min (Z.of_N MAX128) (Z.max 0 (Z.of_N m + spec_step after901 m d)).
Proof. exact move_fee_multiplier_spec. Qed.
Print Assumptions C17_step_exact.

(* at most 1/128 of the value, or 2 units *)
Theorem C17_step_bounded : forall after901 m d,
  (-128 <= d <= 127)%Z -> m < U128 ->
  (Z.abs (Z.of_N (move_fee_multiplier after901 m d) - Z.of_N m) <= Z.max (Z.of_N m / 128) 2)%Z.
Proof. exact move_fee_multiplier_bounded. Qed.
Print Assumptions C17_step_bounded.

(* it never wraps around *)
Theorem C17_no_wrap : forall after901 m d,
  (-128 <= d <= 127)%Z -> m < U128 ->
  move_fee_multiplier after901 m d < U128 /\
  ((0 <= d)%Z -> m <= move_fee_multiplier after901 m d) /\
  ((d < 0)%Z -> move_fee_multiplier after901 m d <= m).
Proof. exact move_fee_multiplier_no_wrap. Qed.
Print Assumptions C17_no_wrap.

Example C17_example :
  move_fee_multiplier true 1000000 127 = 1007750 /\ move_fee_multiplier true 1 (-128) = 0
  /\ move_fee_multiplier true (2 ^ 70) 127 = 2 ^ 70 + 2 ^ 63 * 127 / 128.
Proof. vm_compute. auto. Qed.

(* over whole histories ([hstep]: Properties/C20.v): every step of every history leaves the multiplier alone - a batch,
   accepted or refused, a block sealed without an action, a seal that fails - except a block sealed with a proposer
   action, which moves it by exactly the step function *)
Theorem C17_only_the_proposer_step_moves_it : forall SO s o,
  s_fee_mult (hstep SO s o) =
  match o with
  | HBlock (Some act) hdr =>
      match seal SO s (Some act) with Ok _ => move_fee_multiplier (tip_901 s) (s_fee_mult s) (a_delta act) | _ => s_fee_mult s end
  | _ => s_fee_mult s
  end.
Proof. exact hstep_fee_mult. Qed.
Print Assumptions C17_only_the_proposer_step_moves_it.

(* C13 - Staked SYM is locked for the life of the stake; voting power follows the stakes.
   Pinned statements only; proofs in STF/Proofs/Stakes.v. *)
From MelVerif Require Import STF.Model STF.Proofs.Stakes STF.Proofs.Frame STF.Proofs.SealCoins STF.Proofs.HashFacts
  STF.Proofs.BatchSupply STF.Proofs.SealCounts STF.Proofs.History STF.Proofs.StakeHistory STF.Proofs.Confirm STF.Proofs.Votes.
Open Scope N_scope.

(* registration: exactly when the transaction is a stake transaction whose data decodes to a document d,
   whose first output is SYM equal to the declared amount, starting in a future epoch and ending after it
   starts (outside the legacy heights below 500000 on mainnet/testnet, finding F20) *)
Theorem C13_registers_iff : forall s t d,
  registers s t = Some d <->
  t_kind t = KStake /\ legacy500 s = false /\ t_stakedoc t = Some d /\
  exists first rest, t_outputs t = first :: rest /\ cd_denom first = Sym /\
    s_height s / STAKE_EPOCH < sd_start d /\ sd_start d < sd_postend d /\ sd_staked d = cd_value first.
Proof. exact registers_iff. Qed.
Print Assumptions C13_registers_iff.

(* the stake set after an accepted batch is the old one plus exactly the stakes the batch registers *)
Theorem C13_batch_stakes : forall SO s lh txs s',
  apply_tx_batch SO s lh txs = Ok s' -> s_stakes s' = stake_fold s txs ∅ ∪ s_stakes s.
Proof. exact accepted_batch_stakes. Qed.
Print Assumptions C13_batch_stakes.

(* an undecodable document, a missing first output or a non-SYM first output rejects the whole batch *)
Theorem C13_malformed_stake_rejects : forall s txs acc,
  load_stake_info s txs acc =
  if forallb (stake_tx_ok s) txs then Ok (stake_fold s txs acc) else Reject EMalformed.
Proof. exact load_stake_info_spec. Qed.
Print Assumptions C13_malformed_stake_rejects.

(* lock: an accepted batch spends no output of a transaction that has a registered stake, including stakes
   registered by the very same batch (outside the legacy heights below 900000, finding F20) *)
Theorem C13_locked : forall SO s lh txs s',
  apply_tx_batch SO s lh txs = Ok s' ->
  forall t i, In t txs -> In i (t_inputs t) ->
  legacy900 s = true \/ (s_stakes s !! fst i = None /\ stake_fold s txs ∅ !! fst i = None).
Proof. exact accepted_batch_spends_no_locked_coin. Qed.
Print Assumptions C13_locked.

(* lifetime: at each block boundary exactly the stakes whose end field is >= the new epoch survive, so the
   coin is locked through the end of the epoch numbered by the end field and free from the next epoch on *)
Theorem C13_lifetime : forall s hdr k d,
  s_stakes (next_unsealed s hdr) !! k = Some d <->
  s_stakes s !! k = Some d /\ (s_height s + 1) / STAKE_EPOCH <= sd_postend d.
Proof. exact next_unsealed_stakes. Qed.
Print Assumptions C13_lifetime.

(* sealing does not touch the stakes *)
Theorem C13_seal_keeps_stakes : forall SO s a s', seal SO s a = Ok s' -> s_stakes s' = s_stakes s.
Proof. exact seal_stakes. Qed.
Print Assumptions C13_seal_keeps_stakes.

(* voting power: by definition the sum of the registered stakes with start <= epoch < end (per key / in total) *)
Theorem C13_votes_def : forall st epoch key,
  votes st epoch key =
  map_fold (fun _ d acc => if (sd_start d <=? epoch) && (epoch <? sd_postend d) && (sd_pubkey d =? key)
                           then acc + sd_staked d else acc) 0 st.
Proof. exact votes_def. Qed.
Print Assumptions C13_votes_def.

(* ---- whole histories ([hstep], [hist_all]: see Properties/C20.v).
   [Locked h i d c s]: the stake d is registered under the transaction hash h and the coin (h, i) is the coin c. *)
Theorem C13_locked_def : forall h i d c s,
  Locked h i d c s <-> s_stakes s !! h = Some d /\ s_coins s !! coin_key h i = Some c.
Proof. exact locked_def. Qed.
Print Assumptions C13_locked_def.

(* per step: batches satisfy the hash-oracle assumptions, are outside the legacy heights, carry byte-sized input
   indices and no faucet whose marker id is h; at a block boundary no pool request of the block and no reward id
   has the hash h, and the new epoch is within the life of the stake *)
Theorem C13_step_assumptions_def : forall SO h d s o,
  stake_step_ok SO h d s o <->
  match o with
  | HBatch lh txs => HashOK SO s txs /\ legacy900 s = false /\
      (forall t, In t txs -> so_faucet_marker SO (t_hash t) <> h) /\
      (forall t inp, In t txs -> In inp (t_inputs t) -> snd inp < 256)
  | HBlock a hdr =>
      (forall t, In t (sorted_txs s) -> is_pool_request t = true -> t_hash t <> h) /\
      so_reward_id SO (s_height s) <> h /\
      (s_height s + 1) / STAKE_EPOCH <= sd_postend d
  end.
Proof. exact stake_step_ok_def. Qed.
Print Assumptions C13_step_assumptions_def.

(* registration starts the lock: the stake is in the set and the staked output in the coin tree *)
Theorem C13_registration_locks : forall SO s lh txs s' t d first rest,
  apply_tx_batch SO s lh txs = Ok s' -> HashOK SO s txs -> legacy900 s = false ->
  (forall t inp, In t txs -> In inp (t_inputs t) -> snd inp < 256) ->
  In t txs -> registers s t = Some d -> t_outputs t = first :: rest -> cd_covhash first <> 0 ->
  Locked (t_hash t) 0 d (coin_of s t first) s'.
Proof. exact registered_stake_locked. Qed.
Print Assumptions C13_registration_locks.

(* C13: the staked coin is in the coin tree, unchanged, and the stake in the stake set, in every state of every
   history whose block boundaries stay within the life of the stake *)
Theorem C13_locked_for_life : forall SO h i, i < 256 -> forall d c ops s,
  Locked h i d c s -> hist_all SO (stake_step_ok SO h d) s ops -> Locked h i d c (fold_left (hstep SO) ops s).
Proof. exact staked_coin_locked_for_life. Qed.
Print Assumptions C13_locked_for_life.

(* voting power follows the stakes: the votes of pairwise different keys are disjoint parts of the active stake *)
Theorem C13_votes_partition_the_active_stake : forall st epoch keys, NoDup keys ->
  fold_right (fun k acc => votes st epoch k + acc) 0 keys <= total_votes st epoch.
Proof. exact distinct_keys_votes_le_total_nodup. Qed.
Print Assumptions C13_votes_partition_the_active_stake.

(* C16 - Built-in pools always exist with reserves; liquidity tokens stay fully backed.
   Pinned statements only; proofs in STF/Proofs/Pool.v.
   The state-level invariants (for every reachable state: the three built-in pools have both reserves >= 1,
   and the liquidity tokens held in coins never exceed a pool's recorded liquidity) are evaluated on every
   sealed state of the stf stream.  PROVED for all inputs: the per-operation arithmetic, and - at the level of
   the state - that the two phases which move liquidity tokens keep "tokens in coins - recorded liquidity"
   from growing ([C16_withdrawals_keep_backing], [C16_deposits_keep_backing]); a batch cannot create them
   either (C01_batch_supply: no issuance of an existing custom denomination outside faucets).
   and, over the three settlement phases of a whole block and all pools, a liquidity token - counting the
   tokens parked in other pools' reserves - that is backed before is backed after ([C16_settlement_keeps_backing]).
   Both clauses together are an invariant of sealing and of accepted batches ([C16_seal_invariant],
   [C16_batch_invariant]): a pool that is live (both reserves and the recorded liquidity >= 1) and whose token
   is backed with room to spare - as the built-in pools are from their creation, with 10^9 that nobody owns - is
   live and backed with the same room afterwards; the built-in pools exist after every seal.
   NOT proved: that no faucet of a test network ever mints a liquidity token (it is a hypothesis of the batch
   invariant: faucets of test networks can mint any denomination). *)
From MelVerif Require Import STF.Model STF.Proofs.Supply STF.Proofs.Pool STF.Proofs.SealCoins STF.Proofs.BatchSupply STF.Proofs.SealSupply STF.Proofs.SealLift STF.Proofs.SealInv STF.Proofs.HashFacts STF.Proofs.Witness STF.Proofs.Witness2 STF.Proofs.Witness3 STF.Proofs.Witness4
  STF.Proofs.SealCounts STF.Proofs.History STF.Proofs.PoolHistory STF.Proofs.Declared STF.Proofs.BoundsHistory STF.Proofs.Born STF.Proofs.Witness5 STF.Proofs.Witness8.
Open Scope N_scope.

(* swapping leaves both reserves of a live pool positive and the issued liquidity unchanged *)
Theorem C16_swap_keeps_reserves : forall p l r,
  1 <= p_lefts p -> 1 <= p_rights p -> p_lefts p + l < U128 -> p_rights p + r < U128 ->
  let L' := p_lefts p + l in let R' := p_rights p + r in
  let rw := l * R' * 995 / (L' * 1000) in let lw := r * L' * 995 / (R' * 1000) in
  exists acc,
    swap_many p l r = Ok ({| p_lefts := L' - lw; p_rights := R' - rw; p_accum := acc; p_liqs := p_liqs p |}, lw, rw) /\
    1 <= L' - lw /\ 1 <= R' - rw /\
    p_lefts p * p_rights p <= (L' - lw) * (R' - rw) /\
    rw * (L' * 1000) <= l * R' * 995 /\ lw * (R' * 1000) <= r * L' * 995.
Proof. exact swap_many_spec. Qed.
Print Assumptions C16_swap_keeps_reserves.

(* withdrawing less than all the issued liquidity (the built-in 10^9 is held by no coin) leaves both reserves
   positive; liquidity burned and reserves paid move together *)
Theorem C16_withdraw_keeps_reserves : forall p l,
  l <= p_liqs p -> 0 < p_liqs p ->
  exists p' a b, pool_withdraw p l = Ok (p', a, b) /\
    p_liqs p' = p_liqs p - l /\ p_lefts p' = p_lefts p - a /\ p_rights p' = p_rights p - b /\
    a <= p_lefts p /\ b <= p_rights p /\
    (l < p_liqs p -> a = p_lefts p * l / p_liqs p /\ b = p_rights p * l / p_liqs p) /\
    (l = p_liqs p -> a = p_lefts p /\ b = p_rights p) /\
    (l < p_liqs p -> 1 <= p_lefts p -> 1 <= p_lefts p') /\
    (l < p_liqs p -> 1 <= p_rights p -> 1 <= p_rights p').
Proof. exact pool_withdraw_spec. Qed.
Print Assumptions C16_withdraw_keeps_reserves.

(* the liquidity tokens handed to the depositors of one block never exceed what the pool issued for them,
   whatever the rounding of the individual shares (the clamp introduced by the F7 repair) *)
Theorem C16_shares_backed : forall total total_mt mts avail,
  nsum (clamped_shares total total_mt mts avail) <= avail.
Proof. exact clamped_shares_le. Qed.
Print Assumptions C16_shares_backed.

(* withdrawals burn exactly what they take out of coins: coins' tokens + old liquidity <= old tokens + new liquidity *)
Theorem C16_withdrawals_keep_backing : forall SO k,
  Custom (so_liq_denom SO (poolkey_code k)) <> fst k -> Custom (so_liq_denom SO (poolkey_code k)) <> snd k ->
  forall s ws s' p,
  withdrawals_single_pool k s ws = Ok s' ->
  get_pool s k = Some p -> p_lefts p < U128 -> p_rights p < U128 ->
  NoDup (flat_map (fun t => [key0 t; key1 t]) ws) ->
  (forall t, In t ws -> declared0 s t /\ cd_denom (out0 t) = Custom (so_liq_denom SO (poolkey_code k))) ->
  nsum (map (fun t => cd_value (out0 t)) ws) < U128 ->
  exists p', ((s' = s /\ p' = p) \/ s_pools s' = <[poolkey_code k := p']> (s_pools s)) /\
    (forall d, d <> Custom (so_liq_denom SO (poolkey_code k)) ->
       coin_supply d (s_coins s') + side d k p' <= coin_supply d (s_coins s) + side d k p) /\
    coin_supply (Custom (so_liq_denom SO (poolkey_code k))) (s_coins s') + p_liqs p
    <= coin_supply (Custom (so_liq_denom SO (poolkey_code k))) (s_coins s) + p_liqs p'.
Proof. exact withdrawals_single_pool_conserves. Qed.
Print Assumptions C16_withdrawals_keep_backing.

(* deposits hand out at most what the pool issued *)
Theorem C16_deposits_keep_backing : forall SO k,
  Custom (so_liq_denom SO (poolkey_code k)) <> fst k -> Custom (so_liq_denom SO (poolkey_code k)) <> snd k ->
  forall s deps s',
  deposits_single_pool SO k s deps = Ok s' ->
  legacy_net s && (s_height s <? 978392) = false ->
  NoDup (key_pairs deps) ->
  (forall t, In t deps -> declared0 s t /\ declared1 s t /\ cd_denom (out0 t) = fst k /\ cd_denom (out1 t) = snd k) ->
  nsum (map (fun t => cd_value (out0 t)) deps) < U128 -> nsum (map (fun t => cd_value (out1 t)) deps) < U128 ->
  let p := match get_pool s k with Some p => p | None => new_empty_pool end in
  (forall p'' m, pool_deposit p (nsum (map (fun t => cd_value (out0 t)) deps)) (nsum (map (fun t => cd_value (out1 t)) deps)) = Ok (p'', m) ->
                 p_liqs p + m < U128) ->
  exists p', s_pools s' = <[poolkey_code k := p']> (s_pools s) /\
    (forall d, d <> Custom (so_liq_denom SO (poolkey_code k)) ->
       coin_supply d (s_coins s') + side d k p' <= coin_supply d (s_coins s) + side d k p) /\
    coin_supply (Custom (so_liq_denom SO (poolkey_code k))) (s_coins s') + p_liqs p
    <= coin_supply (Custom (so_liq_denom SO (poolkey_code k))) (s_coins s) + p_liqs p'.
Proof. exact deposits_single_pool_conserves. Qed.
Print Assumptions C16_deposits_keep_backing.

(* the built-in pool created at the first seal *)
Example C16_builtin_pool : p_lefts builtin_pool = 1000000000 /\ p_rights builtin_pool = 1000000000 /\ p_liqs builtin_pool = 1000000000.
Proof. vm_compute. auto. Qed.

(* the hypotheses of the settlement theorems hold together on a concrete pool (STF/Proofs/Witness2.v) *)
Example C16_withdraw_witness :
  (exists s', withdrawals_single_pool w_key w_seal_state [w_wd] = Ok s') /\
  get_pool w_seal_state w_key = Some w_pool /\ p_lefts w_pool < U128 /\ p_rights w_pool < U128 /\
  NoDup (flat_map (fun t => [key0 t; key1 t]) [w_wd]) /\
  (forall t, In t [w_wd] -> declared0 w_seal_state t /\ cd_denom (out0 t) = w_liq) /\
  nsum (map (fun t => cd_value (out0 t)) [w_wd]) < U128.
Proof. exact w_withdraw_ok. Qed.
Example C16_deposit_witness :
  (exists s', deposits_single_pool w_oracle w_key w_seal_state [w_dep] = Ok s') /\
  legacy_net w_seal_state && (s_height w_seal_state <? 978392) = false /\
  NoDup (key_pairs [w_dep]) /\
  (forall t, In t [w_dep] -> declared0 w_seal_state t /\ declared1 w_seal_state t /\ cd_denom (out0 t) = fst w_key /\ cd_denom (out1 t) = snd w_key) /\
  nsum (map (fun t => cd_value (out0 t)) [w_dep]) < U128 /\ nsum (map (fun t => cd_value (out1 t)) [w_dep]) < U128 /\
  (forall p'' m, pool_deposit w_pool (nsum (map (fun t => cd_value (out0 t)) [w_dep])) (nsum (map (fun t => cd_value (out1 t)) [w_dep])) = Ok (p'', m) ->
                 p_liqs w_pool + m < U128).
Proof. exact w_deposit_ok. Qed.

(* over a whole block: if the tokens of a pool in coins and in other pools' reserves do not exceed the liquidity
   the pools record for that token before the settlement, they do not exceed it afterwards *)
Theorem C16_settlement_keeps_backing : forall K SO d s s',
  settles K SO d s s' -> coin_supply d (s_coins s) + psum K d s <= liq_of K SO d s ->
  coin_supply d (s_coins s') + psum K d s' <= liq_of K SO d s'.
Proof. exact settles_backed. Qed.
Print Assumptions C16_settlement_keeps_backing.
Theorem C16_settlement : forall K, NoDup (map poolkey_code K) -> forall SO s1 s2 s3 s4,
  process_swaps s1 = Ok s2 -> process_deposits SO s2 = Ok s3 -> process_withdrawals SO s3 = Ok s4 ->
  legacy_net s1 && (s_height s1 <? 978392) = false ->
  (forall t k, In t (sorted_txs s1) -> tx_pool t = Some k -> In k K /\ LDk SO k <> fst k /\ LDk SO k <> snd k) ->
  NoDup (key_pairs (sorted_txs s1)) ->
  (forall t c, In t (sorted_txs s1) -> s_coins s1 !! key0 t = Some c -> as_declared t c (out0 t)) ->
  (forall t c, In t (sorted_txs s1) -> s_coins s1 !! key1 t = Some c -> as_declared t c (out1 t)) ->
  nsum (map (fun t => cd_value (out0 t)) (sorted_txs s1)) < U128 ->
  nsum (map (fun t => cd_value (out1 t)) (sorted_txs s1)) < U128 ->
  (forall k p'' m, In k K ->
     pool_deposit (pool_at s2 k)
       (nsum (map (fun t => cd_value (out0 t)) (txs_for_pool (List.filter (is_deposit_request s2) (sorted_txs s2)) k)))
       (nsum (map (fun t => cd_value (out1 t)) (txs_for_pool (List.filter (is_deposit_request s2) (sorted_txs s2)) k))) = Ok (p'', m) ->
     p_liqs (pool_at s2 k) + m < U128) ->
  (forall k p, In k K -> get_pool s3 k = Some p -> p_lefts p < U128 /\ p_rights p < U128) ->
  forall d, settles K SO d s1 s4.
Proof. exact settlement_settles. Qed.
Print Assumptions C16_settlement.

(* the same over a whole seal, for every custom denomination - in particular every liquidity token: with
   [C16_settlement_keeps_backing], tokens that are backed before a block is sealed are backed afterwards *)
Theorem C16_seal_keeps_custom_backing : forall K, NoDup (map poolkey_code K) -> forall SO, In MS K /\ In ME K /\ In ES K ->
  forall s a s' h,
  seal SO s a = Ok s' ->
  legacy_net s && (s_height s <? 978392) = false ->
  (forall t k, In t (sorted_txs s) -> tx_pool t = Some k -> In k K /\ LDk SO k <> fst k /\ LDk SO k <> snd k) ->
  NoDup (key_pairs (sorted_txs s)) ->
  (forall t c, In t (sorted_txs s) -> s_coins s !! key0 t = Some c -> as_declared t c (out0 t)) ->
  (forall t c, In t (sorted_txs s) -> s_coins s !! key1 t = Some c -> as_declared t c (out1 t)) ->
  nsum (map (fun t => cd_value (out0 t)) (sorted_txs s)) < U128 ->
  nsum (map (fun t => cd_value (out1 t)) (sorted_txs s)) < U128 ->
  (forall s2 s3, process_swaps (create_builtins s) = Ok s2 -> process_deposits SO s2 = Ok s3 ->
     (forall k p'' m, In k K ->
        pool_deposit (pool_at s2 k)
          (nsum (map (fun t => cd_value (out0 t)) (txs_for_pool (List.filter (is_deposit_request s2) (sorted_txs s2)) k)))
          (nsum (map (fun t => cd_value (out1 t)) (txs_for_pool (List.filter (is_deposit_request s2) (sorted_txs s2)) k))) = Ok (p'', m) ->
        p_liqs (pool_at s2 k) + m < U128) /\
     (forall k p, In k K -> get_pool s3 k = Some p -> p_lefts p < U128 /\ p_rights p < U128)) ->
  settles K SO (Custom h) s s'.
Proof. exact seal_settles_custom. Qed.
Print Assumptions C16_seal_keeps_custom_backing.

(* ---- the first clause.  [live p]: both reserves and the recorded liquidity are at least 1. *)
(* whatever is swapped, a live pool stays live and swap_many does not panic (saturating arithmetic followed,
   no overflow hypothesis) *)
Theorem C16_swap_keeps_live : forall p l r, live p -> l <= MAX128 -> r <= MAX128 ->
  exists p' lw rw, swap_many p l r = Ok (p', lw, rw) /\ live p'.
Proof. exact swap_many_live. Qed.
Print Assumptions C16_swap_keeps_live.

(* the bootstrap makes the built-in pools exist *)
Theorem C16_builtins_exist : forall s,
  (exists p, get_pool (create_builtins s) (poolkey_new Mel Sym) = Some p) /\
  (exists p, get_pool (create_builtins s) (poolkey_new Mel Erg) = Some p).
Proof. exact create_builtins_exist. Qed.
Print Assumptions C16_builtins_exist.

(* both clauses as an invariant of sealing *)
Theorem C16_seal_invariant : forall K, NoDup (map poolkey_code K) -> forall SO, In MS K /\ In ME K /\ In ES K ->
  (forall k1 k2, In k1 K -> In k2 K -> LDk SO k1 = LDk SO k2 -> k1 = k2) ->
  forall s a s' k p,
  seal SO s a = Ok s' -> In k K -> get_pool s k = Some p -> live p ->
  coin_supply (LDk SO k) (s_coins s) + psum K (LDk SO k) s + 1 <= p_liqs p ->
  legacy_net s && (s_height s <? 978392) = false ->
  (forall t k1, In t (sorted_txs s) -> tx_pool t = Some k1 -> In k1 K /\ LDk SO k1 <> fst k1 /\ LDk SO k1 <> snd k1) ->
  NoDup (key_pairs (sorted_txs s)) ->
  (forall t c, In t (sorted_txs s) -> s_coins s !! key0 t = Some c -> as_declared t c (out0 t)) ->
  (forall t c, In t (sorted_txs s) -> s_coins s !! key1 t = Some c -> as_declared t c (out1 t)) ->
  nsum (map (fun t => cd_value (out0 t)) (sorted_txs s)) < U128 ->
  nsum (map (fun t => cd_value (out1 t)) (sorted_txs s)) < U128 ->
  (forall s2 s3, process_swaps (create_builtins s) = Ok s2 -> process_deposits SO s2 = Ok s3 ->
     (forall k1 p'' m, In k1 K ->
        pool_deposit (pool_at s2 k1)
          (nsum (map (fun t => cd_value (out0 t)) (txs_for_pool (List.filter (is_deposit_request s2) (sorted_txs s2)) k1)))
          (nsum (map (fun t => cd_value (out1 t)) (txs_for_pool (List.filter (is_deposit_request s2) (sorted_txs s2)) k1))) = Ok (p'', m) ->
        p_liqs (pool_at s2 k1) + m < U128) /\
     (forall k1 p1, In k1 K -> get_pool s3 k1 = Some p1 -> p_lefts p1 < U128 /\ p_rights p1 < U128)) ->
  exists p', get_pool s' k = Some p' /\ live p' /\
    coin_supply (LDk SO k) (s_coins s') + psum K (LDk SO k) s' + 1 <= p_liqs p'.
Proof. exact seal_keeps_backed_pool_live. Qed.
Print Assumptions C16_seal_invariant.

(* and of every accepted batch that issues none of the token (no faucet / new-token output of that name) *)
Theorem C16_batch_invariant : forall K SO s lh txs s' k p,
  apply_tx_batch SO s lh txs = Ok s' -> HashOK SO s txs ->
  batch_issuance (LDk SO k) txs = 0 ->
  get_pool s k = Some p ->
  coin_supply (LDk SO k) (s_coins s) + psum K (LDk SO k) s + 1 <= p_liqs p ->
  get_pool s' k = Some p /\ coin_supply (LDk SO k) (s_coins s') + psum K (LDk SO k) s' + 1 <= p_liqs p.
Proof. exact batch_keeps_backed. Qed.
Print Assumptions C16_batch_invariant.

(* the premises hold on the concrete block of STF/Proofs/Witness3.v, which seals as a whole *)
Example C16_invariant_witness :
  NoDup (map poolkey_code w_K3) /\ (In MS w_K3 /\ In ME w_K3 /\ In ES w_K3) /\
  (forall k1 k2, In k1 w_K3 -> In k2 w_K3 -> LDk w_oracle k1 = LDk w_oracle k2 -> k1 = k2) /\
  (exists s', seal w_oracle w_block_state None = Ok s') /\
  In MS w_K3 /\ get_pool w_block_state MS = Some w_pool /\ live w_pool /\
  coin_supply (LDk w_oracle MS) (s_coins w_block_state) + psum w_K3 (LDk w_oracle MS) w_block_state + 1 <= p_liqs w_pool.
Proof.
  split; [exact w_K3_codes|]. split; [exact w_K3_builtins|]. split; [exact w_LD_inj|]. split; [exact w_seal_ok|]. exact w_backed.
Qed.


(* ---- whole histories ([hstep], [hist_all]: see Properties/C20.v).
   [Backed K SO k s]: the pool k exists, is live, and its liquidity token is backed with room to spare. *)
Theorem C16_backed_def : forall K SO k s,
  Backed K SO k s <->
  exists p, get_pool s k = Some p /\ live p /\ coin_supply (LDk SO k) (s_coins s) + psum K (LDk SO k) s + 1 <= p_liqs p.
Proof. exact backed_def. Qed.
Print Assumptions C16_backed_def.

(* per step: a batch satisfies the hash-oracle assumptions and issues none of the token; a block boundary
   satisfies the side conditions of [C16_seal_invariant] *)
Theorem C16_step_assumptions_def : forall K SO k s o,
  pool_step_ok K SO k s o <->
  match o with
  | HBatch lh txs => HashOK SO s txs /\ batch_issuance (LDk SO k) txs = 0
  | HBlock a hdr => seal_premises K SO s
  end.
Proof. exact pool_step_ok_def. Qed.
Print Assumptions C16_step_assumptions_def.
Theorem C16_seal_premises_def : forall K SO s,
  seal_premises K SO s <->
  legacy_net s && (s_height s <? 978392) = false /\
  (forall t k1, In t (sorted_txs s) -> tx_pool t = Some k1 -> In k1 K /\ LDk SO k1 <> fst k1 /\ LDk SO k1 <> snd k1) /\
  NoDup (key_pairs (sorted_txs s)) /\
  (forall t c, In t (sorted_txs s) -> s_coins s !! key0 t = Some c -> as_declared t c (out0 t)) /\
  (forall t c, In t (sorted_txs s) -> s_coins s !! key1 t = Some c -> as_declared t c (out1 t)) /\
  nsum (map (fun t => cd_value (out0 t)) (sorted_txs s)) < U128 /\
  nsum (map (fun t => cd_value (out1 t)) (sorted_txs s)) < U128 /\
  (forall s2 s3, process_swaps (create_builtins s) = Ok s2 -> process_deposits SO s2 = Ok s3 ->
     (forall k1 p'' m, In k1 K ->
        pool_deposit (pool_at s2 k1)
          (nsum (map (fun t => cd_value (out0 t)) (txs_for_pool (List.filter (is_deposit_request s2) (sorted_txs s2)) k1)))
          (nsum (map (fun t => cd_value (out1 t)) (txs_for_pool (List.filter (is_deposit_request s2) (sorted_txs s2)) k1))) = Ok (p'', m) ->
        p_liqs (pool_at s2 k1) + m < U128) /\
     (forall k1 p1, In k1 K -> get_pool s3 k1 = Some p1 -> p_lefts p1 < U128 /\ p_rights p1 < U128)).
Proof. exact seal_premises_def. Qed.
Print Assumptions C16_seal_premises_def.

(* C16: a pool that exists, is live and is backed with room - as each built-in pool is from its creation - exists,
   is live and is backed in every later state of every history *)
Theorem C16_every_reachable_state : forall K, NoDup (map poolkey_code K) -> forall SO, In MS K /\ In ME K /\ In ES K ->
  (forall k1 k2, In k1 K -> In k2 K -> LDk SO k1 = LDk SO k2 -> k1 = k2) ->
  forall k, In k K -> forall ops s,
  Backed K SO k s -> hist_all SO (pool_step_ok K SO k) s ops -> Backed K SO k (fold_left (hstep SO) ops s).
Proof. exact pool_backed_forever. Qed.
Print Assumptions C16_every_reachable_state.

(* the same from a state of the invariant [Good2] (Properties/C01.v: true of the genesis state, kept by every
   history), with nothing assumed about the coins of the states that are sealed: the steps need the hash-oracle
   assumptions, the no-overflow bounds [seal_bounds] and that no faucet of a batch issues the pool's token *)
Theorem C16_bounds_step_def : forall K SO k s o,
  pool_bounds_step_ok K SO k s o <->
  bounds_step_ok K SO s o /\ match o with HBatch lh txs => batch_issuance (LDk SO k) txs = 0 | HBlock a hdr => True end.
Proof. exact pool_bounds_step_ok_def. Qed.
Print Assumptions C16_bounds_step_def.
Theorem C16_every_reachable_state_from_invariant : forall K, NoDup (map poolkey_code K) -> forall SO, In MS K /\ In ME K /\ In ES K ->
  (forall k1 k2, In k1 K -> In k2 K -> LDk SO k1 = LDk SO k2 -> k1 = k2) ->
  forall k, In k K -> forall ops s,
  Good2 s -> Backed K SO k s -> hist_all SO (pool_bounds_step_ok K SO k) s ops -> Backed K SO k (fold_left (hstep SO) ops s).
Proof. exact pool_backed_forever_inv. Qed.
Print Assumptions C16_every_reachable_state_from_invariant.

(* ---- from the beginning of a chain.  [Unborn K SO k s]: pool k does not exist and fewer than 10^9 of its
   liquidity tokens do (in coins or parked in reserves) - as in a genesis state - and, for ERG/SYM, TIP-902 is
   active (it always is off mainnet / testnet), so that the next seal creates the pool.  The first seal creates the
   built-in pools with 10^9 of liquidity that nobody owns, so they are born live and backed with room. *)
Theorem C16_unborn_def : forall K SO k s,
  Unborn K SO k s <-> get_pool s k = None /\ coin_supply (LDk SO k) (s_coins s) + psum K (LDk SO k) s + 1 <= MICRO * 1000 /\
                    (k = ES -> tip_902 s = true).
Proof. exact unborn_def. Qed.
Print Assumptions C16_unborn_def.
Theorem C16_born_backed_def : forall K SO k s, BornBacked K SO k s <-> Backed K SO k s \/ Unborn K SO k s.
Proof. exact born_backed_def. Qed.
Print Assumptions C16_born_backed_def.
Theorem C16_genesis_has_no_pool : forall K SO k net c fee_pool mult stakes,
  cd_denom (c_data c) <> LDk SO k -> (k = ES -> net <> MAINNET /\ net <> TESTNET) ->
  Unborn K SO k (genesis net c fee_pool mult stakes).
Proof. exact genesis_unborn. Qed.
Print Assumptions C16_genesis_has_no_pool.
Theorem C16_first_seal_creates_backed_pool : forall K, NoDup (map poolkey_code K) -> forall SO, In MS K /\ In ME K /\ In ES K ->
  (forall k1 k2, In k1 K -> In k2 K -> LDk SO k1 = LDk SO k2 -> k1 = k2) ->
  forall k, k = MS \/ k = ME \/ k = ES -> forall s a s',
  seal SO s a = Ok s' -> Unborn K SO k s -> seal_premises K SO s -> Backed K SO k s'.
Proof. exact seal_births_backed. Qed.
Print Assumptions C16_first_seal_creates_backed_pool.
(* every state of every history from a state of the invariant without the pool (a genesis state): the pool is
   still unborn, or it exists, is live and is backed *)
Theorem C16_builtin_pool_in_every_history : forall K, NoDup (map poolkey_code K) -> forall SO, In MS K /\ In ME K /\ In ES K ->
  (forall k1 k2, In k1 K -> In k2 K -> LDk SO k1 = LDk SO k2 -> k1 = k2) ->
  forall k, k = MS \/ k = ME \/ k = ES -> forall ops s,
  Good2 s -> BornBacked K SO k s -> hist_all SO (pool_bounds_step_ok K SO k) s ops ->
  BornBacked K SO k (fold_left (hstep SO) ops s).
Proof. exact born_backed_forever. Qed.
Print Assumptions C16_builtin_pool_in_every_history.
(* and from the first sealed block on it exists, is live and is backed - in every later state *)
Theorem C16_builtin_pool_after_first_block : forall K, NoDup (map poolkey_code K) -> forall SO, In MS K /\ In ME K /\ In ES K ->
  (forall k1 k2, In k1 K -> In k2 K -> LDk SO k1 = LDk SO k2 -> k1 = k2) ->
  forall k, k = MS \/ k = ME \/ k = ES -> forall ops1 a hdr ops2 s sealed,
  Good2 s -> BornBacked K SO k s ->
  hist_all SO (pool_bounds_step_ok K SO k) s (ops1 ++ HBlock a hdr :: ops2) ->
  seal SO (fold_left (hstep SO) ops1 s) a = Ok sealed ->
  Backed K SO k (fold_left (hstep SO) (ops1 ++ HBlock a hdr :: ops2) s).
Proof. exact backed_after_first_block. Qed.
Print Assumptions C16_builtin_pool_after_first_block.
(* non-vacuity: the premises hold on the history of STF/Proofs/Witness5.v *)
Theorem C16_born_witness :
  Unborn w_K3 w_oracle MS w_state /\ Unborn w_K3 w_oracle ES w_state /\
  hist_all w_oracle (pool_bounds_step_ok w_K3 w_oracle MS) w_state ([HBatch w_header w_batch] ++ HBlock (Some w_action) w_header :: []) /\
  (exists sealed, seal w_oracle (fold_left (hstep w_oracle) [HBatch w_header w_batch] w_state) (Some w_action) = Ok sealed).
Proof. exact w_born. Qed.
Print Assumptions C16_born_witness.

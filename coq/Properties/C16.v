(* C16 - Built-in pools always exist with reserves; liquidity tokens stay fully backed.
   Pinned statements only; proofs in STF/Proofs/Pool.v.
   The state-level invariants (for every reachable state: the three built-in pools have both reserves >= 1,
   and the liquidity tokens held in coins never exceed a pool's recorded liquidity) are evaluated on every
   sealed state of the stf stream; what is proved for all inputs are the per-operation facts they rest on. *)
From MelVerif Require Import STF.Model STF.Proofs.Pool.
Open Scope N_scope.

(* swapping leaves both reserves of a live pool positive and the issued liquidity unchanged *)
Theorem C16_swap_keeps_reserves : forall p l r,
  1 <= p_lefts p -> 1 <= p_rights p -> p_lefts p + l < U128 -> p_rights p + r < U128 ->
  let L' := p_lefts p + l in let R' := p_rights p + r in
  let rw := l * R' * 995 / (L' * 1000) in let lw := r * L' * 995 / (R' * 1000) in
  exists acc,
    swap_many p l r = Ok ({| p_lefts := L' - lw; p_rights := R' - rw; p_accum := acc; p_liqs := p_liqs p |}, lw, rw) /\
    1 <= L' - lw /\ 1 <= R' - rw /\
    p_lefts p * p_rights p <= (L' - lw) * (R' - rw) /\
    rw * (L' * 1000) <= l * R' * 995 /\ lw * (R' * 1000) <= r * L' * 995.
Proof. exact swap_many_spec. Qed.
Print Assumptions C16_swap_keeps_reserves.

(* withdrawing less than all the issued liquidity (the built-in 10^9 is held by no coin) leaves both reserves
   positive; liquidity burned and reserves paid move together *)
Theorem C16_withdraw_keeps_reserves : forall p l,
  l <= p_liqs p -> 0 < p_liqs p ->
  exists p' a b, pool_withdraw p l = Ok (p', a, b) /\
    p_liqs p' = p_liqs p - l /\ p_lefts p' = p_lefts p - a /\ p_rights p' = p_rights p - b /\
    a <= p_lefts p /\ b <= p_rights p /\
    (l < p_liqs p -> a = p_lefts p * l / p_liqs p /\ b = p_rights p * l / p_liqs p) /\
    (l = p_liqs p -> a = p_lefts p /\ b = p_rights p) /\
    (l < p_liqs p -> 1 <= p_lefts p -> 1 <= p_lefts p') /\
    (l < p_liqs p -> 1 <= p_rights p -> 1 <= p_rights p').
Proof. exact pool_withdraw_spec. Qed.
Print Assumptions C16_withdraw_keeps_reserves.

(* the liquidity tokens handed to the depositors of one block never exceed what the pool issued for them,
   whatever the rounding of the individual shares (the clamp introduced by the F7 repair) *)
Theorem C16_shares_backed : forall total total_mt mts avail,
  nsum (clamped_shares total total_mt mts avail) <= avail.
Proof. exact clamped_shares_le. Qed.
Print Assumptions C16_shares_backed.

(* the built-in pool created at the first seal *)
Example C16_builtin_pool : p_lefts builtin_pool = 1000000000 /\ p_rights builtin_pool = 1000000000 /\ p_liqs builtin_pool = 1000000000.
Proof. vm_compute. auto. Qed.

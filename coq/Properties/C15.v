(* C15 - Melswap settles only genuine requests, at one fair price, pro rata.
   Pinned statements only; proofs in STF/Proofs/SealCoins.v, STF/Proofs/Pool.v and STF/Proofs/SealSupply.v. *)
From MelVerif Require Import STF.Model STF.Proofs.Supply STF.Proofs.Pool STF.Proofs.SealCoins STF.Proofs.BatchSupply STF.Proofs.SealSupply STF.Proofs.PoolKeys STF.Proofs.SealLift STF.Proofs.Witness STF.Proofs.Witness2.
Open Scope N_scope.

(* only pool requests have outputs transformed at sealing: every coin that is not output 0 / 1 of a pool
   request of this block (and not the proposer reward) is exactly the same afterwards *)
Theorem C15_other_outputs_untouched : forall SO s a s' k,
  seal SO s a = Ok s' ->
  (forall t, In t (sorted_txs s) -> is_pool_request t = true -> k <> key0 t /\ k <> key1 t) ->
  k <> coin_key (so_reward_id SO (s_height s)) 0 ->
  s_coins s' !! k = s_coins s !! k.
Proof. exact seal_leaves_other_coins. Qed.
Print Assumptions C15_other_outputs_untouched.

(* a pool request is a transaction of kind swap / liquidity-deposit / liquidity-withdrawal whose data is the
   canonical name of a pool: two different real denominations in canonical order, canonically encoded - so
   however a request spells its pool, left and right are never exchanged or merged *)
Theorem C15_request : forall t,
  is_pool_request t = true ->
  (t_kind t = KSwap \/ t_kind t = KLiqDeposit \/ t_kind t = KLiqWithdraw) /\
  exists k, t_poolkey t = Some k /\ fst k <> snd k /\ fst k <> NewCustom /\ snd k <> NewCustom /\
            poolkey_new (fst k) (snd k) = k /\ poolkey_bytes k = t_data t.
Proof. exact pool_request_spec. Qed.
Print Assumptions C15_request.

Theorem C15_swap_requests_are_requests : forall s t, is_swap_request s t = true -> is_pool_request t = true.
Proof. exact swap_request_is_request. Qed.
Print Assumptions C15_swap_requests_are_requests.
Theorem C15_deposit_requests_are_requests : forall s t, is_deposit_request s t = true -> is_pool_request t = true.
Proof. exact deposit_request_is_request. Qed.
Print Assumptions C15_deposit_requests_are_requests.
Theorem C15_withdraw_requests_are_requests : forall SO s t, is_withdraw_request SO s t = true -> is_pool_request t = true.
Proof. exact withdraw_request_is_request. Qed.
Print Assumptions C15_withdraw_requests_are_requests.

(* all requests against a pool settle at a single price: with totals l (left) and r (right) added to reserves
   L, R: L' = L + l, R' = R + r, paid right = floor(l*R'*995/(L'*1000)), paid left = floor(r*L'*995/(R'*1000));
   the reserves stay positive, the issued liquidity is untouched, the reserve product never decreases, and the
   totals paid are at most the constant-product amounts less 0.5% *)
Theorem C15_swap : forall p l r,
  1 <= p_lefts p -> 1 <= p_rights p -> p_lefts p + l < U128 -> p_rights p + r < U128 ->
  let L' := p_lefts p + l in let R' := p_rights p + r in
  let rw := l * R' * 995 / (L' * 1000) in let lw := r * L' * 995 / (R' * 1000) in
  exists acc,
    swap_many p l r = Ok ({| p_lefts := L' - lw; p_rights := R' - rw; p_accum := acc; p_liqs := p_liqs p |}, lw, rw) /\
    1 <= L' - lw /\ 1 <= R' - rw /\
    p_lefts p * p_rights p <= (L' - lw) * (R' - rw) /\
    rw * (L' * 1000) <= l * R' * 995 /\ lw * (R' * 1000) <= r * L' * 995.
Proof. exact swap_many_spec. Qed.
Print Assumptions C15_swap.

(* each participant receives floor(paid * own / total): the shares never add up to more than what was paid *)
Theorem C15_pro_rata : forall (vs : list N) x T,
  x < U128 -> nsum vs <= T -> nsum (map (fun v => multiply_ratio x v T) vs) <= x.
Proof. exact prorata_sum_le. Qed.
Print Assumptions C15_pro_rata.

(* withdrawals burn liquidity in proportion to the reserves, which move by exactly the amounts paid *)
Theorem C15_withdraw : forall p l,
  l <= p_liqs p -> 0 < p_liqs p ->
  exists p' a b, pool_withdraw p l = Ok (p', a, b) /\
    p_liqs p' = p_liqs p - l /\ p_lefts p' = p_lefts p - a /\ p_rights p' = p_rights p - b /\
    a <= p_lefts p /\ b <= p_rights p /\
    (l < p_liqs p -> a = p_lefts p * l / p_liqs p /\ b = p_rights p * l / p_liqs p) /\
    (l = p_liqs p -> a = p_lefts p /\ b = p_rights p) /\
    (l < p_liqs p -> 1 <= p_lefts p -> 1 <= p_lefts p') /\
    (l < p_liqs p -> 1 <= p_rights p -> 1 <= p_rights p').
Proof. exact pool_withdraw_spec. Qed.
Print Assumptions C15_withdraw.

(* deposits mint liquidity in proportion to the reserves, which grow by exactly the amounts deposited *)
Theorem C15_deposit : forall p dl dr,
  p_lefts p + dl < U128 -> p_rights p + dr < U128 ->
  (p_liqs p = 0 -> pool_deposit p dl dr = Ok ({| p_lefts := dl; p_rights := dr; p_accum := p_accum p; p_liqs := dl |}, dl)) /\
  (0 < p_liqs p -> 0 < p_lefts p * p_rights p ->
     let minted := to_u128_sat (N.sqrt (p_liqs p * p_liqs p * (dl * dr) / (p_lefts p * p_rights p))) in
     pool_deposit p dl dr =
       Ok ({| p_lefts := p_lefts p + dl; p_rights := p_rights p + dr; p_accum := p_accum p;
              p_liqs := sat_add128 (p_liqs p) minted |}, minted)).
Proof. exact pool_deposit_spec. Qed.
Print Assumptions C15_deposit.

(* "the reserves move by exactly the amounts taken from or paid into coins", at the level of the state: after
   the swaps of a block against pool k, reserve + coins of either side is never more than before (what is paid
   out is the constant-product amount split pro rata and rounded down, so it is short of the total paid by less
   than one unit per request), no other denomination moves, and the issued liquidity is unchanged *)
Theorem C15_swaps_settle_against_reserves : forall k, fst k <> snd k -> forall s swaps s',
  swaps_single_pool k s swaps = Ok s' ->
  NoDup (map key0 swaps) ->
  (forall t, In t swaps -> declared0 s t /\ (cd_denom (out0 t) = fst k \/ cd_denom (out0 t) = snd k)) ->
  nsum (map (fun t => cd_value (out0 t)) swaps) < U128 ->
  exists p p', get_pool s k = Some p /\ s_pools s' = <[poolkey_code k := p']> (s_pools s) /\
    p_liqs p' = p_liqs p /\
    forall d, coin_supply d (s_coins s') + side d k p' <= coin_supply d (s_coins s) + side d k p.
Proof. exact swaps_single_pool_conserves. Qed.
Print Assumptions C15_swaps_settle_against_reserves.

(* the hypotheses of the settlement theorems hold together on a concrete pool (STF/Proofs/Witness2.v) *)
Example C15_swap_witness :
  (exists s', swaps_single_pool w_key w_seal_state [w_swap] = Ok s') /\
  NoDup (map key0 [w_swap]) /\
  (forall t, In t [w_swap] -> declared0 w_seal_state t /\ (cd_denom (out0 t) = fst w_key \/ cd_denom (out0 t) = snd w_key)) /\
  nsum (map (fun t => cd_value (out0 t)) [w_swap]) < U128.
Proof. exact w_swap_ok. Qed.

(* every pool named by the requests of a block is settled exactly once per phase: the list of pool names the
   settlement loops iterate has no duplicates and contains exactly the named pools *)
Theorem C15_each_pool_once : forall txs, NoDup (pool_keys_sorted txs).
Proof. exact pool_keys_sorted_nodup. Qed.
Print Assumptions C15_each_pool_once.
Theorem C15_exactly_the_named_pools : forall txs k, In k (pool_keys_sorted txs) <-> exists t, In t txs /\ tx_pool t = Some k.
Proof. exact pool_keys_sorted_in. Qed.
Print Assumptions C15_exactly_the_named_pools.

(* all requests of a block against all pools: reserves move by what is taken from / paid into coins *)
Theorem C15_settlement : forall K, NoDup (map poolkey_code K) -> forall SO s1 s2 s3 s4,
  process_swaps s1 = Ok s2 -> process_deposits SO s2 = Ok s3 -> process_withdrawals SO s3 = Ok s4 ->
  legacy_net s1 && (s_height s1 <? 978392) = false ->
  (forall t k, In t (sorted_txs s1) -> tx_pool t = Some k -> In k K /\ LDk SO k <> fst k /\ LDk SO k <> snd k) ->
  NoDup (key_pairs (sorted_txs s1)) ->
  (forall t c, In t (sorted_txs s1) -> s_coins s1 !! key0 t = Some c -> as_declared t c (out0 t)) ->
  (forall t c, In t (sorted_txs s1) -> s_coins s1 !! key1 t = Some c -> as_declared t c (out1 t)) ->
  nsum (map (fun t => cd_value (out0 t)) (sorted_txs s1)) < U128 ->
  nsum (map (fun t => cd_value (out1 t)) (sorted_txs s1)) < U128 ->
  (forall k p'' m, In k K ->
     pool_deposit (pool_at s2 k)
       (nsum (map (fun t => cd_value (out0 t)) (txs_for_pool (List.filter (is_deposit_request s2) (sorted_txs s2)) k)))
       (nsum (map (fun t => cd_value (out1 t)) (txs_for_pool (List.filter (is_deposit_request s2) (sorted_txs s2)) k))) = Ok (p'', m) ->
     p_liqs (pool_at s2 k) + m < U128) ->
  (forall k p, In k K -> get_pool s3 k = Some p -> p_lefts p < U128 /\ p_rights p < U128) ->
  forall d, settles K SO d s1 s4.
Proof. exact settlement_settles. Qed.
Print Assumptions C15_settlement.

(* C15 - Melswap settles only genuine requests, at one fair price, pro rata.
   Pinned statements only; proofs in STF/Proofs/SealCoins.v and STF/Proofs/Pool.v. *)
From MelVerif Require Import STF.Model STF.Proofs.Pool STF.Proofs.SealCoins.
Open Scope N_scope.

(* only pool requests have outputs transformed at sealing: every coin that is not output 0 / 1 of a pool
   request of this block (and not the proposer reward) is exactly the same afterwards *)
Theorem C15_other_outputs_untouched : forall SO s a s' k,
  seal SO s a = Ok s' ->
  (forall t, In t (sorted_txs s) -> is_pool_request t = true -> k <> key0 t /\ k <> key1 t) ->
  k <> coin_key (so_reward_id SO (s_height s)) 0 ->
  s_coins s' !! k = s_coins s !! k.
Proof. exact seal_leaves_other_coins. Qed.
Print Assumptions C15_other_outputs_untouched.

(* a pool request is a transaction of kind swap / liquidity-deposit / liquidity-withdrawal whose data is the
   canonical name of a pool: two different real denominations in canonical order, canonically encoded - so
   however a request spells its pool, left and right are never exchanged or merged *)
Theorem C15_request : forall t,
  is_pool_request t = true ->
  (t_kind t = KSwap \/ t_kind t = KLiqDeposit \/ t_kind t = KLiqWithdraw) /\
  exists k, t_poolkey t = Some k /\ fst k <> snd k /\ fst k <> NewCustom /\ snd k <> NewCustom /\
            poolkey_new (fst k) (snd k) = k /\ poolkey_bytes k = t_data t.
Proof. exact pool_request_spec. Qed.
Print Assumptions C15_request.

Theorem C15_swap_requests_are_requests : forall s t, is_swap_request s t = true -> is_pool_request t = true.
Proof. exact swap_request_is_request. Qed.
Print Assumptions C15_swap_requests_are_requests.
Theorem C15_deposit_requests_are_requests : forall s t, is_deposit_request s t = true -> is_pool_request t = true.
Proof. exact deposit_request_is_request. Qed.
Print Assumptions C15_deposit_requests_are_requests.
Theorem C15_withdraw_requests_are_requests : forall SO s t, is_withdraw_request SO s t = true -> is_pool_request t = true.
Proof. exact withdraw_request_is_request. Qed.
Print Assumptions C15_withdraw_requests_are_requests.

(* all requests against a pool settle at a single price: with totals l (left) and r (right) added to reserves
   L, R: L' = L + l, R' = R + r, paid right = floor(l*R'*995/(L'*1000)), paid left = floor(r*L'*995/(R'*1000));
   the reserves stay positive, the issued liquidity is untouched, the reserve product never decreases, and the
   totals paid are at most the constant-product amounts less 0.5% *)
Theorem C15_swap : forall p l r,
  1 <= p_lefts p -> 1 <= p_rights p -> p_lefts p + l < U128 -> p_rights p + r < U128 ->
  let L' := p_lefts p + l in let R' := p_rights p + r in
  let rw := l * R' * 995 / (L' * 1000) in let lw := r * L' * 995 / (R' * 1000) in
  exists acc,
    swap_many p l r = Ok ({| p_lefts := L' - lw; p_rights := R' - rw; p_accum := acc; p_liqs := p_liqs p |}, lw, rw) /\
    1 <= L' - lw /\ 1 <= R' - rw /\
    p_lefts p * p_rights p <= (L' - lw) * (R' - rw) /\
    rw * (L' * 1000) <= l * R' * 995 /\ lw * (R' * 1000) <= r * L' * 995.
Proof. exact swap_many_spec. Qed.
Print Assumptions C15_swap.

(* each participant receives floor(paid * own / total): the shares never add up to more than what was paid *)
Theorem C15_pro_rata : forall (vs : list N) x T,
  x < U128 -> nsum vs <= T -> nsum (map (fun v => multiply_ratio x v T) vs) <= x.
Proof. exact prorata_sum_le. Qed.
Print Assumptions C15_pro_rata.

(* withdrawals burn liquidity in proportion to the reserves, which move by exactly the amounts paid *)
Theorem C15_withdraw : forall p l,
  l <= p_liqs p -> 0 < p_liqs p ->
  exists p' a b, pool_withdraw p l = Ok (p', a, b) /\
    p_liqs p' = p_liqs p - l /\ p_lefts p' = p_lefts p - a /\ p_rights p' = p_rights p - b /\
    a <= p_lefts p /\ b <= p_rights p /\
    (l < p_liqs p -> a = p_lefts p * l / p_liqs p /\ b = p_rights p * l / p_liqs p) /\
    (l = p_liqs p -> a = p_lefts p /\ b = p_rights p) /\
    (l < p_liqs p -> 1 <= p_lefts p -> 1 <= p_lefts p') /\
    (l < p_liqs p -> 1 <= p_rights p -> 1 <= p_rights p').
Proof. exact pool_withdraw_spec. Qed.
Print Assumptions C15_withdraw.

(* deposits mint liquidity in proportion to the reserves, which grow by exactly the amounts deposited *)
Theorem C15_deposit : forall p dl dr,
  p_lefts p + dl < U128 -> p_rights p + dr < U128 ->
  (p_liqs p = 0 -> pool_deposit p dl dr = Ok ({| p_lefts := dl; p_rights := dr; p_accum := p_accum p; p_liqs := dl |}, dl)) /\
  (0 < p_liqs p -> 0 < p_lefts p * p_rights p ->
     let minted := to_u128_sat (N.sqrt (p_liqs p * p_liqs p * (dl * dr) / (p_lefts p * p_rights p))) in
     pool_deposit p dl dr =
       Ok ({| p_lefts := p_lefts p + dl; p_rights := p_rights p + dr; p_accum := p_accum p;
              p_liqs := sat_add128 (p_liqs p) minted |}, minted)).
Proof. exact pool_deposit_spec. Qed.
Print Assumptions C15_deposit.

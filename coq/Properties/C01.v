(* C01 - No value is created from nothing (conservation of every denomination).
   Pinned statements only; proofs in STF/Proofs/{Supply,BatchSupply,SealSupply,Pool,Coins}.v.

   FULL STATEMENT wanted by the property:
     for every accepted batch and every seal, for every denomination d,
       supply d after <= supply d before + issuance d (faucet outputs and fees off mainnet, a transaction's own
       new token, ERG of valid mints within their reward, liquidity tokens minted against deposits, the TIP-909
       subsidy, the peg nudge, the one-off bootstrap of the built-in pools).
   PROVED for all inputs:
     - the batch half in full ([C01_batch_supply]: coins + fee pool + tips, pools untouched), under the
       hash-oracle assumptions [HashOK] (distinct transactions have distinct hashes, new hashes are new,
       faucet markers are not coin ids) - see STF/Proofs/HashFacts.v;
     - the seal half one pool and one phase at a time ([C01_swaps_conserve], [C01_withdrawals_conserve],
       [C01_deposits_conserve]: reserve + coins of each side never grows, liquidity tokens move with the
       recorded liquidity), for request coins that are as declared and sums below 2^128.
     - and the three settlement phases of a block together, over all pools ([C01_settlement]): for every
       denomination d, coins + reserves after, plus the liquidity recorded before by the pools whose token is d,
       is at most coins + reserves before plus the liquidity recorded after ([settles]); so a denomination
       that is no pool's liquidity token never grows ([C01_settlement_conserves]).
     - and a whole seal - bootstrap of the built-in pools, settlement, peg, TIP-909 subsidy, proposer
       reward - for ERG and every custom denomination ([C01_seal_unpegged]): nothing is created beyond the
       one-off reserves of a built-in pool that did not exist yet.
     - and a whole seal for MEL and SYM, the two denominations the protocol mints by design ([C01_seal_mel_sym]):
       coins + reserves (+ fee pool and tips for MEL) grow by at most the bootstrap, the peg nudge (at most
       2^128 / throttler) and, for SYM, the scheduled subsidy 2^20 >> ((height - TIP-909 height) / 10^6); the
       subsidy's MEL goes from the MEL/SYM reserve to the fee pool and the proposer reward from the fee pool and
       the tips to a coin, so neither creates MEL.
     - and whole histories ([C01_every_history], [C01_every_history_mel_sym]): across any sequence of batches
       (accepted or refused) and sealed blocks, what exists of a denomination grows by at most the sum of the
       steps' explicit issuances.
   So every clause of the full statement is a theorem, under the stated side conditions (hash-oracle facts; request
   coins as declared; sums below 2^128).  The exact issuance of each real seal is also evaluated by the model on
   the real before/after states of the stf stream (Cases/Reflect.v [supply], [seal_issuance]). *)
From MelVerif Require Import STF.Model STF.Proofs.MapLemmas STF.Proofs.Faucet STF.Proofs.Coins STF.Proofs.Supply STF.Proofs.Pool
  STF.Proofs.SealCoins STF.Proofs.HashFacts STF.Proofs.BatchSupply STF.Proofs.SealSupply STF.Proofs.SealLift STF.Proofs.SealPegged STF.Proofs.SealCounts STF.Proofs.History STF.Proofs.PoolHistory STF.Proofs.SupplyHistory STF.Proofs.Witness2 STF.Proofs.Witness3 STF.Proofs.Witness4 STF.Proofs.Witness7 STF.Proofs.Witness STF.Proofs.Declared STF.Proofs.BoundsHistory STF.Proofs.Witness5 STF.Proofs.Witness8.
Open Scope N_scope.

(* every accepted non-faucet transaction is balanced denomination by denomination: outputs plus fee equal the
   inputs (or the denomination is only burnt); no ordinary, swap, deposit, withdrawal or stake transaction puts
   more of an existing denomination into coins and fees than it takes out of coins *)
Theorem C01_transaction_balanced : forall SO s lh relevant ns t,
  check_tx_validity SO s lh relevant ns t = Ok tt -> t_kind t <> KFaucet ->
  forall d, d <> NewCustom -> ~ (t_kind t = KDoscMint /\ d = Erg) ->
  out_sum d t = 0 \/ out_sum d t = in_sum relevant d (t_inputs t).
Proof. exact accepted_tx_balanced. Qed.
Print Assumptions C01_transaction_balanced.

(* no coin is consumed twice and every input exists: the inputs really are taken out of coins *)
Theorem C01_inputs_exist_once : forall s txs relevant,
  load_relevant_coins s txs = Ok relevant ->
  (forall t, In t txs -> well_formed t = true /\ totals_fit t = true) /\
  NoDup (all_inputs txs) /\
  (forall k, In k (all_inputs txs) -> is_Some (outputs_map s txs !! k) \/ is_Some (s_coins s !! k)) /\
  (forall k, In k (all_inputs txs) ->
     relevant !! k = match outputs_map s txs !! k with Some c => Some c | None => s_coins s !! k end) /\
  (forall k, ~ In k (all_inputs txs) -> relevant !! k = outputs_map s txs !! k).
Proof. exact load_relevant_coins_spec. Qed.
Print Assumptions C01_inputs_exist_once.

(* the coin map moves by exactly the batch's insertions and removals (C02), and the supply of a denomination
   moves by exactly the value of each inserted / removed coin *)
Theorem C01_supply_insert : forall d k c coins,
  coins !! k = None ->
  coin_supply d (<[k := c]> coins) = coin_supply d coins + (if denom_eqb (cd_denom (c_data c)) d then cd_value (c_data c) else 0).
Proof. exact coin_supply_insert_fresh. Qed.
Print Assumptions C01_supply_insert.

Theorem C01_supply_remove : forall d k c coins,
  coins !! k = Some c ->
  coin_supply d coins = coin_supply d (delete k coins) + (if denom_eqb (cd_denom (c_data c)) d then cd_value (c_data c) else 0).
Proof. exact coin_supply_delete. Qed.
Print Assumptions C01_supply_remove.

(* settlement: what a pool pays out never exceeds what the formulas allow, shares never exceed the total *)
Theorem C01_swap_pays_within_reserves : forall p l r,
  1 <= p_lefts p -> 1 <= p_rights p -> p_lefts p + l < U128 -> p_rights p + r < U128 ->
  let L' := p_lefts p + l in let R' := p_rights p + r in
  let rw := l * R' * 995 / (L' * 1000) in let lw := r * L' * 995 / (R' * 1000) in
  exists acc,
    swap_many p l r = Ok ({| p_lefts := L' - lw; p_rights := R' - rw; p_accum := acc; p_liqs := p_liqs p |}, lw, rw) /\
    1 <= L' - lw /\ 1 <= R' - rw /\
    p_lefts p * p_rights p <= (L' - lw) * (R' - rw) /\
    rw * (L' * 1000) <= l * R' * 995 /\ lw * (R' * 1000) <= r * L' * 995.
Proof. exact swap_many_spec. Qed.
Print Assumptions C01_swap_pays_within_reserves.

Theorem C01_shares_within_total : forall (vs : list N) x T,
  x < U128 -> nsum vs <= T -> nsum (map (fun v => multiply_ratio x v T) vs) <= x.
Proof. exact prorata_sum_le. Qed.
Print Assumptions C01_shares_within_total.

(* ---- the whole batch: coins + fee pool + tips of every denomination grow by at most the explicit issuance
   (everything a faucet declares, a transaction's own new token, the ERG outputs of a mint - bounded by the
   reward formula in C18); the pools are not touched by a batch *)
Theorem C01_batch_supply : forall SO s lh txs s',
  apply_tx_batch SO s lh txs = Ok s' -> HashOK SO s txs ->
  forall d, d <> NewCustom ->
  coin_supply d (s_coins s') + fee_part d (s_fee_pool s' + s_tips s')
  <= coin_supply d (s_coins s) + fee_part d (s_fee_pool s + s_tips s) + batch_issuance d txs.
Proof. exact accepted_batch_supply_hash. Qed.
Print Assumptions C01_batch_supply.

Theorem C01_batch_leaves_pools : forall SO s lh txs s', apply_tx_batch SO s lh txs = Ok s' -> s_pools s' = s_pools s.
Proof. exact accepted_batch_pools. Qed.
Print Assumptions C01_batch_leaves_pools.

(* the hypotheses hold together on a concrete batch (two faucets, and a transfer that spends one of them
   inside the batch and creates its own token) *)
Example C01_batch_witness :
  HashOK w_oracle w_state w_batch /\ exists s', apply_tx_batch w_oracle w_state w_header w_batch = Ok s'.
Proof. split; [exact w_hash_ok|exact w_accepted]. Qed.

(* ---- sealing, one pool and one phase at a time: [side d k p] is what pool k holds of denomination d *)
Theorem C01_swaps_conserve : forall k, fst k <> snd k -> forall s swaps s',
  swaps_single_pool k s swaps = Ok s' ->
  NoDup (map key0 swaps) ->
  (forall t, In t swaps -> declared0 s t /\ (cd_denom (out0 t) = fst k \/ cd_denom (out0 t) = snd k)) ->
  nsum (map (fun t => cd_value (out0 t)) swaps) < U128 ->
  exists p p', get_pool s k = Some p /\ s_pools s' = <[poolkey_code k := p']> (s_pools s) /\
    p_liqs p' = p_liqs p /\
    forall d, coin_supply d (s_coins s') + side d k p' <= coin_supply d (s_coins s) + side d k p.
Proof. exact swaps_single_pool_conserves. Qed.
Print Assumptions C01_swaps_conserve.

Theorem C01_withdrawals_conserve : forall SO k,
  Custom (so_liq_denom SO (poolkey_code k)) <> fst k -> Custom (so_liq_denom SO (poolkey_code k)) <> snd k ->
  forall s ws s' p,
  withdrawals_single_pool k s ws = Ok s' ->
  get_pool s k = Some p -> p_lefts p < U128 -> p_rights p < U128 ->
  NoDup (flat_map (fun t => [key0 t; key1 t]) ws) ->
  (forall t, In t ws -> declared0 s t /\ cd_denom (out0 t) = Custom (so_liq_denom SO (poolkey_code k))) ->
  nsum (map (fun t => cd_value (out0 t)) ws) < U128 ->
  exists p', ((s' = s /\ p' = p) \/ s_pools s' = <[poolkey_code k := p']> (s_pools s)) /\
    (forall d, d <> Custom (so_liq_denom SO (poolkey_code k)) ->
       coin_supply d (s_coins s') + side d k p' <= coin_supply d (s_coins s) + side d k p) /\
    coin_supply (Custom (so_liq_denom SO (poolkey_code k))) (s_coins s') + p_liqs p
    <= coin_supply (Custom (so_liq_denom SO (poolkey_code k))) (s_coins s) + p_liqs p'.
Proof. exact withdrawals_single_pool_conserves. Qed.
Print Assumptions C01_withdrawals_conserve.

Theorem C01_deposits_conserve : forall SO k,
  Custom (so_liq_denom SO (poolkey_code k)) <> fst k -> Custom (so_liq_denom SO (poolkey_code k)) <> snd k ->
  forall s deps s',
  deposits_single_pool SO k s deps = Ok s' ->
  legacy_net s && (s_height s <? 978392) = false ->
  NoDup (key_pairs deps) ->
  (forall t, In t deps -> declared0 s t /\ declared1 s t /\ cd_denom (out0 t) = fst k /\ cd_denom (out1 t) = snd k) ->
  nsum (map (fun t => cd_value (out0 t)) deps) < U128 -> nsum (map (fun t => cd_value (out1 t)) deps) < U128 ->
  let p := match get_pool s k with Some p => p | None => new_empty_pool end in
  (forall p'' m, pool_deposit p (nsum (map (fun t => cd_value (out0 t)) deps)) (nsum (map (fun t => cd_value (out1 t)) deps)) = Ok (p'', m) ->
                 p_liqs p + m < U128) ->
  exists p', s_pools s' = <[poolkey_code k := p']> (s_pools s) /\
    (forall d, d <> Custom (so_liq_denom SO (poolkey_code k)) ->
       coin_supply d (s_coins s') + side d k p' <= coin_supply d (s_coins s) + side d k p) /\
    coin_supply (Custom (so_liq_denom SO (poolkey_code k))) (s_coins s') + p_liqs p
    <= coin_supply (Custom (so_liq_denom SO (poolkey_code k))) (s_coins s) + p_liqs p'.
Proof. exact deposits_single_pool_conserves. Qed.
Print Assumptions C01_deposits_conserve.

(* the hypotheses of the settlement theorems hold together on a concrete pool (STF/Proofs/Witness2.v) *)
Example C01_swap_witness :
  (exists s', swaps_single_pool w_key w_seal_state [w_swap] = Ok s') /\
  NoDup (map key0 [w_swap]) /\
  (forall t, In t [w_swap] -> declared0 w_seal_state t /\ (cd_denom (out0 t) = fst w_key \/ cd_denom (out0 t) = snd w_key)) /\
  nsum (map (fun t => cd_value (out0 t)) [w_swap]) < U128.
Proof. exact w_swap_ok. Qed.
Example C01_withdraw_witness :
  (exists s', withdrawals_single_pool w_key w_seal_state [w_wd] = Ok s') /\
  get_pool w_seal_state w_key = Some w_pool /\ p_lefts w_pool < U128 /\ p_rights w_pool < U128 /\
  NoDup (flat_map (fun t => [key0 t; key1 t]) [w_wd]) /\
  (forall t, In t [w_wd] -> declared0 w_seal_state t /\ cd_denom (out0 t) = w_liq) /\
  nsum (map (fun t => cd_value (out0 t)) [w_wd]) < U128.
Proof. exact w_withdraw_ok. Qed.
Example C01_deposit_witness :
  (exists s', deposits_single_pool w_oracle w_key w_seal_state [w_dep] = Ok s') /\
  legacy_net w_seal_state && (s_height w_seal_state <? 978392) = false /\
  NoDup (key_pairs [w_dep]) /\
  (forall t, In t [w_dep] -> declared0 w_seal_state t /\ declared1 w_seal_state t /\ cd_denom (out0 t) = fst w_key /\ cd_denom (out1 t) = snd w_key) /\
  nsum (map (fun t => cd_value (out0 t)) [w_dep]) < U128 /\ nsum (map (fun t => cd_value (out1 t)) [w_dep]) < U128 /\
  (forall p'' m, pool_deposit w_pool (nsum (map (fun t => cd_value (out0 t)) [w_dep])) (nsum (map (fun t => cd_value (out1 t)) [w_dep])) = Ok (p'', m) ->
                 p_liqs w_pool + m < U128).
Proof. exact w_deposit_ok. Qed.

(* ---- the three settlement phases of a block, all pools.  K is any list of pool names with pairwise different
   codes that contains every pool a request of the block names; [psum K d s] is what those pools hold of d,
   [liq_of K SO d s] the liquidity recorded by those whose token is d, and
   [settles K SO d s s'] := coin_supply d s' + psum d s' + liq_of d s <= coin_supply d s + psum d s + liq_of d s' *)
Theorem C01_settlement : forall K, NoDup (map poolkey_code K) -> forall SO s1 s2 s3 s4,
  process_swaps s1 = Ok s2 -> process_deposits SO s2 = Ok s3 -> process_withdrawals SO s3 = Ok s4 ->
  legacy_net s1 && (s_height s1 <? 978392) = false ->
  (forall t k, In t (sorted_txs s1) -> tx_pool t = Some k -> In k K /\ LDk SO k <> fst k /\ LDk SO k <> snd k) ->
  NoDup (key_pairs (sorted_txs s1)) ->
  (forall t c, In t (sorted_txs s1) -> s_coins s1 !! key0 t = Some c -> as_declared t c (out0 t)) ->
  (forall t c, In t (sorted_txs s1) -> s_coins s1 !! key1 t = Some c -> as_declared t c (out1 t)) ->
  nsum (map (fun t => cd_value (out0 t)) (sorted_txs s1)) < U128 ->
  nsum (map (fun t => cd_value (out1 t)) (sorted_txs s1)) < U128 ->
  (forall k p'' m, In k K ->
     pool_deposit (pool_at s2 k)
       (nsum (map (fun t => cd_value (out0 t)) (txs_for_pool (List.filter (is_deposit_request s2) (sorted_txs s2)) k)))
       (nsum (map (fun t => cd_value (out1 t)) (txs_for_pool (List.filter (is_deposit_request s2) (sorted_txs s2)) k))) = Ok (p'', m) ->
     p_liqs (pool_at s2 k) + m < U128) ->
  (forall k p, In k K -> get_pool s3 k = Some p -> p_lefts p < U128 /\ p_rights p < U128) ->
  forall d, settles K SO d s1 s4.
Proof. exact settlement_settles. Qed.
Print Assumptions C01_settlement.

Theorem C01_settlement_conserves : forall K SO d s s',
  settles K SO d s s' -> liq_of K SO d s' = 0 ->
  coin_supply d (s_coins s') + psum K d s' <= coin_supply d (s_coins s) + psum K d s.
Proof. exact settles_conserved. Qed.
Print Assumptions C01_settlement_conserves.

(* all hypotheses of [C01_settlement] hold on a concrete block with a swap, a deposit and a withdrawal *)
Example C01_settlement_witness : NoDup (map poolkey_code w_K) /\ exists s2 s3 s4,
    process_swaps w_block_state = Ok s2 /\ process_deposits w_oracle s2 = Ok s3 /\ process_withdrawals w_oracle s3 = Ok s4.
Proof. destruct w_settlement as (H & s2 & s3 & s4 & A & B & C & _). split; [exact H|]. exists s2, s3, s4. auto. Qed.

(* ---- a whole seal (bootstrap of the built-in pools, the three settlement phases, peg, TIP-909 subsidy,
   proposer reward), for every custom denomination - tokens created by transactions and the pools' liquidity
   tokens: coins + reserves, against the liquidity recorded by the pools whose token it is, never grow.
   (MEL, SYM and ERG are subject to the explicit issuance of the peg, the subsidy and the bootstrap.) *)
Theorem C01_seal_custom_denominations : forall K, NoDup (map poolkey_code K) -> forall SO, In MS K /\ In ME K /\ In ES K ->
  forall s a s' h,
  seal SO s a = Ok s' ->
  legacy_net s && (s_height s <? 978392) = false ->
  (forall t k, In t (sorted_txs s) -> tx_pool t = Some k -> In k K /\ LDk SO k <> fst k /\ LDk SO k <> snd k) ->
  NoDup (key_pairs (sorted_txs s)) ->
  (forall t c, In t (sorted_txs s) -> s_coins s !! key0 t = Some c -> as_declared t c (out0 t)) ->
  (forall t c, In t (sorted_txs s) -> s_coins s !! key1 t = Some c -> as_declared t c (out1 t)) ->
  nsum (map (fun t => cd_value (out0 t)) (sorted_txs s)) < U128 ->
  nsum (map (fun t => cd_value (out1 t)) (sorted_txs s)) < U128 ->
  (forall s2 s3, process_swaps (create_builtins s) = Ok s2 -> process_deposits SO s2 = Ok s3 ->
     (forall k p'' m, In k K ->
        pool_deposit (pool_at s2 k)
          (nsum (map (fun t => cd_value (out0 t)) (txs_for_pool (List.filter (is_deposit_request s2) (sorted_txs s2)) k)))
          (nsum (map (fun t => cd_value (out1 t)) (txs_for_pool (List.filter (is_deposit_request s2) (sorted_txs s2)) k))) = Ok (p'', m) ->
        p_liqs (pool_at s2 k) + m < U128) /\
     (forall k p, In k K -> get_pool s3 k = Some p -> p_lefts p < U128 /\ p_rights p < U128)) ->
  settles K SO (Custom h) s s'.
Proof. exact seal_settles_custom. Qed.
Print Assumptions C01_seal_custom_denominations.

(* ---- a whole seal for ERG and every custom denomination ([unpegged d]: d is neither MEL nor SYM, the pair the
   peg and the subsidy mint by design).  [bootstrap K d s] is the reserve of d in the built-in pools that this
   seal creates (zero once they exist). *)
Theorem C01_seal_unpegged : forall K, NoDup (map poolkey_code K) -> forall SO, In MS K /\ In ME K /\ In ES K ->
  forall s a s' d,
  unpegged d ->
  seal SO s a = Ok s' ->
  legacy_net s && (s_height s <? 978392) = false ->
  (forall t k, In t (sorted_txs s) -> tx_pool t = Some k -> In k K /\ LDk SO k <> fst k /\ LDk SO k <> snd k) ->
  NoDup (key_pairs (sorted_txs s)) ->
  (forall t c, In t (sorted_txs s) -> s_coins s !! key0 t = Some c -> as_declared t c (out0 t)) ->
  (forall t c, In t (sorted_txs s) -> s_coins s !! key1 t = Some c -> as_declared t c (out1 t)) ->
  nsum (map (fun t => cd_value (out0 t)) (sorted_txs s)) < U128 ->
  nsum (map (fun t => cd_value (out1 t)) (sorted_txs s)) < U128 ->
  (forall s2 s3, process_swaps (create_builtins s) = Ok s2 -> process_deposits SO s2 = Ok s3 ->
     (forall k p'' m, In k K ->
        pool_deposit (pool_at s2 k)
          (nsum (map (fun t => cd_value (out0 t)) (txs_for_pool (List.filter (is_deposit_request s2) (sorted_txs s2)) k)))
          (nsum (map (fun t => cd_value (out1 t)) (txs_for_pool (List.filter (is_deposit_request s2) (sorted_txs s2)) k))) = Ok (p'', m) ->
        p_liqs (pool_at s2 k) + m < U128) /\
     (forall k p, In k K -> get_pool s3 k = Some p -> p_lefts p < U128 /\ p_rights p < U128)) ->
  coin_supply d (s_coins s') + psum K d s' + liq_of K SO d s
  <= coin_supply d (s_coins s) + psum K d s + liq_of K SO d s' + bootstrap K d s.
Proof. exact seal_settles_unpegged. Qed.
Print Assumptions C01_seal_unpegged.


(* ---- a whole seal for MEL and SYM.  [held K d s]: everything of d that exists; [peg_cap], [subsidy]: the caps
   of the two issuance rules. *)
Theorem C01_pegged_def : forall d, pegged d <-> d = Mel \/ d = Sym.
Proof. exact pegged_def. Qed.
Print Assumptions C01_pegged_def.
Theorem C01_held_def : forall K d s,
  held K d s = coin_supply d (s_coins s) + psum K d s + (if denom_eqb d Mel then s_fee_pool s + s_tips s else 0).
Proof. exact held_def. Qed.
Print Assumptions C01_held_def.
Theorem C01_peg_cap_def : forall s, peg_cap s = MAX128 / (if tip_902 s then 200 else 1000).
Proof. exact peg_cap_def. Qed.
Print Assumptions C01_peg_cap_def.
Theorem C01_subsidy_def : forall s,
  subsidy s = if tip_909 s then N.shiftr (2 ^ 20) ((s_height s - TIP_909_HEIGHT) / 1000000) else 0.
Proof. exact subsidy_def. Qed.
Print Assumptions C01_subsidy_def.

(* the three steps that mint or move MEL / SYM, one at a time *)
Theorem C01_peg_bounded : forall K, NoDup (map poolkey_code K) -> In MS K /\ In ME K /\ In ES K ->
  forall d s s', pegged d -> process_pegging s = Ok s' -> held K d s' <= held K d s + peg_cap s.
Proof. exact pegging_held. Qed.
Print Assumptions C01_peg_bounded.

Theorem C01_subsidy_bounded : forall K, NoDup (map poolkey_code K) -> In MS K /\ In ME K /\ In ES K ->
  forall d s s', pegged d -> apply_tip_909 s = Ok s' ->
  held K d s' <= held K d s + (if denom_eqb d Mel then 0 else N.shiftr (2 ^ 20) ((s_height s - TIP_909_HEIGHT) / 1000000)).
Proof. exact tip909_held. Qed.
Print Assumptions C01_subsidy_bounded.

Theorem C01_reward_is_paid_not_minted : forall K SO d s act s',
  pegged d -> collect_proposer_fee SO s act = Ok s' -> held K d s' <= held K d s.
Proof. exact reward_held. Qed.
Print Assumptions C01_reward_is_paid_not_minted.

(* the whole seal *)
Theorem C01_seal_mel_sym : forall K, NoDup (map poolkey_code K) -> forall SO, In MS K /\ In ME K /\ In ES K ->
  forall s a s' d,
  pegged d ->
  seal SO s a = Ok s' ->
  legacy_net s && (s_height s <? 978392) = false ->
  (forall t k, In t (sorted_txs s) -> tx_pool t = Some k -> In k K /\ LDk SO k <> fst k /\ LDk SO k <> snd k) ->
  NoDup (key_pairs (sorted_txs s)) ->
  (forall t c, In t (sorted_txs s) -> s_coins s !! key0 t = Some c -> as_declared t c (out0 t)) ->
  (forall t c, In t (sorted_txs s) -> s_coins s !! key1 t = Some c -> as_declared t c (out1 t)) ->
  nsum (map (fun t => cd_value (out0 t)) (sorted_txs s)) < U128 ->
  nsum (map (fun t => cd_value (out1 t)) (sorted_txs s)) < U128 ->
  (forall s2 s3, process_swaps (create_builtins s) = Ok s2 -> process_deposits SO s2 = Ok s3 ->
     (forall k p'' m, In k K ->
        pool_deposit (pool_at s2 k)
          (nsum (map (fun t => cd_value (out0 t)) (txs_for_pool (List.filter (is_deposit_request s2) (sorted_txs s2)) k)))
          (nsum (map (fun t => cd_value (out1 t)) (txs_for_pool (List.filter (is_deposit_request s2) (sorted_txs s2)) k))) = Ok (p'', m) ->
        p_liqs (pool_at s2 k) + m < U128) /\
     (forall k p, In k K -> get_pool s3 k = Some p -> p_lefts p < U128 /\ p_rights p < U128)) ->
  held K d s' <= held K d s + bootstrap K d s + peg_cap s + (if denom_eqb d Mel then 0 else subsidy s).
Proof. exact seal_pegged. Qed.
Print Assumptions C01_seal_mel_sym.

(* on the concrete block of STF/Proofs/Witness3.v (a swap, a deposit and a withdrawal against the MEL/SYM pool),
   sealed as a whole, both sides of the conclusion evaluate: the peg moved MEL and SYM by less than 10^9 here *)
Example C01_seal_mel_sym_witness :
  seal w_oracle w_block_state None = Ok w_sealed /\
  held w_K3 Mel w_sealed <= held w_K3 Mel w_block_state + bootstrap w_K3 Mel w_block_state + peg_cap w_block_state /\
  held w_K3 Sym w_sealed <= held w_K3 Sym w_block_state + bootstrap w_K3 Sym w_block_state + peg_cap w_block_state + subsidy w_block_state.
Proof.
  split; [exact w_sealed_ok|]. split; apply N.leb_le; [exact w_pegged_mel|exact w_pegged_sym].
Qed.

(* ---- whole histories ([hstep], [hist_all]: Properties/C20.v; [seal_premises]: Properties/C16.v).
   [grows K SO d x s s']: from s to s' what exists of d grew by at most x - liquidity tokens being allowed to grow
   with the liquidity their pool records. *)
Theorem C01_grows_def : forall K SO d x s s',
  grows K SO d x s s' <-> held K d s' + liq_of K SO d s <= held K d s + liq_of K SO d s' + x.
Proof. exact grows_def. Qed.
Print Assumptions C01_grows_def.

(* what one seal may add: the bootstrap of built-in pools that did not exist, and for MEL / SYM the capped peg nudge
   and (SYM) the scheduled subsidy *)
Theorem C01_seal_cap_def : forall K d s,
  seal_cap K d s = bootstrap K d s + (match d with Mel => peg_cap s | Sym => peg_cap s + subsidy s | _ => 0 end).
Proof. exact seal_cap_def. Qed.
Print Assumptions C01_seal_cap_def.

(* the explicit issuance of a step is what an accepted batch declares / what a successful seal may add *)
Theorem C01_step_issuance_def : forall K SO d s o,
  step_issuance K SO d s o =
  match o with
  | HBatch lh txs => match apply_tx_batch SO s lh txs with Ok _ => batch_issuance d txs | _ => 0 end
  | HBlock a hdr => match seal SO s a with Ok _ => seal_cap K d s | _ => 0 end
  end.
Proof. exact step_issuance_def. Qed.
Print Assumptions C01_step_issuance_def.
Theorem C01_hist_issuance_def : forall K SO d s ops,
  hist_issuance K SO d s ops =
  match ops with [] => 0 | o :: r => step_issuance K SO d s o + hist_issuance K SO d (hstep SO s o) r end.
Proof. exact hist_issuance_def. Qed.
Print Assumptions C01_hist_issuance_def.
Theorem C01_step_assumptions_def : forall K SO s o,
  supply_step_ok K SO s o <-> match o with HBatch lh txs => HashOK SO s txs | HBlock a hdr => seal_premises K SO s end.
Proof. exact supply_step_ok_def. Qed.
Print Assumptions C01_step_assumptions_def.

(* C01: for every denomination, every history *)
Theorem C01_every_history : forall K, NoDup (map poolkey_code K) -> forall SO, In MS K /\ In ME K /\ In ES K ->
  forall d, d <> NewCustom -> forall ops s,
  hist_all SO (supply_step_ok K SO) s ops ->
  grows K SO d (hist_issuance K SO d s ops) s (fold_left (hstep SO) ops s).
Proof. exact supply_history. Qed.
Print Assumptions C01_every_history.

(* and for MEL and SYM, which are no pool's liquidity token: everything that exists afterwards is at most what
   existed before plus the explicit issuance of the steps *)
Theorem C01_every_history_mel_sym : forall K, NoDup (map poolkey_code K) -> forall SO, In MS K /\ In ME K /\ In ES K ->
  forall d ops s, pegged d ->
  hist_all SO (supply_step_ok K SO) s ops ->
  held K d (fold_left (hstep SO) ops s) <= held K d s + hist_issuance K SO d s ops.
Proof. exact supply_history_pegged. Qed.
Print Assumptions C01_every_history_mel_sym.

(* ---- whole histories with nothing assumed about the coins of the states that are sealed.
   [as_declared t c o]: coin c carries the value of output o and its denomination (a new-token output under its
   final name).  [Declared s]: the coins at the first two output ids of the transactions of the current block
   are as those transactions declared them.  [Good2] = [Good] (Properties/C20.v) and [Declared]: an invariant
   of every history, true of the genesis state.  [seal_bounds]: the no-overflow side conditions of a seal. *)
Theorem C01_as_declared_def : forall t c o,
  as_declared t c o <-> cd_denom (c_data c) = fix_denom t (cd_denom o) /\ cd_value (c_data c) = cd_value o.
Proof. exact as_declared_def. Qed.
Print Assumptions C01_as_declared_def.
Theorem C01_declared_def : forall s,
  Declared s <-> forall t, In t (sorted_txs s) ->
    (forall c, s_coins s !! key0 t = Some c ->
       cd_denom (c_data c) = fix_denom t (cd_denom (out0 t)) /\ cd_value (c_data c) = cd_value (out0 t)) /\
    (forall c, s_coins s !! key1 t = Some c ->
       cd_denom (c_data c) = fix_denom t (cd_denom (out1 t)) /\ cd_value (c_data c) = cd_value (out1 t)).
Proof. exact declared_def. Qed.
Print Assumptions C01_declared_def.
Theorem C01_invariant_def : forall s, Good2 s <-> Good s /\ Declared s.
Proof. exact good2_def. Qed.
Print Assumptions C01_invariant_def.
Theorem C01_genesis_invariant : forall net c fee_pool mult stakes, Good2 (genesis net c fee_pool mult stakes).
Proof. exact genesis_good2. Qed.
Print Assumptions C01_genesis_invariant.
Theorem C01_invariant_every_history : forall SO ops s,
  Good2 s -> hist_ok SO s ops -> Good2 (fold_left (hstep SO) ops s).
Proof. exact history_good2. Qed.
Print Assumptions C01_invariant_every_history.
(* so in every reachable state no two transactions of the block share an output id and the coins at those ids are
   as declared: the premises the one-seal theorems above take about the state that is sealed *)
Theorem C01_reachable_states_are_as_declared : forall SO ops s,
  Good2 s -> hist_ok SO s ops ->
  let s1 := fold_left (hstep SO) ops s in
  NoDup (key_pairs (sorted_txs s1)) /\
  (forall t c, In t (sorted_txs s1) -> s_coins s1 !! key0 t = Some c -> as_declared t c (out0 t)) /\
  (forall t c, In t (sorted_txs s1) -> s_coins s1 !! key1 t = Some c -> as_declared t c (out1 t)).
Proof. exact history_declared. Qed.
Print Assumptions C01_reachable_states_are_as_declared.

Theorem C01_seal_bounds_def : forall K SO s,
  seal_bounds K SO s <->
  legacy_net s && (s_height s <? 978392) = false /\
  (forall t k1, In t (sorted_txs s) -> tx_pool t = Some k1 -> In k1 K /\ LDk SO k1 <> fst k1 /\ LDk SO k1 <> snd k1) /\
  nsum (map (fun t => cd_value (out0 t)) (sorted_txs s)) < U128 /\
  nsum (map (fun t => cd_value (out1 t)) (sorted_txs s)) < U128 /\
  (forall s2 s3, process_swaps (create_builtins s) = Ok s2 -> process_deposits SO s2 = Ok s3 ->
     (forall k1 p'' m, In k1 K ->
        pool_deposit (pool_at s2 k1)
          (nsum (map (fun t => cd_value (out0 t)) (txs_for_pool (List.filter (is_deposit_request s2) (sorted_txs s2)) k1)))
          (nsum (map (fun t => cd_value (out1 t)) (txs_for_pool (List.filter (is_deposit_request s2) (sorted_txs s2)) k1))) = Ok (p'', m) ->
        p_liqs (pool_at s2 k1) + m < U128) /\
     (forall k1 p1, In k1 K -> get_pool s3 k1 = Some p1 -> p_lefts p1 < U128 /\ p_rights p1 < U128)).
Proof. exact seal_bounds_def. Qed.
Print Assumptions C01_seal_bounds_def.
Theorem C01_bounds_step_def : forall K SO s o,
  bounds_step_ok K SO s o <->
  match o with
  | HBatch lh txs => HashOK SO s txs /\
      forall t t', In t txs -> In t' (sorted_txs s) -> so_faucet_marker SO (t_hash t) <> t_hash t'
  | HBlock a hdr => (a <> None -> reward_fresh SO s) /\ seal_bounds K SO s
  end.
Proof. exact bounds_step_ok_def. Qed.
Print Assumptions C01_bounds_step_def.

(* C01 for every denomination and every history that starts in a state of the invariant: only the hash-oracle
   assumptions and the no-overflow bounds are asked of the steps *)
Theorem C01_every_history_from_invariant : forall K, NoDup (map poolkey_code K) -> forall SO, In MS K /\ In ME K /\ In ES K ->
  forall d, d <> NewCustom -> forall ops s,
  Good2 s -> hist_all SO (bounds_step_ok K SO) s ops ->
  grows K SO d (hist_issuance K SO d s ops) s (fold_left (hstep SO) ops s).
Proof. exact supply_history_inv. Qed.
Print Assumptions C01_every_history_from_invariant.
Theorem C01_every_history_mel_sym_from_invariant : forall K, NoDup (map poolkey_code K) -> forall SO, In MS K /\ In ME K /\ In ES K ->
  forall d ops s, pegged d ->
  Good2 s -> hist_all SO (bounds_step_ok K SO) s ops ->
  held K d (fold_left (hstep SO) ops s) <= held K d s + hist_issuance K SO d s ops.
Proof. exact supply_history_pegged_inv. Qed.
Print Assumptions C01_every_history_mel_sym_from_invariant.

(* non-vacuity: the history of STF/Proofs/Witness5.v (a batch of two faucets and a transfer, then a sealed block
   that bootstraps the built-in pools and pays the proposer) starts in a state of the invariant and meets the step
   condition at both steps *)
Theorem C01_history_witness :
  Good2 w_state /\ hist_all w_oracle (bounds_step_ok w_K3 w_oracle) w_state w_hist /\
  hist_issuance w_K3 w_oracle Mel w_state w_hist = 1701411834604692317316873039158848057 /\
  held w_K3 Mel w_state = 1000 /\
  held w_K3 Mel (fold_left (hstep w_oracle) w_hist w_state) = 2000007989.
Proof. exact w_history_witness. Qed.
Print Assumptions C01_history_witness.

(* C01 - No value is created from nothing (conservation of every denomination).
   Pinned statements only; proofs in STF/Proofs/Supply.v, STF/Proofs/Pool.v, STF/Proofs/Coins.v.

   FULL STATEMENT wanted by the property (kept visible):
     for every accepted batch and every seal, for every denomination d,
       supply d after <= supply d before + issuance d (faucet outputs and fees off mainnet, a transaction's own
       new token, ERG of valid mints within their reward, liquidity tokens minted against deposits, the TIP-909
       subsidy, the peg nudge, the one-off bootstrap of the built-in pools).
   That inequality is evaluated by the model (Cases/Reflect.v, [supply], [batch_issuance], [seal_issuance]) on
   the real before/after states of every accepted batch and every seal of the stf stream.  What is PROVED for
   all inputs are the facts it rests on: *)
From MelVerif Require Import STF.Model STF.Proofs.MapLemmas STF.Proofs.Faucet STF.Proofs.Coins STF.Proofs.Supply STF.Proofs.Pool.
Open Scope N_scope.

(* every accepted non-faucet transaction is balanced denomination by denomination: outputs plus fee equal the
   inputs (or the denomination is only burnt); no ordinary, swap, deposit, withdrawal or stake transaction puts
   more of an existing denomination into coins and fees than it takes out of coins *)
Theorem C01_transaction_balanced : forall SO s lh relevant ns t,
  check_tx_validity SO s lh relevant ns t = Ok tt -> t_kind t <> KFaucet ->
  forall d, d <> NewCustom -> ~ (t_kind t = KDoscMint /\ d = Erg) ->
  out_sum d t = 0 \/ out_sum d t = in_sum relevant d (t_inputs t).
Proof. exact accepted_tx_balanced. Qed.
Print Assumptions C01_transaction_balanced.

(* no coin is consumed twice and every input exists: the inputs really are taken out of coins *)
Theorem C01_inputs_exist_once : forall s txs relevant,
  load_relevant_coins s txs = Ok relevant ->
  (forall t, In t txs -> well_formed t = true /\ totals_fit t = true) /\
  NoDup (all_inputs txs) /\
  (forall k, In k (all_inputs txs) -> is_Some (outputs_map s txs !! k) \/ is_Some (s_coins s !! k)) /\
  (forall k, In k (all_inputs txs) ->
     relevant !! k = match outputs_map s txs !! k with Some c => Some c | None => s_coins s !! k end) /\
  (forall k, ~ In k (all_inputs txs) -> relevant !! k = outputs_map s txs !! k).
Proof. exact load_relevant_coins_spec. Qed.
Print Assumptions C01_inputs_exist_once.

(* the coin map moves by exactly the batch's insertions and removals (C02), and the supply of a denomination
   moves by exactly the value of each inserted / removed coin *)
Theorem C01_supply_insert : forall d k c coins,
  coins !! k = None ->
  coin_supply d (<[k := c]> coins) = coin_supply d coins + (if denom_eqb (cd_denom (c_data c)) d then cd_value (c_data c) else 0).
Proof. exact coin_supply_insert_fresh. Qed.
Print Assumptions C01_supply_insert.

Theorem C01_supply_remove : forall d k c coins,
  coins !! k = Some c ->
  coin_supply d coins = coin_supply d (delete k coins) + (if denom_eqb (cd_denom (c_data c)) d then cd_value (c_data c) else 0).
Proof. exact coin_supply_delete. Qed.
Print Assumptions C01_supply_remove.

(* settlement: what a pool pays out never exceeds what the formulas allow, shares never exceed the total *)
Theorem C01_swap_pays_within_reserves : forall p l r,
  1 <= p_lefts p -> 1 <= p_rights p -> p_lefts p + l < U128 -> p_rights p + r < U128 ->
  let L' := p_lefts p + l in let R' := p_rights p + r in
  let rw := l * R' * 995 / (L' * 1000) in let lw := r * L' * 995 / (R' * 1000) in
  exists acc,
    swap_many p l r = Ok ({| p_lefts := L' - lw; p_rights := R' - rw; p_accum := acc; p_liqs := p_liqs p |}, lw, rw) /\
    1 <= L' - lw /\ 1 <= R' - rw /\
    p_lefts p * p_rights p <= (L' - lw) * (R' - rw) /\
    rw * (L' * 1000) <= l * R' * 995 /\ lw * (R' * 1000) <= r * L' * 995.
Proof. exact swap_many_spec. Qed.
Print Assumptions C01_swap_pays_within_reserves.

Theorem C01_shares_within_total : forall (vs : list N) x T,
  x < U128 -> nsum vs <= T -> nsum (map (fun v => multiply_ratio x v T) vs) <= x.
Proof. exact prorata_sum_le. Qed.
Print Assumptions C01_shares_within_total.

(* C20 - Per-covenant coin counts always equal the number of unspent coins.
   Pinned statements only; proofs in STF/Proofs/Counts.v.  [CountsOk (coins, counts)]: for every covenant hash
   h, counts has no entry when no coin is locked by h and otherwise the entry is the number of such coins. *)
From MelVerif Require Import STF.Model STF.Proofs.Coins STF.Proofs.Counts STF.Proofs.HashFacts STF.Proofs.PermAccept.
Open Scope N_scope.

(* inserting a coin keeps the invariant (a coin that overwrites one must carry the same covenant hash: pool
   settlement rewrites value and denomination only) *)
Theorem C20_insert : forall k c cn,
  CountsOk cn ->
  (forall c', fst cn !! k = Some c' -> cd_covhash (c_data c') = cd_covhash (c_data c)) ->
  CountsOk (insert_coin true k c cn).
Proof. exact insert_coin_counts_ok. Qed.
Print Assumptions C20_insert.

(* removing a coin keeps the invariant and the decrement never underflows *)
Theorem C20_remove : forall k cn, CountsOk cn -> exists r, remove_coin true k cn = Ok r /\ CountsOk r.
Proof. exact remove_coin_counts_ok. Qed.
Print Assumptions C20_remove.

(* a covenant hash with no coins has no count entry *)
Theorem C20_no_entry_without_coins : forall cn h, CountsOk cn -> count_of h (fst cn) = 0 -> snd cn !! h = None.
Proof. exact counts_no_entry_without_coins. Qed.
Print Assumptions C20_no_entry_without_coins.

(* at the activation height the counts are initialised from the existing coin set *)
Theorem C20_activation : forall coins, CountsOk (coins, tip906_transition coins ∅).
Proof. exact tip906_transition_counts_ok. Qed.
Print Assumptions C20_activation.

(* a whole accepted batch keeps the invariant when the coins it creates have fresh, distinct ids *)
Theorem C20_batch : forall SO s lh txs s' relevant,
  apply_tx_batch SO s lh txs = Ok s' -> tip_906 s = true ->
  load_relevant_coins s txs = Ok relevant ->
  CountsOk (s_coins s, s_counts s) ->
  NoDup (map fst (flat_map (tx_inserts SO relevant) txs)) ->
  (forall k, In k (map fst (flat_map (tx_inserts SO relevant) txs)) -> s_coins s !! k = None) ->
  CountsOk (s_coins s', s_counts s').
Proof. exact accepted_batch_counts_ok. Qed.
Print Assumptions C20_batch.

(* the same under the hash-oracle assumptions alone (distinct, new transaction hashes; markers are not coin ids) *)
Theorem C20_batch_hash : forall SO s lh txs s',
  apply_tx_batch SO s lh txs = Ok s' -> tip_906 s = true ->
  CountsOk (s_coins s, s_counts s) -> HashOK SO s txs ->
  CountsOk (s_coins s', s_counts s').
Proof. exact accepted_batch_counts_hash. Qed.
Print Assumptions C20_batch_hash.

(* spending alone never breaks the counts *)
Theorem C20_spend : forall txs n n',
  CountsOk (s_coins n, s_counts n) -> spend_all true txs n = Ok n' -> CountsOk (s_coins n', s_counts n').
Proof. exact spend_all_counts_ok. Qed.
Print Assumptions C20_spend.

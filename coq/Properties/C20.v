(* C20 - Per-covenant coin counts always equal the number of unspent coins.
   Pinned statements only; proofs in STF/Proofs/Counts.v.  [CountsOk (coins, counts)]: for every covenant hash
   h, counts has no entry when no coin is locked by h and otherwise the entry is the number of such coins. *)
From MelVerif Require Import STF.Model STF.Proofs.Coins STF.Proofs.Counts STF.Proofs.HashFacts STF.Proofs.PermAccept
  STF.Proofs.SealCoins STF.Proofs.SealCounts STF.Proofs.History STF.Proofs.Witness STF.Proofs.Witness5.
Open Scope N_scope.

(* inserting a coin keeps the invariant (a coin that overwrites one must carry the same covenant hash: pool
   settlement rewrites value and denomination only) *)
Theorem C20_insert : forall k c cn,
  CountsOk cn ->
  (forall c', fst cn !! k = Some c' -> cd_covhash (c_data c') = cd_covhash (c_data c)) ->
  CountsOk (insert_coin true k c cn).
Proof. exact insert_coin_counts_ok. Qed.
Print Assumptions C20_insert.

(* removing a coin keeps the invariant and the decrement never underflows *)
Theorem C20_remove : forall k cn, CountsOk cn -> exists r, remove_coin true k cn = Ok r /\ CountsOk r.
Proof. exact remove_coin_counts_ok. Qed.
Print Assumptions C20_remove.

(* a covenant hash with no coins has no count entry *)
Theorem C20_no_entry_without_coins : forall cn h, CountsOk cn -> count_of h (fst cn) = 0 -> snd cn !! h = None.
Proof. exact counts_no_entry_without_coins. Qed.
Print Assumptions C20_no_entry_without_coins.

(* at the activation height the counts are initialised from the existing coin set *)
Theorem C20_activation : forall coins, CountsOk (coins, tip906_transition coins ∅).
Proof. exact tip906_transition_counts_ok. Qed.
Print Assumptions C20_activation.

(* a whole accepted batch keeps the invariant when the coins it creates have fresh, distinct ids *)
Theorem C20_batch : forall SO s lh txs s' relevant,
  apply_tx_batch SO s lh txs = Ok s' -> tip_906 s = true ->
  load_relevant_coins s txs = Ok relevant ->
  CountsOk (s_coins s, s_counts s) ->
  NoDup (map fst (flat_map (tx_inserts SO relevant) txs)) ->
  (forall k, In k (map fst (flat_map (tx_inserts SO relevant) txs)) -> s_coins s !! k = None) ->
  CountsOk (s_coins s', s_counts s').
Proof. exact accepted_batch_counts_ok. Qed.
Print Assumptions C20_batch.

(* the same under the hash-oracle assumptions alone (distinct, new transaction hashes; markers are not coin ids) *)
Theorem C20_batch_hash : forall SO s lh txs s',
  apply_tx_batch SO s lh txs = Ok s' -> tip_906 s = true ->
  CountsOk (s_coins s, s_counts s) -> HashOK SO s txs ->
  CountsOk (s_coins s', s_counts s').
Proof. exact accepted_batch_counts_hash. Qed.
Print Assumptions C20_batch_hash.

(* spending alone never breaks the counts *)
Theorem C20_spend : forall txs n n',
  CountsOk (s_coins n, s_counts n) -> spend_all true txs n = Ok n' -> CountsOk (s_coins n', s_counts n').
Proof. exact spend_all_counts_ok. Qed.
Print Assumptions C20_spend.

(* ---- every reachable state.
   [Good s] is the invariant: transactions are filed under their own hash; the counts are right once TIP-906 is
   active and there are none before; and the coins at output ids 0 / 1 of a transaction of the current block carry
   that output's covenant hash (so that the Melswap rewrite of a request output moves no count).  Spelled out: *)
Theorem C20_invariant_def : forall s,
  Good s <->
  (forall h t, s_txs s !! h = Some t -> t_hash t = h) /\
  (if tip_906 s then CountsOk (s_coins s, s_counts s) else s_counts s = ∅) /\
  (forall t, In t (sorted_txs s) ->
     (forall c, s_coins s !! coin_key (t_hash t) 0 = Some c -> cd_covhash (c_data c) = cd_covhash (out0 t)) /\
     (forall c, s_coins s !! coin_key (t_hash t) 1 = Some c ->
        cd_covhash (c_data c) = if N.of_nat (length (t_outputs t)) =? 1 then cd_covhash (out0 t) else cd_covhash (out1 t))).
Proof. exact good_def. Qed.
Print Assumptions C20_invariant_def.

(* a history: batches (a rejected batch leaves the state alone) and block boundaries (seal, then next_unsealed) *)
Theorem C20_history_step_def : forall SO s o,
  hstep SO s o =
  match o with
  | HBatch lh txs => match apply_tx_batch SO s lh txs with Ok s' => s' | _ => s end
  | HBlock a hdr => match seal SO s a with Ok s' => next_unsealed s' hdr | _ => s end
  end.
Proof. exact hstep_def. Qed.
Print Assumptions C20_history_step_def.

(* the hash-oracle assumptions of a history, each about the state its step is applied to: the batch assumptions
   [HashOK]; a faucet marker is not the hash of a transaction filed earlier in the block; and the
   proposer-reward coin id is new *)
Theorem C20_history_assumptions_def : forall SO s ops,
  hist_ok SO s ops <->
  match ops with
  | [] => True
  | o :: r =>
    match o with
    | HBatch lh txs => HashOK SO s txs /\
        forall t t', In t txs -> In t' (sorted_txs s) -> so_faucet_marker SO (t_hash t) <> t_hash t'
    | HBlock a hdr => a <> None ->
        s_coins s !! coin_key (so_reward_id SO (s_height s)) 0 = None /\
        forall t, In t (sorted_txs s) -> so_reward_id SO (s_height s) <> t_hash t
    end /\ hist_ok SO (hstep SO s o) r
  end.
Proof. exact hist_ok_def. Qed.
Print Assumptions C20_history_assumptions_def.

(* the genesis state (one coin, inserted under the rule of its network) satisfies the invariant *)
Theorem C20_genesis : forall net c fee_pool mult stakes, Good (genesis net c fee_pool mult stakes).
Proof. exact genesis_good. Qed.
Print Assumptions C20_genesis.

(* one accepted batch, one seal, one block boundary *)
Theorem C20_batch_keeps_invariant : forall SO s lh txs s',
  apply_tx_batch SO s lh txs = Ok s' -> HashOK SO s txs ->
  (forall t t', In t txs -> In t' (sorted_txs s) -> so_faucet_marker SO (t_hash t) <> t_hash t') ->
  Good s -> Good s'.
Proof. exact batch_good. Qed.
Print Assumptions C20_batch_keeps_invariant.

Theorem C20_seal : forall SO s a s',
  Good s -> seal SO s a = Ok s' ->
  (a <> None -> s_coins s !! coin_key (so_reward_id SO (s_height s)) 0 = None /\
                forall t, In t (sorted_txs s) -> so_reward_id SO (s_height s) <> t_hash t) ->
  (if tip_906 s' then CountsOk (s_coins s', s_counts s') else s_counts s' = ∅) /\
  (forall h t, s_txs s' !! h = Some t -> t_hash t = h).
Proof. exact seal_counts. Qed.
Print Assumptions C20_seal.

Theorem C20_next_block : forall s hdr,
  (if tip_906 s then CountsOk (s_coins s, s_counts s) else s_counts s = ∅) -> Good (next_unsealed s hdr).
Proof. exact next_unsealed_good. Qed.
Print Assumptions C20_next_block.

(* C20: in every state of every history from a Good state, the count of every covenant hash is the number of
   unspent coins it locks, and a hash that locks none has no entry *)
Theorem C20_every_reachable_state : forall SO ops s h,
  Good s -> hist_ok SO s ops -> tip_906 (fold_left (hstep SO) ops s) = true ->
  coin_count (s_counts (fold_left (hstep SO) ops s)) h = count_of h (s_coins (fold_left (hstep SO) ops s)) /\
  (count_of h (s_coins (fold_left (hstep SO) ops s)) = 0 -> s_counts (fold_left (hstep SO) ops s) !! h = None).
Proof. exact history_counts. Qed.
Print Assumptions C20_every_reachable_state.

(* ... and in the sealed state of every block of every history *)
Theorem C20_every_sealed_state : forall SO ops s a sealed h,
  Good s -> hist_ok SO s ops -> seal SO (fold_left (hstep SO) ops s) a = Ok sealed ->
  (a <> None -> reward_fresh SO (fold_left (hstep SO) ops s)) -> tip_906 sealed = true ->
  coin_count (s_counts sealed) h = count_of h (s_coins sealed).
Proof. exact history_sealed_counts. Qed.
Print Assumptions C20_every_sealed_state.

(* before the activation height no count exists *)
Theorem C20_no_counts_before_activation : forall SO ops s,
  Good s -> hist_ok SO s ops -> tip_906 (fold_left (hstep SO) ops s) = false -> s_counts (fold_left (hstep SO) ops s) = ∅.
Proof. exact history_no_counts_before_activation. Qed.
Print Assumptions C20_no_counts_before_activation.

(* non-vacuity: a concrete history (three transactions, then a block sealed with a proposer action) from a Good
   state meets every step assumption and really runs *)
Example C20_history_witness :
  Good w_state /\ hist_ok w_oracle w_state w_hist /\
  s_height (fold_left (hstep w_oracle) w_hist w_state) = 6 /\ tip_906 (fold_left (hstep w_oracle) w_hist w_state) = true.
Proof. split; [exact w_state_good|]. split; [exact w_hist_ok|exact w_hist_runs]. Qed.

(* C12 - Covenant bytecode encoding is a bijection, so an address names one program.
   This file contains only the pinned statements; proofs are in VM/CodecProofs.v. *)
From MelVerif Require Import Base.Arith VM.Op Generated VM.Codec VM.Weight VM.CodecProofs.

(* decoding any byte string either fails or yields a program that re-encodes to exactly the same bytes
   (so the whole input was consumed), and every decoded operand is in range *)
Theorem C12_decode_then_encode : forall bs ops,
  bytes_ok bs -> decode_all bs = Some ops -> encode_all ops = Some bs /\ Forall wf_op ops.
Proof. exact decode_then_encode. Qed.
Print Assumptions C12_decode_then_encode.

(* encoding any representable program and decoding it returns the same program *)
Theorem C12_encode_then_decode : forall ops bs,
  Forall wf_op ops -> encode_all ops = Some bs -> decode_all bs = Some ops.
Proof. exact encode_then_decode. Qed.
Print Assumptions C12_encode_then_decode.

(* the only unrepresentable instruction is a PushB literal longer than 255 bytes *)
Theorem C12_encode_total : forall o,
  wf_op o -> encode_op o = None <-> exists bs, o = PushB bs /\ (255 < length bs)%nat.
Proof. exact encode_op_total. Qed.
Print Assumptions C12_encode_total.

(* encodings are byte strings *)
Theorem C12_encode_bytes : forall ops bs,
  Forall wf_op ops -> encode_all ops = Some bs -> bytes_ok bs.
Proof. exact encode_all_bytes_ok. Qed.
Print Assumptions C12_encode_bytes.

(* two byte strings that denote the same program are equal: a covenant hash names one program *)
Theorem C12_one_program_per_bytes : forall b1 b2 ops,
  bytes_ok b1 -> bytes_ok b2 -> decode_all b1 = Some ops -> decode_all b2 = Some ops -> b1 = b2.
Proof. exact decode_all_inj. Qed.
Print Assumptions C12_one_program_per_bytes.

(* non-vacuity: the standard signature covenant shape round-trips *)
Example C12_example :
  let ops := [LoadImm 9; PushI 6; LoadImm 0; VRef; VRef; PushB [1;2;3]; LoadImm 1; SigEOk 32; PushIC 0; PushIC 256; Loop 3 1; Exp 255] in
  Forall wf_op ops /\ exists bs, encode_all ops = Some bs /\ decode_all bs = Some ops.
Proof.
  split.
  - repeat constructor.
  - eexists. split; [vm_compute; reflexivity|vm_compute; reflexivity].
Qed.

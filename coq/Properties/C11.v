(* C11 - Covenant cost is bounded by what is paid for: terminates within its weight.
   Pinned statements only; proofs in VM/LoopAbstract.v, VM/LoopProofs.v, VM/CostProofs.v. *)
From MelVerif Require Import Base.Arith VM.Op Generated VM.Weight VM.Exec VM.LoopProofs VM.CostProofs.
Open Scope N_scope.

(* every covenant terminates: for every oracle, program and heap the interpreter halts within the fuel
   weightZ prog + 2 that [run] supplies *)
Theorem C11_terminates : forall O prog h, run O prog h <> OutOfFuel.
Proof. exact run_never_out_of_fuel. Qed.
Print Assumptions C11_terminates.

(* the number of executed instructions (a final failing instruction included) never exceeds the weight *)
Theorem C11_steps_le_weight : forall O prog h r n,
  run O prog h = Finished r n -> n <= weightZ prog.
Proof. exact run_steps_le_weight. Qed.
Print Assumptions C11_steps_le_weight.

(* ... also for every finite prefix of an execution *)
Theorem C11_prefix : forall O prog h k s n,
  run_nat O prog k (init_state h) 0 = Cont s n -> n = N.of_nat k /\ n <= weightZ prog.
Proof. exact steps_le_weight. Qed.
Print Assumptions C11_prefix.

(* the charged weight (saturating u128) is the exact weight capped at u128::MAX *)
Theorem C11_charged_weight : forall prog, weight prog = N.min (weightZ prog) MAX128.
Proof. exact weight_is_saturated. Qed.
Print Assumptions C11_charged_weight.

Theorem C11_steps_le_charged_weight : forall O prog h r n,
  weightZ prog <= MAX128 -> run O prog h = Finished r n -> n <= weight prog.
Proof. exact run_steps_le_charged_weight. Qed.
Print Assumptions C11_steps_le_charged_weight.

(* cost of weighing.  Full statement wanted by the property (polynomial weigh cost):
     forall prog, weight_calls prog <= c * (length prog)^2
   It is FALSE of the faithful model (finding F12): *)
Theorem C11_weigh_cost_refuted : forall k, N.of_nat k <= 65535 ->
  2 ^ N.of_nat k - 1 <= weight_calls (tower k).
Proof. exact weigh_exponential. Qed.
Print Assumptions C11_weigh_cost_refuted.

(* proved part: linear outside the known class (at most one Loop opcode) *)
Theorem C11_weigh_cost_partial : forall ops k, (count_loops ops <= 1)%nat ->
  weight_work ops k <= 2 * N.of_nat k + 1.
Proof. exact weigh_linear_one_loop. Qed.
Print Assumptions C11_weigh_cost_partial.

(* non-vacuity: a nested loop program runs to completion with its step count below its weight *)
Example C11_example :
  let O := {| o_hash := fun b => b; o_sig := fun _ _ _ => false |} in
  let prog := [PushI 0; StoreImm 0; Loop 3 5; Loop 4 4; LoadImm 0; PushI 1; Add; StoreImm 0; LoadImm 0] in
  run O prog [] = Finished (Some (VInt 12)) 55 /\ weight prog = 274.
Proof. vm_compute. split; reflexivity. Qed.

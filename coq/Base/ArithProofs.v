From MelVerif Require Import Base.Arith.
Open Scope N_scope.

Arguments N.add : simpl never.
Arguments N.mul : simpl never.
Arguments N.div : simpl never.
Arguments N.modulo : simpl never.
Arguments N.pow : simpl never.

Lemma bytes_okb_ok bs : bytes_okb bs = true <-> bytes_ok bs.
Proof.
  unfold bytes_okb, bytes_ok. rewrite forallb_forall, Forall_forall.
  split; intros H x Hx; specialize (H x Hx); [apply N.ltb_lt in H|apply N.ltb_lt]; exact H.
Qed.

Lemma bytes_ok_app a b : bytes_ok (a ++ b) <-> bytes_ok a /\ bytes_ok b.
Proof. unfold bytes_ok. apply Forall_app. Qed.

Lemma bytes_ok_cons a b : bytes_ok (a :: b) <-> a < 256 /\ bytes_ok b.
Proof. unfold bytes_ok. split; [intros H; inversion H; auto|intros [? ?]; constructor; auto]. Qed.

Lemma bytes_ok_firstn n bs : bytes_ok bs -> bytes_ok (firstn n bs).
Proof. intros H. rewrite <- (firstn_skipn n bs) in H. apply bytes_ok_app in H. tauto. Qed.

Lemma bytes_ok_skipn n bs : bytes_ok bs -> bytes_ok (skipn n bs).
Proof. intros H. rewrite <- (firstn_skipn n bs) in H. apply bytes_ok_app in H. tauto. Qed.

Lemma be_bytes_length n x : length (be_bytes n x) = n.
Proof. revert x. induction n as [|n IH]; intros x; cbn [be_bytes]; [reflexivity|].
  rewrite app_length, IH. cbn. lia. Qed.

Lemma be_bytes_ok n x : bytes_ok (be_bytes n x).
Proof. revert x. induction n as [|n IH]; intros x; cbn [be_bytes]; [constructor|].
  apply bytes_ok_app. split; [apply IH|]. constructor; [|constructor].
  apply N.mod_lt. discriminate. Qed.

Lemma of_be_app a b : of_be (a ++ b) = of_be a * 256 ^ N.of_nat (length b) + of_be b.
Proof.
  unfold of_be. rewrite fold_left_app.
  generalize (fold_left (fun acc b0 : N => acc * 256 + b0) a 0). revert a.
  induction b as [|x b IH]; intros a acc.
  - cbn. rewrite N.pow_0_r. lia.
  - cbn [fold_left length]. rewrite IH by exact a.
    rewrite (IH a (0 * 256 + x)).
    rewrite Nat2N.inj_succ, N.pow_succ_r'. lia.
Qed.

Lemma of_be_single x : of_be [x] = x.
Proof. unfold of_be. cbn. lia. Qed.

Lemma of_be_be_bytes n x : of_be (be_bytes n x) = x mod 256 ^ N.of_nat n.
Proof.
  revert x. induction n as [|n IH]; intros x; cbn [be_bytes].
  - cbn. rewrite N.mod_1_r. reflexivity.
  - rewrite of_be_app, IH, of_be_single. cbn [length].
    change (N.of_nat 1) with 1.
    rewrite Nat2N.inj_succ, N.pow_succ_r', N.pow_1_r.
    assert (H256: 256 <> 0) by discriminate.
    assert (Hp: 256 ^ N.of_nat n <> 0) by (apply N.pow_nonzero; discriminate).
    rewrite N.mod_mul_r by assumption. lia.
Qed.

Lemma of_be_lt bs : bytes_ok bs -> of_be bs < 256 ^ N.of_nat (length bs).
Proof.
  induction bs as [|b bs IH] using rev_ind; intros H.
  - cbn. lia.
  - apply bytes_ok_app in H as [H1 H2]. apply bytes_ok_cons in H2 as [H2 _].
    rewrite of_be_app, of_be_single, app_length. cbn [length].
    change (N.of_nat 1) with 1. rewrite N.pow_1_r. specialize (IH H1).
    replace (N.of_nat (length bs + 1)) with (N.succ (N.of_nat (length bs))) by lia.
    rewrite N.pow_succ_r'. lia.
Qed.

Lemma be_bytes_of_be bs : bytes_ok bs -> be_bytes (length bs) (of_be bs) = bs.
Proof.
  induction bs as [|b bs IH] using rev_ind; intros H.
  - reflexivity.
  - apply bytes_ok_app in H as [H1 H2]. apply bytes_ok_cons in H2 as [H2 _].
    rewrite app_length. cbn [length]. replace (length bs + 1)%nat with (S (length bs)) by lia.
    cbn [be_bytes]. rewrite of_be_app, of_be_single. cbn [length].
    change (N.of_nat 1) with 1. rewrite N.pow_1_r.
    assert (Hd: (of_be bs * 256 + b) / 256 = of_be bs).
    { rewrite N.add_comm, N.div_add by discriminate. rewrite N.div_small by exact H2. lia. }
    assert (Hm: (of_be bs * 256 + b) mod 256 = b).
    { rewrite N.add_comm, N.mod_add by discriminate. apply N.mod_small. exact H2. }
    rewrite Hd, Hm.
    rewrite IH by exact H1. reflexivity.
Qed.

Lemma firstn_skipn_app {A} n (l : list A) : firstn n l ++ skipn n l = l.
Proof. apply firstn_skipn. Qed.

(* Fixed-width arithmetic primitives mirroring the Rust operators used in melstf / melvm.
   Definitions only; proofs live in ArithProofs.v. *)
From Coq Require Export List NArith ZArith Lia Bool.
Export ListNotations.
Open Scope N_scope.

Definition U8  : N := 256.
Definition U16 : N := 65536.
Definition U32 : N := 4294967296.
Definition U64 : N := 18446744073709551616.
Definition U128 : N := 340282366920938463463374607431768211456.
Definition U256 : N := 115792089237316195423570985008687907853269984665640564039457584007913129639936.
Definition MAX128 : N := U128 - 1.

(* u128::saturating_add / saturating_mul / saturating_sub *)
Definition sat_add128 (a b : N) : N := N.min (a + b) MAX128.
Definition sat_mul128 (a b : N) : N := N.min (a * b) MAX128.
Definition sat_sub128 (a b : N) : N := a - b.   (* N subtraction truncates at 0 *)

(* U256 wrapping operations (overflowing_*().0) *)
Definition wadd256 (a b : N) : N := (a + b) mod U256.
Definition wsub256 (a b : N) : N := (a + U256 - b mod U256) mod U256.
Definition wmul256 (a b : N) : N := (a * b) mod U256.

(* outcome of an implementation call: a normal value, a rejection (StateError), or a Rust panic *)
Inductive outcome (E A : Type) :=
| Ok (a : A)
| Reject (e : E)
| Panic (tag : N).
Arguments Ok {E A} a.
Arguments Reject {E A} e.
Arguments Panic {E A} tag.

Definition obind {E A B} (x : outcome E A) (f : A -> outcome E B) : outcome E B :=
  match x with Ok a => f a | Reject e => Reject e | Panic t => Panic t end.
Notation "x <- e ;; k" := (obind e (fun x => k)) (at level 100, e at next level, right associativity).

(* checked u128 arithmetic as compiled in the debug profile (overflow = panic) *)
Definition add128 {E} (tag a b : N) : outcome E N :=
  if a + b <? U128 then Ok (a + b) else Panic tag.
Definition sub128 {E} (tag a b : N) : outcome E N :=
  if b <=? a then Ok (a - b) else Panic tag.

Fixpoint be_bytes (n : nat) (x : N) : list N :=   (* x as n big-endian bytes (x mod 256^n) *)
  match n with
  | O => []
  | S n' => be_bytes n' (x / 256) ++ [x mod 256]
  end.

Definition of_be (bs : list N) : N := fold_left (fun acc b => acc * 256 + b) bs 0.

Definition bytes_ok (bs : list N) : Prop := Forall (fun b => b < 256) bs.
Definition bytes_okb (bs : list N) : bool := forallb (fun b => b <? 256) bs.

(* Correspondence check for the state-transition function: scenarios recorded on the implementation
   (operations, oracle answers, full state dumps) are replayed step by step on the model. *)
From MelVerif Require Export STF.Model Cases.Lib.
Open Scope N_scope.

Record sdump := {
  d_network : N; d_height : N;
  d_history : list (N * header);
  d_coins : list (N * cdh);
  d_counts : list (N * N);
  d_txs : list tx;
  d_fee_pool : N; d_mult : N; d_tips : N; d_speed : N;
  d_pools : list (N * pool);
  d_stakes : list (N * stakedoc)
}.

Definition state_of (d : sdump) : wstate :=
  {| s_network := d_network d; s_height := d_height d;
     s_history := list_to_map (d_history d);
     s_coins := list_to_map (d_coins d);
     s_counts := list_to_map (d_counts d);
     s_txs := list_to_map (map (fun t => (t_hash t, t)) (d_txs d));
     s_fee_pool := d_fee_pool d; s_fee_mult := d_mult d; s_tips := d_tips d; s_dosc_speed := d_speed d;
     s_pools := list_to_map (d_pools d);
     s_stakes := list_to_map (d_stakes d) |}.

Definition coindata_eqb (a b : coindata) : bool :=
  (cd_covhash a =? cd_covhash b) && (cd_value a =? cd_value b) && denom_eqb (cd_denom a) (cd_denom b)
  && bytes_eqb (cd_extra a) (cd_extra b).
Definition cdh_eqb (a b : cdh) : bool := coindata_eqb (c_data a) (c_data b) && (c_height a =? c_height b).
Definition pool_eqb (a b : pool) : bool :=
  (p_lefts a =? p_lefts b) && (p_rights a =? p_rights b) && (p_accum a =? p_accum b) && (p_liqs a =? p_liqs b).
Definition stakedoc_eqb (a b : stakedoc) : bool :=
  (sd_pubkey a =? sd_pubkey b) && (sd_start a =? sd_start b) && (sd_postend a =? sd_postend b) && (sd_staked a =? sd_staked b).
Definition header_eqb (a b : header) : bool := bool_decide (a = b).

(* a gmap equals the map denoted by a duplicate-free association list *)
Definition map_matches {A} (eqb : A -> A -> bool) (m : gmap N A) (l : list (N * A)) : bool :=
  (N.of_nat (size m) =? N.of_nat (length l))
  && forallb (fun kv => match m !! fst kv with Some v => eqb v (snd kv) | None => false end) l.

(* bit mask of the components in which the model state differs from the dump *)
Definition state_diff (s : wstate) (d : sdump) : N :=
  bit ((s_network s =? d_network d) && (s_height s =? d_height d)) 1
  + bit (map_matches cdh_eqb (s_coins s) (d_coins d)) 2
  + bit (map_matches N.eqb (s_counts s) (d_counts d)) 4
  + bit (map_matches pool_eqb (s_pools s) (d_pools d)) 8
  + bit (map_matches stakedoc_eqb (s_stakes s) (d_stakes d)) 16
  + bit (map_matches header_eqb (s_history s) (d_history d)) 32
  + bit (map_matches (fun a b => t_hash a =? t_hash b) (s_txs s) (map (fun t => (t_hash t, t)) (d_txs d))) 64
  + bit ((s_fee_pool s =? d_fee_pool d) && (s_tips s =? d_tips d)) 128
  + bit ((s_fee_mult s =? d_mult d) && (s_dosc_speed s =? d_speed d)) 256.

Inductive sop :=
| OpBatch (txs : list tx) (R0 : roots)
| OpSeal (a : option action) (R : roots) (hdr : option header)     (* hdr: SealedState::header() *)
| OpNext (hdr : header)
| OpApplyBlock (parent_hdr blk_hdr : header) (txs : list tx) (a : option action) (R : roots)
| OpRestart (blk_hdr : header) (txs : list tx)
| OpConfirm (hdr_hash : N) (proof : list (N * list N)) (confirmed : bool)
| OpVotes (epoch : N) (key_votes : list (N * N)) (total : N)          (* StakeSet::votes / total_votes as observed *)
| OpJump.                                                            (* fabricated state: resynchronise only *)

Record sstep := {
  st_op : sop;
  st_code : N;            (* 0 = Ok, StateError code, 100 = panic *)
  st_post : sdump         (* the implementation's state after the operation *)
}.

Record otables := {
  ot_hashes : list (list N * list N);
  ot_sigs : list ((list N * list N * list N) * bool);
  ot_reward : list (N * N);
  ot_marker : list (N * N);
  ot_liq : list (N * N);
  ot_hdr : list (header * N);
  ot_melpow : list ((N * N * N * N) * N);
  ot_ed : list ((N * N * list N) * bool);
  (* the wallet's signature covenants: (new-style?, public key bytes, covenant bytes as built by
     Covenant::std_ed25519_pk_new / _legacy) - ties the op lists of STF/Proofs/StdCovenant.v to the code *)
  ot_std : list (bool * (list N * list N))
}.

Definition look {A} (eqb : A -> A -> bool) (k : A) (l : list (A * N)) (dflt : N) : N :=
  match assoc eqb k l with Some v => v | None => dflt end.

(* a missing entry answers with a value the implementation never produces, so it shows up as a difference *)
Definition MISSING : N := 2 ^ 300.

Definition mk_so (t : otables) : stf_oracle :=
  {| so_vm := mk_oracle (ot_hashes t) (ot_sigs t);
     so_reward_id := fun h => look N.eqb h (ot_reward t) MISSING;
     so_faucet_marker := fun h => look N.eqb h (ot_marker t) MISSING;
     so_liq_denom := fun c => look N.eqb c (ot_liq t) MISSING;
     so_header_hash := fun h => look header_eqb h (ot_hdr t) MISSING;
     so_melpow := fun pid seed ck d =>
       match look (fun a b => let '(a1, a2, a3, a4) := a in let '(b1, b2, b3, b4) := b in
                        (a1 =? b1) && (a2 =? b2) && (a3 =? b3) && (a4 =? b4)) (pid, seed, ck, d) (ot_melpow t) 0 with
       | 1 => VLegacy | 2 => VTip910 | _ => VInvalid end;
     so_ed25519 := fun k m sg =>
       match assoc (fun a b => let '(a1, a2, a3) := a in let '(b1, b2, b3) := b in
                                (a1 =? b1) && (a2 =? b2) && bytes_eqb a3 b3) (k, m, sg) (ot_ed t) with
       | Some r => r | None => false end |}.

Definition code_of {A} (r : res A) : N :=
  match r with Ok _ => 0 | Reject e => err_code e | Panic _ => 100 end.

(* result code agreement; for batches any error the parallel phases can produce is accepted *)
Definition code_ok (SO : stf_oracle) (s : wstate) (op : sop) (model real : N) : bool :=
  (model =? real) ||
  match op with
  | OpBatch txs R0 =>
    match last_header_for SO (fun _ => R0) s with
    | Ok lh => existsb (N.eqb real) (parallel_errors SO s lh txs)
    | _ => false
    end
  | _ => false
  end.

(* one step: (difference mask, next model state) *)
Definition run_step (SO : stf_oracle) (s : wstate) (st : sstep) : N * wstate :=
  let d := st_post st in
  let fin (r : res wstate) (extra : N) :=
    match r with
    | Ok s' => if st_code st =? 0 then (state_diff s' d + extra, state_of d) else (512, state_of d)
    | _ => (bit (code_ok SO s (st_op st) (code_of r) (st_code st)) 512 + extra,
            if st_code st =? 0 then state_of d else s)
    end in
  match st_op st with
  | OpBatch txs R0 => fin (apply_batch SO (fun _ => R0) s txs) 0
  | OpSeal a R hdr =>
    let r := seal SO s a in
    let hd := match r, hdr with
              | Ok s', Some h => match header_of SO R s' with
                                 | Ok h' => bit (header_eqb h h') 1024
                                 | _ => 1024 end
              | _, _ => 0 end in
    fin r hd
  | OpNext hdr => fin (Ok (next_unsealed s hdr)) 0
  | OpApplyBlock ph bh txs a R => fin (apply_block SO (fun _ => R) s ph bh txs a) 0
  | OpRestart bh txs =>
    fin (Ok (from_block bh txs (s_history s) (s_coins s) (s_counts s) (s_pools s) (s_stakes s))) 0
  | OpConfirm hh proof c => (bit (Bool.eqb (confirm SO s hh proof) c) 2048, s)
  | OpVotes e kvs tot =>
    (bit (forallb (fun '(k, v) => votes (s_stakes s) e k =? v) kvs && (total_votes (s_stakes s) e =? tot)) 16, s)
  | OpJump => (0, state_of d)
  end.

Fixpoint run_steps (SO : stf_oracle) (s : wstate) (i : N) (l : list sstep) : list (N * N) :=
  match l with
  | [] => []
  | st :: r =>
    let '(c, s') := run_step SO s st in
    (if c =? 0 then [] else [(i, c)]) ++ run_steps SO s' (i + 1) r
  end.

Record scenario := { sc_tables : otables; sc_init : sdump; sc_steps : list sstep }.

Definition run_scenario (k : N) (sc : scenario) : list (N * N) :=
  map (fun p => (k * 1000 + fst p, snd p)) (run_steps (mk_so (sc_tables sc)) (state_of (sc_init sc)) 0 (sc_steps sc)).

Fixpoint run_scenarios (k : N) (l : list scenario) : list (N * N) :=
  match l with
  | [] => []
  | sc :: r => run_scenario k sc ++ run_scenarios (k + 1) r
  end.

(* Correspondence of the Merkle model (Merkle/Smt.v) with novasmt: roots and proofs of small real trees are
   recomputed by the model, the two hash functions being answered from tables of the real evaluations. *)
From MelVerif Require Export Merkle.Smt Cases.Lib.
Open Scope N_scope.

Record mcase := {
  mc_entries : list (N * list N);          (* key (256-bit number), value bytes *)
  mc_root : N;                             (* Tree::root_hash *)
  mc_hdata : list (list N * N);            (* hash_data evaluations *)
  mc_hnode : list ((N * N) * N);           (* hash_node evaluations *)
  mc_proofs : list (N * list N * list N * bool)   (* key, value ([] = absent), FullProof siblings (top first), FullProof::verify *)
}.

Definition key_bits (k : N) : list bool := map (fun i => N.testbit k (255 - N.of_nat i)) (seq 0 256).

Definition MISSING : N := 2 ^ 300.
Definition hd_t (c : mcase) (v : list N) : N :=
  match v with
  | [] => 0
  | _ => match assoc bytes_eqb v (mc_hdata c) with Some h => h | None => MISSING end
  end.
Definition hn_t (c : mcase) (a b : N) : N :=
  if (a =? 0) && (b =? 0) then 0
  else match assoc (fun x y => (fst x =? fst y) && (snd x =? snd y)) (a, b) (mc_hnode c) with
       | Some h => h | None => MISSING + 1 end.

Definition check_merkle (c : mcase) : N :=
  let entries := map (fun kv => (key_bits (fst kv), snd kv)) (mc_entries c) in
  bit (sroot N 0 (hd_t c) (hn_t c) 256 entries =? mc_root c) 1
  + bit (forallb (fun p => let '(k, v, sibs, ok) := p in
                           Bool.eqb (climb N (hn_t c) sibs (key_bits k) (hd_t c v) =? mc_root c) ok) (mc_proofs c)) 2.

(* ---- dense trees (Merkle/Dense.v against novasmt::dense) *)
From MelVerif Require Import Merkle.Dense.

Record dcase := {
  dc_blocks : list (list N);
  dc_root : N;                                  (* DenseMerkleTree::root_hash *)
  dc_hdata : list (list N * N);
  dc_hnode : list ((N * N) * N);
  dc_proofs : list (N * list N * list N * bool) (* index, leaf data, DenseMerkleTree::proof (bottom first), verify_dense *)
}.

Definition dhd (c : dcase) (v : list N) : N :=
  match v with [] => 0 | _ => match assoc bytes_eqb v (dc_hdata c) with Some h => h | None => MISSING end end.
Definition dhn (c : dcase) (a b : N) : N :=
  if (a =? 0) && (b =? 0) then 0
  else match assoc (fun x y => (fst x =? fst y) && (snd x =? snd y)) (a, b) (dc_hnode c) with
       | Some h => h | None => MISSING + 1 end.

(* smallest k with 2^k >= n (next_power_of_two) *)
Fixpoint log2_up_fuel (fuel : nat) (k : nat) (n : nat) : nat :=
  match fuel with O => k | S f => if Nat.leb n (2 ^ k) then k else log2_up_fuel f (S k) n end.
Definition depth_for (n : nat) : nat := log2_up_fuel 64 0 n.

Definition check_dense (c : dcase) : N :=
  let blocks := dc_blocks c in
  let k := depth_for (length blocks) in
  bit (dense_root N 0 (dhd c) (dhn c) k blocks =? dc_root c) 1
  + bit (forallb (fun p => let '(i, v, pr, ok) := p in
           Bool.eqb (dense_climb N (dhn c) pr (N.to_nat i) (dhd c v) =? dc_root c) ok) (dc_proofs c)) 2
  + bit (forallb (fun p => let '(i, v, pr, ok) := p in
           negb ok || list_eqb N.eqb pr (dense_proof N (dhd c) (dhn c) k blocks (N.to_nat i))) (dc_proofs c)) 4.

(* Boolean reflections of the properties, evaluated on what the implementation actually did:
   (real state before, operation, real result code, real state after).  Search support for locating a
   concrete failing input when a proof obligation or the correspondence breaks; never a proof. *)
From MelVerif Require Export Cases.StfLib.
From MelVerif Require Import STF.Proofs.Supply STF.Proofs.BatchSupply STF.Proofs.StdCovenant STF.Proofs.SealSupply STF.Proofs.SealLift.
Open Scope N_scope.

(* ---------------------------------------------------------------- supply (C01) *)
Fixpoint code_bytes_go (fuel : nat) (c : N) (acc : list N) : list N :=
  match fuel with
  | O => acc
  | S f => if c <=? 1 then acc else code_bytes_go f (c / 256) (c mod 256 :: acc)
  end.
Definition code_bytes (c : N) : list N := code_bytes_go 200 c [].

Definition denom_unser (b : list N) : option (denom * list N) :=
  match b with
  | n :: r => match denom_of_bytes (firstn (N.to_nat n) r) with
              | Some d => if N.of_nat (length r) <? n then None else Some (d, skipn (N.to_nat n) r)
              | None => None end
  | [] => None
  end.

(* the two denominations a pool entry stands for, read off its key bytes (PoolKey::from_bytes) *)
Definition pool_sides (code : N) : option (denom * denom) :=
  let b := code_bytes code in
  if 32 <? N.of_nat (length b) then
    if forallb (N.eqb 0) (firstn 32 b) then
      match denom_unser (skipn 32 b) with
      | Some (l, r) => match denom_unser r with Some (r', []) => Some (l, r') | _ => None end
      | None => None
      end
    else None
  else match denom_of_bytes b with
       | Some d => if denom_eqb d Mel then None else Some (poolkey_new Mel d)
       | None => None
       end.

(* [coin_supply] is the definition the theorems are stated with (STF/Proofs/Supply.v) *)
Definition pool_supply (d : denom) (pools : gmap N pool) : N :=
  map_fold (fun k p acc =>
    match pool_sides k with
    | Some (l, r) => acc + (if denom_eqb l d then p_lefts p else 0) + (if denom_eqb r d then p_rights p else 0)
    | None => acc
    end) 0 pools.
Definition supply (d : denom) (s : wstate) : N :=
  coin_supply d (s_coins s) + pool_supply d (s_pools s)
  + (if denom_eqb d Mel then s_fee_pool s + s_tips s else 0).

Definition add_denom (d : denom) (l : list denom) : list denom :=
  if existsb (denom_eqb d) l then l else d :: l.
Definition state_denoms (s : wstate) (acc : list denom) : list denom :=
  let acc := map_fold (fun _ c acc => add_denom (cd_denom (c_data c)) acc) acc (s_coins s) in
  map_fold (fun k _ acc => match pool_sides k with Some (l, r) => add_denom l (add_denom r acc) | None => acc end) acc (s_pools s).
Definition tx_denoms (txs : list tx) (acc : list denom) : list denom :=
  fold_left (fun acc t => fold_left (fun acc o => add_denom (fix_denom t (cd_denom o)) acc) (t_outputs t) acc) txs acc.

(* the explicit issuance of a batch is [batch_issuance] of STF/Proofs/BatchSupply.v, the one C01_batch_supply is stated with *)

(* explicit issuance at seal, computed with the model from the real pre-state: built-in pool bootstrap,
   liquidity tokens against deposits, the peg nudge and the TIP-909 subsidy *)
Definition grow (d : denom) (a b : wstate) : N := supply d b - supply d a.
Definition liq_minted (SO : stf_oracle) (d : denom) (a b : wstate) : N :=
  map_fold (fun k p acc =>
    if denom_eqb d (Custom (so_liq_denom SO k))
    then acc + (p_liqs p - match s_pools a !! k with Some q => p_liqs q | None => 0 end) else acc) 0 (s_pools b).
Definition seal_issuance (SO : stf_oracle) (d : denom) (s : wstate) : N :=
  let s1 := create_builtins s in
  match process_swaps s1 with
  | Ok s2 =>
    match process_deposits SO s2 with
    | Ok s3 =>
      match process_withdrawals SO s3 with
      | Ok s4 =>
        match process_pegging s4 with
        | Ok s5 =>
          grow d s s1 + liq_minted SO d s2 s3 + grow d s4 s5
          + (if tip_909 s5 then match apply_tip_909 s5 with Ok s6 => grow d s5 s6 | _ => 0 end else 0)
        | _ => 0 end
      | _ => 0 end
    | _ => 0 end
  | _ => 0 end.

(* ---------------------------------------------------------------- UTXO spec (C02) *)
Definition created_coins (height : N) (txs : list tx) : gmap N cdh :=
  fold_left (fun m t => fold_left (fun m kv => <[fst kv := snd kv]> m) (output_coins height t) m) txs ∅.

Definition utxo_spec (SO : stf_oracle) (pre : wstate) (txs : list tx) : gmap N cdh :=
  let m := created_coins (s_height pre) txs ∪ s_coins pre in
  let m := fold_left (fun m k => delete k m) (all_inputs txs) m in
  fold_left (fun m t =>
    if txkind_eqb (t_kind t) KFaucet && negb (is_bug_tx t)
    then <[coin_key (so_faucet_marker SO (t_hash t)) 0 := marker_coin]> m else m) txs m.

Definition gmap_eqb {A} (eqb : A -> A -> bool) (a b : gmap N A) : bool :=
  map_matches eqb a (map_to_list b).

Fixpoint nodupb (l : list N) : bool :=
  match l with [] => true | x :: r => negb (existsb (N.eqb x) r) && nodupb r end.

(* ---------------------------------------------------------------- covenants (C04) *)
(* every input of every transaction is approved by a covenant of the right hash, evaluated on that input's
   own environment, independently of any caching; returns 0 or a detail code
   (1 missing / undecodable / refusing covenant on the first input carrying that covenant hash,
    2 only on a later input with an already-seen covenant hash (class F15), 3 input position >= 256 (F22)) *)
Definition worse (a d : N) : N :=
  if d =? 0 then a else if a =? 0 then d else if (a =? 1) || (d =? 1) then 1 else N.max a d.

Definition covenant_detail (SO : stf_oracle) (pre : wstate) (lh : header) (txs : list tx) : N :=
  let avail := created_coins (s_height pre) txs ∪ s_coins pre in
  fold_left (fun acc t =>
    snd (fold_left (fun st inp =>
      let '(idx, seen, acc) := st in
      match avail !! input_key inp with
      | None => (idx + 1, seen, acc)
      | Some c =>
        let ch := cd_covhash (c_data c) in
        let ok := match find_script ch (t_covhashes t) (t_covenants t) with
                  | Some b => match decode_all b with
                              | Some prog => covenant_accepts (so_vm SO) prog (env_heap t inp c idx lh)
                              | None => false end
                  | None => false end in
        let d := if ok then 0 else if 256 <=? idx then 3 else if existsb (N.eqb ch) seen then 2 else 1 in
        (idx + 1, ch :: seen, worse acc d)
      end) (t_inputs t) (0, [], acc))) txs 0.

(* ---------------------------------------------------------------- fees (C05) *)
Definition fee_split (pre : wstate) (txs : list tx) : option (N * N) :=   (* (Σ min_fee, Σ tips) or None if a fee is too low *)
  fold_left (fun acc t =>
    match acc, min_fee (s_fee_mult pre) t with
    | Some (a, b), Ok mf => if t_fee t <? mf then None else Some (a + mf, b + (t_fee t - mf))
    | _, _ => None
    end) txs (Some (0, 0)).

(* ---------------------------------------------------------------- stakes (C13) *)
Definition stake_spec (pre : wstate) (txs : list tx) : gmap N stakedoc :=
  fold_left (fun m t =>
    if txkind_eqb (t_kind t) KStake && negb (legacy_net pre && (s_height pre <? 500000)) then
      match t_stakedoc t, t_outputs t with
      | Some d, first :: _ =>
        if denom_eqb (cd_denom first) Sym && (s_height pre / STAKE_EPOCH <? sd_start d)
           && (sd_start d <? sd_postend d) && (sd_staked d =? cd_value first)
        then <[t_hash t := d]> m else m
      | _, _ => m
      end
    else m) txs (s_stakes pre).

(* ---------------------------------------------------------------- per-covenant counts (C20) *)
Definition count_spec (coins : gmap N cdh) : gmap N N :=
  map_fold (fun _ c m => <[cd_covhash (c_data c) := default 0 (m !! cd_covhash (c_data c)) + 1]> m) ∅ coins.

(* ---------------------------------------------------------------- the reflection of one step *)
Definition flag (p : N) (ok : bool) (detail : N) : list (N * N) := if ok then [] else [(p, detail)].

Definition reflect_batch (SO : stf_oracle) (pre post : wstate) (txs : list tx) (R0 : roots) : list (N * N) :=
  let ds := tx_denoms txs (state_denoms pre (state_denoms post [Mel; Sym; Erg])) in
  (* C01 *)
  flat_map (fun d => flag 1 (supply d post <=? supply d pre + batch_issuance d txs) 1) ds
  (* C02 *)
  ++ flag 2 (gmap_eqb cdh_eqb (s_coins post) (utxo_spec SO pre txs)) 1
  ++ flag 2 (nodupb (all_inputs txs)) 2
  ++ flag 2 (forallb (fun k => match (created_coins (s_height pre) txs ∪ s_coins pre) !! k with Some _ => true | None => false end) (all_inputs txs)) 3
  ++ flag 2 (forallb well_formed txs) 4
  (* C04 *)
  ++ match last_header_for SO (fun _ => R0) pre with
     | Ok lh => let d := covenant_detail SO pre lh txs in flag 4 (d =? 0) d
     | _ => []
     end
  (* C05 *)
  ++ match fee_split pre txs with
     | Some (mf, tp) => flag 5 ((s_fee_pool post =? sat_add128 (s_fee_pool pre) mf) && (s_tips post =? sat_add128 (s_tips pre) tp)) 1
     | None => flag 5 false 2
     end
  (* C13 *)
  ++ flag 13 (gmap_eqb stakedoc_eqb (s_stakes post) (stake_spec pre txs)) 1
  ++ flag 13 (negb (negb (legacy_net pre && (s_height pre <? 900000))
                    && existsb (fun t => existsb (fun i => match stake_spec pre txs !! fst i with Some _ => true | None => false end) (t_inputs t)) txs)) 2
  (* C18 *)
  ++ flag 18 (s_dosc_speed pre <=? s_dosc_speed post) 1
  ++ match load_relevant_coins pre txs with
     | Ok relevant =>
       flag 18 (forallb (fun t => negb (txkind_eqb (t_kind t) KDoscMint) ||
                          match validate_doscmint SO pre relevant t with Ok _ => true | _ => false end) txs) 3
     | _ => []
     end
  (* C19 *)
  ++ flag 19 (negb ((s_network pre =? MAINNET) && existsb (fun t => txkind_eqb (t_kind t) KFaucet && negb (is_bug_tx t)) txs)) 1
  ++ flag 19 (forallb (fun t => negb (txkind_eqb (t_kind t) KFaucet) || is_bug_tx t ||
                 match s_coins pre !! coin_key (so_faucet_marker SO (t_hash t)) 0 with Some _ => false | None => true end) txs) 2
  ++ flag 19 (nodupb (map t_hash (List.filter (fun t => txkind_eqb (t_kind t) KFaucet && negb (is_bug_tx t)) txs))) 3
  (* C20 *)
  ++ flag 20 (negb (tip_906 post) || gmap_eqb N.eqb (s_counts post) (count_spec (s_coins post))) 1.

Definition is_pool_request (t : tx) : bool :=
  (txkind_eqb (t_kind t) KSwap || txkind_eqb (t_kind t) KLiqDeposit || txkind_eqb (t_kind t) KLiqWithdraw)
  && match tx_pool t with Some _ => true | None => false end.   (* the data is the canonical name of a pool *)

(* C15, "the reserves move by exactly the amounts taken from or paid into coins": for a pool that neither
   the peg nor the subsidies touch, reserve + request coins is conserved on each side: never exceeded, and
   short by less than one unit per request (the rounding of the shares) as long as no 128-bit clamp is near *)
Definition coin_val (d : denom) (m : gmap N cdh) (k : N) : N :=
  match m !! k with
  | Some c => if denom_eqb (cd_denom (c_data c)) d then cd_value (c_data c) else 0
  | None => 0
  end.
Definition nsum (l : list N) : N := fold_left N.add l 0.
Definition pool_flow_ok (pre post : wstate) (k : denom * denom) (reqs : list tx) : bool :=
  let keys := flat_map (fun t => [coin_key (t_hash t) 0; coin_key (t_hash t) 1]) reqs in
  let res (s : wstate) (sel : pool -> N) := match get_pool s k with Some p => sel p | None => 0 end in
  let small := forallb (fun s => (res s p_lefts <? 2 ^ 100) && (res s p_rights <? 2 ^ 100) && (res s p_liqs <? 2 ^ 100)) [pre; post]
               && forallb (fun key => forallb (fun s : wstate => match s_coins s !! key with Some c => cd_value (c_data c) <? 2 ^ 100 | None => true end) [pre; post]) keys in
  let side (d : denom) (sel : pool -> N) :=
    let a := res post sel + nsum (map (coin_val d (s_coins post)) keys) in
    let b := res pre sel + nsum (map (coin_val d (s_coins pre)) keys) in
    (a <=? b) && (negb small || (b - a <=? N.of_nat (length reqs))) in   (* each pro-rata share is rounded down: < 1 unit of dust per request *)
  side (fst k) p_lefts && side (snd k) p_rights.
Definition pool_flows (legacy_deposits : bool) (pre post : wstate) : bool :=
  let txs := map snd (map_to_list (s_txs pre)) in
  let reqs := List.filter (fun t => txkind_eqb (t_kind t) KSwap || txkind_eqb (t_kind t) KLiqDeposit || txkind_eqb (t_kind t) KLiqWithdraw) txs in
  forallb (fun k =>
    poolkey_eqb k (poolkey_new Mel Sym) || poolkey_eqb k (poolkey_new Erg Sym)
    || (match get_pool pre k with None => poolkey_eqb k (poolkey_new Mel Erg) | Some _ => false end)
    (* before height 978392 the two public networks keep the second coin of a deposit (frozen legacy behaviour,
       known finding F19): those pools are judged separately *)
    || negb (Bool.eqb legacy_deposits
               (legacy_net pre && (s_height pre <? 978392) && existsb (fun t => txkind_eqb (t_kind t) KLiqDeposit) (txs_for_pool reqs k)))
    || pool_flow_ok pre post k (txs_for_pool reqs k)) (pool_keys_sorted reqs).

(* C15, one price per pool and block: two swaps in the same direction get the same rate up to rounding down,
   and each is paid in the other side's denomination *)
Definition swap_pairs (pre post : wstate) (k : denom * denom) (reqs : list tx) (d : denom) : list (N * N) :=
  flat_map (fun t =>
    if txkind_eqb (t_kind t) KSwap then
      match s_coins pre !! coin_key (t_hash t) 0, s_coins post !! coin_key (t_hash t) 0 with
      | Some c, Some c' => if denom_eqb (cd_denom (c_data c)) d then [(cd_value (c_data c), cd_value (c_data c'))] else []
      | _, _ => []
      end
    else []) reqs.
Definition one_price (l : list (N * N)) : bool :=
  forallb (fun a => forallb (fun b => (snd a * fst b <? (snd b + 1) * fst a) || (fst a =? 0) || (2 ^ 120 <=? snd b + 1)) l) l.
Definition swaps_fair (pre post : wstate) : bool :=
  let txs := map snd (map_to_list (s_txs pre)) in
  let reqs := List.filter (fun t => txkind_eqb (t_kind t) KSwap) txs in
  forallb (fun k =>
    match get_pool pre k with
    | Some p =>
      negb ((0 <? p_lefts p) && (0 <? p_rights p)) ||
      (let rk := txs_for_pool reqs k in
       one_price (swap_pairs pre post k rk (fst k)) && one_price (swap_pairs pre post k rk (snd k))
       && forallb (fun t =>
            match s_coins pre !! coin_key (t_hash t) 0, s_coins post !! coin_key (t_hash t) 0 with
            | Some c, Some c' =>
              if denom_eqb (cd_denom (c_data c)) (fst k) then denom_eqb (cd_denom (c_data c')) (snd k)
              else if denom_eqb (cd_denom (c_data c)) (snd k) then denom_eqb (cd_denom (c_data c')) (fst k)
              else cdh_eqb c c'
            | _, _ => true
            end) rk)
    | None => true
    end) (pool_keys_sorted reqs).

(* the conclusion of C01_seal_unpegged / C16_seal_keeps_custom_backing, with the theorem's own definitions
   ([psum], [liq_of], [bootstrap] of STF/Proofs/SealLift.v), evaluated on the real states of a seal: K is the
   list of pools of the sealed state whose names decode and re-encode to their keys *)
Definition pools_named (s : wstate) : list (denom * denom) :=
  omap (fun kp => match pool_sides (fst kp) with
                  | Some k => if poolkey_code k =? fst kp then Some k else None
                  | None => None end) (map_to_list (s_pools s)).
Definition unpegged_b (d : denom) : bool := negb (denom_eqb d Mel) && negb (denom_eqb d Sym).
Definition seal_settles_b (SO : stf_oracle) (pre post : wstate) (d : denom) : bool :=
  let K := pools_named post in
  coin_supply d (s_coins post) + psum K d post + liq_of K SO d pre
  <=? coin_supply d (s_coins pre) + psum K d pre + liq_of K SO d post + bootstrap K d pre.

(* F19: before height 978392 the two public networks credit the second coin of a deposit to the pool and keep
   the coin: exactly that value is created *)
Definition legacy_deposit_inflation (d : denom) (pre : wstate) : N :=
  if legacy_net pre && (s_height pre <? 978392) then
    fold_left (fun acc t =>
      if txkind_eqb (t_kind t) KLiqDeposit && match tx_pool t with Some _ => true | None => false end then
        match s_coins pre !! coin_key (t_hash t) 1 with
        | Some c => if denom_eqb (cd_denom (c_data c)) d then acc + cd_value (c_data c) else acc
        | None => acc
        end
      else acc) (map snd (map_to_list (s_txs pre))) 0
  else 0.

Definition reflect_seal (SO : stf_oracle) (pre post : wstate) (a : option action) : list (N * N) :=
  let ds := state_denoms pre (state_denoms post [Mel; Sym; Erg]) in
  let legacy := legacy_net pre && (s_height pre <? 978392) in
  (* C01 *)
  flat_map (fun d => flag 1 (supply d post <=? supply d pre + seal_issuance SO d pre + legacy_deposit_inflation d pre) 2) ds
  (* known finding F19, by its exact witness: what the kept second coins of legacy deposits are worth *)
  ++ flat_map (fun d => flag 1 ((legacy_deposit_inflation d pre =? 0) || (supply d post <=? supply d pre + seal_issuance SO d pre)) 6) ds
  ++ flag 1 (legacy || forallb (fun d => negb (unpegged_b d) || seal_settles_b SO pre post d) ds) 5
  ++ flag 16 (legacy || forallb (fun d => match d with Custom _ => seal_settles_b SO pre post d | _ => true end) ds) 3
  (* C05 *)
  ++ (let rk := coin_key (so_reward_id SO (s_height pre)) 0 in
      match a with
      | None => flag 5 ((s_tips post =? s_tips pre)
                        && match s_coins post !! rk, s_coins pre !! rk with None, _ => true | Some _, Some _ => true | _, _ => false end) 3
      | Some act =>
        match s_coins post !! rk with
        | Some c =>
          let v := cd_value (c_data c) in
          let base := v - s_tips pre in
          flag 5 ((s_tips pre <=? v) && ((s_fee_pool post + base) / 65536 =? base) && (s_tips post =? 0)
                  && (cd_covhash (c_data c) =? a_dest act) && denom_eqb (cd_denom (c_data c)) Mel) 4
        | None => flag 5 false 5
        end
      end)
  (* C15: transactions that are not pool requests keep their declared outputs *)
  ++ flag 15 (forallb (fun t =>
        is_pool_request t ||
        forallb (fun '(i, _) =>
          let k := coin_key (t_hash t) i in
          match s_coins pre !! k, s_coins post !! k with
          | Some c, Some c' => cdh_eqb c c'
          | None, None => true
          | Some _, None => false
          | None, Some _ => false
          end) (enumerate 0 (t_outputs t))) (map snd (map_to_list (s_txs pre)))) 1
  (* C15: each side only of its own denomination: pool reserves + coins conserve per denomination is C01;
     here: a coin rewritten at seal keeps its covenant hash and additional data *)
  ++ flag 15 (forallb (fun t =>
        match s_coins pre !! coin_key (t_hash t) 0, s_coins post !! coin_key (t_hash t) 0 with
        | Some c, Some c' => (cd_covhash (c_data c) =? cd_covhash (c_data c')) && bytes_eqb (cd_extra (c_data c)) (cd_extra (c_data c'))
        | _, _ => true end) (map snd (map_to_list (s_txs pre)))) 2
  ++ flag 15 (pool_flows false pre post) 3
  ++ flag 15 (pool_flows true pre post) 5
  ++ flag 15 (swaps_fair pre post) 4
  (* C15: a deposit whose second output is gone before sealing (spent inside the block) is not a genuine request:
     its first output stays exactly as declared *)
  ++ flag 15 (forallb (fun t =>
        negb (txkind_eqb (t_kind t) KLiqDeposit) ||
        match s_coins pre !! coin_key (t_hash t) 0, s_coins pre !! coin_key (t_hash t) 1 with
        | Some c, None => match s_coins post !! coin_key (t_hash t) 0 with Some c' => cdh_eqb c c' | None => false end
        | _, _ => true
        end) (map snd (map_to_list (s_txs pre)))) 6
  (* C16 *)
  ++ flag 16 (forallb (fun k => match s_pools post !! poolkey_code k with
                                | Some p => (0 <? p_lefts p) && (0 <? p_rights p) | None => false end)
                ([poolkey_new Mel Sym; poolkey_new Mel Erg] ++ (if tip_902 pre then [poolkey_new Erg Sym] else []))) 1
  (* the liquidity tokens in coins never exceed the recorded liquidity - stated as: sealing never makes the
     shortfall (tokens in coins - recorded liquidity, 0 when backed) of any pool grow.  The only way to a
     positive shortfall is a test-network faucet that mints a pool's token, which is explicit issuance (C01). *)
  ++ flag 16 (forallb (fun kp =>
        let d := Custom (so_liq_denom SO (fst kp)) in
        let before := match s_pools pre !! fst kp with Some p0 => p_liqs p0 | None => 0 end in
        (coin_supply d (s_coins post) - p_liqs (snd kp)) <=? (coin_supply d (s_coins pre) - before))
                (map_to_list (s_pools post))) 2
  (* C17 *)
  ++ (match a with
      | None => flag 17 (s_fee_mult post =? s_fee_mult pre) 1
      | Some act =>
        let m := Z.of_N (s_fee_mult pre) in
        let mm := Z.max (m / 128) (if tip_901 pre then 2 else 0) in
        let expect := (m + Z.quot (mm * a_delta act) 128)%Z in
        flag 17 (Z.eqb (Z.of_N (s_fee_mult post)) (Z.min (Z.of_N MAX128) (Z.max 0 expect))) 2
      end)
  (* C18 *)
  ++ flag 18 (s_dosc_speed pre =? s_dosc_speed post) 2
  (* C20 *)
  ++ flag 20 (negb (tip_906 post) || gmap_eqb N.eqb (s_counts post) (count_spec (s_coins post))) 2.

Definition reflect_next (pre post : wstate) : list (N * N) :=
  let epoch := s_height post / STAKE_EPOCH in
  flag 13 (gmap_eqb stakedoc_eqb (s_stakes post)
             (base.filter (fun kv : N * stakedoc => (epoch <= sd_postend (snd kv))%N) (s_stakes pre))) 3
  ++ flag 7 ((s_height post =? s_height pre + 1) && (s_network post =? s_network pre)) 1
  ++ flag 20 (negb (tip_906 post) || gmap_eqb N.eqb (s_counts post) (count_spec (s_coins post))) 3.

Definition reflect_confirm (SO : stf_oracle) (s : wstate) (hh : N) (proof : list (N * list N)) (c : bool) : list (N * N) :=
  let epoch := s_height s / STAKE_EPOCH in
  let total := total_votes (s_stakes s) epoch in
  let present := fold_left (fun acc '(k, _) => acc + votes (s_stakes s) epoch k) proof 0 in
  let sigs_ok := forallb (fun '(k, sg) => so_ed25519 SO k hh sg) proof in
  (* nobody can vote: nothing can be confirmed *)
  if total =? 0 then flag 14 (negb c) 4 else
  flag 14 (negb c || sigs_ok) 1                                (* confirmed with an invalid signature *)
  ++ flag 14 (negb c || (2 * total <=? 3 * present)) 2         (* confirmed below two thirds *)
  ++ flag 14 (c || negb (sigs_ok && (2 * total <? 3 * present))) 3.   (* not confirmed above two thirds *)

Definition reflect_step (SO : stf_oracle) (pre : wstate) (st : sstep) : list (N * N) :=
  let post := state_of (st_post st) in
  match st_op st with
  | OpBatch txs R0 =>
    if st_code st =? 0 then reflect_batch SO pre post txs R0
    else if (st_code st =? 6) || (st_code st =? 5) then
      (* rejected for a covenant reason although every input of every transaction is approved by a covenant
         of the right hash in its own environment: sufficiency fails *)
      match last_header_for SO (fun _ => R0) pre with
      | Ok lh => flag 4 (negb ((covenant_detail SO pre lh txs =? 0)
                               && forallb (fun k => match (created_coins (s_height pre) txs ∪ s_coins pre) !! k with Some _ => true | None => false end) (all_inputs txs))) 4
      | _ => []
      end
    else []
  | OpSeal a R hdr => if st_code st =? 0 then reflect_seal SO pre post a else []
  | OpNext hdr => reflect_next pre post
  | OpConfirm hh proof c => reflect_confirm SO pre hh proof c
  | OpVotes e kvs tot =>
    (* C13: a key's voting power is the sum of its registered stakes with start <= epoch < end, on the stake set
       the implementation itself holds *)
    flag 13 (forallb (fun '(k, v) => votes (s_stakes pre) e k =? v) kvs) 3
    ++ flag 13 (total_votes (s_stakes pre) e =? tot) 4
  | _ => []
  end.

Fixpoint reflect_steps (SO : stf_oracle) (pre : wstate) (i : N) (l : list sstep) : list (N * N * N) :=
  match l with
  | [] => []
  | st :: r =>
    map (fun pd => (i, fst pd, snd pd)) (reflect_step SO pre st)
    ++ reflect_steps SO (match st_op st with
                         | OpConfirm _ _ _ => pre
                         | _ => if (st_code st =? 0) || match st_op st with OpJump => true | _ => false end
                                then state_of (st_post st) else pre
                         end) (i + 1) r
  end.

(* C04: the signature covenants the wallet built with Covenant::std_ed25519_pk_new / _legacy decode to exactly
   the op lists the theorems of STF/Proofs/StdCovenant.v are about *)
Definition std_shape_ok (e : bool * (list N * list N)) : bool :=
  let '(is_new, (pk, bytes)) := e in
  match decode_all bytes with
  | Some ops => list_eqb op_eqb ops (if is_new then std_ed25519_new pk else std_ed25519_legacy pk)
  | None => false
  end.

Fixpoint reflect_scenarios (k : N) (l : list scenario) : list (N * N * N) :=
  match l with
  | [] => []
  | sc :: r =>
    (if forallb std_shape_ok (ot_std (sc_tables sc)) then [] else [(k * 1000, 4, 6)])
    ++ map (fun x => let '(i, p, d) := x in (k * 1000 + i, p, d))
        (reflect_steps (mk_so (sc_tables sc)) (state_of (sc_init sc)) 0 (sc_steps sc))
    ++ reflect_scenarios (k + 1) r
  end.

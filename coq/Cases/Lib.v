(* Support for the correspondence check: case records written by the harness and the functions that
   run the model on them and compare with what the implementation produced. *)
From MelVerif Require Export VM.Exec VM.Codec.
Open Scope N_scope.

Fixpoint list_eqb {A} (eqb : A -> A -> bool) (a b : list A) : bool :=
  match a, b with
  | [], [] => true
  | x :: a', y :: b' => eqb x y && list_eqb eqb a' b'
  | _, _ => false
  end.

Definition option_eqb {A} (eqb : A -> A -> bool) (a b : option A) : bool :=
  match a, b with
  | None, None => true
  | Some x, Some y => eqb x y
  | _, _ => false
  end.

Fixpoint value_eqb (a b : value) : bool :=
  match a, b with
  | VInt x, VInt y => x =? y
  | VBytes x, VBytes y => list_eqb N.eqb x y
  | VVec x, VVec y =>
    (fix go (x y : list value) : bool :=
       match x, y with
       | [], [] => true
       | u :: x', v :: y' => value_eqb u v && go x' y'
       | _, _ => false
       end) x y
  | _, _ => false
  end.

Definition arg_eqb (a b : arg) : bool :=
  match a, b with
  | ANone, ANone => true
  | A1 x, A1 y => x =? y
  | A2 x1 x2, A2 y1 y2 => (x1 =? y1) && (x2 =? y2)
  | ABytes x, ABytes y => list_eqb N.eqb x y
  | _, _ => false
  end.

Definition op_eqb (a b : op) : bool :=
  (opcode_byte (tag_of a) =? opcode_byte (tag_of b)) && arg_eqb (args_of a) (args_of b).

Definition bytes_eqb := list_eqb N.eqb.

(* ---- oracles from tables recorded on the implementation side *)
Fixpoint assoc {A B} (eqb : A -> A -> bool) (k : A) (l : list (A * B)) : option B :=
  match l with
  | [] => None
  | (k', v) :: r => if eqb k k' then Some v else assoc eqb k r
  end.

Definition sigkey_eqb (a b : list N * list N * list N) : bool :=
  let '(a1, a2, a3) := a in let '(b1, b2, b3) := b in
  bytes_eqb a1 b1 && bytes_eqb a2 b2 && bytes_eqb a3 b3.

Definition mk_oracle (hs : list (list N * list N)) (sg : list ((list N * list N * list N) * bool)) : oracle :=
  {| o_hash := fun b => match assoc bytes_eqb b hs with Some h => h | None => [256] end;
     o_sig := fun pk msg s => match assoc sigkey_eqb (pk, msg, s) sg with Some r => r | None => false end |}.

Definition covenant_weight_from_bytes (bs : list N) : N :=
  match decode_all bs with Some ops => weight ops | None => 0 end.

(* ---- VM cases *)
Record vmcase := {
  vc_prog : list op;
  vc_heap : list (N * value);
  vc_hashes : list (list N * list N);
  vc_sigs : list ((list N * list N * list N) * bool);
  vc_result : option value;     (* Covenant::debug_execute *)
  vc_steps : N;                 (* Executor::step calls until halt or failure *)
  vc_weight : N;                (* Covenant::weight *)
  vc_calls : N;                 (* opcodes_car_weight calls (hook) *)
  vc_bytes : option (list N)    (* Covenant::to_bytes; None = it panicked *)
}.

Definition bit (b : bool) (v : N) : N := if b then 0 else v.

Definition check_vm (c : vmcase) : N :=
  let O := mk_oracle (vc_hashes c) (vc_sigs c) in
  let r := run O (vc_prog c) (vc_heap c) in
  (match r with
   | Finished res n => bit (option_eqb value_eqb res (vc_result c)) 1 + bit (n =? vc_steps c) 2
   | OutOfFuel => 16
   end)
  + bit (weight (vc_prog c) =? vc_weight c) 4
  + bit (weight_calls (vc_prog c) =? vc_calls c) 8
  + bit (option_eqb bytes_eqb (encode_all (vc_prog c)) (vc_bytes c)) 32
  + match vc_bytes c with
    | Some bs => bit (option_eqb (list_eqb op_eqb) (decode_all bs) (Some (vc_prog c))) 64
    | None => 0
    end.

Fixpoint failing {A} (chk : A -> N) (i : N) (l : list A) : list (N * N) :=
  match l with
  | [] => []
  | c :: r => let v := chk c in
              if v =? 0 then failing chk (i + 1) r else (i, v) :: failing chk (i + 1) r
  end.

(* ---- codec cases *)
Record ccase := {
  cc_bytes : list N;
  cc_ops : option (list op);     (* Covenant::from_bytes(..).to_ops() *)
  cc_weight : N                  (* covenant_weight_from_bytes *)
}.

Definition check_codec (c : ccase) : N :=
  let d := decode_all (cc_bytes c) in
  bit (option_eqb (list_eqb op_eqb) d (cc_ops c)) 1
  + bit (covenant_weight_from_bytes (cc_bytes c) =? cc_weight c) 2
  + match cc_ops c with
    | Some ops => bit (option_eqb bytes_eqb (encode_all ops) (Some (cc_bytes c))) 4
    | None => 0
    end.

(* ---- exhaustive enumeration of short byte strings, compared through checksums *)
Definition P61 : N := 2305843009213693951.

Definition arg_fp (a : arg) : N :=
  match a with
  | ANone => 0
  | A1 n => (n + 1) mod P61
  | A2 a b => (a * 65536 + b + 1) mod P61
  | ABytes l => of_be (1 :: l) mod P61
  end.
Definition op_fp (o : op) : N := (opcode_byte (tag_of o) + 256 * arg_fp (args_of o)) mod P61.
Definition ops_fp (ops : list op) : N := fold_left (fun acc o => (acc * 1000003 + op_fp o) mod P61) ops 7.

Record esum := { e_count : N; e_wsum : N; e_fsum : N }.

Definition visit (bs : list N) (a : esum) : esum :=
  match decode_all bs with
  | None => a
  | Some ops =>
    {| e_count := e_count a + 1;
       e_wsum := (e_wsum a + weight ops) mod P61;
       e_fsum := (e_fsum a + ops_fp ops * (1 + len bs)) mod P61 |}
  end.

Definition bytes256 : list N := map N.of_nat (seq 0 256).

Fixpoint enum (n : nat) (prefix_rev : list N) (a : esum) : esum :=
  let a := visit (rev prefix_rev) a in
  match n with
  | O => a
  | S n' => fold_left (fun a b => enum n' (b :: prefix_rev) a) bytes256 a
  end.

(* all strings with first byte b0 and at most n further bytes *)
Definition enum_from (b0 : N) (n : nat) : N * N * N :=
  let r := enum n [b0] {| e_count := 0; e_wsum := 0; e_fsum := 0 |} in
  (e_count r, e_wsum r, e_fsum r).

(* C10: a counted loop runs its (straight-line) body exactly the stated number of times. *)
From MelVerif Require Import Base.Arith VM.Op Generated VM.Weight VM.Exec VM.LoopProofs.
From Coq Require Import ZifyN ZifyNat ZifyBool.
Open Scope N_scope.
Arguments N.add : simpl never.
Arguments N.sub : simpl never.
Arguments N.ltb : simpl never.
Arguments N.eqb : simpl never.
Arguments N.of_nat : simpl never.
Arguments N.to_nat : simpl never.

(* straight-line instructions: everything except Loop and the three jumps *)
Definition is_simple (o : op) : bool :=
  match o with Loop _ _ | Jmp _ | Bez _ | Bnz _ => false | _ => true end.

(* effect of a straight-line instruction on (stack, heap) *)
Definition data_step (O : oracle) (o : op) (d : list value * list (N * value)) : option (list value * list (N * value)) :=
  match exec_op O o {| pc := 0; stack := fst d; heap := snd d; loops := [] |} with
  | Some s' => Some (stack s', heap s')
  | None => None
  end.

Fixpoint exec_body (O : oracle) (body : list op) (d : list value * list (N * value)) : option (list value * list (N * value)) :=
  match body with
  | [] => Some d
  | o :: r => match data_step O o d with Some d' => exec_body O r d' | None => None end
  end.

Fixpoint iter_body (O : oracle) (body : list op) (n : nat) (d : list value * list (N * value)) : option (list value * list (N * value)) :=
  match n with
  | O => Some d
  | S n' => match exec_body O body d with Some d' => iter_body O body n' d' | None => None end
  end.

(* a straight-line instruction moves the pc by one, keeps the loop stack, and its effect on stack and heap
   does not depend on pc or loop stack *)
Lemma simple_exec O o s :
  is_simple o = true ->
  exec_op O o s = match data_step O o (stack s, heap s) with
                  | Some d' => Some {| pc := pc s + 1; stack := fst d'; heap := snd d'; loops := loops s |}
                  | None => None
                  end.
Proof.
  intros Hs. unfold data_step. cbn [fst snd].
  destruct o; try discriminate Hs; unfold exec_op; cbn [pc stack heap loops];
    repeat match goal with
           | |- context [match ?x with _ => _ end] => destruct x
           end; reflexivity.
Qed.

Section Loop.
Variable O : oracle.
Variables (pre body post : list op) (n L : N).
Hypothesis Hn : 1 <= n.
Hypothesis HL : len body = L.
Hypothesis HL1 : 1 <= L.
Hypothesis Hsimple : forallb is_simple body = true.

Let prog := pre ++ Loop n L :: body ++ post.
Let p := len pre.

Lemma nth_loop : nth_error prog (N.to_nat p) = Some (Loop n L).
Proof. unfold prog, p, len. rewrite Nat2N.id, nth_error_app2, Nat.sub_diag by lia. reflexivity. Qed.

Lemma nth_body i o : nth_error body i = Some o -> nth_error prog (N.to_nat (p + 1 + N.of_nat i)) = Some o.
Proof.
  intros H. unfold prog, p, len.
  replace (N.to_nat (N.of_nat (length pre) + 1 + N.of_nat i)) with (length pre + S i)%nat by lia.
  rewrite nth_error_app2 by lia. replace (length pre + S i - length pre)%nat with (S i) by lia.
  cbn [nth_error]. rewrite nth_error_app1; [exact H|]. apply nth_error_Some. congruence.
Qed.

Lemma len_prog : p + 1 + L <= len prog.
Proof.
  pose proof HL as HL'. unfold prog, p, len in *. rewrite !app_length. cbn [length]. rewrite app_length.
  rewrite Nat2N.inj_add, Nat2N.inj_succ, Nat2N.inj_add. rewrite <- HL'.
  generalize (N.of_nat (length pre)) (N.of_nat (length body)) (N.of_nat (length post)). intros a b c. lia.
Qed.

Definition frame_of (left : N) : frame := {| f_begin := p + 1; f_end := p + L; f_left := left |}.
Definition in_body (i : nat) (left : N) (d : list value * list (N * value)) : state :=
  {| pc := p + 1 + N.of_nat i; stack := fst d; heap := snd d; loops := [frame_of left] |}.

Lemma update_inside q left : q <= p + L -> update q [frame_of left] = (q, [frame_of left]).
Proof.
  intros H. unfold frame_of. cbn [update f_end]. destruct (N.ltb_spec (p + L) q); [lia|reflexivity].
Qed.
Lemma update_exit left :
  update (p + L + 1) [frame_of left] = if 0 <? left then (p + 1, [frame_of (left - 1)]) else (p + L + 1, []).
Proof.
  unfold frame_of. cbn [update f_end f_left f_begin]. destruct (N.ltb_spec (p + L) (p + L + 1)); [|lia].
  destruct (N.ltb_spec 0 left); cbn [andb]; [|reflexivity].
  destruct (N.eqb_spec (p + L + 1 - (p + L)) 1); [reflexivity|lia].
Qed.

(* one instruction of the body that is not the last one *)
Lemma step_inside i o left d d' :
  nth_error body i = Some o -> (N.of_nat i + 1 < L) -> data_step O o d = Some d' ->
  step O prog (in_body i left d) = Some (in_body (S i) left d').
Proof.
  intros Hi Hlt Hd. unfold step. cbn [pc in_body]. rewrite (nth_body i o Hi).
  assert (Hs: is_simple o = true).
  { rewrite forallb_forall in Hsimple. apply Hsimple. eapply nth_error_In; eauto. }
  rewrite (simple_exec O o _ Hs). cbn [stack heap in_body]. rewrite <- surjective_pairing, Hd.
  cbn [pc loops in_body]. rewrite update_inside by lia.
  unfold in_body. do 2 f_equal; lia.
Qed.

(* the last instruction of the body: back-edge while iterations are left, otherwise the frame is dropped *)
Lemma step_last i o left d d' :
  nth_error body i = Some o -> (N.of_nat i + 1 = L) -> data_step O o d = Some d' ->
  step O prog (in_body i left d) =
  Some (if 0 <? left then in_body 0 (left - 1) d'
        else {| pc := p + 1 + L; stack := fst d'; heap := snd d'; loops := [] |}).
Proof.
  intros Hi Heq Hd. unfold step. cbn [pc in_body]. rewrite (nth_body i o Hi).
  assert (Hs: is_simple o = true).
  { rewrite forallb_forall in Hsimple. apply Hsimple. eapply nth_error_In; eauto. }
  rewrite (simple_exec O o _ Hs). cbn [stack heap in_body]. rewrite <- surjective_pairing, Hd.
  cbn [pc loops in_body]. replace (p + 1 + N.of_nat i + 1) with (p + L + 1) by lia. rewrite update_exit.
  destruct (0 <? left); cbn [stack heap].
  - unfold in_body. do 2 f_equal; lia.
  - do 2 f_equal; lia.
Qed.

Lemma pc_in_range i left d : (N.of_nat i < L) -> (pc (in_body i left d) <? len prog) = true.
Proof. intros H. cbn [pc in_body]. pose proof len_prog. apply N.ltb_lt. lia. Qed.

(* running the rest of the body from position i *)
Lemma run_body_from : forall k i left d d' cnt,
  (i + k = N.to_nat L)%nat -> (1 <= k)%nat ->
  exec_body O (skipn i body) d = Some d' ->
  run_nat O prog k (in_body i left d) cnt =
  Cont (if 0 <? left then in_body 0 (left - 1) d'
        else {| pc := p + 1 + L; stack := fst d'; heap := snd d'; loops := [] |}) (cnt + N.of_nat k).
Proof.
  induction k as [|k IH]; intros i left d d' cnt Hik Hk Hex; [lia|].
  assert (Hlen: length body = N.to_nat L) by (unfold len in HL; lia).
  destruct (nth_error body i) as [o|] eqn:Hi; [|apply nth_error_None in Hi; lia].
  assert (Hsk: skipn i body = o :: skipn (S i) body).
  { clear - Hi. revert i Hi. induction body as [|a l IHl]; intros [|i] Hi; cbn in *; try discriminate; [congruence|auto]. }
  rewrite Hsk in Hex. cbn [exec_body] in Hex. destruct (data_step O o d) as [d1|] eqn:Hd; [|discriminate].
  cbn [run_nat]. unfold step1. rewrite pc_in_range by lia.
  destruct k as [|k].
  - rewrite (step_last i o left d d1 Hi ltac:(lia) Hd). cbn [run_nat].
    assert (skipn (S i) body = []) by (apply skipn_all2; lia). rewrite H in Hex. injection Hex as <-.
    f_equal; lia.
  - rewrite (step_inside i o left d d1 Hi ltac:(lia) Hd).
    rewrite (IH (S i) left d1 d' (cnt + 1) ltac:(lia) ltac:(lia) Hex). f_equal; lia.
Qed.

(* all iterations *)
Lemma run_iterations : forall m left d d' cnt,
  N.of_nat m = left + 1 ->
  iter_body O body m d = Some d' ->
  run_nat O prog (m * N.to_nat L) (in_body 0 left d) cnt =
  Cont {| pc := p + 1 + L; stack := fst d'; heap := snd d'; loops := [] |} (cnt + N.of_nat m * L).
Proof.
  induction m as [|m IH]; intros left d d' cnt Hm Hit; [lia|].
  cbn [iter_body] in Hit. destruct (exec_body O body d) as [d1|] eqn:Hb; [|discriminate].
  replace (S m * N.to_nat L)%nat with (N.to_nat L + m * N.to_nat L)%nat by lia.
  rewrite run_nat_add.
  rewrite (run_body_from (N.to_nat L) 0 left d d1 cnt ltac:(lia) ltac:(lia) Hb).
  destruct (N.ltb_spec 0 left) as [Hl|Hl].
  - rewrite (IH (left - 1) d1 d' _ ltac:(lia) Hit). f_equal; lia.
  - assert (m = 0%nat) by lia. subst m. cbn [iter_body] in Hit. injection Hit as <-.
    cbn [Nat.mul run_nat]. f_equal; lia.
Qed.

(* C10: starting at the Loop instruction with an empty loop stack, after 1 + n * |body| steps the machine sits
   just behind the body, the loop stack is empty again, and stack and heap are those obtained by running the
   body n times - exactly n, no more and no fewer *)
Theorem loop_runs_body_exactly_n_times st hp d' cnt :
  iter_body O body (N.to_nat n) (st, hp) = Some d' ->
  run_nat O prog (1 + N.to_nat n * N.to_nat L) {| pc := p; stack := st; heap := hp; loops := [] |} cnt =
  Cont {| pc := p + 1 + L; stack := fst d'; heap := snd d'; loops := [] |} (cnt + 1 + n * L).
Proof.
  intros Hit. cbn [Nat.add run_nat]. unfold step1. cbn [pc].
  pose proof len_prog. destruct (N.ltb_spec p (len prog)); [|lia].
  unfold step. cbn [pc]. rewrite nth_loop. unfold exec_op.
  destruct (N.ltb_spec 0 n); [|lia]. cbn [loops negb pc stack heap update f_end f_left f_begin].
  destruct (N.ltb_spec (p + 1 + L - 1) (p + 1)); [lia|].
  replace (p + 1 + L - 1) with (p + L) by lia.
  change {| pc := p + 1; stack := st; heap := hp; loops := [{| f_begin := p + 1; f_end := p + L; f_left := n - 1 |}] |}
    with {| pc := p + 1; stack := fst (st, hp); heap := snd (st, hp); loops := [frame_of (n - 1)] |}.
  replace (p + 1) with (p + 1 + N.of_nat 0) at 1 by lia. fold (in_body 0 (n - 1) (st, hp)).
  rewrite (run_iterations (N.to_nat n) (n - 1) (st, hp) d' (cnt + 1) ltac:(lia) Hit). f_equal; lia.
Qed.

(* zero iterations skip the body: the pc moves past it, nothing else changes *)
Theorem loop_zero_skips_body st hp ls :
  step O (pre ++ Loop 0 L :: body ++ post) {| pc := p; stack := st; heap := hp; loops := ls |}
  = Some {| pc := fst (update (p + 1 + L) ls); stack := st; heap := hp; loops := snd (update (p + 1 + L) ls) |}.
Proof.
  unfold step. cbn [pc].
  assert (E: nth_error (pre ++ Loop 0 L :: body ++ post) (N.to_nat p) = Some (Loop 0 L)).
  { unfold p, len. rewrite Nat2N.id, nth_error_app2, Nat.sub_diag by lia. reflexivity. }
  rewrite E. unfold exec_op. change (0 <? 0) with false. cbn iota. cbn [pc loops stack heap].
  destruct (update (p + 1 + L) ls) as [q l']. reflexivity.
Qed.
End Loop.

(* MelVM interpreter: Executor::step, update_pc_state, run_to_end (lib/melvm/src/executor.rs),
   written instruction by instruction.  Definitions only. *)
From MelVerif Require Export VM.Op VM.Weight.
Open Scope N_scope.

Inductive value :=
| VInt (n : N)
| VBytes (bs : list N)
| VVec (vs : list value).

(* cryptography is an oracle: tmelcrypt::hash_single and Ed25519PK::verify *)
Record oracle := {
  o_hash : list N -> list N;
  o_sig  : list N -> list N -> list N -> bool   (* pk msg sig *)
}.

Record frame := { f_begin : N; f_end : N; f_left : N }.

Record state := {
  pc : N;
  stack : list value;
  heap : list (N * value);     (* association list, most recent binding first *)
  loops : list frame           (* innermost first *)
}.

Fixpoint heap_get (h : list (N * value)) (a : N) : option value :=
  match h with
  | [] => None
  | (k, v) :: r => if k =? a then Some v else heap_get r a
  end.
Definition heap_set (h : list (N * value)) (a : N) (v : value) := (a, v) :: h.

Definition into_int (v : value) : option N := match v with VInt n => Some n | _ => None end.
Definition into_u16 (v : value) : option N :=
  match v with VInt n => if 65535 <? n then None else Some n | _ => None end.
Definition into_bytes (v : value) : option (list N) := match v with VBytes b => Some b | _ => None end.
Definition into_vec (v : value) : option (list value) := match v with VVec b => Some b | _ => None end.
Definition into_bool (v : value) : bool := match v with VInt n => negb (n =? 0) | _ => true end.
Definition of_bool (b : bool) : value := VInt (if b then 1 else 0).
Definition len {A} (l : list A) : N := N.of_nat (length l).

Definition binop (st : list value) (f : value -> value -> option value) : option (list value) :=
  match st with
  | x :: y :: r => match f x y with Some v => Some (v :: r) | None => None end
  | _ => None
  end.
Definition monop (st : list value) (f : value -> option value) : option (list value) :=
  match st with
  | x :: r => match f x with Some v => Some (v :: r) | None => None end
  | _ => None
  end.
Definition triop (st : list value) (f : value -> value -> value -> option value) : option (list value) :=
  match st with
  | x :: y :: z :: r => match f x y z with Some v => Some (v :: r) | None => None end
  | _ => None
  end.

Definition int2 (f : N -> N -> option N) (x y : value) : option value :=
  match x, y with
  | VInt a, VInt b => match f a b with Some c => Some (VInt c) | None => None end
  | _, _ => None
  end.

(* exponentiation by squaring with a bit budget: k+1 bits of exponent are allowed *)
Fixpoint exp_loop (fuel : nat) (k e b res : N) : option N :=
  match fuel with
  | O => None
  | S f =>
    if e =? 0 then Some res
    else if k =? 0 then None
    else exp_loop f (k - 1) (e / 2) (wmul256 b b) (if N.odd e then wmul256 res b else res)
  end.

Fixpoint set_nth {A} (l : list A) (i : nat) (x : A) : option (list A) :=
  match l, i with
  | [], _ => None
  | _ :: r, O => Some (x :: r)
  | a :: r, S i' => match set_nth r i' x with Some r' => Some (a :: r') | None => None end
  end.

Definition slice {A} (l : list A) (b e : N) : list A :=
  if (len l <? e) || (e <? b) then []
  else firstn (N.to_nat (e - b)) (skipn (N.to_nat b) l).

Definition sigeok (O : oracle) (n : N) (message public_key signature : value) : option value :=
  match public_key with
  | VBytes pk =>
    if 32 <? len pk then Some (of_bool false)
    else if negb (len pk =? 32) then None
    else match message with
         | VBytes msg =>
           if n <? len msg then None
           else match signature with
                | VBytes sg =>
                  if 64 <? len sg then Some (of_bool false)
                  else Some (of_bool (o_sig O pk msg sg))
                | _ => None
                end
         | _ => None
         end
  | _ => None
  end.

(* the instruction itself: new pc (already incremented / jumped), stack, heap, loop stack; None = failure *)
Definition exec_op (O : oracle) (o : op) (s : state) : option state :=
  let pc1 := pc s + 1 in
  let ret st := Some {| pc := pc1; stack := st; heap := heap s; loops := loops s |} in
  let lift (r : option (list value)) := match r with Some st => ret st | None => None end in
  match o with
  | Noop => ret (stack s)
  | Add => lift (binop (stack s) (int2 (fun a b => Some (wadd256 a b))))
  | Sub => lift (binop (stack s) (int2 (fun a b => Some (wsub256 a b))))
  | Mul => lift (binop (stack s) (int2 (fun a b => Some (wmul256 a b))))
  | Div => lift (binop (stack s) (int2 (fun a b => if b =? 0 then None else Some (a / b))))
  | Rem => lift (binop (stack s) (int2 (fun a b => if b =? 0 then None else Some (a mod b))))
  | Exp k => lift (binop (stack s) (int2 (fun b e => exp_loop 257 (k + 1) e b 1)))
  | And => lift (binop (stack s) (int2 (fun a b => Some (N.land a b))))
  | Or => lift (binop (stack s) (int2 (fun a b => Some (N.lor a b))))
  | Xor => lift (binop (stack s) (int2 (fun a b => Some (N.lxor a b))))
  | Not => lift (monop (stack s) (fun x => match x with VInt a => Some (VInt (U256 - 1 - a)) | _ => None end))
  | Eql => lift (binop (stack s) (int2 (fun a b => Some (if a =? b then 1 else 0))))
  | Lt => lift (binop (stack s) (int2 (fun a b => Some (if a <? b then 1 else 0))))
  | Gt => lift (binop (stack s) (int2 (fun a b => Some (if b <? a then 1 else 0))))
  | Shl => lift (binop (stack s) (int2 (fun x off => Some (N.shiftl x (off mod 256) mod U256))))
  | Shr => lift (binop (stack s) (int2 (fun x off => Some (N.shiftr x (off mod 256)))))
  | Hash n => lift (monop (stack s) (fun x =>
      match x with
      | VBytes b => if n <? len b then None else Some (VBytes (o_hash O b))
      | _ => None end))
  | SigEOk n => lift (triop (stack s) (sigeok O n))
  | Store =>
    match stack s with
    | a :: v :: r =>
      match into_u16 a with
      | Some addr => Some {| pc := pc1; stack := r; heap := heap_set (heap s) addr v; loops := loops s |}
      | None => None end
    | _ => None
    end
  | Load =>
    match stack s with
    | a :: r =>
      match into_u16 a with
      | Some addr => match heap_get (heap s) addr with Some v => ret (v :: r) | None => None end
      | None => None end
    | _ => None
    end
  | StoreImm i =>
    match stack s with
    | v :: r => Some {| pc := pc1; stack := r; heap := heap_set (heap s) i v; loops := loops s |}
    | _ => None
    end
  | LoadImm i =>
    match heap_get (heap s) i with Some v => ret (v :: stack s) | None => None end
  | VRef => lift (binop (stack s) (fun vec idx =>
      match into_u16 idx, into_vec vec with
      | Some i, Some l => nth_error l (N.to_nat i)
      | _, _ => None end))
  | VSet => lift (triop (stack s) (fun vec idx v =>
      match into_u16 idx, into_vec vec with
      | Some i, Some l => match set_nth l (N.to_nat i) v with Some l' => Some (VVec l') | None => None end
      | _, _ => None end))
  | VAppend => lift (binop (stack s) (fun v1 v2 =>
      match into_vec v1, into_vec v2 with
      | Some a, Some b => Some (VVec (a ++ b))
      | _, _ => None end))
  | VSlice => lift (triop (stack s) (fun vec b e =>
      match into_u16 b, into_u16 e, vec with
      | Some b, Some e, VVec l => Some (VVec (slice l b e))
      | _, _, _ => None end))
  | VLength => lift (monop (stack s) (fun x => match x with VVec l => Some (VInt (len l)) | _ => None end))
  | VEmpty => ret (VVec [] :: stack s)
  | VPush => lift (binop (stack s) (fun vec item =>
      match into_vec vec with Some l => Some (VVec (l ++ [item])) | None => None end))
  | VCons => lift (binop (stack s) (fun item vec =>
      match into_vec vec with Some l => Some (VVec (item :: l)) | None => None end))
  | BEmpty => ret (VBytes [] :: stack s)
  | BPush => lift (binop (stack s) (fun vec val =>
      match into_bytes vec, into_int val with
      | Some l, Some n => Some (VBytes (l ++ [n mod 256]))
      | _, _ => None end))
  | BCons => lift (binop (stack s) (fun item vec =>
      match into_bytes vec, into_int item with
      | Some l, Some n => Some (VBytes (n mod 256 :: l))
      | _, _ => None end))
  | BRef => lift (binop (stack s) (fun vec idx =>
      match into_u16 idx, into_bytes vec with
      | Some i, Some l => match nth_error l (N.to_nat i) with Some b => Some (VInt b) | None => None end
      | _, _ => None end))
  | BSet => lift (triop (stack s) (fun vec idx v =>
      match into_u16 idx, into_bytes vec, into_int v with
      | Some i, Some l, Some n =>
        match set_nth l (N.to_nat i) (n mod 256) with Some l' => Some (VBytes l') | None => None end
      | _, _, _ => None end))
  | BAppend => lift (binop (stack s) (fun v1 v2 =>
      match into_bytes v1, into_bytes v2 with
      | Some a, Some b => Some (VBytes (a ++ b))
      | _, _ => None end))
  | BSlice => lift (triop (stack s) (fun vec b e =>
      match into_u16 b, into_u16 e, vec with
      | Some b, Some e, VBytes l => Some (VBytes (slice l b e))
      | _, _, _ => None end))
  | BLength => lift (monop (stack s) (fun x => match x with VBytes l => Some (VInt (len l)) | _ => None end))
  | Bez j =>
    match stack s with
    | top :: r =>
      let z := match top with VInt 0 => true | _ => false end in
      Some {| pc := if z then pc1 + j else pc1; stack := r; heap := heap s; loops := loops s |}
    | _ => None
    end
  | Bnz j =>
    match stack s with
    | top :: r =>
      let z := match top with VInt 0 => true | _ => false end in
      Some {| pc := if z then pc1 else pc1 + j; stack := r; heap := heap s; loops := loops s |}
    | _ => None
    end
  | Jmp j => Some {| pc := pc1 + j; stack := stack s; heap := heap s; loops := loops s |}
  | Loop iters count =>
    if 0 <? iters then
      let this_end := pc1 + count - 1 in
      let nested := match loops s with
                    | last :: _ => negb (f_end last <? this_end)
                    | [] => true
                    end in
      if nested then
        Some {| pc := pc1; stack := stack s; heap := heap s;
                loops := {| f_begin := pc1; f_end := this_end; f_left := iters - 1 |} :: loops s |}
      else None
    else Some {| pc := pc1 + count; stack := stack s; heap := heap s; loops := loops s |}
  | BtoI => lift (monop (stack s) (fun x =>
      match x with
      | VBytes l => if len l =? 32 then Some (VInt (of_be l)) else None
      | _ => None end))
  | ItoB => lift (monop (stack s) (fun x =>
      match x with VInt n => Some (VBytes (be_bytes 32 n)) | _ => None end))
  | PushB b => ret (VBytes b :: stack s)
  | PushI n => ret (VInt n :: stack s)
  | PushIC n => ret (VInt n :: stack s)
  | TypeQ => lift (monop (stack s) (fun x =>
      Some (VInt (match x with VInt _ => 0 | VBytes _ => 1 | VVec _ => 2 end))))
  | Dup => match stack s with v :: r => ret (v :: v :: r) | _ => None end
  end.

(* update_pc_state *)
Fixpoint update (p : N) (st : list frame) : N * list frame :=
  match st with
  | [] => (p, [])
  | f :: rest =>
    if f_end f <? p then
      if (0 <? f_left f) && (p - f_end f =? 1)
      then (f_begin f, {| f_begin := f_begin f; f_end := f_end f; f_left := f_left f - 1 |} :: rest)
      else update p rest
    else (p, st)
  end.

(* one call of Executor::step at a pc inside the program *)
Definition step (O : oracle) (prog : list op) (s : state) : option state :=
  match nth_error prog (N.to_nat (pc s)) with
  | None => None
  | Some o =>
    match exec_op O o s with
    | None => None
    | Some s' =>
      let '(p, l) := update (pc s') (loops s') in
      Some {| pc := p; stack := stack s'; heap := heap s'; loops := l |}
    end
  end.

(* run_to_end *)
Inductive rres :=
| Cont (s : state) (n : N)                 (* still running after n steps *)
| Fin (r : option value) (n : N).          (* finished (Some top of stack / None = failure) after n steps *)

Definition step1 (O : oracle) (prog : list op) (s : state) (n : N) : rres :=
  if pc s <? len prog then
    match step O prog s with
    | Some s' => Cont s' (n + 1)
    | None => Fin None (n + 1)
    end
  else Fin (match stack s with v :: _ => Some v | [] => None end) n.

(* run up to p steps (binary fuel: no unary number of data-dependent size is ever built) *)
Fixpoint run_pos (O : oracle) (prog : list op) (p : positive) (s : state) (n : N) : rres :=
  match p with
  | xH => step1 O prog s n
  | xO p' =>
    match run_pos O prog p' s n with
    | Cont s' n' => run_pos O prog p' s' n'
    | r => r
    end
  | xI p' =>
    match step1 O prog s n with
    | Cont s1 n1 =>
      match run_pos O prog p' s1 n1 with
      | Cont s' n' => run_pos O prog p' s' n'
      | r => r
      end
    | r => r
    end
  end.

Definition init_state (h : list (N * value)) : state :=
  {| pc := 0; stack := []; heap := h; loops := [] |}.

(* fuel weightZ+2: weightZ steps at most (C11), one more call to observe the halt *)
Definition run_fuel (prog : list op) : positive := N.succ_pos (weightZ prog + 1).

Inductive exec_result :=
| Finished (r : option value) (steps : N)
| OutOfFuel.

Definition run (O : oracle) (prog : list op) (h : list (N * value)) : exec_result :=
  match run_pos O prog (run_fuel prog) (init_state h) 0 with
  | Fin r n => Finished r n
  | Cont _ _ => OutOfFuel
  end.

(* unary-step reference semantics used by the proofs *)
Fixpoint run_nat (O : oracle) (prog : list op) (k : nat) (s : state) (n : N) : rres :=
  match k with
  | O => Cont s n
  | S k' =>
    match step1 O prog s n with
    | Cont s' n' => run_nat O prog k' s' n'
    | r => r
    end
  end.

(* C11 core: executed steps <= weight, on the control-flow abstraction of the MelVM executor
   (step + update_pc_state) and of opcodes_weight / opcodes_car_weight.
   VM/LoopProofs.v shows that the concrete interpreter of VM/Exec.v refines this machine. *)
From Coq Require Import List Arith Lia Bool.
Import ListNotations.

Inductive aop :=
| Plain (c : nat)            (* any non-Loop opcode; c = its weight; may jump forward arbitrarily or fail *)
| ALoop (it len : nat).

(* ---- weight, as in opcode.rs: Loop weighs 1 + it * weight(body) and does not consume its body *)
Fixpoint weight_f (fuel : nat) (ops : list aop) : nat :=
  match fuel with
  | 0 => 0
  | S f =>
    match ops with
    | [] => 0
    | Plain c :: rest => c + weight_f f rest
    | ALoop it len :: rest => 1 + it * weight_f f (firstn len rest) + weight_f f rest
    end
  end.
Definition weight (ops : list aop) := weight_f (length ops) ops.

Lemma weight_f_irrel : forall f1 f2 ops,
  length ops <= f1 -> length ops <= f2 -> weight_f f1 ops = weight_f f2 ops.
Proof.
  induction f1 as [|f1 IH]; intros f2 ops H1 H2.
  - destruct ops; simpl in *; [|lia]. destruct f2; reflexivity.
  - destruct ops as [|o rest]; [destruct f2; reflexivity|].
    destruct f2 as [|f2]; [simpl in H2; lia|]. simpl in H1, H2.
    cbn [weight_f]. destruct o as [c|it len].
    + rewrite (IH f2 rest) by lia. reflexivity.
    + rewrite (IH f2 rest) by lia.
      rewrite (IH f2 (firstn len rest)) by (rewrite firstn_length; lia). reflexivity.
Qed.

Lemma weight_nil : weight [] = 0. Proof. reflexivity. Qed.
Lemma weight_plain c rest : weight (Plain c :: rest) = c + weight rest.
Proof. unfold weight. cbn [length weight_f]. reflexivity. Qed.
Lemma weight_loop it len rest :
  weight (ALoop it len :: rest) = 1 + it * weight (firstn len rest) + weight rest.
Proof.
  unfold weight. cbn [length weight_f].
  rewrite (weight_f_irrel (length rest) (length (firstn len rest)) (firstn len rest))
    by (rewrite ?firstn_length; lia).
  reflexivity.
Qed.

Section Prog.
Variable prog : list aop.
Let n := length prog.

Definition slice (x h : nat) : list aop := firstn (h - x) (skipn x prog).
Definition W (x h : nat) : nat := weight (slice x h).

Lemma slice_empty x h : h <= x -> slice x h = [].
Proof. intros. unfold slice. replace (h - x) with 0 by lia. reflexivity. Qed.

Lemma W_empty x h : h <= x -> W x h = 0.
Proof. intros. unfold W. rewrite slice_empty by assumption. reflexivity. Qed.

Lemma skipn_nth_cons : forall (l : list aop) x o, nth_error l x = Some o -> skipn x l = o :: skipn (S x) l.
Proof.
  induction l as [|a l IH]; intros x o H; destruct x; cbn in *; try discriminate.
  - injection H as ->. reflexivity.
  - apply IH. exact H.
Qed.

Lemma slice_cons x h o : x < h -> nth_error prog x = Some o ->
  slice x h = o :: slice (S x) h.
Proof.
  intros Hlt Hn. unfold slice. rewrite (skipn_nth_cons prog x o Hn).
  replace (h - x) with (S (h - S x)) by lia. reflexivity.
Qed.

Lemma firstn_slice len x h : firstn len (slice x h) = slice x (Nat.min (x + len) h).
Proof.
  unfold slice. rewrite firstn_firstn. f_equal. lia.
Qed.

(* W is antitone in its first argument *)
Lemma W_step_le x h : W (S x) h <= W x h.
Proof.
  destruct (Nat.le_gt_cases h x) as [Hle|Hlt].
  - rewrite !W_empty by lia. lia.
  - destruct (nth_error prog x) as [o|] eqn:E.
    + unfold W. rewrite (slice_cons x h o Hlt E).
      destruct o; [rewrite weight_plain|rewrite weight_loop]; lia.
    + apply nth_error_None in E. unfold W, slice.
      rewrite !skipn_all2 by lia. rewrite !firstn_nil. lia.
Qed.

Lemma W_antitone x x' h : x <= x' -> W x' h <= W x h.
Proof.
  induction 1 as [|x' Hle IH]; [lia|]. etransitivity; [apply W_step_le|exact IH].
Qed.

(* ---- loop frames and update_pc_state *)
Record frame := { fb : nat; fe : nat; fit : nat }.

Fixpoint update (pc : nat) (st : list frame) : nat * list frame :=
  match st with
  | [] => (pc, [])
  | f :: rest =>
    if pc <=? fe f then (pc, st)
    else if (0 <? fit f) && (pc =? fe f + 1)
         then (fb f, {| fb := fb f; fe := fe f; fit := fit f - 1 |} :: rest)
         else update pc rest
  end.

Definition hh (f : frame) := Nat.min (fe f + 1) n.

Fixpoint Phi (pc : nat) (st : list frame) : nat :=
  match st with
  | [] => W pc n
  | f :: rest => W pc (hh f) + fit f * W (fb f) (hh f) + Phi (Nat.max pc (hh f)) rest
  end.

(* frames: begin <= end+1, begin <= n, ends non-decreasing outward *)
Fixpoint StackOk (st : list frame) : Prop :=
  match st with
  | [] => True
  | f :: rest => fb f <= fe f + 1 /\ fb f <= n /\
                 match rest with [] => True | g :: _ => fe f <= fe g end /\ StackOk rest
  end.

Lemma Phi_antitone : forall st pc pc', pc <= pc' -> Phi pc' st <= Phi pc st.
Proof.
  induction st as [|f rest IH]; intros pc pc' Hle; cbn [Phi].
  - apply W_antitone; assumption.
  - pose proof (W_antitone pc pc' (hh f) Hle).
    pose proof (IH (Nat.max pc (hh f)) (Nat.max pc' (hh f)) ltac:(lia)). lia.
Qed.

(* beyond n, Phi of a stack whose ends are all >= e >= n-1... is constant *)
Lemma Phi_const_beyond : forall st x y, n <= x -> n <= y -> Phi x st = Phi y st.
Proof.
  induction st as [|f rest IH]; intros x y Hx Hy; cbn [Phi].
  - rewrite !W_empty by lia. reflexivity.
  - assert (hh f <= n) by (unfold hh; lia).
    rewrite (W_empty x) by lia. rewrite (W_empty y) by lia.
    rewrite (IH (Nat.max x (hh f)) (Nat.max y (hh f))) by lia. reflexivity.
Qed.

Lemma update_Phi : forall st pc, StackOk st ->
  Phi (fst (update pc st)) (snd (update pc st)) <= Phi pc st.
Proof.
  induction st as [|f rest IH]; intros pc Hok; cbn [update].
  - cbn. lia.
  - destruct Hok as (Hb & Hbn & Hsorted & Hrest).
    destruct (pc <=? fe f) eqn:E1; [cbn; lia|].
    apply Nat.leb_gt in E1.
    destruct ((0 <? fit f) && (pc =? fe f + 1)) eqn:E2.
    + apply andb_prop in E2. destruct E2 as [Hit Hpc].
      apply Nat.ltb_lt in Hit. apply Nat.eqb_eq in Hpc.
      cbn [fst snd Phi fb fe fit]. change (hh {| fb := fb f; fe := fe f; fit := fit f - 1 |}) with (hh f).
      rewrite (W_empty pc (hh f)) by (unfold hh; lia).
      assert (Hc: Phi (Nat.max (fb f) (hh f)) rest <= Phi (Nat.max pc (hh f)) rest).
      { destruct (Nat.le_gt_cases (fe f + 1) n) as [Hin|Hout].
        - assert (hh f = fe f + 1) by (unfold hh; lia).
          replace (Nat.max (fb f) (hh f)) with (fe f + 1) by lia.
          replace (Nat.max pc (hh f)) with (fe f + 1) by lia. lia.
        - assert (hh f = n) by (unfold hh; lia).
          replace (Nat.max (fb f) (hh f)) with n by lia.
          rewrite (Phi_const_beyond rest n (Nat.max pc (hh f))) by lia. lia. }
      destruct (fit f) as [|k]; [lia|]. cbn [Nat.sub]. rewrite Nat.sub_0_r.
      lia.
    + etransitivity; [apply IH; assumption|].
      cbn [Phi].
      assert (hh f <= pc) by (unfold hh; lia).
      replace (Nat.max pc (hh f)) with pc by lia. lia.
Qed.

Lemma update_StackOk : forall st pc, StackOk st -> StackOk (snd (update pc st)).
Proof.
  induction st as [|f rest IH]; intros pc Hok; cbn [update]; [exact I|].
  destruct (pc <=? fe f); [exact Hok|].
  destruct ((0 <? fit f) && (pc =? fe f + 1)).
  - cbn [snd]. destruct Hok as (? & ? & ? & ?). cbn. auto.
  - apply IH. destruct Hok as (? & ? & ? & ?). assumption.
Qed.

(* ---- one machine step (control flow only).  Post-update states between steps. *)
Inductive astep : nat * list frame -> nat * list frame -> Prop :=
| st_plain pc st c j :
    nth_error prog pc = Some (Plain c) ->
    astep (pc, st) (update (pc + 1 + j) st)
| st_loop0 pc st len :
    nth_error prog pc = Some (ALoop 0 len) ->
    astep (pc, st) (update (pc + 1 + len) st)
| st_loop pc st it len :
    nth_error prog pc = Some (ALoop (S it) len) ->
    match st with [] => True | g :: _ => pc + len <= fe g end ->
    astep (pc, st) (update (pc + 1) ({| fb := pc + 1; fe := pc + len; fit := it |} :: st)).

Hypothesis weight_pos : forall c, In (Plain c) prog -> 1 <= c.

Lemma exec_plain_Phi : forall st pc c, nth_error prog pc = Some (Plain c) ->
  Phi (S pc) st + c <= Phi pc st.
Proof.
  induction st as [|f rest IH]; intros pc c Hn; cbn [Phi].
  - assert (pc < n) by (apply nth_error_Some; congruence).
    unfold W at 2. rewrite (slice_cons pc n _ H Hn), weight_plain. fold (W (S pc) n). lia.
  - destruct (Nat.le_gt_cases (hh f) pc) as [Hge|Hlt].
    + rewrite !W_empty by lia.
      replace (Nat.max (S pc) (hh f)) with (S pc) by lia.
      replace (Nat.max pc (hh f)) with pc by lia.
      specialize (IH pc c Hn). lia.
    + unfold W at 3. rewrite (slice_cons pc (hh f) _ Hlt Hn), weight_plain. fold (W (S pc) (hh f)).
      replace (Nat.max (S pc) (hh f)) with (hh f) by lia.
      replace (Nat.max pc (hh f)) with (hh f) by lia. lia.
Qed.

Lemma exec_loop_flat_Phi : forall st pc it len, nth_error prog pc = Some (ALoop it len) ->
  Phi (S pc) st + 1 <= Phi pc st.
Proof.
  induction st as [|f rest IH]; intros pc it len Hn; cbn [Phi].
  - assert (pc < n) by (apply nth_error_Some; congruence).
    unfold W at 2. rewrite (slice_cons pc n _ H Hn), weight_loop. fold (W (S pc) n). lia.
  - destruct (Nat.le_gt_cases (hh f) pc) as [Hge|Hlt].
    + rewrite !W_empty by lia.
      replace (Nat.max (S pc) (hh f)) with (S pc) by lia.
      replace (Nat.max pc (hh f)) with pc by lia.
      specialize (IH pc it len Hn). lia.
    + unfold W at 3. rewrite (slice_cons pc (hh f) _ Hlt Hn), weight_loop. fold (W (S pc) (hh f)).
      replace (Nat.max (S pc) (hh f)) with (hh f) by lia.
      replace (Nat.max pc (hh f)) with (hh f) by lia. lia.
Qed.

Theorem step_decreases : forall s s',
  StackOk (snd s) -> astep s s' ->
  StackOk (snd s') /\ Phi (fst s') (snd s') + 1 <= Phi (fst s) (snd s).
Proof.
  intros s s' Hok Hstep.
  destruct Hstep as [pc st c j Hn | pc st len Hn | pc st it len Hn Hnest]; cbn [fst snd] in *.
  - (* plain *)
    pose proof (update_StackOk st (pc + 1 + j) Hok) as Hok'.
    pose proof (update_Phi st (pc + 1 + j) Hok) as HB.
    split; [assumption|].
    pose proof (exec_plain_Phi st pc c Hn).
    pose proof (Phi_antitone st (S pc) (pc + 1 + j) ltac:(lia)).
    assert (1 <= c) by (apply weight_pos; eapply nth_error_In; eassumption). lia.
  - (* loop with zero iterations: a jump *)
    pose proof (update_StackOk st (pc + 1 + len) Hok) as Hok'.
    pose proof (update_Phi st (pc + 1 + len) Hok) as HB.
    split; [assumption|].
    pose proof (exec_loop_flat_Phi st pc 0 len Hn).
    pose proof (Phi_antitone st (S pc) (pc + 1 + len) ltac:(lia)). lia.
  - (* loop entry *)
    assert (Hpc : pc < n) by (apply nth_error_Some; congruence).
    set (fr := {| fb := pc + 1; fe := pc + len; fit := it |}) in *.
    assert (Hok2 : StackOk (fr :: st)).
    { cbn. repeat split; try lia. destruct st; [exact I|]. exact Hnest. exact Hok. }
    pose proof (update_StackOk (fr :: st) (pc + 1) Hok2) as Hok'.
    pose proof (update_Phi (fr :: st) (pc + 1) Hok2) as HB.
    split; [assumption|].
    enough (Phi (pc + 1) (fr :: st) + 1 <= Phi pc st) by lia.
    cbn [Phi]. change (fb fr) with (pc + 1). change (fit fr) with it.
    assert (Hh : hh fr = Nat.min (pc + 1 + len) n) by (unfold hh, fr; cbn; f_equal; lia).
    replace (Nat.max (pc + 1) (hh fr)) with (hh fr) by (rewrite Hh; lia).
    assert (Wloop : forall h, pc < h -> h <= n ->
              W pc h = 1 + S it * W (pc + 1) (Nat.min (pc + 1 + len) h) + W (pc + 1) h).
    { intros h Hlt Hhn. unfold W. rewrite (slice_cons pc h _ Hlt Hn), weight_loop.
      rewrite firstn_slice. replace (S pc) with (pc + 1) by lia. reflexivity. }
    destruct st as [|g rest]; cbn [Phi].
    + rewrite (Wloop n Hpc (Nat.le_refl n)). rewrite <- Hh.
      pose proof (W_antitone (pc + 1) (hh fr) n ltac:(rewrite Hh; lia)). nia.
    + assert (Hlt : pc < hh g) by (unfold hh; lia).
      assert (Hle : hh fr <= hh g) by (rewrite Hh; unfold hh; lia).
      rewrite (Wloop (hh g) Hlt ltac:(unfold hh; lia)).
      replace (Nat.min (pc + 1 + len) (hh g)) with (hh fr) by (rewrite Hh; unfold hh; lia).
      replace (Nat.max (hh fr) (hh g)) with (hh g) by lia.
      replace (Nat.max pc (hh g)) with (hh g) by lia.
      pose proof (W_antitone (pc + 1) (hh fr) (hh g) ltac:(rewrite Hh; lia)). nia.
Qed.

(* every run of k machine steps from the initial state has k <= weight prog *)
Inductive asteps : nat -> nat * list frame -> nat * list frame -> Prop :=
| as_nil s : asteps 0 s s
| as_cons k s1 s2 s3 : astep s1 s2 -> asteps k s2 s3 -> asteps (S k) s1 s3.

Theorem steps_le_weight : forall k s, asteps k (0, []) s -> k <= weight prog.
Proof.
  assert (G : forall k s1 s2, asteps k s1 s2 -> StackOk (snd s1) ->
              k + Phi (fst s2) (snd s2) <= Phi (fst s1) (snd s1)).
  { induction 1 as [s|k s1 s2 s3 Hs Hrest IH]; intros Hok; [lia|].
    destruct (step_decreases s1 s2 Hok Hs) as [Hok2 Hdec].
    specialize (IH Hok2). lia. }
  intros k s H. specialize (G k (0, []) s H I). cbn [fst snd Phi] in G.
  unfold W, slice, n in G. rewrite Nat.sub_0_r in G. cbn [skipn] in G.
  rewrite firstn_all in G. lia.
Qed.

(* while the pc is inside the program the potential covers at least the instruction about to run *)
Lemma Phi_ge_one : forall st pc, pc < n -> 1 <= Phi pc st.
Proof.
  induction st as [|f rest IH]; intros pc Hpc; cbn [Phi].
  - destruct (nth_error prog pc) as [o|] eqn:E; [|apply nth_error_None in E; unfold n in Hpc; lia].
    unfold W. rewrite (slice_cons pc n o Hpc E).
    destruct o as [c|it len]; [rewrite weight_plain|rewrite weight_loop]; [|lia].
    assert (1 <= c) by (apply weight_pos; eapply nth_error_In; eassumption). lia.
  - destruct (Nat.le_gt_cases (hh f) pc) as [Hge|Hlt].
    + replace (Nat.max pc (hh f)) with pc by lia. specialize (IH pc Hpc). lia.
    + destruct (nth_error prog pc) as [o|] eqn:E; [|apply nth_error_None in E; unfold n in Hpc; lia].
      unfold W at 1. rewrite (slice_cons pc (hh f) o Hlt E).
      destruct o as [c|it len]; [rewrite weight_plain|rewrite weight_loop]; [|lia].
      assert (1 <= c) by (apply weight_pos; eapply nth_error_In; eassumption). lia.
Qed.

Theorem steps_plus_one_le_weight : forall k s, asteps k (0, []) s -> fst s < n -> k + 1 <= weight prog.
Proof.
  assert (G : forall k s1 s2, asteps k s1 s2 -> StackOk (snd s1) ->
              k + Phi (fst s2) (snd s2) <= Phi (fst s1) (snd s1)).
  { induction 1 as [s|k s1 s2 s3 Hs Hrest IH]; intros Hok; [lia|].
    destruct (step_decreases s1 s2 Hok Hs) as [Hok2 Hdec].
    specialize (IH Hok2). lia. }
  intros k s H Hpc. specialize (G k (0, []) s H I). cbn [fst snd Phi] in G.
  pose proof (Phi_ge_one (snd s) (fst s) Hpc).
  unfold W, slice, n in G. rewrite Nat.sub_0_r in G. cbn [skipn] in G.
  rewrite firstn_all in G. lia.
Qed.

End Prog.


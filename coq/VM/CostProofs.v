(* C11, second half: the cost of *weighing* a covenant.  On the pinned tree opcodes_car_weight weighs the
   body of a Loop and then does not skip it, so k consecutive Loop opcodes cost 2^k calls (finding F12). *)
From MelVerif Require Import Base.Arith VM.Op Generated VM.Weight.
From Coq Require Import ZifyN ZifyNat ZifyBool.
Open Scope N_scope.
Arguments N.add : simpl never.
Arguments N.mul : simpl never.
Arguments N.pow : simpl never.
Arguments N.max : simpl never.
Arguments N.of_nat : simpl never.
Arguments N.to_nat : simpl never.

Definition tower (k : nat) : list op := repeat (Loop 1 65535) k.

Lemma weight_work_tower : forall k j, (j <= k)%nat -> N.of_nat k <= 65535 ->
  2 ^ N.of_nat j - 1 <= weight_work (tower k) j.
Proof.
  induction k as [|k IH]; intros j Hj Hk.
  - assert (j = 0%nat) by lia. subst. cbn. lia.
  - destruct j as [|j]; [cbn; lia|].
    cbn [tower repeat weight_work]. fold (tower k).
    assert (E: Nat.min (N.to_nat 65535) j = j) by lia. rewrite E.
    pose proof (IH j ltac:(lia) ltac:(lia)) as H.
    rewrite Nat2N.inj_succ, N.pow_succ_r'.
    assert (2 ^ N.of_nat j <> 0) by (apply N.pow_nonzero; discriminate).
    lia.
Qed.

(* the weigh cost is exponential in the program length: no polynomial bounds it *)
Theorem weigh_exponential : forall k, N.of_nat k <= 65535 ->
  2 ^ N.of_nat k - 1 <= weight_calls (tower k).
Proof.
  intros k Hk. unfold weight_calls. unfold tower at 2. rewrite repeat_length.
  pose proof (weight_work_tower k k (Nat.le_refl k) Hk). lia.
Qed.

(* ... while for programs with at most one Loop the number of calls is linear *)
Fixpoint count_loops (ops : list op) : nat :=
  match ops with
  | [] => 0
  | Loop _ _ :: r => S (count_loops r)
  | _ :: r => count_loops r
  end.

Lemma weight_work_noloop : forall ops k, count_loops ops = 0%nat -> weight_work ops k <= N.of_nat k.
Proof.
  induction ops as [|o r IH]; intros k H.
  - destruct k; cbn; lia.
  - destruct k as [|k]; [cbn; lia|].
    destruct o; cbn [count_loops] in H; try discriminate;
      cbn [weight_work]; specialize (IH k H); lia.
Qed.

Theorem weigh_linear_one_loop : forall ops k, (count_loops ops <= 1)%nat ->
  weight_work ops k <= 2 * N.of_nat k + 1.
Proof.
  induction ops as [|o r IH]; intros k H.
  - destruct k; cbn; lia.
  - destruct k as [|k]; [cbn; lia|].
    destruct o; cbn [count_loops] in H;
      try (cbn [weight_work]; specialize (IH k H); lia).
    assert (Hr: count_loops r = 0%nat) by lia.
    cbn [weight_work].
    pose proof (weight_work_noloop r k Hr).
    pose proof (weight_work_noloop r (Nat.min (N.to_nat len) k) Hr). lia.
Qed.

(* C12: the bytecode codec is a bijection between decodable byte strings and representable programs. *)
From MelVerif Require Import Base.Arith Base.ArithProofs VM.Op Generated VM.Codec.
From Coq Require Import ZifyN ZifyNat ZifyBool.
Ltac Zify.zify_post_hook ::= Z.div_mod_to_equations.
Open Scope N_scope.

Arguments N.add : simpl never.
Arguments N.mul : simpl never.
Arguments N.div : simpl never.
Arguments N.modulo : simpl never.
Arguments N.pow : simpl never.
Arguments N.ltb : simpl never.
Arguments N.eqb : simpl never.
Arguments N.of_nat : simpl never.
Arguments N.to_nat : simpl never.
Arguments be_bytes : simpl never.

(* ---- facts about the regenerated tables (re-checked on every run) *)
Lemma dec_byte_enc t : dec_byte t = Some (opcode_byte t).
Proof. destruct t; reflexivity. Qed.
Lemma enc_shape_native t : enc_shape t = native_shape t.
Proof. destruct t; reflexivity. Qed.
Lemma dec_shape_native t : dec_shape t = native_shape t.
Proof. destruct t; reflexivity. Qed.
Lemma tag_of_byte_enc t : tag_of_byte (opcode_byte t) = Some t.
Proof. destruct t; vm_compute; reflexivity. Qed.
Lemma opcode_byte_lt t : opcode_byte t < 256.
Proof. destruct t; reflexivity. Qed.
Lemma opcode_byte_inj t1 t2 : opcode_byte t1 = opcode_byte t2 -> t1 = t2.
Proof. intros H. pose proof (tag_of_byte_enc t1) as H1. rewrite H, tag_of_byte_enc in H1. congruence. Qed.

Lemma tag_of_byte_sound b t : tag_of_byte b = Some t -> opcode_byte t = b.
Proof.
  unfold tag_of_byte. intros H. apply find_some in H as [_ H].
  rewrite dec_byte_enc in H. apply N.eqb_eq in H. exact H.
Qed.

(* ---- constructors vs. (tag, operands) *)
Lemma build_args o : build (tag_of o) (args_of o) = Some o.
Proof. destruct o; reflexivity. Qed.

Lemma build_inv t a o : build t a = Some o -> tag_of o = t /\ args_of o = a.
Proof. destruct t, a; cbn; intros H; try discriminate; injection H as <-; auto. Qed.

Definition wf_arg (s : shape) (a : arg) : Prop :=
  match s, a with
  | SNone, ANone => True
  | SU8, A1 k => k < U8
  | SU16, A1 n => n < U16
  | SU16U16, A2 a b => a < U16 /\ b < U16
  | SBytes, ABytes l => bytes_ok l
  | SInt32, A1 n => n < U256
  | SIntC, A1 n => n < U256
  | _, _ => False
  end.

Lemma wf_op_arg o : wf_op o <-> wf_arg (native_shape (tag_of o)) (args_of o).
Proof. destruct o; cbn; tauto. Qed.

(* ---- take *)
Lemma take_spec n bs x r : take n bs = Some (x, r) -> bs = x ++ r /\ N.of_nat (length x) = n.
Proof.
  unfold take. destruct (N.ltb_spec (N.of_nat (length bs)) n) as [|Hle]; [discriminate|].
  intros H. injection H as <- <-. split; [symmetry; apply firstn_skipn|].
  rewrite firstn_length. lia.
Qed.

Lemma take_app x r : take (N.of_nat (length x)) (x ++ r) = Some (x, r).
Proof.
  unfold take. rewrite app_length.
  destruct (N.ltb_spec (N.of_nat (length x + length r)) (N.of_nat (length x))) as [Hlt|_]; [lia|].
  rewrite Nat2N.id. rewrite firstn_app, Nat.sub_diag, firstn_all. cbn [firstn].
  rewrite app_nil_r. rewrite skipn_app, Nat.sub_diag, skipn_all. reflexivity.
Qed.

(* ---- byte_len *)
Lemma byte_len_fuel_le f : forall v k, v < 256 ^ N.of_nat k -> byte_len_fuel f v <= N.of_nat k.
Proof.
  induction f as [|f IH]; intros v k H; cbn [byte_len_fuel]; [lia|].
  destruct (N.eqb_spec v 0) as [->|Hv]; [lia|].
  destruct k as [|k].
  - change (N.of_nat 0) with 0 in H. rewrite N.pow_0_r in H. lia.
  - rewrite Nat2N.inj_succ, N.pow_succ_r' in H.
    assert (v / 256 < 256 ^ N.of_nat k).
    { apply N.div_lt_upper_bound; [discriminate|exact H]. }
    specialize (IH _ _ H0). lia.
Qed.

Lemma byte_len_fuel_bound f : forall v, v < 256 ^ N.of_nat f -> v < 256 ^ byte_len_fuel f v.
Proof.
  induction f as [|f IH]; intros v H; cbn [byte_len_fuel].
  - exact H.
  - destruct (N.eqb_spec v 0) as [->|Hv]; [rewrite N.pow_0_r; lia|].
    rewrite Nat2N.inj_succ, N.pow_succ_r' in H.
    assert (Hd: v / 256 < 256 ^ N.of_nat f).
    { apply N.div_lt_upper_bound; [discriminate|exact H]. }
    specialize (IH _ Hd).
    replace (1 + byte_len_fuel f (v / 256)) with (N.succ (byte_len_fuel f (v / 256))) by lia.
    rewrite N.pow_succ_r'.
    pose proof (N.div_mod v 256 ltac:(discriminate)) as E.
    pose proof (N.mod_lt v 256 ltac:(discriminate)). lia.
Qed.

Lemma U256_pow : U256 = 256 ^ N.of_nat 32.
Proof. reflexivity. Qed.

Lemma byte_len_le32 v : v < U256 -> byte_len v <= 32.
Proof. intros H. rewrite U256_pow in H. apply (byte_len_fuel_le 33 v 32 H). Qed.

Lemma byte_len_bound v : v < U256 -> v < 256 ^ byte_len v.
Proof.
  intros H. apply byte_len_fuel_bound. eapply N.lt_trans; [exact H|]. reflexivity.
Qed.

(* ---- operand round trips *)
Lemma be2 n : be_bytes 2 n = [(n / 256) mod 256; n mod 256].
Proof. reflexivity. Qed.

Lemma read_write s a w r :
  wf_arg s a -> write_arg s a = Some w -> read_arg s (w ++ r) = Some (a, r).
Proof.
  destruct s, a; cbn [wf_arg write_arg]; intros Hwf Hw; try contradiction; try discriminate.
  - injection Hw as <-. reflexivity.
  - injection Hw as <-. reflexivity.
  - injection Hw as <-. unfold U16 in Hwf.
    assert (E: (n / 256) mod 256 * 256 + n mod 256 = n) by lia.
    rewrite be2. cbn [app read_arg]. rewrite E. reflexivity.
  - injection Hw as <-. unfold U16 in Hwf. destruct Hwf as [Ha Hb].
    assert (E1: (a / 256) mod 256 * 256 + a mod 256 = a) by lia.
    assert (E2: (b / 256) mod 256 * 256 + b mod 256 = b) by lia.
    rewrite !be2. cbn [app read_arg]. rewrite E1, E2. reflexivity.
  - destruct (N.ltb_spec 255 (N.of_nat (length l))); [discriminate|]. injection Hw as <-.
    cbn [app read_arg]. rewrite take_app. reflexivity.
  - injection Hw as <-. cbn [read_arg].
    pose proof (take_app (be_bytes 32 n) r) as T. rewrite be_bytes_length in T.
    change (N.of_nat 32) with 32 in T. rewrite T.
    rewrite of_be_be_bytes, <- U256_pow, N.mod_small by exact Hwf. reflexivity.
  - injection Hw as <-. cbn [app read_arg].
    pose proof (byte_len_le32 n Hwf) as Hle.
    destruct (N.ltb_spec 32 (byte_len n)) as [Hgt|_]; [lia|].
    pose proof (take_app (be_bytes (N.to_nat (byte_len n)) n) r) as T.
    rewrite be_bytes_length, N2Nat.id in T. rewrite T.
    rewrite of_be_be_bytes, N2Nat.id, N.mod_small by (apply byte_len_bound; exact Hwf).
    rewrite N.eqb_refl. reflexivity.
Qed.

Lemma write_read s bs a r :
  bytes_ok bs -> read_arg s bs = Some (a, r) ->
  exists w, write_arg s a = Some w /\ bs = w ++ r /\ wf_arg s a.
Proof.
  intros Hok. destruct s; cbn [read_arg]; intros H.
  - injection H as <- <-. exists []. cbn. auto.
  - destruct bs as [|b bs]; [discriminate|]. injection H as <- <-.
    apply bytes_ok_cons in Hok as [Hb _]. exists [b]. cbn. auto.
  - destruct bs as [|x [|y bs]]; try discriminate. injection H as <- <-.
    apply bytes_ok_cons in Hok as [Hx Hok]. apply bytes_ok_cons in Hok as [Hy _].
    exists [x; y]. cbn [write_arg wf_arg]. unfold U16.
    assert (E1: ((x * 256 + y) / 256) mod 256 = x) by lia.
    assert (E2: (x * 256 + y) mod 256 = y) by lia.
    split; [|split; [reflexivity|lia]]. rewrite be2, E1, E2. reflexivity.
  - destruct bs as [|x [|y [|z [|u bs]]]]; try discriminate. injection H as <- <-.
    apply bytes_ok_cons in Hok as [Hx Hok]. apply bytes_ok_cons in Hok as [Hy Hok].
    apply bytes_ok_cons in Hok as [Hz Hok]. apply bytes_ok_cons in Hok as [Hu _].
    exists [x; y; z; u]. cbn [write_arg wf_arg]. unfold U16.
    assert (E1: ((x * 256 + y) / 256) mod 256 = x) by lia.
    assert (E2: (x * 256 + y) mod 256 = y) by lia.
    assert (E3: ((z * 256 + u) / 256) mod 256 = z) by lia.
    assert (E4: (z * 256 + u) mod 256 = u) by lia.
    split; [|split; [reflexivity|lia]]. rewrite !be2, E1, E2, E3, E4. reflexivity.
  - destruct bs as [|n bs]; [discriminate|].
    destruct (take n bs) as [[x r']|] eqn:T; [|discriminate]. injection H as <- <-.
    apply take_spec in T as [-> Hl].
    apply bytes_ok_cons in Hok as [Hn Hok]. apply bytes_ok_app in Hok as [Hx _].
    exists (n :: x). cbn [write_arg wf_arg]. rewrite Hl.
    destruct (N.ltb_spec 255 n); [lia|]. auto.
  - destruct (take 32 bs) as [[x r']|] eqn:T; [|discriminate]. injection H as <- <-.
    apply take_spec in T as [-> Hl]. apply bytes_ok_app in Hok as [Hx _].
    exists x. cbn [write_arg wf_arg].
    assert (Hl': length x = 32%nat) by lia.
    split; [|split; [reflexivity|]].
    + rewrite <- Hl'. rewrite be_bytes_of_be by exact Hx. reflexivity.
    + rewrite U256_pow, <- Hl'. apply of_be_lt. exact Hx.
  - destruct bs as [|n bs]; [discriminate|].
    destruct (N.ltb_spec 32 n) as [|Hn]; [discriminate|].
    destruct (take n bs) as [[x r']|] eqn:T; [|discriminate].
    destruct (N.eqb_spec (byte_len (of_be x)) n) as [Hb|]; [|discriminate].
    injection H as <- <-.
    apply take_spec in T as [-> Hl].
    apply bytes_ok_cons in Hok as [_ Hok]. apply bytes_ok_app in Hok as [Hx _].
    exists (n :: x). cbn [write_arg wf_arg]. rewrite Hb.
    split; [|split; [reflexivity|]].
    + rewrite <- Hl at 2. rewrite Nat2N.id, be_bytes_of_be by exact Hx. reflexivity.
    + eapply N.lt_le_trans; [apply of_be_lt; exact Hx|]. rewrite Hl, U256_pow.
      apply N.pow_le_mono_r; [discriminate|exact Hn].
Qed.

(* ---- single opcode *)
Lemma decode_encode_op o w r :
  wf_op o -> encode_op o = Some w -> decode_op (w ++ r) = Some (o, r).
Proof.
  unfold encode_op. intros Hwf.
  destruct (write_arg (enc_shape (tag_of o)) (args_of o)) as [bs|] eqn:W; [|discriminate].
  intros H. injection H as <-. cbn [app decode_op].
  rewrite tag_of_byte_enc. rewrite dec_shape_native. rewrite enc_shape_native in W.
  rewrite (read_write _ _ _ r (proj1 (wf_op_arg o) Hwf) W). rewrite build_args. reflexivity.
Qed.

Lemma encode_decode_op bs o r :
  bytes_ok bs -> decode_op bs = Some (o, r) ->
  exists w, encode_op o = Some w /\ bs = w ++ r /\ wf_op o /\ w <> [].
Proof.
  intros Hok. unfold decode_op. destruct bs as [|b bs]; [discriminate|].
  destruct (tag_of_byte b) as [t|] eqn:Ht; [|discriminate].
  destruct (read_arg (dec_shape t) bs) as [[a r']|] eqn:Hr; [|discriminate].
  destruct (build t a) as [o'|] eqn:Hb; [|discriminate].
  intros H. injection H as <- <-.
  apply build_inv in Hb as [Htag Harg]. apply tag_of_byte_sound in Ht.
  apply bytes_ok_cons in Hok as [_ Hok].
  rewrite dec_shape_native in Hr.
  destruct (write_read _ _ _ _ Hok Hr) as (w & Hw & -> & Hwf).
  exists (b :: w). unfold encode_op. rewrite Htag, enc_shape_native, Harg, Hw, Ht.
  split; [reflexivity|]. split; [reflexivity|]. split; [|discriminate].
  apply wf_op_arg. rewrite Htag, Harg. exact Hwf.
Qed.

Lemma write_arg_ok s a w : wf_arg s a -> write_arg s a = Some w -> bytes_ok w.
Proof.
  destruct s, a; intros Hwf W; cbn [wf_arg write_arg] in *; try contradiction; try discriminate.
  - assert (w = []) by congruence; subst. constructor.
  - assert (w = [n]) by congruence; subst. constructor; [exact Hwf|constructor].
  - assert (w = be_bytes 2 n) by congruence; subst. apply be_bytes_ok.
  - assert (w = be_bytes 2 a ++ be_bytes 2 b) by congruence; subst.
    apply bytes_ok_app. split; apply be_bytes_ok.
  - destruct (N.ltb_spec 255 (N.of_nat (length l))); [discriminate|].
    assert (w = N.of_nat (length l) :: l) by congruence; subst.
    apply bytes_ok_cons. split; [lia|exact Hwf].
  - assert (w = be_bytes 32 n) by congruence; subst. apply be_bytes_ok.
  - assert (w = byte_len n :: be_bytes (N.to_nat (byte_len n)) n) by congruence; subst.
    apply bytes_ok_cons. split; [|apply be_bytes_ok].
    pose proof (byte_len_le32 n Hwf). lia.
Qed.

Lemma encode_op_ok o w : wf_op o -> encode_op o = Some w -> bytes_ok w /\ w <> [].
Proof.
  intros Hwf H. unfold encode_op in H.
  destruct (write_arg (enc_shape (tag_of o)) (args_of o)) as [bs|] eqn:W; [|discriminate].
  injection H as <-. split; [|discriminate].
  apply bytes_ok_cons. split; [apply opcode_byte_lt|].
  rewrite enc_shape_native in W. apply wf_op_arg in Hwf.
  eapply write_arg_ok; eauto.
Qed.

(* ---- whole programs *)
Lemma decode_fuel_enc : forall f bs ops,
  bytes_ok bs -> decode_fuel f bs = Some ops ->
  encode_all ops = Some bs /\ Forall wf_op ops.
Proof.
  induction f as [|f IH]; intros bs ops Hok H.
  - destruct bs; [|discriminate]. injection H as <-. cbn. auto.
  - destruct bs as [|b bs]; [injection H as <-; cbn; auto|].
    cbn [decode_fuel] in H.
    destruct (decode_op (b :: bs)) as [[o r]|] eqn:D; [|discriminate].
    destruct (decode_fuel f r) as [os|] eqn:R; [|discriminate]. injection H as <-.
    destruct (encode_decode_op _ _ _ Hok D) as (w & Hw & E & Hwf & _).
    rewrite E in Hok. apply bytes_ok_app in Hok as [_ Hr].
    destruct (IH _ _ Hr R) as [He Hf].
    cbn [encode_all]. rewrite Hw, He, E. auto.
Qed.

Theorem decode_then_encode bs ops :
  bytes_ok bs -> decode_all bs = Some ops -> encode_all ops = Some bs /\ Forall wf_op ops.
Proof. intros Hok H. exact (decode_fuel_enc _ _ _ Hok H). Qed.

Lemma encode_all_dec : forall ops bs f,
  Forall wf_op ops -> encode_all ops = Some bs -> (length bs <= f)%nat ->
  decode_fuel f bs = Some ops.
Proof.
  induction ops as [|o ops IH]; intros bs f Hwf H Hf.
  - injection H as <-. destruct f; reflexivity.
  - cbn [encode_all] in H.
    destruct (encode_op o) as [w|] eqn:Ho; [|discriminate].
    destruct (encode_all ops) as [rest|] eqn:Hr; [|discriminate]. injection H as <-.
    inversion Hwf as [|? ? Hwo Hwr]; subst.
    destruct (encode_op_ok _ _ Hwo Ho) as [_ Hne].
    destruct w as [|b w]; [contradiction|].
    destruct f as [|f]; [cbn in Hf; lia|].
    cbn [app decode_fuel].
    pose proof (decode_encode_op o (b :: w) rest Hwo Ho) as D. cbn [app] in D. rewrite D.
    rewrite (IH rest f Hwr eq_refl); [reflexivity|].
    cbn [app length] in Hf. rewrite app_length in Hf. lia.
Qed.

Theorem encode_then_decode ops bs :
  Forall wf_op ops -> encode_all ops = Some bs -> decode_all bs = Some ops.
Proof. intros Hwf H. unfold decode_all. apply (encode_all_dec ops bs _ Hwf H). lia. Qed.

Theorem encode_all_bytes_ok ops bs :
  Forall wf_op ops -> encode_all ops = Some bs -> bytes_ok bs.
Proof.
  revert bs. induction ops as [|o ops IH]; intros bs Hwf H.
  - injection H as <-. constructor.
  - cbn [encode_all] in H.
    destruct (encode_op o) as [w|] eqn:Ho; [|discriminate].
    destruct (encode_all ops) as [rest|] eqn:Hr; [|discriminate]. injection H as <-.
    inversion Hwf; subst. apply bytes_ok_app. split.
    + eapply encode_op_ok; eauto.
    + apply IH; auto.
Qed.

(* encode fails exactly for a PushB longer than 255 bytes *)
Theorem encode_op_total o :
  wf_op o -> encode_op o = None <-> exists bs, o = PushB bs /\ (255 < length bs)%nat.
Proof.
  intros Hwf. unfold encode_op. rewrite enc_shape_native.
  destruct o; cbn; try (split; [discriminate|intros (? & ? & ?); discriminate]).
  destruct (N.ltb_spec 255 (N.of_nat (length bs))).
  - split; [intros _; exists bs; split; [reflexivity|lia]|reflexivity].
  - split; [discriminate|]. intros (x & E & Hx). injection E as <-. lia.
Qed.

(* decoding is injective: a byte string denotes at most one program, and two byte strings that decode
   to the same program are equal *)
Theorem decode_all_inj b1 b2 ops :
  bytes_ok b1 -> bytes_ok b2 -> decode_all b1 = Some ops -> decode_all b2 = Some ops -> b1 = b2.
Proof.
  intros H1 H2 D1 D2.
  destruct (decode_then_encode _ _ H1 D1) as [E1 _].
  destruct (decode_then_encode _ _ H2 D2) as [E2 _]. congruence.
Qed.

(* The model never leaves the domain the implementation can represent: every integer on the stack and in the heap
   stays below 2^256 (the executor's U256) and every byte below 256 (its u8), whatever instruction is executed -
   so a model value always IS a MelVM value.  (The two length instructions are in range whenever the measured
   sequence has fewer than 2^256 elements.) *)
From MelVerif Require Import Base.Arith VM.Op Generated VM.Weight VM.Exec.
From Coq Require Import List Lia ZifyN ZifyNat ZifyBool.
Import ListNotations.
Open Scope N_scope.

Fixpoint vwf (v : value) : bool :=
  match v with
  | VInt n => n <? U256
  | VBytes l => forallb (fun b => b <? 256) l
  | VVec l => forallb vwf l
  end.

Definition stwf (s : state) : bool := forallb vwf (stack s) && forallb (fun kv => vwf (snd kv)) (heap s).

(* literals of the program are in range (the decoder only produces such literals) *)
Definition opwf (o : op) : bool :=
  match o with
  | PushI n | PushIC n => n <? U256
  | PushB b => forallb (fun x => x <? 256) b
  | _ => true
  end.

(* the hash oracle returns bytes *)
Definition oracle_wf (O : oracle) : Prop := forall b, forallb (fun x => x <? 256) (o_hash O b) = true.

Definition length_in_range (o : op) (s : state) : Prop :=
  match o, stack s with
  | VLength, VVec l :: _ => len l < U256
  | BLength, VBytes l :: _ => len l < U256
  | _, _ => True
  end.

Lemma vwf_int n : vwf (VInt n) = true <-> n < U256.
Proof. apply N.ltb_lt. Qed.

Lemma u256_pos : 0 < U256. Proof. unfold U256. lia. Qed.
Lemma mod_u256 x : x mod U256 < U256. Proof. apply N.mod_lt. unfold U256. lia. Qed.

Lemma lt_pow2_log2 a n : a < 2 ^ n <-> a = 0 \/ N.log2 a < n.
Proof.
  destruct (N.eq_dec a 0) as [->|Hne].
  - split; [auto|]. intros _. apply N.neq_0_lt_0, N.pow_nonzero. discriminate.
  - split.
    + intros H. right. apply N.log2_lt_pow2; lia.
    + intros [H|H]; [contradiction|]. apply N.log2_lt_pow2; lia.
Qed.

Lemma U256_pow : U256 = 2 ^ 256. Proof. reflexivity. Qed.

Lemma lor_range a b : a < U256 -> b < U256 -> N.lor a b < U256.
Proof.
  rewrite U256_pow. intros Ha Hb. apply lt_pow2_log2.
  destruct (N.eq_dec (N.lor a b) 0) as [E|E]; [left; exact E|right].
  rewrite N.log2_lor. apply lt_pow2_log2 in Ha, Hb.
  destruct Ha as [->|Ha], Hb as [->|Hb]; cbn [N.log2] in *; try lia; try (cbn in E; contradiction).
Qed.
Lemma lxor_range a b : a < U256 -> b < U256 -> N.lxor a b < U256.
Proof.
  rewrite U256_pow. intros Ha Hb. apply lt_pow2_log2.
  destruct (N.eq_dec (N.lxor a b) 0) as [E|E]; [left; exact E|right].
  pose proof (N.log2_lxor a b) as L. apply lt_pow2_log2 in Ha, Hb.
  destruct Ha as [->|Ha], Hb as [->|Hb]; cbn [N.log2] in *; rewrite ?N.lxor_0_l, ?N.lxor_0_r in *; try lia; try (cbn in E; contradiction).
Qed.
Lemma land_range a b : a < U256 -> N.land a b < U256.
Proof.
  rewrite U256_pow. intros Ha. apply lt_pow2_log2.
  destruct (N.eq_dec (N.land a b) 0) as [E|E]; [left; exact E|right].
  pose proof (N.log2_land a b) as L. apply lt_pow2_log2 in Ha. destruct Ha as [->|Ha]; [cbn in E; contradiction|]. lia.
Qed.
Lemma shiftr_range x n : x < U256 -> N.shiftr x n < U256.
Proof.
  intros H. rewrite N.shiftr_div_pow2.
  assert (Hp: 2 ^ n <> 0) by (apply N.pow_nonzero; discriminate).
  assert (x / 2 ^ n <= x) by (apply N.div_le_upper_bound; [exact Hp|nia]).
  lia.
Qed.

Lemma exp_loop_range : forall fuel k e b res v, res < U256 -> exp_loop fuel k e b res = Some v -> v < U256.
Proof.
  induction fuel as [|f IH]; intros k e b res v Hr H; cbn [exp_loop] in H; [discriminate|].
  destruct (e =? 0); [injection H as <-; exact Hr|]. destruct (k =? 0); [discriminate|].
  eapply IH; [|exact H]. destruct (N.odd e); [apply mod_u256|exact Hr].
Qed.

(* ---- generic stack operators *)
Lemma forallb_cons_true {A} (p : A -> bool) x l : forallb p (x :: l) = true <-> p x = true /\ forallb p l = true.
Proof. cbn. apply andb_true_iff. Qed.

Lemma monop_wf st f st' :
  (forall x v, vwf x = true -> f x = Some v -> vwf v = true) ->
  forallb vwf st = true -> monop st f = Some st' -> forallb vwf st' = true.
Proof.
  intros Hf Hs H. destruct st as [|x r]; [discriminate|]. cbn [monop] in H.
  apply forallb_cons_true in Hs as [Hx Hr]. destruct (f x) as [v|] eqn:E; [|discriminate]. injection H as <-.
  apply forallb_cons_true. split; [exact (Hf x v Hx E)|exact Hr].
Qed.
Lemma binop_wf st f st' :
  (forall x y v, vwf x = true -> vwf y = true -> f x y = Some v -> vwf v = true) ->
  forallb vwf st = true -> binop st f = Some st' -> forallb vwf st' = true.
Proof.
  intros Hf Hs H. destruct st as [|x [|y r]]; cbn [binop] in H; try discriminate.
  apply forallb_cons_true in Hs as [Hx Hr]. apply forallb_cons_true in Hr as [Hy Hr].
  destruct (f x y) as [v|] eqn:E; [|discriminate]. injection H as <-.
  apply forallb_cons_true. split; [exact (Hf x y v Hx Hy E)|exact Hr].
Qed.
Lemma triop_wf st f st' :
  (forall x y z v, vwf x = true -> vwf y = true -> vwf z = true -> f x y z = Some v -> vwf v = true) ->
  forallb vwf st = true -> triop st f = Some st' -> forallb vwf st' = true.
Proof.
  intros Hf Hs H. destruct st as [|x [|y [|z r]]]; cbn [triop] in H; try discriminate.
  apply forallb_cons_true in Hs as [Hx Hr]. apply forallb_cons_true in Hr as [Hy Hr]. apply forallb_cons_true in Hr as [Hz Hr].
  destruct (f x y z) as [v|] eqn:E; [|discriminate]. injection H as <-.
  apply forallb_cons_true. split; [exact (Hf x y z v Hx Hy Hz E)|exact Hr].
Qed.
Lemma int2_wf f x y v :
  (forall a b c, a < U256 -> b < U256 -> f a b = Some c -> c < U256) ->
  vwf x = true -> vwf y = true -> int2 f x y = Some v -> vwf v = true.
Proof.
  intros Hf Hx Hy H. destruct x as [a| |]; try discriminate. destruct y as [b| |]; try discriminate.
  cbn [int2] in H. destruct (f a b) as [c|] eqn:E; [|discriminate]. injection H as <-.
  apply vwf_int in Hx, Hy. apply vwf_int. exact (Hf a b c Hx Hy E).
Qed.

Lemma forallb_nth {A} (p : A -> bool) l i x : forallb p l = true -> nth_error l i = Some x -> p x = true.
Proof. intros H E. rewrite forallb_forall in H. apply H. eapply nth_error_In. exact E. Qed.
Lemma forallb_set_nth {A} (p : A -> bool) : forall l i x l', forallb p l = true -> p x = true -> set_nth l i x = Some l' -> forallb p l' = true.
Proof.
  induction l as [|a l IH]; intros i x l' Hl Hx H; [destruct i; discriminate|].
  apply forallb_cons_true in Hl as [Ha Hl]. destruct i as [|i]; cbn [set_nth] in H.
  - injection H as <-. apply forallb_cons_true. auto.
  - destruct (set_nth l i x) as [r|] eqn:E; [|discriminate]. injection H as <-. apply forallb_cons_true. split; [exact Ha|eapply IH; eauto].
Qed.
Lemma forallb_firstn {A} (p : A -> bool) n : forall l, forallb p l = true -> forallb p (firstn n l) = true.
Proof. induction n as [|n IH]; intros [|a l] H; cbn; auto. apply forallb_cons_true in H as [Ha Hl]. rewrite Ha. cbn. apply IH. exact Hl. Qed.
Lemma forallb_skipn {A} (p : A -> bool) n : forall l, forallb p l = true -> forallb p (skipn n l) = true.
Proof. induction n as [|n IH]; intros [|a l] H; cbn; auto. apply forallb_cons_true in H as [Ha Hl]. apply IH. exact Hl. Qed.
Lemma forallb_slice {A} (p : A -> bool) l b e : forallb p l = true -> forallb p (slice l b e) = true.
Proof. intros H. unfold slice. destruct (_ || _); [reflexivity|]. apply forallb_firstn, forallb_skipn. exact H. Qed.

Lemma heap_get_wf h a v : forallb (fun kv => vwf (snd kv)) h = true -> heap_get h a = Some v -> vwf v = true.
Proof.
  induction h as [|[k x] h IH]; intros H E; cbn [heap_get] in E; [discriminate|].
  apply forallb_cons_true in H as [Hx Hh]. destruct (k =? a); [injection E as <-; exact Hx|apply IH; assumption].
Qed.

Lemma be_bytes_ok : forall n x, forallb (fun b => b <? 256) (be_bytes n x) = true.
Proof.
  induction n as [|n IH]; intros x; cbn [be_bytes]; [reflexivity|].
  rewrite forallb_app, IH. cbn. rewrite andb_true_r. apply N.ltb_lt, N.mod_lt. discriminate.
Qed.

Lemma of_be_range l : forallb (fun b => b <? 256) l = true -> of_be l < 256 ^ len l.
Proof.
  unfold of_be, len. intros H.
  assert (G: forall l acc k, forallb (fun b => b <? 256) l = true -> acc < 256 ^ k ->
             fold_left (fun acc b => acc * 256 + b) l acc < 256 ^ (k + N.of_nat (length l))).
  { clear. induction l as [|b l IH]; intros acc k Hl Ha; cbn [fold_left length]; [rewrite N.add_0_r; exact Ha|].
    apply forallb_cons_true in Hl as [Hb Hl]. apply N.ltb_lt in Hb.
    replace (k + N.of_nat (S (length l))) with ((k + 1) + N.of_nat (length l)) by lia.
    apply IH; [exact Hl|]. rewrite N.pow_add_r. change (256 ^ 1) with 256. nia. }
  specialize (G l 0 0 H). rewrite N.add_0_l in G. apply G. cbn. lia.
Qed.

Section Range.
Variable O : oracle.
Hypothesis HO : oracle_wf O.

Theorem exec_op_range o s s' :
  opwf o = true -> length_in_range o s -> stwf s = true -> exec_op O o s = Some s' -> stwf s' = true.
Proof.
  intros Ho Hlen Hs H. unfold stwf in *. apply andb_true_iff in Hs as [Hst Hhp].
  assert (Ret: forall st, forallb vwf st = true ->
             forallb vwf (stack {| pc := pc s + 1; stack := st; heap := heap s; loops := loops s |}) &&
             forallb (fun kv => vwf (snd kv)) (heap {| pc := pc s + 1; stack := st; heap := heap s; loops := loops s |}) = true).
  { intros st Hx. cbn [stack heap]. rewrite Hx, Hhp. reflexivity. }
  assert (Lift: forall r, (forall st, r = Some st -> forallb vwf st = true) ->
            match r with Some st => Some {| pc := pc s + 1; stack := st; heap := heap s; loops := loops s |} | None => None end = Some s' ->
            forallb vwf (stack s') && forallb (fun kv => vwf (snd kv)) (heap s') = true).
  { intros r Hr E. destruct r as [st|]; [|discriminate]. injection E as <-. apply Ret. apply Hr. reflexivity. }
  assert (I2: forall f, (forall a b c, a < U256 -> b < U256 -> f a b = Some c -> c < U256) ->
            forall st, binop (stack s) (int2 f) = Some st -> forallb vwf st = true).
  { intros f Hf st E. eapply binop_wf; [|exact Hst|exact E]. intros x y v Hx Hy. apply int2_wf; assumption. }
  destruct o; cbn [exec_op] in H; cbn [opwf] in Ho;
    try (refine (Lift _ _ H); intros st E; eapply I2; [|exact E]; intros a b c Ha Hb Ec; injection Ec as <-; first [apply mod_u256|unfold wadd256, wsub256, wmul256; apply mod_u256|destruct (_ =? _); unfold U256; lia|destruct (_ <? _); unfold U256; lia]).
  - (* Noop *) injection H as <-. apply Ret. exact Hst.
  - (* Div *) refine (Lift _ _ H); intros st E; eapply I2; [|exact E]; intros a b c Ha Hb Ec; cbn beta in Ec; revert Ec; destruct (N.eqb_spec b 0) as [Eb|Eb]; intros Ec; [discriminate|]; injection Ec as <-;
      assert (a / b <= a) by (apply N.div_le_upper_bound; [lia|nia]); lia.
  - (* Rem *) refine (Lift _ _ H); intros st E; eapply I2; [|exact E]; intros a b c Ha Hb Ec; cbn beta in Ec; revert Ec; destruct (N.eqb_spec b 0) as [Eb|Eb]; intros Ec; [discriminate|]; injection Ec as <-;
      assert (a mod b < b) by (apply N.mod_lt; lia); lia.
  - (* Exp *) refine (Lift _ _ H); intros st E; eapply I2; [|exact E]; intros a b c Ha Hb Ec; eapply exp_loop_range; [|exact Ec]; unfold U256; lia.
  - (* And *) refine (Lift _ _ H); intros st E; eapply I2; [|exact E]; intros a b c Ha Hb Ec; injection Ec as <-; apply land_range; exact Ha.
  - (* Or *) refine (Lift _ _ H); intros st E; eapply I2; [|exact E]; intros a b c Ha Hb Ec; injection Ec as <-; apply lor_range; assumption.
  - (* Xor *) refine (Lift _ _ H); intros st E; eapply I2; [|exact E]; intros a b c Ha Hb Ec; injection Ec as <-; apply lxor_range; assumption.
  - (* Not *) refine (Lift _ _ H); intros st E; eapply monop_wf; [|exact Hst|exact E]; intros x v Hx; cbn beta; destruct x as [a| |]; try (intros Ev; discriminate);
      intros Ev; injection Ev as <-; apply vwf_int in Hx; change (U256 - 1 - a <? U256 = true); apply N.ltb_lt; pose proof u256_pos; lia.
  - (* Shr *) refine (Lift _ _ H); intros st E; eapply I2; [|exact E]; intros a b c Ha Hb Ec; injection Ec as <-; apply shiftr_range; exact Ha.
  - (* Hash *) refine (Lift _ _ H); intros st E; eapply monop_wf; [|exact Hst|exact E]; intros x v Hx; cbn beta; destruct x as [|b|]; try (intros Ev; discriminate);
      destruct (_ <? _); [intros Ev; discriminate|]; intros Ev; injection Ev as <-; apply HO.
  - (* SigEOk *) refine (Lift _ _ H); intros st E; eapply triop_wf; [|exact Hst|exact E]; intros x y z v Hx Hy Hz; unfold sigeok;
      destruct y as [|pk|]; try (intros Ev; discriminate); destruct (32 <? len pk); [intros Ev; injection Ev as <-; reflexivity|];
      destruct (negb _); [intros Ev; discriminate|]; destruct x as [|msg|]; try (intros Ev; discriminate); destruct (_ <? len msg); [intros Ev; discriminate|];
      destruct z as [|sg|]; try (intros Ev; discriminate); destruct (64 <? len sg); intros Ev; injection Ev as <-; [reflexivity|destruct (o_sig _ _ _ _); reflexivity].
  - (* Store *) destruct (stack s) as [|a [|v r]] eqn:Es; try discriminate. destruct (into_u16 a); [|discriminate]. injection H as <-.
    cbn [stack heap heap_set]. apply forallb_cons_true in Hst as [_ Hr]. apply forallb_cons_true in Hr as [Hv Hr].
    apply andb_true_iff. split; [exact Hr|]. apply forallb_cons_true. split; [exact Hv|exact Hhp].
  - (* Load *) destruct (stack s) as [|a r] eqn:Es; try discriminate. destruct (into_u16 a) as [addr|]; [|discriminate].
    destruct (heap_get (heap s) addr) as [v|] eqn:Eg; [|discriminate]. injection H as <-. apply Ret.
    apply forallb_cons_true in Hst as [_ Hr]. apply forallb_cons_true. split; [eapply heap_get_wf; eauto|exact Hr].
  - (* StoreImm *) destruct (stack s) as [|v r] eqn:Es; try discriminate. injection H as <-.
    cbn [stack heap heap_set]. apply forallb_cons_true in Hst as [Hv Hr].
    apply andb_true_iff. split; [exact Hr|]. apply forallb_cons_true. split; [exact Hv|exact Hhp].
  - (* LoadImm *) match type of H with context [heap_get ?hh ?aa] => destruct (heap_get hh aa) as [v|] eqn:Eg end; [|discriminate]. injection H as <-. apply Ret.
    apply forallb_cons_true. split; [eapply heap_get_wf; eauto|exact Hst].
  - (* VRef *) refine (Lift _ _ H); intros st E; eapply binop_wf; [|exact Hst|exact E]; intros x y v Hx Hy; cbn beta;
      destruct (into_u16 y); [|intros Ev; discriminate]; destruct x as [| |l]; try (intros Ev; discriminate); cbn [into_vec]; intros Ev; eapply forallb_nth; [exact Hx|exact Ev].
  - (* VAppend *) refine (Lift _ _ H); intros st E; eapply binop_wf; [|exact Hst|exact E]; intros x y v Hx Hy; cbn beta;
      destruct x as [| |a]; try (intros Ev; discriminate); destruct y as [| |b]; try (intros Ev; discriminate); intros Ev; injection Ev as <-; cbn [vwf] in Hx, Hy |- *; rewrite forallb_app, Hx, Hy; reflexivity.
  - (* VEmpty *) injection H as <-. apply Ret. apply forallb_cons_true. split; [reflexivity|exact Hst].
  - (* VLength *) refine (Lift _ _ H); intros st E; destruct (stack s) as [|x r] eqn:Es; [discriminate|]; cbn [monop] in E;
      destruct x as [| |l]; try discriminate; injection E as <-; apply forallb_cons_true in Hst as [_ Hr];
      apply forallb_cons_true; split; [apply vwf_int; unfold length_in_range in Hlen; rewrite Es in Hlen; exact Hlen|exact Hr].
  - (* VSlice *) refine (Lift _ _ H); intros st E; eapply triop_wf; [|exact Hst|exact E]; intros x y z v Hx Hy Hz; cbn beta;
      destruct (into_u16 y); [|intros Ev; discriminate]; destruct (into_u16 z); [|intros Ev; discriminate]; destruct x as [| |l]; try (intros Ev; discriminate);
      intros Ev; injection Ev as <-; cbn [vwf] in Hx |- *; apply forallb_slice; exact Hx.
  - (* VSet *) refine (Lift _ _ H); intros st E; eapply triop_wf; [|exact Hst|exact E]; intros x y z v Hx Hy Hz; cbn beta;
      destruct (into_u16 y); [|intros Ev; discriminate]; destruct x as [| |l]; try (intros Ev; discriminate); cbn [into_vec];
      destruct (set_nth l _ z) as [l'|] eqn:E2; [|intros Ev; discriminate]; intros Ev; injection Ev as <-; eapply forallb_set_nth; eauto.
  - (* VPush *) refine (Lift _ _ H); intros st E; eapply binop_wf; [|exact Hst|exact E]; intros x y v Hx Hy; cbn beta;
      destruct x as [| |l]; try (intros Ev; discriminate); intros Ev; injection Ev as <-; cbn [vwf] in Hx |- *; rewrite forallb_app, Hx; cbn [forallb]; rewrite Hy; reflexivity.
  - (* VCons *) refine (Lift _ _ H); intros st E; eapply binop_wf; [|exact Hst|exact E]; intros x y v Hx Hy; cbn beta;
      destruct y as [| |l]; try (intros Ev; discriminate); intros Ev; injection Ev as <-; cbn [vwf forallb] in Hy |- *; rewrite Hx, Hy; reflexivity.
  - (* BRef *) refine (Lift _ _ H); intros st E; eapply binop_wf; [|exact Hst|exact E]; intros x y v Hx Hy; cbn beta;
      destruct (into_u16 y); [|intros Ev; discriminate]; destruct x as [|l|]; try (intros Ev; discriminate); cbn [into_bytes];
      destruct (nth_error l _) as [b|] eqn:E2; [|intros Ev; discriminate]; intros Ev; injection Ev as <-; cbn [vwf] in Hx;
      pose proof (forallb_nth _ _ _ _ Hx E2) as Hb; apply N.ltb_lt in Hb; apply vwf_int; unfold U256; lia.
  - (* BAppend *) refine (Lift _ _ H); intros st E; eapply binop_wf; [|exact Hst|exact E]; intros x y v Hx Hy; cbn beta;
      destruct x as [|a|]; try (intros Ev; discriminate); destruct y as [|b|]; try (intros Ev; discriminate); intros Ev; injection Ev as <-; cbn [vwf] in Hx, Hy |- *; rewrite forallb_app, Hx, Hy; reflexivity.
  - (* BEmpty *) injection H as <-. apply Ret. apply forallb_cons_true. split; [reflexivity|exact Hst].
  - (* BLength *) refine (Lift _ _ H); intros st E; destruct (stack s) as [|x r] eqn:Es; [discriminate|]; cbn [monop] in E;
      destruct x as [|l|]; try discriminate; injection E as <-; apply forallb_cons_true in Hst as [_ Hr];
      apply forallb_cons_true; split; [apply vwf_int; unfold length_in_range in Hlen; rewrite Es in Hlen; exact Hlen|exact Hr].
  - (* BSlice *) refine (Lift _ _ H); intros st E; eapply triop_wf; [|exact Hst|exact E]; intros x y z v Hx Hy Hz; cbn beta;
      destruct (into_u16 y); [|intros Ev; discriminate]; destruct (into_u16 z); [|intros Ev; discriminate]; destruct x as [|l|]; try (intros Ev; discriminate);
      intros Ev; injection Ev as <-; cbn [vwf] in Hx |- *; apply forallb_slice; exact Hx.
  - (* BSet *) refine (Lift _ _ H); intros st E; eapply triop_wf; [|exact Hst|exact E]; intros x y z v Hx Hy Hz; cbn beta;
      destruct (into_u16 y); [|intros Ev; discriminate]; destruct x as [|l|]; try (intros Ev; discriminate); destruct z as [nn| |]; try (intros Ev; discriminate); cbn [into_bytes into_int];
      destruct (set_nth l _ _) as [l'|] eqn:E2; [|intros Ev; discriminate]; intros Ev; injection Ev as <-; cbn [vwf] in Hx |- *;
      eapply forallb_set_nth; [exact Hx| |exact E2]; apply N.ltb_lt, N.mod_lt; discriminate.
  - (* BPush *) refine (Lift _ _ H); intros st E; eapply binop_wf; [|exact Hst|exact E]; intros x y v Hx Hy; cbn beta;
      destruct x as [|l|]; try (intros Ev; discriminate); destruct y as [nn| |]; try (intros Ev; discriminate); intros Ev; injection Ev as <-; cbn [vwf] in Hx |- *;
      rewrite forallb_app, Hx; cbn [forallb andb]; rewrite andb_true_r; apply N.ltb_lt, N.mod_lt; discriminate.
  - (* BCons *) refine (Lift _ _ H); intros st E; eapply binop_wf; [|exact Hst|exact E]; intros x y v Hx Hy; cbn beta;
      destruct y as [|l|]; try (intros Ev; discriminate); destruct x as [nn| |]; try (intros Ev; discriminate); intros Ev; injection Ev as <-; cbn [vwf forallb] in Hy |- *;
      rewrite Hy, andb_true_r; apply N.ltb_lt, N.mod_lt; discriminate.
  - (* Bez *) destruct (stack s) as [|top r] eqn:Es; [discriminate|]. injection H as <-. cbn [stack heap].
    apply forallb_cons_true in Hst as [_ Hr]. rewrite Hr, Hhp. reflexivity.
  - (* Bnz *) destruct (stack s) as [|top r] eqn:Es; [discriminate|]. injection H as <-. cbn [stack heap].
    apply forallb_cons_true in Hst as [_ Hr]. rewrite Hr, Hhp. reflexivity.
  - (* Jmp *) injection H as <-. cbn [stack heap]. rewrite Hst, Hhp. reflexivity.
  - (* Loop *) destruct (0 <? _).
    + match type of H with (if ?c then _ else _) = _ => destruct c end; [|discriminate].
      injection H as <-. cbn [stack heap]. rewrite Hst, Hhp. reflexivity.
    + injection H as <-. cbn [stack heap]. rewrite Hst, Hhp. reflexivity.
  - (* ItoB *) refine (Lift _ _ H); intros st E; eapply monop_wf; [|exact Hst|exact E]; intros x v Hx; cbn beta; destruct x as [nn| |]; try (intros Ev; discriminate);
      intros Ev; injection Ev as <-; exact (be_bytes_ok 32 nn).
  - (* BtoI *) refine (Lift _ _ H); intros st E; eapply monop_wf; [|exact Hst|exact E]; intros x v Hx; cbn beta; destruct x as [|l|]; try (intros Ev; discriminate);
      destruct (N.eqb_spec (len l) 32) as [El|]; [|intros Ev; discriminate]; intros Ev; injection Ev as <-; cbn [vwf] in Hx; apply vwf_int;
      pose proof (of_be_range l Hx) as B; rewrite El in B; exact B.
  - (* TypeQ *) refine (Lift _ _ H); intros st E; eapply monop_wf; [|exact Hst|exact E]; intros x v Hx Ev; injection Ev as <-; destruct x; reflexivity.
  - (* PushB *) injection H as <-. apply Ret. apply forallb_cons_true. split; [exact Ho|exact Hst].
  - (* PushI *) injection H as <-. apply Ret. apply forallb_cons_true. split; [exact Ho|exact Hst].
  - (* PushIC *) injection H as <-. apply Ret. apply forallb_cons_true. split; [exact Ho|exact Hst].
  - (* Dup *) destruct (stack s) as [|v r] eqn:Es; [discriminate|]. injection H as <-. apply Ret.
    apply forallb_cons_true in Hst as [Hv Hr]. cbn [forallb]. rewrite Hv, Hr. reflexivity.
Qed.
End Range.

(* one Executor::step keeps every value in range *)
Theorem step_range O prog s s' :
  oracle_wf O -> forallb opwf prog = true ->
  (forall o, nth_error prog (N.to_nat (pc s)) = Some o -> length_in_range o s) ->
  stwf s = true -> step O prog s = Some s' -> stwf s' = true.
Proof.
  intros HO Hp Hl Hs H. unfold step in H.
  destruct (nth_error prog (N.to_nat (pc s))) as [o|] eqn:Eo; [|discriminate].
  destruct (exec_op O o s) as [s1|] eqn:E1; [|discriminate].
  assert (Ho: opwf o = true) by (rewrite forallb_forall in Hp; apply Hp; eapply nth_error_In; exact Eo).
  pose proof (exec_op_range O HO o s s1 Ho (Hl o eq_refl) Hs E1) as H1.
  destruct (update (pc s1) (loops s1)) as [p l]. injection H as <-. exact H1.
Qed.

Lemma vwf_def v :
  vwf v = match v with
          | VInt n => n <? U256
          | VBytes l => forallb (fun b => b <? 256) l
          | VVec l => forallb vwf l
          end.
Proof. destruct v; reflexivity. Qed.
Lemma stwf_def s : stwf s = forallb vwf (stack s) && forallb (fun kv => vwf (snd kv)) (heap s).
Proof. reflexivity. Qed.
Lemma opwf_def o :
  opwf o = match o with PushI n | PushIC n => n <? U256 | PushB b => forallb (fun x => x <? 256) b | _ => true end.
Proof. reflexivity. Qed.
Lemma length_in_range_def o s :
  length_in_range o s <->
  match o, stack s with
  | VLength, VVec l :: _ => len l < U256
  | BLength, VBytes l :: _ => len l < U256
  | _, _ => True
  end.
Proof. reflexivity. Qed.

(* the decoder produces only literals in range *)
From MelVerif Require Import VM.Codec VM.CodecProofs.
Lemma wf_op_opwf o : wf_op o -> opwf o = true.
Proof.
  destruct o; cbn [wf_op opwf]; try reflexivity.
  - intros H. unfold bytes_ok in H. apply forallb_forall. intros x Hx. apply N.ltb_lt. rewrite Forall_forall in H. apply H. exact Hx.
  - intros H. apply N.ltb_lt. exact H.
  - intros H. apply N.ltb_lt. exact H.
Qed.
Theorem decoded_literals_in_range bs ops : bytes_ok bs -> decode_all bs = Some ops -> forallb opwf ops = true.
Proof.
  intros Hb H. destruct (decode_then_encode bs ops Hb H) as [_ Hw]. apply forallb_forall. intros o Ho.
  apply wf_op_opwf. rewrite Forall_forall in Hw. apply Hw. exact Ho.
Qed.

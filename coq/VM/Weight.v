(* opcodes_weight / opcodes_car_weight (lib/melvm/src/opcode.rs).
   A Loop weighs 1 + iters * weight(body) and does NOT consume its body.
   [weight_upto ops k] is the weight of the first k opcodes of ops, by structural recursion on ops. *)
From MelVerif Require Export VM.Op Generated.

Fixpoint weight_upto (ops : list op) (k : nat) : N :=
  match ops, k with
  | [], _ => 0
  | _, O => 0
  | o :: rest, S k' =>
    let car :=
      match o with
      | Loop iters len =>
          sat_add128 (sat_mul128 (weight_upto rest (Nat.min (N.to_nat len) k')) iters) 1
      | _ => base_weight o
      end in
    sat_add128 car (weight_upto rest k')
  end.

Definition weight (ops : list op) : N := weight_upto ops (length ops).

(* exact (unsaturated) weight, used by the step bound: weight = min(weightZ, 2^128-1) *)
Fixpoint weightZ_upto (ops : list op) (k : nat) : N :=
  match ops, k with
  | [], _ => 0
  | _, O => 0
  | o :: rest, S k' =>
    let car :=
      match o with
      | Loop iters len => weightZ_upto rest (Nat.min (N.to_nat len) k') * iters + 1
      | _ => base_weight o
      end in
    car + weightZ_upto rest k'
  end.
Definition weightZ (ops : list op) : N := weightZ_upto ops (length ops).

(* number of opcodes_car_weight calls the Rust recursion performs when weighing the first k opcodes
   (cost model for C11): opcodes_weight on an empty slice makes one call, otherwise one call per
   element, and a Loop element additionally weighs its body with a nested opcodes_weight. *)
Fixpoint weight_work (ops : list op) (k : nat) : N :=
  match ops, k with
  | [], _ => 0
  | _, O => 0
  | o :: rest, S k' =>
    1 + match o with
        | Loop _ len => N.max 1 (weight_work rest (Nat.min (N.to_nat len) k'))
        | _ => 0
        end + weight_work rest k'
  end.
Definition weight_calls (ops : list op) : N := N.max 1 (weight_work ops (length ops)).

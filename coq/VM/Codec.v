(* Bytecode codec: OpCode::encode / OpCode::decode / Covenant::from_bytes / Covenant::to_bytes.
   Opcode bytes and operand shapes come from Generated.v (regenerated from /repo on every run). *)
From MelVerif Require Export VM.Op Generated.

Inductive arg := ANone | A1 (n : N) | A2 (a b : N) | ABytes (l : list N).

Definition args_of (o : op) : arg :=
  match o with
  | Exp k => A1 k
  | Hash n | SigEOk n | StoreImm n | LoadImm n | Bez n | Bnz n | Jmp n => A1 n
  | Loop a b => A2 a b
  | PushB bs => ABytes bs
  | PushI n | PushIC n => A1 n
  | _ => ANone
  end.

Definition build (t : tag) (a : arg) : option op :=
  match t, a with
  | TNoop, ANone => Some Noop
  | TAdd, ANone => Some Add | TSub, ANone => Some Sub | TMul, ANone => Some Mul
  | TDiv, ANone => Some Div | TRem, ANone => Some Rem | TExp, A1 k => Some (Exp k)
  | TAnd, ANone => Some And | TOr, ANone => Some Or | TXor, ANone => Some Xor | TNot, ANone => Some Not
  | TEql, ANone => Some Eql | TLt, ANone => Some Lt | TGt, ANone => Some Gt
  | TShl, ANone => Some Shl | TShr, ANone => Some Shr
  | THash, A1 n => Some (Hash n) | TSigEOk, A1 n => Some (SigEOk n)
  | TStore, ANone => Some Store | TLoad, ANone => Some Load
  | TStoreImm, A1 n => Some (StoreImm n) | TLoadImm, A1 n => Some (LoadImm n)
  | TVRef, ANone => Some VRef | TVAppend, ANone => Some VAppend | TVEmpty, ANone => Some VEmpty
  | TVLength, ANone => Some VLength | TVSlice, ANone => Some VSlice | TVSet, ANone => Some VSet
  | TVPush, ANone => Some VPush | TVCons, ANone => Some VCons
  | TBRef, ANone => Some BRef | TBAppend, ANone => Some BAppend | TBEmpty, ANone => Some BEmpty
  | TBLength, ANone => Some BLength | TBSlice, ANone => Some BSlice | TBSet, ANone => Some BSet
  | TBPush, ANone => Some BPush | TBCons, ANone => Some BCons
  | TBez, A1 n => Some (Bez n) | TBnz, A1 n => Some (Bnz n) | TJmp, A1 n => Some (Jmp n)
  | TLoop, A2 a b => Some (Loop a b)
  | TItoB, ANone => Some ItoB | TBtoI, ANone => Some BtoI | TTypeQ, ANone => Some TypeQ
  | TPushB, ABytes l => Some (PushB l) | TPushI, A1 n => Some (PushI n) | TPushIC, A1 n => Some (PushIC n)
  | TDup, ANone => Some Dup
  | _, _ => None
  end.

(* number of significant bytes of a 256-bit integer: 32 - leading_zeros/8 *)
Fixpoint byte_len_fuel (f : nat) (v : N) : N :=
  match f with
  | O => 0
  | S f' => if v =? 0 then 0 else 1 + byte_len_fuel f' (v / 256)
  end.
Definition byte_len (v : N) : N := byte_len_fuel 33 v.

Definition take (n : N) (bs : list N) : option (list N * list N) :=
  if N.of_nat (length bs) <? n then None
  else Some (firstn (N.to_nat n) bs, skipn (N.to_nat n) bs).

Definition read_arg (s : shape) (bs : list N) : option (arg * list N) :=
  match s with
  | SNone => Some (ANone, bs)
  | SU8 => match bs with b :: r => Some (A1 b, r) | _ => None end
  | SU16 => match bs with a :: b :: r => Some (A1 (a * 256 + b), r) | _ => None end
  | SU16U16 => match bs with a :: b :: c :: d :: r => Some (A2 (a * 256 + b) (c * 256 + d), r) | _ => None end
  | SBytes => match bs with
              | n :: r => match take n r with Some (x, r') => Some (ABytes x, r') | None => None end
              | _ => None end
  | SInt32 => match take 32 bs with Some (x, r) => Some (A1 (of_be x), r) | None => None end
  | SIntC => match bs with
             | n :: r => if 32 <? n then None else
                         match take n r with
                         | Some (x, r') => let v := of_be x in
                                           if byte_len v =? n then Some (A1 v, r') else None
                         | None => None end
             | _ => None end
  end.

Definition write_arg (s : shape) (a : arg) : option (list N) :=
  match s, a with
  | SNone, ANone => Some []
  | SU8, A1 k => Some [k]
  | SU16, A1 n => Some (be_bytes 2 n)
  | SU16U16, A2 a b => Some (be_bytes 2 a ++ be_bytes 2 b)
  | SBytes, ABytes l => if 255 <? N.of_nat (length l) then None else Some (N.of_nat (length l) :: l)
  | SInt32, A1 n => Some (be_bytes 32 n)
  | SIntC, A1 n => Some (byte_len n :: be_bytes (N.to_nat (byte_len n)) n)
  | _, _ => None
  end.

Definition tag_of_byte (b : N) : option tag :=
  find (fun t => match dec_byte t with Some x => x =? b | None => false end) all_tags.

Definition decode_op (bs : list N) : option (op * list N) :=
  match bs with
  | [] => None
  | b :: r =>
    match tag_of_byte b with
    | None => None
    | Some t =>
      match read_arg (dec_shape t) r with
      | None => None
      | Some (a, r') => match build t a with Some o => Some (o, r') | None => None end
      end
    end
  end.

Definition encode_op (o : op) : option (list N) :=
  match write_arg (enc_shape (tag_of o)) (args_of o) with
  | Some bs => Some (opcode_byte (tag_of o) :: bs)
  | None => None
  end.

(* Covenant::from_bytes: decode until the input is empty; fuel = length (every opcode consumes >= 1 byte) *)
Fixpoint decode_fuel (f : nat) (bs : list N) : option (list op) :=
  match bs with
  | [] => Some []
  | _ =>
    match f with
    | O => None
    | S f' =>
      match decode_op bs with
      | None => None
      | Some (o, r) => match decode_fuel f' r with Some os => Some (o :: os) | None => None end
      end
    end
  end.
Definition decode_all (bs : list N) : option (list op) := decode_fuel (length bs) bs.

(* Covenant::to_bytes; Rust unwraps the encode result, so an unencodable op is a panic there *)
Fixpoint encode_all (ops : list op) : option (list N) :=
  match ops with
  | [] => Some []
  | o :: r => match encode_op o, encode_all r with
              | Some a, Some b => Some (a ++ b)
              | _, _ => None
              end
  end.

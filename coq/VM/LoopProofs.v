(* C11: the concrete interpreter (VM/Exec.v) refines the control-flow machine of VM/LoopAbstract.v,
   hence executes at most weightZ prog instructions and always terminates. *)
From MelVerif Require Import Base.Arith VM.Op Generated VM.Weight VM.Exec.
From MelVerif Require VM.LoopAbstract.
From Coq Require Import ZifyN ZifyNat ZifyBool.
Module LA := MelVerif.VM.LoopAbstract.
Open Scope N_scope.

Arguments N.add : simpl never.
Arguments N.mul : simpl never.
Arguments N.sub : simpl never.
Arguments N.ltb : simpl never.
Arguments N.eqb : simpl never.
Arguments N.min : simpl never.
Arguments N.to_nat : simpl never.
Arguments N.of_nat : simpl never.

Definition is_loop (o : op) : bool := match o with Loop _ _ => true | _ => false end.

Definition aop_of (o : op) : LA.aop :=
  match o with
  | Loop it len => LA.ALoop (N.to_nat it) (N.to_nat len)
  | _ => LA.Plain (N.to_nat (base_weight o))
  end.
Definition aprog (prog : list op) : list LA.aop := map aop_of prog.
Definition aframe (f : frame) : LA.frame :=
  {| LA.fb := N.to_nat (f_begin f); LA.fe := N.to_nat (f_end f); LA.fit := N.to_nat (f_left f) |}.
Definition abs (s : state) : nat * list LA.frame := (N.to_nat (pc s), map aframe (loops s)).

Lemma aframe_mk b e l :
  aframe {| f_begin := b; f_end := e; f_left := l |}
  = {| LA.fb := N.to_nat b; LA.fe := N.to_nat e; LA.fit := N.to_nat l |}.
Proof. reflexivity. Qed.

Lemma aop_plain o : is_loop o = false -> aop_of o = LA.Plain (N.to_nat (base_weight o)).
Proof. destruct o; cbn; intros H; try reflexivity; discriminate. Qed.

(* regenerated weight table: every non-Loop opcode weighs at least 1 *)
Lemma base_weight_pos o : is_loop o = false -> 1 <= base_weight o.
Proof.
  destruct o; cbn; intros H; try discriminate; unfold sat_add128, sat_mul128, MAX128, U128; lia.
Qed.

(* ---- weight of the abstraction = weightZ *)
Lemma weightZ_upto_plain o rest k :
  is_loop o = false -> weightZ_upto (o :: rest) (S k) = base_weight o + weightZ_upto rest k.
Proof. destruct o; cbn; intros H; try reflexivity; discriminate. Qed.

Lemma weightZ_upto_loop it len rest k :
  weightZ_upto (Loop it len :: rest) (S k)
  = weightZ_upto rest (Nat.min (N.to_nat len) k) * it + 1 + weightZ_upto rest k.
Proof. reflexivity. Qed.

Lemma weight_abs_upto : forall ops k,
  N.of_nat (LA.weight (firstn k (map aop_of ops))) = weightZ_upto ops k.
Proof.
  induction ops as [|o rest IH]; intros k.
  - rewrite firstn_nil. destruct k; reflexivity.
  - destruct k as [|k]; [reflexivity|].
    cbn [map firstn].
    destruct (is_loop o) eqn:L.
    + destruct o; try discriminate. cbn [aop_of].
      rewrite LA.weight_loop, weightZ_upto_loop, firstn_firstn.
      rewrite !Nat2N.inj_add, Nat2N.inj_mul, !IH, N2Nat.id. change (N.of_nat 1) with 1. lia.
    + rewrite (aop_plain o L), LA.weight_plain, (weightZ_upto_plain o rest k L).
      rewrite Nat2N.inj_add, IH, N2Nat.id. reflexivity.
Qed.

Lemma weight_abs prog : N.of_nat (LA.weight (aprog prog)) = weightZ prog.
Proof.
  unfold weightZ, aprog. rewrite <- weight_abs_upto.
  rewrite <- (map_length aop_of prog), firstn_all. reflexivity.
Qed.

(* saturated weight = min(exact weight, u128::MAX) *)
Lemma weight_upto_sat : forall ops k, weight_upto ops k = N.min (weightZ_upto ops k) MAX128.
Proof.
  induction ops as [|o rest IH]; intros k.
  - destruct k; reflexivity.
  - destruct k as [|k]; [reflexivity|].
    destruct (is_loop o) eqn:L.
    + destruct o; try discriminate. rewrite weightZ_upto_loop. cbn [weight_upto].
      rewrite !IH. unfold sat_add128, sat_mul128, MAX128, U128. nia.
    + rewrite (weightZ_upto_plain o rest k L).
      assert (E: weight_upto (o :: rest) (S k) = sat_add128 (base_weight o) (weight_upto rest k)).
      { destruct o; try discriminate; reflexivity. }
      rewrite E, IH. unfold sat_add128, MAX128, U128. lia.
Qed.

Theorem weight_is_saturated prog : weight prog = N.min (weightZ prog) MAX128.
Proof. apply weight_upto_sat. Qed.

(* ---- update_pc_state *)
Lemma update_abs : forall st p,
  LA.update (N.to_nat p) (map aframe st)
  = (N.to_nat (fst (update p st)), map aframe (snd (update p st))).
Proof.
  induction st as [|f rest IH]; intros p; [reflexivity|].
  cbn [map update LA.update]. cbn [aframe LA.fe LA.fit LA.fb].
  destruct (N.ltb_spec (f_end f) p) as [Hlt|Hge].
  - destruct (Nat.leb_spec (N.to_nat p) (N.to_nat (f_end f))) as [H|H]; [lia|].
    destruct (N.ltb_spec 0 (f_left f)) as [Hl|Hl]; destruct (N.eqb_spec (p - f_end f) 1) as [He|He]; cbn [andb].
    + destruct (Nat.ltb_spec 0 (N.to_nat (f_left f))) as [?|?]; [|lia].
      destruct (Nat.eqb_spec (N.to_nat p) (N.to_nat (f_end f) + 1)) as [?|?]; [|lia].
      cbn [andb fst snd map]. do 2 f_equal.
      unfold aframe. cbn [f_begin f_end f_left]. f_equal. lia.
    + destruct (Nat.eqb_spec (N.to_nat p) (N.to_nat (f_end f) + 1)) as [?|?]; [lia|].
      rewrite Bool.andb_false_r. apply IH.
    + destruct (Nat.ltb_spec 0 (N.to_nat (f_left f))) as [?|?]; [lia|]. cbn [andb]. apply IH.
    + destruct (Nat.ltb_spec 0 (N.to_nat (f_left f))) as [?|?]; [lia|]. cbn [andb]. apply IH.
  - destruct (Nat.leb_spec (N.to_nat p) (N.to_nat (f_end f))) as [H|H]; [|lia]. reflexivity.
Qed.

(* ---- one instruction *)
Lemma exec_plain O o s s' :
  is_loop o = false -> exec_op O o s = Some s' ->
  loops s' = loops s /\ exists j, pc s' = pc s + 1 + j.
Proof.
  intros L H.
  assert (G: forall st, (exists j, pc st = pc s + 1 + j) -> loops st = loops s -> Some st = Some s' ->
             loops s' = loops s /\ exists j, pc s' = pc s + 1 + j).
  { intros st Hj Hl E. injection E as <-. auto. }
  destruct o; try discriminate L; unfold exec_op in H;
    repeat match type of H with
           | context [match ?x with _ => _ end] => destruct x; try discriminate H
           end;
    (eapply G; [| |exact H]; cbn [pc loops]; [|reflexivity]);
    try (exists 0; lia); try (eexists; reflexivity).
Qed.

Lemma exec_loop0 O len s s' :
  exec_op O (Loop 0 len) s = Some s' -> loops s' = loops s /\ pc s' = pc s + 1 + len.
Proof. cbn. intros H. injection H as <-. cbn. auto. Qed.

Lemma exec_loop O it len s s' :
  0 < it -> exec_op O (Loop it len) s = Some s' ->
  pc s' = pc s + 1 /\
  loops s' = {| f_begin := pc s + 1; f_end := pc s + 1 + len - 1; f_left := it - 1 |} :: loops s /\
  match loops s with [] => True | g :: _ => pc s + 1 + len - 1 <= f_end g end.
Proof.
  intros Hit. unfold exec_op.
  destruct (N.ltb_spec 0 it) as [_|?]; [|lia].
  destruct (loops s) as [|g rest] eqn:E.
  - intros H. injection H as <-. cbn. auto.
  - destruct (N.ltb_spec (f_end g) (pc s + 1 + len - 1)) as [?|Hle]; cbn [negb]; [discriminate|].
    intros H. injection H as <-. cbn. auto.
Qed.

Lemma step_sim O prog s s' :
  step O prog s = Some s' -> LA.astep (aprog prog) (abs s) (abs s').
Proof.
  unfold step. destruct (nth_error prog (N.to_nat (pc s))) as [o|] eqn:Hn; [|discriminate].
  destruct (exec_op O o s) as [s1|] eqn:Hx; [|discriminate].
  destruct (update (pc s1) (loops s1)) as [p l] eqn:Hu. intros H. injection H as <-.
  assert (Hn' : nth_error (aprog prog) (N.to_nat (pc s)) = Some (aop_of o))
    by (unfold aprog; apply map_nth_error; exact Hn).
  pose proof (update_abs (loops s1) (pc s1)) as UA. rewrite Hu in UA. cbn [fst snd] in UA.
  unfold abs. cbn [pc loops]. rewrite <- UA.
  destruct (is_loop o) eqn:L.
  - destruct o; try discriminate L. cbn [aop_of] in Hn'.
    destruct (N.eqb_spec iters 0) as [->|Hne].
    + apply exec_loop0 in Hx as [Hl Hp]. rewrite Hl, Hp.
      replace (N.to_nat (pc s + 1 + len)) with (N.to_nat (pc s) + 1 + N.to_nat len)%nat by lia.
      apply LA.st_loop0. exact Hn'.
    + apply exec_loop in Hx as (Hp & Hl & Hnest); [|lia]. rewrite Hl, Hp. cbn [map]. rewrite aframe_mk.
      replace (N.to_nat iters) with (S (N.to_nat (iters - 1))) in Hn' by lia.
      replace (N.to_nat (pc s + 1)) with (N.to_nat (pc s) + 1)%nat by lia.
      replace (N.to_nat (pc s + 1 + len - 1)) with (N.to_nat (pc s) + N.to_nat len)%nat by lia.
      apply LA.st_loop; [exact Hn'|].
      destruct (loops s) as [|g rest]; [exact I|]. cbn [map aframe LA.fe]. lia.
  - rewrite (aop_plain o L) in Hn'.
    apply (exec_plain O o s s1 L) in Hx as [Hl [j Hp]]. rewrite Hl, Hp.
    replace (N.to_nat (pc s + 1 + j)) with (N.to_nat (pc s) + 1 + N.to_nat j)%nat by lia.
    eapply LA.st_plain. exact Hn'.
Qed.

(* ---- runs *)
Lemma asteps_snoc prog k a b c :
  LA.asteps prog k a b -> LA.astep prog b c -> LA.asteps prog (S k) a c.
Proof.
  induction 1 as [s|k s1 s2 s3 Hs Hrest IH]; intros Hc.
  - econstructor; [exact Hc|constructor].
  - econstructor; [exact Hs|apply IH; exact Hc].
Qed.

Lemma aprog_weight_pos prog : forall c, In (LA.Plain c) (aprog prog) -> (1 <= c)%nat.
Proof.
  intros c Hin. unfold aprog in Hin. apply in_map_iff in Hin as (o & E & _).
  destruct (is_loop o) eqn:L.
  - destruct o; try discriminate L. discriminate E.
  - rewrite (aop_plain o L) in E. injection E as <-. pose proof (base_weight_pos o L). lia.
Qed.

Section Run.
Variable O : oracle.
Variable prog : list op.
Variable h : list (N * value).

Let init_abs : nat * list LA.frame := (0%nat, []).

Lemma abs_init : abs (init_state h) = init_abs.
Proof. reflexivity. Qed.

(* invariant of the run loop: after n0 steps we are in a state reached by n0 abstract steps *)
Lemma run_nat_inv : forall k s n0,
  LA.asteps (aprog prog) (N.to_nat n0) init_abs (abs s) ->
  match run_nat O prog k s n0 with
  | Cont s' n' => n' = n0 + N.of_nat k /\ LA.asteps (aprog prog) (N.to_nat n') init_abs (abs s')
  | Fin _ n' => n' <= weightZ prog
  end.
Proof.
  induction k as [|k IH]; intros s n0 Hreach.
  - cbn [run_nat]. split; [lia|exact Hreach].
  - cbn [run_nat]. unfold step1.
    destruct (N.ltb_spec (pc s) (len prog)) as [Hpc|Hpc].
    + destruct (step O prog s) as [s'|] eqn:Hs.
      * apply step_sim in Hs.
        assert (Hreach' : LA.asteps (aprog prog) (N.to_nat (n0 + 1)) init_abs (abs s')).
        { replace (N.to_nat (n0 + 1)) with (S (N.to_nat n0)) by lia. eapply asteps_snoc; eauto. }
        specialize (IH s' (n0 + 1) Hreach').
        destruct (run_nat O prog k s' (n0 + 1)) as [s2 n2|r n2].
        -- destruct IH as [-> Hr]. split; [lia|exact Hr].
        -- exact IH.
      * pose proof (LA.steps_plus_one_le_weight (aprog prog) (aprog_weight_pos prog) _ _ Hreach) as B.
        cbn [abs fst] in B. unfold aprog in B at 1. rewrite map_length in B.
        unfold len in Hpc. specialize (B ltac:(lia)).
        rewrite <- weight_abs. lia.
    + pose proof (LA.steps_le_weight (aprog prog) (aprog_weight_pos prog) _ _ Hreach) as B.
      rewrite <- weight_abs. lia.
Qed.

Lemma run_nat_add : forall a b s n,
  run_nat O prog (a + b) s n =
  match run_nat O prog a s n with Cont s' n' => run_nat O prog b s' n' | r => r end.
Proof.
  induction a as [|a IH]; intros b s n; [reflexivity|].
  cbn [Nat.add run_nat]. destruct (step1 O prog s n) as [s' n'|r n']; [apply IH|reflexivity].
Qed.

Lemma run_pos_nat : forall p s n, run_pos O prog p s n = run_nat O prog (Pos.to_nat p) s n.
Proof.
  induction p as [p IH|p IH|]; intros s n.
  - cbn [run_pos]. rewrite Pos2Nat.inj_xI. cbn [run_nat].
    destruct (step1 O prog s n) as [s1 n1|r n1]; [|reflexivity].
    replace (2 * Pos.to_nat p)%nat with (Pos.to_nat p + Pos.to_nat p)%nat by lia.
    rewrite run_nat_add, <- IH. destruct (run_pos O prog p s1 n1); [apply IH|reflexivity].
  - cbn [run_pos]. rewrite Pos2Nat.inj_xO.
    replace (2 * Pos.to_nat p)%nat with (Pos.to_nat p + Pos.to_nat p)%nat by lia.
    rewrite run_nat_add, <- IH. destruct (run_pos O prog p s n); [apply IH|reflexivity].
  - cbn [run_pos]. change (Pos.to_nat 1) with 1%nat. cbn [run_nat].
    destruct (step1 O prog s n); reflexivity.
Qed.

(* every finite prefix of an execution is at most weightZ prog instructions long *)
Theorem steps_le_weight k s n :
  run_nat O prog k (init_state h) 0 = Cont s n -> n = N.of_nat k /\ n <= weightZ prog.
Proof.
  intros H. pose proof (run_nat_inv k (init_state h) 0) as I.
  rewrite H in I. destruct I as [-> Hr]; [constructor|]. split; [lia|].
  pose proof (LA.steps_le_weight (aprog prog) (aprog_weight_pos prog) _ _ Hr).
  rewrite <- weight_abs. lia.
Qed.

(* termination: the fuel run supplies is never exhausted *)
Theorem run_never_out_of_fuel : run O prog h <> OutOfFuel.
Proof.
  unfold run. rewrite run_pos_nat.
  destruct (run_nat O prog (Pos.to_nat (run_fuel prog)) (init_state h) 0) as [s n|r n] eqn:E; [|discriminate].
  exfalso. apply steps_le_weight in E as [-> Hle].
  unfold run_fuel in Hle. rewrite positive_nat_N, N.succ_pos_spec in Hle. lia.
Qed.

(* the executed instruction count (including a final failing instruction) is within the weight *)
Theorem run_steps_le_weight r n : run O prog h = Finished r n -> n <= weightZ prog.
Proof.
  unfold run. rewrite run_pos_nat. intros H.
  pose proof (run_nat_inv (Pos.to_nat (run_fuel prog)) (init_state h) 0) as I.
  destruct (run_nat O prog (Pos.to_nat (run_fuel prog)) (init_state h) 0) as [s m|r' m]; [discriminate|].
  injection H as _ <-. apply I. constructor.
Qed.

(* and when the charged (saturating u128) weight has not saturated it is the same bound *)
Corollary run_steps_le_charged_weight r n :
  weightZ prog <= MAX128 -> run O prog h = Finished r n -> n <= weight prog.
Proof.
  intros Hs H. rewrite weight_is_saturated. apply run_steps_le_weight in H. lia.
Qed.

End Run.

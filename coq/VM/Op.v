(* MelVM opcodes: one constructor per variant of melvm::opcode::OpCode
   (Print is behind the cargo feature "print" and is not part of the consensus build). *)
From MelVerif Require Export Base.Arith.

Inductive op :=
| Noop
| Add | Sub | Mul | Div | Rem | Exp (k : N)
| And | Or | Xor | Not | Eql | Lt | Gt | Shl | Shr
| Hash (n : N) | SigEOk (n : N)
| Store | Load | StoreImm (i : N) | LoadImm (i : N)
| VRef | VAppend | VEmpty | VLength | VSlice | VSet | VPush | VCons
| BRef | BAppend | BEmpty | BLength | BSlice | BSet | BPush | BCons
| Bez (j : N) | Bnz (j : N) | Jmp (j : N)
| Loop (iters len : N)
| ItoB | BtoI | TypeQ
| PushB (bs : list N) | PushI (n : N) | PushIC (n : N)
| Dup.

(* constructor names without operands; Generated.v maps these to opcode bytes, operand shapes, weights *)
Inductive tag :=
| TNoop
| TAdd | TSub | TMul | TDiv | TRem | TExp
| TAnd | TOr | TXor | TNot | TEql | TLt | TGt | TShl | TShr
| THash | TSigEOk
| TStore | TLoad | TStoreImm | TLoadImm
| TVRef | TVAppend | TVEmpty | TVLength | TVSlice | TVSet | TVPush | TVCons
| TBRef | TBAppend | TBEmpty | TBLength | TBSlice | TBSet | TBPush | TBCons
| TBez | TBnz | TJmp
| TLoop
| TItoB | TBtoI | TTypeQ
| TPushB | TPushI | TPushIC
| TDup.

Definition all_tags : list tag :=
  [TNoop; TAdd; TSub; TMul; TDiv; TRem; TExp; TAnd; TOr; TXor; TNot; TEql; TLt; TGt; TShl; TShr;
   THash; TSigEOk; TStore; TLoad; TStoreImm; TLoadImm;
   TVRef; TVAppend; TVEmpty; TVLength; TVSlice; TVSet; TVPush; TVCons;
   TBRef; TBAppend; TBEmpty; TBLength; TBSlice; TBSet; TBPush; TBCons;
   TBez; TBnz; TJmp; TLoop; TItoB; TBtoI; TTypeQ; TPushB; TPushI; TPushIC; TDup].

Definition tag_of (o : op) : tag :=
  match o with
  | Noop => TNoop
  | Add => TAdd | Sub => TSub | Mul => TMul | Div => TDiv | Rem => TRem | Exp _ => TExp
  | And => TAnd | Or => TOr | Xor => TXor | Not => TNot | Eql => TEql | Lt => TLt | Gt => TGt
  | Shl => TShl | Shr => TShr
  | Hash _ => THash | SigEOk _ => TSigEOk
  | Store => TStore | Load => TLoad | StoreImm _ => TStoreImm | LoadImm _ => TLoadImm
  | VRef => TVRef | VAppend => TVAppend | VEmpty => TVEmpty | VLength => TVLength
  | VSlice => TVSlice | VSet => TVSet | VPush => TVPush | VCons => TVCons
  | BRef => TBRef | BAppend => TBAppend | BEmpty => TBEmpty | BLength => TBLength
  | BSlice => TBSlice | BSet => TBSet | BPush => TBPush | BCons => TBCons
  | Bez _ => TBez | Bnz _ => TBnz | Jmp _ => TJmp
  | Loop _ _ => TLoop
  | ItoB => TItoB | BtoI => TBtoI | TypeQ => TTypeQ
  | PushB _ => TPushB | PushI _ => TPushI | PushIC _ => TPushIC
  | Dup => TDup
  end.

(* how the operands of an opcode are laid out after the opcode byte *)
Inductive shape :=
| SNone            (* no operand *)
| SU8              (* one byte *)
| SU16             (* two bytes, big endian *)
| SU16U16          (* two u16, big endian *)
| SBytes           (* length byte, then that many bytes *)
| SInt32           (* 32 bytes big endian *)
| SIntC.           (* length byte n <= 32, then n bytes big endian, no leading zero byte *)

Definition shape_eqb (a b : shape) : bool :=
  match a, b with
  | SNone, SNone | SU8, SU8 | SU16, SU16 | SU16U16, SU16U16
  | SBytes, SBytes | SInt32, SInt32 | SIntC, SIntC => true
  | _, _ => false
  end.

(* the shape each constructor of [op] has by its Coq type *)
Definition native_shape (t : tag) : shape :=
  match t with
  | TExp => SU8
  | THash | TSigEOk | TStoreImm | TLoadImm | TBez | TBnz | TJmp => SU16
  | TLoop => SU16U16
  | TPushB => SBytes
  | TPushI => SInt32
  | TPushIC => SIntC
  | _ => SNone
  end.

(* operand well-formedness: what the Rust types guarantee *)
Definition wf_op (o : op) : Prop :=
  match o with
  | Exp k => k < U8
  | Hash n | SigEOk n | StoreImm n | LoadImm n | Bez n | Bnz n | Jmp n => n < U16
  | Loop a b => a < U16 /\ b < U16
  | PushB bs => bytes_ok bs
  | PushI n | PushIC n => n < U256
  | _ => True
  end.

Definition wf_opb (o : op) : bool :=
  match o with
  | Exp k => k <? U8
  | Hash n | SigEOk n | StoreImm n | LoadImm n | Bez n | Bnz n | Jmp n => n <? U16
  | Loop a b => (a <? U16) && (b <? U16)
  | PushB bs => bytes_okb bs
  | PushI n | PushIC n => n <? U256
  | _ => true
  end.

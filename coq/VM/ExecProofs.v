(* C10: laws of the reference interpreter (VM/Exec.v). *)
From MelVerif Require Import Base.Arith VM.Op Generated VM.Weight VM.Exec VM.LoopProofs.
From Coq Require Import ZifyN ZifyNat ZifyBool.
Ltac Zify.zify_post_hook ::= Z.div_mod_to_equations.
Open Scope N_scope.
Arguments N.add : simpl never.
Arguments N.mul : simpl never.
Arguments N.sub : simpl never.
Arguments N.div : simpl never.
Arguments N.modulo : simpl never.
Arguments N.pow : simpl never.
Arguments N.ltb : simpl never.
Arguments N.eqb : simpl never.

Definition with_stack (s : state) (st : list value) : state :=
  {| pc := pc s + 1; stack := st; heap := heap s; loops := loops s |}.

(* ---- 256-bit wrapping arithmetic *)
Lemma exec_add O s a b r : stack s = VInt a :: VInt b :: r ->
  exec_op O Add s = Some (with_stack s (VInt ((a + b) mod U256) :: r)).
Proof. intros E. unfold exec_op. rewrite E. reflexivity. Qed.

Lemma exec_mul O s a b r : stack s = VInt a :: VInt b :: r ->
  exec_op O Mul s = Some (with_stack s (VInt ((a * b) mod U256) :: r)).
Proof. intros E. unfold exec_op. rewrite E. reflexivity. Qed.

Lemma wsub256_spec a b : a < U256 -> b < U256 ->
  Z.of_N (wsub256 a b) = ((Z.of_N a - Z.of_N b) mod Z.of_N U256)%Z.
Proof. unfold wsub256, U256. intros Ha Hb. lia. Qed.

Lemma exec_sub O s a b r : stack s = VInt a :: VInt b :: r ->
  exec_op O Sub s = Some (with_stack s (VInt (wsub256 a b) :: r)).
Proof. intros E. unfold exec_op. rewrite E. reflexivity. Qed.

(* ---- division and remainder: top / second, failing on a zero divisor *)
Lemma exec_div O s a b r : stack s = VInt a :: VInt b :: r ->
  exec_op O Div s = if b =? 0 then None else Some (with_stack s (VInt (a / b) :: r)).
Proof. intros E. unfold exec_op. rewrite E. cbn. destruct (b =? 0); reflexivity. Qed.

Lemma exec_rem O s a b r : stack s = VInt a :: VInt b :: r ->
  exec_op O Rem s = if b =? 0 then None else Some (with_stack s (VInt (a mod b) :: r)).
Proof. intros E. unfold exec_op. rewrite E. cbn. destruct (b =? 0); reflexivity. Qed.

(* ---- bit-bounded exponentiation: Exp k computes b^e mod 2^256 iff e < 2^(k+1) *)
Lemma pow_mod_l a n m : m <> 0 -> ((a mod m) ^ n) mod m = (a ^ n) mod m.
Proof.
  intros Hm. induction n as [|n IH] using N.peano_ind.
  - rewrite !N.pow_0_r. reflexivity.
  - rewrite !N.pow_succ_r'. rewrite N.mul_mod by exact Hm. rewrite IH.
    rewrite N.mod_mod by exact Hm. rewrite <- N.mul_mod by exact Hm. reflexivity.
Qed.

Lemma pow_split b e : b ^ e = (b * b) ^ (e / 2) * b ^ (e mod 2).
Proof.
  rewrite <- N.pow_2_r, <- N.pow_mul_r, <- N.pow_add_r. f_equal.
  pose proof (N.div_mod e 2 ltac:(discriminate)). lia.
Qed.

Lemma exp_invariant b e res :
  ((if N.odd e then wmul256 res b else res) * (wmul256 b b) ^ (e / 2)) mod U256 = (res * b ^ e) mod U256.
Proof.
  assert (HU: U256 <> 0) by discriminate.
  rewrite (pow_split b e). unfold wmul256.
  rewrite (N.mul_mod _ (((b * b) mod U256) ^ (e / 2))) by exact HU.
  rewrite pow_mod_l by exact HU.
  assert (Hm: e mod 2 = if N.odd e then 1 else 0).
  { rewrite <- N.bit0_mod, N.bit0_odd. destruct (N.odd e); reflexivity. }
  rewrite Hm. destruct (N.odd e).
  - rewrite N.pow_1_r, N.mod_mod by exact HU. rewrite <- N.mul_mod by exact HU.
    f_equal. lia.
  - rewrite N.pow_0_r, N.mul_1_r. rewrite <- N.mul_mod by exact HU. reflexivity.
Qed.

Lemma exp_loop_ok : forall fuel k e b res,
  e < 2 ^ N.of_nat fuel -> e < 2 ^ k ->
  exists r, exp_loop (S fuel) k e b res = Some r /\ r mod U256 = (res * b ^ e) mod U256.
Proof.
  induction fuel as [|f IH]; intros k e b res Hf Hk.
  - change (N.of_nat 0) with 0 in Hf. rewrite N.pow_0_r in Hf. assert (e = 0) by lia. subst.
    exists res. cbn. rewrite N.pow_0_r, N.mul_1_r. auto.
  - remember (S f) as f1. cbn [exp_loop]. subst f1.
    destruct (N.eqb_spec e 0) as [->|He].
    + exists res. rewrite N.pow_0_r, N.mul_1_r. auto.
    + destruct (N.eqb_spec k 0) as [->|Hk0]; [rewrite N.pow_0_r in Hk; lia|].
      rewrite Nat2N.inj_succ, N.pow_succ_r' in Hf.
      assert (Hk': 2 ^ k = 2 * 2 ^ (k - 1)).
      { replace k with (N.succ (k - 1)) at 1 by lia. apply N.pow_succ_r'. }
      destruct (IH (k - 1) (e / 2) (wmul256 b b) (if N.odd e then wmul256 res b else res)) as (r & Hr & Hm).
      * apply N.div_lt_upper_bound; [discriminate|exact Hf].
      * apply N.div_lt_upper_bound; [discriminate|lia].
      * exists r. split; [exact Hr|]. rewrite Hm. apply exp_invariant.
Qed.

Lemma exp_loop_fail : forall fuel k e b res,
  e < 2 ^ N.of_nat fuel -> 2 ^ k <= e -> exp_loop (S fuel) k e b res = None.
Proof.
  induction fuel as [|f IH]; intros k e b res Hf Hk.
  - change (N.of_nat 0) with 0 in Hf. rewrite N.pow_0_r in Hf.
    assert (2 ^ k <> 0) by (apply N.pow_nonzero; discriminate). lia.
  - remember (S f) as f1. cbn [exp_loop]. subst f1.
    assert (2 ^ k <> 0) by (apply N.pow_nonzero; discriminate).
    destruct (N.eqb_spec e 0) as [->|He]; [lia|].
    destruct (N.eqb_spec k 0) as [->|Hk0]; [reflexivity|].
    rewrite Nat2N.inj_succ, N.pow_succ_r' in Hf.
    assert (Hk': 2 ^ k = 2 * 2 ^ (k - 1)).
    { replace k with (N.succ (k - 1)) at 1 by lia. apply N.pow_succ_r'. }
    apply IH.
    + apply N.div_lt_upper_bound; [discriminate|exact Hf].
    + apply N.div_le_lower_bound; [discriminate|lia].
Qed.

Theorem exec_exp O s k b e r : stack s = VInt b :: VInt e :: r -> e < U256 -> b < U256 ->
  (e < 2 ^ (k + 1) ->
     exists v, exec_op O (Exp k) s = Some (with_stack s (VInt v :: r)) /\ v mod U256 = (b ^ e) mod U256) /\
  (2 ^ (k + 1) <= e -> exec_op O (Exp k) s = None).
Proof.
  intros E He Hb. unfold exec_op. rewrite E. cbn [binop int2].
  assert (Hf: e < 2 ^ N.of_nat 256) by exact He.
  split; intros Hk.
  - destruct (exp_loop_ok 256 (k + 1) e b 1 Hf Hk) as (v & Hv & Hm).
    rewrite Hv. exists v. split; [reflexivity|]. rewrite Hm. f_equal. lia.
  - rewrite (exp_loop_fail 256 (k + 1) e b 1 Hf Hk). reflexivity.
Qed.

(* ---- failures: stack underflow and type errors *)
Lemma binop_underflow f : binop [] f = None /\ forall x, binop [x] f = None.
Proof. split; reflexivity. Qed.

Lemma int2_type_error f x y :
  (forall n, x <> VInt n) \/ (forall n, y <> VInt n) -> int2 f x y = None.
Proof.
  intros [H|H]; destruct x, y; cbn; try reflexivity; exfalso; eapply H; reflexivity.
Qed.

Theorem arith_fails_on_bad_operands O s o :
  In o [Add; Sub; Mul; Div; Rem; And; Or; Xor; Eql; Lt; Gt; Shl; Shr] ->
  (match stack s with
   | VInt _ :: VInt _ :: _ => False
   | _ => True
   end) -> exec_op O o s = None.
Proof.
  intros Hin Hs.
  assert (G: forall f, binop (stack s) (int2 f) = None).
  { intros f. destruct (stack s) as [|x [|y r]]; try reflexivity.
    destruct x; try reflexivity. destruct y; try reflexivity. contradiction. }
  cbn in Hin.
  repeat (destruct Hin as [<-|Hin]; [unfold exec_op; rewrite G; reflexivity|]). contradiction.
Qed.

(* ---- slices: out-of-range or inverted bounds give the empty sequence, never a failure *)
Lemma slice_spec {A} (l : list A) b e :
  slice l b e = if (len l <? e) || (e <? b) then [] else firstn (N.to_nat (e - b)) (skipn (N.to_nat b) l).
Proof. reflexivity. Qed.

Lemma slice_length {A} (l : list A) b e : b <= e -> e <= len l -> len (slice l b e) = e - b.
Proof.
  intros H1 H2. unfold slice, len in *.
  destruct (N.ltb_spec (N.of_nat (length l)) e); [lia|].
  destruct (N.ltb_spec e b); [lia|]. cbn [orb].
  rewrite firstn_length, skipn_length. lia.
Qed.

(* ---- control flow: a non-Loop instruction only moves the pc forward *)
Theorem jumps_forward O o s s' :
  is_loop o = false -> exec_op O o s = Some s' -> pc s < pc s' /\ loops s' = loops s.
Proof.
  intros L H. destruct (exec_plain O o s s' L H) as [Hl [j Hp]]. split; [lia|exact Hl].
Qed.

(* the only backward move is the loop back-edge taken by update_pc_state, which decrements the
   remaining iteration count of the innermost live frame *)
Theorem update_backedge : forall st p p' st',
  update p st = (p', st') -> p' = p \/
  exists f rest, 0 < f_left f /\ p = f_end f + 1 /\ p' = f_begin f /\
    st' = {| f_begin := f_begin f; f_end := f_end f; f_left := f_left f - 1 |} :: rest.
Proof.
  induction st as [|f rest IH]; intros p p' st' H; cbn [update] in H.
  - injection H as <- <-. auto.
  - destruct (N.ltb_spec (f_end f) p).
    + destruct (N.ltb_spec 0 (f_left f)); destruct (N.eqb_spec (p - f_end f) 1); cbn [andb] in H;
        try (apply IH in H; exact H).
      injection H as <- <-. right. exists f, rest. repeat split; try lia.
    + injection H as <- <-. auto.
Qed.

(* ---- result: the value on top of the stack when the pc leaves the program; determinism is by
   construction (run is a function of oracle, program and heap) *)
Theorem result_is_top O prog s n :
  len prog <= pc s ->
  step1 O prog s n = Fin (match stack s with v :: _ => Some v | [] => None end) n.
Proof.
  intros H. unfold step1. destruct (N.ltb_spec (pc s) (len prog)); [lia|reflexivity].
Qed.

Theorem failure_is_final O prog s n :
  pc s < len prog -> step O prog s = None -> step1 O prog s n = Fin None (n + 1).
Proof.
  intros H E. unfold step1. destruct (N.ltb_spec (pc s) (len prog)); [|lia]. rewrite E. reflexivity.
Qed.
